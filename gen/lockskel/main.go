// lockskel: translator for C09. Walks the AST of kernel/mm/pmm/bitmap_allocator.go and emits, as a Coq
// term, the lock-call skeleton of BitmapAllocator.AllocFrame and FreeFrame: which accesses to shared
// allocator state happen where relative to mutex.Acquire / mutex.Release on every control-flow path.
//
//	KAcq / KRel             alloc.mutex.Acquire() / Release()
//	KShared "field"         read or write of a field of *alloc that some allocator operation writes
//	                        (fields never assigned by AllocFrame/FreeFrame or their callees, e.g.
//	                        pools[i].startFrame, are read-only after init and are not events)
//	KSeq, KIf, KLoop, KReturn, KBreak, KContinue    control flow; callee methods of alloc are inlined
//
// Output: Gen/LockSkel.v on stdout. Standard library only.
package main

import (
	"fmt"
	"go/ast"
	"go/parser"
	"go/token"
	"os"
	"sort"
	"strings"
)

var (
	methods  = map[string]*ast.FuncDecl{}
	written  = map[string]bool{}
	recvName = map[string]string{}
	unknown  []string
)

func rootIsRecv(e ast.Expr, recv string) bool {
	switch x := e.(type) {
	case *ast.Ident:
		return x.Name == recv
	case *ast.SelectorExpr:
		return rootIsRecv(x.X, recv)
	case *ast.IndexExpr:
		return rootIsRecv(x.X, recv)
	case *ast.ParenExpr:
		return rootIsRecv(x.X, recv)
	case *ast.StarExpr:
		return rootIsRecv(x.X, recv)
	}
	return false
}

// fieldOf returns the last field name of an access path rooted at the receiver.
func fieldOf(e ast.Expr) string {
	switch x := e.(type) {
	case *ast.SelectorExpr:
		return x.Sel.Name
	case *ast.IndexExpr:
		return fieldOf(x.X)
	case *ast.ParenExpr:
		return fieldOf(x.X)
	case *ast.StarExpr:
		return fieldOf(x.X)
	}
	return "?"
}

func collectWrites(fn *ast.FuncDecl, seen map[string]bool) {
	if fn == nil || seen[fn.Name.Name] {
		return
	}
	seen[fn.Name.Name] = true
	recv := recvName[fn.Name.Name]
	ast.Inspect(fn.Body, func(n ast.Node) bool {
		switch s := n.(type) {
		case *ast.AssignStmt:
			for _, l := range s.Lhs {
				if rootIsRecv(l, recv) {
					written[fieldOf(l)] = true
				}
			}
		case *ast.IncDecStmt:
			if rootIsRecv(s.X, recv) {
				written[fieldOf(s.X)] = true
			}
		case *ast.CallExpr:
			if sel, ok := s.Fun.(*ast.SelectorExpr); ok {
				if id, ok := sel.X.(*ast.Ident); ok && id.Name == recv {
					collectWrites(methods[sel.Sel.Name], seen)
				}
			}
		}
		return true
	})
}

type gen struct {
	recv  string
	depth int
}

func seq(parts []string) string {
	var ps []string
	for _, p := range parts {
		if p != "KSkip" && p != "" {
			ps = append(ps, p)
		}
	}
	if len(ps) == 0 {
		return "KSkip"
	}
	out := ps[len(ps)-1]
	for i := len(ps) - 2; i >= 0; i-- {
		out = "(KSeq " + ps[i] + " " + out + ")"
	}
	return out
}

// expr returns the events of evaluating e, in evaluation order.
func (g *gen) expr(e ast.Expr) string {
	if e == nil {
		return "KSkip"
	}
	var parts []string
	var walk func(e ast.Expr)
	walk = func(e ast.Expr) {
		switch x := e.(type) {
		case nil:
		case *ast.CallExpr:
			if sel, ok := x.Fun.(*ast.SelectorExpr); ok {
				// alloc.mutex.Acquire() / Release()
				if inner, ok := sel.X.(*ast.SelectorExpr); ok && rootIsRecv(inner, g.recv) && inner.Sel.Name == "mutex" {
					switch sel.Sel.Name {
					case "Acquire":
						parts = append(parts, "KAcq")
					case "Release":
						parts = append(parts, "KRel")
					case "TryToAcquire":
						parts = append(parts, "KUnknown")
						unknown = append(unknown, "TryToAcquire on the allocator mutex")
					default:
						parts = append(parts, "KUnknown")
						unknown = append(unknown, "mutex."+sel.Sel.Name)
					}
					return
				}
				if id, ok := sel.X.(*ast.Ident); ok && id.Name == g.recv {
					for _, a := range x.Args {
						walk(a)
					}
					callee := methods[sel.Sel.Name]
					if callee == nil || g.depth > 4 {
						parts = append(parts, "KUnknown")
						unknown = append(unknown, "call "+sel.Sel.Name)
						return
					}
					sub := &gen{recv: recvName[sel.Sel.Name], depth: g.depth + 1}
					parts = append(parts, "(KCall "+sub.block(callee.Body.List)+")")
					return
				}
			}
			walk(x.Fun)
			for _, a := range x.Args {
				walk(a)
			}
		case *ast.SelectorExpr:
			if rootIsRecv(x, g.recv) {
				// inner index expressions are evaluated first
				walkIdx(x, walk)
				f := fieldOf(x)
				if written[f] {
					parts = append(parts, fmt.Sprintf("(KShared %q)", f))
				}
				return
			}
			walk(x.X)
		case *ast.IndexExpr:
			if rootIsRecv(x, g.recv) {
				walkIdx(x, walk)
				f := fieldOf(x)
				if written[f] {
					parts = append(parts, fmt.Sprintf("(KShared %q)", f))
				}
				return
			}
			walk(x.X)
			walk(x.Index)
		case *ast.BinaryExpr:
			walk(x.X)
			walk(x.Y)
		case *ast.UnaryExpr:
			walk(x.X)
		case *ast.ParenExpr:
			walk(x.X)
		case *ast.StarExpr:
			walk(x.X)
		case *ast.TypeAssertExpr:
			walk(x.X)
		case *ast.SliceExpr:
			walk(x.X)
			walk(x.Low)
			walk(x.High)
			walk(x.Max)
		case *ast.CompositeLit:
			for _, el := range x.Elts {
				walk(el)
			}
		case *ast.KeyValueExpr:
			walk(x.Value)
		case *ast.Ident, *ast.BasicLit, *ast.FuncLit, *ast.ArrayType, *ast.MapType, *ast.StructType, *ast.InterfaceType, *ast.FuncType, *ast.ChanType:
		default:
			parts = append(parts, "KUnknown")
			unknown = append(unknown, fmt.Sprintf("expression %T", e))
		}
	}
	walk(e)
	return seq(parts)
}

// walkIdx visits the index sub-expressions of an access path (they are evaluated before the access).
func walkIdx(e ast.Expr, walk func(ast.Expr)) {
	switch x := e.(type) {
	case *ast.SelectorExpr:
		walkIdx(x.X, walk)
	case *ast.IndexExpr:
		walkIdx(x.X, walk)
		walk(x.Index)
	case *ast.ParenExpr:
		walkIdx(x.X, walk)
	case *ast.StarExpr:
		walkIdx(x.X, walk)
	}
}

func (g *gen) block(l []ast.Stmt) string {
	var parts []string
	for _, s := range l {
		parts = append(parts, g.stmt(s))
	}
	return seq(parts)
}

func (g *gen) stmt(s ast.Stmt) string {
	switch x := s.(type) {
	case nil:
		return "KSkip"
	case *ast.ExprStmt:
		return g.expr(x.X)
	case *ast.AssignStmt:
		var parts []string
		for _, r := range x.Rhs {
			parts = append(parts, g.expr(r))
		}
		for _, l := range x.Lhs {
			parts = append(parts, g.expr(l))
		}
		return seq(parts)
	case *ast.IncDecStmt:
		return g.expr(x.X)
	case *ast.DeclStmt:
		var parts []string
		if gd, ok := x.Decl.(*ast.GenDecl); ok {
			for _, sp := range gd.Specs {
				if vs, ok := sp.(*ast.ValueSpec); ok {
					for _, v := range vs.Values {
						parts = append(parts, g.expr(v))
					}
				}
			}
		}
		return seq(parts)
	case *ast.BlockStmt:
		return g.block(x.List)
	case *ast.IfStmt:
		els := "KSkip"
		if x.Else != nil {
			els = g.stmt(x.Else)
		}
		return seq([]string{g.stmt(x.Init), "(KIf " + g.expr(x.Cond) + " " + g.block(x.Body.List) + " " + els + ")"})
	case *ast.ForStmt:
		return seq([]string{g.stmt(x.Init), "(KLoop " + g.expr(x.Cond) + " " + g.block(x.Body.List) + " " + g.stmt(x.Post) + ")"})
	case *ast.RangeStmt:
		// the range expression is evaluated once; with a value variable every iteration copies an element
		once := g.expr(x.X)
		per := "KSkip"
		if x.Value != nil && rootIsRecv(x.X, g.recv) {
			// copying a whole element reads all of its fields
			per = fmt.Sprintf("(KShared %q)", fieldOf(x.X)+"[i] (element copy)")
			if f := fieldOf(x.X); !written[f] && f != "pools" {
				per = "KSkip"
			}
		}
		return seq([]string{once, "(KLoop " + per + " " + g.block(x.Body.List) + " KSkip)"})
	case *ast.ReturnStmt:
		var parts []string
		for _, r := range x.Results {
			parts = append(parts, g.expr(r))
		}
		return "(KReturn " + seq(parts) + ")"
	case *ast.BranchStmt:
		if x.Label != nil {
			unknown = append(unknown, "labelled branch")
			return "KUnknown"
		}
		switch x.Tok {
		case token.BREAK:
			return "KBreak"
		case token.CONTINUE:
			return "KContinue"
		}
		unknown = append(unknown, "branch "+x.Tok.String())
		return "KUnknown"
	case *ast.SwitchStmt:
		// switch tag { case a: ...; case b: ... } as nested ifs (no fallthrough supported)
		out := "KSkip"
		for i := len(x.Body.List) - 1; i >= 0; i-- {
			cc := x.Body.List[i].(*ast.CaseClause)
			var conds []string
			for _, e := range cc.List {
				conds = append(conds, g.expr(e))
			}
			out = "(KIf " + seq(conds) + " " + g.block(cc.Body) + " " + out + ")"
		}
		return seq([]string{g.stmt(x.Init), g.expr(x.Tag), out})
	case *ast.EmptyStmt:
		return "KSkip"
	case *ast.DeferStmt:
		unknown = append(unknown, "defer")
		return "KUnknown"
	case *ast.GoStmt:
		unknown = append(unknown, "go statement")
		return "KUnknown"
	}
	unknown = append(unknown, fmt.Sprintf("statement %T", s))
	return "KUnknown"
}

func main() {
	fset := token.NewFileSet()
	f, err := parser.ParseFile(fset, os.Args[1], nil, 0)
	if err != nil {
		fmt.Fprintln(os.Stderr, err)
		os.Exit(1)
	}
	for _, d := range f.Decls {
		fn, ok := d.(*ast.FuncDecl)
		if !ok || fn.Recv == nil || len(fn.Recv.List) != 1 || fn.Body == nil {
			continue
		}
		t := fn.Recv.List[0].Type
		if st, ok := t.(*ast.StarExpr); ok {
			t = st.X
		}
		if id, ok := t.(*ast.Ident); !ok || id.Name != "BitmapAllocator" {
			continue
		}
		methods[fn.Name.Name] = fn
		if len(fn.Recv.List[0].Names) == 1 {
			recvName[fn.Name.Name] = fn.Recv.List[0].Names[0].Name
		}
	}
	seen := map[string]bool{}
	collectWrites(methods["AllocFrame"], seen)
	collectWrites(methods["FreeFrame"], seen)
	// writing pools[i].freeBitmap[j] writes through the slice: the element, not the header
	var ws []string
	for w := range written {
		ws = append(ws, w)
	}
	sort.Strings(ws)

	fmt.Println("(* GENERATED on every run by gen/lockskel (go/ast) from kernel/mm/pmm/bitmap_allocator.go *)")
	fmt.Println("From Coq Require Import String List.")
	fmt.Println("From FF Require Import Sync.Skel.")
	fmt.Println("Import ListNotations.")
	fmt.Println("Local Open Scope string_scope.")
	fmt.Printf("(* fields of *BitmapAllocator written by AllocFrame/FreeFrame (and callees): %s *)\n", strings.Join(ws, ", "))
	for _, name := range []string{"AllocFrame", "FreeFrame"} {
		fn := methods[name]
		body := "KUnknown"
		if fn != nil {
			g := &gen{recv: recvName[name]}
			body = g.block(fn.Body.List)
		}
		fmt.Printf("Definition skel_%s : skel :=\n  %s.\n", name, body)
	}
	fmt.Printf("Definition skel_written_fields : list string := [%s].\n", quoteJoin(ws))
	fmt.Printf("Definition skel_unknown : list string := [%s].\n", quoteJoin(unknown))
}

func quoteJoin(l []string) string {
	var q []string
	for _, s := range l {
		q = append(q, fmt.Sprintf("%q", s))
	}
	return strings.Join(q, "; ")
}
