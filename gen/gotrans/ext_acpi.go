// ext_acpi.go - gotrans feature "struct pointers into memory" (config key "acpi", agent c14trans), for the ACPI driver
// FEATURE acpi (agent c14trans): ready
//
// Active only when the config has the key "acpi" (and "gres"); the output for every other config is unchanged.
//
//   "acpi": {
//     "structfile": "kernel/device/acpi/table/tables.go",      where the struct types are declared (field TYPES are read there)
//     "structs": { "RSDPDescriptor": { "size": "acpi_sizeof_RSDPDescriptor",
//                                      "fields": { "Revision": "acpi_off_RSDP_Revision", "Ext.Dsdt": "..." } } },
//                  Coq constants (from the in-package constants dump, i.e. the Go compiler's unsafe.Sizeof / unsafe.Offsetof
//                  on the current sources) holding the struct's size and the offset of each field path the code reads
//     "vars": { "rsdpLocationLow": "rsdpLocationLow:64" }      package-level variables that are only read: extra parameters
//   }
//
// Meaning given to the Go constructs (in "world" functions):
//   * a value of type *S (S in "structs") is an ADDRESS (N, nil = 0): `var p *pkg.S`, parameters, named results;
//     (*pkg.S)(unsafe.Pointer(a)) = a;  uintptr(unsafe.Pointer(p)) = p;  `return nil` for such a result = 0;
//   * p.F   for an integer field (path) F     = gfld ld <bytes of F's Go type> p <offset constant>: a load through the memory
//                                                oracle `ld` (Lib/GoOps.v gload; None = not mapped: GPanic);
//     p.F[i] for a byte-array field F          = gfldidx ld <len(F)> p <offset> i: Go's bounds check on i (a Go int), then a
//                                                one-byte load;
//     string(p.F[:]) for a byte-array field F  = gfld ld len(F) p <offset>: the bytes as ONE little-endian number (the
//                                                model's representation of a 4-byte signature); compared with == only;
//     loads are hoisted in front of the statement in evaluation order, like the bounds-checked reads of main.go;
//   * unsafe.Sizeof(*p) / unsafe.Sizeof(pkg.S{}) = the "size" constant of S;
//   * F(args) for another translated "world" function of the package, as an expression (one result; must be the whole
//     expression of its statement or its negation), as a statement, or as the right-hand side of a tuple assignment
//     `a, _, c := F(args)` / `a, b, c = F(args)`: the callee runs on the caller's world (trace), GPanic / GFuel propagate,
//     the callee's extra parameters (ld, oracles, variables) become extra parameters of the caller;
//   * `L: for .. { .. for .. { .. continue L .. } .. }`: a `continue L` inside ONE directly nested inner loop is rewritten
//     (on the syntax tree, before translation) into `flag = true; break` with `flag := false` in front of the inner loop
//     and `if flag { continue }` behind it; `continue L` outside inner loops becomes `continue`; `break L` is rejected;
//   * `defer func() { body }()` as a top-level statement of a function without named results, the closure using no
//     local of the function: the function F is split (on the syntax tree) into F_body (F without the defer statement),
//     F_deferred (the closure body) and F := { r.. := F_body(params); F_deferred(); return r.. }.  A panic in F_body
//     is GPanic (Go would still run the deferred function, then go on panicking: the outcome is a panic either way).
//   * methods over the world, Go maps as events, printf events, []uintptr locals: see the second half of this file.
package main

import (
	"encoding/json"
	"fmt"
	"go/ast"
	"go/parser"
	"go/token"
	"path/filepath"
	"sort"
	"strconv"
	"strings"
)

type acpiStructCfg struct {
	Size   string            `json:"size"`
	Fields map[string]string `json:"fields"`
}

type acpiCfgT struct {
	StructFile string                   `json:"structfile"`
	Structs    map[string]acpiStructCfg `json:"structs"`
	Vars       map[string]string        `json:"vars"`
	// target 2
	Recv         map[string]acpiRecvCfg `json:"recv"`         // struct -> read-only receiver fields -> width ("64", "-1" = bool)
	MapFields    map[string]string      `json:"mapfields"`    // receiver field holding a Go map -> event name prefix
	PureFns      map[string]string      `json:"purefns"`      // pkg.F -> "CoqFunction:width": a pure function of another package given by a Coq function
	Printf       map[string]string      `json:"printf"`       // callee text (kfmt.Fprintf) -> event name
	OpaqueParams []string               `json:"opaqueparams"` // parameter types that are dropped (io.Writer)
	Ctor         map[string]acpiCtorCfg `json:"ctor"`         // function -> its interface-typed result is nil or &Struct{fields}: rewritten to (bool, fields..)
	MethodSeams  map[string]string      `json:"methodseams"`  // method of the receiver that is not translated -> event name
}

type acpiCtorCfg struct {
	Struct string   `json:"struct"`
	Fields []string `json:"fields"` // field names, in the order of the results
	Types  []string `json:"types"`  // their Go types ("uintptr", "bool")
}

var acpiWrap struct {
	Acpi *acpiCfgT `json:"acpi"`
}

var acpiC *acpiCfgT
var acpiDecls = map[string]*ast.StructType{} // struct types of the struct file
var acpiSplit = map[string]bool{}            // functions synthesized by the defer split

func acpiLoadConfig(data []byte) {
	_ = json.Unmarshal(data, &acpiWrap)
	acpiC = acpiWrap.Acpi
}

func acpiOn() bool { return acpiC != nil && cfg.Gres }

// acpiStructName: the struct S when e is the type expression pkg.S or S for a configured struct
func acpiStructName(e ast.Expr) (string, bool) {
	name := ""
	switch t := e.(type) {
	case *ast.Ident:
		name = t.Name
	case *ast.SelectorExpr:
		name = t.Sel.Name
	case *ast.ParenExpr:
		return acpiStructName(t.X)
	}
	if _, ok := acpiC.Structs[name]; ok && name != "" {
		return name, true
	}
	return "", false
}

// acpiTypeOf (hook in typeOf): *pkg.S is an address
func acpiTypeOf(t *ast.StarExpr) (tinfo, bool) {
	if !acpiOn() {
		return tinfo{}, false
	}
	if s, ok := acpiStructName(t.X); ok {
		return tinfo{width: 64, named: "*" + s}, true
	}
	return tinfo{}, false
}

func acpiPtrStruct(ti tinfo) (string, bool) {
	if ti.width == 64 && strings.HasPrefix(ti.named, "*") {
		return ti.named[1:], true
	}
	return "", false
}

// acpiLoadStructs parses the struct file once
func acpiLoadStructs(fset *token.FileSet) {
	if acpiC.StructFile == "" {
		return
	}
	f, err := parser.ParseFile(fset, filepath.Join(cfg.Repo, acpiC.StructFile), nil, 0)
	if err != nil {
		fail("%v", err)
	}
	for _, d := range f.Decls {
		gd, ok := d.(*ast.GenDecl)
		if !ok || gd.Tok != token.TYPE {
			continue
		}
		for _, sp := range gd.Specs {
			ts := sp.(*ast.TypeSpec)
			if st, ok := ts.Type.(*ast.StructType); ok {
				acpiDecls[ts.Name.Name] = st
			}
		}
	}
}

// acpiFieldType: the Go type expression of the field path in struct S (embedded structs are searched for promoted fields)
func acpiFieldType(s string, path []string) ast.Expr {
	st, ok := acpiDecls[s]
	if !ok {
		fail("acpi: struct %s is not declared in %s", s, acpiC.StructFile)
	}
	var find func(st *ast.StructType, name string) ast.Expr
	find = func(st *ast.StructType, name string) ast.Expr {
		for _, fl := range st.Fields.List {
			for _, n := range fl.Names {
				if n.Name == name {
					return fl.Type
				}
			}
		}
		for _, fl := range st.Fields.List {
			if len(fl.Names) == 0 {
				if id, ok := fl.Type.(*ast.Ident); ok {
					if inner, ok := acpiDecls[id.Name]; ok {
						if t := find(inner, name); t != nil {
							return t
						}
					}
				}
			}
		}
		return nil
	}
	var ty ast.Expr
	for i, p := range path {
		ty = find(st, p)
		if ty == nil {
			fail("acpi: no field %s in struct %s", strings.Join(path[:i+1], "."), s)
		}
		if i+1 < len(path) {
			id, ok := ty.(*ast.Ident)
			if !ok {
				fail("acpi: field %s of %s is not a struct", strings.Join(path[:i+1], "."), s)
			}
			st, ok = acpiDecls[id.Name]
			if !ok {
				fail("acpi: field %s of %s is not a struct", strings.Join(path[:i+1], "."), s)
			}
		}
	}
	return ty
}

// acpiPath: e = root.f1...fn with root a variable holding a struct pointer; returns the root's term, struct and path
func (tr *translator) acpiPath(e ast.Expr, en *env) (base string, st string, path []string, ok bool) {
	var names []string
	cur := e
	for {
		sel, isSel := cur.(*ast.SelectorExpr)
		if !isSel {
			break
		}
		names = append([]string{sel.Sel.Name}, names...)
		cur = sel.X
	}
	id, isId := cur.(*ast.Ident)
	if !isId || len(names) == 0 {
		return
	}
	ti, isVar := en.vars[id.Name]
	if !isVar {
		return
	}
	s, isPtr := acpiPtrStruct(ti)
	if !isPtr {
		return
	}
	return v(id.Name), s, names, true
}

func acpiOffset(s string, path []string) string {
	off, ok := acpiC.Structs[s].Fields[strings.Join(path, ".")]
	if !ok {
		fail("acpi: config gives no offset constant for %s.%s", s, strings.Join(path, "."))
	}
	return off
}

// acpiArrayLen: n for a field type [n]byte
func acpiArrayLen(ty ast.Expr) (string, bool) {
	at, ok := ty.(*ast.ArrayType)
	if !ok || at.Len == nil {
		return "", false
	}
	lit, ok := at.Len.(*ast.BasicLit)
	if !ok || lit.Kind != token.INT {
		return "", false
	}
	if el := typeOf(at.Elt, ""); el.width != 8 {
		return "", false
	}
	return lit.Value, true
}

func (tr *translator) acpiHoistOpt(term string) string {
	if tr.noHoist > 0 {
		fail("%s: memory load under && or ||", tr.fn.Name)
	}
	tmp := tr.tmp()
	tr.pre = append(tr.pre, fmt.Sprintf("match %s with None => GPanic | Some %s =>", term, tmp))
	tr.extUsed["ld"] = -20
	return tmp
}

// acpiWorldCallee: c is F(args) for a translated world function F of this package
func (tr *translator) acpiWorldCallee(c *ast.CallExpr, en *env) (fnSpec, bool) {
	id, ok := c.Fun.(*ast.Ident)
	if !ok || tr.mon != "world" {
		return fnSpec{}, false
	}
	if _, shadowed := en.vars[id.Name]; shadowed {
		return fnSpec{}, false
	}
	sp, ok := tr.funcs[id.Name]
	if !ok || !sp.World || sp.Pkg != tr.pkg || sp.Recv != "" {
		return fnSpec{}, false
	}
	return sp, true
}

// acpiMethodCallee: c is drv.M(args) for the receiver drv and a translated world method M of its struct
func (tr *translator) acpiMethodCallee(c *ast.CallExpr, en *env) (fnSpec, bool) {
	sel, ok := c.Fun.(*ast.SelectorExpr)
	if !ok || tr.mon != "world" {
		return fnSpec{}, false
	}
	id, ok := sel.X.(*ast.Ident)
	if !ok {
		return fnSpec{}, false
	}
	st, ok := acpiRecvInfo(en.vars[id.Name])
	if !ok {
		return fnSpec{}, false
	}
	sp, ok := tr.funcs[st+"."+sel.Sel.Name]
	if !ok || !sp.World || sp.Recv != st {
		return fnSpec{}, false
	}
	return sp, true
}

// acpiHoistCall hoists the call and returns the variables bound to its results
func (tr *translator) acpiHoistCall(c *ast.CallExpr, spec fnSpec, en *env, mk func() string) ([]string, []tinfo) {
	if tr.noHoist > 0 {
		fail("%s: call of %s under && or ||", tr.fn.Name, spec.Name)
	}
	name := coqName(spec.Pkg, spec.Recv, spec.Name)
	rts, known := monResults[name]
	if !known {
		fail("%s: %s must be translated before its caller (order of \"funcs\")", tr.fn.Name, spec.Name)
	}
	if monInout[name] {
		fail("%s: call of %s, which stores into a parameter", tr.fn.Name, spec.Name)
	}
	args := []string{v(tr.ptrRecv)}
	if sel, isSel := c.Fun.(*ast.SelectorExpr); isSel && spec.Recv != "" {
		// a method of the receiver: its read-only fields are the callee's leading parameters
		id := sel.X.(*ast.Ident)
		var fs []string
		for f := range acpiC.Recv[spec.Recv] {
			fs = append(fs, f)
		}
		sort.Strings(fs)
		for _, f := range fs {
			args = append(args, v(id.Name+"_"+f))
		}
	}
	for _, a := range c.Args {
		if id, isId := a.(*ast.Ident); isId && en.vars[id.Name].width == -31 {
			continue // an opaque parameter handed on
		}
		as, at := tr.expr(a, en)
		if at.width < 0 && at.width != -1 && at.width != -2 {
			fail("%s: unsupported argument in the call of %s", tr.fn.Name, spec.Name)
		}
		args = append(args, as)
	}
	for _, xp := range monExtra[name] {
		args = append(args, xp.name)
		switch xp.kind {
		case "seam":
			tr.seamUsed[xp.name] = xp.width
		case "ext":
			tr.extUsed[xp.name] = xp.width
		case "oracle":
			tr.oracleUsed[xp.name] = xp.ty
		default:
			fail("%s: %s has an extra parameter of kind %s", tr.fn.Name, spec.Name, xp.kind)
		}
	}
	var pats []string
	for range rts {
		pats = append(pats, mk())
	}
	pat := "_"
	if len(pats) == 1 {
		pat = pats[0]
	} else if len(pats) > 1 {
		pat = "(" + strings.Join(pats, ", ") + ")"
	}
	callee := name
	if monFuel[name] {
		callee += " fuel"
		tr.usesFuel = true
	}
	tr.pre = append(tr.pre, fmt.Sprintf("match %s %s with GPanic => GPanic | GFuel => GFuel | GOk (%s, %s) =>", callee, strings.Join(args, " "), v(tr.ptrRecv), pat))
	return pats, rts
}

// isUnsafePointerOf: e = unsafe.Pointer(x)
func isUnsafePointerOf(e ast.Expr) (ast.Expr, bool) {
	c, ok := e.(*ast.CallExpr)
	if !ok || len(c.Args) != 1 || exprText(c.Fun) != "unsafe.Pointer" {
		return nil, false
	}
	return c.Args[0], true
}

// acpiExpr (hook at the top of expr)
func (tr *translator) acpiExpr(e ast.Expr, en *env) (string, tinfo, bool) {
	if tr.mon != "world" {
		return "", tinfo{}, false
	}
	switch t := e.(type) {
	case *ast.Ident:
		if c, ok := acpiC.Vars[t.Name]; ok {
			if _, shadowed := en.vars[t.Name]; !shadowed {
				n, ti := constInfo(c)
				tr.extUsed[n] = ti.width
				return n, ti, true
			}
		}
	case *ast.SelectorExpr:
		if s, ti, ok := tr.acpiRecvField(t, en); ok { // target 2: drv.rsdtAddr
			return s, ti, true
		}
		base, st, path, ok := tr.acpiPath(t, en)
		if !ok {
			return "", tinfo{}, false
		}
		ty := acpiFieldType(st, path)
		ti := typeOf(ty, "")
		if ti.width != 8 && ti.width != 16 && ti.width != 32 && ti.width != 64 || ti.signed {
			fail("%s: field %s.%s is not an unsigned integer", tr.fn.Name, st, strings.Join(path, "."))
		}
		tmp := tr.acpiHoistOpt(fmt.Sprintf("gfld ld %d %s %s", ti.width/8, base, acpiOffset(st, path)))
		return tmp, tinfo{width: ti.width}, true
	case *ast.IndexExpr:
		sel, isSel := t.X.(*ast.SelectorExpr)
		if !isSel {
			return "", tinfo{}, false
		}
		base, st, path, ok := tr.acpiPath(sel, en)
		if !ok {
			return "", tinfo{}, false
		}
		n, isArr := acpiArrayLen(acpiFieldType(st, path))
		if !isArr {
			fail("%s: index into field %s.%s, which is not a byte array", tr.fn.Name, st, strings.Join(path, "."))
		}
		is, it := tr.expr(t.Index, en)
		if !(it.width == 64 && it.signed) && it.width != 0 {
			fail("%s: index into %s.%s is not a Go int", tr.fn.Name, st, strings.Join(path, "."))
		}
		tmp := tr.acpiHoistOpt(fmt.Sprintf("gfldidx ld %s %s %s %s", n, base, acpiOffset(st, path), is))
		return tmp, tinfo{width: 8}, true
	case *ast.CallExpr:
		if len(t.Args) == 1 {
			// (*pkg.S)(unsafe.Pointer(a))
			if par, ok := t.Fun.(*ast.ParenExpr); ok {
				if star, ok := par.X.(*ast.StarExpr); ok {
					if s, ok := acpiStructName(star.X); ok {
						if a, ok := isUnsafePointerOf(t.Args[0]); ok {
							as, at := tr.expr(a, en)
							if at.width != 64 {
								fail("%s: conversion to *%s of something that is not a uintptr / pointer", tr.fn.Name, s)
							}
							return as, tinfo{width: 64, named: "*" + s}, true
						}
					}
				}
			}
			// uintptr(unsafe.Pointer(p))
			if id, ok := t.Fun.(*ast.Ident); ok && id.Name == "uintptr" {
				if a, ok := isUnsafePointerOf(t.Args[0]); ok {
					as, at := tr.expr(a, en)
					if _, isPtr := acpiPtrStruct(at); !isPtr {
						fail("%s: uintptr(unsafe.Pointer(x)) for x not a struct pointer", tr.fn.Name)
					}
					return as, tinfo{width: 64}, true
				}
			}
			// unsafe.Sizeof(*p) / unsafe.Sizeof(pkg.S{})
			if exprText(t.Fun) == "unsafe.Sizeof" {
				s := ""
				switch a := t.Args[0].(type) {
				case *ast.StarExpr:
					if id, ok := a.X.(*ast.Ident); ok {
						s, _ = acpiPtrStruct(en.vars[id.Name])
					}
				case *ast.CompositeLit:
					if a.Type != nil && len(a.Elts) == 0 {
						s, _ = acpiStructName(a.Type)
					}
				}
				if s == "" || acpiC.Structs[s].Size == "" {
					fail("%s: unsafe.Sizeof of something that is not a configured struct", tr.fn.Name)
				}
				return acpiC.Structs[s].Size, tinfo{width: 64}, true
			}
			// string(p.F[:])
			if id, ok := t.Fun.(*ast.Ident); ok && id.Name == "string" {
				if sl, ok := t.Args[0].(*ast.SliceExpr); ok && sl.Low == nil && sl.High == nil && !sl.Slice3 {
					if sel, ok := sl.X.(*ast.SelectorExpr); ok {
						if base, st, path, ok := tr.acpiPath(sel, en); ok {
							n, isArr := acpiArrayLen(acpiFieldType(st, path))
							if !isArr || (n != "1" && n != "2" && n != "4" && n != "8") {
								fail("%s: string(%s.%s[:]) for a field that is not a byte array of 1, 2, 4 or 8 bytes", tr.fn.Name, st, strings.Join(path, "."))
							}
							var nb int
							fmt.Sscanf(n, "%d", &nb)
							tmp := tr.acpiHoistOpt(fmt.Sprintf("gfld ld %s %s %s", n, base, acpiOffset(st, path)))
							return tmp, tinfo{width: 8 * nb, named: "string"}, true
						}
					}
				}
			}
		}
		if s, ti, ok := tr.acpiPureCall(t, en); ok { // target 2
			return s, ti, true
		}
		if s, ti, ok := tr.acpiMake(t, en); ok { // target 2
			return s, ti, true
		}
		spec, ok := tr.acpiWorldCallee(t, en)
		if !ok {
			spec, ok = tr.acpiMethodCallee(t, en)
		}
		if ok {
			pats, rts := tr.acpiHoistCall(t, spec, en, tr.tmp)
			tr.hoistedCall = true
			switch len(pats) {
			case 0:
				return "tt", tinfo{width: -3}, true
			case 1:
				return pats[0], rts[0], true
			}
			return "MULTI", tinfo{width: -3}, true
		}
	}
	return "", tinfo{}, false
}

// acpiStmt (hook at the top of block)
func (tr *translator) acpiStmt(stmts []ast.Stmt, en *env, k func(en *env) string, rest func(en *env) string) (string, bool) {
	if tr.mon != "world" {
		return "", false
	}
	switch s := stmts[0].(type) {
	case *ast.ReturnStmt:
		// `return nil, ..` for a result of struct pointer type: the address 0
		for i, r := range s.Results {
			if id, ok := r.(*ast.Ident); ok && id.Name == "nil" && i < len(tr.results) {
				if _, isPtr := acpiPtrStruct(tr.results[i]); isPtr {
					s.Results[i] = &ast.BasicLit{Kind: token.INT, Value: "0"}
				}
			}
		}
	case *ast.AssignStmt:
		if out, ok := tr.acpiMapStore(s, en, rest); ok { // target 2
			return out, true
		}
		if len(s.Rhs) == 1 && len(s.Lhs) > 1 && (s.Tok == token.DEFINE || s.Tok == token.ASSIGN) {
			c, isCall := s.Rhs[0].(*ast.CallExpr)
			if !isCall {
				return "", false
			}
			spec, ok := tr.acpiWorldCallee(c, en)
			if !ok {
				return "", false
			}
			var names []string
			pats, rts := tr.acpiHoistCall(c, spec, en, func() string {
				tr.ntmp++
				names = append(names, fmt.Sprintf("acpiR%d", tr.ntmp))
				return v(names[len(names)-1])
			})
			if len(pats) != len(s.Lhs) {
				fail("%s: %s returns %d values", tr.fn.Name, spec.Name, len(pats))
			}
			pre := tr.pre
			tr.pre = nil
			tr.hoistedCall = false
			en2 := en.clone()
			var seq []ast.Stmt
			for i, l := range s.Lhs {
				if id, ok := l.(*ast.Ident); ok && id.Name == "_" {
					continue
				}
				nm := names[i]
				en2.vars[nm] = rts[i]
				seq = append(seq, &ast.AssignStmt{Lhs: []ast.Expr{l}, Tok: s.Tok, Rhs: []ast.Expr{ast.NewIdent(nm)}})
			}
			return tr.wrapPre(pre, tr.block(append(seq, stmts[1:]...), en2, k)), true
		}
	case *ast.ExprStmt:
		if out, ok := tr.acpiExprStmt(s, en, rest); ok { // target 2: kfmt.Fprintf
			return out, true
		}
	case *ast.DeclStmt:
		if out, ok := tr.acpiDecl(s, stmts, en, k); ok { // target 2: var block with loads / a slice of uintptr
			return out, true
		}
	}
	return "", false
}

// ---- syntax-tree preprocessing: labelled continue from an inner loop, defer ----------------------------------------

// acpiPreprocess (hook in main before the functions are translated)
func acpiPreprocess(fset *token.FileSet, files map[string]*ast.File, funcs map[string]fnSpec) {
	if !acpiOn() {
		return
	}
	acpiLoadStructs(fset)
	var out []fnSpec
	for _, spec := range cfg.Funcs {
		if !spec.World {
			out = append(out, spec)
			continue
		}
		path := filepath.Join(cfg.Repo, spec.File)
		file := files[path]
		if file == nil {
			var err error
			file, err = parser.ParseFile(fset, path, nil, 0)
			if err != nil {
				fail("%v", err)
			}
			files[path] = file
		}
		var decl *ast.FuncDecl
		for _, d := range file.Decls {
			if fd, ok := d.(*ast.FuncDecl); ok && fd.Name.Name == spec.Name && fd.Body != nil {
				if (fd.Recv == nil) == (spec.Recv == "") {
					decl = fd
				}
			}
		}
		if decl == nil {
			out = append(out, spec)
			continue
		}
		acpiCtor(spec, decl)
		decl.Body.List = acpiLabels(spec.Name, decl.Body.List)
		extra := acpiDefer(spec, decl, file)
		for _, x := range extra {
			out = append(out, x)
			funcs[x.Name] = x
			funcs[x.Pkg+"."+x.Name] = x
		}
		out = append(out, spec)
	}
	cfg.Funcs = out
}

func acpiHasLabelBranch(n ast.Node, label string) bool {
	found := false
	ast.Inspect(n, func(x ast.Node) bool {
		if b, ok := x.(*ast.BranchStmt); ok && b.Label != nil && b.Label.Name == label {
			found = true
		}
		return !found
	})
	return found
}

// acpiLabels rewrites labelled loops in a statement list (recursively)
func acpiLabels(fn string, list []ast.Stmt) []ast.Stmt {
	var out []ast.Stmt
	for _, st := range list {
		switch s := st.(type) {
		case *ast.LabeledStmt:
			fs, ok := s.Stmt.(*ast.ForStmt)
			if !ok {
				fail("%s: a label on something that is not a for loop", fn)
			}
			label := s.Label.Name
			var body []ast.Stmt
			nflag := 0
			for _, b := range fs.Body.List {
				var innerBody *ast.BlockStmt
				switch in := b.(type) {
				case *ast.ForStmt:
					innerBody = in.Body
				case *ast.RangeStmt:
					innerBody = in.Body
				}
				if innerBody != nil && acpiHasLabelBranch(innerBody, label) {
					nflag++
					flag := fmt.Sprintf("acpi_%s_%d", label, nflag)
					innerBody.List = acpiReplaceBranch(fn, innerBody.List, label, func() ast.Stmt {
						return &ast.BlockStmt{List: []ast.Stmt{
							&ast.AssignStmt{Lhs: []ast.Expr{ast.NewIdent(flag)}, Tok: token.ASSIGN, Rhs: []ast.Expr{ast.NewIdent("true")}},
							&ast.BranchStmt{Tok: token.BREAK},
						}}
					}, true)
					body = append(body,
						&ast.AssignStmt{Lhs: []ast.Expr{ast.NewIdent(flag)}, Tok: token.DEFINE, Rhs: []ast.Expr{ast.NewIdent("false")}},
						b,
						&ast.IfStmt{Cond: ast.NewIdent(flag), Body: &ast.BlockStmt{List: []ast.Stmt{&ast.BranchStmt{Tok: token.CONTINUE}}}})
					continue
				}
				body = append(body, b)
			}
			body = acpiReplaceBranch(fn, body, label, func() ast.Stmt { return &ast.BranchStmt{Tok: token.CONTINUE} }, false)
			fs.Body.List = acpiLabels(fn, body)
			if acpiHasLabelBranch(fs, label) {
				fail("%s: unsupported use of label %s", fn, label)
			}
			out = append(out, fs)
		case *ast.ForStmt:
			s.Body.List = acpiLabels(fn, s.Body.List)
			out = append(out, s)
		case *ast.RangeStmt:
			s.Body.List = acpiLabels(fn, s.Body.List)
			out = append(out, s)
		case *ast.BlockStmt:
			s.List = acpiLabels(fn, s.List)
			out = append(out, s)
		case *ast.IfStmt:
			s.Body.List = acpiLabels(fn, s.Body.List)
			if eb, ok := s.Else.(*ast.BlockStmt); ok {
				eb.List = acpiLabels(fn, eb.List)
			}
			out = append(out, s)
		default:
			out = append(out, st)
		}
	}
	return out
}

// acpiReplaceBranch replaces `continue label` in the list (through blocks and ifs; not through loops / switches, where
// a plain break / continue would mean something else) by mk(); inLoop: the list is the body of the inner loop
func acpiReplaceBranch(fn string, list []ast.Stmt, label string, mk func() ast.Stmt, inLoop bool) []ast.Stmt {
	var out []ast.Stmt
	for _, st := range list {
		switch s := st.(type) {
		case *ast.BranchStmt:
			if s.Label != nil && s.Label.Name == label {
				if s.Tok != token.CONTINUE {
					fail("%s: %v %s is not supported", fn, s.Tok, label)
				}
				out = append(out, mk())
				continue
			}
		case *ast.BlockStmt:
			s.List = acpiReplaceBranch(fn, s.List, label, mk, inLoop)
		case *ast.IfStmt:
			s.Body.List = acpiReplaceBranch(fn, s.Body.List, label, mk, inLoop)
			switch e := s.Else.(type) {
			case *ast.BlockStmt:
				e.List = acpiReplaceBranch(fn, e.List, label, mk, inLoop)
			case *ast.IfStmt:
				s.Else = acpiReplaceBranch(fn, []ast.Stmt{e}, label, mk, inLoop)[0]
			}
		case *ast.ForStmt, *ast.RangeStmt, *ast.SwitchStmt, *ast.TypeSwitchStmt, *ast.SelectStmt:
			if acpiHasLabelBranch(s, label) && (inLoop || !isLoop(s)) {
				fail("%s: continue %s from inside a nested loop or switch is not supported", fn, label)
			}
		}
		out = append(out, st)
	}
	return out
}

func isLoop(s ast.Stmt) bool {
	switch s.(type) {
	case *ast.ForStmt, *ast.RangeStmt:
		return true
	}
	return false
}

// acpiDefer splits a function with a top-level `defer func() {..}()`; returns the specs of the synthesized functions
func acpiDefer(spec fnSpec, decl *ast.FuncDecl, file *ast.File) []fnSpec {
	idx := -1
	for i, st := range decl.Body.List {
		if _, ok := st.(*ast.DeferStmt); ok {
			if idx >= 0 {
				fail("%s: more than one defer statement", spec.Name)
			}
			idx = i
		}
	}
	nested := false
	for i, st := range decl.Body.List {
		if i == idx {
			continue
		}
		ast.Inspect(st, func(n ast.Node) bool {
			if _, ok := n.(*ast.DeferStmt); ok {
				nested = true
			}
			return true
		})
	}
	if nested {
		fail("%s: defer inside a nested statement", spec.Name)
	}
	if idx < 0 {
		return nil
	}
	ds := decl.Body.List[idx].(*ast.DeferStmt)
	lit, ok := ds.Call.Fun.(*ast.FuncLit)
	if !ok || len(ds.Call.Args) != 0 || len(lit.Type.Params.List) != 0 || (lit.Type.Results != nil && len(lit.Type.Results.List) != 0) {
		fail("%s: only `defer func() {..}()` is supported", spec.Name)
	}
	if decl.Recv != nil {
		fail("%s: defer in a method", spec.Name)
	}
	// the closure must not use a local of the function; the function must not have named results
	locals := map[string]bool{}
	for _, p := range decl.Type.Params.List {
		for _, n := range p.Names {
			locals[n.Name] = true
		}
	}
	if decl.Type.Results != nil {
		for _, r := range decl.Type.Results.List {
			if len(r.Names) > 0 {
				fail("%s: defer in a function with named results", spec.Name)
			}
		}
	}
	for i, st := range decl.Body.List {
		if i == idx {
			continue
		}
		ast.Inspect(st, func(n ast.Node) bool {
			switch d := n.(type) {
			case *ast.AssignStmt:
				if d.Tok == token.DEFINE {
					for _, l := range d.Lhs {
						if id, ok := l.(*ast.Ident); ok {
							locals[id.Name] = true
						}
					}
				}
			case *ast.ValueSpec:
				for _, id := range d.Names {
					locals[id.Name] = true
				}
			case *ast.RangeStmt:
				if d.Tok == token.DEFINE {
					for _, e := range []ast.Expr{d.Key, d.Value} {
						if id, ok := e.(*ast.Ident); ok {
							locals[id.Name] = true
						}
					}
				}
			}
			return true
		})
	}
	own := map[string]bool{}
	ast.Inspect(lit.Body, func(n ast.Node) bool {
		switch d := n.(type) {
		case *ast.AssignStmt:
			if d.Tok == token.DEFINE {
				for _, l := range d.Lhs {
					if id, ok := l.(*ast.Ident); ok {
						own[id.Name] = true
					}
				}
			}
		case *ast.ReturnStmt:
			fail("%s: return inside the deferred closure", spec.Name)
		case *ast.CallExpr:
			if id, ok := d.Fun.(*ast.Ident); ok && id.Name == "recover" {
				fail("%s: recover in the deferred closure", spec.Name)
			}
		}
		return true
	})
	ast.Inspect(lit.Body, func(n ast.Node) bool {
		if id, ok := n.(*ast.Ident); ok && locals[id.Name] && !own[id.Name] {
			fail("%s: the deferred closure uses the local variable %s", spec.Name, id.Name)
		}
		return true
	})
	bodyName, defName := spec.Name+"_body", spec.Name+"_deferred"
	var bodyList []ast.Stmt
	bodyList = append(bodyList, decl.Body.List[:idx]...)
	bodyList = append(bodyList, decl.Body.List[idx+1:]...)
	bodyDecl := &ast.FuncDecl{Name: ast.NewIdent(bodyName), Type: decl.Type, Body: &ast.BlockStmt{List: bodyList}}
	defDecl := &ast.FuncDecl{Name: ast.NewIdent(defName), Type: &ast.FuncType{Params: &ast.FieldList{}}, Body: lit.Body}
	file.Decls = append(file.Decls, bodyDecl, defDecl)
	var args []ast.Expr
	for _, p := range decl.Type.Params.List {
		for _, n := range p.Names {
			args = append(args, ast.NewIdent(n.Name))
		}
	}
	nres := 0
	if decl.Type.Results != nil {
		nres = len(decl.Type.Results.List)
	}
	call := &ast.CallExpr{Fun: ast.NewIdent(bodyName), Args: args}
	var newBody []ast.Stmt
	var rets []ast.Expr
	var lhs []ast.Expr
	for i := 0; i < nres; i++ {
		nm := fmt.Sprintf("acpiD%d", i)
		lhs = append(lhs, ast.NewIdent(nm))
		rets = append(rets, ast.NewIdent(nm))
	}
	switch nres {
	case 0:
		newBody = append(newBody, &ast.ExprStmt{X: call})
	case 1:
		fail("%s: defer in a function with a single result is not supported", spec.Name)
	default:
		newBody = append(newBody, &ast.AssignStmt{Lhs: lhs, Tok: token.DEFINE, Rhs: []ast.Expr{call}})
	}
	newBody = append(newBody, &ast.ExprStmt{X: &ast.CallExpr{Fun: ast.NewIdent(defName)}})
	newBody = append(newBody, &ast.ReturnStmt{Results: rets})
	decl.Body = &ast.BlockStmt{List: newBody}
	b := fnSpec{File: spec.File, Pkg: spec.Pkg, Name: bodyName, World: true}
	d := fnSpec{File: spec.File, Pkg: spec.Pkg, Name: defName, World: true}
	acpiSplit[bodyName], acpiSplit[defName] = true, true
	return []fnSpec{b, d}
}

// ---- target 2 (enumerateTables) -------------------------------------------------------------------------------------
//   "recv": {"acpiDriver": {"rsdtAddr": "64", "useXSDT": "-1"}}   a METHOD of the listed struct marked "world" is translated over the
//        world; the listed receiver fields are only read and become parameters v_<recv>_<field> (N, or bool for -1), in
//        alphabetical order, right after the world;
//   "mapfields": {"tableMap": "tableMap"}   a receiver field holding a Go map: `drv.f = make(map[..]..)` is the event
//        GCall "<name>.make" [], `drv.f[k] = v` the event GCall "<name>.set" [GNum k; GNum v] (k a string(..) number, v a pointer);
//   "printf": {"kfmt.Fprintf": "Fprintf"}   the statement kfmt.Fprintf(w, "format", a, b, ..) is the event
//        GCall "Fprintf" [GBytes <bytes of the format string>; GNum a; GNum b; ..] (the writer is not modelled);
//   "opaqueparams": ["io.Writer"]           parameters of these types are dropped (only handed to printf calls);
//   "purefns": {"vmm.PageOffset": "acpi_vmm_PageOffset:64"}   a pure function of another package given by a Coq function;
//   locals of type []uintptr: `var x []uintptr` (nil), `x = make([]uintptr, n)` (gmake: n zeros), x[i] = e, len(x), range x
//        through main.go's machinery for local byte slices with element width 64;
//   `var ( a = e1; b = e2; c T )` with loads in the initial values: split into `a := e1; b := e2; var c T`;
//   drv.M(args) for another translated world method M of the receiver: as a call of a world function, the receiver's read-only
//        fields handed on; "methodseams": {"printTableInfo": "printTableInfo"}: a method that is NOT translated is an event;
//   "ctor" (see acpiCtor at the end): `return nil` / `return &acpiDriver{rsdtAddr: a, useXSDT: b}` of a function with an
//        interface-typed result become `return false, 0, false` / `return true, a, b` (syntax-tree rewrite).

type acpiRecvCfg map[string]string

func acpiRecvInfo(ti tinfo) (string, bool) {
	if ti.width == -30 && strings.HasPrefix(ti.named, "recv:") {
		return ti.named[5:], true
	}
	return "", false
}

// acpiRecv (hook in main where the receiver is declared): a world method of a struct listed in "recv"
func acpiRecv(tr *translator, decl *ast.FuncDecl, en *env, params *[]string) bool {
	if !acpiOn() || !tr.fn.World || acpiC.Recv == nil {
		return false
	}
	r := decl.Recv.List[0]
	t := r.Type
	if st, ok := t.(*ast.StarExpr); ok {
		t = st.X
	}
	id, ok := t.(*ast.Ident)
	if !ok {
		return false
	}
	fields, ok := acpiC.Recv[id.Name]
	if !ok {
		return false
	}
	if len(r.Names) != 1 {
		fail("%s: unnamed receiver", tr.fn.Name)
	}
	name := r.Names[0].Name
	tr.mon = "world"
	tr.ptrRecv = "world"
	*params = append(*params, "("+v("world")+" : "+recName(structPkg["world"], "world")+")")
	var fs []string
	for f := range fields {
		fs = append(fs, f)
	}
	sort.Strings(fs)
	for _, f := range fs {
		ty := "N"
		if fields[f] == "-1" {
			ty = "bool"
		}
		*params = append(*params, "("+v(name+"_"+f)+" : "+ty+")")
	}
	en.vars[name] = tinfo{width: -30, named: "recv:" + id.Name}
	return true
}

// acpiParam (hook in main's parameter loop): parameters of an opaque type are dropped
func acpiParam(tr *translator, p *ast.Field, en *env, params *[]string) bool {
	if !acpiOn() || tr.mon != "world" {
		return false
	}
	for _, o := range acpiC.OpaqueParams {
		if exprText(p.Type) == o {
			for _, n := range p.Names {
				en.vars[n.Name] = tinfo{width: -31, named: "opaque:" + o}
			}
			return true
		}
	}
	return false
}

// drv.f for a read-only receiver field
func (tr *translator) acpiRecvField(t *ast.SelectorExpr, en *env) (string, tinfo, bool) {
	id, ok := t.X.(*ast.Ident)
	if !ok {
		return "", tinfo{}, false
	}
	st, ok := acpiRecvInfo(en.vars[id.Name])
	if !ok {
		return "", tinfo{}, false
	}
	w, ok := acpiC.Recv[st][t.Sel.Name]
	if !ok {
		fail("%s: receiver field %s.%s is not listed in acpi.recv (only read-only fields are supported)", tr.fn.Name, st, t.Sel.Name)
	}
	var width int
	fmt.Sscanf(w, "%d", &width)
	return v(id.Name + "_" + t.Sel.Name), tinfo{width: width}, true
}

func (tr *translator) acpiPureCall(t *ast.CallExpr, en *env) (string, tinfo, bool) {
	if acpiC.PureFns == nil {
		return "", tinfo{}, false
	}
	c, ok := acpiC.PureFns[exprText(t.Fun)]
	if !ok {
		return "", tinfo{}, false
	}
	n, ti := constInfo(c)
	var args []string
	for _, a := range t.Args {
		as, at := tr.expr(a, en)
		if at.width <= 0 {
			fail("%s: unsupported argument of %s", tr.fn.Name, exprText(t.Fun))
		}
		args = append(args, as)
	}
	return "(" + n + " " + strings.Join(args, " ") + ")", ti, true
}

func isUintptrSlice(e ast.Expr) bool {
	at, ok := e.(*ast.ArrayType)
	if !ok || at.Len != nil {
		return false
	}
	el := typeOf(at.Elt, "")
	return el.width == 64 && !el.signed
}

// make([]uintptr, n)
func (tr *translator) acpiMake(t *ast.CallExpr, en *env) (string, tinfo, bool) {
	id, ok := t.Fun.(*ast.Ident)
	if !ok || id.Name != "make" || len(t.Args) != 2 || !isUintptrSlice(t.Args[0]) {
		return "", tinfo{}, false
	}
	if tr.noHoist > 0 {
		fail("%s: make under && or ||", tr.fn.Name)
	}
	ns, nt := tr.expr(t.Args[1], en)
	tmp := tr.tmp()
	if nt.signed {
		tr.pre = append(tr.pre, matchOpt(fmt.Sprintf("gmakes %d %s", nt.width, ns), tmp))
	} else {
		tr.pre = append(tr.pre, matchOpt(fmt.Sprintf("gmake %s", ns), tmp))
	}
	return tmp, tinfo{width: -4, elem: 64}, true
}

// the receiver's map field named by e (drv.tableMap), if any
func (tr *translator) acpiMapField(e ast.Expr, en *env) (string, bool) {
	sel, ok := e.(*ast.SelectorExpr)
	if !ok || acpiC.MapFields == nil {
		return "", false
	}
	id, ok := sel.X.(*ast.Ident)
	if !ok {
		return "", false
	}
	if _, isRecv := acpiRecvInfo(en.vars[id.Name]); !isRecv {
		return "", false
	}
	name, ok := acpiC.MapFields[sel.Sel.Name]
	return name, ok
}

// drv.m = make(map[K]V) ; drv.m[k] = v
func (tr *translator) acpiMapStore(s *ast.AssignStmt, en *env, rest func(en *env) string) (string, bool) {
	if len(s.Lhs) != 1 || len(s.Rhs) != 1 || s.Tok != token.ASSIGN {
		return "", false
	}
	if name, ok := tr.acpiMapField(s.Lhs[0], en); ok {
		c, isCall := s.Rhs[0].(*ast.CallExpr)
		if !isCall || exprText(c.Fun) != "make" || len(c.Args) != 1 {
			fail("%s: a map field may only be assigned make(map[..]..)", tr.fn.Name)
		}
		if _, isMap := c.Args[0].(*ast.MapType); !isMap {
			fail("%s: a map field may only be assigned make(map[..]..)", tr.fn.Name)
		}
		return "let " + v(tr.ptrRecv) + " := " + tr.event(name+".make", nil) + " in\n  " + rest(en), true
	}
	if ix, ok := s.Lhs[0].(*ast.IndexExpr); ok {
		if name, ok := tr.acpiMapField(ix.X, en); ok {
			// Go evaluates the index and the right-hand side, then stores
			ks, kt := tr.expr(ix.Index, en)
			vs, vt := tr.expr(s.Rhs[0], en)
			if kt.width <= 0 || vt.width <= 0 {
				fail("%s: unsupported key or value in a map store", tr.fn.Name)
			}
			pre := tr.pre
			tr.pre = nil
			tr.hoistedCall = false
			body := "let " + v(tr.ptrRecv) + " := " + tr.event(name+".set", []string{"(GNum " + ks + ")", "(GNum " + vs + ")"}) + " in\n  " + rest(en)
			return tr.wrapPre(pre, body), true
		}
	}
	return "", false
}

// kfmt.Fprintf(w, "format", args..)
func (tr *translator) acpiExprStmt(s *ast.ExprStmt, en *env, rest func(en *env) string) (string, bool) {
	c, ok := s.X.(*ast.CallExpr)
	if !ok {
		return "", false
	}
	if sel, isSel := c.Fun.(*ast.SelectorExpr); isSel && acpiC.MethodSeams != nil {
		if id, isId := sel.X.(*ast.Ident); isId {
			if _, isRecv := acpiRecvInfo(en.vars[id.Name]); isRecv {
				if ev, known := acpiC.MethodSeams[sel.Sel.Name]; known {
					// drv.M(args) for a method that is not translated: an event
					var args []string
					for _, a := range c.Args {
						if aid, isA := a.(*ast.Ident); isA && en.vars[aid.Name].width == -31 {
							continue
						}
						as, at := tr.expr(a, en)
						if at.width <= 0 {
							fail("%s: unsupported argument of %s", tr.fn.Name, sel.Sel.Name)
						}
						args = append(args, "(GNum "+as+")")
					}
					pre := tr.pre
					tr.pre = nil
					tr.hoistedCall = false
					return tr.wrapPre(pre, "let "+v(tr.ptrRecv)+" := "+tr.event(ev, args)+" in\n  "+rest(en)), true
				}
			}
		}
	}
	if acpiC.Printf == nil {
		return "", false
	}
	name, ok := acpiC.Printf[exprText(c.Fun)]
	if !ok {
		return "", false
	}
	if len(c.Args) < 2 {
		fail("%s: %s without a format string", tr.fn.Name, exprText(c.Fun))
	}
	if id, isId := c.Args[0].(*ast.Ident); !isId || en.vars[id.Name].width != -31 {
		fail("%s: the writer of %s is not an opaque parameter", tr.fn.Name, exprText(c.Fun))
	}
	lit, isLit := c.Args[1].(*ast.BasicLit)
	if !isLit || lit.Kind != token.STRING {
		fail("%s: the format of %s is not a string literal", tr.fn.Name, exprText(c.Fun))
	}
	str, err := strconv.Unquote(lit.Value)
	if err != nil {
		fail("%s: bad string literal %s", tr.fn.Name, lit.Value)
	}
	bs := "nil"
	for i := len(str) - 1; i >= 0; i-- {
		bs = fmt.Sprintf("%d :: %s", str[i], bs)
	}
	args := []string{"(GBytes (" + bs + "))"}
	for _, a := range c.Args[2:] {
		as, at := tr.expr(a, en)
		if at.width <= 0 {
			fail("%s: unsupported argument of %s", tr.fn.Name, exprText(c.Fun))
		}
		args = append(args, "(GNum "+as+")")
	}
	pre := tr.pre
	tr.pre = nil
	tr.hoistedCall = false
	body := "let " + v(tr.ptrRecv) + " := " + tr.event(name, args) + " in\n  " + rest(en)
	return tr.wrapPre(pre, body), true
}

// var ( a = e; b T = e; c []uintptr ): one name at a time; initial values with loads become := statements
func (tr *translator) acpiDecl(s *ast.DeclStmt, stmts []ast.Stmt, en *env, k func(en *env) string) (string, bool) {
	gd, ok := s.Decl.(*ast.GenDecl)
	if !ok || gd.Tok != token.VAR {
		return "", false
	}
	count, special := 0, false
	for _, sp := range gd.Specs {
		vs := sp.(*ast.ValueSpec)
		count += len(vs.Names)
		if vs.Type != nil && isUintptrSlice(vs.Type) {
			special = true
		}
		for _, val := range vs.Values {
			if acpiHasLoad(val, en, tr) {
				special = true
			}
		}
	}
	if !special {
		return "", false
	}
	if count == 1 {
		vs := gd.Specs[0].(*ast.ValueSpec)
		n := vs.Names[0]
		if len(vs.Values) == 0 {
			// var x []uintptr
			if _, dup := en.vars[n.Name]; dup {
				fail("%s: var %s shadows a variable of an enclosing scope", tr.fn.Name, n.Name)
			}
			en2 := en.clone()
			en2.vars[n.Name] = tinfo{width: -4, elem: 64}
			return "let " + v(n.Name) + " := (@nil N) in\n  " + tr.block(stmts[1:], en2, k), true
		}
		var val ast.Expr = vs.Values[0]
		if vs.Type != nil {
			val = &ast.CallExpr{Fun: vs.Type, Args: []ast.Expr{val}}
		}
		as := &ast.AssignStmt{Lhs: []ast.Expr{n}, Tok: token.DEFINE, Rhs: []ast.Expr{val}}
		return tr.block(append([]ast.Stmt{as}, stmts[1:]...), en, k), true
	}
	var seq []ast.Stmt
	for _, sp := range gd.Specs {
		vs := sp.(*ast.ValueSpec)
		for i, n := range vs.Names {
			one := &ast.ValueSpec{Names: []*ast.Ident{n}, Type: vs.Type}
			if i < len(vs.Values) {
				one.Values = []ast.Expr{vs.Values[i]}
			}
			seq = append(seq, &ast.DeclStmt{Decl: &ast.GenDecl{Tok: token.VAR, Specs: []ast.Spec{one}}})
		}
	}
	return tr.block(append(seq, stmts[1:]...), en, k), true
}

// acpiHasLoad: does e read a field through a struct pointer?
func acpiHasLoad(e ast.Expr, en *env, tr *translator) bool {
	found := false
	ast.Inspect(e, func(n ast.Node) bool {
		if sel, ok := n.(*ast.SelectorExpr); ok {
			if _, _, _, isPath := tr.acpiPath(sel, en); isPath {
				found = true
			}
		}
		return !found
	})
	return found
}

// acpiCtor: config "ctor": {"probeForACPI": {"struct": "acpiDriver", "fields": ["rsdtAddr", "useXSDT"], "types": ["uintptr", "bool"]}}
// a function whose single (interface-typed) result is either nil or &Struct{field: e, ..} is rewritten on the syntax tree to
// return (nonNil bool, fields..): `return nil` -> `return false, <zero values>`, `return &Struct{f1: a, f2: b}` -> `return true, a, b`
// (a field that the literal leaves out is its zero value).
func acpiCtor(spec fnSpec, decl *ast.FuncDecl) {
	c, ok := acpiC.Ctor[spec.Name]
	if !ok || spec.Recv != "" {
		return
	}
	if decl.Type.Results == nil || len(decl.Type.Results.List) != 1 || len(decl.Type.Results.List[0].Names) > 1 || len(c.Fields) != len(c.Types) {
		fail("%s: ctor rewrite needs a single unnamed result", spec.Name)
	}
	zero := func(ty string) ast.Expr {
		if ty == "bool" {
			return ast.NewIdent("false")
		}
		return &ast.BasicLit{Kind: token.INT, Value: "0"}
	}
	res := []*ast.Field{{Type: ast.NewIdent("bool")}}
	for _, ty := range c.Types {
		res = append(res, &ast.Field{Type: ast.NewIdent(ty)})
	}
	decl.Type = &ast.FuncType{Params: decl.Type.Params, Results: &ast.FieldList{List: res}}
	ast.Inspect(decl.Body, func(n ast.Node) bool {
		if _, isLit := n.(*ast.FuncLit); isLit {
			return false
		}
		r, isRet := n.(*ast.ReturnStmt)
		if !isRet {
			return true
		}
		if len(r.Results) != 1 {
			fail("%s: ctor rewrite: return with %d values", spec.Name, len(r.Results))
		}
		if id, isId := r.Results[0].(*ast.Ident); isId && id.Name == "nil" {
			out := []ast.Expr{ast.NewIdent("false")}
			for _, ty := range c.Types {
				out = append(out, zero(ty))
			}
			r.Results = out
			return true
		}
		u, isU := r.Results[0].(*ast.UnaryExpr)
		if !isU || u.Op != token.AND {
			fail("%s: ctor rewrite: a result that is neither nil nor &%s{..}", spec.Name, c.Struct)
		}
		lit, isL := u.X.(*ast.CompositeLit)
		if !isL || exprText(lit.Type) != c.Struct {
			fail("%s: ctor rewrite: a result that is neither nil nor &%s{..}", spec.Name, c.Struct)
		}
		vals := map[string]ast.Expr{}
		for _, e := range lit.Elts {
			kv, isKV := e.(*ast.KeyValueExpr)
			if !isKV {
				fail("%s: ctor rewrite: unkeyed struct literal", spec.Name)
			}
			vals[exprText(kv.Key)] = kv.Value
		}
		out := []ast.Expr{ast.NewIdent("true")}
		for i, f := range c.Fields {
			if e, given := vals[f]; given {
				out = append(out, e)
				delete(vals, f)
			} else {
				out = append(out, zero(c.Types[i]))
			}
		}
		if len(vals) > 0 {
			fail("%s: ctor rewrite: the literal sets a field that is not listed in the config", spec.Name)
		}
		r.Results = out
		return true
	})
}
