// gotrans extension: FRAGMENTS of a function that cannot be translated as a whole.
// FEATURE fragments (agent c02trans): ready
//
// Config key "fragments" (extended mode "gres", struct-receiver methods): a list of
//
//   {"name": "pass1", "file": "kernel/mm/pmm/bitmap_allocator.go", "pkg": "pmm", "recv": "BitmapAllocator",
//    "func": "setupPoolBitmaps",
//    "closure": 1,                        // the n-th function literal of the function (source order), or, instead,
//    "from": "requiredBytes :=", "count": 2, // <count> consecutive top-level statements, the first one starting with <from>
//    "rename": {"alloc.poolsHdr.Len": "hdrLen"},     // expression text -> variable: the expression IS that variable
//    "drop":   ["alloc.pools[poolIndex].freeBitmap ="],  // statements (by prefix) left out: acknowledged, not translated
//    "vars":   {"hdrLen": "s64", "requiredBitmapBytes": "64"}, "order": ["hdrLen", ..],   // the fragment's free variables
//    "outs":   ["hdrLen", "requiredBitmapBytes"]}                                       // the variables reported back
//
// Each entry becomes one Gallina definition go_<pkg>_<recv>_<func>_<name>, appended after the functions of the config:
//
//   closure fragment:   fun v_recv v_vars.. v_items.. => body      returning  GOk ((v_recv, outs..), b)
//       - exactly the loop body that config "visitors" would hand to gvisit (ext_visitor.go): `return e` ends it with the
//         receiver record, the values of "outs" and the closure's boolean result;
//   statement fragment: fun v_recv v_vars.. => statements            returning  GOk (v_recv, outs..)
//
// The statements are translated by the ordinary translator (anything unsupported fails = broken tie).  Before that the
// fragment's source text is printed (go/printer), every "rename" key is replaced by its variable (longest key first) and
// the "drop" statements are removed; the result is parsed again.  A renamed expression such as alloc.pools[poolIndex].startFrame
// thereby becomes a plain variable: an assignment to it reports WHAT is stored there, not the store itself.
//
// WHAT A FRAGMENT TIE SAYS AND DOES NOT SAY.  It ties the integer arithmetic of the fragment: for all values of its free
// variables the Go statements compute the reported values.  It does NOT say how the enclosing function connects the
// fragments (which values the free variables have, e.g. sizeofPool = unsafe.Sizeof(framePool{}); that the closure is run by
// the visitor once per region; that the reported values are stored where the renamed expressions point), and nothing about
// dropped statements (the unsafe slice-header overlays) or the untranslated rest of the function.  Those stay with the
// hand-written model, the correspondence run and the source pin.
package main

import (
	"bytes"
	"encoding/json"
	"fmt"
	"go/ast"
	"go/parser"
	"go/printer"
	"go/token"
	"os"
	"path/filepath"
	"sort"
	"strings"
)

type fragSpec struct {
	Name    string            `json:"name"`
	File    string            `json:"file"`
	Pkg     string            `json:"pkg"`
	Recv    string            `json:"recv"`
	Func    string            `json:"func"`
	Closure int               `json:"closure"`
	From    string            `json:"from"`
	Count   int               `json:"count"`
	Rename  map[string]string `json:"rename"`
	Drop    []string          `json:"drop"`
	Vars    map[string]string `json:"vars"`
	Order   []string          `json:"order"`
	Outs    []string          `json:"outs"`
}

func fragVarType(s string) tinfo {
	switch s {
	case "bool":
		return tinfo{width: -1}
	case "s64":
		return tinfo{width: 64, signed: true}
	case "64":
		return tinfo{width: 64}
	case "32":
		return tinfo{width: 32}
	case "16":
		return tinfo{width: 16}
	case "8":
		return tinfo{width: 8}
	}
	fail("fragment: unsupported variable type %q", s)
	return tinfo{}
}

func fragPrint(fset *token.FileSet, n ast.Node) string {
	var b bytes.Buffer
	if err := printer.Fprint(&b, fset, n); err != nil {
		fail("fragment: %v", err)
	}
	return b.String()
}

// emitFragments is called at the end of main (after the functions of the config)
func emitFragments(funcs map[string]fnSpec) {
	var c struct {
		Fragments []fragSpec `json:"fragments"`
	}
	data, err := os.ReadFile(os.Args[1])
	if err != nil {
		return
	}
	if err := json.Unmarshal(data, &c); err != nil {
		fail("%v", err)
	}
	for _, fs := range c.Fragments {
		if !cfg.Gres || fs.Recv == "" {
			fail("fragment %s: needs the extended mode and a struct receiver", fs.Name)
		}
		fset := token.NewFileSet()
		file, err := parser.ParseFile(fset, filepath.Join(cfg.Repo, fs.File), nil, 0)
		if err != nil {
			fail("%v", err)
		}
		var decl *ast.FuncDecl
		for _, d := range file.Decls {
			fd, ok := d.(*ast.FuncDecl)
			if !ok || fd.Name.Name != fs.Func || fd.Body == nil || fd.Recv == nil || len(fd.Recv.List) != 1 {
				continue
			}
			t := fd.Recv.List[0].Type
			if st, ok := t.(*ast.StarExpr); ok {
				t = st.X
			}
			if id, ok := t.(*ast.Ident); ok && id.Name == fs.Recv {
				decl = fd
			}
		}
		if decl == nil || len(decl.Recv.List[0].Names) != 1 {
			fail("fragment %s: method %s.%s not found", fs.Name, fs.Recv, fs.Func)
		}
		if _, ok := decl.Recv.List[0].Type.(*ast.StarExpr); !ok {
			fail("fragment %s: the receiver must be a pointer", fs.Name)
		}
		recvName := decl.Recv.List[0].Names[0].Name
		// the statements of the fragment
		var stmts []ast.Stmt
		var lit *ast.FuncLit
		if fs.Closure > 0 {
			n := 0
			ast.Inspect(decl.Body, func(nd ast.Node) bool {
				if fl, ok := nd.(*ast.FuncLit); ok {
					n++
					if n == fs.Closure {
						lit = fl
					}
					return false // literals nested in literals are not counted
				}
				return true
			})
			if lit == nil {
				fail("fragment %s: %s.%s has no function literal number %d", fs.Name, fs.Recv, fs.Func, fs.Closure)
			}
			if lit.Type.Results == nil || len(lit.Type.Results.List) != 1 || typeOf(lit.Type.Results.List[0].Type, fs.Pkg).width != -1 {
				fail("fragment %s: the function literal must return one bool", fs.Name)
			}
			stmts = lit.Body.List
		} else {
			start := -1
			for i, st := range decl.Body.List {
				if strings.HasPrefix(fragPrint(fset, st), fs.From) {
					if start >= 0 {
						fail("fragment %s: two statements start with %q", fs.Name, fs.From)
					}
					start = i
				}
			}
			if start < 0 || fs.Count <= 0 || start+fs.Count > len(decl.Body.List) {
				fail("fragment %s: statement %q (+%d) not found in %s.%s", fs.Name, fs.From, fs.Count, fs.Recv, fs.Func)
			}
			stmts = decl.Body.List[start : start+fs.Count]
		}
		// print, drop, rename, parse again
		var keys []string
		for k := range fs.Rename {
			keys = append(keys, k)
		}
		sort.Slice(keys, func(i, j int) bool {
			if len(keys[i]) != len(keys[j]) {
				return len(keys[i]) > len(keys[j])
			}
			return keys[i] < keys[j]
		})
		src := "package p\nfunc f() bool {\n"
		dropped := map[string]int{}
		for _, st := range stmts {
			txt := fragPrint(fset, st)
			skip := false
			for _, d := range fs.Drop {
				if strings.HasPrefix(txt, d) {
					skip = true
					dropped[d]++
				}
			}
			if skip {
				continue
			}
			for _, k := range keys {
				txt = strings.ReplaceAll(txt, k, fs.Rename[k])
			}
			src += txt + "\n"
		}
		for _, d := range fs.Drop {
			if dropped[d] != 1 {
				fail("fragment %s: %d statements start with the dropped prefix %q (expected 1)", fs.Name, dropped[d], d)
			}
		}
		if fs.Closure == 0 {
			src += "return true\n"
		}
		src += "}\n"
		f2, err := parser.ParseFile(token.NewFileSet(), "fragment.go", src, 0)
		if err != nil {
			fail("fragment %s: after renaming: %v", fs.Name, err)
		}
		body := f2.Decls[0].(*ast.FuncDecl).Body.List
		if fs.Closure == 0 {
			body = body[:len(body)-1]
		}
		// translate
		spec := fnSpec{File: fs.File, Pkg: fs.Pkg, Recv: fs.Recv, Name: fs.Func + "_" + fs.Name}
		tr := &translator{pkg: fs.Pkg, fn: spec, funcs: funcs, usedGlob: map[string]bool{}, seamUsed: map[string]int{}, oracleUsed: map[string]string{}, extUsed: map[string]int{}, ptrParams: map[string]bool{}, inoutTy: map[string]tinfo{}}
		tr.mon = fs.Recv
		tr.ptrRecv = recvName
		en := &env{vars: map[string]tinfo{}}
		params := []string{"(" + v(recvName) + " : " + recName(structPkg[fs.Recv], fs.Recv) + ")"}
		if len(fs.Order) != len(fs.Vars) {
			fail("fragment %s: \"order\" must list every variable of \"vars\"", fs.Name)
		}
		for _, n := range fs.Order {
			ts, ok := fs.Vars[n]
			if !ok {
				fail("fragment %s: %s is in \"order\" but not in \"vars\"", fs.Name, n)
			}
			ti := fragVarType(ts)
			en.vars[n] = ti
			params = append(params, "("+v(n)+" : "+coqTy(ti)+")")
		}
		if lit != nil {
			for _, p := range lit.Type.Params.List {
				ti, _, ok := visitorItemType(p.Type, fs.Pkg)
				if !ok || len(p.Names) == 0 {
					fail("fragment %s: unsupported parameter of the function literal", fs.Name)
				}
				for _, n := range p.Names {
					if _, dup := en.vars[n.Name]; dup {
						fail("fragment %s: parameter %s clashes with a variable", fs.Name, n.Name)
					}
					en.vars[n.Name] = ti
					params = append(params, "("+v(n.Name)+" : "+coqTy(ti)+")")
				}
			}
		}
		pats := []string{v(recvName)}
		for _, o := range fs.Outs {
			if _, ok := fs.Vars[o]; !ok && lit != nil {
				fail("fragment %s: out %s of a closure fragment must be one of its variables", fs.Name, o)
			}
			pats = append(pats, v(o))
		}
		pat := tupleOf(pats, "")
		var term string
		if lit != nil {
			cloStack = append(cloStack, &closureCtx{depth: 0, pat: pat})
			term = tr.block(body, en, func(*env) string {
				fail("fragment %s: the function literal can fall off its end", fs.Name)
				return ""
			})
			cloStack = cloStack[:len(cloStack)-1]
		} else {
			term = tr.block(body, en, func(en2 *env) string {
				for _, o := range fs.Outs {
					if _, ok := en2.vars[o]; !ok {
						fail("fragment %s: out %s is not defined at the end of the fragment", fs.Name, o)
					}
				}
				return "(GOk " + pat + ")"
			})
		}
		if tr.usesFuel || len(tr.seamUsed) > 0 || len(tr.oracleUsed) > 0 || len(tr.extUsed) > 0 || len(visParams[tr.visKey()]) > 0 {
			fail("fragment %s: loops, seams, oracles, external variables and visitors are not supported in fragments", fs.Name)
		}
		name := coqName(fs.Pkg, fs.Recv, fs.Func) + "_" + fs.Name
		what := fmt.Sprintf("function literal %d", fs.Closure)
		if lit == nil {
			what = fmt.Sprintf("%d statements from %q", fs.Count, fs.From)
		}
		fmt.Printf("(* %s : %s %s, fragment %s (%s) *)\n", fs.File, fs.Recv, fs.Func, fs.Name, what)
		fmt.Printf("Definition %s %s :=\n  %s.\n\n", name, strings.Join(params, " "), term)
	}
}
