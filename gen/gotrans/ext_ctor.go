// ext_ctor.go: constructors and initialisation sizes of the console drivers (property C19), each behind its own config key
// (the output for configs without these keys is unchanged).
//
//   - "ctor": a function `func NewT(params) *T { return &T{field: e, ..} }` for a struct T of the config: the keyed
//     composite literal is the record `mk_T ..` with the zero value for every field not named (0 / nil / false); a field of
//     an opaque pointer type takes a parameter of pointer type (modelled as "is non-nil": bool); a "lenonly" slice field
//     given by a composite literal takes the number of its elements.  Parameters of a pointer type the config does not
//     know are such opaque references;
//   - "divmod": `/` and `%` on unsigned integers (gdiv / gmod of Lib/GoOpsFmt.v: None = division by zero = GPanic);
//   - "probes": an integer expression INSIDE a function that is not translated as a whole (DriverInit: unsafe slice
//     header, calls through function variables): the argument of a call (`call`, `arg`) or the value of a key of a
//     composite literal (`lit`, `key`) is translated as a function of the receiver record, in the scope of the
//     straight-line `x := e` definitions in front of the statement that contains it.  Statements in front of it may only
//     be such definitions, multi-value definitions from calls (their names stay opaque: using one is an error) and
//     `if cond { return .. }` guards (the probe describes the path that goes on).
package main

import (
	"fmt"
	"go/ast"
	"go/token"
	"strings"
)

type probeSpec struct {
	File string `json:"file"`
	Pkg  string `json:"pkg"`
	Recv string `json:"recv"`
	Func string `json:"func"`
	Name string `json:"name"` // suffix of the Coq name
	Call string `json:"call"` // text of the called function ..
	Arg  int    `json:"arg"`  // .. and the index of the argument
	Lit  string `json:"lit"`  // or: text of the type of a composite literal ..
	Key  string `json:"key"`  // .. and the key
}

// ctorParam: a parameter of a pointer type the config does not know is an opaque reference
func ctorParam(p *ast.Field, ti tinfo) tinfo {
	if !cfg.Ctor || ti.width != -3 {
		return ti
	}
	if _, ok := p.Type.(*ast.StarExpr); ok {
		return tinfo{width: -6}
	}
	return ti
}

// &T{k: e, ..}
func (tr *translator) ctorLit(t *ast.UnaryExpr, en *env) (string, tinfo, bool) {
	if !cfg.Ctor || t.Op != token.AND {
		return "", tinfo{}, false
	}
	cl, ok := t.X.(*ast.CompositeLit)
	if !ok {
		return "", tinfo{}, false
	}
	id, ok := cl.Type.(*ast.Ident)
	if !ok {
		return "", tinfo{}, false
	}
	fields, ok := structFields[id.Name]
	if !ok {
		return "", tinfo{}, false
	}
	vals := map[string]ast.Expr{}
	for _, el := range cl.Elts {
		kv, ok := el.(*ast.KeyValueExpr)
		if !ok {
			fail("%s: positional struct literal", tr.fn.Name)
		}
		vals[kv.Key.(*ast.Ident).Name] = kv.Value
	}
	var parts []string
	used := 0
	for _, f := range fields {
		e, given := vals[f.name]
		if !given {
			switch {
			case f.width > 0 || f.width == -10:
				parts = append(parts, "0")
			case f.width == -6:
				parts = append(parts, "false")
			default:
				parts = append(parts, "nil")
			}
			continue
		}
		used++
		if f.width == -10 {
			// a slice of which only the length is modelled, given by a literal: the number of its elements
			lit, ok := e.(*ast.CompositeLit)
			if !ok {
				fail("%s: field %s (modelled by its length) needs a composite literal", tr.fn.Name, f.name)
			}
			for _, x := range lit.Elts {
				if _, kv := x.(*ast.KeyValueExpr); kv {
					fail("%s: keyed elements in the literal of %s", tr.fn.Name, f.name)
				}
			}
			parts = append(parts, fmt.Sprintf("(%d)%%N", len(lit.Elts)))
			continue
		}
		x, xt := tr.expr(e, en)
		if len(tr.pre) > 0 {
			fail("%s: a field value that needs a bounds check or a call", tr.fn.Name)
		}
		switch {
		case f.width > 0:
			if xt.width == 0 {
				x = tr.wrap(f.width, x)
			} else if xt.width != f.width {
				fail("%s: field %s of width %d given a value of width %d", tr.fn.Name, f.name, f.width, xt.width)
			}
		case f.width == -6:
			if xt.width != -6 {
				fail("%s: field %s needs a reference", tr.fn.Name, f.name)
			}
		default:
			fail("%s: unsupported field %s in a struct literal", tr.fn.Name, f.name)
		}
		parts = append(parts, x)
	}
	if used != len(vals) {
		fail("%s: the struct literal names a field the record does not have", tr.fn.Name)
	}
	return "(mk_" + recName(structPkg[id.Name], id.Name) + " " + strings.Join(parts, " ") + ")", tinfo{width: -9, named: id.Name}, true
}

// emitProbes: see the header
func emitProbes(files map[string]*ast.File, funcs map[string]fnSpec) {
	for _, ps := range cfg.Probes {
		var file *ast.File
		for path, f := range files {
			if strings.HasSuffix(path, ps.File) {
				file = f
			}
		}
		if file == nil {
			fail("probe %s: file %s is not among the files of the config's functions", ps.Name, ps.File)
		}
		var decl *ast.FuncDecl
		for _, d := range file.Decls {
			fd, ok := d.(*ast.FuncDecl)
			if !ok || fd.Name.Name != ps.Func || fd.Body == nil || fd.Recv == nil || len(fd.Recv.List) != 1 {
				continue
			}
			t := fd.Recv.List[0].Type
			if st, ok := t.(*ast.StarExpr); ok {
				t = st.X
			}
			if id, ok := t.(*ast.Ident); ok && id.Name == ps.Recv {
				decl = fd
			}
		}
		if decl == nil {
			fail("probe %s: method %s.%s not found", ps.Name, ps.Recv, ps.Func)
		}
		// the target expression
		var target ast.Expr
		count := 0
		ast.Inspect(decl.Body, func(n ast.Node) bool {
			switch x := n.(type) {
			case *ast.CallExpr:
				if ps.Call != "" && exprText(x.Fun) == ps.Call && ps.Arg < len(x.Args) {
					target = x.Args[ps.Arg]
					count++
				}
			case *ast.CompositeLit:
				if ps.Lit != "" && x.Type != nil && exprText(x.Type) == ps.Lit {
					for _, el := range x.Elts {
						if kv, ok := el.(*ast.KeyValueExpr); ok && exprText(kv.Key) == ps.Key {
							target = kv.Value
							count++
						}
					}
				}
			}
			return true
		})
		if count != 1 {
			fail("probe %s: %d matches in %s.%s", ps.Name, count, ps.Recv, ps.Func)
		}
		recvName := decl.Recv.List[0].Names[0].Name
		spec := fnSpec{File: ps.File, Pkg: ps.Pkg, Recv: ps.Recv, Name: ps.Func + "." + ps.Name}
		tr := &translator{pkg: ps.Pkg, fn: spec, funcs: funcs, usedGlob: map[string]bool{}, seamUsed: map[string]int{}, oracleUsed: map[string]string{}, extUsed: map[string]int{}, ptrParams: map[string]bool{}, inoutTy: map[string]tinfo{}}
		tr.mon = ps.Recv
		tr.ptrRecv = recvName
		en := &env{vars: map[string]tinfo{}}
		lets := ""
		found := false
		for _, st := range decl.Body.List {
			if st.Pos() <= target.Pos() && target.End() <= st.End() {
				found = true
				break
			}
			switch s := st.(type) {
			case *ast.AssignStmt:
				if s.Tok != token.DEFINE {
					fail("probe %s: an assignment in front of the probed statement", ps.Name)
				}
				if len(s.Lhs) == 1 && len(s.Rhs) == 1 {
					id, ok := s.Lhs[0].(*ast.Ident)
					if !ok {
						fail("probe %s: unsupported definition", ps.Name)
					}
					x, xt := tr.expr(s.Rhs[0], en)
					if len(tr.pre) > 0 || xt.width <= 0 {
						fail("probe %s: the definition of %s is not a plain integer expression", ps.Name, id.Name)
					}
					en.vars[id.Name] = xt
					lets += "let " + v(id.Name) + " := " + x + " in\n  "
				} else if len(s.Rhs) == 1 {
					if _, isCall := s.Rhs[0].(*ast.CallExpr); !isCall {
						fail("probe %s: unsupported definition", ps.Name)
					}
					// results of a call: opaque (not in scope for the probe)
				} else {
					fail("probe %s: unsupported definition", ps.Name)
				}
			case *ast.IfStmt:
				ok := s.Init == nil && s.Else == nil && len(s.Body.List) == 1
				if ok {
					_, ok = s.Body.List[0].(*ast.ReturnStmt)
				}
				if !ok {
					fail("probe %s: an if statement that is not a `return` guard in front of the probed statement", ps.Name)
				}
			default:
				fail("probe %s: unsupported statement %T in front of the probed statement", ps.Name, st)
			}
		}
		if !found {
			fail("probe %s: the probed expression is not inside a top-level statement", ps.Name)
		}
		x, xt := tr.expr(target, en)
		if len(tr.pre) > 0 || xt.width <= 0 {
			fail("probe %s: not a plain integer expression", ps.Name)
		}
		if len(tr.extUsed)+len(tr.seamUsed)+len(tr.oracleUsed) > 0 {
			fail("probe %s: external variables are not supported in probes", ps.Name)
		}
		fmt.Printf("(* %s : %s %s, probe %s *)\n", ps.File, ps.Recv, ps.Func, ps.Name)
		fmt.Printf("Definition %s_%s (%s : %s) : N :=\n  %s%s.\n\n", coqName(ps.Pkg, ps.Recv, ps.Func), ps.Name, v(recvName), recName(structPkg[ps.Recv], ps.Recv), lets, x)
	}
}
