// gotrans extension: a closure literal passed to a VISITOR function.
// FEATURE visitors (agent c02trans): ready
//
// Config key "visitors" (extended mode "gres" only, struct-receiver or "world" functions):
//
//   "visitors": { "multiboot.VisitMemRegions": {"param": "regions"},
//                 "walk":                       {"param": "walk_items"} }
//
// The key is the text of the called function as written at the call site (pkg.Func for another package, Func for the
// same package).  A STATEMENT
//
//      pkg.Visit(a1, .., func(p1 T1, .., pn Tn) bool { body }, .., ak)
//
// whose callee is listed there and exactly one of whose arguments is a function literal with ONE result of type bool is
// translated as a loop over the sequence of items that the visitor function presents to the closure, in order:
//
//      match gvisit (fun (item) (st) => body') (<param> a1 .. ak) <state> with
//      | GPanic => GPanic | GFuel => GFuel | GOk st => <the statements after the call> end       (Lib/GoVisit.v)
//
//   - <param> is an EXTRA PARAMETER of the translated function (after the seam / extvar / oracle parameters), named by
//     the config, of type `list item` when the call has no other argument and `N -> .. -> list item` (one N per other
//     argument, which must be integers) otherwise.  `item` is the record of the struct when the closure has one parameter
//     of type *S / S (S listed in config "structs" - fields read from the source - or "extstructs"), N for an integer
//     (named) type or a pointer to one, and the product of these for several parameters.
//   - the closure body is the loop body; the loop-carried state is the receiver record plus the variables of the
//     enclosing function that the closure assigns (captured by reference in Go), exactly as for a `for` loop;
//     `return e` inside the closure ends the iteration with the state and the boolean e: true = the visitor goes on with
//     the next item, false = it stops (`return true` = continue, `return false` = break).  The body may use everything
//     the extended mode supports (if/else, switch, locals, field reads and writes of the receiver, bounds-checked reads,
//     inner loops that do not return).  There is no fuel: gvisit recurses on the list.
//   - fields of a struct item are read (`region.PhysAddress`); `*p` reads an integer item given by pointer.
//     NOT supported (the translator fails = broken tie): assigning through an item pointer (`region.f = e`, `*pte = e`:
//     the visitor's own data would change, which a list of values cannot express - extend here when needed, e.g. by
//     threading the item back), `return` inside a loop inside the closure, break / continue of an enclosing loop,
//     closures anywhere else, a closure whose result is not a single bool.
//   - a function that calls a translated method taking such a parameter takes the same parameter and hands it on.
//
// WHAT THIS TIE DOES NOT COVER.  The translation takes the sequence of items as GIVEN.  The contract of the visitor
// function itself - that it calls the closure once per item, in order, stops at the first `false`, never calls it again
// afterwards, and what the items are (for multiboot.VisitMemRegions: one per memory-map entry of the multiboot info, in
// order, with unknown types normalised to "reserved") - is NOT part of a tie made with this feature.  For
// multiboot.VisitMemRegions it is the subject of property C10 (model: coq/theories/Multiboot/*.v).  It is also assumed
// that the sequence depends only on the call's other arguments (two calls with equal arguments see equal sequences) and
// that the visitor function touches no state of the translated code other than through the closure.
package main

import (
	"encoding/json"
	"fmt"
	"go/ast"
	"go/token"
	"os"
	"sort"
)

type visitorSpec struct {
	Param string `json:"param"` // name of the extra parameter holding the sequence of items
}

var visitorCfgLoaded bool
var visitorCfgMap map[string]visitorSpec

// visitorCfg reads the key "visitors" of the config file (its own small parse: main.go's config struct is untouched)
func visitorCfg() map[string]visitorSpec {
	if !visitorCfgLoaded {
		visitorCfgLoaded = true
		var c struct {
			Visitors map[string]visitorSpec `json:"visitors"`
		}
		if data, err := os.ReadFile(os.Args[1]); err == nil {
			if err := json.Unmarshal(data, &c); err != nil {
				fail("%v", err)
			}
		}
		visitorCfgMap = c.Visitors
	}
	return visitorCfgMap
}

// closureCtx: the visitor closure whose body is being translated
type closureCtx struct {
	depth int    // loop depth at the closure: a return at a deeper level is inside an inner loop
	pat   string // the loop-carried state as a tuple of Coq variables
}

var cloStack []*closureCtx

// visParams: translated function (Coq name) -> visitor parameter name -> its Coq type
var visParams = map[string]map[string]string{}

func (tr *translator) visKey() string { return coqName(tr.fn.Pkg, tr.fn.Recv, tr.fn.Name) }

func (tr *translator) visitorUseParam(name, ty string) {
	k := tr.visKey()
	if visParams[k] == nil {
		visParams[k] = map[string]string{}
	}
	if old, ok := visParams[k][name]; ok && old != ty {
		fail("%s: visitor parameter %s is used at two types (%s, %s)", tr.fn.Name, name, old, ty)
	}
	visParams[k][name] = ty
}

// visitorUse: a callee's extra parameter of kind "visitor" is handed on by the caller
func (tr *translator) visitorUse(xp extraParam) { tr.visitorUseParam(xp.name, xp.ty) }

// visitorParams appends the visitor parameters of the function just translated
func (tr *translator) visitorParams(params []string, extras []extraParam) ([]string, []extraParam) {
	m := visParams[tr.visKey()]
	var names []string
	for n := range m {
		names = append(names, n)
	}
	sort.Strings(names)
	for _, n := range names {
		params = append(params, "("+n+" : "+m[n]+")")
		extras = append(extras, extraParam{name: n, kind: "visitor", ty: m[n]})
	}
	return params, extras
}

// visitorItemType: the type of one closure parameter as the translation sees it (ok = false: unsupported)
func visitorItemType(t ast.Expr, pkg string) (ti tinfo, isPtr bool, ok bool) {
	if st, is := t.(*ast.StarExpr); is {
		isPtr = true
		t = st.X
	}
	name := ""
	switch x := t.(type) {
	case *ast.Ident:
		name = x.Name
	case *ast.SelectorExpr:
		name = x.Sel.Name
	}
	if name != "" {
		if _, is := structFields[name]; is {
			if _, a := cfg.Structs[name]; a {
				return tinfo{width: -9, named: name}, isPtr, true
			}
			if _, b := cfg.ExtStructs[name]; b {
				return tinfo{width: -9, named: name}, isPtr, true
			}
		}
	}
	if ti := typeOf(t, pkg); ti.width > 0 {
		return ti, isPtr, true
	}
	return tinfo{}, isPtr, false
}

// visitorStmt translates the statement `Visit(args.., func(..) bool {..}, ..)` for a configured visitor function
func (tr *translator) visitorStmt(e ast.Expr, en *env, rest func(*env) string) (string, bool) {
	vs := visitorCfg()
	if len(vs) == 0 || !cfg.Gres || tr.mon == "" {
		return "", false
	}
	call, ok := e.(*ast.CallExpr)
	if !ok {
		return "", false
	}
	fname := exprText(call.Fun)
	spec, ok := vs[fname]
	if !ok || fname == "" {
		return "", false
	}
	if id, isId := call.Fun.(*ast.Ident); isId {
		if _, shadowed := en.vars[id.Name]; shadowed {
			return "", false
		}
	}
	if spec.Param == "" {
		fail("%s: visitor %s has no \"param\" in the config", tr.fn.Name, fname)
	}
	var lit *ast.FuncLit
	var others []ast.Expr
	for _, a := range call.Args {
		if fl, is := a.(*ast.FuncLit); is {
			if lit != nil {
				fail("%s: %s is called with two function literals", tr.fn.Name, fname)
			}
			lit = fl
		} else {
			others = append(others, a)
		}
	}
	if lit == nil {
		fail("%s: %s is not called with a function literal", tr.fn.Name, fname)
	}
	if lit.Type.Results == nil || len(lit.Type.Results.List) != 1 || len(lit.Type.Results.List[0].Names) > 1 ||
		typeOf(lit.Type.Results.List[0].Type, tr.pkg).width != -1 || len(lit.Type.Results.List[0].Names) == 1 {
		fail("%s: the closure passed to %s must have one unnamed result of type bool", tr.fn.Name, fname)
	}
	// the other arguments select the sequence: integers, evaluated before the call
	seq := spec.Param
	seqTy := ""
	for _, a := range others {
		as, at := tr.expr(a, en)
		if at.width < 0 {
			fail("%s: a non-integer argument of visitor %s", tr.fn.Name, fname)
		}
		if at.width == 0 {
			as = tr.wrap(64, as)
		}
		seq += " " + as
		seqTy += "N -> "
	}
	pre := tr.takePre(others...)
	if len(others) > 0 {
		seq = "(" + seq + ")"
	}
	// the closure's parameters: one item
	en2 := en.clone()
	var pnames, ptys []string
	var ptrInts []string
	for _, p := range lit.Type.Params.List {
		ti, isPtr, ok := visitorItemType(p.Type, tr.pkg)
		if !ok {
			fail("%s: unsupported parameter type of the closure passed to %s", tr.fn.Name, fname)
		}
		if len(p.Names) == 0 {
			fail("%s: unnamed parameter of the closure passed to %s", tr.fn.Name, fname)
		}
		for _, n := range p.Names {
			if n.Name == "_" {
				tr.nloop++
				n = ast.NewIdent(fmt.Sprintf("visunused%d", tr.nloop))
			}
			if _, dup := en.vars[n.Name]; dup {
				fail("%s: closure parameter %s shadows a variable of the enclosing function", tr.fn.Name, n.Name)
			}
			if n.Name == tr.ptrRecv {
				fail("%s: closure parameter %s shadows the receiver", tr.fn.Name, n.Name)
			}
			en2.vars[n.Name] = ti
			pnames = append(pnames, v(n.Name))
			ptys = append(ptys, coqTy(ti))
			if isPtr && ti.width > 0 {
				ptrInts = append(ptrInts, n.Name)
			}
			// nothing may be stored through the item
			as := map[string]bool{}
			assigned(lit.Body.List, as)
			if as["*"+n.Name] {
				fail("%s: the closure passed to %s assigns through its parameter %s (not supported by FEATURE visitors)", tr.fn.Name, fname, n.Name)
			}
			name := n.Name
			ast.Inspect(lit.Body, func(nd ast.Node) bool {
				chk := func(l ast.Expr) {
					for {
						switch x := l.(type) {
						case *ast.SelectorExpr:
							l = x.X
							continue
						case *ast.IndexExpr:
							l = x.X
							continue
						case *ast.StarExpr:
							l = x.X
							continue
						case *ast.ParenExpr:
							l = x.X
							continue
						}
						break
					}
					if id, is := l.(*ast.Ident); is && id.Name == name {
						fail("%s: the closure passed to %s assigns to or through its parameter %s (not supported by FEATURE visitors)", tr.fn.Name, fname, name)
					}
				}
				switch s := nd.(type) {
				case *ast.AssignStmt:
					for _, l := range s.Lhs {
						chk(l)
					}
				case *ast.IncDecStmt:
					chk(s.X)
				case *ast.UnaryExpr:
					if s.Op == token.AND {
						chk(s.X)
					}
				}
				return true
			})
		}
	}
	if len(pnames) == 0 {
		fail("%s: the closure passed to %s has no parameter", tr.fn.Name, fname)
	}
	itemTy := prodOf(ptys)
	if len(ptys) > 1 {
		itemTy += "%type"
	}
	binder := "(" + pnames[0] + " : " + itemTy + ")"
	itemLet := ""
	if len(pnames) > 1 {
		binder = "(it : " + itemTy + ")"
		itemLet = "let '" + tupleOf(pnames, "") + " := it in\n  "
	}
	tr.visitorUseParam(spec.Param, seqTy+"list "+itemTy)
	// loop-carried: the receiver record and the enclosing function's variables that the closure assigns
	names := carried(en, []ast.Stmt{lit.Body})
	pat, ty := tr.statePat(names, en)
	for _, p := range ptrInts {
		if tr.ptrParams[p] {
			fail("%s: closure parameter %s has the name of a pointer parameter", tr.fn.Name, p)
		}
		tr.ptrParams[p] = true // `*p` reads the item
	}
	cloStack = append(cloStack, &closureCtx{depth: tr.cx.loopDepth, pat: pat})
	body := tr.withCtx(ctx{brk: nil, cont: nil, loopDepth: tr.cx.loopDepth}, func() string {
		return tr.block(lit.Body.List, en2, func(*env) string {
			fail("%s: the closure passed to %s can fall off its end", tr.fn.Name, fname)
			return ""
		})
	})
	cloStack = cloStack[:len(cloStack)-1]
	for _, p := range ptrInts {
		delete(tr.ptrParams, p)
	}
	out := "match gvisit (St := " + ty + ") (fun " + binder + " (st : " + ty + ") => " + letPat(pat) + "\n  " + itemLet + body + ") " + seq + " " + pat + " with\n"
	out += "  | GPanic => GPanic | GFuel => GFuel\n"
	out += "  | GOk st => " + letPat(pat) + "\n  " + rest(en) + "\n  end"
	return tr.wrapPre(pre, out), true
}

// closureReturn: `return e` inside the body of a visitor closure ends the iteration (true = next item, false = stop)
func (tr *translator) closureReturn(s *ast.ReturnStmt, en *env) (string, bool) {
	if len(cloStack) == 0 {
		return "", false
	}
	c := cloStack[len(cloStack)-1]
	if tr.cx.loopDepth != c.depth {
		fail("%s: return inside a loop inside a visitor closure", tr.fn.Name)
	}
	if len(s.Results) != 1 {
		fail("%s: a visitor closure returns one bool", tr.fn.Name)
	}
	x, ti := tr.expr(s.Results[0], en)
	if ti.width != -1 {
		fail("%s: a visitor closure returns a bool", tr.fn.Name)
	}
	pre := tr.takePre(s.Results[0])
	return tr.wrapPre(pre, "(GOk ("+c.pat+", "+x+"))"), true
}
