// ext_mb.go - gotrans feature "typed struct pointers into memory" (agent c10trans; config key "memstructs").
// FEATURE memstructs (agent c10trans): ready
//
// Under config "memstructs" (and "gres": true) functions marked "world": true thread, next to the trace, a MEMORY
// `f_world_mem : M` through the synthetic record `world`.  The generated file is a Coq Section over
//
//     Context {M : Type} (mb_ld : M -> N -> N -> option N) (mb_st : M -> N -> N -> N -> option M).
//
// mb_ld m n a = the little-endian value of the n bytes at address a, None = some byte is not mapped (-> GPanic);
// mb_st m n a v = the memory after storing the n low bytes of v at a, None = not mapped (-> GPanic).  Nothing about the
// memory is fixed by the translation: the theorems instantiate M / mb_ld / mb_st (for C10: Multiboot/Model.v's segments).
//
//   - a pointer to a struct type T listed in memstructs.structs is an ADDRESS (an N, nil = 0): (*T)(unsafe.Pointer(a)) is
//     `a`; unsafe.Pointer(x) is x; uintptr(unsafe.Pointer(p)) is p; parameters, results, variables of type *T;
//   - p.f (f an integer field) is a LOAD  `gload (mb_ld mem) <size of f> (gw 64 (p + <offset of f>))`  hoisted in front of
//     the statement in evaluation order (a load in a loop condition is done on every test of the condition);
//     &p.f is `gw 64 (p + <offset of f>)`;  p.f = e is a STORE  `mb_st mem <size> (gw 64 (p + off)) e`;
//     sizes and offsets are computed from the struct declaration in the source by Go's layout rules (gc, amd64: natural
//     alignment, struct aligned to its widest field, one byte of padding after a trailing zero-size field) and, for every
//     field / size the translated functions use, an `Example` at the end of the file states that the value equals the
//     constant of the in-package dump (unsafe.Offsetof / unsafe.Sizeof evaluated by the Go compiler; config
//     memstructs.offcheck / sizecheck = the prefixes of those constants): a layout change breaks the build;
//   - *(*uintN)(unsafe.Pointer(a)) loads from the same memory (instead of the oracle parameter `ld` of main.go);
//   - unsafe.Sizeof(x) of a variable of a listed struct type is the computed size;
//   - int32(x) is Go's int32 (two's complement representative in [0, 2^32)); a conversion of a signed integer to a WIDER
//     type is a sign extension (gsext, Lib/GoOpsFmt.v); to the same or a narrower width a truncation;
//   - memstructs.globals: package-level variables that are only READ ("infoData": "g_infoData:64") are extra parameters;
//   - `a, b := F(args)` / `a := F(args)` for another translated "world" function F of the config (listed BEFORE its
//     caller) threads the world, fuel and extra parameters;
//   - memstructs.callbacks: a parameter of a listed named function type (visitor MemRegionVisitor) is a SEAM: the call
//     visitor(p) with p a pointer to a listed struct PRESENTS the struct: every integer field is loaded (in declaration
//     order; an unmapped byte = GPanic), the event GCall "visitor" [GNum f1; ..; GNum fn] is pushed on the trace and the
//     boolean result is `o_visitor (trace)` for an oracle parameter o_visitor : list gcall -> bool of the translated
//     function (the trace already holds the call).  Integer arguments are GNum x.  ASSUMED (the seam's contract): the
//     callee reads what it is presented and does not write the memory;
//   - `if a || b` / `if a && b` where b loads from memory or calls a callback: nested ifs (Go's short circuit);
//   - a Go string assembled through its header:  `var s string; h = (*reflect.StringHeader)(unsafe.Pointer(&s))` makes s the
//     pair of locals s__data (uintptr) / s__len (int); h.Data / h.Len are these variables (rewritten in the syntax tree, so
//     they are loop-carried like any other local); s as an ARGUMENT of a callback is PRESENTED: `gldbytes (mb_ld mem) data len`
//     (Lib/GoMb.v: no access for len = 0, otherwise ONE load of len bytes, as a byte list; len taken as unsigned) and
//     recorded as GBytes; any other use of s is rejected;
//   - a callback without results as a statement: the event only;
//   - a "world" function WITH a receiver of type *T (T a listed struct: `func (i *FramebufferInfo) RGBColorInfo()`): the
//     receiver is an address parameter after the world; `return nil` for a result of type *T is 0.
//
// Everything here is guarded by mbOn(): the output for configs without "memstructs" is unchanged.
package main

import (
	"encoding/json"
	"fmt"
	"go/ast"
	"go/parser"
	"go/token"
	"path/filepath"
	"sort"
	"strconv"
	"strings"
)

type mbCallback struct {
	Results []string `json:"results"` // [] or ["bool"]
}

type mbSpec struct {
	Structs   map[string]string     `json:"structs"`   // struct type -> file (relative to repo root) declaring it
	Globals   map[string]string     `json:"globals"`   // package-level variable that is only read -> "coqname:width"
	OffCheck  string                `json:"offcheck"`  // prefix of the dumped offset constants: <prefix><Struct>_<field>
	SizeCheck string                `json:"sizecheck"` // prefix of the dumped size constants: <prefix><Struct>
	Names     map[string]string     `json:"names"`     // struct type -> the name used for it in the dumped constants
	Callbacks map[string]mbCallback `json:"callbacks"` // named function type -> its results
}

var mbCfg struct {
	MS *mbSpec `json:"memstructs"`
}

func mbLoadConfig(data []byte) { _ = json.Unmarshal(data, &mbCfg) }

func mbOn() bool { return mbCfg.MS != nil && cfg.Gres }

const mbMemWidth = -22 // type code of the world's memory field

func mbWorldFields() []sfield {
	if !mbOn() {
		return nil
	}
	return []sfield{{name: "mem", width: mbMemWidth}}
}

func mbFieldType(f sfield, ty string) string {
	if mbOn() && f.width == mbMemWidth {
		return "M"
	}
	return ty
}

func mbOpenSection() {
	fmt.Println("Section MbMem.")
	fmt.Println("(* the memory: mb_ld m n a = little-endian value of the n bytes at a (None: not mapped); mb_st m n a v = m after the store *)")
	fmt.Println("Context {M : Type} (mb_ld : M -> N -> N -> option N) (mb_st : M -> N -> N -> N -> option M).")
	fmt.Println()
}

func mbCloseSection() { fmt.Println("End MbMem.") }

// ---- layout ----

type mbField struct {
	name   string
	off    int
	size   int
	ti     tinfo // integer fields: width > 0
	isInt  bool
}

type mbLayout struct {
	pkg    string
	fields []mbField
	size   int
	align  int
}

var mbLayouts = map[string]*mbLayout{}
var mbBusy = map[string]bool{}
var mbUsedOff = map[string]bool{}  // "Struct.field"
var mbUsedSize = map[string]bool{} // "Struct"
var mbFiles = map[string]*ast.File{}

func mbIsStruct(name string) bool {
	if !mbOn() {
		return false
	}
	_, ok := mbCfg.MS.Structs[name]
	return ok
}

func mbSizeAlign(e ast.Expr, pkg string) (int, int) {
	switch t := e.(type) {
	case *ast.Ident:
		switch t.Name {
		case "uint8", "int8", "byte", "bool":
			return 1, 1
		case "uint16", "int16":
			return 2, 2
		case "uint32", "int32":
			return 4, 4
		case "uint64", "int64", "uintptr", "int", "uint":
			return 8, 8
		}
		if mbIsStruct(t.Name) {
			l := mbLayoutOf(t.Name)
			return l.size, l.align
		}
		if w, ok := cfg.Types[t.Name]; ok {
			if w == -1 {
				return 1, 1
			}
			if w > 0 {
				return w / 8, w / 8
			}
		}
	case *ast.StarExpr:
		return 8, 8
	case *ast.SelectorExpr:
		if exprText(t) == "unsafe.Pointer" {
			return 8, 8
		}
	case *ast.ArrayType:
		if lit, ok := t.Len.(*ast.BasicLit); ok && lit.Kind == token.INT {
			n, err := strconv.ParseInt(lit.Value, 0, 64)
			if err == nil {
				s, a := mbSizeAlign(t.Elt, pkg)
				return int(n) * s, a
			}
		}
	}
	fail("memstructs: cannot lay out a field of type %T (%s)", e, exprText(e))
	return 0, 0
}

func mbLayoutOf(st string) *mbLayout {
	if l, ok := mbLayouts[st]; ok {
		return l
	}
	if mbBusy[st] {
		fail("memstructs: recursive struct %s", st)
	}
	mbBusy[st] = true
	path := filepath.Join(cfg.Repo, mbCfg.MS.Structs[st])
	file := mbFiles[path]
	if file == nil {
		var err error
		file, err = parser.ParseFile(token.NewFileSet(), path, nil, 0)
		if err != nil {
			fail("%v", err)
		}
		mbFiles[path] = file
	}
	var stt *ast.StructType
	for _, d := range file.Decls {
		gd, ok := d.(*ast.GenDecl)
		if !ok || gd.Tok != token.TYPE {
			continue
		}
		for _, sp := range gd.Specs {
			ts := sp.(*ast.TypeSpec)
			if s, ok := ts.Type.(*ast.StructType); ok && ts.Name.Name == st {
				stt = s
			}
		}
	}
	if stt == nil {
		fail("memstructs: struct %s not found in %s", st, mbCfg.MS.Structs[st])
	}
	l := &mbLayout{pkg: file.Name.Name, align: 1}
	off := 0
	lastSize := -1
	for _, fl := range stt.Fields.List {
		size, align := mbSizeAlign(fl.Type, l.pkg)
		ti := typeOf(fl.Type, l.pkg)
		_, isPtr := fl.Type.(*ast.StarExpr)
		isInt := ti.width > 0 && !isPtr && ti.width/8 == size
		if len(fl.Names) == 0 {
			fail("memstructs: embedded field in %s", st)
		}
		for _, n := range fl.Names {
			if off%align != 0 {
				off += align - off%align
			}
			l.fields = append(l.fields, mbField{name: n.Name, off: off, size: size, ti: ti, isInt: isInt})
			off += size
			lastSize = size
			if align > l.align {
				l.align = align
			}
		}
	}
	if lastSize == 0 && off > 0 {
		off++ // gc: a struct that ends in a zero-size field gets a byte of padding (so that &x.last stays inside x)
	}
	if off%l.align != 0 {
		off += l.align - off%l.align
	}
	l.size = off
	mbLayouts[st] = l
	mbBusy[st] = false
	return l
}

func mbFieldOf(st, f string) mbField {
	for _, x := range mbLayoutOf(st).fields {
		if x.name == f {
			mbUsedOff[st+"."+f] = true
			return x
		}
	}
	fail("memstructs: no field %s in %s", f, st)
	return mbField{}
}

func mbDumpName(st string) string {
	if n, ok := mbCfg.MS.Names[st]; ok {
		return n
	}
	return st
}

// mbPrintLayoutChecks: the computed layout against the constants the Go compiler printed (after the Section)
func mbPrintLayoutChecks() {
	fmt.Println()
	fmt.Println("(* the layout computed by gen/gotrans from the struct declarations = unsafe.Offsetof / unsafe.Sizeof of the Go compiler *)")
	var ks []string
	for k := range mbUsedOff {
		ks = append(ks, k)
	}
	sort.Strings(ks)
	for _, k := range ks {
		p := strings.SplitN(k, ".", 2)
		f := mbFieldOf(p[0], p[1])
		if mbCfg.MS.OffCheck != "" {
			fmt.Printf("Example go_layout_off_%s_%s : (%d)%%N = %s%s_%s. Proof. reflexivity. Qed.\n", p[0], p[1], f.off, mbCfg.MS.OffCheck, mbDumpName(p[0]), p[1])
		}
	}
	ks = nil
	for k := range mbUsedSize {
		ks = append(ks, k)
	}
	sort.Strings(ks)
	for _, k := range ks {
		if mbCfg.MS.SizeCheck != "" {
			fmt.Printf("Example go_layout_sizeof_%s : (%d)%%N = %s%s. Proof. reflexivity. Qed.\n", k, mbLayoutOf(k).size, mbCfg.MS.SizeCheck, mbDumpName(k))
		}
	}
}

// ---- types ----

func mbPtrT(pointee string) tinfo { return tinfo{width: 64, named: "*" + pointee} }

// mbPtrTypeOf: *T for a listed struct T (hook in typeOf)
func mbPtrTypeOf(t *ast.StarExpr) (tinfo, bool) {
	if !mbOn() {
		return tinfo{}, false
	}
	if id, ok := t.X.(*ast.Ident); ok && mbIsStruct(id.Name) {
		return mbPtrT(id.Name), true
	}
	return tinfo{}, false
}

func mbUnparen(e ast.Expr) ast.Expr {
	for {
		p, ok := e.(*ast.ParenExpr)
		if !ok {
			return e
		}
		e = p.X
	}
}

// mbPointee: the struct a pointer-typed expression points to, decided from the syntax (a variable of type *T or a cast)
func mbPointee(e ast.Expr, en *env) (string, bool) {
	e = mbUnparen(e)
	if id, ok := e.(*ast.Ident); ok {
		if ti, ok := en.vars[id.Name]; ok && strings.HasPrefix(ti.named, "*") && mbIsStruct(ti.named[1:]) {
			return ti.named[1:], true
		}
	}
	if c, ok := e.(*ast.CallExpr); ok && len(c.Args) == 1 {
		if par, ok := c.Fun.(*ast.ParenExpr); ok {
			if st, ok := par.X.(*ast.StarExpr); ok {
				if id, ok := st.X.(*ast.Ident); ok && mbIsStruct(id.Name) {
					return id.Name, true
				}
			}
		}
	}
	return "", false
}

func (tr *translator) mbMem() string { return "(f_world_mem " + v(tr.ptrRecv) + ")" }

func (tr *translator) mbLoad(size int, addr string) string {
	if tr.noHoist > 0 {
		fail("%s: memory load under && or ||", tr.fn.Name)
	}
	tmp := tr.tmp()
	tr.pre = append(tr.pre, fmt.Sprintf("match gload (mb_ld %s) %d %s with None => GPanic | Some %s =>", tr.mbMem(), size, addr, tmp))
	return tmp
}

func mbAddr(p string, off int) string { return fmt.Sprintf("(gw 64 (%s + %d))", p, off) }

// mbCallbackOf: f(args) for a parameter f of a listed function type
func (tr *translator) mbCallbackOf(c *ast.CallExpr, en *env) (string, mbCallback, bool) {
	id, ok := c.Fun.(*ast.Ident)
	if !ok {
		return "", mbCallback{}, false
	}
	ti, ok := en.vars[id.Name]
	if !ok || !strings.HasPrefix(ti.named, "cb:") {
		return "", mbCallback{}, false
	}
	return id.Name, mbCfg.MS.Callbacks[ti.named[3:]], true
}

// mbCallHoist: loads of what is presented, the event, and the oracle's answer
func (tr *translator) mbCallHoist(c *ast.CallExpr, name string, cb mbCallback, en *env) (string, tinfo) {
	if tr.noHoist > 0 {
		fail("%s: call of %s under && or ||", tr.fn.Name, name)
	}
	var gargs []string
	for _, a := range c.Args {
		if st, ok := mbPointee(a, en); ok {
			ps, _ := tr.expr(a, en)
			for _, f := range mbLayoutOf(st).fields {
				if f.isInt {
					mbUsedOff[st+"."+f.name] = true
					gargs = append(gargs, "GNum "+tr.mbLoad(f.size, mbAddr(ps, f.off)))
				}
			}
			continue
		}
		if id, ok := mbUnparen(a).(*ast.Ident); ok {
			if ti, ok := en.vars[id.Name]; ok && ti.named == "gostring" {
				tmp := tr.tmp()
				tr.pre = append(tr.pre, fmt.Sprintf("match gldbytes (mb_ld %s) %s %s with None => GPanic | Some %s =>", tr.mbMem(), v(id.Name+"__data"), v(id.Name+"__len"), tmp))
				gargs = append(gargs, "GBytes "+tmp)
				continue
			}
		}
		as, at := tr.expr(a, en)
		if at.width < 0 {
			fail("%s: unsupported argument of the callback %s", tr.fn.Name, name)
		}
		gargs = append(gargs, "GNum "+as)
	}
	lst := "nil"
	for i := len(gargs) - 1; i >= 0; i-- {
		lst = gargs[i] + " :: " + lst
	}
	w := v(tr.ptrRecv)
	tr.pre = append(tr.pre, fmt.Sprintf("match (set_f_world_trace %s ((GCall %q%%string (%s)) :: (f_world_trace %s))) with %s =>", w, name, lst, w, w))
	switch {
	case len(cb.Results) == 0:
		return "tt", tinfo{width: -3}
	case len(cb.Results) == 1 && cb.Results[0] == "bool":
		tr.oracleUsed["o_"+name] = "list gcall -> bool"
		return "(o_" + name + " (f_world_trace " + w + "))", tinfo{width: -1}
	}
	fail("%s: unsupported result type of the callback %s", tr.fn.Name, name)
	return "", tinfo{}
}

// mbWorldCallee: F(args) for a translated receiver-less "world" function of the same package
func (tr *translator) mbWorldCallee(c *ast.CallExpr, en *env) (fnSpec, bool) {
	id, ok := c.Fun.(*ast.Ident)
	if !ok {
		return fnSpec{}, false
	}
	if _, isVar := en.vars[id.Name]; isVar {
		return fnSpec{}, false
	}
	s, ok := tr.funcs[id.Name]
	if !ok || s.Pkg != tr.pkg || !s.World || s.Recv != "" {
		return fnSpec{}, false
	}
	return s, true
}

func (tr *translator) mbWorldCall(c *ast.CallExpr, spec fnSpec, en *env) ([]string, []tinfo) {
	if tr.noHoist > 0 {
		fail("%s: call of %s under && or ||", tr.fn.Name, spec.Name)
	}
	name := coqName(spec.Pkg, spec.Recv, spec.Name)
	tis, done := monResults[name]
	if !done {
		fail("%s: %s must be translated before its caller (order of config funcs)", tr.fn.Name, spec.Name)
	}
	if monInout[name] {
		fail("%s: call of %s, which returns parameters", tr.fn.Name, spec.Name)
	}
	var args []string
	for _, a := range c.Args {
		as, at := tr.expr(a, en)
		if at.width == 0 {
			as = tr.wrap(64, as)
		}
		args = append(args, as)
	}
	for _, xp := range monExtra[name] {
		args = append(args, xp.name)
		switch xp.kind {
		case "seam":
			tr.seamUsed[xp.name] = xp.width
		case "ext":
			tr.extUsed[xp.name] = xp.width
		case "oracle":
			tr.oracleUsed[xp.name] = xp.ty
		case "visitor":
			tr.visitorUse(xp)
		}
	}
	callee := name
	if monFuel[name] {
		callee += " fuel"
		tr.usesFuel = true
	}
	tr.nloop++
	var names, pats []string
	for i := range tis {
		n := fmt.Sprintf("wr%d_%d", tr.nloop, i)
		names = append(names, n)
		pats = append(pats, v(n))
	}
	w := v(tr.ptrRecv)
	tr.pre = append(tr.pre, fmt.Sprintf("match %s %s with GPanic => GPanic | GFuel => GFuel | GOk (%s, %s) =>",
		callee, strings.Join(append([]string{w}, args...), " "), w, tupleOf(pats, "_")))
	return names, tis
}

// mbTouchesMem: the expression loads from memory or calls a callback (so it must not sit under && / ||)
func (tr *translator) mbTouchesMem(e ast.Expr, en *env) bool {
	found := false
	ast.Inspect(e, func(n ast.Node) bool {
		switch t := n.(type) {
		case *ast.SelectorExpr:
			if _, ok := mbPointee(t.X, en); ok {
				found = true
			}
		case *ast.StarExpr:
			if _, _, ok := unsafeLoad(t, tr.pkg); ok {
				found = true
			}
		case *ast.CallExpr:
			if _, _, ok := tr.mbCallbackOf(t, en); ok {
				found = true
			}
			if _, ok := tr.mbWorldCallee(t, en); ok {
				found = true
			}
		}
		return !found
	})
	return found
}

// mbExpr: the expression forms of this mode (called first by expr)
func (tr *translator) mbExpr(e ast.Expr, en *env) (string, tinfo, bool) {
	if !mbOn() || tr.mon != "world" {
		return "", tinfo{}, false
	}
	switch t := e.(type) {
	case *ast.Ident:
		if _, isVar := en.vars[t.Name]; !isVar {
			if g, ok := mbCfg.MS.Globals[t.Name]; ok {
				n, ti := constInfo(g)
				tr.extUsed[n] = ti.width
				return n, ti, true
			}
		}
	case *ast.SelectorExpr:
		if st, ok := mbPointee(t.X, en); ok {
			f := mbFieldOf(st, t.Sel.Name)
			if !f.isInt {
				fail("%s: read of the non-integer field %s.%s", tr.fn.Name, st, f.name)
			}
			ps, _ := tr.expr(t.X, en)
			return tr.mbLoad(f.size, mbAddr(ps, f.off)), f.ti, true
		}
	case *ast.UnaryExpr:
		if t.Op == token.AND {
			if sel, ok := mbUnparen(t.X).(*ast.SelectorExpr); ok {
				if st, ok := mbPointee(sel.X, en); ok {
					f := mbFieldOf(st, sel.Sel.Name)
					ps, _ := tr.expr(sel.X, en)
					return mbAddr(ps, f.off), tinfo{width: 64}, true
				}
			}
		}
	case *ast.StarExpr:
		if w, addr, ok := unsafeLoad(t, tr.pkg); ok {
			as, at := tr.expr(addr, en)
			if at.width != 64 {
				fail("%s: address of a memory load is not a uintptr: %s", tr.fn.Name, exprText(addr))
			}
			return tr.mbLoad(w/8, as), tinfo{width: w}, true
		}
	case *ast.CallExpr:
		// (*T)(unsafe.Pointer(a)) / (*T)(p): the address
		if par, ok := t.Fun.(*ast.ParenExpr); ok && len(t.Args) == 1 {
			if st, ok := par.X.(*ast.StarExpr); ok {
				if id, ok := st.X.(*ast.Ident); ok && mbIsStruct(id.Name) {
					as, at := tr.expr(t.Args[0], en)
					if at.width != 64 {
						fail("%s: a pointer is made from something that is not an address", tr.fn.Name)
					}
					return as, mbPtrT(id.Name), true
				}
			}
		}
		if exprText(t.Fun) == "unsafe.Pointer" && len(t.Args) == 1 {
			as, at := tr.expr(t.Args[0], en)
			if at.width != 64 {
				fail("%s: unsafe.Pointer of something that is not an address", tr.fn.Name)
			}
			return as, tinfo{width: 64}, true
		}
		if exprText(t.Fun) == "unsafe.Sizeof" && len(t.Args) == 1 {
			if id, ok := t.Args[0].(*ast.Ident); ok {
				if ti, ok := en.vars[id.Name]; ok && strings.HasPrefix(ti.named, "struct:") {
					st := ti.named[len("struct:"):]
					mbUsedSize[st] = true
					return fmt.Sprintf("(%d)%%N", mbLayoutOf(st).size), tinfo{width: 64}, true
				}
			}
			fail("%s: unsafe.Sizeof of something that is not a variable of a listed struct type", tr.fn.Name)
		}
		if id, ok := t.Fun.(*ast.Ident); ok && len(t.Args) == 1 {
			if _, isVar := en.vars[id.Name]; !isVar {
				// conversions: int32(x); sign extension of a signed integer converted to a wider type
				var to tinfo
				switch id.Name {
				case "int32":
					to = tinfo{width: 32, signed: true}
				case "int16":
					to = tinfo{width: 16, signed: true}
				case "int8":
					to = tinfo{width: 8, signed: true}
				default:
					to = typeOf(t.Fun, tr.pkg)
				}
				if to.width > 0 {
					x, xt := tr.expr(t.Args[0], en)
					if strings.Contains(x, "UNTYPED_NOT") {
						x = strings.ReplaceAll(x, "(UNTYPED_NOT ", fmt.Sprintf("(gnot %d ", to.width))
					}
					if xt.signed && xt.width > 0 && xt.width < to.width {
						return fmt.Sprintf("(gsext %d %d %s)", xt.width, to.width, x), to, true
					}
					return tr.wrap(to.width, x), to, true
				}
			}
		}
		if name, cb, ok := tr.mbCallbackOf(t, en); ok {
			s, ti := tr.mbCallHoist(t, name, cb, en)
			return s, ti, true
		}
		if spec, ok := tr.mbWorldCallee(t, en); ok {
			names, tis := tr.mbWorldCall(t, spec, en)
			if len(names) == 1 {
				return v(names[0]), tis[0], true
			}
			return "MULTI", tinfo{width: -3}, true
		}
	}
	return "", tinfo{}, false
}

// mbStmt: the statement forms of this mode (called first by block)
func (tr *translator) mbStmt(stmts []ast.Stmt, en *env, k func(*env) string, rest func(*env) string) (string, bool) {
	if !mbOn() || tr.mon != "world" {
		return "", false
	}
	switch s := stmts[0].(type) {
	case *ast.ReturnStmt:
		// return nil for a result of type *T: the address 0 (rewritten in the syntax tree; the statement is then translated as usual)
		for i, r := range s.Results {
			if id, ok := r.(*ast.Ident); ok && id.Name == "nil" && i < len(tr.results) && strings.HasPrefix(tr.results[i].named, "*") && tr.results[i].width == 64 {
				if _, shadow := en.vars["nil"]; !shadow {
					s.Results[i] = &ast.BasicLit{Kind: token.INT, Value: "0"}
				}
			}
		}
	case *ast.DeclStmt:
		gd, ok := s.Decl.(*ast.GenDecl)
		if !ok || gd.Tok != token.VAR {
			return "", false
		}
		// var ( a = e; b T; p *T ) : one declaration per name
		cnt := 0
		for _, sp := range gd.Specs {
			cnt += len(sp.(*ast.ValueSpec).Names)
		}
		if cnt > 1 {
			var seq []ast.Stmt
			for _, sp := range gd.Specs {
				vs := sp.(*ast.ValueSpec)
				for i, n := range vs.Names {
					one := &ast.ValueSpec{Names: []*ast.Ident{n}, Type: vs.Type}
					if i < len(vs.Values) {
						one.Values = []ast.Expr{vs.Values[i]}
					}
					seq = append(seq, &ast.DeclStmt{Decl: &ast.GenDecl{Tok: token.VAR, Specs: []ast.Spec{one}}})
				}
			}
			return tr.block(append(seq, stmts[1:]...), en, k), true
		}
		vs := gd.Specs[0].(*ast.ValueSpec)
		n := vs.Names[0]
		if _, dup := en.vars[n.Name]; dup {
			fail("%s: var %s shadows a variable of an enclosing scope", tr.fn.Name, n.Name)
		}
		if id, ok := vs.Type.(*ast.Ident); ok && mbIsStruct(id.Name) && len(vs.Values) == 0 {
			// a variable of a listed struct type: only unsafe.Sizeof may mention it
			en2 := en.clone()
			en2.vars[n.Name] = tinfo{width: -3, named: "struct:" + id.Name}
			return rest(en2), true
		}
		if id, ok := vs.Type.(*ast.Ident); ok && id.Name == "string" && len(vs.Values) == 0 {
			// a string that is assembled through its header: the locals s__data, s__len
			en2 := en.clone()
			en2.vars[n.Name] = tinfo{width: -3, named: "gostring"}
			en2.vars[n.Name+"__data"] = tinfo{width: 64}
			en2.vars[n.Name+"__len"] = tinfo{width: 64, signed: true}
			return "let " + v(n.Name+"__data") + " := 0 in\n  let " + v(n.Name+"__len") + " := 0 in\n  " + rest(en2), true
		}
		if len(vs.Values) == 1 {
			if sname, ok := mbStringHeaderOf(vs.Values[0], en); ok {
				// h = (*reflect.StringHeader)(unsafe.Pointer(&s)): h.Data / h.Len are s__data / s__len from here on
				for _, st := range stmts[1:] {
					mbRewriteHeader(st, n.Name, sname)
				}
				return rest(en), true
			}
		}
		if len(vs.Values) == 1 {
			// var x [T] = e with loads in e: x := T(e)
			var val ast.Expr = vs.Values[0]
			if vs.Type != nil {
				if _, isStar := vs.Type.(*ast.StarExpr); !isStar {
					val = &ast.CallExpr{Fun: vs.Type, Args: []ast.Expr{val}}
				}
			}
			as := &ast.AssignStmt{Lhs: []ast.Expr{n}, Tok: token.DEFINE, Rhs: []ast.Expr{val}}
			return tr.block(append([]ast.Stmt{as}, stmts[1:]...), en, k), true
		}
	case *ast.AssignStmt:
		if len(s.Rhs) == 1 && (s.Tok == token.ASSIGN || s.Tok == token.DEFINE) {
			if c, ok := mbUnparen(s.Rhs[0]).(*ast.CallExpr); ok {
				if spec, ok := tr.mbWorldCallee(c, en); ok {
					names, tis := tr.mbWorldCall(c, spec, en)
					if len(names) != len(s.Lhs) {
						fail("%s: %s returns %d values", tr.fn.Name, spec.Name, len(names))
					}
					pre := tr.takePre()
					en2 := en.clone()
					var seq []ast.Stmt
					for i, l := range s.Lhs {
						en2.vars[names[i]] = tis[i]
						if id, ok := l.(*ast.Ident); ok && id.Name == "_" {
							continue
						}
						seq = append(seq, &ast.AssignStmt{Lhs: []ast.Expr{l}, Tok: s.Tok, Rhs: []ast.Expr{ast.NewIdent(names[i])}})
					}
					return tr.wrapPre(pre, tr.block(append(seq, stmts[1:]...), en2, k)), true
				}
			}
		}
		if len(s.Lhs) == 1 && len(s.Rhs) == 1 {
			if sel, ok := mbUnparen(s.Lhs[0]).(*ast.SelectorExpr); ok {
				if st, ok := mbPointee(sel.X, en); ok {
					// p.f = e : a store (right-hand side first)
					if s.Tok != token.ASSIGN {
						fail("%s: only plain assignment to a field in memory is supported", tr.fn.Name)
					}
					f := mbFieldOf(st, sel.Sel.Name)
					if !f.isInt {
						fail("%s: store into the non-integer field %s.%s", tr.fn.Name, st, f.name)
					}
					rhs, rt := tr.expr(s.Rhs[0], en)
					if rt.width == 0 {
						rhs = tr.wrap(f.ti.width, rhs)
					}
					ps, _ := tr.expr(sel.X, en)
					pre := tr.takePre()
					tmp := tr.tmp()
					w := v(tr.ptrRecv)
					body := fmt.Sprintf("match mb_st %s %d %s %s with None => GPanic | Some %s =>\n  let %s := set_f_world_mem %s %s in\n  %s end",
						tr.mbMem(), f.size, mbAddr(ps, f.off), rhs, tmp, w, w, tmp, rest(en))
					return tr.wrapPre(pre, body), true
				}
			}
		}
	case *ast.ExprStmt:
		if c, ok := mbUnparen(s.X).(*ast.CallExpr); ok {
			if name, cb, ok := tr.mbCallbackOf(c, en); ok {
				tr.mbCallHoist(c, name, cb, en)
				pre := tr.takePre()
				return tr.wrapPre(pre, rest(en)), true
			}
			if spec, ok := tr.mbWorldCallee(c, en); ok {
				tr.mbWorldCall(c, spec, en)
				pre := tr.takePre()
				return tr.wrapPre(pre, rest(en)), true
			}
		}
	case *ast.IfStmt:
		if be, ok := mbUnparen(s.Cond).(*ast.BinaryExpr); ok && s.Init == nil && (be.Op == token.LOR || be.Op == token.LAND) && tr.mbTouchesMem(be.Y, en) {
			// a || b / a && b where b touches memory: Go evaluates b only when needed
			var els ast.Stmt = s.Else
			if els == nil {
				els = &ast.BlockStmt{}
			}
			var first ast.Stmt
			if be.Op == token.LOR {
				first = &ast.IfStmt{Cond: be.X, Body: s.Body, Else: &ast.IfStmt{Cond: be.Y, Body: s.Body, Else: els}}
			} else {
				first = &ast.IfStmt{Cond: be.X, Body: &ast.BlockStmt{List: []ast.Stmt{&ast.IfStmt{Cond: be.Y, Body: s.Body, Else: els}}}, Else: els}
			}
			return tr.block(append([]ast.Stmt{first}, stmts[1:]...), en, k), true
		}
	}
	return "", false
}

// mbStringHeaderOf recognises (*reflect.StringHeader)(unsafe.Pointer(&s)) for a string variable s of this mode
func mbStringHeaderOf(e ast.Expr, en *env) (string, bool) {
	c, ok := mbUnparen(e).(*ast.CallExpr)
	if !ok || len(c.Args) != 1 {
		return "", false
	}
	par, ok := c.Fun.(*ast.ParenExpr)
	if !ok {
		return "", false
	}
	st, ok := par.X.(*ast.StarExpr)
	if !ok || exprText(st.X) != "reflect.StringHeader" {
		return "", false
	}
	in, ok := c.Args[0].(*ast.CallExpr)
	if !ok || exprText(in.Fun) != "unsafe.Pointer" || len(in.Args) != 1 {
		return "", false
	}
	u, ok := in.Args[0].(*ast.UnaryExpr)
	if !ok || u.Op != token.AND {
		return "", false
	}
	id, ok := u.X.(*ast.Ident)
	if !ok || en.vars[id.Name].named != "gostring" {
		return "", false
	}
	return id.Name, true
}

// mbRewriteHeader replaces h.Data / h.Len by the identifiers s__data / s__len (in place, once); any other use of h is rejected
func mbRewriteHeader(n ast.Node, h, s string) {
	fix := func(e ast.Expr) ast.Expr {
		if sel, ok := e.(*ast.SelectorExpr); ok {
			if id, ok := sel.X.(*ast.Ident); ok && id.Name == h {
				switch sel.Sel.Name {
				case "Data":
					return ast.NewIdent(s + "__data")
				case "Len":
					return ast.NewIdent(s + "__len")
				}
				fail("memstructs: unsupported field %s of the string header %s", sel.Sel.Name, h)
			}
		}
		return e
	}
	ast.Inspect(n, func(x ast.Node) bool {
		switch t := x.(type) {
		case *ast.AssignStmt:
			for i := range t.Lhs {
				t.Lhs[i] = fix(t.Lhs[i])
			}
			for i := range t.Rhs {
				t.Rhs[i] = fix(t.Rhs[i])
			}
		case *ast.BinaryExpr:
			t.X, t.Y = fix(t.X), fix(t.Y)
		case *ast.CallExpr:
			for i := range t.Args {
				t.Args[i] = fix(t.Args[i])
			}
		case *ast.ParenExpr:
			t.X = fix(t.X)
		case *ast.UnaryExpr:
			t.X = fix(t.X)
		case *ast.IncDecStmt:
			t.X = fix(t.X)
		case *ast.ReturnStmt:
			for i := range t.Results {
				t.Results[i] = fix(t.Results[i])
			}
		case *ast.Ident:
			if t.Name == h {
				fail("memstructs: the string header %s is used other than through .Data / .Len", h)
			}
		}
		return true
	})
}

// mbRecv: a "world" function whose receiver is a pointer to a listed struct: the receiver is an address
func mbRecv(tr *translator, decl *ast.FuncDecl, en *env, params *[]string) bool {
	if !mbOn() || !tr.fn.World || decl.Recv == nil || len(decl.Recv.List) != 1 {
		return false
	}
	r := decl.Recv.List[0]
	st, ok := r.Type.(*ast.StarExpr)
	if !ok {
		return false
	}
	id, ok := st.X.(*ast.Ident)
	if !ok || !mbIsStruct(id.Name) || len(r.Names) != 1 {
		return false
	}
	tr.mon = "world"
	tr.ptrRecv = "world"
	*params = append(*params, "("+v("world")+" : "+recName(structPkg["world"], "world")+")", "("+v(r.Names[0].Name)+" : N)")
	en.vars[r.Names[0].Name] = mbPtrT(id.Name)
	return true
}

// mbParam: a parameter of a listed function type is a seam (no Coq parameter for the function value)
func mbParam(tr *translator, p *ast.Field, en *env, params *[]string) bool {
	if !mbOn() || !tr.fn.World {
		return false
	}
	id, ok := p.Type.(*ast.Ident)
	if !ok {
		return false
	}
	if _, ok := mbCfg.MS.Callbacks[id.Name]; !ok {
		return false
	}
	for _, n := range p.Names {
		en.vars[n.Name] = tinfo{width: -3, named: "cb:" + id.Name}
	}
	return true
}
