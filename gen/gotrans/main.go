// gotrans: a translator from a small, integer-only subset of Go to Gallina (Coq), used to REGENERATE
// the model of small pure functions of the kernel from the current source on every run.
//
//   gotrans config.json > Gen/Trans_xxx.v
//
// Supported: functions and methods (value or pointer receiver on a named integer type) whose bodies
// consist of :=, =, op=, var declarations, ++/--, if/else, return; expressions over unsigned integer
// types (uintptr/uint64/uint32/uint16/uint8 and named types declared in the config), booleans,
// constants listed in the config, package-level variables listed in the config (threaded through as
// extra parameter and result), error values listed in the config (nil = None), calls of other
// translated functions/methods and conversions. Unsigned arithmetic wraps at the width of the Go type
// (Lib/GoOps.v). Anything else makes the translator fail, which the check reports as a broken tie.
//
// Struct receivers (config "structs"): a method with a pointer receiver of a struct type listed there is
// translated in "monadic mode": the struct becomes a Record whose fields are read from the type
// declaration in the source (unsigned integers and []byte), the function takes the record and returns
// `option (record * results)`, None = Go run-time panic. r.f reads a field, r.f = e / r.f++ / r.f--
// rebuild the record, len(r.f) is the list length, r.f[i] is a bounds-checked read hoisted in front
// of the statement (None when out of range), a call r.M(args) of another translated method of the
// same struct is hoisted likewise and threads the record. A hoisted call must be the whole
// expression (or its negation); index reads must not sit under && or ||.
package main

import (
	"encoding/json"
	"sort"
	"fmt"
	"go/ast"
	"go/parser"
	"go/token"
	"os"
	"path/filepath"
	"strings"
)

type fnSpec struct {
	File string `json:"file"` // relative to repo root
	Pkg  string `json:"pkg"`
	Recv string `json:"recv"` // "" or receiver type name
	Name string `json:"name"`
}

type config struct {
	Repo    string            `json:"repo"`
	Funcs   []fnSpec          `json:"funcs"`
	Types   map[string]int    `json:"types"`   // named type -> width in bits
	Consts  map[string]string `json:"consts"`  // Go expression text -> "coqname:width"
	Globals map[string]string `json:"globals"` // Go var name -> "coqname:width"
	Errors  map[string]string `json:"errors"`  // Go error var name -> tag string
	Structs map[string]string `json:"structs"` // struct type name -> file (relative to repo root) declaring it
	Opaque  map[string][]string `json:"opaque"` // struct type name -> fields of interface/pointer type, modelled as "is non-nil"
}

type sfield struct {
	name  string
	width int // >0 unsigned integer width, -4 = []byte, -6 = opaque reference (bool: non-nil)
}

var structFields = map[string][]sfield{}
var structPkg = map[string]string{}

var cfg config

type tinfo struct {
	width int    // 0 = untyped constant, -1 = bool, -2 = error, -3 = unknown
	named string // named type for method resolution
}

type env struct {
	vars map[string]tinfo // Go name -> type
}

func (e *env) clone() *env {
	n := &env{vars: map[string]tinfo{}}
	for k, v := range e.vars {
		n.vars[k] = v
	}
	return n
}

func fail(format string, args ...interface{}) {
	fmt.Fprintf(os.Stderr, "gotrans: "+format+"\n", args...)
	os.Exit(2)
}

func coqName(pkg, recv, name string) string {
	if recv != "" {
		return "go_" + pkg + "_" + recv + "_" + name
	}
	return "go_" + pkg + "_" + name
}

func v(name string) string { return "v_" + name }

func typeOf(e ast.Expr, pkg string) tinfo {
	switch t := e.(type) {
	case *ast.Ident:
		switch t.Name {
		case "bool":
			return tinfo{width: -1}
		case "uintptr", "uint64", "uint":
			return tinfo{width: 64}
		case "uint32":
			return tinfo{width: 32}
		case "uint16":
			return tinfo{width: 16}
		case "uint8", "byte":
			return tinfo{width: 8}
		case "error":
			return tinfo{width: -2}
		}
		if _, ok := cfg.Structs[t.Name]; ok {
			return tinfo{width: -5, named: t.Name}
		}
		if w, ok := cfg.Types[t.Name]; ok {
			return tinfo{width: w, named: t.Name}
		}
	case *ast.SelectorExpr:
		if w, ok := cfg.Types[t.Sel.Name]; ok {
			return tinfo{width: w, named: t.Sel.Name}
		}
	case *ast.ParenExpr:
		return typeOf(t.X, pkg)
	case *ast.StarExpr:
		if sel, ok := t.X.(*ast.SelectorExpr); ok && sel.Sel.Name == "Error" {
			return tinfo{width: -2}
		}
		return typeOf(t.X, pkg)
	}
	return tinfo{width: -3}
}

func exprText(e ast.Expr) string {
	switch t := e.(type) {
	case *ast.Ident:
		return t.Name
	case *ast.SelectorExpr:
		return exprText(t.X) + "." + t.Sel.Name
	}
	return ""
}

func splitNameWidth(s string) (string, int) {
	parts := strings.Split(s, ":")
	w := 64
	if len(parts) > 1 {
		fmt.Sscanf(parts[1], "%d", &w)
	}
	return parts[0], w
}

type translator struct {
	pkg      string
	fn       fnSpec
	ptrRecv  string // Go name of the pointer receiver ("" if none)
	globals  []string
	results  []tinfo
	funcs    map[string]fnSpec // "Recv.Name" or "Name" -> spec (same package) ; "pkg.Name"
	usedGlob map[string]bool
	mon      string   // monadic mode: name of the struct type of the pointer receiver ("" otherwise)
	pre      []string // hoisted bindings of the statement being translated (monadic mode)
	ntmp     int
	hoistedCall bool
	noHoist  int // >0 while under the right operand of && / ||
}

func recName(pkg, st string) string { return "go_" + pkg + "_" + st }
func fieldName(st, f string) string { return "f_" + st + "_" + f }

func (tr *translator) tmp() string {
	tr.ntmp++
	return fmt.Sprintf("t%d", tr.ntmp)
}

// wrapPre encloses a statement's term in the hoisted bindings collected while translating it
func (tr *translator) wrapPre(pre []string, body string) string {
	for i := len(pre) - 1; i >= 0; i-- {
		body = pre[i] + "\n  " + body + " end"
	}
	return body
}

// field access on the struct receiver: returns (field, ok)
func (tr *translator) recvField(e ast.Expr) (sfield, bool) {
	sel, ok := e.(*ast.SelectorExpr)
	if !ok || tr.mon == "" {
		return sfield{}, false
	}
	id, ok := sel.X.(*ast.Ident)
	if !ok || id.Name != tr.ptrRecv {
		return sfield{}, false
	}
	for _, f := range structFields[tr.mon] {
		if f.name == sel.Sel.Name {
			return f, true
		}
	}
	return sfield{}, false
}

func (tr *translator) setField(f sfield, val string) string {
	var parts []string
	for _, g := range structFields[tr.mon] {
		if g.name == f.name {
			parts = append(parts, val)
		} else {
			parts = append(parts, "("+fieldName(tr.mon, g.name)+" "+v(tr.ptrRecv)+")")
		}
	}
	return "(mk_" + recName(structPkg[tr.mon], tr.mon) + " " + strings.Join(parts, " ") + ")"
}

func (tr *translator) wrap(w int, s string) string {
	if w > 0 {
		return fmt.Sprintf("(gw %d %s)", w, s)
	}
	return s
}

// expr returns the Gallina term and the type
func (tr *translator) expr(e ast.Expr, en *env) (string, tinfo) {
	switch t := e.(type) {
	case *ast.ParenExpr:
		return tr.expr(t.X, en)
	case *ast.BasicLit:
		if t.Kind == token.INT {
			s := strings.ReplaceAll(t.Value, "_", "")
			if strings.HasPrefix(s, "0X") {
				s = "0x" + s[2:]
			}
			return "(" + s + ")%N", tinfo{width: 0}
		}
	case *ast.Ident:
		if t.Name == "true" || t.Name == "false" {
			return t.Name, tinfo{width: -1}
		}
		if t.Name == "nil" {
			return "None", tinfo{width: -2}
		}
		if ti, ok := en.vars[t.Name]; ok {
			return v(t.Name), ti
		}
		if g, ok := cfg.Globals[t.Name]; ok {
			_, w := splitNameWidth(g)
			tr.usedGlob[t.Name] = true
			return "g_" + t.Name, tinfo{width: w}
		}
		if c, ok := cfg.Consts[tr.pkg+"."+t.Name]; ok {
			n, w := splitNameWidth(c)
			return n, tinfo{width: w}
		}
		if tag, ok := cfg.Errors[t.Name]; ok {
			return fmt.Sprintf("(Some %q%%string)", tag), tinfo{width: -2}
		}
	case *ast.SelectorExpr:
		if f, ok := tr.recvField(t); ok {
			return "(" + fieldName(tr.mon, f.name) + " " + v(tr.ptrRecv) + ")", tinfo{width: f.width}
		}
		txt := exprText(t)
		if c, ok := cfg.Consts[txt]; ok {
			n, w := splitNameWidth(c)
			return n, tinfo{width: w}
		}
	case *ast.IndexExpr:
		if tr.mon != "" {
			xs, xt := tr.expr(t.X, en)
			if xt.width == -4 {
				if tr.noHoist > 0 {
					fail("%s: index expression under && or ||", tr.fn.Name)
				}
				is, _ := tr.expr(t.Index, en)
				tmp := tr.tmp()
				tr.pre = append(tr.pre, fmt.Sprintf("match gidx %s %s with None => None | Some %s =>", xs, is, tmp))
				return tmp, tinfo{width: 8}
			}
		}
	case *ast.StarExpr:
		if id, ok := t.X.(*ast.Ident); ok && id.Name == tr.ptrRecv {
			return v(id.Name), en.vars[id.Name]
		}
	case *ast.UnaryExpr:
		x, ti := tr.expr(t.X, en)
		switch t.Op {
		case token.NOT:
			return "(negb " + x + ")", tinfo{width: -1}
		case token.XOR:
			if ti.width > 0 {
				return fmt.Sprintf("(gnot %d %s)", ti.width, x), ti
			}
			// ^ of an untyped constant: width comes from the context; handled by the binary case
			return "(UNTYPED_NOT " + x + ")", tinfo{width: 0}
		}
	case *ast.BinaryExpr:
		// &^ with an untyped complement etc.: infer widths from the typed side
		xs, xt := tr.expr(t.X, en)
		if t.Op == token.LAND || t.Op == token.LOR {
			tr.noHoist++
		}
		ys, yt := tr.expr(t.Y, en)
		if t.Op == token.LAND || t.Op == token.LOR {
			tr.noHoist--
		}
		w := xt.width
		ti := xt
		if t.Op != token.SHL && t.Op != token.SHR {
			if w == 0 {
				w = yt.width
				ti = yt
			}
		}
		fix := func(s string) string { // resolve a pending ^const now that the width is known
			if strings.Contains(s, "UNTYPED_NOT") {
				if w <= 0 {
					fail("%s: cannot determine the width of a complemented constant", tr.fn.Name)
				}
				return strings.ReplaceAll(s, "(UNTYPED_NOT ", fmt.Sprintf("(gnot %d ", w))
			}
			return s
		}
		xs, ys = fix(xs), fix(ys)
		switch t.Op {
		case token.ADD:
			return tr.wrap(w, "("+xs+" + "+ys+")"), ti
		case token.SUB:
			if w > 0 {
				return fmt.Sprintf("(gsub %d %s %s)", w, xs, ys), ti
			}
			return "(" + xs + " - " + ys + ")", ti
		case token.MUL:
			return tr.wrap(w, "("+xs+" * "+ys+")"), ti
		case token.AND:
			return "(N.land " + xs + " " + ys + ")", ti
		case token.OR:
			return "(N.lor " + xs + " " + ys + ")", ti
		case token.XOR:
			return "(N.lxor " + xs + " " + ys + ")", ti
		case token.AND_NOT:
			return "(N.ldiff " + xs + " " + ys + ")", ti
		case token.SHL:
			return tr.wrap(w, "(N.shiftl "+xs+" "+ys+")"), ti
		case token.SHR:
			return "(N.shiftr " + xs + " " + ys + ")", ti
		case token.EQL:
			if xt.width == -6 && ys == "None" {
				return "(negb " + xs + ")", tinfo{width: -1}
			}
			if xt.width == -2 || yt.width == -2 {
				return "(gerr_eqb " + xs + " " + ys + ")", tinfo{width: -1}
			}
			if xt.width == -1 {
				return "(Bool.eqb " + xs + " " + ys + ")", tinfo{width: -1}
			}
			return "(" + xs + " =? " + ys + ")", tinfo{width: -1}
		case token.NEQ:
			if xt.width == -6 && ys == "None" {
				return xs, tinfo{width: -1}
			}
			if xt.width == -2 || yt.width == -2 {
				return "(negb (gerr_eqb " + xs + " " + ys + "))", tinfo{width: -1}
			}
			if xt.width == -1 {
				return "(negb (Bool.eqb " + xs + " " + ys + "))", tinfo{width: -1}
			}
			return "(negb (" + xs + " =? " + ys + "))", tinfo{width: -1}
		case token.LSS:
			return "(" + xs + " <? " + ys + ")", tinfo{width: -1}
		case token.LEQ:
			return "(" + xs + " <=? " + ys + ")", tinfo{width: -1}
		case token.GTR:
			return "(" + ys + " <? " + xs + ")", tinfo{width: -1}
		case token.GEQ:
			return "(" + ys + " <=? " + xs + ")", tinfo{width: -1}
		case token.LAND:
			return "(" + xs + " && " + ys + ")", tinfo{width: -1}
		case token.LOR:
			return "(" + xs + " || " + ys + ")", tinfo{width: -1}
		}
	case *ast.CallExpr:
		// len(x) of a []byte field
		if id, ok := t.Fun.(*ast.Ident); ok && id.Name == "len" && len(t.Args) == 1 && tr.mon != "" {
			xs, xt := tr.expr(t.Args[0], en)
			if xt.width == -4 {
				return "(glen " + xs + ")", tinfo{width: 0}
			}
		}
		// call of another translated method on the struct receiver: hoisted, threads the record
		if sel, ok := t.Fun.(*ast.SelectorExpr); ok && tr.mon != "" {
			if id, ok := sel.X.(*ast.Ident); ok && id.Name == tr.ptrRecv {
				if spec, ok := tr.funcs[tr.mon+"."+sel.Sel.Name]; ok {
					if tr.noHoist > 0 {
						fail("%s: method call under && or ||", tr.fn.Name)
					}
					var args []string
					for _, a := range t.Args {
						as, _ := tr.expr(a, en)
						args = append(args, as)
					}
					name := coqName(spec.Pkg, spec.Recv, spec.Name)
					rts := monResults[name]
					var pats []string
					var first string
					var ft tinfo
					for i, rt := range rts {
						tmp := tr.tmp()
						pats = append(pats, tmp)
						if i == 0 {
							first, ft = tmp, rt
						}
					}
					pat := "tt"
					if len(pats) == 1 {
						pat = pats[0]
					} else if len(pats) > 1 {
						pat = "(" + strings.Join(pats, ", ") + ")"
					}
					if len(pats) == 0 {
						pat = "_"
					}
					tr.pre = append(tr.pre, fmt.Sprintf("match %s %s with None => None | Some (%s, %s) =>", name, strings.Join(append([]string{v(tr.ptrRecv)}, args...), " "), v(tr.ptrRecv), pat))
					tr.hoistedCall = true
					if len(rts) > 1 {
						// multi-value call: only usable through a tuple assignment (not supported) or as a statement
						return "MULTI", tinfo{width: -3}
					}
					return first, ft
				}
			}
		}
		// conversion T(x)
		if len(t.Args) == 1 {
			ti := typeOf(t.Fun, tr.pkg)
			if ti.width > 0 {
				x, _ := tr.expr(t.Args[0], en)
				if strings.Contains(x, "UNTYPED_NOT") {
					x = strings.ReplaceAll(x, "(UNTYPED_NOT ", fmt.Sprintf("(gnot %d ", ti.width))
				}
				return tr.wrap(ti.width, x), ti
			}
		}
		// method call x.M(args) on a variable of a named type, or pkg.F(args), or F(args)
		var spec fnSpec
		var args []string
		found := false
		switch f := t.Fun.(type) {
		case *ast.SelectorExpr:
			rs, rt := tr.expr(f.X, en)
			if rt.named != "" {
				if s, ok := tr.funcs[rt.named+"."+f.Sel.Name]; ok {
					spec, found = s, true
					args = append(args, rs)
				}
			}
			if !found {
				if s, ok := tr.funcs[exprText(f)]; ok {
					spec, found = s, true
				}
			}
		case *ast.Ident:
			if s, ok := tr.funcs[f.Name]; ok && s.Pkg == tr.pkg {
				spec, found = s, true
			}
		}
		if found {
			for _, a := range t.Args {
				as, _ := tr.expr(a, en)
				args = append(args, as)
			}
			rt := resultTypes[coqName(spec.Pkg, spec.Recv, spec.Name)]
			return "(" + coqName(spec.Pkg, spec.Recv, spec.Name) + " " + strings.Join(args, " ") + ")", rt
		}
	}
	fail("%s.%s: unsupported expression %T at %v", tr.fn.Recv, tr.fn.Name, e, e.Pos())
	return "", tinfo{}
}

var resultTypes = map[string]tinfo{}
var monResults = map[string][]tinfo{}

func (tr *translator) ret(vals []string, en *env) string {
	if tr.mon != "" {
		r := "tt"
		if len(vals) == 1 {
			r = vals[0]
		} else if len(vals) > 1 {
			r = "(" + strings.Join(vals, ", ") + ")"
		}
		return "(Some (" + v(tr.ptrRecv) + ", " + r + "))"
	}
	var parts []string
	for _, g := range tr.globals {
		parts = append(parts, "g_"+g)
	}
	if tr.ptrRecv != "" {
		parts = append(parts, v(tr.ptrRecv))
	}
	parts = append(parts, vals...)
	if len(parts) == 0 {
		return "tt"
	}
	if len(parts) == 1 {
		return parts[0]
	}
	return "(" + strings.Join(parts, ", ") + ")"
}

// takePre returns the bindings hoisted while translating the expressions of one statement and resets
// the collector; a hoisted method call must be the whole expression e (or its negation)
func (tr *translator) takePre(es ...ast.Expr) []string {
	pre := tr.pre
	tr.pre = nil
	if tr.hoistedCall {
		ok := len(es) == 1
		if ok {
			e := es[0]
			for {
				if p, isP := e.(*ast.ParenExpr); isP {
					e = p.X
					continue
				}
				if u, isU := e.(*ast.UnaryExpr); isU && u.Op == token.NOT {
					e = u.X
					continue
				}
				break
			}
			_, ok = e.(*ast.CallExpr)
		}
		if !ok {
			fail("%s: a method call on the receiver must be the whole expression of its statement", tr.fn.Name)
		}
	}
	tr.hoistedCall = false
	return pre
}

// block translates statements; k produces the term for "fall off the end of this list"
func (tr *translator) block(stmts []ast.Stmt, en *env, k func(en *env) string) string {
	if len(stmts) == 0 {
		return k(en)
	}
	rest := func(en2 *env) string { return tr.block(stmts[1:], en2, k) }
	switch s := stmts[0].(type) {
	case *ast.ReturnStmt:
		var vals []string
		for i, r := range s.Results {
			x, ti := tr.expr(r, en)
			if i < len(tr.results) && tr.results[i].width > 0 && ti.width == 0 {
				x = tr.wrap(tr.results[i].width, x)
			}
			vals = append(vals, x)
		}
		pre := tr.takePre(s.Results...)
		if len(s.Results) > 1 && len(pre) > 0 {
			for _, p := range pre {
				if !strings.HasPrefix(p, "match gidx") {
					fail("%s: method call inside a multi-value return", tr.fn.Name)
				}
			}
		}
		return tr.wrapPre(pre, tr.ret(vals, en))
	case *ast.AssignStmt:
		if len(s.Lhs) == len(s.Rhs) && len(s.Lhs) > 1 && s.Tok == token.ASSIGN {
			// parallel assignment: evaluate every right-hand side first, then assign left to right
			var seq []ast.Stmt
			var names []string
			for i, r := range s.Rhs {
				nm := fmt.Sprintf("par%d_%d", tr.ntmp, i)
				names = append(names, nm)
				seq = append(seq, &ast.AssignStmt{Lhs: []ast.Expr{ast.NewIdent(nm)}, Tok: token.DEFINE, Rhs: []ast.Expr{r}})
			}
			tr.ntmp++
			for i, l := range s.Lhs {
				seq = append(seq, &ast.AssignStmt{Lhs: []ast.Expr{l}, Tok: token.ASSIGN, Rhs: []ast.Expr{ast.NewIdent(names[i])}})
			}
			return tr.block(append(seq, stmts[1:]...), en, k)
		}
		if len(s.Lhs) != 1 || len(s.Rhs) != 1 {
			fail("%s: multiple assignment not supported", tr.fn.Name)
		}
		rhs, rt := tr.expr(s.Rhs[0], en)
		pre := tr.takePre(s.Rhs[0])
		if f, ok := tr.recvField(s.Lhs[0]); ok {
			if f.width <= 0 {
				fail("%s: assignment to a non-integer field", tr.fn.Name)
			}
			cur := "(" + fieldName(tr.mon, f.name) + " " + v(tr.ptrRecv) + ")"
			val := rhs
			switch s.Tok {
			case token.ASSIGN:
				if rt.width == 0 {
					val = tr.wrap(f.width, rhs)
				}
			case token.ADD_ASSIGN:
				val = tr.wrap(f.width, "("+cur+" + "+rhs+")")
			case token.SUB_ASSIGN:
				val = fmt.Sprintf("(gsub %d %s %s)", f.width, cur, rhs)
			default:
				fail("%s: unsupported assignment operator on a field", tr.fn.Name)
			}
			return tr.wrapPre(pre, "let "+v(tr.ptrRecv)+" := "+tr.setField(f, val)+" in\n  "+rest(en))
		}
		var name string
		var isGlobal bool
		switch l := s.Lhs[0].(type) {
		case *ast.Ident:
			name = l.Name
			if _, ok := en.vars[name]; !ok {
				if _, ok := cfg.Globals[name]; ok {
					isGlobal = true
					tr.usedGlob[name] = true
				}
			}
		case *ast.StarExpr:
			if id, ok := l.X.(*ast.Ident); ok && id.Name == tr.ptrRecv {
				name = id.Name
			}
		}
		if name == "" {
			fail("%s: unsupported assignment target", tr.fn.Name)
		}
		en2 := en.clone()
		var lt tinfo
		coq := v(name)
		if isGlobal {
			_, w := splitNameWidth(cfg.Globals[name])
			lt = tinfo{width: w}
			coq = "g_" + name
		} else if s.Tok == token.DEFINE {
			lt = rt
			if lt.width == 0 {
				lt = tinfo{width: 64} // untyped constant defaults to int; only used for small values
			}
			en2.vars[name] = lt
		} else {
			lt = en.vars[name]
		}
		val := rhs
		if s.Tok != token.ASSIGN && s.Tok != token.DEFINE {
			cur := coq
			w := lt.width
			switch s.Tok {
			case token.ADD_ASSIGN:
				val = tr.wrap(w, "("+cur+" + "+rhs+")")
			case token.SUB_ASSIGN:
				val = fmt.Sprintf("(gsub %d %s %s)", w, cur, rhs)
			case token.OR_ASSIGN:
				val = "(N.lor " + cur + " " + rhs + ")"
			case token.AND_ASSIGN:
				val = "(N.land " + cur + " " + rhs + ")"
			case token.AND_NOT_ASSIGN:
				val = "(N.ldiff " + cur + " " + rhs + ")"
			case token.XOR_ASSIGN:
				val = "(N.lxor " + cur + " " + rhs + ")"
			case token.SHL_ASSIGN:
				val = tr.wrap(w, "(N.shiftl "+cur+" "+rhs+")")
			case token.SHR_ASSIGN:
				val = "(N.shiftr " + cur + " " + rhs + ")"
			default:
				fail("%s: unsupported assignment operator %v", tr.fn.Name, s.Tok)
			}
		} else if lt.width > 0 && rt.width == 0 {
			val = tr.wrap(lt.width, rhs)
		}
		if strings.Contains(val, "UNTYPED_NOT") {
			val = strings.ReplaceAll(val, "(UNTYPED_NOT ", fmt.Sprintf("(gnot %d ", lt.width))
		}
		return tr.wrapPre(pre, "let "+coq+" := "+val+" in\n  "+rest(en2))
	case *ast.ExprStmt:
		if tr.mon == "" {
			fail("%s: expression statement", tr.fn.Name)
		}
		tr.expr(s.X, en)
		if !tr.hoistedCall {
			fail("%s: unsupported expression statement", tr.fn.Name)
		}
		pre := tr.takePre(s.X)
		return tr.wrapPre(pre, rest(en))
	case *ast.IncDecStmt:
		if f, ok := tr.recvField(s.X); ok {
			cur := "(" + fieldName(tr.mon, f.name) + " " + v(tr.ptrRecv) + ")"
			val := tr.wrap(f.width, "("+cur+" + 1)")
			if s.Tok == token.DEC {
				val = fmt.Sprintf("(gsub %d %s 1)", f.width, cur)
			}
			return "let " + v(tr.ptrRecv) + " := " + tr.setField(f, val) + " in\n  " + rest(en)
		}
		id, ok := s.X.(*ast.Ident)
		if !ok {
			fail("%s: unsupported ++/--", tr.fn.Name)
		}
		ti := en.vars[id.Name]
		if s.Tok == token.INC {
			return "let " + v(id.Name) + " := " + tr.wrap(ti.width, "("+v(id.Name)+" + 1)") + " in\n  " + rest(en)
		}
		return "let " + v(id.Name) + fmt.Sprintf(" := (gsub %d %s 1) in\n  ", ti.width, v(id.Name)) + rest(en)
	case *ast.DeclStmt:
		gd, ok := s.Decl.(*ast.GenDecl)
		if !ok || gd.Tok != token.VAR {
			fail("%s: unsupported declaration", tr.fn.Name)
		}
		en2 := en.clone()
		out := ""
		for _, sp := range gd.Specs {
			vs := sp.(*ast.ValueSpec)
			for i, n := range vs.Names {
				ti := tinfo{width: -3}
				if vs.Type != nil {
					ti = typeOf(vs.Type, tr.pkg)
				}
				val := "0"
				if ti.width == -1 {
					val = "false"
				}
				if ti.width == -2 {
					val = "None"
				}
				if i < len(vs.Values) {
					var vt tinfo
					val, vt = tr.expr(vs.Values[i], en)
					if len(tr.pre) > 0 {
						fail("%s: index or method call in a var declaration", tr.fn.Name)
					}
					if vs.Type == nil {
						ti = vt
					}
				}
				en2.vars[n.Name] = ti
				out += "let " + v(n.Name) + " := " + val + " in\n  "
			}
		}
		return out + rest(en2)
	case *ast.IfStmt:
		if s.Init != nil {
			return tr.block(append([]ast.Stmt{s.Init, &ast.IfStmt{Cond: s.Cond, Body: s.Body, Else: s.Else}}, stmts[1:]...), en, k)
		}
		c, _ := tr.expr(s.Cond, en)
		pre := tr.takePre(s.Cond)
		thn := tr.block(s.Body.List, en, rest)
		var els string
		switch e := s.Else.(type) {
		case nil:
			els = rest(en)
		case *ast.BlockStmt:
			els = tr.block(e.List, en, rest)
		case *ast.IfStmt:
			els = tr.block([]ast.Stmt{e}, en, rest)
		}
		return tr.wrapPre(pre, "if "+c+"\n  then ("+thn+")\n  else ("+els+")")
	case *ast.BlockStmt:
		return tr.block(append(append([]ast.Stmt{}, s.List...), stmts[1:]...), en, k)
	case *ast.EmptyStmt:
		return rest(en)
	}
	fail("%s: unsupported statement %T", tr.fn.Name, stmts[0])
	return ""
}

func main() {
	data, err := os.ReadFile(os.Args[1])
	if err != nil {
		fail("%v", err)
	}
	if err := json.Unmarshal(data, &cfg); err != nil {
		fail("%v", err)
	}
	fset := token.NewFileSet()
	files := map[string]*ast.File{}
	funcs := map[string]fnSpec{}
	for _, f := range cfg.Funcs {
		key := f.Name
		if f.Recv != "" {
			key = f.Recv + "." + f.Name
		}
		funcs[key] = f
		funcs[f.Pkg+"."+key] = f
	}
	fmt.Println("(* GENERATED on every run by gen/gotrans (go/ast) from the Go sources named below -- do not edit *)")
	fmt.Println("From Coq Require Import NArith Bool List String.")
	fmt.Println("From FF Require Import Lib.GoOps.")
	imports := map[string]bool{}
	for _, c := range cfg.Consts {
		n, _ := splitNameWidth(c)
		_ = n
	}
	for _, imp := range os.Args[2:] {
		if !imports[imp] {
			fmt.Printf("From FF Require Import %s.\n", imp)
			imports[imp] = true
		}
	}
	fmt.Println("Local Open Scope N_scope.")
	fmt.Println("Local Open Scope bool_scope.")
	fmt.Println()
	var snames []string
	for st := range cfg.Structs {
		snames = append(snames, st)
	}
	sort.Strings(snames)
	for _, st := range snames {
		path := filepath.Join(cfg.Repo, cfg.Structs[st])
		file := files[path]
		if file == nil {
			file, err = parser.ParseFile(fset, path, nil, 0)
			if err != nil {
				fail("%v", err)
			}
			files[path] = file
		}
		structPkg[st] = file.Name.Name
		found := false
		for _, d := range file.Decls {
			gd, ok := d.(*ast.GenDecl)
			if !ok || gd.Tok != token.TYPE {
				continue
			}
			for _, sp := range gd.Specs {
				ts := sp.(*ast.TypeSpec)
				stt, ok := ts.Type.(*ast.StructType)
				if !ok || ts.Name.Name != st {
					continue
				}
				found = true
				for _, fl := range stt.Fields.List {
					var sf sfield
					if at, ok := fl.Type.(*ast.ArrayType); ok && at.Len == nil {
						if el := typeOf(at.Elt, file.Name.Name); el.width == 8 {
							sf.width = -4
						}
					} else if ti := typeOf(fl.Type, file.Name.Name); ti.width > 0 {
						sf.width = ti.width
					}
					for _, n := range fl.Names {
						w := sf.width
						for _, o := range cfg.Opaque[st] {
							if o == n.Name {
								w = -6
							}
						}
						if w == 0 {
							fail("struct %s: unsupported type of field %s", st, n.Name)
						}
						structFields[st] = append(structFields[st], sfield{name: n.Name, width: w})
					}
				}
			}
		}
		if !found {
			fail("struct %s not found in %s", st, cfg.Structs[st])
		}
		rn := recName(structPkg[st], st)
		var fds []string
		for _, f := range structFields[st] {
			ty := "N"
			if f.width == -4 {
				ty = "list N"
			}
			if f.width == -6 {
				ty = "bool"
			}
			fds = append(fds, fieldName(st, f.name)+" : "+ty)
		}
		fmt.Printf("(* %s : type %s *)\n", cfg.Structs[st], st)
		fmt.Printf("Record %s := mk_%s { %s }.\n\n", rn, rn, strings.Join(fds, "; "))
	}
	for _, spec := range cfg.Funcs {
		path := filepath.Join(cfg.Repo, spec.File)
		file := files[path]
		if file == nil {
			file, err = parser.ParseFile(fset, path, nil, 0)
			if err != nil {
				fail("%v", err)
			}
			files[path] = file
		}
		var decl *ast.FuncDecl
		for _, d := range file.Decls {
			fd, ok := d.(*ast.FuncDecl)
			if !ok || fd.Name.Name != spec.Name || fd.Body == nil {
				continue
			}
			recv := ""
			if fd.Recv != nil && len(fd.Recv.List) == 1 {
				t := fd.Recv.List[0].Type
				if st, ok := t.(*ast.StarExpr); ok {
					t = st.X
				}
				if id, ok := t.(*ast.Ident); ok {
					recv = id.Name
				}
			}
			if recv == spec.Recv {
				decl = fd
			}
		}
		if decl == nil {
			fail("function %s.%s not found in %s", spec.Recv, spec.Name, spec.File)
		}
		tr := &translator{pkg: spec.Pkg, fn: spec, funcs: funcs, usedGlob: map[string]bool{}}
		en := &env{vars: map[string]tinfo{}}
		var params []string
		if decl.Recv != nil {
			r := decl.Recv.List[0]
			ti := typeOf(r.Type, spec.Pkg)
			name := "recv"
			if len(r.Names) == 1 {
				name = r.Names[0].Name
			}
			if ti.width == -5 {
				if _, ok := r.Type.(*ast.StarExpr); !ok {
					fail("%s: struct receivers must be pointers", spec.Name)
				}
				tr.mon = ti.named
				tr.ptrRecv = name
				params = append(params, "("+v(name)+" : "+recName(structPkg[ti.named], ti.named)+")")
			} else {
				if ti.width <= 0 {
					fail("%s: unsupported receiver type", spec.Name)
				}
				if _, ok := r.Type.(*ast.StarExpr); ok {
					tr.ptrRecv = name
				}
				en.vars[name] = ti
				params = append(params, "("+v(name)+" : N)")
			}
		}
		for _, p := range decl.Type.Params.List {
			ti := typeOf(p.Type, spec.Pkg)
			if ti.width == -3 || ti.width == -2 || ti.width < -3 {
				fail("%s: unsupported parameter type", spec.Name)
			}
			for _, n := range p.Names {
				en.vars[n.Name] = ti
				if ti.width == -1 {
					params = append(params, "("+v(n.Name)+" : bool)")
				} else {
					params = append(params, "("+v(n.Name)+" : N)")
				}
			}
		}
		if decl.Type.Results != nil {
			for _, r := range decl.Type.Results.List {
				ti := typeOf(r.Type, spec.Pkg)
				if ti.width == -3 {
					fail("%s: unsupported result type", spec.Name)
				}
				cnt := len(r.Names)
				if cnt == 0 {
					cnt = 1
				}
				for i := 0; i < cnt; i++ {
					tr.results = append(tr.results, ti)
				}
			}
		}
		// first pass to learn which globals are touched
		probe := *tr
		probe.usedGlob = map[string]bool{}
		_ = probe.block(decl.Body.List, en, func(*env) string { return probe.ret(nil, en) })
		for g := range cfg.Globals {
			if probe.usedGlob[g] {
				tr.globals = append(tr.globals, g)
			}
		}
		body := tr.block(decl.Body.List, en, func(e2 *env) string { return tr.ret(nil, e2) })
		var gparams []string
		for _, g := range tr.globals {
			gparams = append(gparams, "(g_"+g+" : N)")
		}
		name := coqName(spec.Pkg, spec.Recv, spec.Name)
		if tr.mon != "" {
			monResults[name] = tr.results
		}
		if len(tr.results) == 1 && len(tr.globals) == 0 && tr.ptrRecv == "" {
			resultTypes[name] = tr.results[0]
		} else {
			resultTypes[name] = tinfo{width: -3}
		}
		if tr.ptrRecv != "" && tr.mon == "" && len(tr.results) == 0 && len(tr.globals) == 0 {
			resultTypes[name] = en.vars[tr.ptrRecv]
		}
		fmt.Printf("(* %s : %s %s *)\n", spec.File, spec.Recv, spec.Name)
		fmt.Printf("Definition %s %s :=\n  %s.\n\n", name, strings.Join(append(gparams, params...), " "), body)
	}
}
