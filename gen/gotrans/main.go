// gotrans: a translator from a small, integer-only subset of Go to Gallina (Coq), used to REGENERATE
// the model of small pure functions of the kernel from the current source on every run.
//
//   gotrans config.json > Gen/Trans_xxx.v
//
// Supported: functions and methods (value or pointer receiver on a named integer type) whose bodies
// consist of :=, =, op=, var declarations, ++/--, if/else, return; expressions over unsigned integer
// types (uintptr/uint64/uint32/uint16/uint8 and named types declared in the config), booleans,
// constants listed in the config, package-level variables listed in the config (threaded through as
// extra parameter and result), error values listed in the config (nil = None), calls of other
// translated functions/methods and conversions. Unsigned arithmetic wraps at the width of the Go type
// (Lib/GoOps.v). Anything else makes the translator fail, which the check reports as a broken tie.
//
// Struct receivers (config "structs"): a method with a pointer receiver of a struct type listed there is
// translated in "monadic mode": the struct becomes a Record whose fields are read from the type
// declaration in the source (unsigned integers and []byte), the function takes the record and returns
// `option (record * results)`, None = Go run-time panic. r.f reads a field, r.f = e / r.f++ / r.f--
// rebuild the record, len(r.f) is the list length, r.f[i] is a bounds-checked read hoisted in front
// of the statement (None when out of range), a call r.M(args) of another translated method of the
// same struct is hoisted likewise and threads the record. A hoisted call must be the whole
// expression (or its negation); index reads must not sit under && or ||.
//
// Extended mode (config "gres": true; only for configs that ask for it - the output of the others is unchanged).
// Monadic functions return `gres (record * results)` with GOk / GPanic (Go run-time panic) / GFuel (a loop ran
// out of fuel: an artefact, distinct from a panic); every function that contains a loop or calls one that
// does takes a first parameter `fuel : nat`, handed unchanged to every loop and callee. In addition to the above:
//   - for init; cond; post {} / for cond {} / for {} : `gloop fuel step state` (Lib/GoOps.v); the loop-carried
//     state is the receiver record plus the locals in scope that the body or post statement assigns (sorted by
//     name); break, continue (runs the post statement) and return inside loops (GBreak / GNext / GRet);
//     nested loops; `for k, b := range p` over a []byte parameter that the body does not store into runs a
//     hidden index from 0 to len(p) (k, b are per-iteration copies);
//   - switch x { case a, b: ... default: ... } and switch { case cond: ... } as an if/else-if chain (tag
//     evaluated once, default last, break leaves the switch, no fallthrough);
//   - Go int / int64 (variables, fields, constants declared "name:s64"): the two's complement representative
//     in [0, 2^64); + - * & | ^ &^ << wrap as for uint64, < <= > >= are signed (gslt / gsle), >> and / are
//     rejected; len() is an int; an untyped constant bound by := is an int; conversions int(x), uintN(int);
//   - byte arrays [N]byte as fields (a list; the record invariant length = N is the user's), []byte
//     parameters (list N) and named results (locals initialised to the zero value; bare return);
//   - stores x[i] = e into byte slice/array fields and []byte parameters, bounds-checked (gset, gsets for an
//     int index: negative or >= len is a panic), right-hand side evaluated first; a[lo:hi] of a byte ARRAY
//     (gslice(s)); copy(p, src) into a []byte parameter (gcopy); make([]byte, n) assigned to a slice field
//     (gmake(s)); a []byte parameter that the body stores or copies into is returned after the results;
//   - character literals; error values and constants written pkg.Name;
//   - seams (config "seams"): t.f.M(args) for the interface-typed field f (modelled as "is non-nil"), or x.M(args)
//     for a parameter x of the seam's interface type, appends GEv "M" [args] to the record's extra field
//     `trace` (most recent first) when the method is marked "record"; values returned by M (a, b = x.M(..))
//     are extra parameters s_M_0, s_M_1.. of the translated function; a call on a nil reference is a panic.
//     "typed" seams record GCall "M" [GNum x | GBytes b ..] (byte-slice arguments); a method with an "oracle"
//     (result types) makes the function take o_M : list gcall -> results, applied to the trace that already
//     contains the call (a, b := t.f.M(..) binds its components): any deterministic callee can be supplied;
//   - functions WITHOUT receiver marked "world": true are translated in this monadic mode over the synthetic record
//     `world` (only the trace); calls of the package-level function variables listed in config "fnseams"
//     (e.g. mapFn(page, frame, flags)) are typed seam events with oracles, as above;
//   - config "join": an if statement whose branches only assign local variables (pure right-hand sides, no return /
//     break / continue) is translated as `let vars := if c then .. else .. in rest`, so the code after it is not
//     duplicated into the branches;
//   - panic(x) is GPanic; a parameter of pointer type stands for its pointee when the body assigns `*p = e` (the
//     final value is returned after the results) and is an opaque number when it is only passed on; config
//     "extvars": variables of other packages that are only read become extra parameters; "fnseams" may also name
//     package-qualified functions (mm.AllocFrame);
//   - byte array values: results of type [N]uint8, composite literals [N]uint8{a, b, ..}, locals holding them and
//     indexing them; var declarations whose initial values read elements or call methods (translated as :=);
//     config "extstructs" (struct types of other packages given by their integer fields) and "fieldtypes" (a field
//     declared as a slice of interfaces that in fact holds values of one such struct: e.g. a color.Palette of
//     RGBA entries; x.(T) on its elements is then the identity); "extvars" may also be byte slices (":-4") and
//     fields reached through a pointer field of the receiver (cons.font.GlyphWidth);
//   - *(*uintN)(unsafe.Pointer(a)) is a load from the memory ORACLE `ld : N -> N -> option N` (number of bytes, address;
//     None = the address is not mapped: GPanic), an extra parameter of the function (gload, Lib/GoOps.v);
//   - config "lenonly": slice fields of which the code only takes len() are modelled by that length;
//   - p[lo:hi] of a []byte parameter (capacity taken to be the length);
//   - several structs per config (records are emitted in dependency order; config "ignore" leaves fields such as
//     unsafe slice headers out); fields that are slices of unsigned words ([]uint64: list N, stores wrap at the
//     element width) and slices of structs ([]T: list of T's record; glenA / gidxA / gsetA); an lvalue may be a
//     path recv.f[i].g[j]: reads hoist one bounds check per index, `path = e`, `path op= e`, `path++` read the
//     element, apply the field setter and write the element back (one gset per index, innermost first);
//     a local of struct type (the value variable of a range loop) with field reads;
//   - `for k, x := range E` over a slice-valued path E: len(E) is taken once, x is read from the current contents
//     at every iteration (Go reads the shared backing array); the body may not assign a slice header;
//   - `if a || b` / `if a && b` where b needs a bounds-checked read or a call: nested ifs (Go's short circuit);
//   - `a, b := x, y` with new variables (also as the init statement of a for loop); unary minus of a constant
//     in a return; named bool types (config types: -1); seams on a VALUE field (config "value": no nil check),
//     e.g. a sync.Spinlock whose Acquire / Release become events;
//   - config "visitors" (ext_visitor.go): a statement Visit(func(item *T) bool {..}) for a listed visitor function is a loop
//     (gvisit, Lib/GoVisit.v) over an extra parameter holding the sequence of items; return true / false = continue / stop;
// A field assignment r.f = e is `set_f_<T>_<f> r e` (one setter per field, generated after the Record).
// A variable declared with := that shadows a variable of an enclosing scope is renamed apart (in the rest of its
// statement list; for `if x := e; cond` in that statement); var declarations and range variables must not shadow.
package main

import (
	"encoding/json"
	"sort"
	"strconv"
	"fmt"
	"go/ast"
	"go/parser"
	"go/token"
	"os"
	"path/filepath"
	"strings"
)

type fnSpec struct {
	File string `json:"file"` // relative to repo root
	Pkg  string `json:"pkg"`
	Recv string `json:"recv"` // "" or receiver type name
	Name string `json:"name"`
	// World: a function WITHOUT receiver translated in monadic mode over the synthetic record `world` (just the
	// trace of the calls it makes through the package-level function variables listed in config "fnseams")
	World bool `json:"world"`
}

type config struct {
	Repo    string            `json:"repo"`
	Funcs   []fnSpec          `json:"funcs"`
	Types   map[string]int    `json:"types"`   // named type -> width in bits
	Consts  map[string]string `json:"consts"`  // Go expression text -> "coqname:width"
	Globals map[string]string `json:"globals"` // Go var name -> "coqname:width"
	Errors  map[string]string `json:"errors"`  // Go error var name -> tag string
	Structs map[string]string `json:"structs"` // struct type name -> file (relative to repo root) declaring it
	Opaque  map[string][]string `json:"opaque"` // struct type name -> fields of interface/pointer type, modelled as "is non-nil"
	Gres    bool                `json:"gres"`   // extended mode: results in gres (GOk | GPanic | GFuel), loops, stores, switch, int, seams
	Seams   map[string]seamSpec `json:"seams"`  // struct type name -> the interface-typed field whose method calls are recorded as events
	Ignore  map[string][]string `json:"ignore"` // struct type name -> fields left out of the record (never touched by the translated functions)
	FnSeams map[string]seamMethod `json:"fnseams"` // package-level function variable -> how its calls are recorded ("world" functions)
	LenOnly map[string][]string   `json:"lenonly"` // struct type name -> slice fields of which only len() is used: modelled by their length (an N)
	ExtVars map[string]string     `json:"extvars"` // Go expression text of a variable of another package that is only read -> "coqname:width": an extra parameter
	ExtStructs map[string]extStruct `json:"extstructs"` // struct types of other packages (e.g. color.RGBA) given by their integer fields
	FieldTypes map[string]string    `json:"fieldtypes"` // "Struct.field" -> struct type name: the field is a slice of that struct (overrides the declared type, e.g. a color.Palette of RGBA entries, all set)
	Join    bool                  `json:"join"`    // an if statement whose branches only assign locals is `let vars := if c then .. else .. in rest` (no duplication of rest)
	Fmtx    *fmtxCfg              `json:"fmtx"`    // ext_fmt.go: interface{} values, type switches, / and %, strings, labels, world byte buffers (kfmt/fmt.go)
	// ext_ctor.go: constructors returning &T{..}; unsigned / and %; integer expressions probed inside untranslated functions
	Ctor    bool        `json:"ctor"`
	DivMod  bool        `json:"divmod"`
	Probes  []probeSpec `json:"probes"`
	Hal     *halCfg     `json:"hal"` // ext_hal.go: references, dynamic-type oracle, world variables, summarised map loops (kernel/hal)
	// ext_c13trans.go (pool pointer mode): *T as a position in the receiver's slice []*T; opaque payload fields; oracle functions; external table columns
	PoolPtr   map[string]string   `json:"poolptr"`
	Payload   map[string][]string `json:"payload"`
	OracleFns map[string]oracleFn `json:"oraclefns"`
	ExtTables map[string]string   `json:"exttables"`
}

// seamSpec describes calls that leave the translated code through an interface value: t.<Field>.M(args) (or
// x.M(args) for a parameter x whose type is written Iface) appends the event GEv "M" [args] to the trace
// field of the record when Record is set; the values M returns (unsigned integers of the listed widths) are
// extra parameters s_M_0, s_M_1 ... of the translated function.  A call on a nil reference panics.
type seamMethod struct {
	Record  bool  `json:"record"`
	Results []int `json:"results"`
	// Oracle: the types ("int", "error", "uint8".."uint64") of the values the method returns when they depend on
	// the call: the translated function takes a parameter o_M : <trace> -> (results) that is applied to the trace
	// (which already contains the call); only with "typed" seams
	Oracle []string `json:"oracle"`
}

type extStruct struct {
	Pkg    string   `json:"pkg"`
	Fields []string `json:"fields"` // "name:width"
}

type seamSpec struct {
	Field   string                `json:"field"`
	Iface   string                `json:"iface"`
	Typed   bool                  `json:"typed"` // events are GCall name [GNum x | GBytes b ...] (byte-slice arguments allowed)
	Value   bool                  `json:"value"` // the field is a value (e.g. a sync.Spinlock), not a reference: no nil check
	Methods map[string]seamMethod `json:"methods"`
}

type sfield struct {
	name  string
	width int // >0 integer width, -4 = []byte or [N]byte, -6 = opaque reference (bool: non-nil), -7 = the event trace (seams)
	signed bool
	array  bool // [N]byte: slicing allowed (cap = len)
	elem   int    // -4: element width (0 = 8); -8 = slice of structs `named`
	named  string
}

var structFields = map[string][]sfield{}
var structPkg = map[string]string{}

var cfg config

type tinfo struct {
	width int    // 0 = untyped constant, -1 = bool, -2 = error, -3 = unknown, -4 = byte slice/array, -6 = opaque reference
	named string // named type for method resolution
	signed bool  // Go int / int64: two's complement in [0, 2^64), signed comparisons
	array bool   // byte array (slicing allowed)
	elem  int    // element width of an integer slice (0 = 8); width -8 = slice of structs `named`, -9 = a struct value `named`
}

type env struct {
	vars map[string]tinfo // Go name -> type
}

func (e *env) clone() *env {
	n := &env{vars: map[string]tinfo{}}
	for k, v := range e.vars {
		n.vars[k] = v
	}
	return n
}

func fail(format string, args ...interface{}) {
	fmt.Fprintf(os.Stderr, "gotrans: "+format+"\n", args...)
	os.Exit(2)
}

func coqName(pkg, recv, name string) string {
	if recv != "" {
		return "go_" + pkg + "_" + recv + "_" + name
	}
	return "go_" + pkg + "_" + name
}

func v(name string) string { return "v_" + name }

func typeOf(e ast.Expr, pkg string) tinfo {
	if cfg.Hal != nil {
		if ti, ok := halTypeOf(e); ok {
			return ti
		}
	}
	if cfg.Fmtx != nil {
		if ti, ok := fmtxTypeOf(e); ok {
			return ti
		}
	}
	switch t := e.(type) {
	case *ast.Ident:
		switch t.Name {
		case "bool":
			return tinfo{width: -1}
		case "uintptr", "uint64", "uint":
			return tinfo{width: 64}
		case "int", "int64":
			return tinfo{width: 64, signed: true}
		case "uint32":
			return tinfo{width: 32}
		case "uint16":
			return tinfo{width: 16}
		case "uint8", "byte":
			return tinfo{width: 8}
		case "error":
			return tinfo{width: -2}
		}
		if _, ok := cfg.Structs[t.Name]; ok {
			return tinfo{width: -5, named: t.Name}
		}
		if w, ok := cfg.Types[t.Name]; ok {
			return tinfo{width: w, named: t.Name}
		}
	case *ast.SelectorExpr:
		if w, ok := cfg.Types[t.Sel.Name]; ok {
			return tinfo{width: w, named: t.Sel.Name}
		}
		if _, ok := cfg.ExtStructs[t.Sel.Name]; ok {
			return tinfo{width: -5, named: t.Sel.Name}
		}
	case *ast.ArrayType:
		if t.Len != nil && cfg.Gres {
			if el := typeOf(t.Elt, pkg); el.width == 8 {
				return tinfo{width: -4, array: true} // a byte array value ([3]uint8)
			}
		}
	case *ast.ParenExpr:
		return typeOf(t.X, pkg)
	case *ast.StarExpr:
		if ti, ok := poolPtrTypeOf(t); ok { // ext_c13trans.go (config "poolptr")
			return ti
		}
		if ti, ok := mbPtrTypeOf(t); ok { // ext_mb.go (config "memstructs"): *T is an address
			return ti
		}
		if ti, ok := acpiTypeOf(t); ok { // ext_acpi.go (config "acpi"): *S for a struct laid out in memory is an address
			return ti
		}
		if sel, ok := t.X.(*ast.SelectorExpr); ok && sel.Sel.Name == "Error" {
			return tinfo{width: -2}
		}
		return typeOf(t.X, pkg)
	}
	return tinfo{width: -3}
}

func exprText(e ast.Expr) string {
	switch t := e.(type) {
	case *ast.Ident:
		return t.Name
	case *ast.SelectorExpr:
		return exprText(t.X) + "." + t.Sel.Name
	}
	return ""
}

func splitNameWidth(s string) (string, int) {
	parts := strings.Split(s, ":")
	w := 64
	if len(parts) > 1 {
		fmt.Sscanf(strings.TrimPrefix(parts[1], "s"), "%d", &w)
	}
	return parts[0], w
}

// constInfo: "coqname:width" or "coqname:s64" (a constant used at type int)
func constInfo(s string) (string, tinfo) {
	n, w := splitNameWidth(s)
	parts := strings.Split(s, ":")
	return n, tinfo{width: w, signed: len(parts) > 1 && strings.HasPrefix(parts[1], "s")}
}

type translator struct {
	pkg      string
	fn       fnSpec
	ptrRecv  string // Go name of the pointer receiver ("" if none)
	globals  []string
	results  []tinfo
	funcs    map[string]fnSpec // "Recv.Name" or "Name" -> spec (same package) ; "pkg.Name"
	usedGlob map[string]bool
	mon      string   // monadic mode: name of the struct type of the pointer receiver ("" otherwise)
	pre      []string // hoisted bindings of the statement being translated (monadic mode)
	ntmp     int
	hoistedCall bool
	noHoist  int // >0 while under the right operand of && / ||
	// extended mode (config "gres")
	cx        ctx
	usesFuel  bool           // the function contains a loop or calls a function that does
	nloop     int
	named     []string       // named results (Go names), "" when unnamed
	inout     []string       // []byte parameters the body stores into: returned after the results
	seamUsed  map[string]int // s_M_i -> width: seam results used, become parameters
	seamRecv  string         // Coq term of the seam reference while translating a tuple assignment from a seam call
	oracleUsed map[string]string // o_M -> Coq type: seam oracles used, become parameters
	extUsed    map[string]int    // coq name -> width: variables of other packages read, become parameters
	ptrParams  map[string]bool   // parameters of pointer type
	inoutTy    map[string]tinfo
	poolBypass bool // ext_c13trans.go: the next expr call skips the pool-pointer hook (one shot)
}

// ctx: where break / continue / return lead at the current point of the translation
type ctx struct {
	brk       func(en *env) string
	cont      func(en *env) string
	loopDepth int // >0: inside a loop body, return produces GRet
}

func (tr *translator) withCtx(c ctx, f func() string) string {
	old := tr.cx
	tr.cx = c
	s := f()
	tr.cx = old
	return s
}

// capture makes a continuation run under the context current now, whenever it is invoked
func (tr *translator) capture(k func(en *env) string) func(en *env) string {
	c := tr.cx
	return func(en *env) string { return tr.withCtx(c, func() string { return k(en) }) }
}

func panicTok() string {
	if cfg.Gres {
		return "GPanic"
	}
	return "None"
}

// matchOpt opens `match <opt> with None => panic | Some <x> =>` (closed by wrapPre)
func matchOpt(opt, x string) string {
	return fmt.Sprintf("match %s with None => %s | Some %s =>", opt, panicTok(), x)
}

func coqTy(ti tinfo) string {
	if cfg.PoolPtr != nil { // ext_c13trans.go
		if s, ok := poolCoqTy(ti); ok {
			return s
		}
	}
	if s, ok := fmtxCoqTy(ti); ok && cfg.Fmtx != nil {
		return s
	}
	switch {
	case ti.width >= 0:
		return "N"
	case ti.width == -1 || ti.width == -6:
		return "bool"
	case ti.width == -2:
		return "option string"
	case ti.width == -4:
		return "list N"
	case ti.width == -8:
		return "list " + recName(structPkg[ti.named], ti.named)
	case ti.width == -9:
		return recName(structPkg[ti.named], ti.named)
	}
	fail("no Coq type for type code %d", ti.width)
	return ""
}

func tupleOf(parts []string, empty string) string {
	if len(parts) == 0 {
		return empty
	}
	if len(parts) == 1 {
		return parts[0]
	}
	return "(" + strings.Join(parts, ", ") + ")"
}

func prodOf(parts []string) string {
	if len(parts) == 0 {
		return "unit"
	}
	if len(parts) == 1 {
		return parts[0]
	}
	return "(" + strings.Join(parts, " * ") + ")"
}

// resultTy: the Coq type of what a monadic function returns inside GOk
func (tr *translator) resultTy(en *env) string {
	var parts []string
	for _, r := range tr.results {
		parts = append(parts, coqTy(r))
	}
	for _, p := range tr.inout {
		if tr.ptrParams[p] {
			parts = append(parts, coqTy(tr.inoutTy[p]))
		} else {
			parts = append(parts, "list N")
		}
	}
	return "(" + recName(structPkg[tr.mon], tr.mon) + " * " + prodOf(parts) + ")%type"
}

// retWrap: a finished result r (record, values) leaves the function from the current point
func (tr *translator) retWrap(r string) string {
	if !cfg.Gres {
		return "(Some " + r + ")"
	}
	if tr.cx.loopDepth > 0 {
		return "(GOk (GRet " + r + "))"
	}
	return "(GOk " + r + ")"
}

// assigned collects the local variables (Go names) that the statements assign, store into or copy into
func assigned(stmts []ast.Stmt, out map[string]bool) {
	lhs := func(e ast.Expr) {
		switch l := e.(type) {
		case *ast.Ident:
			out[l.Name] = true
		case *ast.IndexExpr:
			if id, ok := l.X.(*ast.Ident); ok {
				out[id.Name] = true
			}
		case *ast.StarExpr:
			if id, ok := l.X.(*ast.Ident); ok {
				out["*"+id.Name] = true
			}
		}
	}
	for _, st := range stmts {
		if st == nil {
			continue
		}
		ast.Inspect(st, func(n ast.Node) bool {
			switch s := n.(type) {
			case *ast.AssignStmt:
				for _, l := range s.Lhs {
					lhs(l)
				}
			case *ast.IncDecStmt:
				lhs(s.X)
			case *ast.RangeStmt:
				if s.Key != nil {
					lhs(s.Key)
				}
				if s.Value != nil {
					lhs(s.Value)
				}
			case *ast.CallExpr:
				if id, ok := s.Fun.(*ast.Ident); ok && id.Name == "copy" && len(s.Args) == 2 {
					lhs(s.Args[0])
				}
			}
			return true
		})
	}
}

// seamArgs translates the arguments of a call through the seam (typed seams tag them GNum / GBytes)
func (tr *translator) seamArgs(call *ast.CallExpr, en *env) []string {
	sp, _ := tr.seam()
	var args []string
	for _, a := range call.Args {
		as, at := tr.expr(a, en)
		if sp.Typed {
			if at.width == -4 {
				as = "(GBytes " + as + ")"
			} else if at.width >= 0 {
				as = "(GNum " + as + ")"
			} else if at.width == -6 && cfg.Fmtx != nil {
				as = "(GNum (gref " + as + "))"
			} else {
				fail("%s: unsupported argument type in a call through the seam", tr.fn.Name)
			}
		} else if at.width < 0 {
			fail("%s: a non-integer argument in a call through an untyped seam", tr.fn.Name)
		}
		args = append(args, as)
	}
	return args
}

func oracleTy(t string) tinfo {
	switch t {
	case "int", "int64":
		return tinfo{width: 64, signed: true}
	case "error":
		return tinfo{width: -2}
	case "uint8":
		return tinfo{width: 8}
	case "uint16":
		return tinfo{width: 16}
	case "uint32":
		return tinfo{width: 32}
	case "uint64", "uint":
		return tinfo{width: 64}
	}
	fail("unsupported oracle result type %s", t)
	return tinfo{}
}

// carried: the variables in scope at a loop that the loop assigns (sorted), i.e. the loop-carried locals
func carried(en *env, stmts []ast.Stmt) []string {
	as := map[string]bool{}
	assigned(stmts, as)
	var names []string
	for n := range as {
		if _, ok := en.vars[n]; ok {
			names = append(names, n)
		}
	}
	sort.Strings(names)
	return gstructCarried(en, stmts, names) // ext_gstruct.go (config "gstructs"): struct variables the statements change
}

// seam returns the seam of the struct being translated
func (tr *translator) seam() (seamSpec, bool) {
	if tr.mon == "" {
		return seamSpec{}, false
	}
	sp, ok := cfg.Seams[tr.mon]
	return sp, ok
}

// seamCall recognises t.<field>.M(args) and x.M(args) (x a parameter of the seam's interface type)
func (tr *translator) seamCall(e ast.Expr, en *env) (recv string, name string, m seamMethod, call *ast.CallExpr, ok bool) {
	sp, has := tr.seam()
	if !has {
		return
	}
	c, isCall := e.(*ast.CallExpr)
	if !isCall {
		return
	}
	if fsel, isFs := c.Fun.(*ast.SelectorExpr); isFs && tr.mon == "world" {
		if fm, known := cfg.FnSeams[exprText(fsel)]; known {
			return "true", exprText(fsel), fm, c, true
		}
	}
	if id, isId := c.Fun.(*ast.Ident); isId && tr.mon == "world" {
		if fm, known := cfg.FnSeams[id.Name]; known {
			if _, shadowed := en.vars[id.Name]; !shadowed {
				return "true", id.Name, fm, c, true
			}
		}
	}
	sel, isSel := c.Fun.(*ast.SelectorExpr)
	if !isSel {
		return
	}
	if f, isF := tr.recvField(sel.X); isF && f.name == sp.Field {
		recv = "(" + fieldName(tr.mon, f.name) + " " + v(tr.ptrRecv) + ")"
		if sp.Value {
			recv = "true"
		}
	} else if id, isId := sel.X.(*ast.Ident); isId && en.vars[id.Name].width == -6 {
		recv = v(id.Name)
	} else {
		return
	}
	mm, known := sp.Methods[sel.Sel.Name]
	if !known {
		fail("%s: call of %s through the seam is not described in the config", tr.fn.Name, sel.Sel.Name)
	}
	return recv, sel.Sel.Name, mm, c, true
}

// event: the record with the event GEv "name" [args] pushed on the trace
func (tr *translator) event(name string, args []string) string {
	if sp, _ := tr.seam(); sp.Typed {
		lst := "nil"
		for i := len(args) - 1; i >= 0; i-- {
			lst = args[i] + " :: " + lst
		}
		tf := sfield{name: "trace", width: -7}
		cur := "(" + fieldName(tr.mon, "trace") + " " + v(tr.ptrRecv) + ")"
		return tr.setField(tf, fmt.Sprintf("((GCall %q%%string (%s)) :: %s)", name, lst, cur))
	}
	lst := "nil"
	for i := len(args) - 1; i >= 0; i-- {
		lst = args[i] + " :: " + lst
	}
	tf := sfield{name: "trace", width: -7}
	cur := "(" + fieldName(tr.mon, "trace") + " " + v(tr.ptrRecv) + ")"
	return tr.setField(tf, fmt.Sprintf("((GEv %q%%string (%s)) :: %s)", name, lst, cur))
}

func recName(pkg, st string) string { return "go_" + pkg + "_" + st }
func fieldName(st, f string) string { return "f_" + st + "_" + f }

func (tr *translator) tmp() string {
	tr.ntmp++
	return fmt.Sprintf("t%d", tr.ntmp)
}

// wrapPre encloses a statement's term in the hoisted bindings collected while translating it
func (tr *translator) wrapPre(pre []string, body string) string {
	for i := len(pre) - 1; i >= 0; i-- {
		body = pre[i] + "\n  " + body + " end"
	}
	return body
}

// field access on the struct receiver: returns (field, ok)
func (tr *translator) recvField(e ast.Expr) (sfield, bool) {
	if cfg.Hal != nil {
		if f, ok := tr.halField(e); ok {
			return f, true
		}
	}
	if cfg.Fmtx != nil {
		if f, ok := tr.fmtxField(e); ok {
			return f, true
		}
	}
	sel, ok := e.(*ast.SelectorExpr)
	if !ok || tr.mon == "" {
		return sfield{}, false
	}
	id, ok := sel.X.(*ast.Ident)
	if !ok || id.Name != tr.ptrRecv {
		return sfield{}, false
	}
	for _, f := range structFields[tr.mon] {
		if f.name == sel.Sel.Name {
			return f, true
		}
	}
	return sfield{}, false
}

func (tr *translator) setField(f sfield, val string) string {
	if cfg.Gres {
		// extended mode: one setter per field (generated after the Record) keeps the terms small
		return "(set_" + fieldName(tr.mon, f.name) + " " + v(tr.ptrRecv) + " " + val + ")"
	}
	var parts []string
	for _, g := range structFields[tr.mon] {
		if g.name == f.name {
			parts = append(parts, val)
		} else {
			parts = append(parts, "("+fieldName(tr.mon, g.name)+" "+v(tr.ptrRecv)+")")
		}
	}
	return "(mk_" + recName(structPkg[tr.mon], tr.mon) + " " + strings.Join(parts, " ") + ")"
}

func (tr *translator) wrap(w int, s string) string {
	if w > 0 {
		return fmt.Sprintf("(gw %d %s)", w, s)
	}
	return s
}

// expr returns the Gallina term and the type
func (tr *translator) expr(e ast.Expr, en *env) (string, tinfo) {
	if cfg.Hal != nil {
		if s, ti, ok := tr.halExpr(e, en); ok { // ext_hal.go (config "hal")
			return s, ti
		}
	}
	if mbOn() { // ext_mb.go (config "memstructs")
		if s, ti, ok := tr.mbExpr(e, en); ok {
			return s, ti
		}
	}
	if memOn() { // ext_mem.go
		if s, ti, ok := tr.memExpr(e, en); ok {
			return s, ti
		}
	}
	if acpiOn() { // ext_acpi.go
		if s, ti, ok := tr.acpiExpr(e, en); ok {
			return s, ti
		}
	}
	if cfg.PoolPtr != nil { // ext_c13trans.go
		if s, ti, ok := tr.poolExpr(e, en); ok {
			return s, ti
		}
	}
	switch t := e.(type) {
	case *ast.ParenExpr:
		return tr.expr(t.X, en)
	case *ast.BasicLit:
		if t.Kind == token.INT {
			s := strings.ReplaceAll(t.Value, "_", "")
			if strings.HasPrefix(s, "0X") {
				s = "0x" + s[2:]
			}
			return "(" + s + ")%N", tinfo{width: 0}
		}
		if t.Kind == token.CHAR {
			r, _, _, err := strconv.UnquoteChar(t.Value[1:len(t.Value)-1], '\'')
			if err != nil {
				fail("%s: bad character literal %s", tr.fn.Name, t.Value)
			}
			return fmt.Sprintf("(%d)%%N", r), tinfo{width: 0}
		}
	case *ast.Ident:
		if t.Name == "true" || t.Name == "false" {
			return t.Name, tinfo{width: -1}
		}
		if t.Name == "nil" {
			return "None", tinfo{width: -2}
		}
		if ti, ok := en.vars[t.Name]; ok {
			return v(t.Name), ti
		}
		if cfg.Fmtx != nil {
			if f, ok := tr.fmtxField(t); ok {
				return "(" + fieldName(tr.mon, f.name) + " " + v(tr.ptrRecv) + ")", tinfo{width: f.width, array: f.array}
			}
		}
		if w, ok := tr.seamUsed[t.Name]; ok && strings.HasPrefix(t.Name, "s_") {
			return t.Name, tinfo{width: w}
		}
		if g, ok := cfg.Globals[t.Name]; ok {
			_, w := splitNameWidth(g)
			tr.usedGlob[t.Name] = true
			return "g_" + t.Name, tinfo{width: w}
		}
		if c, ok := cfg.Consts[tr.pkg+"."+t.Name]; ok {
			return constInfo(c)
		}
		if tag, ok := cfg.Errors[t.Name]; ok {
			return fmt.Sprintf("(Some %q%%string)", tag), tinfo{width: -2}
		}
	case *ast.SelectorExpr:
		if f, ok := tr.recvField(t); ok {
			return "(" + fieldName(tr.mon, f.name) + " " + v(tr.ptrRecv) + ")", tinfo{width: f.width, signed: f.signed, array: f.array, elem: f.elem, named: f.named}
		}
		if cfg.Gres && tr.mon != "" {
			// a field of a struct VALUE: an element of a slice of structs, or a local copy of one
			_, isIx := t.X.(*ast.IndexExpr)
			id, isId := t.X.(*ast.Ident)
			if isIx || (isId && en.vars[id.Name].width == -9) {
				xs, xt := tr.expr(t.X, en)
				if xt.width == -9 {
					for _, f := range structFields[xt.named] {
						if f.name == t.Sel.Name {
							return "(" + fieldName(xt.named, f.name) + " " + xs + ")", tinfo{width: f.width, signed: f.signed, array: f.array, elem: f.elem, named: f.named}
						}
					}
					fail("%s: no field %s in %s", tr.fn.Name, t.Sel.Name, xt.named)
				}
			}
		}
		txt := exprText(t)
		if c, ok := cfg.Consts[txt]; ok {
			return constInfo(c)
		}
		if c, ok := cfg.ExtVars[txt]; ok && cfg.Gres {
			n, ti := constInfo(c)
			tr.extUsed[n] = ti.width
			return n, ti
		}
		if tag, ok := cfg.Errors[txt]; ok {
			return fmt.Sprintf("(Some %q%%string)", tag), tinfo{width: -2}
		}
	case *ast.IndexExpr:
		if tr.mon != "" {
			xs, xt := tr.expr(t.X, en)
			if xt.width == -12 && cfg.Fmtx != nil {
				// an element of the variadic args ...interface{}
				if tr.noHoist > 0 {
					fail("%s: index expression under && or ||", tr.fn.Name)
				}
				is, it := tr.expr(t.Index, en)
				tmp := tr.tmp()
				if it.signed {
					tr.pre = append(tr.pre, matchOpt(fmt.Sprintf("gidxsA %d %s %s", it.width, xs, is), tmp))
				} else {
					tr.pre = append(tr.pre, matchOpt(fmt.Sprintf("gidxA %s %s", xs, is), tmp))
				}
				return tmp, tinfo{width: -11}
			}
			if xt.width == -4 {
				if tr.noHoist > 0 {
					fail("%s: index expression under && or ||", tr.fn.Name)
				}
				is, it := tr.expr(t.Index, en)
				tmp := tr.tmp()
				if it.signed {
					tr.pre = append(tr.pre, matchOpt(fmt.Sprintf("gidxs %d %s %s", it.width, xs, is), tmp))
				} else {
					tr.pre = append(tr.pre, fmt.Sprintf("match gidx %s %s with None => %s | Some %s =>", xs, is, panicTok(), tmp))
				}
				if xt.elem > 0 {
					return tmp, tinfo{width: xt.elem}
				}
				return tmp, tinfo{width: 8}
			}
			if xt.width == -8 && cfg.Gres {
				// an element of a slice of structs (a copy of the struct value)
				if tr.noHoist > 0 {
					fail("%s: index expression under && or ||", tr.fn.Name)
				}
				is, it := tr.expr(t.Index, en)
				tmp := tr.tmp()
				if it.signed {
					tr.pre = append(tr.pre, matchOpt(fmt.Sprintf("gidxsA %d %s %s", it.width, xs, is), tmp))
				} else {
					tr.pre = append(tr.pre, matchOpt(fmt.Sprintf("gidxA %s %s", xs, is), tmp))
				}
				return tmp, tinfo{width: -9, named: xt.named}
			}
		}
	case *ast.SliceExpr:
		// a[lo:hi] of a byte ARRAY (cap = len): bounds-checked, hoisted
		if tr.mon != "" && cfg.Gres && !t.Slice3 {
			xs, xt := tr.expr(t.X, en)
			_, isLocal := t.X.(*ast.Ident)
			if xt.width == -4 && (xt.array || isLocal) {
				// (for a []byte parameter the capacity is taken to be the length: a slice beyond len within cap,
				// legal in Go, is reported as a panic)
				if tr.noHoist > 0 {
					fail("%s: slice expression under && or ||", tr.fn.Name)
				}
				lo, hi := "0", "(glen "+xs+")"
				sg := false
				if t.Low != nil {
					var lt tinfo
					lo, lt = tr.expr(t.Low, en)
					sg = sg || lt.signed
				}
				if t.High != nil {
					var ht tinfo
					hi, ht = tr.expr(t.High, en)
					sg = sg || ht.signed
				}
				tmp := tr.tmp()
				if sg {
					tr.pre = append(tr.pre, matchOpt(fmt.Sprintf("gslices 64 %s %s %s", xs, lo, hi), tmp))
				} else {
					tr.pre = append(tr.pre, matchOpt(fmt.Sprintf("gslice %s %s %s", xs, lo, hi), tmp))
				}
				return tmp, tinfo{width: -4}
			}
		}
	case *ast.CompositeLit:
		if cfg.Gres && t.Type != nil {
			if ty := typeOf(t.Type, tr.pkg); ty.width == -4 && ty.array {
				lst := "nil"
				for i := len(t.Elts) - 1; i >= 0; i-- {
					if _, kv := t.Elts[i].(*ast.KeyValueExpr); kv {
						fail("%s: keyed array literal", tr.fn.Name)
					}
					x, xt := tr.expr(t.Elts[i], en)
					if xt.width == 0 {
						x = tr.wrap(8, x)
					}
					lst = x + " :: " + lst
				}
				return "(" + lst + ")", ty
			}
		}
	case *ast.TypeAssertExpr:
		if cfg.Fmtx != nil && t.Type != nil {
			if xs, xt, ok := tr.fmtxAssert(t, en); ok {
				return xs, xt
			}
		}
		// x.(T) for an element of a slice declared (config "fieldtypes") to hold values of struct type T only
		if cfg.Gres && t.Type != nil {
			xs, xt := tr.expr(t.X, en)
			if ty := typeOf(t.Type, tr.pkg); xt.width == -9 && ty.width == -5 && ty.named == xt.named {
				return xs, xt
			}
		}
	case *ast.StarExpr:
		if id, ok := t.X.(*ast.Ident); ok && id.Name == tr.ptrRecv {
			return v(id.Name), en.vars[id.Name]
		}
		if w, addr, ok := unsafeLoad(t, tr.pkg); ok && cfg.Gres && tr.mon != "" {
			// *(*uintN)(unsafe.Pointer(a)): a load of N/8 bytes from the memory oracle `ld` (None = fault)
			if tr.noHoist > 0 {
				fail("%s: memory load under && or ||", tr.fn.Name)
			}
			as, at := tr.expr(addr, en)
			if at.width != 64 {
				fail("%s: address of a memory load is not a uintptr: %s", tr.fn.Name, exprText(addr))
			}
			tmp := tr.tmp()
			tr.pre = append(tr.pre, fmt.Sprintf("match gload ld %d %s with None => %s | Some %s =>", w/8, as, panicTok(), tmp))
			tr.extUsed["ld"] = -20
			return tmp, tinfo{width: w}
		}
		if id, ok := t.X.(*ast.Ident); ok && cfg.Gres && tr.ptrParams[id.Name] {
			return v(id.Name), en.vars[id.Name] // *p of a pointer parameter: the parameter stands for the pointee
		}
	case *ast.UnaryExpr:
		if cs, ct, ok := tr.ctorLit(t, en); ok { // ext_ctor.go: &T{..} (config "ctor")
			return cs, ct
		}
		x, ti := tr.expr(t.X, en)
		switch t.Op {
		case token.NOT:
			return "(negb " + x + ")", tinfo{width: -1}
		case token.SUB:
			if cfg.Gres {
				if ti.width > 0 {
					return fmt.Sprintf("(gsub %d 0 %s)", ti.width, x), ti
				}
				// -c for an untyped constant: the width comes from the context (a return of a typed result)
				return "(UNTYPED_NEG " + x + ")", tinfo{width: 0}
			}
		case token.XOR:
			if ti.width > 0 {
				return fmt.Sprintf("(gnot %d %s)", ti.width, x), ti
			}
			// ^ of an untyped constant: width comes from the context; handled by the binary case
			return "(UNTYPED_NOT " + x + ")", tinfo{width: 0}
		}
	case *ast.BinaryExpr:
		// &^ with an untyped complement etc.: infer widths from the typed side
		xs, xt := tr.expr(t.X, en)
		if t.Op == token.LAND || t.Op == token.LOR {
			tr.noHoist++
		}
		ys, yt := tr.expr(t.Y, en)
		if t.Op == token.LAND || t.Op == token.LOR {
			tr.noHoist--
		}
		w := xt.width
		ti := xt
		if t.Op != token.SHL && t.Op != token.SHR {
			if w == 0 {
				w = yt.width
				ti = yt
			}
		}
		fix := func(s string) string { // resolve a pending ^const now that the width is known
			if strings.Contains(s, "UNTYPED_NOT") {
				if w <= 0 {
					fail("%s: cannot determine the width of a complemented constant", tr.fn.Name)
				}
				return strings.ReplaceAll(s, "(UNTYPED_NOT ", fmt.Sprintf("(gnot %d ", w))
			}
			return s
		}
		xs, ys = fix(xs), fix(ys)
		switch t.Op {
		case token.ADD:
			return tr.wrap(w, "("+xs+" + "+ys+")"), ti
		case token.SUB:
			if w > 0 {
				return fmt.Sprintf("(gsub %d %s %s)", w, xs, ys), ti
			}
			return "(" + xs + " - " + ys + ")", ti
		case token.MUL:
			return tr.wrap(w, "("+xs+" * "+ys+")"), ti
		case token.AND:
			return "(N.land " + xs + " " + ys + ")", ti
		case token.OR:
			return "(N.lor " + xs + " " + ys + ")", ti
		case token.XOR:
			return "(N.lxor " + xs + " " + ys + ")", ti
		case token.AND_NOT:
			return "(N.ldiff " + xs + " " + ys + ")", ti
		case token.SHL:
			return tr.wrap(w, "(N.shiftl "+xs+" "+ys+")"), ti
		case token.SHR:
			if ti.signed {
				fail("%s: >> on a signed integer", tr.fn.Name)
			}
			return "(N.shiftr " + xs + " " + ys + ")", ti
		case token.EQL:
			if xt.width == -6 && ys == "None" {
				return "(negb " + xs + ")", tinfo{width: -1}
			}
			if xt.width == -2 || yt.width == -2 {
				return "(gerr_eqb " + xs + " " + ys + ")", tinfo{width: -1}
			}
			if xt.width == -1 {
				return "(Bool.eqb " + xs + " " + ys + ")", tinfo{width: -1}
			}
			return "(" + xs + " =? " + ys + ")", tinfo{width: -1}
		case token.NEQ:
			if xt.width == -6 && ys == "None" {
				return xs, tinfo{width: -1}
			}
			if xt.width == -2 || yt.width == -2 {
				return "(negb (gerr_eqb " + xs + " " + ys + "))", tinfo{width: -1}
			}
			if xt.width == -1 {
				return "(negb (Bool.eqb " + xs + " " + ys + "))", tinfo{width: -1}
			}
			return "(negb (" + xs + " =? " + ys + "))", tinfo{width: -1}
		case token.LSS, token.LEQ, token.GTR, token.GEQ:
			if xt.signed || yt.signed {
				// Go int: two's complement order
				if (xt.width > 0 && !xt.signed) || (yt.width > 0 && !yt.signed) {
					fail("%s: comparison of a signed with an unsigned integer", tr.fn.Name)
				}
				switch t.Op {
				case token.LSS:
					return fmt.Sprintf("(gslt %d %s %s)", w, xs, ys), tinfo{width: -1}
				case token.LEQ:
					return fmt.Sprintf("(gsle %d %s %s)", w, xs, ys), tinfo{width: -1}
				case token.GTR:
					return fmt.Sprintf("(gslt %d %s %s)", w, ys, xs), tinfo{width: -1}
				default:
					return fmt.Sprintf("(gsle %d %s %s)", w, ys, xs), tinfo{width: -1}
				}
			}
			switch t.Op {
			case token.LSS:
				return "(" + xs + " <? " + ys + ")", tinfo{width: -1}
			case token.LEQ:
				return "(" + xs + " <=? " + ys + ")", tinfo{width: -1}
			case token.GTR:
				return "(" + ys + " <? " + xs + ")", tinfo{width: -1}
			default:
				return "(" + ys + " <=? " + xs + ")", tinfo{width: -1}
			}
		case token.LAND:
			return "(" + xs + " && " + ys + ")", tinfo{width: -1}
		case token.LOR:
			return "(" + xs + " || " + ys + ")", tinfo{width: -1}
		case token.QUO, token.REM:
			if cfg.Fmtx != nil || cfg.DivMod {
				return tr.fmtxDivMod(t.Op, xs, ys, xt, yt)
			}
		}
	case *ast.CallExpr:
		if cfg.Fmtx != nil {
			// len(args) of the variadic parameter; F(args) for another world function
			if id, ok := t.Fun.(*ast.Ident); ok && id.Name == "len" && len(t.Args) == 1 {
				if aid, isId := t.Args[0].(*ast.Ident); isId && en.vars[aid.Name].width == -12 {
					return "(glenA " + v(aid.Name) + ")", tinfo{width: 64, signed: true}
				}
			}
			if tr.fmtxWorldCall(t, en) {
				return "tt", tinfo{width: -3}
			}
		}
		// len(x) of a []byte field
		if id, ok := t.Fun.(*ast.Ident); ok && id.Name == "len" && len(t.Args) == 1 && tr.mon != "" && cfg.Gres {
			if f, isF := tr.recvField(t.Args[0]); isF && f.width == -10 {
				return "(" + fieldName(tr.mon, f.name) + " " + v(tr.ptrRecv) + ")", tinfo{width: 64, signed: true}
			}
		}
		if id, ok := t.Fun.(*ast.Ident); ok && id.Name == "len" && len(t.Args) == 1 && tr.mon != "" {
			xs, xt := tr.expr(t.Args[0], en)
			if xt.width == -4 {
				if cfg.Gres {
					return "(glen " + xs + ")", tinfo{width: 64, signed: true} // len is an int
				}
				return "(glen " + xs + ")", tinfo{width: 0}
			}
			if xt.width == -8 && cfg.Gres {
				return "(glenA " + xs + ")", tinfo{width: 64, signed: true}
			}
		}
		// make([]byte, n): n zero bytes (a negative or huge n is a panic)
		if id, ok := t.Fun.(*ast.Ident); ok && id.Name == "make" && len(t.Args) == 2 && cfg.Gres && tr.mon != "" {
			if at, ok := t.Args[0].(*ast.ArrayType); ok && at.Len == nil && typeOf(at.Elt, tr.pkg).width == 8 {
				if tr.noHoist > 0 {
					fail("%s: make under && or ||", tr.fn.Name)
				}
				ns, nt := tr.expr(t.Args[1], en)
				tmp := tr.tmp()
				if nt.signed {
					tr.pre = append(tr.pre, matchOpt(fmt.Sprintf("gmakes %d %s", nt.width, ns), tmp))
				} else {
					tr.pre = append(tr.pre, matchOpt(fmt.Sprintf("gmake %s", ns), tmp))
				}
				return tmp, tinfo{width: -4}
			}
		}
		// call of another translated method on the struct receiver: hoisted, threads the record
		if sel, ok := t.Fun.(*ast.SelectorExpr); ok && tr.mon != "" {
			if id, ok := sel.X.(*ast.Ident); ok && id.Name == tr.ptrRecv {
				if spec, ok := tr.funcs[tr.mon+"."+sel.Sel.Name]; ok {
					if tr.noHoist > 0 {
						fail("%s: method call under && or ||", tr.fn.Name)
					}
					var args []string
					for _, a := range t.Args {
						as, _ := tr.expr(a, en)
						args = append(args, as)
					}
					name := coqName(spec.Pkg, spec.Recv, spec.Name)
					if monInout[name] {
						fail("%s: call of %s, which stores into a slice parameter", tr.fn.Name, spec.Name)
					}
					rts := monResults[name]
					var pats []string
					var first string
					var ft tinfo
					for i, rt := range rts {
						tmp := tr.tmp()
						pats = append(pats, tmp)
						if i == 0 {
							first, ft = tmp, rt
						}
					}
					pat := "tt"
					if len(pats) == 1 {
						pat = pats[0]
					} else if len(pats) > 1 {
						pat = "(" + strings.Join(pats, ", ") + ")"
					}
					if len(pats) == 0 {
						pat = "_"
					}
					for _, xp := range monExtra[name] {
						if a, ok := tr.gstructExtArg(xp, en); ok { // ext_gstruct.go: an extvar that is a field of a threaded struct variable
							args = append(args, a)
							continue
						}
						args = append(args, xp.name)
						switch xp.kind {
						case "seam":
							tr.seamUsed[xp.name] = xp.width
						case "ext":
							tr.extUsed[xp.name] = xp.width
						case "oracle":
							tr.oracleUsed[xp.name] = xp.ty
						case "visitor": // ext_visitor.go
							tr.visitorUse(xp)
						}
					}
					if cfg.Gres {
						callee := name
						if monFuel[name] {
							callee += " fuel"
							tr.usesFuel = true
						}
						tr.pre = append(tr.pre, fmt.Sprintf("match %s %s with GPanic => GPanic | GFuel => GFuel | GOk (%s, %s) =>", callee, strings.Join(append([]string{v(tr.ptrRecv)}, args...), " "), v(tr.ptrRecv), pat))
					} else {
						tr.pre = append(tr.pre, fmt.Sprintf("match %s %s with None => None | Some (%s, %s) =>", name, strings.Join(append([]string{v(tr.ptrRecv)}, args...), " "), v(tr.ptrRecv), pat))
					}
					tr.hoistedCall = true
					if len(rts) > 1 {
						// multi-value call: only usable through a tuple assignment (not supported) or as a statement
						return "MULTI", tinfo{width: -3}
					}
					return first, ft
				}
			}
		}
		// conversion T(x)
		if len(t.Args) == 1 {
			ti := typeOf(t.Fun, tr.pkg)
			if ti.width > 0 {
				x, xt0 := tr.expr(t.Args[0], en)
				if cfg.Fmtx != nil && xt0.signed && xt0.width > 0 && xt0.width < ti.width {
					if !ti.signed {
						fail("%s: conversion of a signed integer to a wider unsigned type", tr.fn.Name)
					}
					return fmt.Sprintf("(gsext %d %d %s)", xt0.width, ti.width, x), ti // sign extension
				}
				if strings.Contains(x, "UNTYPED_NOT") {
					x = strings.ReplaceAll(x, "(UNTYPED_NOT ", fmt.Sprintf("(gnot %d ", ti.width))
				}
				return tr.wrap(ti.width, x), ti
			}
		}
		// method call x.M(args) on a variable of a named type, or pkg.F(args), or F(args)
		var spec fnSpec
		var args []string
		found := false
		switch f := t.Fun.(type) {
		case *ast.SelectorExpr:
			if pid, isPkg := f.X.(*ast.Ident); isPkg {
				if _, isVar := en.vars[pid.Name]; !isVar {
					if sp, ok := tr.funcs[exprText(f)]; ok && pid.Name != tr.ptrRecv {
						spec, found = sp, true
						break
					}
				}
			}
			rs, rt := tr.expr(f.X, en)
			if rt.named != "" {
				if s, ok := tr.funcs[rt.named+"."+f.Sel.Name]; ok {
					spec, found = s, true
					args = append(args, rs)
				}
			}
			if !found {
				if s, ok := tr.funcs[exprText(f)]; ok {
					spec, found = s, true
				}
			}
		case *ast.Ident:
			if s, ok := tr.funcs[f.Name]; ok && s.Pkg == tr.pkg {
				spec, found = s, true
			}
		}
		if found {
			for _, a := range t.Args {
				as, _ := tr.expr(a, en)
				args = append(args, as)
			}
			rt := resultTypes[coqName(spec.Pkg, spec.Recv, spec.Name)]
			return "(" + coqName(spec.Pkg, spec.Recv, spec.Name) + " " + strings.Join(args, " ") + ")", rt
		}
	}
	fail("%s.%s: unsupported expression %T (%s) at %v", tr.fn.Recv, tr.fn.Name, e, exprText(e), e.Pos())
	return "", tinfo{}
}

var resultTypes = map[string]tinfo{}
var monResults = map[string][]tinfo{}
var monInout = map[string]bool{}
var monFuel = map[string]bool{}
var shadowCount int

type extraParam struct {
	name, kind, ty string
	width    int
}

var monExtra = map[string][]extraParam{} // the extra parameters (seam results, external variables, oracles) of a translated method, in order

func (tr *translator) ret(vals []string, en *env) string {
	if tr.mon != "" {
		if cfg.Gres {
			if len(vals) == 0 && len(tr.results) > 0 {
				// fall off the end is impossible with results; a bare return yields the named results
				for _, n := range tr.named {
					if n == "" {
						fail("%s: return without values", tr.fn.Name)
					}
					vals = append(vals, v(n))
				}
			}
			for _, p := range tr.inout {
				vals = append(vals, v(p))
			}
		}
		r := "tt"
		if len(vals) == 1 {
			r = vals[0]
		} else if len(vals) > 1 {
			r = "(" + strings.Join(vals, ", ") + ")"
		}
		return tr.retWrap("(" + v(tr.ptrRecv) + ", " + r + ")")
	}
	var parts []string
	for _, g := range tr.globals {
		parts = append(parts, "g_"+g)
	}
	if tr.ptrRecv != "" {
		parts = append(parts, v(tr.ptrRecv))
	}
	parts = append(parts, vals...)
	if len(parts) == 0 {
		return "tt"
	}
	if len(parts) == 1 {
		return parts[0]
	}
	return "(" + strings.Join(parts, ", ") + ")"
}

// takePre returns the bindings hoisted while translating the expressions of one statement and resets
// the collector; a hoisted method call must be the whole expression e (or its negation)
func (tr *translator) takePre(es ...ast.Expr) []string {
	pre := tr.pre
	tr.pre = nil
	if tr.hoistedCall {
		ok := len(es) == 1
		if ok {
			e := es[0]
			for {
				if p, isP := e.(*ast.ParenExpr); isP {
					e = p.X
					continue
				}
				if u, isU := e.(*ast.UnaryExpr); isU && u.Op == token.NOT {
					e = u.X
					continue
				}
				break
			}
			_, ok = e.(*ast.CallExpr)
		}
		if !ok {
			fail("%s: a method call on the receiver must be the whole expression of its statement", tr.fn.Name)
		}
	}
	tr.hoistedCall = false
	return pre
}

// block translates statements; k produces the term for "fall off the end of this list"
func (tr *translator) block(stmts []ast.Stmt, en *env, k func(en *env) string) string {
	if len(stmts) == 0 {
		return k(en)
	}
	rest := func(en2 *env) string { return tr.block(stmts[1:], en2, k) }
	if cfg.Hal != nil {
		if out, ok := tr.halStmt(stmts, en, k); ok { // ext_hal.go (config "hal")
			return out
		}
	}
	if out, ok := tr.gstructStmt(stmts, en, k); ok { // ext_gstruct.go (config "gstructs"): g.f = e, g.f++, x, y := g.M(..)
		return out
	}
	if mbOn() { // ext_mb.go (config "memstructs")
		if out, ok := tr.mbStmt(stmts, en, k, rest); ok {
			return out
		}
	}
	if memOn() { // ext_mem.go
		if out, ok := tr.memStmt(stmts, en, k, rest); ok {
			return out
		}
	}
	if acpiOn() { // ext_acpi.go
		if out, ok := tr.acpiStmt(stmts, en, k, rest); ok {
			return out
		}
	}
	if cfg.PoolPtr != nil { // ext_c13trans.go
		if out, ok := tr.poolStmt(stmts, en, k); ok {
			return out
		}
	}
	switch s := stmts[0].(type) {
	case *ast.ReturnStmt:
		if out, ok := tr.closureReturn(s, en); ok { // ext_visitor.go: return inside a visitor closure (config "visitors")
			return out
		}
		var vals []string
		for i, r := range s.Results {
			x, ti := tr.expr(r, en)
			if i < len(tr.results) && tr.results[i].width > 0 && ti.width == 0 {
				if strings.HasPrefix(x, "(UNTYPED_NEG ") {
					x = fmt.Sprintf("(gsub %d 0 %s", tr.results[i].width, strings.TrimPrefix(x, "(UNTYPED_NEG "))
				} else {
					x = tr.wrap(tr.results[i].width, x)
				}
			}
			vals = append(vals, x)
		}
		pre := tr.takePre(s.Results...)
		if len(s.Results) > 1 && len(pre) > 0 {
			for _, p := range pre {
				if !strings.HasPrefix(p, "match g") {
					fail("%s: method call inside a multi-value return", tr.fn.Name)
				}
			}
		}
		return tr.wrapPre(pre, tr.ret(vals, en))
	case *ast.AssignStmt:
		if cfg.Fmtx != nil && (s.Tok == token.QUO_ASSIGN || s.Tok == token.REM_ASSIGN) && len(s.Lhs) == 1 && len(s.Rhs) == 1 {
			// x /= y is x = x / y (x a plain variable: evaluated once either way)
			if _, plain := s.Lhs[0].(*ast.Ident); !plain {
				fail("%s: /= on something that is not a variable", tr.fn.Name)
			}
			op := token.QUO
			if s.Tok == token.REM_ASSIGN {
				op = token.REM
			}
			s2 := &ast.AssignStmt{Lhs: s.Lhs, Tok: token.ASSIGN, Rhs: []ast.Expr{&ast.BinaryExpr{X: s.Lhs[0], Op: op, Y: s.Rhs[0]}}}
			return tr.block(append([]ast.Stmt{s2}, stmts[1:]...), en, k)
		}
		if len(s.Lhs) == len(s.Rhs) && len(s.Lhs) > 1 && s.Tok == token.ASSIGN {
			// parallel assignment: evaluate every right-hand side first, then assign left to right
			var seq []ast.Stmt
			var names []string
			for i, r := range s.Rhs {
				nm := fmt.Sprintf("par%d_%d", tr.ntmp, i)
				names = append(names, nm)
				seq = append(seq, &ast.AssignStmt{Lhs: []ast.Expr{ast.NewIdent(nm)}, Tok: token.DEFINE, Rhs: []ast.Expr{r}})
			}
			tr.ntmp++
			for i, l := range s.Lhs {
				seq = append(seq, &ast.AssignStmt{Lhs: []ast.Expr{l}, Tok: token.ASSIGN, Rhs: []ast.Expr{ast.NewIdent(names[i])}})
			}
			return tr.block(append(seq, stmts[1:]...), en, k)
		}
		if len(s.Rhs) == 1 && (s.Tok == token.ASSIGN || s.Tok == token.DEFINE) && cfg.Gres {
			// a, b = x.M(args) through the seam: the results are parameters s_M_i of the translation, or, with an
			// oracle, the value of o_M on the trace that already contains this call (then also a single a = x.M(args))
			if recv, name, m, call, ok := tr.seamCall(s.Rhs[0], en); ok && (len(s.Lhs) > 1 || len(m.Oracle) > 0) {
				nres := len(m.Results)
				if len(m.Oracle) > 0 {
					nres = len(m.Oracle)
				}
				if nres != len(s.Lhs) {
					fail("%s: %s returns %d values in the config", tr.fn.Name, name, nres)
				}
				args := tr.seamArgs(call, en)
				pre := tr.takePre()
				var seq []ast.Stmt
				body := ""
				if m.Record {
					body = "let " + v(tr.ptrRecv) + " := " + tr.event(name, args) + " in\n  "
				}
				en2 := en
				if len(m.Oracle) > 0 {
					if !m.Record {
						fail("%s: an oracle needs a recorded call", tr.fn.Name)
					}
					tr.nloop++
					en2 = en.clone()
					var pats, tys []string
					for i, l := range s.Lhs {
						ov := fmt.Sprintf("or%d_%d", tr.nloop, i)
						ti := oracleTy(m.Oracle[i])
						en2.vars[ov] = ti
						pats = append(pats, v(ov))
						tys = append(tys, coqTy(ti))
						seq = append(seq, &ast.AssignStmt{Lhs: []ast.Expr{l}, Tok: s.Tok, Rhs: []ast.Expr{ast.NewIdent(ov)}})
					}
					oname := "o_" + strings.ReplaceAll(name, ".", "_")
					tr.oracleUsed[oname] = "list gcall -> " + prodOf(tys)
					lp := "let '"
					if len(pats) == 1 {
						lp = "let "
					}
					body += lp + tupleOf(pats, "") + " := " + oname + " (" + fieldName(tr.mon, "trace") + " " + v(tr.ptrRecv) + ") in\n  "
				} else {
					for i, l := range s.Lhs {
						sv := fmt.Sprintf("s_%s_%d", name, i)
						tr.seamUsed[sv] = m.Results[i]
						seq = append(seq, &ast.AssignStmt{Lhs: []ast.Expr{l}, Tok: s.Tok, Rhs: []ast.Expr{ast.NewIdent(sv)}})
					}
				}
				body += tr.block(append(seq, stmts[1:]...), en2, k)
				if recv == "true" {
					return tr.wrapPre(pre, body)
				}
				return tr.wrapPre(pre, "if "+recv+"\n  then ("+body+")\n  else (GPanic)")
			}
		}
		if len(s.Lhs) == len(s.Rhs) && len(s.Lhs) > 1 && s.Tok == token.DEFINE && cfg.Gres {
			// a, b := x, y with new variables only: the right-hand sides cannot mention them
			var seq []ast.Stmt
			for i, l := range s.Lhs {
				id, ok := l.(*ast.Ident)
				if !ok {
					fail("%s: unsupported := target", tr.fn.Name)
				}
				if _, dup := en.vars[id.Name]; dup {
					fail("%s: %s := re-declares a variable", tr.fn.Name, id.Name)
				}
				seq = append(seq, &ast.AssignStmt{Lhs: []ast.Expr{l}, Tok: token.DEFINE, Rhs: []ast.Expr{s.Rhs[i]}})
			}
			return tr.block(append(seq, stmts[1:]...), en, k)
		}
		if len(s.Lhs) != 1 || len(s.Rhs) != 1 {
			fail("%s: multiple assignment not supported", tr.fn.Name)
		}
		if tr.isPath(s.Lhs[0]) {
			return tr.pathStore(s.Lhs[0], s.Tok, s.Rhs[0], en, rest)
		}
		if ix, ok := s.Lhs[0].(*ast.IndexExpr); ok && cfg.Gres && tr.mon != "" && s.Tok == token.ASSIGN {
			// x[i] = e : the right-hand side is evaluated first, then the bounds-checked store
			rhs, rt := tr.expr(s.Rhs[0], en)
			base, bt := tr.expr(ix.X, en)
			if bt.width != -4 {
				fail("%s: store into something that is not a byte slice", tr.fn.Name)
			}
			is, it := tr.expr(ix.Index, en)
			pre := tr.takePre(s.Rhs[0])
			val := rhs
			if rt.width == 0 {
				val = tr.wrap(8, rhs)
			}
			tmp := tr.tmp()
			if it.signed {
				pre = append(pre, matchOpt(fmt.Sprintf("gsets %d %s %s %s", it.width, base, is, val), tmp))
			} else {
				pre = append(pre, matchOpt(fmt.Sprintf("gset %s %s %s", base, is, val), tmp))
			}
			if f, ok := tr.recvField(ix.X); ok {
				return tr.wrapPre(pre, "let "+v(tr.ptrRecv)+" := "+tr.setField(f, tmp)+" in\n  "+rest(en))
			}
			id, ok := ix.X.(*ast.Ident)
			if !ok {
				fail("%s: unsupported store target", tr.fn.Name)
			}
			return tr.wrapPre(pre, "let "+v(id.Name)+" := "+tmp+" in\n  "+rest(en))
		}
		rhs, rt := tr.expr(s.Rhs[0], en)
		pre := tr.takePre(s.Rhs[0])
		if f, ok := tr.recvField(s.Lhs[0]); ok {
			if cfg.Gres && s.Tok == token.ASSIGN && ((f.width == -4 && !f.array && rt.width == -4) || (f.width == -6 && rt.width == -6)) {
				// t.f = make(...) (a fresh slice: no aliasing) / t.f = x for a reference
				if f.width == -4 {
					if c, isCall := s.Rhs[0].(*ast.CallExpr); !isCall || exprText(c.Fun) != "make" {
						fail("%s: a slice field may only be assigned a fresh make(...)", tr.fn.Name)
					}
				}
				return tr.wrapPre(pre, "let "+v(tr.ptrRecv)+" := "+tr.setField(f, rhs)+" in\n  "+rest(en))
			}
			if f.width <= 0 {
				fail("%s: assignment to a non-integer field", tr.fn.Name)
			}
			cur := "(" + fieldName(tr.mon, f.name) + " " + v(tr.ptrRecv) + ")"
			val := rhs
			switch s.Tok {
			case token.ASSIGN:
				if rt.width == 0 {
					val = tr.wrap(f.width, rhs)
				}
			case token.ADD_ASSIGN:
				val = tr.wrap(f.width, "("+cur+" + "+rhs+")")
			case token.SUB_ASSIGN:
				val = fmt.Sprintf("(gsub %d %s %s)", f.width, cur, rhs)
			default:
				fail("%s: unsupported assignment operator on a field", tr.fn.Name)
			}
			return tr.wrapPre(pre, "let "+v(tr.ptrRecv)+" := "+tr.setField(f, val)+" in\n  "+rest(en))
		}
		var name string
		var isGlobal bool
		switch l := s.Lhs[0].(type) {
		case *ast.Ident:
			name = l.Name
			if _, ok := en.vars[name]; !ok {
				if _, ok := cfg.Globals[name]; ok {
					isGlobal = true
					tr.usedGlob[name] = true
				}
			}
		case *ast.StarExpr:
			if id, ok := l.X.(*ast.Ident); ok && id.Name == tr.ptrRecv {
				name = id.Name
			}
			if id, ok := l.X.(*ast.Ident); ok && cfg.Gres && tr.ptrParams[id.Name] {
				name = id.Name
			}
		}
		if name == "" {
			fail("%s: unsupported assignment target", tr.fn.Name)
		}
		en2 := en.clone()
		var lt tinfo
		coq := v(name)
		if isGlobal {
			_, w := splitNameWidth(cfg.Globals[name])
			lt = tinfo{width: w}
			coq = "g_" + name
		} else if s.Tok == token.DEFINE {
			lt = rt
			if lt.width == 0 {
				lt = tinfo{width: 64} // untyped constant defaults to int; only used for small values
				if cfg.Gres {
					lt.signed = true
				}
			}
			if cfg.Gres {
				if _, dup := en.vars[name]; dup {
					// x := e in an inner block where x shadows a variable of an enclosing scope: the new x lives in the
					// rest of this statement list, where it is renamed apart (in the syntax tree, once)
					ast.Inspect(s.Rhs[0], func(n ast.Node) bool {
						if x, ok := n.(*ast.Ident); ok && x.Name == name {
							fail("%s: %s := ... uses the variable it shadows", tr.fn.Name, name)
						}
						return true
					})
					shadowCount++
					fresh := fmt.Sprintf("%s_s%d", name, shadowCount)
					for _, st := range stmts[1:] {
						ast.Inspect(st, func(n ast.Node) bool {
							if x, ok := n.(*ast.Ident); ok && x.Name == name {
								x.Name = fresh
							}
							return true
						})
					}
					if id, ok := s.Lhs[0].(*ast.Ident); ok {
						id.Name = fresh
					}
					name = fresh
					coq = v(name)
				}
				if lt.width == -4 && !lt.array {
					fail("%s: %s := of a slice (aliasing)", tr.fn.Name, name)
				}
			}
			en2.vars[name] = lt
		} else {
			lt = en.vars[name]
		}
		val := rhs
		if s.Tok != token.ASSIGN && s.Tok != token.DEFINE {
			cur := coq
			w := lt.width
			switch s.Tok {
			case token.ADD_ASSIGN:
				val = tr.wrap(w, "("+cur+" + "+rhs+")")
			case token.SUB_ASSIGN:
				val = fmt.Sprintf("(gsub %d %s %s)", w, cur, rhs)
			case token.OR_ASSIGN:
				val = "(N.lor " + cur + " " + rhs + ")"
			case token.AND_ASSIGN:
				val = "(N.land " + cur + " " + rhs + ")"
			case token.AND_NOT_ASSIGN:
				val = "(N.ldiff " + cur + " " + rhs + ")"
			case token.XOR_ASSIGN:
				val = "(N.lxor " + cur + " " + rhs + ")"
			case token.SHL_ASSIGN:
				val = tr.wrap(w, "(N.shiftl "+cur+" "+rhs+")")
			case token.SHR_ASSIGN:
				val = "(N.shiftr " + cur + " " + rhs + ")"
			default:
				fail("%s: unsupported assignment operator %v", tr.fn.Name, s.Tok)
			}
		} else if lt.width > 0 && rt.width == 0 {
			val = tr.wrap(lt.width, rhs)
		}
		if strings.Contains(val, "UNTYPED_NOT") {
			val = strings.ReplaceAll(val, "(UNTYPED_NOT ", fmt.Sprintf("(gnot %d ", lt.width))
		}
		return tr.wrapPre(pre, "let "+coq+" := "+val+" in\n  "+rest(en2))
	case *ast.ExprStmt:
		if tr.mon == "" {
			fail("%s: expression statement", tr.fn.Name)
		}
		if cfg.Gres {
			if out, ok := tr.visitorStmt(s.X, en, rest); ok { // ext_visitor.go: Visit(func(item) bool {..}) (config "visitors")
				return out
			}
			// panic(x): an explicit run-time panic
			if c, ok := s.X.(*ast.CallExpr); ok && exprText(c.Fun) == "panic" && len(c.Args) == 1 {
				return "GPanic"
			}
			// copy(dst, src): dst a local byte slice, src a byte slice value
			if c, ok := s.X.(*ast.CallExpr); ok && exprText(c.Fun) == "copy" && len(c.Args) == 2 {
				id, ok := c.Args[0].(*ast.Ident)
				if !ok || en.vars[id.Name].width != -4 {
					fail("%s: copy into something that is not a local byte slice", tr.fn.Name)
				}
				src, st := tr.expr(c.Args[1], en)
				if st.width != -4 {
					fail("%s: copy from something that is not a byte slice", tr.fn.Name)
				}
				pre := tr.takePre(c.Args[1])
				return tr.wrapPre(pre, "let "+v(id.Name)+" := (gcopy "+v(id.Name)+" "+src+") in\n  "+rest(en))
			}
			// a call through the seam: recorded as an event; a nil reference panics
			if recv, name, m, call, ok := tr.seamCall(s.X, en); ok {
				args := tr.seamArgs(call, en)
				pre := tr.takePre()
				body := rest(en)
				if m.Record {
					body = "let " + v(tr.ptrRecv) + " := " + tr.event(name, args) + " in\n  " + body
				}
				if recv == "true" {
					return tr.wrapPre(pre, body)
				}
				return tr.wrapPre(pre, "if "+recv+"\n  then ("+body+")\n  else (GPanic)")
			}
		}
		tr.expr(s.X, en)
		if !tr.hoistedCall {
			fail("%s: unsupported expression statement", tr.fn.Name)
		}
		pre := tr.takePre(s.X)
		return tr.wrapPre(pre, rest(en))
	case *ast.IncDecStmt:
		if tr.isPath(s.X) {
			return tr.pathStore(s.X, s.Tok, nil, en, rest)
		}
		if f, ok := tr.recvField(s.X); ok {
			cur := "(" + fieldName(tr.mon, f.name) + " " + v(tr.ptrRecv) + ")"
			val := tr.wrap(f.width, "("+cur+" + 1)")
			if s.Tok == token.DEC {
				val = fmt.Sprintf("(gsub %d %s 1)", f.width, cur)
			}
			return "let " + v(tr.ptrRecv) + " := " + tr.setField(f, val) + " in\n  " + rest(en)
		}
		id, ok := s.X.(*ast.Ident)
		if !ok {
			fail("%s: unsupported ++/--", tr.fn.Name)
		}
		ti := en.vars[id.Name]
		if s.Tok == token.INC {
			return "let " + v(id.Name) + " := " + tr.wrap(ti.width, "("+v(id.Name)+" + 1)") + " in\n  " + rest(en)
		}
		return "let " + v(id.Name) + fmt.Sprintf(" := (gsub %d %s 1) in\n  ", ti.width, v(id.Name)) + rest(en)
	case *ast.DeclStmt:
		gd, ok := s.Decl.(*ast.GenDecl)
		if !ok || gd.Tok != token.VAR {
			fail("%s: unsupported declaration", tr.fn.Name)
		}
		if cfg.Gres {
			hoist := false
			for _, sp := range gd.Specs {
				for _, val := range sp.(*ast.ValueSpec).Values {
					if needsHoist(val) {
						hoist = true
					}
				}
			}
			if hoist {
				// var x T = e with an element read or a call in e: x := T(e); the other names one by one
				var seq []ast.Stmt
				for _, sp := range gd.Specs {
					vs := sp.(*ast.ValueSpec)
					for i, n := range vs.Names {
						if i < len(vs.Values) {
							var val ast.Expr = vs.Values[i]
							if vs.Type != nil {
								val = &ast.CallExpr{Fun: vs.Type, Args: []ast.Expr{val}}
							}
							seq = append(seq, &ast.AssignStmt{Lhs: []ast.Expr{n}, Tok: token.DEFINE, Rhs: []ast.Expr{val}})
						} else {
							seq = append(seq, &ast.DeclStmt{Decl: &ast.GenDecl{Tok: token.VAR, Specs: []ast.Spec{&ast.ValueSpec{Names: []*ast.Ident{n}, Type: vs.Type}}}})
						}
					}
				}
				return tr.block(append(seq, stmts[1:]...), en, k)
			}
		}
		en2 := en.clone()
		out := ""
		for _, sp := range gd.Specs {
			vs := sp.(*ast.ValueSpec)
			for i, n := range vs.Names {
				ti := tinfo{width: -3}
				if vs.Type != nil {
					ti = typeOf(vs.Type, tr.pkg)
				}
				val := "0"
				if ti.width == -1 {
					val = "false"
				}
				if ti.width == -2 {
					val = "None"
				}
				if i < len(vs.Values) {
					var vt tinfo
					val, vt = tr.expr(vs.Values[i], en)
					if len(tr.pre) > 0 {
						fail("%s: index or method call in a var declaration", tr.fn.Name)
					}
					if vs.Type == nil {
						ti = vt
					}
				}
				if cfg.Gres {
					if _, dup := en.vars[n.Name]; dup {
						fail("%s: var %s shadows a variable of an enclosing scope", tr.fn.Name, n.Name)
					}
					if ti.width == 0 {
						ti = tinfo{width: 64, signed: true}
					}
					if ti.width < -2 {
						fail("%s: var %s of an unsupported type", tr.fn.Name, n.Name)
					}
				}
				en2.vars[n.Name] = ti
				out += "let " + v(n.Name) + " := " + val + " in\n  "
			}
		}
		return out + rest(en2)
	case *ast.IfStmt:
		if as, ok := s.Init.(*ast.AssignStmt); ok && cfg.Gres && as.Tok == token.DEFINE {
			// `if x := e; cond {..}` where x shadows a variable of an enclosing scope: x lives only inside this
			// statement, so it is renamed apart (in the syntax tree, once)
			for _, l := range as.Lhs {
				id, isId := l.(*ast.Ident)
				if !isId {
					continue
				}
				if _, dup := en.vars[id.Name]; dup {
					shadowCount++
					old, fresh := id.Name, fmt.Sprintf("%s_s%d", id.Name, shadowCount)
					rename := func(n ast.Node) bool {
						if x, ok := n.(*ast.Ident); ok && x.Name == old {
							x.Name = fresh
						}
						return true
					}
					for _, r := range as.Rhs {
						// the right-hand side still refers to the outer variable
						ast.Inspect(r, func(n ast.Node) bool {
							if x, ok := n.(*ast.Ident); ok && x.Name == old {
								fail("%s: %s := ... uses the variable it shadows", tr.fn.Name, old)
							}
							return true
						})
					}
					id.Name = fresh
					ast.Inspect(s.Cond, rename)
					ast.Inspect(s.Body, rename)
					if s.Else != nil {
						ast.Inspect(s.Else, rename)
					}
				}
			}
		}
		if s.Init != nil {
			return tr.block(append([]ast.Stmt{s.Init, &ast.IfStmt{Cond: s.Cond, Body: s.Body, Else: s.Else}}, stmts[1:]...), en, k)
		}
		if be, ok := s.Cond.(*ast.BinaryExpr); ok && cfg.Gres && (be.Op == token.LOR || be.Op == token.LAND) && needsHoist(be.Y) {
			// a || b / a && b where b reads an element: Go evaluates b only when needed
			var els ast.Stmt = s.Else
			if els == nil {
				els = &ast.BlockStmt{}
			}
			var first ast.Stmt
			if be.Op == token.LOR {
				first = &ast.IfStmt{Cond: be.X, Body: s.Body, Else: &ast.IfStmt{Cond: be.Y, Body: s.Body, Else: els}}
			} else {
				first = &ast.IfStmt{Cond: be.X, Body: &ast.BlockStmt{List: []ast.Stmt{&ast.IfStmt{Cond: be.Y, Body: s.Body, Else: els}}}, Else: els}
			}
			return tr.block(append([]ast.Stmt{first}, stmts[1:]...), en, k)
		}
		if cfg.Join && cfg.Gres {
			as := map[string]bool{}
			if tr.pureIf(s, en, as) && len(as) > 0 {
				// the branches only assign locals: bind their new values, then go on once
				var names []string
				for n := range as {
					names = append(names, n)
				}
				sort.Strings(names)
				var vs []string
				for _, n := range names {
					vs = append(vs, v(n))
				}
				tup := tupleOf(vs, "")
				fin := func(*env) string { return tup }
				c, _ := tr.expr(s.Cond, en)
				if len(tr.pre) > 0 {
					fail("%s: internal: hoist in a pure if", tr.fn.Name)
				}
				thn := tr.block(s.Body.List, en, fin)
				els := tup
				switch e := s.Else.(type) {
				case *ast.BlockStmt:
					els = tr.block(e.List, en, fin)
				case *ast.IfStmt:
					els = tr.block([]ast.Stmt{e}, en, fin)
				}
				lp := "let '" + tup
				if len(names) == 1 {
					lp = "let " + tup
				}
				return lp + " := (if " + c + "\n  then (" + thn + ")\n  else (" + els + ")) in\n  " + rest(en)
			}
		}
		c, _ := tr.expr(s.Cond, en)
		pre := tr.takePre(s.Cond)
		after := rest
		if cfg.Gres {
			after = func(*env) string { return rest(en) } // variables of the branches go out of scope
		}
		thn := tr.block(s.Body.List, en, after)
		var els string
		switch e := s.Else.(type) {
		case nil:
			els = rest(en)
		case *ast.BlockStmt:
			els = tr.block(e.List, en, after)
		case *ast.IfStmt:
			els = tr.block([]ast.Stmt{e}, en, after)
		}
		return tr.wrapPre(pre, "if "+c+"\n  then ("+thn+")\n  else ("+els+")")
	case *ast.BlockStmt:
		if cfg.Gres {
			return tr.block(s.List, en, func(*env) string { return rest(en) }) // its own scope
		}
		return tr.block(append(append([]ast.Stmt{}, s.List...), stmts[1:]...), en, k)
	case *ast.EmptyStmt:
		return rest(en)
	case *ast.TypeSwitchStmt:
		if cfg.Fmtx != nil && cfg.Gres && tr.mon != "" {
			return tr.fmtxTypeSwitch(s, en, rest)
		}
	case *ast.LabeledStmt:
		if cfg.Fmtx != nil && cfg.Gres && tr.mon != "" {
			return tr.fmtxLabeled(s, stmts, en, k)
		}
	case *ast.BranchStmt:
		if cfg.Fmtx != nil && cfg.Gres && s.Label != nil {
			return tr.fmtxBranch(s, en)
		}
		if cfg.Gres && s.Label == nil {
			if s.Tok == token.BREAK && tr.cx.brk != nil {
				return tr.cx.brk(en)
			}
			if s.Tok == token.CONTINUE && tr.cx.cont != nil {
				return tr.cx.cont(en)
			}
		}
	case *ast.SwitchStmt:
		if cfg.Gres {
			return tr.switchStmt(s, en, rest)
		}
	case *ast.ForStmt:
		if cfg.Gres && tr.mon != "" {
			if s.Init != nil {
				if as, ok := s.Init.(*ast.AssignStmt); !ok || (as.Tok != token.DEFINE && as.Tok != token.ASSIGN) {
					fail("%s: loop initialisation must be a := or = statement", tr.fn.Name)
				}
				return tr.block([]ast.Stmt{s.Init}, en, func(en2 *env) string { return tr.forLoop(s, en2, func(*env) string { return rest(en) }) })
			}
			return tr.forLoop(s, en, rest)
		}
	case *ast.RangeStmt:
		if cfg.Gres && tr.mon != "" {
			return tr.rangeLoop(s, en, rest)
		}
	}
	fail("%s: unsupported statement %T", tr.fn.Name, stmts[0])
	return ""
}

// isPath: an lvalue that goes through an element of a slice of structs or a nested slice (handled by writePath)
func (tr *translator) isPath(e ast.Expr) bool {
	if !cfg.Gres || tr.mon == "" {
		return false
	}
	switch t := e.(type) {
	case *ast.SelectorExpr:
		if _, ok := tr.recvField(t); ok {
			return false
		}
		_, isIx := t.X.(*ast.IndexExpr)
		return isIx
	case *ast.IndexExpr:
		if _, ok := tr.recvField(t.X); ok {
			f, _ := tr.recvField(t.X)
			return f.width == -8 || (f.width == -4 && f.elem > 8)
		}
		if sel, ok := t.X.(*ast.SelectorExpr); ok {
			return tr.isPath(sel)
		}
	}
	return false
}

// writePath: the receiver record after storing val at the lvalue e, which is recv.f, P[i] or P.g for an lvalue P;
// every index is bounds-checked (hoisted), a struct element is read, updated with its setter and written back
func (tr *translator) writePath(e ast.Expr, val string, en *env) string {
	switch t := e.(type) {
	case *ast.SelectorExpr:
		if f, ok := tr.recvField(t); ok {
			return tr.setField(f, val)
		}
		bs, bt := tr.expr(t.X, en)
		if bt.width == -9 {
			for _, f := range structFields[bt.named] {
				if f.name == t.Sel.Name {
					return tr.writePath(t.X, "(set_"+fieldName(bt.named, f.name)+" "+bs+" "+val+")", en)
				}
			}
		}
	case *ast.IndexExpr:
		bs, bt := tr.expr(t.X, en)
		is, it := tr.expr(t.Index, en)
		setter := ""
		switch {
		case bt.width == -4 && it.signed:
			setter = fmt.Sprintf("gsets %d", it.width)
		case bt.width == -4:
			setter = "gset"
		case bt.width == -8 && it.signed:
			setter = fmt.Sprintf("gsetsA %d", it.width)
		case bt.width == -8:
			setter = "gsetA"
		default:
			fail("%s: store into something that is not a slice", tr.fn.Name)
		}
		tmp := tr.tmp()
		tr.pre = append(tr.pre, matchOpt(fmt.Sprintf("%s %s %s %s", setter, bs, is, val), tmp))
		return tr.writePath(t.X, tmp, en)
	}
	fail("%s: unsupported assignment target", tr.fn.Name)
	return ""
}

// opAssign: the value of `cur op= rhs` at width w
func (tr *translator) opAssign(tok token.Token, w int, cur, rhs string) string {
	switch tok {
	case token.ASSIGN:
		return rhs
	case token.ADD_ASSIGN, token.INC:
		return tr.wrap(w, "("+cur+" + "+rhs+")")
	case token.SUB_ASSIGN, token.DEC:
		return fmt.Sprintf("(gsub %d %s %s)", w, cur, rhs)
	case token.OR_ASSIGN:
		return "(N.lor " + cur + " " + rhs + ")"
	case token.AND_ASSIGN:
		return "(N.land " + cur + " " + rhs + ")"
	case token.AND_NOT_ASSIGN:
		return "(N.ldiff " + cur + " " + rhs + ")"
	case token.XOR_ASSIGN:
		return "(N.lxor " + cur + " " + rhs + ")"
	}
	fail("%s: unsupported assignment operator %v", tr.fn.Name, tok)
	return ""
}

// pathStore: P = e, P op= e, P++ / P-- for a path lvalue (the right-hand side and the current value are read first)
func (tr *translator) pathStore(lhs ast.Expr, tok token.Token, rhs ast.Expr, en *env, rest func(*env) string) string {
	r, rt := "1", tinfo{width: 0}
	if rhs != nil {
		r, rt = tr.expr(rhs, en)
	}
	cur, ct := "", tinfo{}
	if tok != token.ASSIGN {
		cur, ct = tr.expr(lhs, en)
	} else {
		saved := tr.pre
		_, ct = tr.expr(lhs, en) // for the type only
		tr.pre = saved
	}
	if ct.width <= 0 {
		fail("%s: only integer elements and fields can be assigned through a path", tr.fn.Name)
	}
	if rt.width == 0 && tok == token.ASSIGN {
		r = tr.wrap(ct.width, r)
	}
	val := tr.opAssign(tok, ct.width, cur, r)
	upd := tr.writePath(lhs, val, en)
	var es []ast.Expr
	if rhs != nil {
		es = append(es, rhs)
	}
	pre := tr.takePre(es...)
	return tr.wrapPre(pre, "let "+v(tr.ptrRecv)+" := "+upd+" in\n  "+rest(en))
}

// pureIf: the branches of s only assign local variables with right-hand sides that need no hoisting (no element
// reads, no calls of methods), and contain no return / break / continue: the names assigned, or ok = false
func (tr *translator) pureIf(s *ast.IfStmt, en *env, out map[string]bool) bool {
	if s.Init != nil || needsHoist(s.Cond) {
		return false
	}
	var pureBlock func(list []ast.Stmt) bool
	pureBlock = func(list []ast.Stmt) bool {
		for _, st := range list {
			switch a := st.(type) {
			case *ast.AssignStmt:
				if a.Tok == token.DEFINE || len(a.Lhs) != 1 || len(a.Rhs) != 1 {
					return false
				}
				id, ok := a.Lhs[0].(*ast.Ident)
				if !ok {
					return false
				}
				if _, isVar := en.vars[id.Name]; !isVar || needsHoist(a.Rhs[0]) {
					return false
				}
				out[id.Name] = true
			case *ast.IncDecStmt:
				id, ok := a.X.(*ast.Ident)
				if !ok {
					return false
				}
				if _, isVar := en.vars[id.Name]; !isVar {
					return false
				}
				out[id.Name] = true
			case *ast.IfStmt:
				if !tr.pureIf(a, en, out) {
					return false
				}
			case *ast.EmptyStmt:
			default:
				return false
			}
		}
		return true
	}
	if !pureBlock(s.Body.List) {
		return false
	}
	switch e := s.Else.(type) {
	case nil:
	case *ast.BlockStmt:
		if !pureBlock(e.List) {
			return false
		}
	case *ast.IfStmt:
		if !tr.pureIf(e, en, out) {
			return false
		}
	default:
		return false
	}
	return true
}

// needsHoist: does evaluating e involve a bounds-checked read or a call that must be hoisted?
// unsafeLoad recognises *(*T)(unsafe.Pointer(a)) for an unsigned integer type T: its width and the address a
func unsafeLoad(t *ast.StarExpr, pkg string) (int, ast.Expr, bool) {
	call, ok := t.X.(*ast.CallExpr)
	if !ok || len(call.Args) != 1 {
		return 0, nil, false
	}
	par, ok := call.Fun.(*ast.ParenExpr)
	if !ok {
		return 0, nil, false
	}
	st, ok := par.X.(*ast.StarExpr)
	if !ok {
		return 0, nil, false
	}
	ty := typeOf(st.X, pkg)
	if ty.width != 8 && ty.width != 16 && ty.width != 32 && ty.width != 64 || ty.signed {
		return 0, nil, false
	}
	inner, ok := call.Args[0].(*ast.CallExpr)
	if !ok || len(inner.Args) != 1 || exprText(inner.Fun) != "unsafe.Pointer" {
		return 0, nil, false
	}
	return ty.width, inner.Args[0], true
}

func needsHoist(e ast.Expr) bool {
	found := false
	ast.Inspect(e, func(n ast.Node) bool {
		switch c := n.(type) {
		case *ast.IndexExpr, *ast.SliceExpr:
			found = true
		case *ast.SelectorExpr:
			if cfg.PoolPtr != nil { // ext_c13trans.go: x.f may be a read through a pointer (a possible nil dereference)
				found = true
			}
		case *ast.CallExpr:
			if id, ok := c.Fun.(*ast.Ident); !ok || (id.Name != "len") {
				if _, isSel := c.Fun.(*ast.SelectorExpr); isSel {
					found = true
				}
			}
		}
		return !found
	})
	return found
}

// statePat: the loop-carried state (the receiver record and the listed locals) as a pattern/value and its type
func (tr *translator) statePat(names []string, en *env) (pat string, ty string) {
	ps := []string{v(tr.ptrRecv)}
	ts := []string{recName(structPkg[tr.mon], tr.mon)}
	for _, n := range names {
		ps = append(ps, v(n))
		ts = append(ts, coqTy(en.vars[n]))
	}
	return tupleOf(ps, ""), prodOf(ts) + "%type"
}

func letPat(pat string) string {
	if strings.HasPrefix(pat, "(") {
		return "let '" + pat + " := st in"
	}
	return "let " + pat + " := st in"
}

// emitLoop: `match gloop fuel (fun st => step) init with ... end`; the state after a normal exit is bound for rest
func (tr *translator) emitLoop(pat, ty, step string, rest func() string) string {
	tr.usesFuel = true
	out := "match gloop (R := " + memLoopR(tr.resultTy(nil)) + ") fuel (fun st : " + ty + " => " + letPat(pat) + "\n  " + step + ") " + pat + " with\n" // memLoopR: ext_mem.go (a loop inside a void closure)
	if cfg.Fmtx != nil && strings.HasPrefix(step, "\x01") {
		// the step function is an auxiliary top-level definition (ext_fmt.go)
		out = "match gloop (R := " + tr.resultTy(nil) + ") fuel " + step[1:] + " " + pat + " with\n"
	}
	out += "  | GPanic => GPanic | GFuel => GFuel\n"
	out += "  | GOk (inr r) => " + tr.retWrap("r") + "\n"
	out += "  | GOk (inl st) => " + letPat(pat) + "\n  " + rest() + "\n  end"
	return out
}

// for cond { body } / for ; cond; post { body } (the initialisation has been translated): recursion on fuel
// through gloop; the state is the receiver record and the locals the loop assigns
func (tr *translator) forLoop(s *ast.ForStmt, en *env, rest func(*env) string) string {
	names := carried(en, []ast.Stmt{s.Body, s.Post})
	pat, ty := tr.statePat(names, en)
	restC := tr.capture(rest)
	next := func(*env) string { return "(GOk (GNext " + pat + "))" }
	brk := func(*env) string { return "(GOk (GBreak " + pat + "))" }
	cont := next
	if s.Post != nil {
		cont = func(*env) string { return tr.block([]ast.Stmt{s.Post}, en, next) }
	}
	if cfg.Fmtx != nil {
		defer tr.fmtxLoopTargets(s, brk, cont)() // a labelled loop: break L / continue L
	}
	step := tr.withCtx(ctx{brk: brk, cont: cont, loopDepth: tr.cx.loopDepth + 1}, func() string {
		c := "true"
		var pre []string
		if s.Cond != nil {
			c, _ = tr.expr(s.Cond, en)
			pre = tr.takePre(s.Cond)
		}
		body := tr.block(s.Body.List, en, cont)
		return tr.wrapPre(pre, "if "+c+"\n  then ("+body+")\n  else ("+brk(en)+")")
	})
	if cfg.Fmtx != nil {
		step = tr.fmtxAuxLoop(en, names, pat, ty, step)
	}
	return tr.emitLoop(pat, ty, step, func() string { return restC(en) })
}

// for k, b := range p over a local byte slice p that the body does not store into: a hidden index runs from 0
// to len(p); k and b are fresh copies in every iteration
func (tr *translator) rangeLoop(s *ast.RangeStmt, en *env, rest func(*env) string) string {
	id, ok := s.X.(*ast.Ident)
	if !ok || en.vars[id.Name].width != -4 {
		return tr.rangeExprLoop(s, en, rest)
	}
	names := carried(en, []ast.Stmt{s.Body})
	for _, n := range names {
		if n == id.Name {
			fail("%s: the loop stores into the slice it ranges over", tr.fn.Name)
		}
	}
	tr.nloop++
	hidden := fmt.Sprintf("rng%d", tr.nloop)
	en2 := en.clone()
	en2.vars[hidden] = tinfo{width: 64, signed: true}
	bind := func(e ast.Expr, ti tinfo) string {
		if e == nil {
			return ""
		}
		kid, ok := e.(*ast.Ident)
		if !ok || (s.Tok != token.DEFINE && kid.Name != "_") {
			fail("%s: range variables must be declared by the loop", tr.fn.Name)
		}
		if kid.Name == "_" {
			return ""
		}
		if _, dup := en.vars[kid.Name]; dup {
			fail("%s: range variable %s shadows a variable of an enclosing scope", tr.fn.Name, kid.Name)
		}
		en2.vars[kid.Name] = ti
		return kid.Name
	}
	key := bind(s.Key, tinfo{width: 64, signed: true})
	valTy := tinfo{width: 8}
	if acpiOn() && en.vars[id.Name].elem > 8 { // ext_acpi.go: a local []uintptr - the range value has the element's width
		valTy = tinfo{width: en.vars[id.Name].elem}
	}
	val := bind(s.Value, valTy)
	all := append(append([]string{}, names...), hidden)
	pat, ty := tr.statePat(all, en2)
	restC := tr.capture(rest)
	nextPat, _ := tr.statePat(append(append([]string{}, names...), "\x00"), en2)
	nextPat = strings.Replace(nextPat, v("\x00"), "("+v(hidden)+" + 1)", 1)
	next := func(*env) string { return "(GOk (GNext " + nextPat + "))" }
	brk := func(*env) string { return "(GOk (GBreak " + pat + "))" }
	step := tr.withCtx(ctx{brk: brk, cont: next, loopDepth: tr.cx.loopDepth + 1}, func() string {
		body := ""
		if key != "" {
			body += "let " + v(key) + " := " + v(hidden) + " in\n  "
		}
		body += tr.block(s.Body.List, en2, next)
		if val != "" {
			body = fmt.Sprintf("match gidx %s %s with None => GPanic | Some %s =>\n  %s end", v(id.Name), v(hidden), v(val), body)
		}
		return "if (" + v(hidden) + " <? (glen " + v(id.Name) + "))\n  then (" + body + ")\n  else (" + brk(en2) + ")"
	})
	loop := tr.emitLoop(pat, ty, step, func() string { return restC(en) })
	return "let " + v(hidden) + " := 0 in\n  " + loop
}

// for k, x := range E for a slice-valued field path E (a slice of integers or of structs): len(E) is taken once,
// x is read (bounds-checked) from the CURRENT contents at every iteration, as Go reads the shared backing array;
// the body must not assign a slice header (checked), so the length stays what it was
func (tr *translator) rangeExprLoop(s *ast.RangeStmt, en *env, rest func(*env) string) string {
	ast.Inspect(s.Body, func(n ast.Node) bool {
		if as, ok := n.(*ast.AssignStmt); ok {
			for _, l := range as.Lhs {
				if sel, ok := l.(*ast.SelectorExpr); ok {
					for _, fs := range structFields {
						for _, f := range fs {
							if f.name == sel.Sel.Name && (f.width == -4 || f.width == -8) {
								fail("%s: the body of a range loop assigns the slice field %s", tr.fn.Name, f.name)
							}
						}
					}
				}
			}
		}
		return true
	})
	xs, xt := tr.expr(s.X, en)
	if xt.width != -4 && xt.width != -8 {
		fail("%s: range over something that is not a slice", tr.fn.Name)
	}
	pre := tr.takePre()
	lenf := "glen"
	if xt.width == -8 {
		lenf = "glenA"
	}
	tr.nloop++
	hidden := fmt.Sprintf("rng%d", tr.nloop)
	hlen := fmt.Sprintf("rnglen%d", tr.nloop)
	names := carried(en, []ast.Stmt{s.Body})
	en2 := en.clone()
	en2.vars[hidden] = tinfo{width: 64} // non-negative: read with the unsigned index operations
	en2.vars[hlen] = tinfo{width: 64}
	name := func(e ast.Expr) string {
		if e == nil {
			return ""
		}
		kid, ok := e.(*ast.Ident)
		if !ok || (s.Tok != token.DEFINE && kid.Name != "_") {
			fail("%s: range variables must be declared by the loop", tr.fn.Name)
		}
		if kid.Name == "_" {
			return ""
		}
		if _, dup := en.vars[kid.Name]; dup {
			fail("%s: range variable %s shadows a variable of an enclosing scope", tr.fn.Name, kid.Name)
		}
		return kid.Name
	}
	key, val := name(s.Key), name(s.Value)
	all := append(append([]string{}, names...), hidden)
	pat, ty := tr.statePat(all, en2)
	restC := tr.capture(rest)
	nextPat, _ := tr.statePat(append(append([]string{}, names...), "\x00"), en2)
	nextPat = strings.Replace(nextPat, v("\x00"), "("+v(hidden)+" + 1)", 1)
	next := func(*env) string { return "(GOk (GNext " + nextPat + "))" }
	brk := func(*env) string { return "(GOk (GBreak " + pat + "))" }
	step := tr.withCtx(ctx{brk: brk, cont: next, loopDepth: tr.cx.loopDepth + 1}, func() string {
		var seq []ast.Stmt
		body := ""
		en3 := en2.clone()
		if val != "" {
			// x := E[hidden], read now
			es, et := tr.expr(&ast.IndexExpr{X: s.X, Index: ast.NewIdent(hidden)}, en2)
			p2 := tr.takePre()
			en3.vars[val] = et
			inner := ""
			if key != "" {
				en3.vars[key] = tinfo{width: 64, signed: true}
				inner += "let " + v(key) + " := " + v(hidden) + " in\n  "
			}
			inner += "let " + v(val) + " := " + es + " in\n  " + tr.block(append(seq, s.Body.List...), en3, next)
			body = tr.wrapPre(p2, inner)
		} else {
			if key != "" {
				en3.vars[key] = tinfo{width: 64, signed: true}
				body += "let " + v(key) + " := " + v(hidden) + " in\n  "
			}
			body += tr.block(s.Body.List, en3, next)
		}
		return "if (" + v(hidden) + " <? " + v(hlen) + ")\n  then (" + body + ")\n  else (" + brk(en2) + ")"
	})
	loop := tr.emitLoop(pat, ty, step, func() string { return restC(en) })
	return tr.wrapPre(pre, "let "+v(hlen)+" := ("+lenf+" "+xs+") in\n  let "+v(hidden)+" := 0 in\n  "+loop)
}

// switch: an if / else-if chain in the order of the clauses, default last; the tag is evaluated once;
// break leaves the switch; fallthrough is not supported
func (tr *translator) switchStmt(s *ast.SwitchStmt, en *env, rest func(*env) string) string {
	var seq []ast.Stmt
	if s.Init != nil {
		seq = append(seq, s.Init)
	}
	var tag ast.Expr
	if s.Tag != nil {
		tr.nloop++
		nm := fmt.Sprintf("sw%d", tr.nloop)
		seq = append(seq, &ast.AssignStmt{Lhs: []ast.Expr{ast.NewIdent(nm)}, Tok: token.DEFINE, Rhs: []ast.Expr{s.Tag}})
		tag = ast.NewIdent(nm)
	}
	var chain, last *ast.IfStmt
	var deflt *ast.BlockStmt
	for _, c := range s.Body.List {
		cc := c.(*ast.CaseClause)
		if cc.List == nil {
			deflt = &ast.BlockStmt{List: cc.Body}
			continue
		}
		var cond ast.Expr
		for _, e := range cc.List {
			var one ast.Expr = e
			if tag != nil {
				one = &ast.BinaryExpr{X: tag, Op: token.EQL, Y: e}
			}
			if cond == nil {
				cond = one
			} else {
				cond = &ast.BinaryExpr{X: cond, Op: token.LOR, Y: one}
			}
		}
		ifs := &ast.IfStmt{Cond: cond, Body: &ast.BlockStmt{List: cc.Body}}
		if chain == nil {
			chain = ifs
		} else {
			last.Else = ifs
		}
		last = ifs
	}
	if chain == nil {
		if deflt != nil {
			seq = append(seq, deflt)
		}
	} else {
		if deflt != nil {
			last.Else = deflt
		}
		seq = append(seq, chain)
	}
	restC := tr.capture(func(*env) string { return rest(en) })
	return tr.withCtx(ctx{brk: restC, cont: tr.cx.cont, loopDepth: tr.cx.loopDepth}, func() string {
		return tr.block(seq, en, restC)
	})
}

func main() {
	data, err := os.ReadFile(os.Args[1])
	if err != nil {
		fail("%v", err)
	}
	if err := json.Unmarshal(data, &cfg); err != nil {
		fail("%v", err)
	}
	memLoadConfig(data) // ext_mem.go
	acpiLoadConfig(data) // ext_acpi.go
	mbLoadConfig(data) // ext_mb.go
	fset := token.NewFileSet()
	files := map[string]*ast.File{}
	funcs := map[string]fnSpec{}
	for _, f := range cfg.Funcs {
		key := f.Name
		if f.Recv != "" {
			key = f.Recv + "." + f.Name
		}
		funcs[key] = f
		funcs[f.Pkg+"."+key] = f
	}
	fmt.Println("(* GENERATED on every run by gen/gotrans (go/ast) from the Go sources named below -- do not edit *)")
	fmt.Println("From Coq Require Import NArith Bool List String.")
	fmt.Println("From FF Require Import Lib.GoOps.")
	imports := map[string]bool{}
	for _, c := range cfg.Consts {
		n, _ := splitNameWidth(c)
		_ = n
	}
	for _, imp := range os.Args[2:] {
		if !imports[imp] {
			fmt.Printf("From FF Require Import %s.\n", imp)
			imports[imp] = true
		}
	}
	memPrintRequire() // ext_mem.go
	fmt.Println("Local Open Scope N_scope.")
	fmt.Println("Local Open Scope bool_scope.")
	if cfg.Gres {
		fmt.Println("Local Open Scope list_scope.")
	}
	fmt.Println()
	if len(cfg.Payload) > 0 { // ext_c13trans.go: payload fields are `option V` for a type variable V of the whole file
		fmt.Println("Section Payload.\nContext {V : Type}.\n")
		defer fmt.Println("End Payload.")
	}
	if mbOn() { // ext_mb.go (config "memstructs"): the file is a Section over the memory type and its load / store
		defer mbPrintLayoutChecks()
		mbOpenSection()
		defer mbCloseSection()
	}
	var snames []string
	for st := range cfg.Structs {
		snames = append(snames, st)
	}
	sort.Strings(snames)
	for es, spec := range cfg.ExtStructs {
		structPkg[es] = spec.Pkg
		for _, f := range spec.Fields {
			n, w := splitNameWidth(f)
			structFields[es] = append(structFields[es], sfield{name: n, width: w})
		}
	}
	for _, st := range snames {
		path := filepath.Join(cfg.Repo, cfg.Structs[st])
		file := files[path]
		if file == nil {
			file, err = parser.ParseFile(fset, path, nil, 0)
			if err != nil {
				fail("%v", err)
			}
			files[path] = file
		}
		structPkg[st] = file.Name.Name
		found := false
		for _, d := range file.Decls {
			gd, ok := d.(*ast.GenDecl)
			if !ok || gd.Tok != token.TYPE {
				continue
			}
			for _, sp := range gd.Specs {
				ts := sp.(*ast.TypeSpec)
				stt, ok := ts.Type.(*ast.StructType)
				if !ok || ts.Name.Name != st {
					continue
				}
				found = true
				for _, fl := range stt.Fields.List {
					var sf sfield
					if at, ok := fl.Type.(*ast.ArrayType); ok && (at.Len == nil || cfg.Gres) {
						if el := typeOf(at.Elt, file.Name.Name); el.width == 8 {
							sf.width = -4
							sf.array = at.Len != nil
						} else if cfg.Gres && at.Len == nil && el.width > 8 && !el.signed {
							sf.width = -4 // a slice of unsigned integers wider than a byte
							sf.elem = el.width
						} else if cfg.Gres && at.Len == nil && el.width == -5 {
							sf.width = -8 // a slice of structs
							sf.named = el.named
						}
					} else if ti := typeOf(fl.Type, file.Name.Name); ti.width > 0 {
						if ti.signed && !cfg.Gres {
							fail("struct %s: signed field needs the extended mode", st)
						}
						sf.width = ti.width
						sf.signed = ti.signed
					}
					if cfg.PoolPtr != nil { // ext_c13trans.go: []*T is the pool of T's records
						poolStructField(st, fl, file.Name.Name, &sf)
					}
					for _, n := range fl.Names {
						skip := false
						for _, ig := range cfg.Ignore[st] {
							if ig == n.Name {
								skip = true
							}
						}
						if skip {
							continue
						}
						w := sf.width
						if ft, ok := cfg.FieldTypes[st+"."+n.Name]; ok && cfg.Gres {
							w = -8
							sf.named = ft
						}
						for _, lo := range cfg.LenOnly[st] {
							if lo == n.Name && cfg.Gres {
								w = -10
							}
						}
						for _, o := range cfg.Opaque[st] {
							if o == n.Name {
								w = -6
							}
						}
						if cfg.PoolPtr != nil { // ext_c13trans.go: config "payload"
							w = poolFieldWidth(st, n.Name, w)
						}
						if w == 0 {
							fail("struct %s: unsupported type of field %s", st, n.Name)
						}
						structFields[st] = append(structFields[st], sfield{name: n.Name, width: w, signed: sf.signed && w > 0, array: sf.array && w == -4, elem: sf.elem, named: sf.named})
					}
				}
			}
		}
		if !found {
			fail("struct %s not found in %s", st, cfg.Structs[st])
		}
		if _, ok := cfg.Seams[st]; ok && cfg.Gres {
			structFields[st] = append(structFields[st], sfield{name: "trace", width: -7})
		}
	}
	for _, f := range cfg.Funcs {
		if f.World && cfg.Gres {
			if _, done := structPkg["world"]; !done {
				structPkg["world"] = f.Pkg
				structFields["world"] = []sfield{{name: "trace", width: -7}}
				structFields["world"] = append(structFields["world"], memWorldFields()...) // ext_mem.go
				structFields["world"] = append(structFields["world"], mbWorldFields()...)  // ext_mb.go
				if cfg.Seams == nil {
					cfg.Seams = map[string]seamSpec{}
				}
				cfg.Seams["world"] = seamSpec{Typed: true, Value: true, Methods: cfg.FnSeams}
				if cfg.Structs == nil {
					cfg.Structs = map[string]string{}
				}
				cfg.Structs["world"] = "(synthetic: the trace of the calls through " + f.Pkg + "'s function variables)"
				snames = append(snames, "world")
				if cfg.Fmtx != nil {
					fmtxWorldFields() // package-level byte buffers next to the trace
				}
				if cfg.Hal != nil {
					halWorldFields() // package-level references next to the trace
				}
			}
		}
	}
	for es := range cfg.ExtStructs {
		if cfg.Structs == nil {
			cfg.Structs = map[string]string{}
		}
		cfg.Structs[es] = "(config: a struct type of package " + cfg.ExtStructs[es].Pkg + ")"
		snames = append(snames, es)
	}
	sort.Strings(snames)
	// records are printed after the records their fields mention
	printed := map[string]bool{}
	var order []string
	for len(order) < len(snames) {
		progress := false
		for _, st := range snames {
			if printed[st] {
				continue
			}
			ready := true
			for _, f := range structFields[st] {
				if f.width == -8 && !printed[f.named] {
					ready = false
				}
			}
			if ready {
				printed[st] = true
				order = append(order, st)
				progress = true
			}
		}
		if !progress {
			fail("cyclic struct declarations")
		}
	}
	for _, st := range order {
		rn := recName(structPkg[st], st)
		var fds []string
		for _, f := range structFields[st] {
			ty := "N"
			if f.width == -4 {
				ty = "list N"
			}
			if f.width == -6 {
				ty = "bool"
			}
			if f.width == -8 {
				ty = "list " + recName(structPkg[f.named], f.named)
			}
			if s, ok := poolCoqTy(tinfo{width: f.width}); ok && cfg.PoolPtr != nil { // ext_c13trans.go
				ty = s
			}
			if f.width == -7 {
				ty = "list gevent"
				if cfg.Seams[st].Typed {
					ty = "list gcall"
				}
			}
			ty = memFieldType(f, ty) // ext_mem.go
			ty = mbFieldType(f, ty)  // ext_mb.go
			fds = append(fds, fieldName(st, f.name)+" : "+ty)
		}
		fmt.Printf("(* %s : type %s *)\n", cfg.Structs[st], st)
		fmt.Printf("Record %s := mk_%s { %s }.\n\n", rn, rn, strings.Join(fds, "; "))
		if cfg.Gres {
			// r.f = x : the record with field f replaced
			for _, f := range structFields[st] {
				var parts []string
				ty := ""
				for _, g := range structFields[st] {
					if g.name == f.name {
						parts = append(parts, "x")
						ty = strings.SplitN(fds[len(parts)-1], " : ", 2)[1]
					} else {
						parts = append(parts, "("+fieldName(st, g.name)+" r)")
					}
				}
				fmt.Printf("Definition set_%s (r : %s) (x : %s) : %s := mk_%s %s.\n", fieldName(st, f.name), rn, ty, rn, rn, strings.Join(parts, " "))
			}
			fmt.Println()
			memPrintHelpers(st, rn) // ext_mem.go
		}
	}
	acpiPreprocess(fset, files, funcs) // ext_acpi.go: labelled continue from an inner loop, defer (syntax-tree rewrites)
	for _, spec := range cfg.Funcs {
		path := filepath.Join(cfg.Repo, spec.File)
		file := files[path]
		if file == nil {
			file, err = parser.ParseFile(fset, path, nil, 0)
			if err != nil {
				fail("%v", err)
			}
			files[path] = file
		}
		var decl *ast.FuncDecl
		for _, d := range file.Decls {
			fd, ok := d.(*ast.FuncDecl)
			if !ok || fd.Name.Name != spec.Name || fd.Body == nil {
				continue
			}
			recv := ""
			if fd.Recv != nil && len(fd.Recv.List) == 1 {
				t := fd.Recv.List[0].Type
				if st, ok := t.(*ast.StarExpr); ok {
					t = st.X
				}
				if id, ok := t.(*ast.Ident); ok {
					recv = id.Name
				}
			}
			if recv == spec.Recv {
				decl = fd
			}
		}
		if decl == nil {
			fail("function %s.%s not found in %s", spec.Recv, spec.Name, spec.File)
		}
		tr := &translator{pkg: spec.Pkg, fn: spec, funcs: funcs, usedGlob: map[string]bool{}, seamUsed: map[string]int{}, oracleUsed: map[string]string{}, extUsed: map[string]int{}, ptrParams: map[string]bool{}, inoutTy: map[string]tinfo{}}
		en := &env{vars: map[string]tinfo{}}
		var params []string
		if decl.Recv == nil && spec.World && cfg.Gres {
			tr.mon = "world"
			tr.ptrRecv = "world"
			params = append(params, "("+v("world")+" : "+recName(structPkg["world"], "world")+")")
		}
		if decl.Recv != nil && !memRecv(tr, decl, en, &params) && !acpiRecv(tr, decl, en, &params) && !halRecv(tr, decl, en, &params) && !mbRecv(tr, decl, en, &params) { // ext_mb.go / ext_mem.go / ext_acpi.go: a "world" function with a receiver
			r := decl.Recv.List[0]
			ti := typeOf(r.Type, spec.Pkg)
			name := "recv"
			if len(r.Names) == 1 {
				name = r.Names[0].Name
			}
			if ti.width == -5 {
				if _, ok := r.Type.(*ast.StarExpr); !ok {
					fail("%s: struct receivers must be pointers", spec.Name)
				}
				tr.mon = ti.named
				tr.ptrRecv = name
				params = append(params, "("+v(name)+" : "+recName(structPkg[ti.named], ti.named)+")")
			} else {
				if ti.width <= 0 {
					fail("%s: unsupported receiver type", spec.Name)
				}
				if _, ok := r.Type.(*ast.StarExpr); ok {
					tr.ptrRecv = name
				}
				en.vars[name] = ti
				params = append(params, "("+v(name)+" : N)")
			}
		}
		for _, p := range decl.Type.Params.List {
			if memParam(tr, p, en, &params) { // ext_mem.go: function-typed (seam) and pointer-into-memory parameters
				continue
			}
			if acpiParam(tr, p, en, &params) { // ext_acpi.go: parameters of an opaque type (io.Writer) are dropped
				continue
			}
			if mbParam(tr, p, en, &params) { // ext_mb.go: a parameter of a callback type (config "memstructs")
				continue
			}
			ti := typeOf(p.Type, spec.Pkg)
			if cfg.Gres && tr.mon != "" {
				if at, ok := p.Type.(*ast.ArrayType); ok && at.Len == nil && typeOf(at.Elt, spec.Pkg).width == 8 {
					ti = tinfo{width: -4} // []byte parameter
				}
				if sp, ok := cfg.Seams[tr.mon]; ok && sp.Iface != "" && exprText(p.Type) == sp.Iface {
					ti = tinfo{width: -6} // a reference of the seam's interface type: "is non-nil"
				}
			}
			ti = ctorParam(p, ti) // ext_ctor.go: an unknown pointer type is an opaque reference (config "ctor")
			if ti.width == -3 || ti.width == -2 || (ti.width < -3 && !cfg.Gres) || ti.width == -5 {
				fail("%s: unsupported parameter type", spec.Name)
			}
			for _, n := range p.Names {
				if _, isPtr := p.Type.(*ast.StarExpr); isPtr && cfg.Gres {
					tr.ptrParams[n.Name] = true
				}
				en.vars[n.Name] = ti
				if ti.width < 0 {
					params = append(params, "("+v(n.Name)+" : "+coqTy(ti)+")")
				} else {
					params = append(params, "("+v(n.Name)+" : N)")
				}
			}
		}
		if decl.Type.Results != nil {
			for _, r := range decl.Type.Results.List {
				ti := typeOf(r.Type, spec.Pkg)
				if ti.width == -3 {
					fail("%s: unsupported result type", spec.Name)
				}
				cnt := len(r.Names)
				if cnt == 0 {
					cnt = 1
				}
				for i := 0; i < cnt; i++ {
					tr.results = append(tr.results, ti)
					if i < len(r.Names) {
						tr.named = append(tr.named, r.Names[i].Name)
					} else {
						tr.named = append(tr.named, "")
					}
				}
			}
		}
		namedInit := ""
		if cfg.Gres && tr.mon != "" {
			// named results are local variables holding the zero value
			for i, n := range tr.named {
				if n == "" || n == "_" {
					tr.named[i] = ""
					continue
				}
				ti := tr.results[i]
				en.vars[n] = ti
				switch {
				case ti.width > 0:
					namedInit += "let " + v(n) + " := 0 in\n  "
				case ti.width == -1:
					namedInit += "let " + v(n) + " := false in\n  "
				case ti.width == -2:
					namedInit += "let " + v(n) + " := (@None string) in\n  "
				default:
					fail("%s: unsupported named result", spec.Name)
				}
			}
			// byte-slice parameters the body stores into are returned
			as := map[string]bool{}
			assigned(decl.Body.List, as)
			for _, p := range decl.Type.Params.List {
				for _, n := range p.Names {
					if en.vars[n.Name].width == -4 && as[n.Name] {
						tr.inout = append(tr.inout, n.Name)
					}
					tr.inoutTy[n.Name] = en.vars[n.Name]
					if tr.ptrParams[n.Name] && as["*"+n.Name] {
						// a pointer parameter assigned through: it stands for the pointee, whose final value is returned
						tr.inout = append(tr.inout, n.Name)
					}
				}
			}
		}
		params = tr.gstructSetup(en, params) // ext_gstruct.go (config "gstructs"): struct variables threaded through as in/out records
		// first pass to learn which globals are touched
		probe := *tr
		probe.usedGlob = map[string]bool{}
		_ = probe.block(decl.Body.List, en, func(*env) string { return probe.ret(nil, en) })
		for g := range cfg.Globals {
			if probe.usedGlob[g] {
				tr.globals = append(tr.globals, g)
			}
		}
		body := namedInit + tr.block(decl.Body.List, en, func(e2 *env) string { return tr.ret(nil, e2) })
		var gparams []string
		for _, g := range tr.globals {
			gparams = append(gparams, "(g_"+g+" : N)")
		}
		name := coqName(spec.Pkg, spec.Recv, spec.Name)
		if tr.mon != "" {
			monResults[name] = tr.results
			monInout[name] = len(tr.inout) > 0
			monFuel[name] = tr.usesFuel
		}
		if tr.usesFuel {
			gparams = append([]string{"(fuel : nat)"}, gparams...)
		}
		var svs []string
		for sv := range tr.seamUsed {
			svs = append(svs, sv)
		}
		sort.Strings(svs)
		var extras []extraParam
		for _, sv := range svs {
			params = append(params, "("+sv+" : N)")
			extras = append(extras, extraParam{name: sv, kind: "seam", width: tr.seamUsed[sv]})
		}
		var evs []string
		for ev := range tr.extUsed {
			evs = append(evs, ev)
		}
		sort.Strings(evs)
		for _, ev := range evs {
			if tr.extUsed[ev] == -4 {
				params = append(params, "("+ev+" : list N)")
			} else if tr.extUsed[ev] == -20 {
				params = append(params, "("+ev+" : N -> N -> option N)")
			} else {
				params = append(params, "("+ev+" : N)")
			}
			extras = append(extras, extraParam{name: ev, kind: "ext", width: tr.extUsed[ev]})
		}
		var ovs []string
		for ov := range tr.oracleUsed {
			ovs = append(ovs, ov)
		}
		sort.Strings(ovs)
		for _, ov := range ovs {
			params = append(params, "("+ov+" : "+tr.oracleUsed[ov]+")")
			extras = append(extras, extraParam{name: ov, kind: "oracle", ty: tr.oracleUsed[ov]})
		}
		params, extras = tr.visitorParams(params, extras) // ext_visitor.go: the item sequences of visitor calls (config "visitors")
		monExtra[name] = extras
		if len(tr.results) == 1 && len(tr.globals) == 0 && tr.ptrRecv == "" {
			resultTypes[name] = tr.results[0]
		} else {
			resultTypes[name] = tinfo{width: -3}
		}
		if tr.ptrRecv != "" && tr.mon == "" && len(tr.results) == 0 && len(tr.globals) == 0 {
			resultTypes[name] = en.vars[tr.ptrRecv]
		}
		if cfg.Fmtx != nil {
			fmtxFlushAux() // loop bodies and join points of this function, as definitions of their own
		}
		fmt.Printf("(* %s : %s %s *)\n", spec.File, spec.Recv, spec.Name)
		fmt.Printf("Definition %s %s :=\n  %s.\n\n", name, strings.Join(append(gparams, params...), " "), body)
	}
	if len(cfg.Probes) > 0 {
		emitProbes(files, funcs) // ext_ctor.go
	}
	emitFragments(funcs) // ext_frag.go (config "fragments"): closure bodies / statement ranges of functions not translated as a whole
}
