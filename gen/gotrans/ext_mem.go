// ext_mem.go - gotrans feature "memory as state" (agent vmmtrans; config key "mem").
//
// Under config "mem" (and "gres": true), functions marked "world": true thread, next to the trace of the calls through the
// function-variable seams, a MEMORY `f_world_mem : <mem.type>` through the synthetic record `world`:
//
//   - a Go pointer to one of the integer types listed in mem.ptr (e.g. *pageTableEntry) is an ADDRESS (an N, nil = 0):
//     (*T)(unsafe.Pointer(a)) and (*T)(seamFn(a)) are `a`, uintptr(unsafe.Pointer(p)) is `p`, p == nil is `p =? 0`;
//   - `*p` LOADS the word at p, `*p = e` STORES; `p.M(args)` for a translated method M of T with a POINTER receiver
//     (SetFrame, SetFlags, ClearFlags: translated as pure functions on the entry value) is load; apply; store, for a
//     method with a VALUE receiver (HasFlags, Frame) it is load; apply.  Loads and stores are the operations named in
//     mem.ops.<class>.{load,store} : mem -> N -> option N  /  mem -> N -> N -> option mem  of a hand-written Coq module
//     (mem.require); None (the access cannot be resolved) is GPanic.  The class - in which address space a raw pointer of
//     the function is dereferenced (e.g. "virt": through the active page tables; "phys": the identity window) - is a
//     per-function attribute "memops" of the config: it is NOT derivable from the Go text and is part of what is trusted;
//   - every call through a function variable / package function listed in "fnseams" is recorded on the trace as
//     GCall name [GNum arg ..] and its EFFECT ON THE MEMORY and results come from a stateful oracle
//     o_<name> : list gcall -> mem -> option (mem * results)  (None = GPanic), applied to the trace that already holds the
//     call; such a call may stand anywhere in an expression (hoisted in evaluation order), as a statement, or as the
//     right-hand side of =, := (also `_ = f(x)`); oracle result types may be named types of config "types" ("Page");
//     kernel.Memset / kernel.Memcopy are such seams (the theorem supplies the model's page-zeroing / page-copy step);
//   - a single-field struct listed in mem.unwrap ("PageDirectoryTable": "pdtFrame:Frame") used as RECEIVER of a "world"
//     function is modelled by its field: recv.f reads it, recv.f = e assigns it; for a pointer receiver that the body
//     assigns, the final value is returned after the results;
//   - mem.tables: package-level arrays of constants ("pageLevelBits": "vmm_pageLevelBits") indexed with a bounds check
//     (gidx; out of range = GPanic);
//   - var ( a = e; b T; p *T ) blocks are split into single declarations (a pointer variable starts as 0 = nil).
//
//   - mem.statevars: package-level variables that are fields of the memory type ("protectReservedZeroedPage": "FF.Vmm.Pt.prot:bool"),
//     read through the projection; with a third component ("FF.Vmm.Pt.prot:bool:FF.Vmm.Pt.set_prot") they may also be assigned
//     (`X = e`, also as a target of `X, err = seam()`): the setter is applied to the memory;
//   - mem.funcparams: a parameter of a named function type (walkFn pageTableWalker) is a seam: calls of it are recorded and
//     answered by a stateful oracle like every other seam (no Coq parameter for the function value itself);
//   - parameters and results of type *T (T in mem.ptr) are addresses;
//   - a call F(args) of another translated "world" function threads the world (hoisted; fuel, oracles handed on);
//   - mem.visitors ("walk": "<coq function>"): the STATEMENT walk(a, func(level uint8, pte *T) bool { body }) is
//       match gvisit (fun it st => body') (<coq function> a) state with .. end                      (Lib/GoVisit.v)
//     i.e. the closure body runs on the items of the sequence in order until it returns false; the state is the world
//     record plus the captured variables the closure assigns; inside the body pte is an address as everywhere else, so
//     `*pte = e`, pte.SetFrame(f), `entry = pte` are stores / copies of the address (this is why ext_visitor.go's own
//     statement form, which models a pointer item by its VALUE and forbids stores through it, is not used; its
//     closure-return machinery - cloStack / closureReturn - is).  That walk presents exactly that sequence is a separate
//     theorem about the translation of walk itself (funcparams).
//   - a string literal passed to a seam (a format string of kfmt.Printf) is GBytes of its bytes; `panic` may be listed as a
//     (noreturn) seam so that the state and trace at the panic stay visible;
//   - mem.noreturn: a seam that never returns (nonRecoverablePageFault panics): the call is recorded and the function ends
//     there, as after a return - the final world then shows the state at the moment of the panic and, as its most recent
//     event, the call with its arguments (mem.errarg encodes an error-typed argument as a garg);
//   - mem.visitorvars ("visitElfSectionsFn": "sections"): `var visitor = func(_ string, a T1, b T2, ..) { body }` followed by the
//     statement visitElfSectionsFn(<expression mentioning visitor>) is  gvisit (fun it st => body') sections state  where
//     `sections : list (N * ..)` is an extra parameter of the translated function (one component per closure parameter
//     that is not named _); the closure has NO result: falling off its end and `return` both mean "next item"; a `return`
//     inside a for loop inside the closure leaves the loop and the closure (GRet);
//   - mem.bytes (kernel/mem_util.go): `w := *(*[]byte)(unsafe.Pointer(&reflect.SliceHeader{Len: int(n), Cap: int(n), Data: a}))`
//     DEFINES a view: w is the window [a, a+n) of the byte memory (gwoverlay, Lib/GoBytes.v: None = GPanic when int(n) is
//     negative, i.e. n >= 2^63 - the real code then has a slice of negative length); `w[i] = e` is a bounds-checked store into
//     the memory (gwset), `w[i:]` / `w[:i]` are sub-windows (bounds-checked against the length = capacity: gwfrom / gwto),
//     `copy(d, s)` of two windows is the memory operation mem.bytes.copy (Go's memmove of the shorter length) on their
//     start addresses and lengths; `x *= e` on a local integer wraps at its width;
//
// Everything here is guarded by memOn(): the output for configs without "mem" is unchanged.
package main

import (
	"encoding/json"
	"fmt"
	"go/ast"
	"go/parser"
	"go/token"
	"path/filepath"
	"sort"
	"strconv"
	"strings"
)

type memOpsSpec struct {
	Load  string `json:"load"`
	Store string `json:"store"`
}

type memSpec struct {
	Type    string                `json:"type"`    // Coq type of the memory
	Ops     map[string]memOpsSpec `json:"ops"`     // class -> load / store operations
	Ptr     []string              `json:"ptr"`     // integer types T such that *T is an address into the memory
	Unwrap  map[string]string     `json:"unwrap"`  // single-field struct type -> "field:Type"
	Tables  map[string]string     `json:"tables"`  // package-level constant array -> Coq list
	Require []string              `json:"require"` // Coq modules (below FF) declaring the type and the operations
	// StateVars: package-level variables that live in the memory type: Go name -> "coqProjection:type" (type = bool or a
	// named type of config "types"); only read
	StateVars map[string]string `json:"statevars"`
	// FuncParams: named function types (pageTableWalker): a parameter of such a type is a seam (its name must be in "fnseams")
	FuncParams []string `json:"funcparams"`
	// Visitors: function -> Coq function giving the sequence of items (level, entry address) it presents to the closure
	Visitors map[string]string `json:"visitors"`
	// NoReturn: seams that never return (they panic): the call is recorded and the activation of the translated function
	// ENDS there (as after `return`), so that the state at the moment of the panic and the event naming it are the result
	NoReturn []string `json:"noreturn"`
	// ErrArg: Coq function option string -> garg encoding an error value passed to a seam
	ErrArg string `json:"errarg"`
	// Bytes: byte-memory mode (kernel.Memset / Memcopy): the memory type is a byte memory and a []byte OVERLAID on raw memory
	// through reflect.SliceHeader is a WINDOW (start address, length) of it; "copy" / "set" name the memory operations
	// (copy mem dstStart dstLen srcStart srcLen : memmove of the shorter length; set mem index value)
	Bytes *memBytesSpec `json:"bytes"`
	// VisitorVars: a visitor function that is handed a closure STORED IN A VARIABLE (`var visitor = func(..) {..}`, passed
	// as visitFn(<anything mentioning &visitor>)): function -> name of the extra parameter holding the sequence of items
	VisitorVars map[string]string `json:"visitorvars"`
}

type memBytesSpec struct {
	Copy string `json:"copy"`
	Set  string `json:"set"`
}

type memFnSpec struct {
	File   string `json:"file"`
	Recv   string `json:"recv"`
	Name   string `json:"name"`
	MemOps string `json:"memops"`
}

var memCfg struct {
	Mem   *memSpec    `json:"mem"`
	Funcs []memFnSpec `json:"funcs"`
}

func memLoadConfig(data []byte) {
	_ = json.Unmarshal(data, &memCfg)
}

func memOn() bool { return memCfg.Mem != nil && cfg.Gres }

// memWorldFields: the extra field of the synthetic record `world`
func memWorldFields() []sfield {
	if !memOn() {
		return nil
	}
	return []sfield{{name: "mem", width: -11}}
}

func memFieldType(f sfield, ty string) string {
	if f.width == -11 && memOn() {
		return memCfg.Mem.Type
	}
	return ty
}

// memPrintRequire: the Coq modules declaring the memory type and its operations (required, not imported)
func memPrintRequire() {
	if memOn() && len(memCfg.Mem.Require) > 0 {
		fmt.Printf("From FF Require %s.\n", strings.Join(memCfg.Mem.Require, " "))
	}
}

func memClasses() []string {
	var cs []string
	for c := range memCfg.Mem.Ops {
		cs = append(cs, c)
	}
	sort.Strings(cs)
	return cs
}

// memPrintHelpers: load / store / seam-call on the world record (printed after its setters)
func memPrintHelpers(st, rn string) {
	if !memOn() || st != "world" {
		return
	}
	m := memCfg.Mem
	fmt.Printf("(* a call through a seam: recorded on the trace; its effect on the memory and its results come from the oracle *)\n")
	fmt.Printf("Definition %s_seam {R : Type} (w : %s) (c : gcall) (o : list gcall -> %s -> option (%s * R)) : option (%s * R) :=\n", rn, rn, m.Type, m.Type, rn)
	fmt.Printf("  let w1 := set_f_world_trace w (c :: f_world_trace w) in\n")
	fmt.Printf("  match o (f_world_trace w1) (f_world_mem w1) with None => None | Some (m, r) => Some (set_f_world_mem w1 m, r) end.\n")
	for _, c := range memClasses() {
		ops := m.Ops[c]
		fmt.Printf("(* dereference of a raw pointer, class %q *)\n", c)
		fmt.Printf("Definition %s_load_%s (w : %s) (a : N) : option N := %s (f_world_mem w) a.\n", rn, c, rn, ops.Load)
		fmt.Printf("Definition %s_store_%s (w : %s) (a x : N) : option %s :=\n", rn, c, rn, rn)
		fmt.Printf("  match %s (f_world_mem w) a x with None => None | Some m => Some (set_f_world_mem w m) end.\n", ops.Store)
	}
	fmt.Println()
}

func (tr *translator) memClass() string {
	for _, f := range memCfg.Funcs {
		if f.File == tr.fn.File && f.Recv == tr.fn.Recv && f.Name == tr.fn.Name && f.MemOps != "" {
			if _, ok := memCfg.Mem.Ops[f.MemOps]; !ok {
				fail("%s: unknown memops class %s", tr.fn.Name, f.MemOps)
			}
			return f.MemOps
		}
	}
	cs := memClasses()
	if len(cs) == 1 {
		return cs[0]
	}
	fail("%s: dereferences a raw pointer but has no \"memops\" class in the config", tr.fn.Name)
	return ""
}

func (tr *translator) worldRec() string { return recName(structPkg["world"], "world") }

func memIsPtrType(name string) bool {
	for _, p := range memCfg.Mem.Ptr {
		if p == name {
			return true
		}
	}
	return false
}

func memPtrT(pointee string) tinfo { return tinfo{width: 64, named: "*" + pointee} }

// memPtrTypeExpr: *T for a T of mem.ptr
func memPtrTypeExpr(e ast.Expr) (string, bool) {
	if st, ok := e.(*ast.StarExpr); ok {
		if id, ok := st.X.(*ast.Ident); ok && memIsPtrType(id.Name) {
			return id.Name, true
		}
	}
	return "", false
}

// memPtrVar: an identifier bound to a pointer into the memory
func memPtrVar(e ast.Expr, en *env) (string, string, bool) {
	for {
		p, ok := e.(*ast.ParenExpr)
		if !ok {
			break
		}
		e = p.X
	}
	if id, ok := e.(*ast.Ident); ok {
		if ti, ok := en.vars[id.Name]; ok && strings.HasPrefix(ti.named, "*") {
			return id.Name, ti.named[1:], true
		}
	}
	return "", "", false
}

func memUnwrapInfo(structName string) (string, tinfo) {
	s := memCfg.Mem.Unwrap[structName]
	parts := strings.Split(s, ":")
	if len(parts) != 2 {
		fail("mem.unwrap of %s must be \"field:Type\"", structName)
	}
	w, ok := cfg.Types[parts[1]]
	if !ok {
		fail("mem.unwrap of %s: type %s is not in config types", structName, parts[1])
	}
	return parts[0], tinfo{width: w, named: parts[1]}
}

// memRecv: a "world" function WITH a receiver of a single-field struct type (mem.unwrap)
func memRecv(tr *translator, decl *ast.FuncDecl, en *env, params *[]string) bool {
	if !memOn() || !tr.fn.World {
		return false
	}
	r := decl.Recv.List[0]
	t := r.Type
	isPtr := false
	if st, ok := t.(*ast.StarExpr); ok {
		t = st.X
		isPtr = true
	}
	id, ok := t.(*ast.Ident)
	if !ok {
		return false
	}
	if _, ok := memCfg.Mem.Unwrap[id.Name]; !ok {
		fail("%s: receiver type %s of a world function is not in mem.unwrap", tr.fn.Name, id.Name)
	}
	if len(r.Names) != 1 {
		fail("%s: unnamed receiver", tr.fn.Name)
	}
	name := r.Names[0].Name
	field, _ := memUnwrapInfo(id.Name)
	tr.mon = "world"
	tr.ptrRecv = "world"
	*params = append(*params, "("+v("world")+" : "+recName(structPkg["world"], "world")+")", "("+v(name)+" : N)")
	en.vars[name] = tinfo{width: 64, named: "struct:" + id.Name}
	assignedField := false
	ast.Inspect(decl.Body, func(n ast.Node) bool {
		if as, ok := n.(*ast.AssignStmt); ok {
			for _, l := range as.Lhs {
				if sel, ok := l.(*ast.SelectorExpr); ok {
					if x, ok := sel.X.(*ast.Ident); ok && x.Name == name && sel.Sel.Name == field {
						assignedField = true
					}
				}
			}
		}
		return true
	})
	if assignedField {
		if !isPtr {
			fail("%s: assignment to a field of a value receiver", tr.fn.Name)
		}
		tr.ptrParams[name] = true
		tr.inout = append(tr.inout, name)
		tr.inoutTy[name] = tinfo{width: 64}
	}
	return true
}

func (tr *translator) memSeam(c *ast.CallExpr, en *env) (string, seamMethod, bool) {
	switch f := c.Fun.(type) {
	case *ast.Ident:
		if m, ok := cfg.FnSeams[f.Name]; ok {
			if _, shadowed := en.vars[f.Name]; !shadowed {
				return f.Name, m, true
			}
		}
	case *ast.SelectorExpr:
		if m, ok := cfg.FnSeams[exprText(f)]; ok {
			return exprText(f), m, true
		}
	}
	return "", seamMethod{}, false
}

func memOracleTy(t string) tinfo {
	if t == "bool" {
		return tinfo{width: -1}
	}
	if w, ok := cfg.Types[t]; ok {
		return tinfo{width: w, named: t}
	}
	return oracleTy(t)
}

// memSeamHoist: the call is recorded, the oracle applied; the results are bound to fresh variables (Go names returned)
func (tr *translator) memSeamHoist(c *ast.CallExpr, name string, m seamMethod, en *env) ([]string, []tinfo) {
	if tr.noHoist > 0 {
		fail("%s: call of %s under && or ||", tr.fn.Name, name)
	}
	if !m.Record {
		fail("%s: seam %s must be recorded in memory mode", tr.fn.Name, name)
	}
	lst := "nil"
	var args []string
	for _, a := range c.Args {
		if bl, isLit := a.(*ast.BasicLit); isLit && bl.Kind == token.STRING {
			// a string literal handed to a seam (a format string): its bytes
			str, err := strconv.Unquote(bl.Value)
			if err != nil {
				fail("%s: bad string literal %s", tr.fn.Name, bl.Value)
			}
			lit := "nil"
			for i := len(str) - 1; i >= 0; i-- {
				lit = fmt.Sprintf("%d :: %s", str[i], lit)
			}
			args = append(args, "(GBytes ("+lit+"))")
			continue
		}
		as, at := tr.expr(a, en)
		if at.width == -2 && memCfg.Mem.ErrArg != "" {
			args = append(args, "("+memCfg.Mem.ErrArg+" "+as+")")
			continue
		}
		if at.width < 0 {
			fail("%s: unsupported argument type in the call of %s", tr.fn.Name, name)
		}
		args = append(args, "(GNum "+as+")")
	}
	for i := len(args) - 1; i >= 0; i-- {
		lst = args[i] + " :: " + lst
	}
	tr.nloop++
	var names, pats, tys []string
	var tis []tinfo
	for i, o := range m.Oracle {
		ov := fmt.Sprintf("or%d_%d", tr.nloop, i)
		ti := memOracleTy(o)
		names = append(names, ov)
		pats = append(pats, v(ov))
		tys = append(tys, coqTy(ti))
		tis = append(tis, ti)
	}
	oname := "o_" + strings.ReplaceAll(name, ".", "_")
	mt := memCfg.Mem.Type
	tr.oracleUsed[oname] = "list gcall -> " + mt + " -> option (" + mt + " * " + prodOf(tys) + ")"
	w := v(tr.ptrRecv)
	tr.pre = append(tr.pre, fmt.Sprintf("match %s_seam %s (GCall %q%%string (%s)) %s with None => GPanic | Some (%s, %s) =>",
		tr.worldRec(), w, name, lst, oname, w, tupleOf(pats, "_")))
	return names, tis
}

func (tr *translator) memLoad(addr string) string {
	tmp := tr.tmp()
	tr.pre = append(tr.pre, fmt.Sprintf("match %s_load_%s %s %s with None => GPanic | Some %s =>", tr.worldRec(), tr.memClass(), v(tr.ptrRecv), addr, tmp))
	return tmp
}

func (tr *translator) memStore(addr, val string) {
	tr.pre = append(tr.pre, fmt.Sprintf("match %s_store_%s %s %s %s with None => GPanic | Some %s =>", tr.worldRec(), tr.memClass(), v(tr.ptrRecv), addr, val, v(tr.ptrRecv)))
}

var memParsed = map[string]*ast.File{}

// memPtrRecvMethod: is the translated method declared with a pointer receiver? (read from the source)
func memPtrRecvMethod(spec fnSpec) bool {
	path := filepath.Join(cfg.Repo, spec.File)
	file := memParsed[path]
	if file == nil {
		var err error
		file, err = parser.ParseFile(token.NewFileSet(), path, nil, 0)
		if err != nil {
			fail("%v", err)
		}
		memParsed[path] = file
	}
	for _, d := range file.Decls {
		fd, ok := d.(*ast.FuncDecl)
		if !ok || fd.Name.Name != spec.Name || fd.Recv == nil || len(fd.Recv.List) != 1 {
			continue
		}
		t := fd.Recv.List[0].Type
		isPtr := false
		if st, ok := t.(*ast.StarExpr); ok {
			t = st.X
			isPtr = true
		}
		if id, ok := t.(*ast.Ident); ok && id.Name == spec.Recv {
			return isPtr
		}
	}
	fail("method %s.%s not found in %s", spec.Recv, spec.Name, spec.File)
	return false
}

// memMethodOnPtr: p.M(args) for a pointer variable p and a translated method M of its pointee type
func (tr *translator) memMethodOnPtr(c *ast.CallExpr, en *env) (p string, spec fnSpec, ok bool) {
	sel, isSel := c.Fun.(*ast.SelectorExpr)
	if !isSel {
		return
	}
	name, pointee, isPtr := memPtrVar(sel.X, en)
	if !isPtr {
		return
	}
	spec, ok = tr.funcs[pointee+"."+sel.Sel.Name]
	if !ok {
		fail("%s: method %s of %s is not translated (list it in the config)", tr.fn.Name, sel.Sel.Name, pointee)
	}
	return name, spec, true
}

// memExpr: the expression forms of the memory mode (called first by expr)
func (tr *translator) memExpr(e ast.Expr, en *env) (string, tinfo, bool) {
	if !memOn() || tr.mon != "world" {
		return "", tinfo{}, false
	}
	switch t := e.(type) {
	case *ast.Ident:
		// a package-level variable that is a field of the memory type
		if _, isVar := en.vars[t.Name]; !isVar {
			if sv, ok := memCfg.Mem.StateVars[t.Name]; ok {
				parts := strings.Split(sv, ":")
				if len(parts) != 2 && len(parts) != 3 {
					fail("mem.statevars of %s must be \"projection:type[:setter]\"", t.Name)
				}
				return "(" + parts[0] + " (f_world_mem " + v(tr.ptrRecv) + "))", memOracleTy(parts[1]), true
			}
		}
	case *ast.SelectorExpr:
		// recv.f of an unwrapped single-field struct
		if id, ok := t.X.(*ast.Ident); ok {
			if ti, ok := en.vars[id.Name]; ok && strings.HasPrefix(ti.named, "struct:") {
				field, fti := memUnwrapInfo(ti.named[len("struct:"):])
				if t.Sel.Name != field {
					fail("%s: no field %s in %s", tr.fn.Name, t.Sel.Name, ti.named)
				}
				return v(id.Name), fti, true
			}
		}
	case *ast.IndexExpr:
		// T[i] of a package-level constant array
		if id, ok := t.X.(*ast.Ident); ok {
			if _, isVar := en.vars[id.Name]; !isVar {
				if tab, ok := memCfg.Mem.Tables[id.Name]; ok {
					if tr.noHoist > 0 {
						fail("%s: index expression under && or ||", tr.fn.Name)
					}
					cn, w := splitNameWidth(tab)
					is, it := tr.expr(t.Index, en)
					if it.width < 0 || it.signed {
						fail("%s: index of %s is not an unsigned integer", tr.fn.Name, id.Name)
					}
					tmp := tr.tmp()
					tr.pre = append(tr.pre, fmt.Sprintf("match gidx %s %s with None => GPanic | Some %s =>", cn, is, tmp))
					return tmp, tinfo{width: w}, true
				}
			}
		}
	case *ast.StarExpr:
		if name, pointee, ok := memPtrVar(t.X, en); ok {
			if tr.noHoist > 0 {
				fail("%s: memory load under && or ||", tr.fn.Name)
			}
			return tr.memLoad(v(name)), tinfo{width: cfg.Types[pointee], named: pointee}, true
		}
	case *ast.BinaryExpr:
		if t.Op == token.EQL || t.Op == token.NEQ {
			var other ast.Expr
			if id, ok := t.Y.(*ast.Ident); ok && id.Name == "nil" {
				other = t.X
			} else if id, ok := t.X.(*ast.Ident); ok && id.Name == "nil" {
				other = t.Y
			}
			if other != nil {
				if name, _, ok := memPtrVar(other, en); ok {
					if t.Op == token.EQL {
						return "(" + v(name) + " =? 0)", tinfo{width: -1}, true
					}
					return "(negb (" + v(name) + " =? 0))", tinfo{width: -1}, true
				}
			}
		}
	case *ast.CallExpr:
		// (*T)(unsafe.Pointer(a)) / (*T)(f(a)) : the address
		if par, ok := t.Fun.(*ast.ParenExpr); ok && len(t.Args) == 1 {
			if pointee, ok := memPtrTypeExpr(par.X); ok {
				arg := t.Args[0]
				if c, ok := arg.(*ast.CallExpr); ok && exprText(c.Fun) == "unsafe.Pointer" && len(c.Args) == 1 {
					arg = c.Args[0]
				}
				as, at := tr.expr(arg, en)
				if at.width != 64 {
					fail("%s: a pointer is made from something that is not an address", tr.fn.Name)
				}
				return as, memPtrT(pointee), true
			}
		}
		// uintptr(unsafe.Pointer(p))
		if id, ok := t.Fun.(*ast.Ident); ok && id.Name == "uintptr" && len(t.Args) == 1 {
			if c, ok := t.Args[0].(*ast.CallExpr); ok && exprText(c.Fun) == "unsafe.Pointer" && len(c.Args) == 1 {
				if name, _, ok := memPtrVar(c.Args[0], en); ok {
					return v(name), tinfo{width: 64}, true
				}
			}
		}
		// a call through a seam inside an expression
		if name, m, ok := tr.memSeam(t, en); ok {
			names, tis := tr.memSeamHoist(t, name, m, en)
			if len(names) == 1 {
				return v(names[0]), tis[0], true
			}
			return "MULTI", tinfo{width: -3}, true
		}
		// a call of another translated world function
		if spec, ok := tr.memWorldCallee(t, en); ok {
			names, tis := tr.memWorldCall(t, spec, en)
			if len(names) == 1 {
				return v(names[0]), tis[0], true
			}
			return "MULTI", tinfo{width: -3}, true
		}
		// p.M(args) with a value-receiver method of the pointee: load; apply
		if p, spec, ok := tr.memMethodOnPtr(t, en); ok {
			if memPtrRecvMethod(spec) {
				fail("%s: %s (pointer receiver) used as an expression", tr.fn.Name, spec.Name)
			}
			if tr.noHoist > 0 {
				fail("%s: memory load under && or ||", tr.fn.Name)
			}
			var args []string
			for _, a := range t.Args {
				as, _ := tr.expr(a, en)
				args = append(args, as)
			}
			tmp := tr.memLoad(v(p))
			cn := coqName(spec.Pkg, spec.Recv, spec.Name)
			return "(" + cn + " " + strings.Join(append([]string{tmp}, args...), " ") + ")", resultTypes[cn], true
		}
	}
	return "", tinfo{}, false
}

// memStmt: the statement forms of the memory mode (called first by block)
func (tr *translator) memStmt(stmts []ast.Stmt, en *env, k func(*env) string, rest func(*env) string) (string, bool) {
	if !memOn() || tr.mon != "world" {
		return "", false
	}
	if out, ok := tr.memBytesStmt(stmts, en, rest); ok {
		return out, true
	}
	switch s := stmts[0].(type) {
	case *ast.ReturnStmt:
		if out, ok := tr.memVoidReturn(s); ok {
			return out, true
		}
	case *ast.DeclStmt:
		gd, ok := s.Decl.(*ast.GenDecl)
		if !ok || gd.Tok != token.VAR {
			return "", false
		}
		if len(gd.Specs) == 1 {
			if vs0 := gd.Specs[0].(*ast.ValueSpec); len(vs0.Names) == 1 && len(vs0.Values) == 1 {
				if fl, isLit := vs0.Values[0].(*ast.FuncLit); isLit && len(memCfg.Mem.VisitorVars) > 0 {
					// var visitor = func(..) {..} : remembered until it is handed to its visitor function
					memClosureVars[tr.memClosureKey(vs0.Names[0].Name)] = fl
					return rest(en), true
				}
			}
		}
		total := 0
		for _, sp := range gd.Specs {
			total += len(sp.(*ast.ValueSpec).Names)
		}
		if total > 1 {
			var seq []ast.Stmt
			for _, sp := range gd.Specs {
				vs := sp.(*ast.ValueSpec)
				for i, n := range vs.Names {
					if i < len(vs.Values) {
						var val ast.Expr = vs.Values[i]
						if vs.Type != nil {
							val = &ast.CallExpr{Fun: vs.Type, Args: []ast.Expr{val}}
						}
						seq = append(seq, &ast.AssignStmt{Lhs: []ast.Expr{n}, Tok: token.DEFINE, Rhs: []ast.Expr{val}})
					} else {
						seq = append(seq, &ast.DeclStmt{Decl: &ast.GenDecl{Tok: token.VAR, Specs: []ast.Spec{&ast.ValueSpec{Names: []*ast.Ident{n}, Type: vs.Type}}}})
					}
				}
			}
			return tr.block(append(seq, stmts[1:]...), en, k), true
		}
		vs := gd.Specs[0].(*ast.ValueSpec)
		if len(vs.Values) == 0 && vs.Type != nil {
			if pointee, ok := memPtrTypeExpr(vs.Type); ok {
				n := vs.Names[0].Name
				if _, dup := en.vars[n]; dup {
					fail("%s: var %s shadows a variable of an enclosing scope", tr.fn.Name, n)
				}
				en2 := en.clone()
				en2.vars[n] = memPtrT(pointee)
				return "let " + v(n) + " := 0 in\n  " + rest(en2), true
			}
		}
		if len(vs.Values) == 0 && vs.Type != nil && typeOf(vs.Type, tr.pkg).width == -2 {
			// var err *kernel.Error : nil, with its type (the generic `None` is not always inferable)
			n := vs.Names[0].Name
			if _, dup := en.vars[n]; dup {
				fail("%s: var %s shadows a variable of an enclosing scope", tr.fn.Name, n)
			}
			en2 := en.clone()
			en2.vars[n] = tinfo{width: -2}
			return "let " + v(n) + " := (@None string) in\n  " + rest(en2), true
		}
		if len(vs.Values) == 1 {
			var val ast.Expr = vs.Values[0]
			if vs.Type != nil {
				val = &ast.CallExpr{Fun: vs.Type, Args: []ast.Expr{val}}
			}
			return tr.block(append([]ast.Stmt{&ast.AssignStmt{Lhs: []ast.Expr{vs.Names[0]}, Tok: token.DEFINE, Rhs: []ast.Expr{val}}}, stmts[1:]...), en, k), true
		}
	case *ast.AssignStmt:
		// a, b := seam(args) / a = seam(args) / _ = seam(args)
		if len(s.Rhs) == 1 && (s.Tok == token.ASSIGN || s.Tok == token.DEFINE) {
			if c, ok := s.Rhs[0].(*ast.CallExpr); ok {
				if name, m, ok := tr.memSeam(c, en); ok {
					names, tis := tr.memSeamHoist(c, name, m, en)
					if len(names) != len(s.Lhs) {
						fail("%s: %s returns %d values in the config", tr.fn.Name, name, len(names))
					}
					pre := tr.takePre()
					en2 := en.clone()
					var seq []ast.Stmt
					for i, l := range s.Lhs {
						en2.vars[names[i]] = tis[i]
						if id, ok := l.(*ast.Ident); ok && id.Name == "_" {
							continue
						}
						seq = append(seq, &ast.AssignStmt{Lhs: []ast.Expr{l}, Tok: s.Tok, Rhs: []ast.Expr{ast.NewIdent(names[i])}})
					}
					return tr.wrapPre(pre, tr.block(append(seq, stmts[1:]...), en2, k)), true
				}
			}
		}
		// a, b := F(args) for a translated world function
		if len(s.Rhs) == 1 && (s.Tok == token.ASSIGN || s.Tok == token.DEFINE) {
			if c, ok := s.Rhs[0].(*ast.CallExpr); ok {
				if spec, ok := tr.memWorldCallee(c, en); ok {
					names, tis := tr.memWorldCall(c, spec, en)
					if len(names) != len(s.Lhs) {
						fail("%s: %s returns %d values", tr.fn.Name, spec.Name, len(names))
					}
					pre := tr.takePre()
					en2 := en.clone()
					var seq []ast.Stmt
					for i, l := range s.Lhs {
						en2.vars[names[i]] = tis[i]
						if id, ok := l.(*ast.Ident); ok && id.Name == "_" {
							continue
						}
						seq = append(seq, &ast.AssignStmt{Lhs: []ast.Expr{l}, Tok: s.Tok, Rhs: []ast.Expr{ast.NewIdent(names[i])}})
					}
					return tr.wrapPre(pre, tr.block(append(seq, stmts[1:]...), en2, k)), true
				}
			}
		}
		if len(s.Lhs) == 1 && len(s.Rhs) == 1 && s.Tok == token.ASSIGN {
			// *p = e : a store
			if st, ok := s.Lhs[0].(*ast.StarExpr); ok {
				if name, pointee, ok := memPtrVar(st.X, en); ok {
					rhs, rt := tr.expr(s.Rhs[0], en)
					val := rhs
					if rt.width == 0 {
						val = tr.wrap(cfg.Types[pointee], rhs)
					} else if rt.width < 0 {
						fail("%s: store of a non-integer", tr.fn.Name)
					}
					tr.memStore(v(name), val)
					pre := tr.takePre()
					return tr.wrapPre(pre, rest(en)), true
				}
			}
			// recv.f = e for an unwrapped receiver
			if sel, ok := s.Lhs[0].(*ast.SelectorExpr); ok {
				if id, ok := sel.X.(*ast.Ident); ok {
					if ti, ok := en.vars[id.Name]; ok && strings.HasPrefix(ti.named, "struct:") {
						field, fti := memUnwrapInfo(ti.named[len("struct:"):])
						if sel.Sel.Name != field {
							fail("%s: no field %s in %s", tr.fn.Name, sel.Sel.Name, ti.named)
						}
						rhs, rt := tr.expr(s.Rhs[0], en)
						val := rhs
						if rt.width == 0 {
							val = tr.wrap(fti.width, rhs)
						}
						pre := tr.takePre()
						return tr.wrapPre(pre, "let "+v(id.Name)+" := "+val+" in\n  "+rest(en)), true
					}
				}
			}
			// X = e for a package-level variable that is a field of the memory type (with a setter)
			if id, ok := s.Lhs[0].(*ast.Ident); ok {
				if _, isVar := en.vars[id.Name]; !isVar {
					if sv, ok := memCfg.Mem.StateVars[id.Name]; ok {
						parts := strings.Split(sv, ":")
						if len(parts) != 3 {
							fail("%s: assignment to state variable %s, which has no setter in mem.statevars", tr.fn.Name, id.Name)
						}
						rhs, rt := tr.expr(s.Rhs[0], en)
						ti := memOracleTy(parts[1])
						val := rhs
						if rt.width == 0 && ti.width > 0 {
							val = tr.wrap(ti.width, rhs)
						}
						pre := tr.takePre()
						w := v(tr.ptrRecv)
						return tr.wrapPre(pre, "let "+w+" := (set_f_world_mem "+w+" ("+parts[2]+" (f_world_mem "+w+") "+val+")) in\n  "+rest(en)), true
					}
				}
			}
			// p = nil
			if name, _, ok := memPtrVar(s.Lhs[0], en); ok {
				if id, ok := s.Rhs[0].(*ast.Ident); ok && id.Name == "nil" {
					return "let " + v(name) + " := 0 in\n  " + rest(en), true
				}
			}
		}
	case *ast.ExprStmt:
		c, ok := s.X.(*ast.CallExpr)
		if !ok {
			return "", false
		}
		if out, ok := tr.memVisitor(c, en, rest); ok {
			return out, true
		}
		if out, ok := tr.memVisitorVar(c, en, rest); ok {
			return out, true
		}
		if name, m, ok := tr.memSeam(c, en); ok {
			tr.memSeamHoist(c, name, m, en)
			pre := tr.takePre()
			for _, nr := range memCfg.Mem.NoReturn {
				if nr == name {
					if len(tr.results) > 0 {
						fail("%s: a noreturn seam in a function with results", tr.fn.Name)
					}
					return tr.wrapPre(pre, tr.ret(nil, en)), true
				}
			}
			return tr.wrapPre(pre, rest(en)), true
		}
		if spec, ok := tr.memWorldCallee(c, en); ok {
			tr.memWorldCall(c, spec, en)
			pre := tr.takePre()
			return tr.wrapPre(pre, rest(en)), true
		}
		if p, spec, ok := tr.memMethodOnPtr(c, en); ok {
			if !memPtrRecvMethod(spec) {
				fail("%s: result of %s is discarded", tr.fn.Name, spec.Name)
			}
			var args []string
			for _, a := range c.Args {
				as, _ := tr.expr(a, en)
				args = append(args, as)
			}
			tmp := tr.memLoad(v(p))
			cn := coqName(spec.Pkg, spec.Recv, spec.Name)
			tr.memStore(v(p), "("+cn+" "+strings.Join(append([]string{tmp}, args...), " ")+")")
			pre := tr.takePre()
			return tr.wrapPre(pre, rest(en)), true
		}
	}
	return "", false
}

// ---- parameters ----

func memIsFuncParamType(e ast.Expr) bool {
	if id, ok := e.(*ast.Ident); ok {
		for _, f := range memCfg.Mem.FuncParams {
			if f == id.Name {
				return true
			}
		}
	}
	return false
}

// memParam: parameters of a function type (a seam) and of type *T (an address); true = handled
func memParam(tr *translator, p *ast.Field, en *env, params *[]string) bool {
	if !memOn() || tr.mon != "world" {
		return false
	}
	if memIsFuncParamType(p.Type) {
		for _, n := range p.Names {
			if _, ok := cfg.FnSeams[n.Name]; !ok {
				fail("%s: function parameter %s is not described in fnseams", tr.fn.Name, n.Name)
			}
		}
		return true
	}
	if pointee, ok := memPtrTypeExpr(p.Type); ok {
		for _, n := range p.Names {
			en.vars[n.Name] = memPtrT(pointee)
			*params = append(*params, "("+v(n.Name)+" : N)")
		}
		return true
	}
	return false
}

// ---- calls of translated world functions ----

func memFindDecl(spec fnSpec) *ast.FuncDecl {
	path := filepath.Join(cfg.Repo, spec.File)
	file := memParsed[path]
	if file == nil {
		var err error
		file, err = parser.ParseFile(token.NewFileSet(), path, nil, 0)
		if err != nil {
			fail("%v", err)
		}
		memParsed[path] = file
	}
	for _, d := range file.Decls {
		fd, ok := d.(*ast.FuncDecl)
		if !ok || fd.Name.Name != spec.Name || fd.Body == nil {
			continue
		}
		recv := ""
		if fd.Recv != nil && len(fd.Recv.List) == 1 {
			t := fd.Recv.List[0].Type
			if st, ok := t.(*ast.StarExpr); ok {
				t = st.X
			}
			if id, ok := t.(*ast.Ident); ok {
				recv = id.Name
			}
		}
		if recv == spec.Recv {
			return fd
		}
	}
	fail("function %s.%s not found in %s", spec.Recv, spec.Name, spec.File)
	return nil
}

// memResultTypes: the result types of a translated function, pointers into the memory as such
func memResultTypes(spec fnSpec) []tinfo {
	fd := memFindDecl(spec)
	var out []tinfo
	if fd.Type.Results == nil {
		return nil
	}
	for _, r := range fd.Type.Results.List {
		var ti tinfo
		if pointee, ok := memPtrTypeExpr(r.Type); ok {
			ti = memPtrT(pointee)
		} else {
			ti = typeOf(r.Type, spec.Pkg)
		}
		n := len(r.Names)
		if n == 0 {
			n = 1
		}
		for i := 0; i < n; i++ {
			out = append(out, ti)
		}
	}
	return out
}

// memWorldCallee: F(args) / pkg.F(args) for a translated receiver-less "world" function
func (tr *translator) memWorldCallee(c *ast.CallExpr, en *env) (fnSpec, bool) {
	var spec fnSpec
	found := false
	switch f := c.Fun.(type) {
	case *ast.Ident:
		if _, isVar := en.vars[f.Name]; !isVar {
			if s, ok := tr.funcs[f.Name]; ok && s.Pkg == tr.pkg {
				spec, found = s, true
			}
		}
	case *ast.SelectorExpr:
		if pid, ok := f.X.(*ast.Ident); ok {
			if _, isVar := en.vars[pid.Name]; !isVar {
				if s, ok := tr.funcs[exprText(f)]; ok {
					spec, found = s, true
				}
			}
		}
	}
	if !found || !spec.World || spec.Recv != "" {
		return fnSpec{}, false
	}
	return spec, true
}

// memWorldCall: the hoisted call; the results are bound to fresh variables (Go names returned)
func (tr *translator) memWorldCall(c *ast.CallExpr, spec fnSpec, en *env) ([]string, []tinfo) {
	if tr.noHoist > 0 {
		fail("%s: call of %s under && or ||", tr.fn.Name, spec.Name)
	}
	name := coqName(spec.Pkg, spec.Recv, spec.Name)
	if _, done := monResults[name]; !done {
		fail("%s: %s must be translated before its caller (order of config funcs)", tr.fn.Name, spec.Name)
	}
	if monInout[name] {
		fail("%s: call of %s, which returns parameters", tr.fn.Name, spec.Name)
	}
	var args []string
	for _, a := range c.Args {
		as, at := tr.expr(a, en)
		if at.width == 0 {
			as = tr.wrap(64, as)
		}
		args = append(args, as)
	}
	for _, xp := range monExtra[name] {
		args = append(args, xp.name)
		switch xp.kind {
		case "seam":
			tr.seamUsed[xp.name] = xp.width
		case "ext":
			tr.extUsed[xp.name] = xp.width
		case "oracle":
			tr.oracleUsed[xp.name] = xp.ty
		case "visitor":
			tr.visitorUse(xp)
		}
	}
	callee := name
	if monFuel[name] {
		callee += " fuel"
		tr.usesFuel = true
	}
	tis := memResultTypes(spec)
	tr.nloop++
	var names, pats []string
	for i := range tis {
		n := fmt.Sprintf("wr%d_%d", tr.nloop, i)
		names = append(names, n)
		pats = append(pats, v(n))
	}
	w := v(tr.ptrRecv)
	tr.pre = append(tr.pre, fmt.Sprintf("match %s %s with GPanic => GPanic | GFuel => GFuel | GOk (%s, %s) =>",
		callee, strings.Join(append([]string{w}, args...), " "), w, tupleOf(pats, "_")))
	return names, tis
}

// ---- the closure passed to walk ----

func (tr *translator) memVisitor(c *ast.CallExpr, en *env, rest func(*env) string) (string, bool) {
	items, ok := memCfg.Mem.Visitors[exprText(c.Fun)]
	if !ok || exprText(c.Fun) == "" {
		return "", false
	}
	if id, isId := c.Fun.(*ast.Ident); isId {
		if _, shadowed := en.vars[id.Name]; shadowed {
			return "", false
		}
	}
	var lit *ast.FuncLit
	seq := items
	for _, a := range c.Args {
		if fl, is := a.(*ast.FuncLit); is {
			if lit != nil {
				fail("%s: two function literals in a visitor call", tr.fn.Name)
			}
			lit = fl
			continue
		}
		as, at := tr.expr(a, en)
		if at.width < 0 {
			fail("%s: a non-integer argument of a visitor call", tr.fn.Name)
		}
		if at.width == 0 {
			as = tr.wrap(64, as)
		}
		seq += " " + as
	}
	if lit == nil {
		fail("%s: %s is not called with a function literal", tr.fn.Name, exprText(c.Fun))
	}
	if lit.Type.Results == nil || len(lit.Type.Results.List) != 1 || len(lit.Type.Results.List[0].Names) != 0 ||
		typeOf(lit.Type.Results.List[0].Type, tr.pkg).width != -1 {
		fail("%s: the closure passed to %s must have one unnamed result of type bool", tr.fn.Name, exprText(c.Fun))
	}
	pre := tr.takePre()
	en2 := en.clone()
	var pnames, ptys []string
	for _, p := range lit.Type.Params.List {
		var ti tinfo
		if pointee, ok := memPtrTypeExpr(p.Type); ok {
			ti = memPtrT(pointee)
		} else {
			ti = typeOf(p.Type, tr.pkg)
			if ti.width <= 0 {
				fail("%s: unsupported parameter type of the closure", tr.fn.Name)
			}
		}
		for _, n := range p.Names {
			if _, dup := en.vars[n.Name]; dup {
				fail("%s: closure parameter %s shadows a variable of the enclosing function", tr.fn.Name, n.Name)
			}
			en2.vars[n.Name] = ti
			pnames = append(pnames, v(n.Name))
			ptys = append(ptys, "N")
		}
	}
	if len(pnames) < 1 {
		fail("%s: the closure has no parameter", tr.fn.Name)
	}
	itemTy := prodOf(ptys)
	if len(ptys) > 1 {
		itemTy += "%type"
	}
	binder := "(" + pnames[0] + " : " + itemTy + ")"
	itemLet := ""
	if len(pnames) > 1 {
		binder = "(it : " + itemTy + ")"
		itemLet = "let '" + tupleOf(pnames, "") + " := it in\n  "
	}
	names := carried(en, []ast.Stmt{lit.Body})
	pat, ty := tr.statePat(names, en)
	cloStack = append(cloStack, &closureCtx{depth: tr.cx.loopDepth, pat: pat})
	body := tr.withCtx(ctx{brk: nil, cont: nil, loopDepth: tr.cx.loopDepth}, func() string {
		return tr.block(lit.Body.List, en2, func(*env) string {
			fail("%s: the closure can fall off its end", tr.fn.Name)
			return ""
		})
	})
	cloStack = cloStack[:len(cloStack)-1]
	out := "match gvisit (St := " + ty + ") (fun " + binder + " (st : " + ty + ") => " + letPat(pat) + "\n  " + itemLet + body + ") (" + seq + ") " + pat + " with\n"
	out += "  | GPanic => GPanic | GFuel => GFuel\n"
	out += "  | GOk st => " + letPat(pat) + "\n  " + rest(en) + "\n  end"
	return tr.wrapPre(pre, out), true
}

// ---- a void closure stored in a variable and handed to a visitor function (setupPDTForKernel) ----

var memClosureVars = map[string]*ast.FuncLit{} // "<function>.<variable>" -> the closure

type memVoidCtx struct {
	depth int    // loop depth at the closure
	pat   string // the closure's loop-carried state
	ty    string // its Coq type
}

var memVoidStack []*memVoidCtx

// memLoopR: the result type R of a gloop: inside a void closure a `return` leaves the closure, not the function
func memLoopR(def string) string {
	if memOn() && len(memVoidStack) > 0 {
		return "(" + memVoidStack[len(memVoidStack)-1].ty + " * bool)%type"
	}
	return def
}

func (tr *translator) memClosureKey(name string) string { return tr.fn.Recv + "." + tr.fn.Name + "." + name }

// memVoidReturn: `return` inside a void visitor closure
func (tr *translator) memVoidReturn(s *ast.ReturnStmt) (string, bool) {
	if len(memVoidStack) == 0 || len(s.Results) != 0 {
		return "", false
	}
	c := memVoidStack[len(memVoidStack)-1]
	if tr.cx.loopDepth > c.depth {
		return "(GOk (GRet (" + c.pat + ", true)))", true
	}
	return "(GOk (" + c.pat + ", true))", true
}

// memVisitorVar: visitFn(<expr mentioning the closure variable>)
func (tr *translator) memVisitorVar(c *ast.CallExpr, en *env, rest func(*env) string) (string, bool) {
	param, ok := memCfg.Mem.VisitorVars[exprText(c.Fun)]
	if !ok || exprText(c.Fun) == "" {
		return "", false
	}
	var lit *ast.FuncLit
	for _, a := range c.Args {
		ast.Inspect(a, func(n ast.Node) bool {
			if id, is := n.(*ast.Ident); is {
				if fl, found := memClosureVars[tr.memClosureKey(id.Name)]; found {
					lit = fl
				}
			}
			return true
		})
	}
	if lit == nil {
		fail("%s: %s is not called with a closure variable", tr.fn.Name, exprText(c.Fun))
	}
	if lit.Type.Results != nil && len(lit.Type.Results.List) > 0 {
		fail("%s: the closure variable passed to %s must have no result", tr.fn.Name, exprText(c.Fun))
	}
	en2 := en.clone()
	var pnames, ptys []string
	for _, p := range lit.Type.Params.List {
		for _, n := range p.Names {
			if n.Name == "_" {
				continue
			}
			ti := typeOf(p.Type, tr.pkg)
			if ti.width <= 0 {
				fail("%s: unsupported parameter type of the closure (%s)", tr.fn.Name, n.Name)
			}
			if _, dup := en.vars[n.Name]; dup {
				fail("%s: closure parameter %s shadows a variable of the enclosing function", tr.fn.Name, n.Name)
			}
			en2.vars[n.Name] = ti
			pnames = append(pnames, v(n.Name))
			ptys = append(ptys, "N")
		}
	}
	if len(pnames) == 0 {
		fail("%s: the closure has no named parameter", tr.fn.Name)
	}
	itemTy := prodOf(ptys)
	if len(ptys) > 1 {
		itemTy += "%type"
	}
	binder := "(" + pnames[0] + " : " + itemTy + ")"
	itemLet := ""
	if len(pnames) > 1 {
		binder = "(it : " + itemTy + ")"
		itemLet = "let '" + tupleOf(pnames, "") + " := it in\n  "
	}
	tr.visitorUseParam(param, "list "+itemTy)
	names := carried(en, []ast.Stmt{lit.Body})
	pat, ty := tr.statePat(names, en)
	memVoidStack = append(memVoidStack, &memVoidCtx{depth: tr.cx.loopDepth, pat: pat, ty: ty})
	body := tr.withCtx(ctx{brk: nil, cont: nil, loopDepth: tr.cx.loopDepth}, func() string {
		return tr.block(lit.Body.List, en2, func(*env) string { return "(GOk (" + pat + ", true))" })
	})
	memVoidStack = memVoidStack[:len(memVoidStack)-1]
	out := "match gvisit (St := " + ty + ") (fun " + binder + " (st : " + ty + ") => " + letPat(pat) + "\n  " + itemLet + body + ") " + param + " " + pat + " with\n"
	out += "  | GPanic => GPanic | GFuel => GFuel\n"
	out += "  | GOk st => " + letPat(pat) + "\n  " + rest(en) + "\n  end"
	return out, true
}

// ---- byte-memory mode: windows of raw memory (kernel.Memset / Memcopy) ----

const memWinWidth = -12

// memOverlay recognises *(*[]byte)(unsafe.Pointer(&reflect.SliceHeader{Len: int(n), Cap: int(n), Data: a})): (a, n)
func memOverlay(e ast.Expr) (data ast.Expr, n ast.Expr, ok bool) {
	st, isStar := e.(*ast.StarExpr)
	if !isStar {
		return
	}
	call, isCall := st.X.(*ast.CallExpr)
	if !isCall || len(call.Args) != 1 {
		return
	}
	par, isPar := call.Fun.(*ast.ParenExpr)
	if !isPar {
		return
	}
	pst, isP := par.X.(*ast.StarExpr)
	if !isP {
		return
	}
	at, isArr := pst.X.(*ast.ArrayType)
	if !isArr || at.Len != nil || exprText(at.Elt) != "byte" {
		return
	}
	up, isUp := call.Args[0].(*ast.CallExpr)
	if !isUp || exprText(up.Fun) != "unsafe.Pointer" || len(up.Args) != 1 {
		return
	}
	un, isUn := up.Args[0].(*ast.UnaryExpr)
	if !isUn || un.Op != token.AND {
		return
	}
	cl, isCl := un.X.(*ast.CompositeLit)
	if !isCl || exprText(cl.Type) != "reflect.SliceHeader" {
		return
	}
	var lenE, capE ast.Expr
	for _, el := range cl.Elts {
		kv, isKv := el.(*ast.KeyValueExpr)
		if !isKv {
			return nil, nil, false
		}
		switch exprText(kv.Key) {
		case "Len":
			lenE = kv.Value
		case "Cap":
			capE = kv.Value
		case "Data":
			data = kv.Value
		default:
			return nil, nil, false
		}
	}
	unInt := func(x ast.Expr) ast.Expr {
		if c, is := x.(*ast.CallExpr); is && exprText(c.Fun) == "int" && len(c.Args) == 1 {
			return c.Args[0]
		}
		return nil
	}
	if lenE == nil || capE == nil || data == nil {
		return nil, nil, false
	}
	l, c := unInt(lenE), unInt(capE)
	if l == nil || c == nil || exprText(l) == "" || exprText(l) != exprText(c) {
		return nil, nil, false
	}
	return data, l, true
}

// memWindowExpr: a window variable, w[i:] or w[:i]
func (tr *translator) memWindowExpr(e ast.Expr, en *env) (string, bool) {
	switch t := e.(type) {
	case *ast.Ident:
		if en.vars[t.Name].width == memWinWidth {
			return v(t.Name), true
		}
	case *ast.SliceExpr:
		id, isId := t.X.(*ast.Ident)
		if !isId || en.vars[id.Name].width != memWinWidth || t.Slice3 {
			return "", false
		}
		if (t.Low == nil) == (t.High == nil) {
			fail("%s: a window may be sliced as w[i:] or w[:i] only", tr.fn.Name)
		}
		op, ix := "gwfrom", t.Low
		if t.High != nil {
			op, ix = "gwto", t.High
		}
		is, it := tr.expr(ix, en)
		if it.width < 0 || it.signed {
			fail("%s: the bound of a window slice is not an unsigned integer", tr.fn.Name)
		}
		tmp := tr.tmp()
		tr.pre = append(tr.pre, fmt.Sprintf("match %s %s %s with None => GPanic | Some %s =>", op, v(id.Name), is, tmp))
		return tmp, true
	}
	return "", false
}

// memBytesStmt: the statements of the byte-memory mode
func (tr *translator) memBytesStmt(stmts []ast.Stmt, en *env, rest func(*env) string) (string, bool) {
	b := memCfg.Mem.Bytes
	if b == nil {
		return "", false
	}
	w := v(tr.ptrRecv)
	switch s := stmts[0].(type) {
	case *ast.AssignStmt:
		if len(s.Lhs) != 1 || len(s.Rhs) != 1 {
			return "", false
		}
		// w := overlay
		if s.Tok == token.DEFINE {
			if data, n, ok := memOverlay(s.Rhs[0]); ok {
				id, isId := s.Lhs[0].(*ast.Ident)
				if !isId {
					return "", false
				}
				if _, dup := en.vars[id.Name]; dup {
					fail("%s: %s := re-declares a variable", tr.fn.Name, id.Name)
				}
				ds, dt := tr.expr(data, en)
				ns, nt := tr.expr(n, en)
				if dt.width != 64 || nt.width != 64 || nt.signed {
					fail("%s: address and size of an overlaid slice must be uintptr", tr.fn.Name)
				}
				pre := tr.takePre()
				en2 := en.clone()
				en2.vars[id.Name] = tinfo{width: memWinWidth}
				pre = append(pre, fmt.Sprintf("match gwoverlay %s %s with None => GPanic | Some %s =>", ds, ns, v(id.Name)))
				return tr.wrapPre(pre, rest(en2)), true
			}
		}
		// w[i] = e
		if ix, ok := s.Lhs[0].(*ast.IndexExpr); ok && s.Tok == token.ASSIGN {
			if id, isId := ix.X.(*ast.Ident); isId && en.vars[id.Name].width == memWinWidth {
				rhs, rt := tr.expr(s.Rhs[0], en)
				if rt.width == 0 {
					rhs = tr.wrap(8, rhs)
				} else if rt.width != 8 {
					fail("%s: a byte store of a non-byte value", tr.fn.Name)
				}
				is, it := tr.expr(ix.Index, en)
				if it.width < 0 || it.signed && it.width != 64 {
					fail("%s: index of a window store", tr.fn.Name)
				}
				pre := tr.takePre()
				tmp := tr.tmp()
				pre = append(pre, fmt.Sprintf("match gwset %s (f_world_mem %s) %s %s %s with None => GPanic | Some %s =>", b.Set, w, v(id.Name), is, rhs, tmp))
				return tr.wrapPre(pre, "let "+w+" := (set_f_world_mem "+w+" "+tmp+") in\n  "+rest(en)), true
			}
		}
		// x *= e on a local integer
		if s.Tok == token.MUL_ASSIGN {
			if id, isId := s.Lhs[0].(*ast.Ident); isId {
				if ti, isVar := en.vars[id.Name]; isVar && ti.width > 0 && !ti.signed {
					rhs, _ := tr.expr(s.Rhs[0], en)
					pre := tr.takePre()
					return tr.wrapPre(pre, "let "+v(id.Name)+" := "+tr.wrap(ti.width, "("+v(id.Name)+" * "+rhs+")")+" in\n  "+rest(en)), true
				}
			}
		}
	case *ast.ExprStmt:
		c, isCall := s.X.(*ast.CallExpr)
		if !isCall || exprText(c.Fun) != "copy" || len(c.Args) != 2 {
			return "", false
		}
		d, okD := tr.memWindowExpr(c.Args[0], en)
		if !okD {
			return "", false
		}
		sw, okS := tr.memWindowExpr(c.Args[1], en)
		if !okS {
			fail("%s: copy from something that is not a window", tr.fn.Name)
		}
		pre := tr.takePre()
		return tr.wrapPre(pre, "let "+w+" := (set_f_world_mem "+w+" (gwcopy "+b.Copy+" (f_world_mem "+w+") "+d+" "+sw+")) in\n  "+rest(en)), true
	}
	return "", false
}
