// ext_fmt.go: the constructs of kernel/kfmt/fmt.go (property C15), all behind the config key "fmtx"
// (the output for configs without it is unchanged).  Meaning of the generated operators: coq/theories/Lib/GoOpsFmt.v.
//
//   - values of type interface{} are the tagged union `gany` (GAU8 n | .. | GAInt n | GABool b | GAStr s | GABytes s |
//     GAOther), the variadic parameter `args ...interface{}` is a `list gany` (len, bounds-checked indexing);
//     `switch v.(type) {..}` and `switch x := v.(type) {..}` (one type per clause) are a `match` on the constructor, the
//     code after the switch is bound ONCE as a local continuation `fmtx_kN` over the world and the locals the clauses
//     assign (no duplication into the clauses); the single-value assertion v.(T) is `gas_T v` (None = GPanic);
//   - int8 / int16 / int32 values, conversion of a signed integer to a wider signed type (gsext), `/` and `%` on
//     unsigned integers (gdiv / gmod, None = division by zero = GPanic), `x /= y`, `x %= y`;
//   - `string` parameters and values are the list of their bytes (len, indexing; never stored into);
//   - labelled statements `L: for ..` with `break L` / `continue L` from inside that loop's body (not from a nested loop);
//   - config fmtx.worldbytes: package-level byte buffers (numFmtBuf, singleByte) are fields of the synthetic `world`
//     record next to the trace (read, bounds-checked store, slicing with cap = len);
//   - a parameter of type io.Writer is an opaque reference (bool: non-nil); passed to a typed seam it is GNum (gref w);
//   - a statement F(args) calling another "world" function of the same config threads the world (and fuel);
//   - the step function of every `for` loop and the join point of a top-level type switch are emitted as top-level
//     definitions of their own (<function>_loopN / <function>_kN), parameterised by fuel (when used) and every variable
//     in scope, so that the equivalence proofs can state lemmas about them.
package main

import (
	"fmt"
	"go/ast"
	"go/token"
	"regexp"
	"sort"
	"strings"
)

type fmtxCfg struct {
	WorldBytes []string `json:"worldbytes"` // package-level []byte / [N]byte variables threaded through the world record
}

type fmtxLabel struct {
	brk, cont func(en *env) string
	depth     int
}

var fmtxPending = map[*ast.ForStmt]string{} // labelled loops whose targets are not registered yet
var fmtxLabels = map[string]fmtxLabel{}     // labels of the loops being translated (dynamic extent)

// fmtxTypeOf: the types only this mode knows
func fmtxTypeOf(e ast.Expr) (tinfo, bool) {
	switch t := e.(type) {
	case *ast.Ident:
		switch t.Name {
		case "int8":
			return tinfo{width: 8, signed: true}, true
		case "int16":
			return tinfo{width: 16, signed: true}, true
		case "int32":
			return tinfo{width: 32, signed: true}, true
		case "string":
			return tinfo{width: -4}, true
		}
	case *ast.InterfaceType:
		if t.Methods == nil || len(t.Methods.List) == 0 {
			return tinfo{width: -11}, true
		}
	case *ast.Ellipsis:
		if el, ok := fmtxTypeOf(t.Elt); ok && el.width == -11 {
			return tinfo{width: -12}, true
		}
	case *ast.ArrayType:
		if t.Len == nil {
			if id, ok := t.Elt.(*ast.Ident); ok && (id.Name == "byte" || id.Name == "uint8") {
				return tinfo{width: -4}, true
			}
		}
	case *ast.SelectorExpr:
		if exprText(t) == "io.Writer" {
			return tinfo{width: -6}, true
		}
	}
	return tinfo{}, false
}

func fmtxCoqTy(ti tinfo) (string, bool) {
	switch ti.width {
	case -11:
		return "gany", true
	case -12:
		return "list gany", true
	}
	return "", false
}

// fmtxWorldFields appends the byte buffers to the synthetic world record
func fmtxWorldFields() {
	if _, ok := structFields["world"]; !ok {
		return
	}
	for _, n := range cfg.Fmtx.WorldBytes {
		structFields["world"] = append(structFields["world"], sfield{name: n, width: -4, array: true})
	}
}

// fmtxField: a bare identifier that names one of the world's byte buffers
func (tr *translator) fmtxField(e ast.Expr) (sfield, bool) {
	id, ok := e.(*ast.Ident)
	if !ok || tr.mon != "world" {
		return sfield{}, false
	}
	for _, n := range cfg.Fmtx.WorldBytes {
		if n == id.Name {
			for _, f := range structFields["world"] {
				if f.name == n {
					return f, true
				}
			}
		}
	}
	return sfield{}, false
}

// the constructor of gany and the type of its payload for the type expression of a clause / assertion
func (tr *translator) fmtxCtor(ty ast.Expr) (ctor, as string, ti tinfo) {
	switch t := ty.(type) {
	case *ast.Ident:
		switch t.Name {
		case "uint8", "byte":
			return "GAU8", "gas_u8", tinfo{width: 8}
		case "uint16":
			return "GAU16", "gas_u16", tinfo{width: 16}
		case "uint32":
			return "GAU32", "gas_u32", tinfo{width: 32}
		case "uint64":
			return "GAU64", "gas_u64", tinfo{width: 64}
		case "uintptr":
			return "GAUptr", "gas_uptr", tinfo{width: 64}
		case "int8":
			return "GAI8", "gas_i8", tinfo{width: 8, signed: true}
		case "int16":
			return "GAI16", "gas_i16", tinfo{width: 16, signed: true}
		case "int32":
			return "GAI32", "gas_i32", tinfo{width: 32, signed: true}
		case "int64":
			return "GAI64", "gas_i64", tinfo{width: 64, signed: true}
		case "int":
			return "GAInt", "gas_int", tinfo{width: 64, signed: true}
		case "bool":
			return "GABool", "gas_bool", tinfo{width: -1}
		case "string":
			return "GAStr", "gas_str", tinfo{width: -4}
		}
	case *ast.ArrayType:
		if ti, ok := fmtxTypeOf(t); ok && ti.width == -4 {
			return "GABytes", "gas_bytes", tinfo{width: -4}
		}
	}
	fail("%s: type switch / assertion on a type outside the supported set", tr.fn.Name)
	return
}

// v.(T): hoisted, a failed assertion is a panic
func (tr *translator) fmtxAssert(t *ast.TypeAssertExpr, en *env) (string, tinfo, bool) {
	id, ok := t.X.(*ast.Ident)
	if !ok || en.vars[id.Name].width != -11 {
		return "", tinfo{}, false
	}
	if tr.noHoist > 0 {
		fail("%s: type assertion under && or ||", tr.fn.Name)
	}
	_, as, ti := tr.fmtxCtor(t.Type)
	tmp := tr.tmp()
	tr.pre = append(tr.pre, matchOpt(as+" "+v(id.Name), tmp))
	return tmp, ti, true
}

// a / b, a % b on unsigned integers: hoisted, division by zero is a panic
func (tr *translator) fmtxDivMod(op token.Token, xs, ys string, xt, yt tinfo) (string, tinfo) {
	if xt.signed || yt.signed || (xt.width <= 0 && yt.width <= 0) {
		fail("%s: / and %% are supported on unsigned integers only", tr.fn.Name)
	}
	if tr.noHoist > 0 {
		fail("%s: division under && or ||", tr.fn.Name)
	}
	ti := xt
	if ti.width == 0 {
		ti = yt
	}
	f := "gdiv"
	if op == token.REM {
		f = "gmod"
	}
	tmp := tr.tmp()
	tr.pre = append(tr.pre, matchOpt(fmt.Sprintf("%s %s %s", f, xs, ys), tmp))
	return tmp, ti
}

// F(args) for another world function of the config: threads the world, propagates panic / out of fuel
func (tr *translator) fmtxWorldCall(t *ast.CallExpr, en *env) bool {
	id, ok := t.Fun.(*ast.Ident)
	if !ok || tr.mon != "world" {
		return false
	}
	if _, shadow := en.vars[id.Name]; shadow {
		return false
	}
	spec, ok := tr.funcs[id.Name]
	if !ok || !spec.World || spec.Pkg != tr.pkg {
		return false
	}
	name := coqName(spec.Pkg, spec.Recv, spec.Name)
	rts, done := monResults[name]
	if !done && name != coqName(tr.fn.Pkg, tr.fn.Recv, tr.fn.Name) {
		fail("%s: call of %s, which is translated later (order the config's funcs callee first)", tr.fn.Name, spec.Name)
	}
	if len(rts) > 0 || monInout[name] || len(monExtra[name]) > 0 || !done {
		fail("%s: call of %s: only calls of result-less world functions without extra parameters are supported", tr.fn.Name, spec.Name)
	}
	if tr.noHoist > 0 {
		fail("%s: call under && or ||", tr.fn.Name)
	}
	var args []string
	for _, a := range t.Args {
		as, _ := tr.expr(a, en)
		args = append(args, as)
	}
	callee := name
	if monFuel[name] {
		callee += " fuel"
		tr.usesFuel = true
	}
	tr.pre = append(tr.pre, fmt.Sprintf("match %s %s with GPanic => GPanic | GFuel => GFuel | GOk (%s, _) =>", callee, strings.Join(append([]string{v(tr.ptrRecv)}, args...), " "), v(tr.ptrRecv)))
	tr.hoistedCall = true
	return true
}

// switch v.(type) { case T: .. default: .. } and switch x := v.(type) {..}: a match on the dynamic type.  The code
// after the switch is bound once, as a function of the world and the locals the clauses assign.
func (tr *translator) fmtxTypeSwitch(s *ast.TypeSwitchStmt, en *env, rest func(*env) string) string {
	if s.Init != nil {
		fail("%s: type switch with an init statement", tr.fn.Name)
	}
	var bind string
	var x ast.Expr
	switch a := s.Assign.(type) {
	case *ast.ExprStmt:
		x = a.X
	case *ast.AssignStmt:
		if len(a.Lhs) != 1 || len(a.Rhs) != 1 || a.Tok != token.DEFINE {
			fail("%s: unsupported type switch header", tr.fn.Name)
		}
		bind = a.Lhs[0].(*ast.Ident).Name
		x = a.Rhs[0]
	}
	ta, ok := x.(*ast.TypeAssertExpr)
	if !ok || ta.Type != nil {
		fail("%s: unsupported type switch header", tr.fn.Name)
	}
	id, ok := ta.X.(*ast.Ident)
	if !ok || en.vars[id.Name].width != -11 {
		fail("%s: type switch on something that is not an interface{} variable", tr.fn.Name)
	}
	if bind != "" {
		if _, dup := en.vars[bind]; dup {
			fail("%s: the variable of a type switch shadows %s", tr.fn.Name, bind)
		}
	}
	var bodies []ast.Stmt
	for _, c := range s.Body.List {
		bodies = append(bodies, c.(*ast.CaseClause).Body...)
	}
	names := carried(en, bodies)
	pat, ty := tr.statePat(names, en)
	tr.nloop++
	kname := fmt.Sprintf("fmtx_k%d", tr.nloop)
	restC := tr.capture(func(*env) string { return rest(en) })
	restTerm := restC(en)
	join := func(*env) string { return "(" + kname + " " + pat + ")" }
	out := "let " + kname + " := (fun st : " + ty + " => " + letPat(pat) + "\n  " + restTerm + ") in\n  match " + v(id.Name) + " with\n"
	if tr.cx.loopDepth == 0 {
		// at the top level of the function the join point is a definition of its own
		out = "let " + kname + " := " + tr.fmtxAux("k", en, names, pat, ty, "gres "+tr.resultTy(nil), restTerm) + " in\n  match " + v(id.Name) + " with\n"
	}
	deflt := join(en)
	seen := map[string]bool{}
	tr.withCtx(ctx{brk: join, cont: tr.cx.cont, loopDepth: tr.cx.loopDepth}, func() string {
		for _, c := range s.Body.List {
			cc := c.(*ast.CaseClause)
			if cc.List == nil {
				deflt = tr.block(cc.Body, en, join)
				continue
			}
			if len(cc.List) != 1 {
				fail("%s: a type switch clause with several types", tr.fn.Name)
			}
			if nid, isNil := cc.List[0].(*ast.Ident); isNil && nid.Name == "nil" {
				fail("%s: case nil in a type switch", tr.fn.Name)
			}
			ctor, _, ti := tr.fmtxCtor(cc.List[0])
			if seen[ctor] {
				fail("%s: duplicate type in a type switch", tr.fn.Name)
			}
			seen[ctor] = true
			en2 := en
			pv := "_"
			if bind != "" {
				en2 = en.clone()
				en2.vars[bind] = ti
				pv = v(bind)
			}
			out += "  | " + ctor + " " + pv + " => " + tr.block(cc.Body, en2, join) + "\n"
		}
		return ""
	})
	out += "  | _ => " + deflt + "\n  end"
	return out
}

// L: for .. {}: the loop's break / continue targets are registered under L while its body is translated
func (tr *translator) fmtxLabeled(s *ast.LabeledStmt, stmts []ast.Stmt, en *env, k func(en *env) string) string {
	fs, ok := s.Stmt.(*ast.ForStmt)
	if !ok {
		fail("%s: a label on something that is not a for loop", tr.fn.Name)
	}
	fmtxPending[fs] = s.Label.Name
	return tr.block(append([]ast.Stmt{fs}, stmts[1:]...), en, k)
}

// called by forLoop once the targets exist; returns the function that unregisters the label
func (tr *translator) fmtxLoopTargets(s *ast.ForStmt, brk, cont func(en *env) string) func() {
	name, ok := fmtxPending[s]
	if !ok {
		return func() {}
	}
	fmtxLabels[name] = fmtxLabel{brk: brk, cont: cont, depth: tr.cx.loopDepth + 1}
	return func() { delete(fmtxLabels, name) }
}

// break L / continue L
func (tr *translator) fmtxBranch(s *ast.BranchStmt, en *env) string {
	l, ok := fmtxLabels[s.Label.Name]
	if !ok {
		fail("%s: %v %s outside the labelled loop", tr.fn.Name, s.Tok, s.Label.Name)
	}
	if tr.cx.loopDepth != l.depth {
		fail("%s: %v %s from inside a nested loop", tr.fn.Name, s.Tok, s.Label.Name)
	}
	switch s.Tok {
	case token.BREAK:
		return l.brk(en)
	case token.CONTINUE:
		return l.cont(en)
	}
	fail("%s: unsupported branch statement", tr.fn.Name)
	return ""
}

var fmtxAuxOrder []string
var fmtxAuxBody = map[string]string{}
var fmtxFuelRe = regexp.MustCompile(`\bfuel\b`)

// fmtxAux registers the definition `name (fuel)? (env variables not in the state) (st : ty) : resTy := let pat := st in body`
// and returns the partial application to use in its place
func (tr *translator) fmtxAux(kind string, en *env, names []string, pat, ty, resTy, body string) string {
	if len(tr.seamUsed)+len(tr.oracleUsed)+len(tr.extUsed) > 0 {
		fail("%s: auxiliary definitions with seam results / oracles / external variables are not supported", tr.fn.Name)
	}
	tr.nloop++
	name := fmt.Sprintf("%s_%s%d", coqName(tr.fn.Pkg, tr.fn.Recv, tr.fn.Name), kind, tr.nloop)
	inState := map[string]bool{}
	for _, n := range names {
		inState[n] = true
	}
	var vs []string
	for n := range en.vars {
		if !inState[n] {
			vs = append(vs, n)
		}
	}
	sort.Strings(vs)
	var params, args []string
	if fmtxFuelRe.MatchString(body) {
		params = append(params, "(fuel : nat)")
		args = append(args, "fuel")
		tr.usesFuel = true
	}
	for _, n := range vs {
		params = append(params, "("+v(n)+" : "+coqTy(en.vars[n])+")")
		args = append(args, v(n))
	}
	def := fmt.Sprintf("Definition %s %s (st : %s) : %s :=\n  %s\n  %s.\n\n", name, strings.Join(params, " "), ty, resTy, letPat(pat), body)
	if _, seen := fmtxAuxBody[name]; !seen {
		fmtxAuxOrder = append(fmtxAuxOrder, name)
	}
	fmtxAuxBody[name] = def
	return "(" + strings.Join(append([]string{name}, args...), " ") + ")"
}

// the step function of a for loop
func (tr *translator) fmtxAuxLoop(en *env, names []string, pat, ty, step string) string {
	resTy := "gres (gctl " + ty + " " + tr.resultTy(nil) + ")"
	return "\x01" + tr.fmtxAux("loop", en, names, pat, ty, resTy, step)
}

func fmtxFlushAux() {
	for _, n := range fmtxAuxOrder {
		fmt.Print(fmtxAuxBody[n])
	}
	fmtxAuxOrder = nil
	fmtxAuxBody = map[string]string{}
}
