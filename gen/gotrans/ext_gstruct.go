// gotrans extension: a package-level variable of a struct type threaded through a function next to the receiver.
// FEATURE gstructs (agent c02trans): ready
//
// Config key "gstructs" (extended mode "gres" only, struct-receiver or "world" functions):
//
//   "gstructs": { "bootMemAllocator": {"type": "BootMemAllocator", "funcs": ["reserveEarlyAllocatorFrames"]} }
//
// In the functions named in "funcs" (by name, or "Recv.name") the package-level variable `bootMemAllocator`, whose type
// is the struct BootMemAllocator (listed in config "structs": its record is generated from the type declaration), is an
// IN/OUT value of the translated function: an extra parameter `v_bootMemAllocator : <record>` after the Go parameters, and
// its final value is returned after the results (as for a pointer parameter that is assigned through).  Inside:
//   - g.f reads a field (also before the variable is listed in "extvars": the record takes precedence in these functions);
//   - g.f = e, g.f op= e, g.f++ / g.f-- rebuild the record (set_f_<T>_<f>); a parallel assignment g.f1, g.f2 = a, b is
//     handled by main.go (right-hand sides first);
//   - x, y := g.M(args) / x, y = g.M(args) / x := g.M(args) / the statement g.M(args), for a TRANSLATED method M of T (listed
//     before the caller in "funcs" of the config): `match M [fuel] v_g args.. extras.. with GPanic => GPanic | GFuel => GFuel
//     | GOk (v_g, (r1, r2)) => ..` - the callee's new record replaces the variable, `_` discards a result, the callee's extra
//     parameters (seam results, oracles, visitor sequences such as `regions`) become parameters of the caller and are
//     handed on;
//   - the variable is part of the loop-carried state of every loop (and visitor closure) whose body assigns one of its
//     fields or calls a method on it.
//   - alloc.M(args) as a STATEMENT, for a translated method M of the receiver that itself takes the struct variable (it is
//     listed in "funcs" of the same gstructs entry): the caller's record is passed and the callee's final record replaces it;
//   - a callee's parameter that stands for the external variable `g.f` (config "extvars", e.g. reserveKernelFrames reading
//     bootMemAllocator.kernelEndFrame) is given the field of the caller's record, (f_T_f v_g), instead of becoming a
//     parameter of the caller.
// Config key "opaquecalls" (same mode): methods of the receiver that are NOT translated, called as alloc.M(int args):
//   "opaquecalls": {"BitmapAllocator.setupPoolBitmaps": {"results": ["error"], "havoc": true},
//                   "BitmapAllocator.printStats": {}}
//   every such call pushes GEv "M" [args] on the receiver's trace (the struct needs a "seams" entry, which creates the trace
//   field), so the ORDER of these calls among themselves and relative to the seam's own events is part of the result;
//   with "havoc" the call may change the receiver and every threaded struct variable and returns the listed results: all of
//   these come from an ORACLE, the extra parameter o_M : receiver -> struct variables.. -> (receiver * struct variables.. *
//   results..) applied to the current records (the receiver already carries the event); x := alloc.M(), x, y = alloc.M(),
//   `if err := alloc.M(); ..` and the bare statement are supported.  Without "havoc" the method must have no results and is
//   ASSUMED not to change anything the translation models (e.g. a print routine).
// In functions NOT named in "funcs" nothing changes (reads of g.f may still be "extvars").  The variable must not be
// shadowed, assigned as a whole, have its address taken or be passed on.  What the Go run time does with the variable
// between two calls of translated functions is outside the translation: the record a function receives is a parameter.
package main

import (
	"encoding/json"
	"fmt"
	"go/ast"
	"go/token"
	"os"
	"sort"
	"strings"
)

type opaqueSpec struct {
	Results []string `json:"results"` // "error", "uint64", ...
	Havoc   bool     `json:"havoc"`
}

var opaqueCfgMap map[string]opaqueSpec

// gstructTakes: translated function (Coq name) -> the struct variables it takes as in/out records
var gstructTakes = map[string][]string{}

type gstructSpec struct {
	Type  string   `json:"type"`
	Funcs []string `json:"funcs"`
}

var gstructCfgLoaded bool
var gstructCfgMap map[string]gstructSpec

func gstructCfg() map[string]gstructSpec {
	if !gstructCfgLoaded {
		gstructCfgLoaded = true
		var c struct {
			GStructs map[string]gstructSpec `json:"gstructs"`
			Opaque   map[string]opaqueSpec  `json:"opaquecalls"`
		}
		if data, err := os.ReadFile(os.Args[1]); err == nil {
			if err := json.Unmarshal(data, &c); err != nil {
				fail("%v", err)
			}
		}
		gstructCfgMap = c.GStructs
		opaqueCfgMap = c.Opaque
	}
	return gstructCfgMap
}

// gstructActive: the struct variables threaded through the function being translated (sorted)
func (tr *translator) gstructActive() []string {
	var names []string
	for g, sp := range gstructCfg() {
		for _, f := range sp.Funcs {
			if f == tr.fn.Name || f == tr.fn.Recv+"."+tr.fn.Name {
				names = append(names, g)
				break
			}
		}
	}
	sort.Strings(names)
	return names
}

func (tr *translator) isGstruct(e ast.Expr, en *env) (string, bool) {
	id, ok := e.(*ast.Ident)
	if !ok || len(gstructCfg()) == 0 {
		return "", false
	}
	for _, g := range tr.gstructActive() {
		if g == id.Name && en.vars[g].width == -9 {
			return g, true
		}
	}
	return "", false
}

// gstructSetup: the variables become in/out values of the function (called once per function, before its body)
func (tr *translator) gstructSetup(en *env, params []string) []string {
	if len(gstructCfg()) == 0 || !cfg.Gres || tr.mon == "" {
		return params
	}
	for _, g := range tr.gstructActive() {
		ty := gstructCfg()[g].Type
		if _, ok := structFields[ty]; !ok {
			fail("%s: gstruct %s: type %s is not a struct of the config", tr.fn.Name, g, ty)
		}
		if _, dup := en.vars[g]; dup {
			fail("%s: a parameter shadows the struct variable %s", tr.fn.Name, g)
		}
		ti := tinfo{width: -9, named: ty}
		en.vars[g] = ti
		params = append(params, "("+v(g)+" : "+coqTy(ti)+")")
		tr.ptrParams[g] = true
		tr.inoutTy[g] = ti
		tr.inout = append(tr.inout, g)
		k := coqName(tr.fn.Pkg, tr.fn.Recv, tr.fn.Name)
		dup := false
		for _, x := range gstructTakes[k] {
			if x == g {
				dup = true
			}
		}
		if !dup {
			gstructTakes[k] = append(gstructTakes[k], g)
		}
	}
	return params
}

// gstructExtArg: the argument for a callee's extra parameter; an "extvars" parameter that stands for a field of a struct
// variable threaded through the CALLER is that field of the caller's record (hook in main.go where extras are handed on)
func (tr *translator) gstructExtArg(xp extraParam, en *env) (string, bool) {
	if xp.kind != "ext" || len(gstructCfg()) == 0 {
		return "", false
	}
	for txt, c := range cfg.ExtVars {
		n, _ := constInfo(c)
		if n != xp.name {
			continue
		}
		parts := strings.Split(txt, ".")
		if len(parts) != 2 {
			continue
		}
		if g, ok := tr.isGstruct(ast.NewIdent(parts[0]), en); ok {
			ty := en.vars[g].named
			for _, f := range structFields[ty] {
				if f.name == parts[1] {
					return "(" + fieldName(ty, f.name) + " " + v(g) + ")", true
				}
			}
		}
	}
	return "", false
}

// recvCall: alloc.M(args) on the receiver: the method name and the call
func (tr *translator) recvCall(e ast.Expr) (string, *ast.CallExpr, bool) {
	call, ok := e.(*ast.CallExpr)
	if !ok {
		return "", nil, false
	}
	sel, ok := call.Fun.(*ast.SelectorExpr)
	if !ok {
		return "", nil, false
	}
	id, ok := sel.X.(*ast.Ident)
	if !ok || id.Name != tr.ptrRecv || tr.mon == "" {
		return "", nil, false
	}
	return sel.Sel.Name, call, true
}

// opaqueCall: alloc.M(args) for a method of config "opaquecalls": the bindings that precede the continuation (closed by the
// caller with closeN " end"-less lets) and the result variables
func (tr *translator) opaqueCall(e ast.Expr, en *env) (lets string, res []string, rts []tinfo, ok bool) {
	name, call, isRecv := tr.recvCall(e)
	if !isRecv {
		return
	}
	sp, known := opaqueCfgMap[tr.mon+"."+name]
	if !known {
		return
	}
	if _, translated := tr.funcs[tr.mon+"."+name]; translated {
		fail("%s: %s is both translated and listed in opaquecalls", tr.fn.Name, name)
	}
	hasTrace := false
	for _, f := range structFields[tr.mon] {
		if f.name == "trace" && f.width == -7 {
			hasTrace = true
		}
	}
	if !hasTrace {
		fail("%s: opaque call %s: struct %s has no trace (add a \"seams\" entry)", tr.fn.Name, name, tr.mon)
	}
	if sq, _ := tr.seam(); sq.Typed {
		fail("%s: opaque calls on a struct with a typed seam are not supported", tr.fn.Name)
	}
	var args []string
	for _, a := range call.Args {
		as, at := tr.expr(a, en)
		if at.width < 0 {
			fail("%s: a non-integer argument of the opaque call %s", tr.fn.Name, name)
		}
		args = append(args, as)
	}
	if len(tr.pre) > 0 {
		fail("%s: hoisted reads in the arguments of the opaque call %s", tr.fn.Name, name)
	}
	lets = "let " + v(tr.ptrRecv) + " := " + tr.event(name, args) + " in\n  "
	if !sp.Havoc {
		if len(sp.Results) > 0 {
			fail("%s: opaque call %s has results but no \"havoc\"", tr.fn.Name, name)
		}
		return lets, nil, nil, true
	}
	gs := tr.gstructActive()
	tys := []string{recName(structPkg[tr.mon], tr.mon)}
	pats := []string{v(tr.ptrRecv)}
	app := v(tr.ptrRecv)
	for _, g := range gs {
		tys = append(tys, coqTy(en.vars[g]))
		pats = append(pats, v(g))
		app += " " + v(g)
	}
	tr.nloop++
	fty := strings.Join(tys, " -> ")
	for i, r := range sp.Results {
		ti := oracleTy(r)
		rts = append(rts, ti)
		nm := fmt.Sprintf("opr%d_%d", tr.nloop, i)
		res = append(res, nm)
		pats = append(pats, v(nm))
		tys = append(tys, coqTy(ti))
	}
	oname := "o_" + name
	tr.oracleUsed[oname] = fty + " -> " + prodOf(tys) + "%type"
	lp := "let '"
	if len(pats) == 1 {
		lp = "let "
	}
	lets += lp + tupleOf(pats, "") + " := " + oname + " " + app + " in\n  "
	return lets, res, rts, true
}

// takingCall: the statement alloc.M(args) for a translated receiver method that takes struct variables of the caller
func (tr *translator) takingCall(e ast.Expr, en *env) (string, bool) {
	mname, call, isRecv := tr.recvCall(e)
	if !isRecv {
		return "", false
	}
	spec, known := tr.funcs[tr.mon+"."+mname]
	if !known {
		return "", false
	}
	name := coqName(spec.Pkg, spec.Recv, spec.Name)
	gs := gstructTakes[name]
	if len(gs) == 0 {
		return "", false
	}
	var args []string
	for _, a := range call.Args {
		as, _ := tr.expr(a, en)
		args = append(args, as)
	}
	if len(tr.pre) > 0 || tr.hoistedCall {
		fail("%s: hoisted reads in the arguments of %s", tr.fn.Name, mname)
	}
	if len(tr.inout) != len(gs) {
		// (the callee's other in/out parameters - byte slices - are not handled here)
	}
	var pats []string
	for range monResults[name] {
		pats = append(pats, "_")
	}
	for _, g := range gs {
		if _, ok := tr.isGstruct(ast.NewIdent(g), en); !ok {
			fail("%s: %s takes the struct variable %s, which is not threaded through the caller (list the caller in gstructs)", tr.fn.Name, mname, g)
		}
		args = append(args, v(g))
		pats = append(pats, v(g))
	}
	for _, xp := range monExtra[name] {
		if a, ok := tr.gstructExtArg(xp, en); ok {
			args = append(args, a)
			continue
		}
		args = append(args, xp.name)
		switch xp.kind {
		case "seam":
			tr.seamUsed[xp.name] = xp.width
		case "ext":
			tr.extUsed[xp.name] = xp.width
		case "oracle":
			tr.oracleUsed[xp.name] = xp.ty
		case "visitor":
			tr.visitorUse(xp)
		}
	}
	callee := name
	if monFuel[name] {
		callee += " fuel"
		tr.usesFuel = true
	}
	return fmt.Sprintf("match %s %s with GPanic => GPanic | GFuel => GFuel | GOk (%s, %s) =>", callee, strings.Join(append([]string{v(tr.ptrRecv)}, args...), " "), v(tr.ptrRecv), tupleOf(pats, "_")), true
}

// gstructTouched: does the code assign a field of g or call a method on it?
func gstructTouched(g string, stmts []ast.Stmt) bool {
	found := false
	base := func(e ast.Expr) bool {
		sel, ok := e.(*ast.SelectorExpr)
		if !ok {
			return false
		}
		id, ok := sel.X.(*ast.Ident)
		return ok && id.Name == g
	}
	for _, st := range stmts {
		if st == nil {
			continue
		}
		ast.Inspect(st, func(n ast.Node) bool {
			switch s := n.(type) {
			case *ast.AssignStmt:
				for _, l := range s.Lhs {
					if base(l) {
						found = true
					}
				}
			case *ast.IncDecStmt:
				if base(s.X) {
					found = true
				}
			case *ast.CallExpr:
				if base(s.Fun) {
					found = true
				}
			}
			return !found
		})
	}
	return found
}

// gstructCarried adds the struct variables that the statements change to the loop-carried names (hook in carried)
func gstructCarried(en *env, stmts []ast.Stmt, names []string) []string {
	if len(gstructCfg()) == 0 {
		return names
	}
	added := false
	for g := range gstructCfg() {
		if en.vars[g].width != -9 || !gstructTouched(g, stmts) {
			continue
		}
		dup := false
		for _, n := range names {
			if n == g {
				dup = true
			}
		}
		if !dup {
			names = append(names, g)
			added = true
		}
	}
	if added {
		sort.Strings(names)
	}
	return names
}

// gstructCall: g.M(args) for a translated method M of g's type: the opening `match .. with .. GOk (v_g, pat) =>` and
// the result variables (Go names bound in en2)
func (tr *translator) gstructCall(e ast.Expr, en *env) (g string, open string, res []string, rts []tinfo, ok bool) {
	call, isCall := e.(*ast.CallExpr)
	if !isCall {
		return
	}
	sel, isSel := call.Fun.(*ast.SelectorExpr)
	if !isSel {
		return
	}
	g, isG := tr.isGstruct(sel.X, en)
	if !isG {
		return
	}
	ty := en.vars[g].named
	spec, known := tr.funcs[ty+"."+sel.Sel.Name]
	if !known {
		fail("%s: %s.%s is not a translated method of %s", tr.fn.Name, g, sel.Sel.Name, ty)
	}
	name := coqName(spec.Pkg, spec.Recv, spec.Name)
	if _, done := monResults[name]; !done {
		fail("%s: %s must be listed before its caller in the config", tr.fn.Name, name)
	}
	if monInout[name] {
		fail("%s: call of %s, which has in/out parameters", tr.fn.Name, spec.Name)
	}
	if tr.noHoist > 0 {
		fail("%s: method call under && or ||", tr.fn.Name)
	}
	var args []string
	for _, a := range call.Args {
		as, _ := tr.expr(a, en)
		args = append(args, as)
	}
	for _, xp := range monExtra[name] {
		args = append(args, xp.name)
		switch xp.kind {
		case "seam":
			tr.seamUsed[xp.name] = xp.width
		case "ext":
			tr.extUsed[xp.name] = xp.width
		case "oracle":
			tr.oracleUsed[xp.name] = xp.ty
		case "visitor":
			tr.visitorUse(xp)
		}
	}
	rts = monResults[name]
	tr.nloop++
	var pats []string
	for i := range rts {
		r := fmt.Sprintf("gsr%d_%d", tr.nloop, i)
		res = append(res, r)
		pats = append(pats, v(r))
	}
	pat := "_"
	if len(pats) > 0 {
		pat = tupleOf(pats, "")
	}
	callee := name
	if monFuel[name] {
		callee += " fuel"
		tr.usesFuel = true
	}
	open = fmt.Sprintf("match %s %s with GPanic => GPanic | GFuel => GFuel | GOk (%s, %s) =>", callee, strings.Join(append([]string{v(g)}, args...), " "), v(g), pat)
	return g, open, res, rts, true
}

// gstructStmt: the statements on a threaded struct variable (assignment of a field, ++/--, method calls); stmts[0] is
// the statement, k the continuation after the list
func (tr *translator) gstructStmt(stmts []ast.Stmt, en *env, k func(*env) string) (string, bool) {
	if (len(gstructCfg()) == 0 && len(opaqueCfgMap) == 0) || !cfg.Gres || tr.mon == "" {
		return "", false
	}
	rest := func(en2 *env) string { return tr.block(stmts[1:], en2, k) }
	// calls of receiver methods that are opaque (config "opaquecalls") or take a struct variable
	switch s := stmts[0].(type) {
	case *ast.ExprStmt:
		if lets, _, _, ok := tr.opaqueCall(s.X, en); ok {
			return lets + rest(en), true
		}
		if open, ok := tr.takingCall(s.X, en); ok {
			return tr.wrapPre([]string{open}, rest(en)), true
		}
	case *ast.AssignStmt:
		if len(s.Rhs) == 1 && (s.Tok == token.ASSIGN || s.Tok == token.DEFINE) {
			if lets, res, rts, ok := tr.opaqueCall(s.Rhs[0], en); ok {
				if len(res) != len(s.Lhs) {
					fail("%s: assignment count mismatch in an opaque call", tr.fn.Name)
				}
				en2 := en.clone()
				var seq []ast.Stmt
				for i, l := range s.Lhs {
					if id, isId := l.(*ast.Ident); isId && id.Name == "_" {
						continue
					}
					en2.vars[res[i]] = rts[i]
					seq = append(seq, &ast.AssignStmt{Lhs: []ast.Expr{l}, Tok: s.Tok, Rhs: []ast.Expr{ast.NewIdent(res[i])}})
				}
				return lets + tr.block(append(seq, stmts[1:]...), en2, k), true
			}
		}
	}
	if len(tr.gstructActive()) == 0 {
		return "", false
	}
	field := func(e ast.Expr) (string, sfield, bool) {
		sel, ok := e.(*ast.SelectorExpr)
		if !ok {
			return "", sfield{}, false
		}
		g, ok := tr.isGstruct(sel.X, en)
		if !ok {
			return "", sfield{}, false
		}
		for _, f := range structFields[en.vars[g].named] {
			if f.name == sel.Sel.Name {
				if f.width <= 0 {
					fail("%s: assignment to the non-integer field %s.%s", tr.fn.Name, g, f.name)
				}
				return g, f, true
			}
		}
		fail("%s: no field %s in %s", tr.fn.Name, sel.Sel.Name, g)
		return "", sfield{}, false
	}
	switch s := stmts[0].(type) {
	case *ast.IncDecStmt:
		g, f, ok := field(s.X)
		if !ok {
			return "", false
		}
		ty := en.vars[g].named
		cur := "(" + fieldName(ty, f.name) + " " + v(g) + ")"
		val := tr.opAssign(s.Tok, f.width, cur, "1")
		return "let " + v(g) + " := (set_" + fieldName(ty, f.name) + " " + v(g) + " " + val + ") in\n  " + rest(en), true
	case *ast.AssignStmt:
		if len(s.Lhs) == 1 && len(s.Rhs) == 1 {
			if g, f, ok := field(s.Lhs[0]); ok {
				if s.Tok == token.DEFINE {
					fail("%s: := on a field", tr.fn.Name)
				}
				ty := en.vars[g].named
				rhs, rt := tr.expr(s.Rhs[0], en)
				pre := tr.takePre(s.Rhs[0])
				if rt.width == 0 && s.Tok == token.ASSIGN {
					rhs = tr.wrap(f.width, rhs)
				}
				cur := "(" + fieldName(ty, f.name) + " " + v(g) + ")"
				val := tr.opAssign(s.Tok, f.width, cur, rhs)
				return tr.wrapPre(pre, "let "+v(g)+" := (set_"+fieldName(ty, f.name)+" "+v(g)+" "+val+") in\n  "+rest(en)), true
			}
		}
		if len(s.Rhs) == 1 && (s.Tok == token.ASSIGN || s.Tok == token.DEFINE) {
			if _, open, res, rts, ok := tr.gstructCall(s.Rhs[0], en); ok {
				if len(res) != len(s.Lhs) {
					fail("%s: assignment count mismatch in a call on a struct variable", tr.fn.Name)
				}
				pre := tr.takePre()
				en2 := en.clone()
				var seq []ast.Stmt
				for i, l := range s.Lhs {
					if id, isId := l.(*ast.Ident); isId && id.Name == "_" {
						continue
					}
					en2.vars[res[i]] = rts[i]
					seq = append(seq, &ast.AssignStmt{Lhs: []ast.Expr{l}, Tok: s.Tok, Rhs: []ast.Expr{ast.NewIdent(res[i])}})
				}
				body := tr.block(append(seq, stmts[1:]...), en2, k)
				return tr.wrapPre(append(pre, open), body), true
			}
		}
	case *ast.ExprStmt:
		if _, open, _, _, ok := tr.gstructCall(s.X, en); ok {
			pre := tr.takePre()
			return tr.wrapPre(append(pre, open), rest(en)), true
		}
	}
	return "", false
}
