// ext_hal.go: the constructs of kernel/hal/hal.go and of device.DriverInfoList (property C16), behind the config key
// "hal" (the output for configs without it is unchanged).  Functions are translated over the synthetic `world` record.
//
//   - "refs": types (by their text: "console.Device", "*font.Font", ..) whose values are REFERENCES - interface or
//     pointer values - modelled as a number, 0 = nil; `x == nil` / `x != nil` compare with 0;
//   - "worldvars": fields of a package-level struct variable (devices.activeConsole, ..) holding references are fields
//     of the world record (read, assigned);
//   - "methods": a call x.M(args) on a reference is the typed event GCall "M" [GNum x; GNum args..] on the world's
//     trace when the method is marked "record" (arguments of an unrecorded method are not translated); a call on a nil
//     reference is GPanic; values the method returns (`a, b := x.M(..)`) are parameters s_M_i of the translation;
//   - dynamic types: an oracle `o_impl : N -> string -> bool` (does the value behind the reference implement the named
//     interface) is a parameter; `gimpl` (Lib/GoOpsHal.v) makes nil implement nothing.  `switch y := x.(type)` over
//     interface types is an if-chain in the order of the clauses; `y, ok := (x).(I)` binds ok to the oracle's answer and
//     y to x (nil when !ok);
//   - "purefns": package functions that only look something up (logo.BestFit, font.BestFit) are oracle FUNCTIONS
//     o_pkg_F applied to the translated arguments;
//   - "mapfns": `for k, v := range F() {..}` over the map a listed function returns (Go's iteration order is not
//     specified) whose body only assigns local variables - no return, no call on a reference - is summarised: every
//     local it assigns takes the value of a parameter rngN_<var> (any value of its type).  What such a loop computes is
//     NOT covered by the translation; that it has no other effect is checked here;
//   - "slicetypes" / "stypes": a method with a receiver of a named slice type ([]*T for a struct T of the config) takes
//     the slice as a list of T's records; named SIGNED integer types (DetectOrder int8);
//   - "addrs": `&x` of a listed package-level variable is the reference given by the parameter addr_x;
//   - a statement f(args) calling another world function of the config threads the world and passes its extra
//     parameters (oracles, seam results) on.
package main

import (
	"fmt"
	"go/ast"
	"go/token"
	"sort"
	"strings"
)

type halMethod struct {
	Record  bool  `json:"record"`
	Results []int `json:"results"`
}

type halCfg struct {
	Refs       []string             `json:"refs"`
	WorldVars  map[string]string    `json:"worldvars"`
	Methods    map[string]halMethod `json:"methods"`
	PureFns    []string             `json:"purefns"`
	MapFns     []string             `json:"mapfns"`
	LookupFns  []string             `json:"lookupfns"` // functions a summarised loop may call
	SliceTypes map[string]string    `json:"slicetypes"`
	STypes     map[string]int       `json:"stypes"`
	Addrs      []string             `json:"addrs"` // package-level variables whose ADDRESS is taken (&x): a reference given by the parameter addr_x
}

const halRef = "#ref"

var halRangeIdx = map[token.Pos]int{}

func halTypeText(e ast.Expr) string {
	if st, ok := e.(*ast.StarExpr); ok {
		return "*" + exprText(st.X)
	}
	return exprText(e)
}

func halIn(list []string, s string) bool {
	for _, x := range list {
		if x == s {
			return true
		}
	}
	return false
}

func halTypeOf(e ast.Expr) (tinfo, bool) {
	if id, ok := e.(*ast.Ident); ok {
		if w, ok := cfg.Hal.STypes[id.Name]; ok {
			return tinfo{width: w, signed: true, named: id.Name}, true
		}
	}
	if txt := halTypeText(e); txt != "" && halIn(cfg.Hal.Refs, txt) {
		return tinfo{width: 64, named: halRef}, true
	}
	return tinfo{}, false
}

func halWorldFields() {
	if _, ok := structFields["world"]; !ok {
		return
	}
	var ks []string
	for k := range cfg.Hal.WorldVars {
		ks = append(ks, k)
	}
	sort.Strings(ks)
	for _, k := range ks {
		structFields["world"] = append(structFields["world"], sfield{name: cfg.Hal.WorldVars[k], width: 64, named: halRef})
	}
}

func (tr *translator) halField(e ast.Expr) (sfield, bool) {
	if tr.mon != "world" {
		return sfield{}, false
	}
	switch e.(type) {
	case *ast.SelectorExpr, *ast.Ident:
	default:
		return sfield{}, false
	}
	n, ok := cfg.Hal.WorldVars[exprText(e)]
	if !ok {
		return sfield{}, false
	}
	for _, f := range structFields["world"] {
		if f.name == n {
			return f, true
		}
	}
	return sfield{}, false
}

// a method with a receiver of a named slice type: the slice is the first parameter, the function runs over the world
func halRecv(tr *translator, decl *ast.FuncDecl, en *env, params *[]string) bool {
	if cfg.Hal == nil || !tr.fn.World {
		return false
	}
	r := decl.Recv.List[0]
	id, ok := r.Type.(*ast.Ident)
	if !ok {
		return false
	}
	elem, ok := cfg.Hal.SliceTypes[id.Name]
	if !ok || len(r.Names) != 1 {
		return false
	}
	tr.mon = "world"
	tr.ptrRecv = "world"
	*params = append(*params, "("+v("world")+" : "+recName(structPkg["world"], "world")+")")
	en.vars[r.Names[0].Name] = tinfo{width: -8, named: elem}
	*params = append(*params, "("+v(r.Names[0].Name)+" : list "+recName(structPkg[elem], elem)+")")
	return true
}

func unparen(e ast.Expr) ast.Expr {
	for {
		p, ok := e.(*ast.ParenExpr)
		if !ok {
			return e
		}
		e = p.X
	}
}

func (tr *translator) halImpl(x string, iface string) string {
	tr.oracleUsed["o_impl"] = "N -> string -> bool"
	return fmt.Sprintf("(gimpl o_impl %s %q%%string)", x, iface)
}

// expressions only this mode knows
func (tr *translator) halExpr(e ast.Expr, en *env) (string, tinfo, bool) {
	if tr.mon != "world" {
		return "", tinfo{}, false
	}
	switch t := e.(type) {
	case *ast.Ident:
		if _, local := en.vars[t.Name]; !local {
			if f, ok := tr.halField(t); ok {
				return "(" + fieldName(tr.mon, f.name) + " " + v(tr.ptrRecv) + ")", tinfo{width: f.width, named: f.named}, true
			}
		}
	case *ast.UnaryExpr:
		if id, ok := t.X.(*ast.Ident); ok && t.Op == token.AND && halIn(cfg.Hal.Addrs, id.Name) {
			tr.extUsed["addr_"+id.Name] = 64
			return "addr_" + id.Name, tinfo{width: 64, named: halRef}, true
		}
	case *ast.BinaryExpr:
		if t.Op != token.EQL && t.Op != token.NEQ {
			return "", tinfo{}, false
		}
		if id, ok := t.Y.(*ast.Ident); !ok || id.Name != "nil" {
			return "", tinfo{}, false
		}
		switch unparen(t.X).(type) {
		case *ast.Ident, *ast.SelectorExpr:
		default:
			return "", tinfo{}, false
		}
		xs, xt := tr.expr(t.X, en)
		if xt.named != halRef {
			return "", tinfo{}, false
		}
		if t.Op == token.EQL {
			return "(" + xs + " =? 0)", tinfo{width: -1}, true
		}
		return "(negb (" + xs + " =? 0))", tinfo{width: -1}, true
	case *ast.CallExpr:
		if txt := exprText(t.Fun); txt != "" && halIn(cfg.Hal.PureFns, txt) {
			name := "o_" + strings.ReplaceAll(txt, ".", "_")
			ty := ""
			var args []string
			for _, a := range t.Args {
				as, at := tr.expr(a, en)
				if at.width < 0 {
					fail("%s: a non-integer argument of %s", tr.fn.Name, txt)
				}
				args = append(args, as)
				ty += "N -> "
			}
			tr.oracleUsed[name] = ty + "N"
			return "(" + strings.Join(append([]string{name}, args...), " ") + ")", tinfo{width: 64, named: halRef}, true
		}
	}
	return "", tinfo{}, false
}

// x.M(args) on a reference: (receiver term, method, spec, call)
func (tr *translator) halRefCall(e ast.Expr, en *env) (string, string, halMethod, *ast.CallExpr, bool) {
	c, ok := e.(*ast.CallExpr)
	if !ok {
		return "", "", halMethod{}, nil, false
	}
	sel, ok := c.Fun.(*ast.SelectorExpr)
	if !ok {
		return "", "", halMethod{}, nil, false
	}
	switch x := unparen(sel.X).(type) {
	case *ast.Ident:
		if ti, isVar := en.vars[x.Name]; !isVar || ti.named != halRef {
			return "", "", halMethod{}, nil, false
		}
	case *ast.SelectorExpr:
		if _, isW := tr.halField(x); !isW {
			return "", "", halMethod{}, nil, false
		}
	default:
		return "", "", halMethod{}, nil, false
	}
	m, known := cfg.Hal.Methods[sel.Sel.Name]
	if !known {
		fail("%s: call of %s on a reference is not described in the config", tr.fn.Name, sel.Sel.Name)
	}
	rs, _ := tr.expr(sel.X, en)
	return rs, sel.Sel.Name, m, c, true
}

func (tr *translator) halCallTerm(recv, name string, m halMethod, c *ast.CallExpr, en *env, body string) string {
	if m.Record {
		args := []string{"(GNum " + recv + ")"}
		for _, a := range c.Args {
			as, at := tr.expr(a, en)
			if at.width < 0 {
				fail("%s: a non-integer argument of %s", tr.fn.Name, name)
			}
			args = append(args, "(GNum "+as+")")
		}
		if len(tr.pre) > 0 {
			fail("%s: an argument of %s needs a bounds check", tr.fn.Name, name)
		}
		body = "let " + v(tr.ptrRecv) + " := " + tr.event(name, args) + " in\n  " + body
	}
	return "if (negb (" + recv + " =? 0))\n  then (" + body + ")\n  else (GPanic)"
}

// f(args) for another world function of the config
func (tr *translator) halWorldCall(t *ast.CallExpr, en *env, body func() string) (string, bool) {
	id, ok := t.Fun.(*ast.Ident)
	if !ok {
		return "", false
	}
	if _, shadow := en.vars[id.Name]; shadow {
		return "", false
	}
	spec, ok := tr.funcs[id.Name]
	if !ok || !spec.World || spec.Pkg != tr.pkg {
		return "", false
	}
	name := coqName(spec.Pkg, spec.Recv, spec.Name)
	rts, done := monResults[name]
	if !done || len(rts) > 0 || monInout[name] {
		fail("%s: call of %s: order the config's funcs callee first; only result-less world functions can be called", tr.fn.Name, spec.Name)
	}
	args := []string{v(tr.ptrRecv)}
	for _, a := range t.Args {
		as, _ := tr.expr(a, en)
		args = append(args, as)
	}
	if len(tr.pre) > 0 {
		fail("%s: an argument of %s needs a bounds check", tr.fn.Name, spec.Name)
	}
	for _, xp := range monExtra[name] {
		args = append(args, xp.name)
		switch xp.kind {
		case "seam":
			tr.seamUsed[xp.name] = xp.width
		case "ext":
			tr.extUsed[xp.name] = xp.width
		case "oracle":
			tr.oracleUsed[xp.name] = xp.ty
		}
	}
	callee := name
	if monFuel[name] {
		callee += " fuel"
		tr.usesFuel = true
	}
	return fmt.Sprintf("match %s %s with GPanic => GPanic | GFuel => GFuel | GOk (%s, _) =>\n  %s end", callee, strings.Join(args, " "), v(tr.ptrRecv), body()), true
}

// statements only this mode knows
func (tr *translator) halStmt(stmts []ast.Stmt, en *env, k func(en *env) string) (string, bool) {
	if tr.mon != "world" {
		return "", false
	}
	rest := func(en2 *env) string { return tr.block(stmts[1:], en2, k) }
	switch s := stmts[0].(type) {
	case *ast.ExprStmt:
		if recv, name, m, c, ok := tr.halRefCall(s.X, en); ok {
			return tr.halCallTerm(recv, name, m, c, en, rest(en)), true
		}
		if c, ok := s.X.(*ast.CallExpr); ok {
			if out, ok := tr.halWorldCall(c, en, func() string { return rest(en) }); ok {
				return out, true
			}
		}
	case *ast.AssignStmt:
		if len(s.Rhs) != 1 || s.Tok != token.DEFINE {
			return "", false
		}
		// a, b := x.M(args): the results are parameters
		if recv, name, m, c, ok := tr.halRefCall(s.Rhs[0], en); ok {
			if len(m.Results) != len(s.Lhs) {
				fail("%s: %s returns %d values in the config", tr.fn.Name, name, len(m.Results))
			}
			en2 := en.clone()
			body := ""
			for i, l := range s.Lhs {
				id := l.(*ast.Ident)
				sv := fmt.Sprintf("s_%s_%d", name, i)
				tr.seamUsed[sv] = m.Results[i]
				if id.Name == "_" {
					continue
				}
				en2.vars[id.Name] = tinfo{width: m.Results[i]}
				body += "let " + v(id.Name) + " := " + sv + " in\n  "
			}
			return tr.halCallTerm(recv, name, m, c, en, body+rest(en2)), true
		}
		// y, ok := (x).(I)
		if ta, isTA := unparen(s.Rhs[0]).(*ast.TypeAssertExpr); isTA && len(s.Lhs) == 2 && ta.Type != nil {
			if ti, isRef := halTypeOf(ta.Type); isRef && ti.named == halRef {
				xs, xt := tr.expr(ta.X, en)
				if xt.named != halRef {
					fail("%s: type assertion on something that is not a reference", tr.fn.Name)
				}
				y, ok := s.Lhs[0].(*ast.Ident).Name, s.Lhs[1].(*ast.Ident).Name
				en2 := en.clone()
				out := "let " + v(ok) + " := " + tr.halImpl(xs, halTypeText(ta.Type)) + " in\n  "
				en2.vars[ok] = tinfo{width: -1}
				if y != "_" {
					out += "let " + v(y) + " := (if " + v(ok) + " then " + xs + " else 0) in\n  "
					en2.vars[y] = tinfo{width: 64, named: halRef}
				}
				return out + rest(en2), true
			}
		}
	case *ast.TypeSwitchStmt:
		var bind string
		var x ast.Expr
		switch a := s.Assign.(type) {
		case *ast.ExprStmt:
			x = a.X
		case *ast.AssignStmt:
			bind = a.Lhs[0].(*ast.Ident).Name
			x = a.Rhs[0]
		}
		ta, ok := x.(*ast.TypeAssertExpr)
		if !ok || ta.Type != nil || s.Init != nil {
			return "", false
		}
		xs, xt := tr.expr(ta.X, en)
		if xt.named != halRef {
			return "", false
		}
		after := func(*env) string { return rest(en) }
		restC := tr.capture(after)
		out := ""
		closing := ""
		deflt := ""
		tr.withCtx(ctx{brk: restC, cont: tr.cx.cont, loopDepth: tr.cx.loopDepth}, func() string {
			for _, c := range s.Body.List {
				cc := c.(*ast.CaseClause)
				en2 := en
				pre := ""
				if bind != "" {
					en2 = en.clone()
					en2.vars[bind] = tinfo{width: 64, named: halRef}
					pre = "let " + v(bind) + " := " + xs + " in\n  "
				}
				if cc.List == nil {
					deflt = pre + tr.block(cc.Body, en2, restC)
					continue
				}
				if len(cc.List) != 1 {
					fail("%s: a type switch clause with several types", tr.fn.Name)
				}
				if ti, isRef := halTypeOf(cc.List[0]); !isRef || ti.named != halRef {
					fail("%s: a type switch clause that is not an interface of the config", tr.fn.Name)
				}
				out += "if " + tr.halImpl(xs, halTypeText(cc.List[0])) + "\n  then (" + pre + tr.block(cc.Body, en2, restC) + ")\n  else ("
				closing += ")"
			}
			return ""
		})
		if deflt == "" {
			deflt = restC(en)
		}
		return out + deflt + closing, true
	case *ast.RangeStmt:
		c, ok := s.X.(*ast.CallExpr)
		if !ok || !halIn(cfg.Hal.MapFns, exprText(c.Fun)) {
			return "", false
		}
		// the body may only assign locals: no return, no call except the listed lookups, no store through a selector
		ast.Inspect(s.Body, func(n ast.Node) bool {
			switch x := n.(type) {
			case *ast.ReturnStmt, *ast.GoStmt, *ast.DeferStmt:
				fail("%s: a summarised loop contains %T", tr.fn.Name, n)
			case *ast.CallExpr:
				if !halIn(cfg.Hal.LookupFns, exprText(x.Fun)) {
					fail("%s: a summarised loop calls %s", tr.fn.Name, exprText(x.Fun))
				}
			case *ast.AssignStmt:
				for _, l := range x.Lhs {
					if _, plain := l.(*ast.Ident); !plain {
						fail("%s: a summarised loop assigns something that is not a local variable", tr.fn.Name)
					}
				}
			case *ast.IncDecStmt:
				if _, plain := x.X.(*ast.Ident); !plain {
					fail("%s: a summarised loop assigns something that is not a local variable", tr.fn.Name)
				}
			case *ast.BranchStmt:
				if x.Label != nil {
					fail("%s: a summarised loop with a labelled branch", tr.fn.Name)
				}
			}
			return true
		})
		// one parameter per SOURCE loop (the code after an if is translated once per branch)
		idx, seen := halRangeIdx[s.Pos()]
		if !seen {
			idx = len(halRangeIdx) + 1
			halRangeIdx[s.Pos()] = idx
		}
		out := ""
		for _, n := range carried(en, []ast.Stmt{s.Body}) {
			p := fmt.Sprintf("rng%d_%s", idx, n)
			tr.oracleUsed[p] = coqTy(en.vars[n])
			out += "let " + v(n) + " := " + p + " in\n  "
		}
		return out + rest(en), true
	}
	return "", false
}
