// ext_c13trans.go: the "pool pointer" mode of gotrans (config keys "poolptr", "payload", "oraclefns", "exttables";
// extended mode "gres" only; without these keys nothing in this file runs and the output of every other config is
// unchanged).  Used for kernel/device/acpi/aml/obj_tree.go (property C13).
//
// SOUNDNESS ASSUMPTION OF THE MODE (the same one the hand-written model Aml/Tree.v makes, checks/C13.py `assumptions`):
//   the receiver struct S owns a slice `pool []*T` (config "poolptr": {"T": "pool"}).
//   (1) Objects never move in the pool: an entry of the slice is written exactly once, by
//       `p = new(T); ...; s.pool = append(s.pool, p)`, and never overwritten, removed or reordered.
//   (2) No entry of the pool is nil, and no two entries are the same pointer.
//   (3) Every *T that the translated functions receive, hold or return is nil or was obtained from THIS pool.
//   Under (1)-(3) a *T is determined by its position in the slice, so the translation models a value of type *T as
//   `option N` (nil = None, the pointer stored in pool[i] = Some i), the slice as the list of the POINTEES (records),
//     p.f             a read of field f of element i  (gderef; nil or a position beyond the list: GPanic)
//     p.f = e         e is evaluated first, then element i is read, its field replaced and the element written back (gpstore)
//     s.pool[i]       a bounds check (unsigned index) that yields Some i (gpoolat); out of range: GPanic
//     p == nil        gisnil
//     p = new(T); p.f = e ..; s.pool = append(s.pool, p)
//                     only in exactly this shape (statements between new and append may only assign fields of p): the
//                     fresh pointee is a local record until the append, which makes p = Some (len pool) and adds the record
//     len(s.pool)     the length of the list
//   `p.index`, or any other field of T, is a PLAIN field that the translation reads and writes: nothing relates it to the
//   position (the theorems about the translation quantify over every pool, also those where index and position differ).
//   Aliasing is exact: two variables holding the same position see each other's writes, because every read and write goes
//   through the one list.  Exhaustion of memory by new/append is not modelled; a pool longer than an int is not modelled.
//
// Further constructs of the mode:
//   - config "payload": {"T": ["value"]}: a field of interface type carried around but never inspected: `option V` for a
//     type variable V of the generated file (the whole file is a Section over V); only `p.value = nil` and copies.
//   - calls s.M(args) of translated methods may be nested in expressions when M is PURE (its body assigns nothing but
//     local variables and calls only pure methods; decided on the syntax tree), because Go leaves the order of a call
//     relative to the other operand reads of a statement unspecified only if the call can change what they read; a call of
//     an impure method must still be the whole expression of its statement, and may sit in the arguments of another call
//     only when every other operand there is a local variable or a constant (tree.append(root, tree.newNamedObject(..))).
//   - config "oraclefns": {"f": {"params": [..], "result": "uint8"}}: a package-level function that is not translated:
//     the translated caller takes a parameter o_f : params -> option result (None = the call panics).
//   - config "exttables": {"tbl.field": "coqlist:width"}: tbl[i].field for a package-level table of structs whose column
//     `field` is the regenerated constant list `coqlist` (bounds-checked: out of range is GPanic); "tbl": "coqlist:8" for a
//     package-level byte array read as tbl[i]; "tbl.len": "coqname:s64" for len(tbl).
//   - array literals [n]byte{a, ..} with fewer than n elements are padded with zeros (gpad); var p *T is nil.
//   - labelled loops: `continue L` where L labels an enclosing for statement (rewritten on the syntax tree with a flag);
//   - a loop condition `a && b` / `a || b` whose right operand reads an element or goes through a pointer moves into the
//     body as `if cond {} else { break }` (Go's short circuit, nested ifs);
//   - an if statement without return / break / continue is JOINED (its continuation is translated once).
// The Coq meaning of gderef / gpstore / gpoolat / gisnil / gpnewptr / gpappend / gpad is in coq/theories/Lib/GoPool.v.
package main

import (
	"fmt"
	"go/ast"
	"go/parser"
	"go/token"
	"path/filepath"
	"strings"
)

type oracleFn struct {
	Params []string `json:"params"` // "uint8".."uint64", "bool"
	Result string   `json:"result"`
}

// type codes of this mode: -31 payload (option V), -32 pool pointer (option N), -33 a local that statically holds the
// result of new(T) which has not been appended to the pool yet (its pointee is the Coq variable v_<name>__new)

var poolArrayLen = map[string]string{} // "T.field" -> Coq term of the length of the byte array

func poolPtrTypeOf(t *ast.StarExpr) (tinfo, bool) {
	if cfg.PoolPtr == nil {
		return tinfo{}, false
	}
	if id, ok := t.X.(*ast.Ident); ok {
		if _, ok := cfg.PoolPtr[id.Name]; ok {
			return tinfo{width: -32, named: id.Name}, true
		}
	}
	return tinfo{}, false
}

func poolCoqTy(ti tinfo) (string, bool) {
	switch ti.width {
	case -31:
		return "option V", true
	case -32:
		return "option N", true
	}
	return "", false
}

// poolStructField: []*T becomes a slice of T's records; the length of a byte array is remembered for zero values
func poolStructField(st string, fl *ast.Field, pkg string, sf *sfield) {
	at, ok := fl.Type.(*ast.ArrayType)
	if !ok {
		return
	}
	if at.Len == nil {
		if se, ok := at.Elt.(*ast.StarExpr); ok {
			if ti, ok := poolPtrTypeOf(se); ok {
				for _, n := range fl.Names {
					if cfg.PoolPtr[ti.named] != n.Name {
						fail("struct %s: field %s is a slice of *%s but is not the pool named in config poolptr", st, n.Name, ti.named)
					}
				}
				sf.width = -8
				sf.named = ti.named
			}
		}
		return
	}
	if sf.width == -4 && sf.array {
		l := ""
		switch x := at.Len.(type) {
		case *ast.BasicLit:
			l = "(" + x.Value + ")%N"
		case *ast.Ident:
			if c, ok := cfg.Consts[pkg+"."+x.Name]; ok {
				l, _ = splitNameWidth(c)
			}
		}
		for _, n := range fl.Names {
			poolArrayLen[st+"."+n.Name] = l
		}
	}
}

func poolFieldWidth(st, name string, w int) int {
	for _, p := range cfg.Payload[st] {
		if p == name {
			return -31
		}
	}
	return w
}

func freshVar(name string) string { return v(name) + "__new" }

func poolField(tr *translator, st, name string) sfield {
	for _, f := range structFields[st] {
		if f.name == name {
			return f
		}
	}
	fail("%s: no field %s in %s", tr.fn.Name, name, st)
	return sfield{}
}

func fieldT(f sfield) tinfo {
	return tinfo{width: f.width, signed: f.signed, array: f.array, elem: f.elem, named: f.named}
}

// poolFieldOfRecv: the field of the receiver struct that is the pool of T
func (tr *translator) poolFieldOfRecv(T string) sfield {
	name := cfg.PoolPtr[T]
	for _, f := range structFields[tr.mon] {
		if f.name == name && f.width == -8 && f.named == T {
			return f
		}
	}
	fail("%s: the receiver %s has no pool field %s of *%s", tr.fn.Name, tr.mon, name, T)
	return sfield{}
}

func (tr *translator) poolTerm(T string) string {
	f := tr.poolFieldOfRecv(T)
	return "(" + fieldName(tr.mon, f.name) + " " + v(tr.ptrRecv) + ")"
}

// recvMethod: e is recv.M(args) for a translated method M of the receiver's struct
func (tr *translator) recvMethod(e ast.Expr) (fnSpec, bool) {
	c, ok := e.(*ast.CallExpr)
	if !ok {
		return fnSpec{}, false
	}
	sel, ok := c.Fun.(*ast.SelectorExpr)
	if !ok {
		return fnSpec{}, false
	}
	id, ok := sel.X.(*ast.Ident)
	if !ok || id.Name != tr.ptrRecv {
		return fnSpec{}, false
	}
	spec, ok := tr.funcs[tr.mon+"."+sel.Sel.Name]
	return spec, ok
}

// isPtrExpr: e has a pool pointer type (decided without translating it)
func (tr *translator) isPtrExpr(e ast.Expr, en *env) (string, bool) {
	switch t := e.(type) {
	case *ast.ParenExpr:
		return tr.isPtrExpr(t.X, en)
	case *ast.Ident:
		if ti, ok := en.vars[t.Name]; ok && ti.width == -32 {
			return ti.named, true
		}
	case *ast.CallExpr:
		if spec, ok := tr.recvMethod(t); ok {
			rts := monResults[coqName(spec.Pkg, spec.Recv, spec.Name)]
			if len(rts) == 1 && rts[0].width == -32 {
				return rts[0].named, true
			}
		}
	case *ast.IndexExpr:
		if f, ok := tr.recvField(t.X); ok && f.width == -8 {
			if cfg.PoolPtr[f.named] == f.name {
				return f.named, true
			}
		}
	}
	return "", false
}

func isNilIdent(e ast.Expr) bool {
	id, ok := e.(*ast.Ident)
	return ok && id.Name == "nil"
}

var poolPureCache = map[string]int{} // 1 pure, 2 impure, 3 being computed

// poolPure: the method assigns nothing but local variables, does not call new / append / copy, and calls only pure
// methods of the receiver (decided on the syntax tree)
func (tr *translator) poolPure(spec fnSpec) bool {
	key := spec.Recv + "." + spec.Name
	switch poolPureCache[key] {
	case 1:
		return true
	case 2, 3:
		return false
	}
	poolPureCache[key] = 3
	file, err := parser.ParseFile(token.NewFileSet(), filepath.Join(cfg.Repo, spec.File), nil, 0)
	if err != nil {
		fail("%v", err)
	}
	pure := false
	for _, d := range file.Decls {
		fd, ok := d.(*ast.FuncDecl)
		if !ok || fd.Name.Name != spec.Name || fd.Body == nil || fd.Recv == nil || len(fd.Recv.List) != 1 {
			continue
		}
		rt := fd.Recv.List[0].Type
		if st, ok := rt.(*ast.StarExpr); ok {
			rt = st.X
		}
		if id, ok := rt.(*ast.Ident); !ok || id.Name != spec.Recv {
			continue
		}
		recvName := ""
		if len(fd.Recv.List[0].Names) == 1 {
			recvName = fd.Recv.List[0].Names[0].Name
		}
		pure = true
		ast.Inspect(fd.Body, func(n ast.Node) bool {
			switch s := n.(type) {
			case *ast.AssignStmt:
				for _, l := range s.Lhs {
					if _, ok := l.(*ast.Ident); !ok {
						pure = false
					}
				}
			case *ast.IncDecStmt:
				if _, ok := s.X.(*ast.Ident); !ok {
					pure = false
				}
			case *ast.RangeStmt:
				for _, l := range []ast.Expr{s.Key, s.Value} {
					if l != nil {
						if _, ok := l.(*ast.Ident); !ok {
							pure = false
						}
					}
				}
			case *ast.GoStmt, *ast.DeferStmt, *ast.SendStmt:
				pure = false
			case *ast.CallExpr:
				switch f := s.Fun.(type) {
				case *ast.Ident:
					switch f.Name {
					case "new", "append", "copy", "make", "delete", "panic":
						if f.Name != "panic" {
							pure = false
						}
					default:
						if _, isOracle := cfg.OracleFns[f.Name]; !isOracle {
							if typeOf(f, spec.Pkg).width <= 0 && f.Name != "len" {
								pure = false // an unknown function
							}
						}
					}
				case *ast.SelectorExpr:
					id, ok := f.X.(*ast.Ident)
					if !ok || id.Name != recvName {
						pure = false
						break
					}
					callee, ok := tr.funcs[spec.Recv+"."+f.Sel.Name]
					if !ok || !tr.poolPure(callee) {
						pure = false
					}
				default:
					if typeOf(s.Fun, spec.Pkg).width <= 0 {
						pure = false
					}
				}
			}
			return true
		})
	}
	if pure {
		poolPureCache[key] = 1
	} else {
		poolPureCache[key] = 2
	}
	return pure
}

var poolImpureCount int

// stableArgs: every operand in the arguments of the call (recursively, through nested calls of translated methods and
// array literals) is a local variable, a parameter, a constant of the config or a literal - nothing a call could change
func (tr *translator) stableArgs(c *ast.CallExpr, en *env) bool {
	var stable func(e ast.Expr) bool
	stable = func(e ast.Expr) bool {
		switch x := e.(type) {
		case *ast.ParenExpr:
			return stable(x.X)
		case *ast.BasicLit:
			return true
		case *ast.Ident:
			if x.Name == tr.ptrRecv {
				return false
			}
			if _, ok := en.vars[x.Name]; ok {
				return true
			}
			if _, ok := cfg.Consts[tr.pkg+"."+x.Name]; ok {
				return true
			}
			return x.Name == "true" || x.Name == "false" || x.Name == "nil"
		case *ast.CompositeLit:
			for _, el := range x.Elts {
				if !stable(el) {
					return false
				}
			}
			return true
		case *ast.CallExpr:
			if _, ok := tr.recvMethod(x); ok {
				return tr.stableArgs(x, en)
			}
		}
		return false
	}
	for _, a := range c.Args {
		if !stable(a) {
			return false
		}
	}
	return true
}

// poolExpr: the expressions of the mode; ok = false hands the expression to the ordinary translator
func (tr *translator) poolExpr(e ast.Expr, en *env) (string, tinfo, bool) {
	if tr.poolBypass {
		tr.poolBypass = false
		return "", tinfo{}, false
	}
	if tr.mon == "" || !cfg.Gres {
		return "", tinfo{}, false
	}
	switch t := e.(type) {
	case *ast.Ident:
		if ti, ok := en.vars[t.Name]; ok && ti.width == -33 {
			fail("%s: %s, fresh from new(%s), is used before it is appended to the pool", tr.fn.Name, t.Name, ti.named)
		}
		if c, ok := cfg.ExtTables[t.Name]; ok {
			// a package-level byte array / slice that is a regenerated constant list (config "exttables": "name": "coqlist:8")
			if _, isVar := en.vars[t.Name]; !isVar {
				coq, w := splitNameWidth(c)
				if w != 8 {
					fail("%s: table %s must be a byte table", tr.fn.Name, t.Name)
				}
				return coq, tinfo{width: -4, array: true}, true
			}
		}
	case *ast.SelectorExpr:
		if id, ok := t.X.(*ast.Ident); ok {
			if ti, ok := en.vars[id.Name]; ok && ti.width == -33 {
				f := poolField(tr, ti.named, t.Sel.Name)
				return "(" + fieldName(ti.named, f.name) + " " + freshVar(id.Name) + ")", fieldT(f), true
			}
		}
		if T, ok := tr.isPtrExpr(t.X, en); ok {
			f := poolField(tr, T, t.Sel.Name)
			if tr.noHoist > 0 {
				fail("%s: pointer dereference under && or ||", tr.fn.Name)
			}
			xs, _ := tr.expr(t.X, en)
			tmp := tr.tmp()
			tr.pre = append(tr.pre, matchOpt(fmt.Sprintf("gderef %s %s", tr.poolTerm(T), xs), tmp))
			return "(" + fieldName(T, f.name) + " " + tmp + ")", fieldT(f), true
		}
		if ix, ok := t.X.(*ast.IndexExpr); ok {
			if id, ok := ix.X.(*ast.Ident); ok {
				if _, isVar := en.vars[id.Name]; !isVar {
					if c, ok := cfg.ExtTables[id.Name+"."+t.Sel.Name]; ok {
						if tr.noHoist > 0 {
							fail("%s: table lookup under && or ||", tr.fn.Name)
						}
						coq, w := splitNameWidth(c)
						is, it := tr.expr(ix.Index, en)
						if it.signed || it.width <= 0 {
							fail("%s: index of table %s must be an unsigned integer", tr.fn.Name, id.Name)
						}
						tmp := tr.tmp()
						tr.pre = append(tr.pre, matchOpt(fmt.Sprintf("gidx %s %s", coq, is), tmp))
						return tmp, tinfo{width: w}, true
					}
				}
			}
		}
	case *ast.IndexExpr:
		if T, ok := tr.isPtrExpr(t, en); ok {
			if tr.noHoist > 0 {
				fail("%s: index expression under && or ||", tr.fn.Name)
			}
			is, it := tr.expr(t.Index, en)
			if it.signed || it.width < 0 {
				fail("%s: the index into the pool must be an unsigned integer", tr.fn.Name)
			}
			tmp := tr.tmp()
			tr.pre = append(tr.pre, matchOpt(fmt.Sprintf("gpoolat %s %s", tr.poolTerm(T), is), tmp))
			return tmp, tinfo{width: -32, named: T}, true
		}
	case *ast.BinaryExpr:
		if t.Op == token.EQL || t.Op == token.NEQ {
			x, y := t.X, t.Y
			if isNilIdent(x) {
				x, y = y, x
			}
			if _, ok := tr.isPtrExpr(x, en); ok {
				if !isNilIdent(y) {
					fail("%s: comparison of two pointers", tr.fn.Name)
				}
				xs, _ := tr.expr(x, en)
				if t.Op == token.EQL {
					return "(gisnil " + xs + ")", tinfo{width: -1}, true
				}
				return "(negb (gisnil " + xs + "))", tinfo{width: -1}, true
			}
		}
	case *ast.CompositeLit:
		if at, ok := t.Type.(*ast.ArrayType); ok && at.Len != nil {
			if ty := typeOf(t.Type, tr.pkg); ty.width == -4 && ty.array {
				ls, _ := tr.expr(at.Len, en)
				lst := "nil"
				for i := len(t.Elts) - 1; i >= 0; i-- {
					if _, kv := t.Elts[i].(*ast.KeyValueExpr); kv {
						fail("%s: keyed array literal", tr.fn.Name)
					}
					x, xt := tr.expr(t.Elts[i], en)
					if xt.width == 0 {
						x = tr.wrap(8, x)
					}
					lst = x + " :: " + lst
				}
				return "(gpad " + ls + " (" + lst + "))", ty, true
			}
		}
	case *ast.CallExpr:
		if id, ok := t.Fun.(*ast.Ident); ok && id.Name == "len" && len(t.Args) == 1 {
			// len(tbl) of a package-level table whose length is a regenerated constant (config "exttables": "tbl.len": "coqname:s64")
			if aid, ok := t.Args[0].(*ast.Ident); ok {
				if _, isVar := en.vars[aid.Name]; !isVar {
					if c, ok := cfg.ExtTables[aid.Name+".len"]; ok {
						coq, _ := splitNameWidth(c)
						return coq, tinfo{width: 64, signed: true}, true
					}
				}
			}
		}
		if spec, ok := tr.recvMethod(t); ok {
			saved := tr.hoistedCall
			c0 := poolImpureCount
			tr.poolBypass = true
			s, ti := tr.expr(e, en)
			if poolImpureCount > c0 && !tr.stableArgs(t, en) {
				// Go orders the calls of a statement (lexically, inner before outer) but not the other operand reads
				// relative to them: an impure call may sit in the arguments of another call only if every other operand
				// is a local variable or a constant, which no call can change
				fail("%s: a call of an impure method in the arguments of %s next to operands that are not local variables or constants", tr.fn.Name, spec.Name)
			}
			if tr.poolPure(spec) {
				tr.hoistedCall = saved
			} else {
				poolImpureCount++
			}
			return s, ti, true
		}
		if id, ok := t.Fun.(*ast.Ident); ok {
			if of, ok := cfg.OracleFns[id.Name]; ok {
				if _, shadowed := en.vars[id.Name]; !shadowed {
					if tr.noHoist > 0 {
						fail("%s: call of %s under && or ||", tr.fn.Name, id.Name)
					}
					if len(of.Params) != len(t.Args) {
						fail("%s: %s takes %d arguments in the config", tr.fn.Name, id.Name, len(of.Params))
					}
					var args, tys []string
					for i, a := range t.Args {
						as, at := tr.expr(a, en)
						if of.Params[i] == "bool" {
							tys = append(tys, "bool")
						} else {
							pt := oracleTy(of.Params[i])
							if at.width == 0 {
								as = tr.wrap(pt.width, as)
							}
							tys = append(tys, "N")
						}
						args = append(args, as)
					}
					rt := oracleTy(of.Result)
					on := "o_" + id.Name
					tr.oracleUsed[on] = strings.Join(tys, " -> ") + " -> option " + coqTy(rt)
					tmp := tr.tmp()
					tr.pre = append(tr.pre, matchOpt(on+" "+strings.Join(args, " "), tmp))
					return tmp, rt, true
				}
			}
		}
	}
	return "", tinfo{}, false
}

func (tr *translator) poolZero(T string) string {
	var parts []string
	for _, f := range structFields[T] {
		switch {
		case f.width > 0:
			parts = append(parts, "0")
		case f.width == -4 && f.array:
			l := poolArrayLen[T+"."+f.name]
			if l == "" {
				fail("%s: the length of the array field %s.%s is not a literal or a constant of the config", tr.fn.Name, T, f.name)
			}
			parts = append(parts, "(gpad "+l+" nil)")
		case f.width == -4 || f.width == -8:
			parts = append(parts, "nil")
		case f.width == -6:
			parts = append(parts, "false")
		case f.width == -31:
			parts = append(parts, "None")
		default:
			fail("%s: no zero value for field %s.%s", tr.fn.Name, T, f.name)
		}
	}
	return "(mk_" + recName(structPkg[T], T) + " " + strings.Join(parts, " ") + ")"
}

// fieldValue: the Coq term stored into field f for a right-hand side rhs of type rt
func (tr *translator) fieldValue(f sfield, rhs string, rt tinfo) string {
	switch {
	case f.width > 0:
		if rt.width == 0 {
			return tr.wrap(f.width, rhs)
		}
		if rt.width > 0 {
			return rhs
		}
	case f.width == -4 && f.array:
		if rt.width == -4 {
			return rhs // arrays are values: a copy
		}
	case f.width == -31:
		if rt.width == -31 || (rt.width == -2 && rhs == "None") {
			return rhs
		}
	}
	fail("%s: unsupported assignment to field %s", tr.fn.Name, f.name)
	return ""
}

// isPoolAppend: s is recv.pool = append(recv.pool, X)
func (tr *translator) isPoolAppend(s ast.Stmt, T, X string) bool {
	as, ok := s.(*ast.AssignStmt)
	if !ok || as.Tok != token.ASSIGN || len(as.Lhs) != 1 || len(as.Rhs) != 1 {
		return false
	}
	pf := tr.poolFieldOfRecv(T)
	if f, ok := tr.recvField(as.Lhs[0]); !ok || f.name != pf.name {
		return false
	}
	c, ok := as.Rhs[0].(*ast.CallExpr)
	if !ok || exprText(c.Fun) != "append" || len(c.Args) != 2 || c.Ellipsis.IsValid() {
		return false
	}
	if f, ok := tr.recvField(c.Args[0]); !ok || f.name != pf.name {
		return false
	}
	id, ok := c.Args[1].(*ast.Ident)
	return ok && id.Name == X
}

// poolStmt: the statements of the mode; ok = false hands the statement to the ordinary translator
func (tr *translator) poolStmt(stmts []ast.Stmt, en *env, k func(*env) string) (string, bool) {
	if tr.mon == "" || !cfg.Gres {
		return "", false
	}
	rest := func(en2 *env) string { return tr.block(stmts[1:], en2, k) }
	switch s := stmts[0].(type) {
	case *ast.DeclStmt:
		// var p *T : nil
		gd, ok := s.Decl.(*ast.GenDecl)
		if !ok || gd.Tok != token.VAR {
			return "", false
		}
		for _, sp := range gd.Specs {
			vs := sp.(*ast.ValueSpec)
			if vs.Type == nil || len(vs.Values) != 0 || typeOf(vs.Type, tr.pkg).width != -32 {
				return "", false
			}
		}
		en2 := en.clone()
		out := ""
		for _, sp := range gd.Specs {
			vs := sp.(*ast.ValueSpec)
			for _, n := range vs.Names {
				if _, dup := en.vars[n.Name]; dup {
					fail("%s: var %s shadows a variable of an enclosing scope", tr.fn.Name, n.Name)
				}
				en2.vars[n.Name] = typeOf(vs.Type, tr.pkg)
				out += "let " + v(n.Name) + " := (@None N) in\n  "
			}
		}
		return out + rest(en2), true
	case *ast.LabeledStmt:
		return tr.poolLabeled(s, stmts, en, k)
	case *ast.ForStmt:
		// for init; a && b; post { body } where b reads an element or goes through a pointer: Go evaluates b only when a holds,
		// so the condition moves into the body as `if a && b {} else { break }` (translated as nested ifs); post still
		// runs after the body and after continue
		if be, ok := s.Cond.(*ast.BinaryExpr); ok && (be.Op == token.LAND || be.Op == token.LOR) && needsHoist(be.Y) {
			guard := &ast.IfStmt{Cond: stripLogicParens(s.Cond), Body: &ast.BlockStmt{}, Else: &ast.BlockStmt{List: []ast.Stmt{&ast.BranchStmt{Tok: token.BREAK}}}}
			body := &ast.BlockStmt{List: append([]ast.Stmt{guard}, s.Body.List...)}
			loop := &ast.ForStmt{Init: s.Init, Post: s.Post, Body: body}
			return tr.block(append([]ast.Stmt{loop}, stmts[1:]...), en, k), true
		}
	case *ast.IfStmt:
		// an if statement without return / break / continue in its branches is JOINED: it yields the receiver record and
		// the locals it assigns (or GPanic), and the statements after it are translated once, not once per branch
		if s.Init != nil || poolHasJump(s) {
			return "", false
		}
		if be, ok := s.Cond.(*ast.BinaryExpr); ok && (be.Op == token.LOR || be.Op == token.LAND) && needsHoist(be.Y) {
			return "", false // rewritten into nested ifs by the ordinary translator first (Go's short circuit)
		}
		var parts []ast.Stmt
		parts = append(parts, s.Body)
		if s.Else != nil {
			parts = append(parts, s.Else)
		}
		names := carried(en, parts)
		pat, ty := tr.statePat(names, en)
		fin := func(*env) string { return "(GOk " + pat + ")" }
		c, _ := tr.expr(s.Cond, en)
		pre := tr.takePre(s.Cond)
		thn := tr.block(s.Body.List, en, fin)
		els := fin(en)
		switch e := s.Else.(type) {
		case *ast.BlockStmt:
			els = tr.block(e.List, en, fin)
		case *ast.IfStmt:
			els = tr.block([]ast.Stmt{e}, en, fin)
		}
		out := "match (if " + c + "\n  then (" + thn + ")\n  else (" + els + ")) : gres " + ty + " with\n  | GPanic => GPanic | GFuel => GFuel\n  | GOk st => " + letPat(pat) + "\n  " + rest(en) + "\n  end"
		return tr.wrapPre(pre, out), true
	case *ast.AssignStmt:
		if len(s.Lhs) != 1 || len(s.Rhs) != 1 {
			return "", false
		}
		// X = new(T) ; X.f = e ... ; recv.pool = append(recv.pool, X)
		if c, ok := s.Rhs[0].(*ast.CallExpr); ok && exprText(c.Fun) == "new" && len(c.Args) == 1 {
			tid, ok := c.Args[0].(*ast.Ident)
			if !ok {
				return "", false
			}
			T := tid.Name
			if _, ok := cfg.PoolPtr[T]; !ok {
				return "", false
			}
			xid, ok := s.Lhs[0].(*ast.Ident)
			if !ok {
				fail("%s: new(%s) must be assigned to a local variable", tr.fn.Name, T)
			}
			X := xid.Name
			cur, declared := en.vars[X]
			if s.Tok == token.DEFINE && declared {
				fail("%s: %s := new(..) re-declares a variable", tr.fn.Name, X)
			}
			if s.Tok == token.ASSIGN && (!declared || cur.width != -32 || cur.named != T) {
				fail("%s: new(%s) assigned to something that is not a *%s variable", tr.fn.Name, T, T)
			}
			if s.Tok != token.ASSIGN && s.Tok != token.DEFINE {
				return "", false
			}
			j := -1
			for i := 1; i < len(stmts); i++ {
				if tr.isPoolAppend(stmts[i], T, X) {
					j = i
					break
				}
				as, ok := stmts[i].(*ast.AssignStmt)
				good := ok && as.Tok == token.ASSIGN && len(as.Lhs) == 1 && len(as.Rhs) == 1
				if good {
					sel, ok := as.Lhs[0].(*ast.SelectorExpr)
					good = ok
					if ok {
						id, ok := sel.X.(*ast.Ident)
						good = ok && id.Name == X
					}
				}
				if !good {
					break
				}
			}
			if j < 0 {
				fail("%s: %s = new(%s) must be followed by assignments to fields of %s and then by the append to the pool", tr.fn.Name, X, T, X)
			}
			fv := freshVar(X)
			en2 := en.clone()
			en2.vars[X] = tinfo{width: -33, named: T}
			out := "let " + fv + " := " + tr.poolZero(T) + " in\n  "
			out += tr.block(stmts[1:j], en2, func(*env) string {
				pool := tr.poolTerm(T)
				en3 := en.clone()
				en3.vars[X] = tinfo{width: -32, named: T}
				a := "let " + v(X) + " := (gpnewptr " + pool + ") in\n  "
				a += "let " + v(tr.ptrRecv) + " := " + tr.setField(tr.poolFieldOfRecv(T), "(gpappend "+pool+" "+fv+")") + " in\n  "
				return a + tr.block(stmts[j+1:], en3, k)
			})
			return out, true
		}
		// P.f = e through a pool pointer (or into the pointee of a fresh new(T))
		sel, ok := s.Lhs[0].(*ast.SelectorExpr)
		if !ok {
			return "", false
		}
		if id, ok := sel.X.(*ast.Ident); ok {
			if ti, ok := en.vars[id.Name]; ok && ti.width == -33 {
				if s.Tok != token.ASSIGN {
					fail("%s: only plain assignment to a field through a pointer", tr.fn.Name)
				}
				f := poolField(tr, ti.named, sel.Sel.Name)
				rhs, rt := tr.expr(s.Rhs[0], en)
				val := tr.fieldValue(f, rhs, rt)
				pre := tr.takePre(s.Rhs[0])
				fv := freshVar(id.Name)
				return tr.wrapPre(pre, "let "+fv+" := (set_"+fieldName(ti.named, f.name)+" "+fv+" "+val+") in\n  "+rest(en)), true
			}
		}
		T, ok := tr.isPtrExpr(sel.X, en)
		if !ok {
			return "", false
		}
		if s.Tok != token.ASSIGN {
			fail("%s: only plain assignment to a field through a pointer", tr.fn.Name)
		}
		f := poolField(tr, T, sel.Sel.Name)
		rhs, rt := tr.expr(s.Rhs[0], en)
		val := tr.fieldValue(f, rhs, rt)
		ps, _ := tr.expr(sel.X, en)
		cur := tr.tmp()
		tr.pre = append(tr.pre, matchOpt(fmt.Sprintf("gderef %s %s", tr.poolTerm(T), ps), cur))
		np := tr.tmp()
		tr.pre = append(tr.pre, matchOpt(fmt.Sprintf("gpstore %s %s (set_%s %s %s)", tr.poolTerm(T), ps, fieldName(T, f.name), cur, val), np))
		pre := tr.takePre(s.Rhs[0])
		return tr.wrapPre(pre, "let "+v(tr.ptrRecv)+" := "+tr.setField(tr.poolFieldOfRecv(T), np)+" in\n  "+rest(en)), true
	}
	return "", false
}

// stripLogicParens removes the parentheses around the operands of && and || (the tree already encodes the grouping), so
// that the ordinary translator sees the binary expression when it splits a short-circuit condition into nested ifs
func stripLogicParens(e ast.Expr) ast.Expr {
	for {
		p, ok := e.(*ast.ParenExpr)
		if !ok {
			break
		}
		if b, ok := p.X.(*ast.BinaryExpr); ok && (b.Op == token.LAND || b.Op == token.LOR) {
			e = p.X
			continue
		}
		break
	}
	if b, ok := e.(*ast.BinaryExpr); ok && (b.Op == token.LAND || b.Op == token.LOR) {
		return &ast.BinaryExpr{X: stripLogicParens(b.X), Op: b.Op, Y: stripLogicParens(b.Y), OpPos: b.OpPos}
	}
	return e
}

// poolHasJump: the statement contains a return, break, continue, goto or a labelled statement
func poolHasJump(n ast.Node) bool {
	found := false
	ast.Inspect(n, func(m ast.Node) bool {
		switch m.(type) {
		case *ast.ReturnStmt, *ast.BranchStmt, *ast.LabeledStmt:
			found = true
		}
		return !found
	})
	return found
}

// labelled loops -------------------------------------------------------------------------------------------------

var poolLabelUsed = map[*ast.LabeledStmt]bool{} // labelled loops already rewritten (the body is translated twice) -> whether the flag is used

// poolLabeled: `L: for ... { ... continue L ... }`.  `continue L` from the body of L itself (same loop depth) is an
// ordinary continue.  From a loop nested ONE level deeper it must leave that inner loop and continue the outer one: the
// inner loop's step returns GBreak with a flag local set, and the statement after the inner loop tests the flag.  To keep
// the translation simple and obviously right this is done on the syntax tree: a fresh bool local `cont_L` is declared in
// front of the inner loop, `continue L` inside it becomes `cont_L = true; break`, and `if cont_L { continue }` follows the
// inner loop.  (Deeper nesting is rejected.)
func (tr *translator) poolLabeled(s *ast.LabeledStmt, stmts []ast.Stmt, en *env, k func(*env) string) (string, bool) {
	fs, ok := s.Stmt.(*ast.ForStmt)
	if !ok {
		fail("%s: label %s on something that is not a for statement", tr.fn.Name, s.Label.Name)
	}
	L := s.Label.Name
	flag := "cont_" + L
	// rewrite the body: inner for statements (one level) that contain `continue L`
	var rewriteList func(list []ast.Stmt) []ast.Stmt
	uses := func(n ast.Node) bool {
		found := false
		ast.Inspect(n, func(m ast.Node) bool {
			if b, ok := m.(*ast.BranchStmt); ok && b.Label != nil && b.Label.Name == L {
				found = true
			}
			return !found
		})
		return found
	}
	var rewriteInner func(n ast.Node)
	rewriteInner = func(n ast.Node) {
		// inside an inner loop: `continue L` -> { cont_L = true; break }; a loop nested deeper is rejected
		ast.Inspect(n, func(m ast.Node) bool {
			switch b := m.(type) {
			case *ast.ForStmt, *ast.RangeStmt, *ast.SwitchStmt:
				if m != n && uses(m) {
					fail("%s: continue %s from a loop or switch nested two levels deep", tr.fn.Name, L)
				}
			case *ast.BlockStmt:
				for i, st := range b.List {
					if br, ok := st.(*ast.BranchStmt); ok && br.Label != nil && br.Label.Name == L {
						if br.Tok != token.CONTINUE {
							fail("%s: only continue may name the label %s", tr.fn.Name, L)
						}
						b.List[i] = &ast.BlockStmt{List: []ast.Stmt{
							&ast.AssignStmt{Lhs: []ast.Expr{ast.NewIdent(flag)}, Tok: token.ASSIGN, Rhs: []ast.Expr{ast.NewIdent("true")}},
							&ast.BranchStmt{Tok: token.BREAK},
						}}
					}
				}
			}
			return true
		})
	}
	usedFlag := false
	rewriteList = func(list []ast.Stmt) []ast.Stmt {
		var out []ast.Stmt
		for _, st := range list {
			switch x := st.(type) {
			case *ast.ForStmt:
				if uses(x) {
					usedFlag = true
					rewriteInner(x)
					out = append(out,
						&ast.AssignStmt{Lhs: []ast.Expr{ast.NewIdent(flag)}, Tok: token.ASSIGN, Rhs: []ast.Expr{ast.NewIdent("false")}},
						x,
						&ast.IfStmt{Cond: ast.NewIdent(flag), Body: &ast.BlockStmt{List: []ast.Stmt{&ast.BranchStmt{Tok: token.CONTINUE}}}})
					continue
				}
			case *ast.LabeledStmt:
				if inner, ok := x.Stmt.(*ast.ForStmt); ok && uses(inner) {
					usedFlag = true
					rewriteInner(inner)
					out = append(out,
						&ast.AssignStmt{Lhs: []ast.Expr{ast.NewIdent(flag)}, Tok: token.ASSIGN, Rhs: []ast.Expr{ast.NewIdent("false")}},
						x,
						&ast.IfStmt{Cond: ast.NewIdent(flag), Body: &ast.BlockStmt{List: []ast.Stmt{&ast.BranchStmt{Tok: token.CONTINUE}}}})
					continue
				}
			case *ast.BranchStmt:
				if x.Label != nil && x.Label.Name == L {
					if x.Tok != token.CONTINUE {
						fail("%s: only continue may name the label %s", tr.fn.Name, L)
					}
					out = append(out, &ast.BranchStmt{Tok: token.CONTINUE})
					continue
				}
			case *ast.IfStmt:
				if uses(x) {
					x.Body.List = rewriteList(x.Body.List)
					switch e := x.Else.(type) {
					case *ast.BlockStmt:
						e.List = rewriteList(e.List)
					case nil:
					default:
						if uses(e) {
							fail("%s: continue %s in an else-if chain", tr.fn.Name, L)
						}
					}
				}
			case *ast.BlockStmt:
				x.List = rewriteList(x.List)
			default:
				if uses(st) {
					fail("%s: continue %s in an unsupported position", tr.fn.Name, L)
				}
			}
			out = append(out, st)
		}
		return out
	}
	if _, dup := en.vars[flag]; dup {
		fail("%s: label %s used twice in nested loops", tr.fn.Name, L)
	}
	if done, seen := poolLabelUsed[s]; seen {
		usedFlag = done
	} else {
		fs.Body.List = rewriteList(fs.Body.List)
		poolLabelUsed[s] = usedFlag
	}
	var seq []ast.Stmt
	if usedFlag {
		seq = append(seq, &ast.AssignStmt{Lhs: []ast.Expr{ast.NewIdent(flag)}, Tok: token.DEFINE, Rhs: []ast.Expr{ast.NewIdent("false")}})
	}
	seq = append(seq, fs)
	if usedFlag {
		// the flag is a variable of an enclosing block of the loop: its own scope, so that the code after the loop is
		// translated in the environment of the labelled statement
		return tr.block([]ast.Stmt{&ast.BlockStmt{List: seq}}, en, func(*env) string { return tr.block(stmts[1:], en, k) }), true
	}
	return tr.block(append(seq, stmts[1:]...), en, k), true
}
