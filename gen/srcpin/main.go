// srcpin: fingerprints of the source the hand-written models were validated against.
//   srcpin <repo root> <name> <file>...   ->  Gen/Pin_<name>.v on stdout
// For every Go file: one entry per top-level function/method (and one for the rest of the file's
// declarations), the SHA-256 of its source printed by go/printer WITHOUT comments (so comments and
// formatting do not matter). For other files (assembly, linker script): SHA-256 of the text with
// comments (// ...) and blank lines removed and white space squeezed.
package main

import (
	"bytes"
	"crypto/sha256"
	"fmt"
	"go/ast"
	"go/parser"
	"go/printer"
	"go/token"
	"os"
	"path/filepath"
	"regexp"
	"sort"
	"strings"
)

func h(b []byte) string { return fmt.Sprintf("%x", sha256.Sum256(b))[:16] }

func main() {
	root, name := os.Args[1], os.Args[2]
	type entry struct{ k, v string }
	var out []entry
	for _, arg := range os.Args[3:] {
		rel := arg
		var only map[string]bool
		if i := strings.Index(arg, ":"); i >= 0 {
			rel = arg[:i]
			only = map[string]bool{}
			for _, f := range strings.Split(arg[i+1:], ",") {
				only[f] = true
			}
		}
		path := filepath.Join(root, rel)
		data, err := os.ReadFile(path)
		if err != nil {
			out = append(out, entry{rel, "missing"})
			continue
		}
		if !strings.HasSuffix(rel, ".go") {
			var lines []string
			re := regexp.MustCompile(`\s+`)
			for _, ln := range strings.Split(string(data), "\n") {
				if i := strings.Index(ln, "//"); i >= 0 {
					ln = ln[:i]
				}
				ln = strings.TrimSpace(re.ReplaceAllString(ln, " "))
				if ln != "" {
					lines = append(lines, ln)
				}
			}
			out = append(out, entry{rel, h([]byte(strings.Join(lines, "\n")))})
			continue
		}
		fset := token.NewFileSet()
		f, err := parser.ParseFile(fset, path, data, 0) // no comments
		if err != nil {
			out = append(out, entry{rel, "unparsable"})
			continue
		}
		var rest bytes.Buffer
		cfg := printer.Config{Mode: printer.UseSpaces, Tabwidth: 1}
		for _, d := range f.Decls {
			var buf bytes.Buffer
			if fd, ok := d.(*ast.FuncDecl); ok {
				fd.Doc = nil
				cfg.Fprint(&buf, fset, fd)
				key := fd.Name.Name
				if fd.Recv != nil && len(fd.Recv.List) == 1 {
					var tb bytes.Buffer
					cfg.Fprint(&tb, fset, fd.Recv.List[0].Type)
					key = strings.TrimPrefix(tb.String(), "*") + "." + key
				}
				if only == nil || only[key] {
					out = append(out, entry{rel + ":" + key, h(buf.Bytes())})
				}
			} else {
				if gd, ok := d.(*ast.GenDecl); ok {
					gd.Doc = nil
				}
				cfg.Fprint(&rest, fset, d)
				rest.WriteString("\n")
			}
		}
		if only == nil {
			out = append(out, entry{rel + ":<declarations>", h(rest.Bytes())})
		} else {
			for f := range only {
				found := false
				for _, e := range out {
					if e.k == rel+":"+f {
						found = true
					}
				}
				if !found {
					out = append(out, entry{rel + ":" + f, "missing"})
				}
			}
		}
	}
	sort.Slice(out, func(i, j int) bool { return out[i].k < out[j].k })
	fmt.Printf("(* GENERATED on every run by gen/srcpin from the current source tree *)\nFrom Coq Require Import String List.\nImport ListNotations.\nLocal Open Scope string_scope.\n")
	fmt.Printf("Definition pins_%s : list (string * string) := [\n", name)
	for i, e := range out {
		sep := ";"
		if i == len(out)-1 {
			sep = ""
		}
		fmt.Printf("  (%q, %q)%s\n", e.k, e.v, sep)
	}
	fmt.Printf("].\n")
}
