//go:build verif
// +build verif

package main

import (
	"fmt"
	"go/parser"
	"go/token"
	"os"
	"path/filepath"
	"regexp"
	"sort"
	"strings"
	"testing"
)

// Case encoding (see coq/theories/Kbuild/Model.v):
//   mode 0:  0 nfiles { ncomps {text}* text(name) ndecls { kind render text(name) ndoc {text}* nother {text}* }* }*
//   mode 1:  1            -- the real kernel tree ($VERIF_KERNEL_DIR); monitor only, observation is empty
// text = len byte*
// Observation: allRunsEqual n { text(src) text(dst) }*   (table of the first run)

const verifC20Runs = 20

type verifDecl struct {
	kind, render uint64
	name         string
	doc, other   []string
}

type verifFile struct {
	dir   []string
	name  string
	decls []verifDecl
}

func verifText(c *verifCur) string {
	l := c.List()
	b := make([]byte, len(l))
	for i, v := range l {
		b[i] = byte(v)
	}
	return string(b)
}

func verifTexts(c *verifCur) []string {
	n := int(c.Next())
	var out []string
	for i := 0; i < n; i++ {
		out = append(out, verifText(c))
	}
	return out
}

func verifDecodeTree(c *verifCur) []verifFile {
	n := int(c.Next())
	var files []verifFile
	for i := 0; i < n; i++ {
		var f verifFile
		f.dir = verifTexts(c)
		f.name = verifText(c)
		nd := int(c.Next())
		for j := 0; j < nd; j++ {
			var d verifDecl
			d.kind = c.Next()
			d.render = c.Next()
			d.name = verifText(c)
			d.doc = verifTexts(c)
			d.other = verifTexts(c)
			f.decls = append(f.decls, d)
		}
		files = append(files, f)
	}
	return files
}

// verifRender lays a file out as Go source. kind 0 = function declaration (render picks plain /
// method / generic / bodyless / with statements), 1 = var, 2 = const, 3 = type. doc lines go
// directly above the declaration (they become its Doc comment group); "other" lines are
// comments that are NOT the declaration's doc: inside the body, detached above (blank line
// between), or on a spec inside a parenthesised group.
// render = variant (bits 0-3) | file header variant (bits 4-7, first declaration only: build
// constraint lines before the package clause, import "C") | long-line position (bits 8-9: 1 = long
// comment line detached above, 2 = long string literal in an extra var declaration above, 3 = long
// comment after the declaration) | long-line length (bits 10..).
func verifRender(f verifFile) string {
	var b strings.Builder
	header := uint64(0)
	if len(f.decls) > 0 {
		header = (f.decls[0].render >> 4) & 15
	}
	b.WriteString(map[uint64]string{1: "//go:build ignore\n\n", 2: "// +build ignore\n\n", 3: "//go:build !amd64\n\n", 4: "//go:build debug\n\n",
		5: "//go:build linux && amd64\n\n", 7: "//go:build amd64 && !cgo\n// +build amd64,!cgo\n\n", 8: "//go:build windows || arm64\n\n"}[header])
	b.WriteString("// Package p is generated.\npackage p\n\n")
	if header == 6 {
		b.WriteString("import \"C\"\n\n")
	}
	for _, d := range f.decls {
		longPos, longLen := (d.render>>8)&3, int(d.render>>10)
		d.render &= 15
		long := ""
		if longPos != 0 && longLen > 0 {
			fill := strings.Repeat("x", longLen)
			if longLen%2 == 1 && longLen > 40 {
				fill = fill[:longLen-32] + " //go:redirect-from runtime.long"
			}
			if longPos == 2 {
				long = "var _ = \"" + fill + "\"\n\n"
			} else {
				long = "// " + fill + "\n\n"
			}
		}
		if longPos == 1 || longPos == 2 {
			b.WriteString(long)
		}
		detached := (d.render/8)%2 == 1
		if d.kind != 0 {
			detached = (d.render/8)%2 == 0
		}
		if detached && len(d.other) > 0 {
			for _, l := range d.other {
				b.WriteString(l + "\n")
			}
			b.WriteString("\n")
		}
		grouped := d.kind != 0 && d.render%2 == 1
		if !grouped {
			for _, l := range d.doc {
				b.WriteString(l + "\n")
			}
		}
		body := func() string {
			var s strings.Builder
			s.WriteString("{\n")
			if !detached {
				for _, l := range d.other {
					s.WriteString("\t" + l + "\n")
				}
			}
			if d.render%5 == 4 {
				s.WriteString("\tg := func() {}\n\tg()\n")
			}
			s.WriteString("}\n")
			return s.String()
		}
		switch d.kind {
		case 0:
			switch d.render % 5 {
			case 1:
				b.WriteString("func (t *T) " + d.name + "() " + body())
			case 2:
				b.WriteString("func " + d.name + "[E any](x E) " + body())
			case 3:
				if !detached && len(d.other) > 0 {
					b.WriteString("func " + d.name + "(a, b uintptr) uintptr " + body())
				} else {
					b.WriteString("func " + d.name + "(a, b uintptr) uintptr\n")
				}
			default:
				b.WriteString("func " + d.name + "() " + body())
			}
		default:
			kw := map[uint64]string{1: "var", 2: "const", 3: "type"}[d.kind]
			if kw == "" {
				kw = "var"
			}
			rhs := map[string]string{"var": " = func() {}", "const": " = 1", "type": " struct{}"}[kw]
			if grouped {
				b.WriteString(kw + " (\n")
				for _, l := range d.doc {
					b.WriteString("\t" + l + "\n")
				}
				if !detached {
					for _, l := range d.other {
						b.WriteString("\t" + l + "\n")
					}
				}
				b.WriteString("\t" + d.name + rhs + "\n)\n")
			} else {
				b.WriteString(kw + " " + d.name + rhs + "\n")
				if !detached {
					for _, l := range d.other {
						b.WriteString(l + "\n")
					}
				}
			}
		}
		b.WriteString("\n")
		if longPos == 3 {
			b.WriteString(long)
		}
	}
	return b.String()
}

type verifEntry struct {
	src, dst string
	// ambiguous: the property text does not say whether this is a redirect annotation
	// (directive glued to other characters, no symbol, or a method whose linker symbol is not
	// pkg.Name); the monitor accepts the table with or without it.
	ambiguous bool
	altDst    []string
	where     string
}

var verifFuncRe = regexp.MustCompile(`^func\s+(\(([^)]*)\)\s*)?([\pL_][\pL\pN_]*)`)

const (
	verifDirective = "//go:redirect-from"
	verifPrefix    = "github.com/ProjectSerenity/firefly/kernel"
)

// verifScan is the independent scanner: a plain line scanner over the tree on disk (own
// directory walk, no go/parser). A redirect annotation is a comment line at column 0 that
// starts with the directive and belongs to the block of comment lines directly above a
// top-level "func Name" line of a non-test .go file.
func verifScan(root string) ([]verifEntry, error) {
	var out []verifEntry
	var walk func(rel string) error
	walk = func(rel string) error {
		ents, err := os.ReadDir(filepath.Join(root, rel))
		if err != nil {
			return err
		}
		names := make([]string, 0, len(ents))
		isDir := map[string]bool{}
		for _, e := range ents {
			names = append(names, e.Name())
			isDir[e.Name()] = e.IsDir()
		}
		sort.Strings(names)
		for _, n := range names {
			p := n
			if rel != "" {
				p = rel + "/" + n
			}
			if isDir[n] {
				if err := walk(p); err != nil {
					return err
				}
				continue
			}
			if !strings.HasSuffix(n, ".go") || strings.HasSuffix(n, "_test.go") {
				continue
			}
			data, err := os.ReadFile(filepath.Join(root, p))
			if err != nil {
				return err
			}
			pkg := verifPrefix
			if rel != "" {
				pkg += "/" + rel
			}
			var block []string // comment lines directly above the current line
			inBlockComment := false
			for ln, line := range strings.Split(string(data), "\n") {
				line = strings.TrimSuffix(line, "\r")
				if inBlockComment {
					block = append(block, "")
					if strings.Contains(line, "*/") {
						inBlockComment = false
					}
					continue
				}
				switch {
				case strings.HasPrefix(line, "//"):
					block = append(block, line)
				case strings.HasPrefix(line, "/*"):
					block = append(block, "")
					if !strings.Contains(line[2:], "*/") {
						inBlockComment = true
					}
				default:
					if m := verifFuncRe.FindStringSubmatch(line); m != nil {
						for _, c := range block {
							if !strings.HasPrefix(c, verifDirective) {
								continue
							}
							rest := c[len(verifDirective):]
							e := verifEntry{src: strings.TrimSpace(rest), dst: pkg + "." + m[3], where: fmt.Sprintf("%s:%d", p, ln+1)}
							if rest == "" || strings.TrimSpace(rest) == "" || !strings.ContainsAny(rest[:1], " \t") {
								e.ambiguous = true
							}
							if m[1] != "" {
								e.ambiguous = true
							}
							out = append(out, e)
						}
					}
					block = nil
				}
			}
		}
		return nil
	}
	return out, walk("")
}

func verifRunFind(dir string) (res [][2]string, err error) {
	old, _ := os.Getwd()
	if e := os.Chdir(dir); e != nil {
		return nil, e
	}
	defer os.Chdir(old)
	defer func() {
		if r := recover(); r != nil {
			err = fmt.Errorf("panic: %v", r)
		}
	}()
	ctx := &Context{}
	ctx.FindRedirects()
	for _, r := range ctx.Redirects {
		res = append(res, [2]string{r.SrcSymbol, r.DstSymbol})
	}
	return res, nil
}

func verifKey(e [2]string) string { return e[0] + "\x00" + e[1] }

// verifMonitor: (1) every run gives the same table in the same order; (2) the table holds exactly
// one entry per annotation found by the scanner (multiset equality), nothing else.
func verifMonitor(out *verifOut, id int, runs [][][2]string, want []verifEntry) (allEqual bool) {
	allEqual = true
	for k := 1; k < len(runs); k++ {
		same := len(runs[k]) == len(runs[0])
		for i := 0; same && i < len(runs[0]); i++ {
			same = runs[k][i] == runs[0][i]
		}
		if !same {
			allEqual = false
			out.Mon(id, "c20:table-differs-between-runs", "run 0 gave %q but run %d of the same tree gave %q", runs[0], k, runs[k])
			break
		}
	}
	got := map[string]int{}
	for _, e := range runs[0] {
		got[verifKey(e)]++
	}
	for _, w := range want {
		k := verifKey([2]string{w.src, w.dst})
		if got[k] > 0 {
			got[k]--
			continue
		}
		if w.ambiguous {
			continue
		}
		out.Mon(id, "c20:annotation-missing-from-table", "annotation at %s (%q -> %q) has no entry in the table %q", w.where, w.src, w.dst, runs[0])
		return
	}
	for _, e := range runs[0] {
		if got[verifKey(e)] > 0 {
			out.Mon(id, "c20:entry-without-annotation", "table entry %q -> %q corresponds to no (further) redirect annotation on a function declaration of a non-test file; table %q", e[0], e[1], runs[0])
			return
		}
	}
	return
}

func verifObsText(obs []uint64, s string) []uint64 {
	obs = append(obs, uint64(len(s)))
	for i := 0; i < len(s); i++ {
		obs = append(obs, uint64(s[i]))
	}
	return obs
}

func TestVerifC20(t *testing.T) {
	out := verifOpenOut()
	defer out.Close()
	scratch := os.Getenv("VERIF_C20_SCRATCH")
	if scratch == "" {
		t.Fatal("VERIF_C20_SCRATCH not set")
	}
	for _, c := range verifReadCases() {
		cur := &verifCur{n: c.nums}
		mode := cur.Next()
		var dir string
		if mode == 1 {
			dir = os.Getenv("VERIF_KERNEL_DIR")
		} else {
			dir = filepath.Join(scratch, fmt.Sprintf("tree%d", c.id))
			os.RemoveAll(dir)
			linkDir := filepath.Join(scratch, fmt.Sprintf("links%d", c.id))
			os.RemoveAll(linkDir)
			for fi, f := range verifDecodeTree(cur) {
				d := filepath.Join(append([]string{dir}, f.dir...)...)
				if err := os.MkdirAll(d, 0o755); err != nil {
					t.Fatal(err)
				}
				src := verifRender(f)
				if strings.HasSuffix(f.name, ".go") {
					if _, err := parser.ParseFile(token.NewFileSet(), f.name, src, parser.ParseComments); err != nil {
						t.Fatalf("case %d: generated file %s does not parse: %v\n%s", c.id, f.name, err, src)
					}
				}
				// every fourth file is present in the tree as a symbolic link to a regular file kept outside it
				// (the Go tool chain compiles such files like any other)
				if (c.id+fi)%4 == 0 {
					os.MkdirAll(linkDir, 0o755)
					target := filepath.Join(linkDir, fmt.Sprintf("f%d_%s", fi, f.name))
					if err := os.WriteFile(target, []byte(src), 0o644); err != nil {
						t.Fatal(err)
					}
					if err := os.Symlink(target, filepath.Join(d, f.name)); err != nil {
						t.Fatal(err)
					}
					continue
				}
				if err := os.WriteFile(filepath.Join(d, f.name), []byte(src), 0o644); err != nil {
					t.Fatal(err)
				}
			}
			os.MkdirAll(dir, 0o755)
			defer os.RemoveAll(linkDir)
		}
		var runs [][][2]string
		for k := 0; k < verifC20Runs; k++ {
			r, err := verifRunFind(dir)
			if err != nil {
				out.Mon(c.id, "c20:find-redirects-crashed", "%v", err)
				break
			}
			runs = append(runs, r)
		}
		if len(runs) < verifC20Runs {
			out.Obs(c.id, []uint64{2})
			continue
		}
		want, err := verifScan(dir)
		if err != nil {
			t.Fatal(err)
		}
		eq := verifMonitor(out, c.id, runs, want)
		if mode == 1 {
			out.Info("kernel-tree", "%d redirects: %q", len(runs[0]), runs[0])
			if len(runs[0]) == 0 {
				out.Mon(c.id, "c20:kernel-tree-no-redirects", "no redirect found in %s", dir)
			}
			out.Obs(c.id, nil)
			continue
		}
		obs := []uint64{0, uint64(len(runs[0]))}
		if eq {
			obs[0] = 1
		}
		for _, e := range runs[0] {
			obs = verifObsText(obs, e[0])
			obs = verifObsText(obs, e[1])
		}
		out.Obs(c.id, obs)
		os.RemoveAll(dir)
	}
}
