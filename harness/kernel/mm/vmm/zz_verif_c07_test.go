//go:build verif
// +build verif

package vmm

import (
	"math/big"
	"testing"

	"github.com/ProjectSerenity/firefly/kernel"
	"github.com/ProjectSerenity/firefly/kernel/mm"
)

// TestVerifC07 drives EarlyReserveRegion / MapRegion / IdentityMapRegion with op histories
// (see coq/theories/Vmm/Region.v for the case encoding) and checks the property directly
// with an independent monitor (big.Int arithmetic, list of reserved intervals).
func TestVerifC07(t *testing.T) {
	out := verifOpenOut()
	defer out.Close()
	defer func(a uintptr, b func(mm.Page, mm.Frame, PageTableEntryFlag) *kernel.Error, c func(uintptr) (uintptr, *kernel.Error)) {
		earlyReserveLastUsed, mapFn, earlyReserveRegionFn = a, b, c
	}(earlyReserveLastUsed, mapFn, earlyReserveRegionFn)
	earlyReserveRegionFn = EarlyReserveRegion

	type call struct{ page, frame, flags uint64 }
	errInjected := &kernel.Error{Module: "verif", Message: "injected"}
	pageSize := big.NewInt(int64(mm.PageSize))
	ceil := func(size uint64) *big.Int { // page-rounded size without wrap-around
		s := new(big.Int).SetUint64(size)
		s.Add(s, big.NewInt(int64(mm.PageSize-1)))
		s.Div(s, pageSize)
		return s.Mul(s, pageSize)
	}

	for _, c := range verifReadCases() {
		cur := &verifCur{n: c.nums}
		start := cur.Next()
		if start == 0 {
			start = uint64(tempMappingAddr)
		}
		earlyReserveLastUsed = uintptr(start)
		var obs []uint64
		type region struct{ addr, size uint64 }
		var regions []region
		lowest := start // monitor's own cursor: lowest reserved address so far

		checkReservation := func(kind string, req uint64, addr uint64, ok bool, before uint64) {
			need := ceil(req)
			fits := need.Cmp(new(big.Int).SetUint64(lowest)) <= 0
			if !ok {
				if fits {
					out.Mon(c.id, "c07:spurious-failure", "%s(%#x) failed although %s bytes fit below %#x", kind, req, need, lowest)
				}
				if uint64(earlyReserveLastUsed) != before {
					out.Mon(c.id, "c07:failed-request-reserved", "%s(%#x) failed but cursor moved %#x -> %#x", kind, req, before, uint64(earlyReserveLastUsed))
				}
				return
			}
			if !fits {
				out.Mon(c.id, "c07:does-not-fit-but-succeeds", "%s(%#x) succeeded at %#x although %s bytes do not fit below %#x", kind, req, addr, need, lowest)
				return
			}
			if addr%uint64(mm.PageSize) != 0 {
				out.Mon(c.id, "c07:unaligned", "%s(%#x) returned unaligned %#x", kind, req, addr)
			}
			// region [addr, addr+need) must lie below every earlier region and below tempMappingAddr
			end := new(big.Int).Add(new(big.Int).SetUint64(addr), need)
			if end.Cmp(new(big.Int).SetUint64(lowest)) > 0 {
				out.Mon(c.id, "c07:overlap", "%s(%#x) returned %#x; needs %s bytes but earlier regions / temp page start at %#x", kind, req, addr, need, lowest)
			}
			for _, r := range regions {
				if addr+need.Uint64() > r.addr && r.size > 0 {
					out.Mon(c.id, "c07:overlap", "%s(%#x) at %#x overlaps region at %#x", kind, req, addr, r.addr)
					break
				}
			}
			regions = append(regions, region{addr, need.Uint64()})
			if addr < lowest {
				lowest = addr
			}
		}

		for !cur.Done() {
			op := cur.Next()
			switch op {
			case 0:
				size := cur.Next()
				before := uint64(earlyReserveLastUsed)
				addr, err := EarlyReserveRegion(uintptr(size))
				if err != nil {
					obs = append(obs, 0, 0)
				} else {
					obs = append(obs, 1, uint64(addr))
				}
				checkReservation("EarlyReserveRegion", size, uint64(addr), err == nil, before)
			case 1, 2:
				frame, size, flags, failcode := cur.Next(), cur.Next(), cur.Next(), cur.Next()
				var calls []call
				mapFn = func(p mm.Page, f mm.Frame, fl PageTableEntryFlag) *kernel.Error {
					calls = append(calls, call{uint64(p), uint64(f), uint64(fl)})
					if failcode != 0 && uint64(len(calls)) == failcode {
						return errInjected
					}
					if len(calls) > 4096 {
						panic("verif: runaway region loop")
					}
					return nil
				}
				before := uint64(earlyReserveLastUsed)
				var page mm.Page
				var err *kernel.Error
				runaway := false
				func() {
					defer func() {
						if r := recover(); r != nil {
							runaway = true
						}
					}()
					if op == 1 {
						page, err = MapRegion(mm.Frame(frame), uintptr(size), PageTableEntryFlag(flags))
					} else {
						page, err = IdentityMapRegion(mm.Frame(frame), uintptr(size), PageTableEntryFlag(flags))
					}
				}()
				if runaway {
					out.Mon(c.id, "c07:runaway-loop", "op %d frame %#x size %#x made more than 4096 seam calls", op, frame, size)
					obs = append(obs, 2, 0, uint64(len(calls)))
					break
				}
				if err != nil {
					obs = append(obs, 0, 0)
				} else {
					obs = append(obs, 1, uint64(page))
				}
				obs = append(obs, uint64(len(calls)))
				for _, cl := range calls {
					obs = append(obs, cl.page, cl.frame, cl.flags)
				}
				// ---- monitor ----
				injected := failcode != 0 && uint64(len(calls)) >= failcode
				need := ceil(size)
				npages := new(big.Int).Div(need, pageSize)
				if op == 1 {
					reserved := uint64(earlyReserveLastUsed) != before || (err == nil)
					if err == nil || injected {
						checkReservation("MapRegion", size, uint64(earlyReserveLastUsed), true, before)
					} else if !reserved {
						checkReservation("MapRegion", size, 0, false, before)
					}
				}
				// frames whose byte address does not fit 64 bits are outside the domain of the
				// property (frame+pages must stay below 2^52); those cases are agreement-only
				inDomain := new(big.Int).Add(new(big.Int).SetUint64(frame), npages).Cmp(new(big.Int).Lsh(big.NewInt(1), 52)) <= 0
				if err == nil && inDomain {
					if npages.Cmp(big.NewInt(int64(len(calls)))) != 0 {
						out.Mon(c.id, "c07:wrong-page-count", "op %d size %#x mapped %d pages, need %s", op, size, len(calls), npages)
					}
					first := uint64(page)
					if op == 2 && first != frame {
						out.Mon(c.id, "c07:identity-start", "identity map of frame %#x returned page %#x", frame, first)
					}
					if op == 1 && first != uint64(earlyReserveLastUsed)>>mm.PageShift {
						out.Mon(c.id, "c07:region-start", "MapRegion returned page %#x but reserved %#x", first, uint64(earlyReserveLastUsed))
					}
				}
				if err == nil || injected {
					first := uint64(page)
					if len(calls) > 0 {
						first = calls[0].page
					}
					for i, cl := range calls {
						if cl.page != first+uint64(i) || cl.frame != frame+uint64(i) || cl.flags != flags {
							out.Mon(c.id, "c07:not-consecutive", "op %d call %d = (%#x,%#x,%#x)", op, i, cl.page, cl.frame, cl.flags)
							break
						}
					}
				} else if len(calls) != 0 {
					out.Mon(c.id, "c07:mapped-on-failure", "op %d size %#x failed (%v) yet made %d seam calls", op, size, err.Message, len(calls))
				}
			default:
				t.Fatalf("bad op %d in case %d", op, c.id)
			}
		}
		out.Obs(c.id, obs)
	}
}
