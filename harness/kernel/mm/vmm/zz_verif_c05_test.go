//go:build verif
// +build verif

package vmm

import "testing"

// TestVerifC05 runs the shared page-table harness (zz_verif_pt_test.go, zz_verif_ptmon_test.go)
// with the C05 monitor enabled.
func TestVerifC05(t *testing.T) { verifPtRun(t, "c05") }
