//go:build verif
// +build verif

package vmm

import "fmt"

// Independent monitors for C04 / C05 / C06.  They look at the simulated physical memory only
// through the harness's own software MMU (x86-64 constants hard-coded in zz_verif_pt_test.go) and
// at the values returned by the code under test; they never consult the Coq model.

type vPre struct {
	// every op: translation of every probe page in every root, keyed by root
	snap map[uint64][][2]uint64
	// C05
	last     uint64
	oldResv  map[uint64][2]uint64 // reserved page -> old (code, entry)
	oldRoot  uint64
	oracle0  uint64
	// C06
	fPage    uint64
	fCode    uint64
	fEntry   uint64
	fContent [512]uint64
	fHave    bool
}

func (r *vRun) snapByRoot() map[uint64][][2]uint64 {
	m := map[uint64][][2]uint64{}
	for _, root := range r.roots() {
		if _, ok := m[root]; ok {
			continue
		}
		var v [][2]uint64
		for _, p := range r.probes {
			c, e := r.s.walkRoot(root, p&vPageMask36)
			if vPresent(c, e) {
				v = append(v, [2]uint64{1, e})
			} else {
				v = append(v, [2]uint64{0, 0})
			}
		}
		m[root] = v
	}
	return m
}

func (r *vRun) preOp(op uint64, a []uint64) *vPre {
	s := r.s
	pre := &vPre{snap: r.snapByRoot(), last: uint64(earlyReserveLastUsed), oldRoot: s.cr3 >> 12}
	if len(s.oracle) > 0 {
		pre.oracle0 = s.oracle[0]
	}
	switch op {
	case 15:
		pre.oldResv = map[uint64][2]uint64{}
		n := 0
		for a := pre.last; a < vTempAddr && n < 4096; a, n = a+4096, n+1 {
			c, e := s.walkRoot(pre.oldRoot, (a>>12)&vPageMask36)
			pre.oldResv[(a>>12)&vPageMask36] = [2]uint64{c, e}
		}
	case 13:
		pre.fPage = (a[0] >> 12) & vPageMask36
		pre.fCode, pre.fEntry = s.walkRoot(pre.oldRoot, pre.fPage)
		if vPresent(pre.fCode, pre.fEntry) {
			f := (pre.fEntry & vPhysMask) >> 12
			if s.backed(f) {
				pre.fContent = *s.page(f)
				pre.fHave = true
			}
		}
	}
	return pre
}

func vContains(l []uint64, x uint64) bool {
	for _, v := range l {
		if v == x {
			return true
		}
	}
	return false
}

// unchangedExcept compares the translation of every probe page in every root that existed
// before the op with its translation now, skipping the pages in `except` (36-bit page numbers) of root `exRoot`
// (exRoot == ^0: in every root).
func (r *vRun) unchangedExcept(pre *vPre, exRoot uint64, except map[uint64]bool, sig, what string) {
	now := r.snapByRoot()
	for root, was := range pre.snap {
		cur, ok := now[root]
		if !ok {
			// the root is no longer probed; walk it directly
			for i, p := range r.probes {
				c, e := r.s.walkRoot(root, p&vPageMask36)
				v := [2]uint64{0, 0}
				if vPresent(c, e) {
					v = [2]uint64{1, e}
				}
				if (exRoot == ^uint64(0) || root == exRoot) && except[p&vPageMask36] {
					continue
				}
				if vIdx(p&vPageMask36, 0) == 511 {
					continue // the recursive window shows the tables themselves
				}
				if v != was[i] {
					r.mon(sig, "%s: page %#x in root %#x was %x now %x", what, p, root, was[i], v)
					return
				}
			}
			continue
		}
		for i, p := range r.probes {
			if (exRoot == ^uint64(0) || root == exRoot) && except[p&vPageMask36] {
				continue
			}
			if vIdx(p&vPageMask36, 0) == 511 {
				continue // the recursive window shows the tables themselves
			}
			if cur[i] != was[i] {
				r.mon(sig, "%s: page %#x in root %#x was %x now %x", what, p, root, was[i], cur[i])
				return
			}
		}
	}
}

func (r *vRun) postOp(op uint64, a []uint64, secs []vSection, code, val uint64, before vSnap, rootBefore *[512]uint64, activeFrame uint64, pre *vPre) {
	if op == 4 {
		// a failed (re-)Init leaves the table value pointing at a frame that is not an address space
		r.minit[a[0]&7] = code == 0
	}
	// the early reservations as requested through the mapping interface
	switch op {
	case 8:
		if code == 0 {
			r.resv = append(r.resv, vRegion{val, (a[1] + 4095) >> 12, a[0], a[2]})
		} else if code != 5 {
			r.resvBad = true // partially mapped
		}
	case 16:
		if code == 0 && a[0] != 0 {
			r.resvBad = true // reserved but never mapped
		}
	case 0, 1, 3, 4, 5, 6, 9, 10, 12, 13, 17:
		r.resvBad = true // something else may have touched the reserved range
	}
	switch r.prop {
	case "c04":
		r.c04Post(op, a, code, val, rootBefore, activeFrame, pre)
	case "c05":
		if op == 15 {
			r.c05Post(a, secs, code, pre)
		}
	case "c06":
		r.c06Post(op, a, code, val, pre)
	}
}

// ---------------------------------------------------------------------------------------------
// C04
// ---------------------------------------------------------------------------------------------

func (r *vRun) c04Fresh() bool {
	// frames handed out by the allocator in this op must be backed and unused (what C01 guarantees)
	ok := true
	for _, f := range r.s.allocs {
		if !r.s.backed(f) || r.used[f] {
			ok = false
		}
		r.used[f] = true
	}
	return ok
}

// newTablesClean: every table allocated in this op is zero except entries on the path of a requested page.
func (r *vRun) c04NewTables(root uint64, pages []uint64) {
	s := r.s
	for _, f := range s.allocs {
		allowed := map[uint64]bool{}
		linked := false
		for _, q := range pages {
			for k := 1; k < 4; k++ {
				if t, ok := s.tableOnPath(root, q, k); ok && t == f {
					allowed[vIdx(q, k)] = true
					linked = true
				}
			}
		}
		if !linked {
			r.mon("new-table-not-linked", "frame %#x was allocated but is not a table on the path of the requested page(s) in root %#x", f, root)
			continue
		}
		p := s.page(f)
		for i, w := range p {
			if w != 0 && !allowed[uint64(i)] {
				r.mon("new-table-not-empty", "new table %#x entry %d = %#x (not on the path of a requested page)", f, i, w)
				break
			}
		}
	}
}

func (r *vRun) c04Check(root uint64) {
	s := r.s
	w := r.want[root]
	if w == nil {
		return
	}
	for _, p := range r.probes {
		p36 := p & vPageMask36
		if vIdx(p36, 0) == 511 {
			continue
		}
		c, e := s.walkRoot(root, p36)
		exp, has := w[p36]
		if has && !exp.known {
			continue
		}
		if has && exp.flags&vP != 0 {
			if c != 3 || e != exp.frame<<12|exp.flags {
				r.mon("wrong-translation", "page %#x in root %#x: requested frame %#x flags %#x, walk gives code %#x entry %#x", p36, root, exp.frame, exp.flags, c, e)
				return
			}
		} else if vPresent(c, e) || c >= 0x10 {
			r.mon("spurious-translation", "page %#x in root %#x should be unmapped, walk gives code %#x entry %#x", p36, root, c, e)
			return
		}
	}
}

func (r *vRun) c04SetWant(root, page, frame, flags uint64) {
	if r.want[root] == nil {
		r.want[root] = map[uint64]vWant{}
	}
	r.want[root][page&vPageMask36] = vWant{frame, flags, frame < 1<<40 && flags&vPhysMask == 0}
}

// c04InDomain decides, from the request alone, whether the op is inside the property's quantifier
// (fresh allocator frames, initialised address spaces, pages outside the recursive slot, no set-up pokes).
func (r *vRun) c04InDomain(op uint64, a []uint64, pre *vPre) bool {
	s := r.s
	if r.weird {
		return false
	}
	why := ""
	no := func(reason string) {
		if why == "" {
			why = reason
		}
	}
	if !r.c04Fresh() {
		no("allocator-frame-not-fresh")
	}
	in511 := func(page uint64) bool { return vIdx(page&vPageMask36, 0) == 511 }
	switch op {
	case 0, 1:
		if in511(a[0]) {
			no("page-in-recursive-slot")
		}
	case 2, 3:
	case 4:
		if a[1] != pre.oldRoot && (!s.backed(a[1]) || r.used[a[1]]) {
			no("init-frame-unbacked-or-in-use")
		}
	case 5, 6:
		if !r.minit[a[0]&7] {
			no("uninitialised-pdt")
		}
		if in511(a[1]) {
			no("page-in-recursive-slot")
		}
	case 7:
		if !r.minit[a[0]&7] {
			no("uninitialised-pdt")
		}
	case 8, 9:
		size := a[1]
		if size+4095 >= size {
			n := (size + 4095) >> 12
			start := a[0]
			if op == 8 {
				start = (pre.last - n<<12) >> 12
			}
			if op == 8 && (size+4095)&^4095 > pre.last {
				// does not fit below the cursor: must be refused, nothing is mapped
			} else if size > 1<<24 {
				no("region-too-long-to-follow") // C07 covers the sizes
			} else {
				for i := uint64(0); i < n; i++ {
					if in511(start + i) {
						no("page-in-recursive-slot")
					}
				}
			}
		}
	case 18:
		// translation-neutral bits in upper-level entries: inside the quantifier
	default:
		no("set-up-op")
	}
	if why != "" {
		r.weird = true
		r.stats["c04-left-domain:"+why]++
		return false
	}
	return true
}

// onStray: inside the domain the code never makes an access the MMU cannot resolve.
func (r *vRun) onStray(op uint64, a []uint64, pre *vPre, what string) {
	if r.prop == "c04" && r.c04InDomain(op, a, pre) {
		r.mon("stray-access", "op %d %x made a stray access: %s", op, a, what)
	}
	if r.prop == "c06" && op == 13 && !r.weird && pre.fCode < 0x10 {
		// no huge / unbacked entry on the path: the walk itself cannot stray.  A fault that is not a
		// copy-on-write fault must end in a panic without the handler touching any page.
		precond := vPresent(pre.fCode, pre.fEntry) && pre.fEntry&vRW == 0 && pre.fEntry&vCoW != 0
		if !precond {
			r.mon("non-cow-fault-touched-memory", "fault at %#x (leaf walk code %#x entry %#x) is not a copy-on-write fault but the handler accessed memory: %s", a[0], pre.fCode, pre.fEntry, what)
		}
	}
}

func (r *vRun) c04Post(op uint64, a []uint64, code, val uint64, rootBefore *[512]uint64, activeFrame uint64, pre *vPre) {
	s := r.s
	if !r.c04InDomain(op, a, pre) {
		return
	}
	tempPage := (vTempAddr >> 12) & vPageMask36
	root := activeFrame
	var pages []uint64 // requested pages (36-bit)
	mapLike := func(root, page, frame, flags uint64, isUnmap bool) {
		p36 := page & vPageMask36
		pages = []uint64{p36}
		if vIdx(p36, 0) == 511 {
			r.weird = true
			return
		}
		switch {
		case code == 0 && !isUnmap:
			r.c04SetWant(root, p36, frame, flags)
			if !vContains(s.flushes, page<<12) {
				r.mon("no-flush", "Map of page %#x succeeded but %#x was not flushed (flushes %x)", page, page<<12, s.flushes)
			}
		case code == 0 && isUnmap:
			delete(r.want[root], p36)
			if !vContains(s.flushes, page<<12) {
				r.mon("no-flush", "Unmap of page %#x succeeded but %#x was not flushed (flushes %x)", page, page<<12, s.flushes)
			}
		case code == 4:
			r.unchangedExcept(pre, ^uint64(0), nil, "alloc-failure-changed-translation", "allocation failed")
		}
		r.c04NewTables(root, pages)
	}
	switch op {
	case 0:
		mapLike(root, a[0], a[1], a[2], false)
	case 1:
		mapLike(root, a[0], 0, 0, true)
	case 2:
		p36 := (a[0] >> 12) & vPageMask36
		exp, has := r.want[root][p36]
		if vIdx(p36, 0) != 511 && (!has || exp.known) {
			if has && exp.flags&vP != 0 {
				if code != 0 || val != exp.frame<<12+a[0]&0xfff {
					r.mon("translate-wrong", "Translate(%#x) = (%#x, err %d), page is mapped to frame %#x", a[0], val, code, exp.frame)
				}
			} else if code != 1 {
				r.mon("translate-wrong", "Translate(%#x) = (%#x, err %d), page is not mapped", a[0], val, code)
			}
		}
	case 3:
		mapLike(root, vTempAddr>>12, a[0], vP|vRW, false)
		if code == 0 && val != vTempAddr>>12 {
			r.mon("map-temporary-page", "MapTemporary returned page %#x", val)
		}
	case 4:
		k, f := a[0]&7, a[1]
		if f == activeFrame {
			break
		}
		if !s.backed(f) || r.used[f] {
			r.weird = true
			return
		}
		pages = []uint64{tempPage}
		if code == 0 {
			r.used[f] = true
			r.want[f] = map[uint64]vWant{}
			delete(r.want[root], tempPage)
			p := s.page(f)
			for i, w := range p {
				if (i < 511 && w != 0) || (i == 511 && w != f<<12|vP|vRW) {
					r.mon("pdt-init", "new root %#x entry %d = %#x after Init", f, i, w)
					break
				}
			}
		} else if code == 4 {
			r.unchangedExcept(pre, ^uint64(0), nil, "alloc-failure-changed-translation", "allocation failed in Init")
		}
		r.c04NewTables(root, pages)
		_ = k
	case 5, 6:
		k := a[0] & 7
		if !r.minit[k] {
			r.weird = true
			return
		}
		root = uint64(r.pdts[k].pdtFrame)
		if op == 5 {
			mapLike(root, a[1], a[2], a[3], false)
		} else {
			mapLike(root, a[1], 0, 0, true)
		}
		if root != activeFrame && s.backed(activeFrame) {
			if *s.page(activeFrame) != *rootBefore {
				r.mon("active-root-modified", "operation on inactive root %#x changed the active root table %#x", root, activeFrame)
			}
		}
	case 7:
		if !r.minit[a[0]&7] {
			r.weird = true
			return
		}
	case 8, 9:
		size := a[1]
		if size > 1<<24 && size+4095 >= size && !(op == 8 && (size+4095)&^4095 > pre.last) {
			r.weird = true // too long to follow page by page; C07 covers the sizes
			return
		}
		if op == 8 && size+4095 >= size && (size+4095)&^4095 > pre.last {
			if code != 5 {
				r.mon("region-does-not-fit", "MapRegion(size %#x) with cursor %#x returned %d", size, pre.last, code)
			}
			r.unchangedExcept(pre, ^uint64(0), nil, "failed-region-op-changed-translation", "region op that does not fit")
			break
		}
		n := (size + 4095) >> 12
		var start uint64
		if op == 8 {
			start = uint64(earlyReserveLastUsed) >> 12
			if code == 5 {
				n = 0
			}
		} else {
			start = a[0]
		}
		for i := uint64(0); i < n; i++ {
			p36 := (start + i) & vPageMask36
			pages = append(pages, p36)
			if vIdx(p36, 0) == 511 {
				r.weird = true
				return
			}
		}
		switch code {
		case 0:
			if val != start {
				r.mon("region-start", "region op returned page %#x, expected %#x", val, start)
			}
			for i := uint64(0); i < n; i++ {
				r.c04SetWant(root, start+i, a[0]+i, a[2])
				if !vContains(s.flushes, (start+i)<<12) {
					r.mon("no-flush", "region page %#x not flushed", start+i)
				}
			}
		case 4:
			ex := map[uint64]bool{}
			for _, p := range pages {
				ex[p] = true
				if r.want[root] != nil {
					r.want[root][p] = vWant{known: false}
				}
			}
			r.unchangedExcept(pre, root, ex, "alloc-failure-changed-translation", "allocation failed in region op")
		default:
			r.unchangedExcept(pre, ^uint64(0), nil, "failed-region-op-changed-translation", "region op failed")
		}
		r.c04NewTables(root, pages)
	case 18:
	default:
		r.weird = true
		return
	}
	if r.weird {
		return
	}
	// translations of all other pages are unchanged
	ex := map[uint64]bool{}
	for _, p := range pages {
		ex[p] = true
	}
	if op == 4 {
		r.unchangedExcept(pre, activeFrame, ex, "other-page-changed", "PDT.Init")
	} else {
		r.unchangedExcept(pre, root, ex, "other-page-changed", fmt.Sprintf("op %d", op))
	}
	for rt := range r.want {
		r.c04Check(rt)
	}
}

// ---------------------------------------------------------------------------------------------
// C05
// ---------------------------------------------------------------------------------------------

func (r *vRun) c05Post(a []uint64, secs []vSection, code uint64, pre *vPre) {
	s := r.s
	off := a[0]
	type exp struct{ frame, flags uint64 }
	want := map[uint64]exp{} // 36-bit page -> expectation (section pages)
	domain := true
	why := ""
	out := func(reason string) {
		domain = false
		if why == "" {
			why = reason
		}
	}
	if off&0xfff != 0 {
		out("unaligned-offset")
	}
	for _, sc := range secs {
		if sc.size == 0 || sc.addr < off {
			continue
		}
		end := sc.addr + (sc.size - 1)
		if end < sc.addr || sc.size > 1<<24 {
			out("section-wraps-or-huge")
			continue
		}
		fl := vP
		if sc.flags&4 == 0 {
			fl |= vNX
		}
		if sc.flags&1 != 0 {
			fl |= vRW
		}
		for p, i := sc.addr>>12, uint64(0); p <= end>>12; p, i = p+1, i+1 {
			p36 := p & vPageMask36
			if _, dup := want[p36]; dup {
				out("sections-share-a-page")
			}
			if vIdx(p36, 0) == 511 || p36 == (vTempAddr>>12)&vPageMask36 {
				out("section-in-recursive-slot-or-temp-page")
			}
			if _, resv := pre.oldResv[p36]; resv {
				out("section-touches-reserved-range")
			}
			fr := (sc.addr-off)>>12 + i
			if fr >= 1<<40 {
				out("frame-above-2^40")
			}
			want[p36] = exp{fr, fl}
		}
	}
	// sections below off that share a page with a mapped section are outside the quantifier
	for _, sc := range secs {
		if sc.size == 0 || sc.addr >= off {
			continue
		}
		end := sc.addr + (sc.size - 1)
		if end < sc.addr || sc.size > 1<<24 {
			out("section-wraps-or-huge")
			continue
		}
		for p := sc.addr >> 12; p <= end>>12; p++ {
			if _, dup := want[p&vPageMask36]; dup {
				out("low-section-shares-a-page")
			}
		}
	}
	// what "reserved and mapped earlier in boot" means: every region requested through MapRegion (if that is
	// all that happened to the reserved range), else whatever the old space maps in [earlyReserveLastUsed, temp)
	resvWant := map[uint64]uint64{}
	if !r.resvBad {
		for _, rg := range r.resv {
			if rg.flags&vP == 0 {
				out("reservation-mapped-non-present")
			}
			for i := uint64(0); i < rg.n; i++ {
				p36 := (rg.start + i) & vPageMask36
				if vIdx(p36, 0) == 511 || rg.frame+i >= 1<<40 {
					out("reserved-page-in-recursive-slot-or-frame-above-2^40")
				}
				resvWant[p36] = rg.frame + i
				if _, sec := want[p36]; sec {
					out("section-touches-reserved-range")
				}
			}
		}
	} else {
		for p36, old := range pre.oldResv {
			if !vPresent(old[0], old[1]) || vIdx(p36, 0) == 511 {
				out("reserved-page-not-mapped")
			}
			resvWant[p36] = (old[1] & vPhysMask) >> 12
		}
	}
	if len(pre.oldResv) >= 4096 {
		out("reserved-range-too-long")
	}
	// allocator: fresh frames only
	for _, f := range s.allocs {
		if !s.backed(f) || r.used[f] {
			out("allocator-frame-not-fresh")
		}
		r.used[f] = true
	}
	if !domain {
		r.stats["c05-outside-quantifier"]++
		r.stats["c05-outside:"+why]++
		return
	}
	if s.allocErr {
		r.stats["c05-alloc-failure"]++
		if code != 4 {
			r.mon("alloc-error-not-returned", "allocator failed during setupPDTForKernel but it returned %d", code)
		}
		return
	}
	if code != 0 {
		r.mon("setup-failed", "setupPDTForKernel returned error %d on a well-formed section table", code)
		return
	}
	root := uint64(kernelPDT.pdtFrame)
	if s.cr3 != root<<12 || !s.backed(root) {
		r.mon("not-active", "after setupPDTForKernel cr3 = %#x, new root frame %#x", s.cr3, root)
		return
	}
	r.stats["c05-fully-checked"]++
	r.stats["c05-section-pages-checked"] += len(want)
	r.stats["c05-reserved-pages-checked"] += len(resvWant)
	check := func(p36 uint64) bool {
		c, e := s.walkRoot(root, p36)
		if x, ok := want[p36]; ok {
			if c != 3 || e != x.frame<<12|x.flags {
				r.mon("section-page-wrong", "page %#x: expected frame %#x flags %#x, walk gives code %#x entry %#x", p36, x.frame, x.flags, c, e)
				return false
			}
			return true
		}
		if fr, ok := resvWant[p36]; ok {
			// "keep their translations": same frame, present (the exact flags are tied by the correspondence)
			if c != 3 || e&vP == 0 || (e&vPhysMask)>>12 != fr {
				r.mon("reserved-page-wrong", "reserved page %#x was mapped to frame %#x, walk of the new space gives code %#x entry %#x", p36, fr, c, e)
				return false
			}
			return true
		}
		if _, ok := pre.oldResv[p36]; ok {
			return true // inside [earlyReserveLastUsed, temp) but never reserved-and-mapped: nothing is required
		}
		if vIdx(p36, 0) == 511 {
			return true
		}
		if vPresent(c, e) || c >= 0x10 {
			r.mon("extra-page-mapped", "page %#x belongs to no section in range and no reservation but walk gives code %#x entry %#x", p36, c, e)
			return false
		}
		return true
	}
	for p36 := range want {
		for d := uint64(0); d < 3; d++ {
			if !check((p36 + d - 1) & vPageMask36) {
				return
			}
		}
	}
	for p36 := range resvWant {
		for d := uint64(0); d < 3; d++ {
			if !check((p36 + d - 1) & vPageMask36) {
				return
			}
		}
	}
	for _, sc := range secs {
		if sc.size == 0 || sc.addr >= off || sc.size > 1<<24 {
			continue
		}
		for p := sc.addr >> 12; p <= (sc.addr+sc.size-1)>>12; p++ {
			if !check(p & vPageMask36) {
				return
			}
		}
	}
	for _, p := range r.probes {
		if !check(p & vPageMask36) {
			return
		}
	}
}

// ---------------------------------------------------------------------------------------------
// C06
// ---------------------------------------------------------------------------------------------

func (r *vRun) c06Post(op uint64, a []uint64, code, val uint64, pre *vPre) {
	s := r.s
	if r.weird {
		return
	}
	zf := uint64(ReservedZeroedFrame)
	tempPage := (vTempAddr >> 12) & vPageMask36
	// allocator domain: frames are backed and handed out once; the copy frame of a fault may be
	// anything (the handler must cope), a page-table frame may not
	for i, f := range s.allocs {
		fresh := s.backed(f) && !r.used[f]
		r.used[f] = true
		if !fresh && !(op == 13 && i == 0) {
			r.weird = true
			return
		}
		if !fresh && op == 13 && i == 0 && s.backed(f) && f != zf {
			r.weird = true // an in-use frame handed out twice: outside the quantifier
			return
		}
	}
	// frames in use as data / roots are not fresh any more
	switch op {
	case 0:
		r.used[a[1]] = true
	case 3, 11:
		r.used[a[0]] = true
	case 4:
		r.used[a[1]] = true
	case 5:
		r.used[a[2]] = true
	case 8, 9:
		for i := uint64(0); i < 4; i++ {
			r.used[a[0]+i] = true
		}
	}
	switch op {
	case 17:
		if a[1]&3 == 3 {
			r.weird = true // fabricated leaf entry
			return
		}
	case 10, 11:
		// set-up ops: a poke may fabricate anything
		if op == 10 && r.zfSet && (a[2]&vPhysMask)>>12 == zf && a[2]&vRW != 0 {
			r.weird = true
			return
		}
		if r.zfSet && a[0] == zf {
			r.weird = true
			return
		}
	case 12:
		if code != 0 || r.zfSet {
			r.weird = true // initialisation failed or repeated: outside "once the VMM is initialised"
			return
		}
		if code == 0 {
			r.zfSet = true
			zf = val
			if c, e := s.walkRoot(s.cr3>>12, tempPage); vPresent(c, e) {
				r.mon("temp-left-mapped", "temporary page still mapped after reserveZeroedFrame (entry %#x)", e)
			}
		}
	case 0, 3, 5, 8, 9:
		if !r.zfSet || !protectReservedZeroedPage {
			break
		}
		var frame, flags uint64
		switch op {
		case 0:
			frame, flags = a[1], a[2]
		case 3:
			frame, flags = a[0], vRW
		case 5:
			frame, flags = a[2], a[3]
		case 8, 9:
			frame, flags = a[0], a[2]
			if a[1] == 0 || a[1] > 1<<63 {
				frame = ^uint64(0) // nothing is mapped
			}
		}
		if frame == zf && flags&vRW != 0 {
			if code != 3 {
				r.mon("zero-frame-rw-not-refused", "op %d asked for a writable mapping of the zero frame %#x and returned %d", op, zf, code)
			}
			if (op == 0 || op == 3 || op == 5) && code == 3 {
				r.unchangedExcept(pre, ^uint64(0), nil, "refused-map-changed-translation", "refused mapping of the zero frame")
			}
		}
	case 13:
		if pre.fCode >= 0x10 {
			break // huge / unbacked on the path: outside the property's domain
		}
		precond := vPresent(pre.fCode, pre.fEntry) && pre.fEntry&vRW == 0 && pre.fEntry&vCoW != 0
		failed := s.allocErr || s.tmpErr
		if precond && !pre.fHave {
			break // the page shows an unbacked frame
		}
		if code == 0 {
			if !precond {
				r.mon("resumed-non-cow-fault", "fault at %#x (leaf walk code %#x entry %#x) is not a copy-on-write fault but the handler returned", a[0], pre.fCode, pre.fEntry)
				break
			}
			if failed {
				r.mon("resumed-after-failure", "fault at %#x: allocation or temporary mapping failed but the handler returned", a[0])
				break
			}
			c, e := s.walkRoot(pre.oldRoot, pre.fPage)
			if len(s.allocs) == 0 {
				r.mon("cow-no-fresh-frame", "fault at %#x resumed without allocating a frame", a[0])
				break
			}
			cp := s.allocs[0]
			wantE := cp<<12 | ((pre.fEntry &^ vPhysMask) &^ vCoW) | vRW | vP
			if c != 3 || e != wantE {
				r.mon("cow-entry-wrong", "fault at %#x: old entry %#x, copy frame %#x: expected entry %#x, walk gives code %#x entry %#x", a[0], pre.fEntry, cp, wantE, c, e)
			}
			if s.backed(cp) && *s.page(cp) != pre.fContent {
				r.mon("cow-content-wrong", "fault at %#x: contents of the new frame %#x differ from what the page showed", a[0], cp)
			}
			old := (pre.fEntry & vPhysMask) >> 12
			if s.backed(old) && old != cp && *s.page(old) != pre.fContent {
				r.mon("cow-source-modified", "fault at %#x: the shared frame %#x was modified", a[0], old)
			}
			if !vContains(s.flushes, a[0]&^0xfff) {
				r.mon("cow-no-flush", "fault at %#x resumed but page address was not flushed (flushes %x)", a[0], s.flushes)
			}
			if pre.fPage != tempPage {
				if c, e := s.walkRoot(pre.oldRoot, tempPage); vPresent(c, e) {
					r.mon("temp-left-mapped", "temporary page still mapped after the fault was resolved (entry %#x)", e)
				}
			}
			r.unchangedExcept(pre, pre.oldRoot, map[uint64]bool{pre.fPage: true, tempPage: true}, "cow-other-page-changed", "copy-on-write fault")
		} else if code >= 0x100 {
			if precond && !failed {
				r.mon("cow-fault-panicked", "fault at %#x on a present read-only copy-on-write page (entry %#x) ended in a panic (code %#x)", a[0], pre.fEntry, code)
			}
		}
	case 14:
		if code < 0x100 {
			r.mon("gpf-returned", "general protection fault handler returned")
		}
	}
	if r.weird || !r.zfSet {
		return
	}
	// the zero frame is never mapped writable and stays zero
	if protectReservedZeroedPage {
		for _, root := range r.roots() {
			for _, p := range r.probes {
				c, e := s.walkRoot(root, p&vPageMask36)
				if vIdx(p&vPageMask36, 0) == 511 {
					continue
				}
				if vPresent(c, e) && (e&vPhysMask)>>12 == zf && e&vRW != 0 {
					r.mon("zero-frame-mapped-rw", "after op %d page %#x in root %#x maps the zero frame %#x writable (entry %#x)", op, p, root, zf, e)
					return
				}
			}
		}
	}
	if s.backed(zf) {
		for i, w := range s.page(zf) {
			if w != 0 {
				r.mon("zero-frame-modified", "after op %d word %d of the zero frame %#x is %#x", op, i, zf, w)
				return
			}
		}
	}
}
