//go:build verif
// +build verif

package vmm

// Add-only shim injected with `go test -overlay` (never part of /repo): lets the harness of package
// goruntime (C07, sysReserve/sysMap/sysAlloc on top of the REAL EarlyReserveRegion) place and read
// the unexported reservation cursor, exactly as the in-package harness of C07 does directly.

// VerifSetEarlyReserveCursor sets the reservation cursor and returns the previous value.
func VerifSetEarlyReserveCursor(v uintptr) uintptr {
	old := earlyReserveLastUsed
	earlyReserveLastUsed = v
	return old
}

// VerifEarlyReserveCursor returns the reservation cursor.
func VerifEarlyReserveCursor() uintptr { return earlyReserveLastUsed }

// VerifTempMappingAddr returns the address of the temporary-mapping page.
func VerifTempMappingAddr() uintptr { return tempMappingAddr }
