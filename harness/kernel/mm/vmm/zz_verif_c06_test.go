//go:build verif
// +build verif

package vmm

import "testing"

// TestVerifC06 runs the shared page-table harness (zz_verif_pt_test.go, zz_verif_ptmon_test.go)
// with the C06 monitor enabled.
func TestVerifC06(t *testing.T) { verifPtRun(t, "c06") }
