//go:build verif
// +build verif

package vmm

// Shared machinery of the C04 / C05 / C06 harnesses: a software MMU over host memory.
//
// Physical memory is an arena of 4 KiB pages mapped (MAP_SHARED over a memfd) at a FIXED host
// address, so frame numbers are deterministic: frame = host address >> 12.  The case files and
// the Coq model (coq/theories/Vmm/Pt.v) use these very frame numbers, no renaming is involved.
//
//   ptePtrFn(entryVA)   = 4-level walk of entryVA from the simulated cr3 (this is what the
//                         hardware does with the recursive mapping in slot 511); the walk's
//                         constants are the x86-64 ones, hard-coded here, NOT the package's.
//   nextAddrFn(x)       = x must be hostptr<<b of the pte handed out last; the table cleared is
//                         the page (entryVA<<b) resolves to.
//   mapTemporaryFn      = real MapTemporary on the simulated tables, returns the page whose
//                         address is the host page the temp mapping resolves to.
//   unmapFn             = real Unmap (the page value above is mapped back to the temp page).
//   activePDTFn/switchPDTFn/flushTLBEntryFn are simulated/recorded; the frame allocator is an
//   oracle list from the case (0 = failure).
//
// A walk that hits a non-present level / an unbacked frame is a stray access: the seam panics
// with verifStray, the case ends with observation 0xEE (the model does the same).

import (
	"fmt"
	"runtime/debug"
	"sort"
	"syscall"
	"testing"
	"unsafe"

	"github.com/ProjectSerenity/firefly/kernel"
	"github.com/ProjectSerenity/firefly/kernel/cpu"
	"github.com/ProjectSerenity/firefly/kernel/gate"
	"github.com/ProjectSerenity/firefly/kernel/kfmt"
	"github.com/ProjectSerenity/firefly/kernel/mm"
	"github.com/ProjectSerenity/firefly/kernel/multiboot"
)

const (
	vArenaAddr  = uintptr(0x200000000000)
	vArenaMax   = 256
	vViewLo     = uint64(0x300000000000)
	vViewHi     = uint64(0x400000000000)
	vLowViewHi  = uint64(0x10000) // the lowest 16 pages can be shown too (page 0 included)
	vPoison     = uint64(0x5B5B5B5B5B5B5B5B)
	vPhysMask   = uint64(0x000ffffffffff000)
	vP          = uint64(1)
	vRW         = uint64(2)
	vUser       = uint64(4)
	vHuge       = uint64(1 << 7)
	vCoW        = uint64(1 << 9)
	vNX         = uint64(1 << 63)
	vTempAddr   = uint64(0xffffff7ffffff000)
	vPageMask36 = uint64(1<<36 - 1)
	vStrayObs   = uint64(0xEE)
	vKernelSlot = 7
	vSafeBits   = uint64(0xFFF0000000000F7E) // every bit except P, PS and the frame field
)

type verifStray struct {
	what string
	addr uint64
}

type verifDiscard struct{}

func (verifDiscard) Write(p []byte) (int, error) { return len(p), nil }

type vsim struct {
	base     uintptr
	lo, cnt  uint64
	fd       int
	cr3      uint64
	flushes  []uint64
	switches []uint64
	oracle   []uint64
	allocs   []uint64 // frames handed out during the current op
	allocErr bool     // the allocator returned an error during the current op
	tmpErr   bool     // MapTemporary returned an error during the current op
	lastPte  uintptr
	lastVA   uint64
	tempOut  bool
	tempRet  mm.Page
	dirty    uint64 // number of arena frames that must be re-poisoned
}

var verifSim *vsim

func vmmap(addr uintptr, length uintptr, prot, flags int, fd int, off int64) (uintptr, error) {
	r, _, e := syscall.Syscall6(syscall.SYS_MMAP, addr, length, uintptr(prot), uintptr(flags), uintptr(fd), uintptr(off))
	if e != 0 {
		return 0, e
	}
	return r, nil
}

const vMapFixedNoReplace = 0x100000

func verifSimOpen() *vsim {
	if verifSim != nil {
		return verifSim
	}
	name := []byte("verif-arena\x00")
	fd, _, e := syscall.Syscall(319 /* memfd_create */, uintptr(unsafe.Pointer(&name[0])), 0, 0)
	if e != 0 {
		panic(fmt.Sprintf("memfd_create: %v", e))
	}
	if err := syscall.Ftruncate(int(fd), int64(vArenaMax*4096)); err != nil {
		panic(err)
	}
	a, err := vmmap(vArenaAddr, vArenaMax*4096, syscall.PROT_READ|syscall.PROT_WRITE, syscall.MAP_SHARED|vMapFixedNoReplace, int(fd), 0)
	if err != nil || a != vArenaAddr {
		panic(fmt.Sprintf("arena mmap at %#x: got %#x err %v", vArenaAddr, a, err))
	}
	debug.SetPanicOnFault(true)
	verifSim = &vsim{base: a, lo: uint64(a) >> 12, fd: int(fd), dirty: vArenaMax}
	return verifSim
}

func (s *vsim) backed(f uint64) bool { return f >= s.lo && f < s.lo+s.cnt }

func (s *vsim) word(f, i uint64) *uint64 {
	return (*uint64)(unsafe.Pointer(s.base + uintptr((f-s.lo)*4096+i*8)))
}

func (s *vsim) page(f uint64) *[512]uint64 {
	return (*[512]uint64)(unsafe.Pointer(s.base + uintptr((f-s.lo)*4096)))
}

func (s *vsim) host(f uint64) uintptr { return s.base + uintptr((f-s.lo)*4096) }

// reset poisons the arena and installs the boot root (frame lo) with its recursive entry.
func (s *vsim) reset(cnt uint64) {
	n := s.dirty
	if cnt > n {
		n = cnt
	}
	s.cnt = vArenaMax
	for f := uint64(0); f < n; f++ {
		p := s.page(s.lo + f)
		for i := range p {
			p[i] = vPoison
		}
	}
	s.cnt = cnt
	s.dirty = cnt
	root := s.page(s.lo)
	for i := range root {
		root[i] = 0
	}
	root[511] = s.lo<<12 | vP | vRW
	s.cr3 = s.lo << 12
	s.flushes, s.switches, s.allocs = nil, nil, nil
	s.tempOut = false
}

func vIdx(page uint64, level int) uint64 { return (page >> uint(9*(3-level))) & 511 }

// hw is the hardware translation of a virtual address from the simulated cr3.
func (s *vsim) hw(va uint64) (uint64, bool) {
	t := s.cr3 >> 12
	page := va >> 12
	for k := 0; k < 4; k++ {
		if !s.backed(t) {
			return 0, false
		}
		e := *s.word(t, vIdx(page, k))
		if e&vP == 0 || (k < 3 && e&vHuge != 0) {
			return 0, false
		}
		t = (e & vPhysMask) >> 12
	}
	if !s.backed(t) {
		return 0, false
	}
	return t, true
}

// walkRoot is the monitor's direct walk of a page from a root frame.
// code: k (0..2) = level k entry not present; 3 = reached the leaf entry (entry returned as is);
// 0x10+k = huge entry at level k; 0x40+k = table of level k is not a backed frame.
func (s *vsim) walkRoot(root, page uint64) (uint64, uint64) {
	t := root
	for k := 0; k < 4; k++ {
		if !s.backed(t) {
			return 0x40 + uint64(k), t
		}
		e := *s.word(t, vIdx(page, k))
		if k == 3 {
			return 3, e
		}
		if e&vP == 0 {
			return uint64(k), e
		}
		if e&vHuge != 0 {
			return 0x10 + uint64(k), e
		}
		t = (e & vPhysMask) >> 12
	}
	return 0xff, 0
}

// tableOnPath returns the level-k table frame on page's path from root (ok=false if the path ends earlier).
func (s *vsim) tableOnPath(root, page uint64, level int) (uint64, bool) {
	t := root
	for k := 0; k < level; k++ {
		if !s.backed(t) {
			return 0, false
		}
		e := *s.word(t, vIdx(page, k))
		if e&vP == 0 || e&vHuge != 0 {
			return 0, false
		}
		t = (e & vPhysMask) >> 12
	}
	return t, s.backed(t)
}

func (s *vsim) sum(f uint64) uint64 {
	var h uint64
	p := s.page(f)
	for i, w := range p {
		h += w * uint64(i+1)
	}
	return h
}

var verifErrInjected = &kernel.Error{Module: "verif", Message: "injected allocation failure"}

func verifErrCode(err *kernel.Error) uint64 {
	switch err {
	case nil:
		return 0
	case ErrInvalidMapping:
		return 1
	case errNoHugePageSupport:
		return 2
	case errAttemptToRWMapReservedFrame:
		return 3
	case verifErrInjected:
		return 4
	case errEarlyReserveNoSpace:
		return 5
	case errUnrecoverableFault:
		return 6
	}
	return 7
}

// install wires the package seams to the simulator; the returned function restores them.
func (s *vsim) install() func() {
	oPtePtr, oNext, oFlush, oActive, oSwitch := ptePtrFn, nextAddrFn, flushTLBEntryFn, activePDTFn, switchPDTFn
	oMap, oMapTmp, oUnmap, oVisit, oTranslate, oReadCR2, oHandle := mapFn, mapTemporaryFn, unmapFn, visitElfSectionsFn, translateFn, readCR2Fn, handleInterruptFn
	oEarly, oLast, oZero, oProt, oKpdt := earlyReserveRegionFn, earlyReserveLastUsed, ReservedZeroedFrame, protectReservedZeroedPage, kernelPDT
	oSink := kfmt.GetOutputSink()

	ptePtrFn = func(entryVA uintptr) unsafe.Pointer {
		f, ok := s.hw(uint64(entryVA))
		if !ok || entryVA%8 != 0 {
			panic(verifStray{"pte access", uint64(entryVA)})
		}
		p := s.host(f) + (entryVA & 0xfff)
		s.lastPte, s.lastVA = p, uint64(entryVA)
		return unsafe.Pointer(p)
	}
	nextAddrFn = func(x uintptr) uintptr {
		// in the kernel ptePtrFn is the identity, so x = entryVA << b; here x = hostptr << b
		b := -1
		for k := 0; k < 64; k++ {
			if s.lastPte<<uint(k) == x {
				b = k
				break
			}
		}
		if b < 0 {
			panic(verifStray{"next-table address is not a shift of the entry address", uint64(x)})
		}
		va := s.lastVA << uint(b)
		f, ok := s.hw(va)
		if !ok || va&0xfff != 0 {
			panic(verifStray{"next-table clear", va})
		}
		return s.host(f)
	}
	flushTLBEntryFn = func(a uintptr) { s.flushes = append(s.flushes, uint64(a)) }
	activePDTFn = func() uintptr { return uintptr(s.cr3) }
	switchPDTFn = func(a uintptr) { s.cr3 = uint64(a); s.switches = append(s.switches, uint64(a)) }
	mapFn, unmapFn, translateFn, earlyReserveRegionFn = Map, nil, Translate, EarlyReserveRegion
	mapTemporaryFn = func(f mm.Frame) (mm.Page, *kernel.Error) {
		p, err := MapTemporary(f)
		if err != nil {
			s.tmpErr = true
			return p, err
		}
		// what the MMU makes of the returned page
		t, ok := s.hw(uint64(p.Address()))
		if !ok {
			panic(verifStray{"temporary page does not resolve", uint64(p.Address())})
		}
		s.tempOut, s.tempRet = true, mm.Page(t)
		return mm.Page(t), nil
	}
	unmapFn = func(p mm.Page) *kernel.Error {
		if s.tempOut && p == s.tempRet {
			s.tempOut = false
			p = mm.PageFromAddress(tempMappingAddr)
		}
		return Unmap(p)
	}
	handleInterruptFn = func(_ gate.InterruptNumber, _ uint8, _ func(*gate.Registers)) {}
	mm.SetFrameAllocator(func() (mm.Frame, *kernel.Error) {
		if len(s.oracle) == 0 {
			s.allocErr = true
			return mm.InvalidFrame, verifErrInjected
		}
		f := s.oracle[0]
		s.oracle = s.oracle[1:]
		if f == 0 {
			s.allocErr = true
			return mm.InvalidFrame, verifErrInjected
		}
		s.allocs = append(s.allocs, f)
		return mm.Frame(f), nil
	})
	kfmt.SetOutputSink(verifDiscard{})
	return func() {
		ptePtrFn, nextAddrFn, flushTLBEntryFn, activePDTFn, switchPDTFn = oPtePtr, oNext, oFlush, oActive, oSwitch
		mapFn, mapTemporaryFn, unmapFn, visitElfSectionsFn, translateFn, readCR2Fn, handleInterruptFn = oMap, oMapTmp, oUnmap, oVisit, oTranslate, oReadCR2, oHandle
		earlyReserveRegionFn, earlyReserveLastUsed, ReservedZeroedFrame, protectReservedZeroedPage, kernelPDT = oEarly, oLast, oZero, oProt, oKpdt
		mm.SetFrameAllocator(nil)
		kfmt.SetOutputSink(oSink)
		_ = cpu.ActivePDT
		_ = multiboot.VisitElfSections
	}
}

// ---------------------------------------------------------------------------------------------
// the case interpreter
// ---------------------------------------------------------------------------------------------

type vSection struct{ flags, addr, size uint64 }

type vWant struct {
	frame, flags uint64
	known        bool // false: the page was touched outside the property's domain
}

type vRun struct {
	t     *testing.T
	prop  string
	out   *verifOut
	s     *vsim
	id    int
	pdts  [8]PageDirectoryTable
	inited [8]bool
	probes []uint64
	// monitors
	weird  bool                        // C04 monitor off (history left its domain)
	want   map[uint64]map[uint64]vWant // root frame -> page(36 bits) -> expectation
	used   map[uint64]bool             // frames in use as tables/roots (for the freshness domain check)
	zfSet  bool
	stats  map[string]int
	minit  [8]bool // monitor's view: the last Init of the slot succeeded
	// C05: the early reservations as requested (MapRegion), and whether every one of them was mapped
	resv    []vRegion
	resvBad bool
}

type vRegion struct{ start, n, frame, flags uint64 }

func (r *vRun) mon(sig string, format string, args ...interface{}) {
	r.out.Mon(r.id, r.prop+":"+sig, format, args...)
}

func (r *vRun) roots() []uint64 {
	rs := []uint64{r.s.cr3 >> 12}
	for k := range r.pdts {
		if r.inited[k] {
			rs = append(rs, uint64(r.pdts[k].pdtFrame))
		}
	}
	return rs
}

type vSnap struct {
	roots []uint64
	vals  [][2]uint64
}

func (r *vRun) snapshot() vSnap {
	sn := vSnap{roots: r.roots()}
	for _, root := range sn.roots {
		for _, p := range r.probes {
			c, e := r.s.walkRoot(root, p&vPageMask36)
			sn.vals = append(sn.vals, [2]uint64{c, e})
		}
	}
	return sn
}

// present reports whether a walk result is a present 4 KiB translation.
func vPresent(code, entry uint64) bool { return code == 3 && entry&vP != 0 }

func verifPtRun(t *testing.T, prop string) {
	out := verifOpenOut()
	defer out.Close()
	s := verifSimOpen()
	restore := s.install()
	defer restore()

	stats := map[string]int{}
	for _, c := range verifReadCases() {
		r := &vRun{t: t, prop: prop, out: out, s: s, id: c.id, stats: stats}
		obs := r.runCase(c.nums)
		out.Obs(c.id, obs)
		stats["cases"]++
		if r.weird {
			stats["cases-left-monitor-domain"]++
		}
		if len(obs) > 0 && obs[len(obs)-1] == vStrayObs {
			stats["cases-ending-in-stray"]++
		}
	}
	keys := []string{}
	for k := range stats {
		keys = append(keys, k)
	}
	sort.Strings(keys)
	line := ""
	for _, k := range keys {
		line += fmt.Sprintf("%s=%d ", k, stats[k])
	}
	out.Info("stats", "%s", line)
}

func (r *vRun) runCase(nums []uint64) (obs []uint64) {
	s := r.s
	cur := &verifCur{n: nums}
	lo, cnt, last0 := cur.Next(), cur.Next(), cur.Next()
	if lo != s.lo || cnt == 0 || cnt > vArenaMax {
		return []uint64{0xBAD, s.lo}
	}
	s.reset(cnt)
	s.oracle = cur.List()
	r.probes = cur.List()
	if last0 == 0 {
		last0 = vTempAddr
	}
	earlyReserveLastUsed = uintptr(last0)
	ReservedZeroedFrame, protectReservedZeroedPage = 0, false
	kernelPDT = PageDirectoryTable{}
	r.resvBad = nums[2] != 0
	r.want = map[uint64]map[uint64]vWant{s.lo: {}}
	r.used = map[uint64]bool{s.lo: true}

	for !cur.Done() {
		op := cur.Next()
		var args []uint64
		var secs []vSection
		nargs := map[uint64]int{0: 3, 1: 1, 2: 1, 3: 1, 4: 2, 5: 4, 6: 2, 7: 1, 8: 3, 9: 3, 10: 3, 11: 2, 12: 0, 13: 2, 14: 1, 15: 1, 16: 1, 17: 3, 18: 3, 19: 4}
		n, okop := nargs[op]
		if !okop {
			obs = append(obs, 0xBAD0, op)
			return obs
		}
		for i := 0; i < n; i++ {
			args = append(args, cur.Next())
		}
		if op == 15 {
			k := int(cur.Next())
			for i := 0; i < k; i++ {
				secs = append(secs, vSection{cur.Next(), cur.Next(), cur.Next()})
			}
		}
		res, stray := r.step(op, args, secs)
		if stray {
			obs = append(obs, vStrayObs)
			return obs
		}
		obs = append(obs, res...)
		// probes: every root, every probe page
		for _, root := range r.roots() {
			for _, p := range r.probes {
				c, e := s.walkRoot(root, p&vPageMask36)
				obs = append(obs, c, e)
			}
		}
	}
	// final digest of physical memory
	var h uint64
	for f := s.lo; f < s.lo+s.cnt; f++ {
		h = h*31 + s.sum(f)
	}
	obs = append(obs, h)
	return obs
}

// step runs one op on the real code. res = [code, value, nflush, flushes..., nswitch, switches...]
func (r *vRun) step(op uint64, a []uint64, secs []vSection) (res []uint64, stray bool) {
	s := r.s
	var regRSP, regRIP uint64
	if op == 19 { // a fault with the interrupted register context
		regRSP, regRIP = a[2], a[3]
		op = 13
	}
	s.flushes, s.switches, s.allocs, s.allocErr, s.tmpErr = nil, nil, nil, false, false
	var code, val uint64
	before := r.snapshot()
	var activeRootBefore [512]uint64
	activeFrame := s.cr3 >> 12
	if s.backed(activeFrame) {
		activeRootBefore = *s.page(activeFrame)
	}
	pre := r.preOp(op, a)
	var view uintptr
	haveView := false
	strayWhat := ""

	func() {
		defer func() {
			if x := recover(); x != nil {
				switch v := x.(type) {
				case verifStray:
					stray = true
					strayWhat = fmt.Sprintf("%s at %#x", v.what, v.addr)
					r.out.Info("stray", "case %d op %d: %s at %#x", r.id, op, v.what, v.addr)
				case *kernel.Error:
					code = 0x100 + verifErrCode(v)
				default:
					if _, isRt := x.(interface{ RuntimeError() }); isRt {
						stray = true
						strayWhat = fmt.Sprintf("runtime fault %v", x)
						r.out.Info("stray", "case %d op %d: runtime fault %v", r.id, op, x)
					} else {
						panic(x)
					}
				}
			}
		}()
		switch op {
		case 0:
			code = verifErrCode(Map(mm.Page(a[0]), mm.Frame(a[1]), PageTableEntryFlag(a[2])))
		case 1:
			code = verifErrCode(Unmap(mm.Page(a[0])))
		case 2:
			p, err := Translate(uintptr(a[0]))
			code, val = verifErrCode(err), uint64(p)
		case 3:
			p, err := MapTemporary(mm.Frame(a[0]))
			code, val = verifErrCode(err), uint64(p)
		case 4:
			code = verifErrCode(r.pdts[a[0]&7].Init(mm.Frame(a[1])))
			if code == 0 {
				r.inited[a[0]&7] = true
			}
		case 5:
			code = verifErrCode(r.pdts[a[0]&7].Map(mm.Page(a[1]), mm.Frame(a[2]), PageTableEntryFlag(a[3])))
		case 6:
			code = verifErrCode(r.pdts[a[0]&7].Unmap(mm.Page(a[1])))
		case 7:
			r.pdts[a[0]&7].Activate()
		case 8:
			p, err := MapRegion(mm.Frame(a[0]), uintptr(a[1]), PageTableEntryFlag(a[2]))
			code, val = verifErrCode(err), uint64(p)
		case 9:
			p, err := IdentityMapRegion(mm.Frame(a[0]), uintptr(a[1]), PageTableEntryFlag(a[2]))
			code, val = verifErrCode(err), uint64(p)
		case 10: // poke (set-up, not the code under test)
			if !s.backed(a[0]) {
				code = 1
			} else {
				*s.word(a[0], a[1]&511) = a[2]
			}
		case 11: // fill a data frame with a pattern
			if !s.backed(a[0]) {
				code = 1
			} else {
				p := s.page(a[0])
				for i := range p {
					p[i] = a[1] + uint64(i)*0x9E3779B97F4A7C15
				}
			}
		case 12:
			code = verifErrCode(reserveZeroedFrame())
			val = uint64(ReservedZeroedFrame)
		case 13, 14:
			addr := a[0]
			readCR2Fn = func() uint64 { return addr }
			// the data side of the MMU: the faulting page shows the frame its translation names
			pg := addr &^ 0xfff
			if (pg >= vViewLo && pg < vViewHi) || pg < vLowViewHi {
				if f, ok := s.hw(pg); ok {
					v, err := vmmap(uintptr(pg), 4096, syscall.PROT_READ, syscall.MAP_SHARED|vMapFixedNoReplace, s.fd, int64((f-s.lo)*4096))
					if err != nil || v != uintptr(pg) {
						panic(fmt.Sprintf("view mmap at %#x failed: %v (faults on the lowest pages need mmap_min_addr = 0 or root)", pg, err))
					}
					view, haveView = v, true
				}
			}
			var regs gate.Registers
			regs.RSP, regs.RIP, regs.RBP = regRSP, regRIP, regRSP+16
			if op == 13 {
				regs.Info = a[1]
				pageFaultHandler(&regs)
			} else {
				generalProtectionFaultHandler(&regs)
			}
		case 15:
			visitElfSectionsFn = func(v multiboot.ElfSectionVisitor) {
				for _, sc := range secs {
					if sc.size == 0 {
						continue
					}
					v("sec", multiboot.ElfSectionFlag(sc.flags), uintptr(sc.addr), sc.size)
				}
			}
			code = verifErrCode(setupPDTForKernel(uintptr(a[0])))
			r.pdts[vKernelSlot] = kernelPDT
			if code == 0 {
				r.inited[vKernelSlot] = true
			}
		case 16:
			p, err := EarlyReserveRegion(uintptr(a[0]))
			code, val = verifErrCode(err), uint64(p)
		case 17: // set-up: xor a mask into the level-k entry on a page's path in the active space
			lvl := int(a[1] & 3)
			if t, ok := s.tableOnPath(s.cr3>>12, a[0]&vPageMask36, lvl); ok {
				*s.word(t, vIdx(a[0]&vPageMask36, lvl)) ^= a[2]
			} else {
				code = 1
			}
		case 18: // set-up: or translation-neutral bits into a present upper-level entry / the recursive entry
			m := a[2] & vSafeBits
			lvl := int(a[1] & 3)
			root := s.cr3 >> 12
			if lvl == 3 {
				if s.backed(root) && *s.word(root, 511)&vP != 0 {
					*s.word(root, 511) |= m
				} else {
					code = 1
				}
			} else if t, ok := s.tableOnPath(root, a[0]&vPageMask36, lvl); ok && *s.word(t, vIdx(a[0]&vPageMask36, lvl))&vP != 0 {
				*s.word(t, vIdx(a[0]&vPageMask36, lvl)) |= m
			} else {
				code = 1
			}
		}
	}()
	if haveView {
		syscall.Syscall(syscall.SYS_MUNMAP, view, 4096, 0)
	}
	if stray {
		r.onStray(op, a, pre, strayWhat)
		return nil, true
	}
	r.stats[fmt.Sprintf("op%d", op)]++
	if code == 0 {
		r.stats[fmt.Sprintf("op%d-ok", op)]++
	} else if code == 4 || code == 0x104 {
		r.stats[fmt.Sprintf("op%d-allocfail", op)]++
	} else if code == 3 || code == 0x103 {
		r.stats[fmt.Sprintf("op%d-zero-rw-refused", op)]++
	} else if code == 2 {
		r.stats[fmt.Sprintf("op%d-huge-refused", op)]++
	} else if code == 1 {
		r.stats[fmt.Sprintf("op%d-invalid-mapping", op)]++
	}
	res = append(res, code, val, uint64(len(s.flushes)))
	res = append(res, s.flushes...)
	res = append(res, uint64(len(s.switches)))
	res = append(res, s.switches...)
	r.postOp(op, a, secs, code, val, before, &activeRootBefore, activeFrame, pre)
	return res, false
}
