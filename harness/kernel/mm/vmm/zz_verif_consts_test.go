//go:build verif
// +build verif

package vmm

import (
	"fmt"
	"os"
	"testing"

	"github.com/ProjectSerenity/firefly/kernel/mm"
)

// TestVerifDumpConsts is the translator's front end: the Go compiler evaluates the
// constants of the current source tree and lib/vlib.py turns them into Gen/Consts_mm_vmm.v.
func TestVerifDumpConsts(t *testing.T) {
	f, err := os.Create(os.Getenv("VERIF_OUT"))
	if err != nil {
		t.Fatal(err)
	}
	defer f.Close()
	p := func(name string, v uint64) { fmt.Fprintf(f, "%s N 0x%x\n", name, v) }
	p("mm_PageSize", uint64(mm.PageSize))
	p("mm_PageShift", uint64(mm.PageShift))
	p("mm_PointerShift", uint64(mm.PointerShift))
	p("mm_InvalidFrame", uint64(mm.InvalidFrame))
	p("vmm_pageLevels", uint64(pageLevels))
	p("vmm_ptePhysPageMask", uint64(ptePhysPageMask))
	p("vmm_tempMappingAddr", uint64(tempMappingAddr))
	p("vmm_pdtVirtualAddr", uint64(pdtVirtualAddr))
	p("vmm_earlyReserveInitial", uint64(earlyReserveLastUsed))
	p("vmm_FlagPresent", uint64(FlagPresent))
	p("vmm_FlagRW", uint64(FlagRW))
	p("vmm_FlagUserAccessible", uint64(FlagUserAccessible))
	p("vmm_FlagWriteThroughCaching", uint64(FlagWriteThroughCaching))
	p("vmm_FlagDoNotCache", uint64(FlagDoNotCache))
	p("vmm_FlagAccessed", uint64(FlagAccessed))
	p("vmm_FlagDirty", uint64(FlagDirty))
	p("vmm_FlagHugePage", uint64(FlagHugePage))
	p("vmm_FlagGlobal", uint64(FlagGlobal))
	p("vmm_FlagCopyOnWrite", uint64(FlagCopyOnWrite))
	p("vmm_FlagNoExecute", uint64(FlagNoExecute))
	fmt.Fprintf(f, "vmm_pageLevelBits LN")
	for _, b := range pageLevelBits {
		fmt.Fprintf(f, " %d", b)
	}
	fmt.Fprintf(f, "\nvmm_pageLevelShifts LN")
	for _, b := range pageLevelShifts {
		fmt.Fprintf(f, " %d", b)
	}
	fmt.Fprintf(f, "\n")
}
