//go:build verif
// +build verif

package vmm

import "testing"

// TestVerifC04 runs the shared page-table harness (zz_verif_pt_test.go, zz_verif_ptmon_test.go)
// with the C04 monitor enabled.
func TestVerifC04(t *testing.T) { verifPtRun(t, "c04") }
