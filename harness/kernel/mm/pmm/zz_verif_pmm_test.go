//go:build verif
// +build verif

package pmm

import (
	"fmt"
	"os"
	"sync/atomic"
	"testing"
	"time"
	"unsafe"

	"github.com/ProjectSerenity/firefly/kernel"
	"github.com/ProjectSerenity/firefly/kernel/mm"
	"github.com/ProjectSerenity/firefly/kernel/mm/vmm"
	"github.com/ProjectSerenity/firefly/kernel/multiboot"
)

// TestVerifPmm drives pmm.Init (boot allocator -> bitmap allocator hand-over) and then histories
// of mm.AllocFrame / bitmapAllocator.FreeFrame calls. It serves C01 (selector 1: exclusivity
// monitors) and C03 (selector 3: accounting / error-contract / no-crash monitors).
//
// case = selector :: nregions :: (addr len type)* ++ [kernelStart; kernelEnd; reserveLimit; mapFail; ops...]
//
//	reserveLimit: the reserveRegionFn stub fails for requests above it (0 = always fails)
//	mapFail:      0 = the mapFn stub never fails, k+1 = it fails at its k-th call (0-based)
//	ops:          0 = AllocFrame | 1 f = FreeFrame(f) | 2 k = FreeFrame(result of the (k mod n)-th
//	              successful AllocFrame so far; skipped when n = 0)
//
// obs  = init code (0 ok | 1 reserve-seam error | 2 map-seam error | 3 boot out-of-memory | 9 panic)
//
//	:: requested bytes :: #map calls :: (relative page, frame, flags)* ++ (on ok) [totalPages; reservedPages]
//	(7 = pool headers / bitmaps outside the reserved block)
//	++ per op: Alloc -> 1 f | 0 InvalidFrame ; Free -> 0 ok | 1 not-managed | 2 double-free ; 9 = panic (case ends)
//	   each followed by totalPages, reservedPages
//
// See coq/theories/Pmm/Bitmap.v (run_case).
func TestVerifPmm(t *testing.T) {
	out := verifOpenOut()
	defer out.Close()
	defer func(a func(uintptr) (uintptr, *kernel.Error), b func(mm.Page, mm.Frame, vmm.PageTableEntryFlag) *kernel.Error) {
		reserveRegionFn, mapFn = a, b
		mm.SetFrameAllocator(nil)
		multiboot.SetInfoPtr(0)
		bitmapAllocator = BitmapAllocator{}
		bootMemAllocator = BootMemAllocator{}
	}(reserveRegionFn, mapFn)

	errReserve := &kernel.Error{Module: "verif", Message: "injected reserve failure"}
	errMap := &kernel.Error{Module: "verif", Message: "injected map failure"}
	const canary = 0xa5

	// watchdog: a runaway loop inside the allocator (it holds no Go preemption point) must not
	// hang the run; report the case and leave.
	var curCase, curSel, progress int64
	go func() {
		last, stuck := int64(-1), 0
		for {
			time.Sleep(500 * time.Millisecond)
			p := atomic.LoadInt64(&progress)
			if p != last {
				last, stuck = p, 0
				continue
			}
			if stuck++; stuck >= 16 {
				prop := "c03"
				if atomic.LoadInt64(&curSel) == 1 {
					prop = "c01"
				}
				out.Mon(int(atomic.LoadInt64(&curCase)), prop+":hangs", "no progress for 8 seconds inside the allocator")
				out.Close()
				os.Exit(3)
			}
		}
	}()

	for _, c := range verifReadCases() {
		cur := &verifCur{n: c.nums}
		sel := cur.Next()
		atomic.StoreInt64(&curCase, int64(c.id))
		atomic.StoreInt64(&curSel, int64(sel))
		atomic.AddInt64(&progress, 1)
		regions := verifDecodeMap(cur)
		kstart, kend, reserveLimit, mapFail := cur.Next(), cur.Next(), cur.Next(), cur.Next()
		keep := verifBuildMultiboot(regions)
		mi := verifAnalyse(regions, kstart, kend)
		mon := func(prop uint64, sig string, format string, args ...interface{}) {
			if mi.wellFormed && sel == prop {
				out.Mon(c.id, sig, format, args...)
			}
		}

		// fresh allocators, exactly the zero values the kernel starts with
		bitmapAllocator = BitmapAllocator{}
		bootMemAllocator = BootMemAllocator{}

		var (
			mem       []byte
			base      uintptr
			reqBytes  uint64
			mapCalls  [][3]uint64
			earlySet  = map[uint64]bool{}
			basePage  uint64
			reserveOK bool
		)
		reserveRegionFn = func(size uintptr) (uintptr, *kernel.Error) {
			reqBytes = uint64(size)
			if uint64(size) > reserveLimit {
				return 0, errReserve
			}
			// page-aligned block followed by a canary page
			mem = make([]byte, int(size)+2*int(mm.PageSize))
			base = (uintptr(unsafe.Pointer(&mem[0])) + mm.PageSize - 1) &^ (mm.PageSize - 1)
			off := int(base - uintptr(unsafe.Pointer(&mem[0])))
			for i := range mem {
				mem[i] = canary
			}
			_ = off
			basePage = uint64(base >> mm.PageShift)
			reserveOK = true
			return base, nil
		}
		mapFn = func(page mm.Page, frame mm.Frame, flags vmm.PageTableEntryFlag) *kernel.Error {
			mapCalls = append(mapCalls, [3]uint64{uint64(page) - basePage, uint64(frame), uint64(flags)})
			earlySet[uint64(frame)] = true
			if mapFail != 0 && uint64(len(mapCalls)) == mapFail {
				return errMap
			}
			return nil
		}

		var obs []uint64
		var initErr *kernel.Error
		initPanic := verifRecover(func() { initErr = Init(uintptr(kstart), uintptr(kend)) })
		code := uint64(0)
		switch {
		case initPanic != nil:
			code = 9
		case initErr == errReserve:
			code = 1
		case initErr == errMap:
			code = 2
		case initErr == errBootAllocOutOfMemory:
			code = 3
		case initErr != nil:
			code = 8
		}
		if code == 0 {
			// the pool headers and bitmaps must lie inside the block Init asked for
			for i := range bitmapAllocator.pools {
				h := bitmapAllocator.pools[i].freeBitmapHdr
				if h.Len > 0 && (h.Data < base || h.Data+uintptr(h.Len)*8 > base+uintptr(reqBytes)) {
					code = 7
				}
			}
			if uintptr(len(bitmapAllocator.pools))*unsafe.Sizeof(framePool{}) > uintptr(reqBytes) {
				code = 7
			}
			if code == 7 {
				mon(3, "c03:state-outside-reserved-block", "pool headers / bitmaps do not fit the %d bytes Init reserved", reqBytes)
			}
		}
		obs = append(obs, code, reqBytes, uint64(len(mapCalls)))
		for _, mc := range mapCalls {
			obs = append(obs, mc[0], mc[1], mc[2])
		}

		// ---- monitor: initialisation (C03) ----
		availCount := uint64(0)
		for _, iv := range mi.availIntervals {
			availCount += iv[1] - iv[0] + 1
		}
		usableCount := uint64(0) // available, not kernel, not early
		for _, iv := range mi.availIntervals {
			for f := iv[0]; f <= iv[1]; f++ {
				if !mi.frameInKernel(f) && !earlySet[f] {
					usableCount++
				}
			}
		}
		switch code {
		case 9:
			mon(3, "c03:init-panics", "pmm.Init panicked: %v", initPanic)
		case 8:
			mon(3, "c03:init-unexpected-error", "pmm.Init failed with %v", initErr.Message)
		case 1:
			if reqBytes <= reserveLimit {
				mon(3, "c03:init-unexpected-error", "reserve error without injection")
			}
		case 3:
			// out of memory is legitimate only if the early allocator could not supply the pages
			need := (reqBytes + uint64(mm.PageSize) - 1) / uint64(mm.PageSize)
			nonKernel := uint64(0)
			for _, iv := range mi.availIntervals {
				for f := iv[0]; f <= iv[1]; f++ {
					if !mi.frameInKernel(f) {
						nonKernel++
					}
				}
			}
			if nonKernel >= need+2*uint64(len(regions))+2 {
				mon(3, "c03:spurious-init-oom", "pmm.Init reported out-of-memory needing %d pages while %d available non-kernel frames exist", need, nonKernel)
			}
		}
		if reserveOK {
			// the allocator state must stay inside the block it asked for
			off := int(base-uintptr(unsafe.Pointer(&mem[0]))) + int(reqBytes)
			for i := off; i < len(mem); i++ {
				if mem[i] != canary {
					mon(3, "c03:state-outside-reserved-block", "byte %d past the %d reserved bytes was overwritten", i-off, reqBytes)
					break
				}
			}
		}
		if code != 0 {
			out.Obs(c.id, obs)
			_ = keep[0]
			continue
		}
		obs = append(obs, uint64(bitmapAllocator.totalPages), uint64(bitmapAllocator.reservedPages))

		for _, mc := range mapCalls {
			if !mi.frameAvailable(mc[1]) || mi.frameInKernel(mc[1]) {
				mon(3, "c03:early-frame-not-usable", "early-boot frame %#x handed to mapFn is not free available RAM", mc[1])
			}
		}

		held := map[uint64]bool{}
		quiet := false // set once the history leaves the property's quantifier
		checkStats := func(when string) {
			if quiet {
				return
			}
			total, reserved := uint64(bitmapAllocator.totalPages), uint64(bitmapAllocator.reservedPages)
			if total != availCount {
				mon(3, "c03:total-pages", "%s: totalPages = %d but the map holds %d whole available frames", when, total, availCount)
			}
			if total-reserved != usableCount-uint64(len(held)) || reserved > total {
				mon(3, "c03:free-count", "%s: totalPages-reservedPages = %d-%d but usable-held = %d-%d", when, total, reserved, usableCount, len(held))
			}
		}
		checkStats("after Init")

		var results []uint64 // successful allocations so far, in order
		for !cur.Done() {
			op := cur.Next()
			atomic.AddInt64(&progress, 1)
			switch op {
			case 0:
				var f mm.Frame
				var err *kernel.Error
				if p := verifRecover(func() { f, err = mm.AllocFrame() }); p != nil {
					obs = append(obs, 9)
					if !quiet {
						mon(3, "c03:alloc-panics", "AllocFrame panicked: %v", p)
					}
					goto done
				}
				if err != nil {
					obs = append(obs, 0, uint64(f))
					if !quiet {
						if err != errBitmapAllocOutOfMemory || f.Valid() {
							mon(3, "c03:alloc-unexpected-error", "AllocFrame failed with %v / frame %#x", err.Message, uint64(f))
						}
						if uint64(len(held)) != usableCount {
							mon(3, "c03:oom-with-free-frames", "AllocFrame reported out-of-memory with %d of %d usable frames held", len(held), usableCount)
						}
					}
				} else {
					obs = append(obs, 1, uint64(f))
					results = append(results, uint64(f))
					if !quiet {
						switch {
						case !mi.frameAvailable(uint64(f)):
							mon(1, "c01:frame-not-in-available-ram", "AllocFrame returned frame %#x which is not wholly inside an available region", uint64(f))
						case mi.frameInKernel(uint64(f)):
							mon(1, "c01:frame-in-kernel-image", "AllocFrame returned frame %#x inside the kernel image frames [%#x,%#x]", uint64(f), mi.kFirst, mi.kLast)
						case earlySet[uint64(f)]:
							mon(1, "c01:frame-used-by-early-boot", "AllocFrame returned frame %#x which the early-boot allocator had handed out", uint64(f))
						case held[uint64(f)]:
							mon(1, "c01:frame-already-held", "AllocFrame returned frame %#x which is still held by an earlier caller", uint64(f))
						}
						if uint64(len(held)) >= usableCount {
							mon(3, "c03:alloc-beyond-usable", "AllocFrame succeeded (frame %#x) although all %d usable frames are held", uint64(f), usableCount)
						}
						if !mi.frameAvailable(uint64(f)) || mi.frameInKernel(uint64(f)) || earlySet[uint64(f)] || held[uint64(f)] {
							// not one of the usable frames: it does not count towards "exactly the usable
							// frames can be allocated" and is not added to the ownership table
							mon(3, "c03:alloc-of-unusable-frame", "AllocFrame returned frame %#x which is not a usable free frame (%d of %d usable frames held)", uint64(f), len(held), usableCount)
						} else {
							held[uint64(f)] = true
						}
					}
				}
			case 1, 2:
				arg := cur.Next()
				if op == 2 {
					if len(results) == 0 {
						continue
					}
					arg = results[arg%uint64(len(results))]
				}
				totalBefore, reservedBefore := bitmapAllocator.totalPages, bitmapAllocator.reservedPages
				var err *kernel.Error
				if p := verifRecover(func() { err = bitmapAllocator.FreeFrame(mm.Frame(arg)) }); p != nil {
					obs = append(obs, 9)
					if !quiet {
						mon(3, "c03:free-panics", "FreeFrame(%#x) panicked: %v", arg, p)
					}
					goto done
				}
				fcode := uint64(0)
				switch err {
				case nil:
				case errBitmapAllocFrameNotManaged:
					fcode = 1
				case errBitmapAllocDoubleFree:
					fcode = 2
				default:
					fcode = 8
				}
				obs = append(obs, fcode)
				if !quiet {
					managed := mi.frameAvailable(arg)
					switch {
					case held[arg]:
						if err != nil {
							mon(3, "c03:free-of-held-frame-rejected", "FreeFrame(%#x) of a held frame failed with %v", arg, err.Message)
						} else {
							delete(held, arg)
						}
					case !managed:
						if err != errBitmapAllocFrameNotManaged {
							mon(3, "c03:free-of-unmanaged-frame", "FreeFrame(%#x) of a frame outside available RAM returned %v, want the not-managed error", arg, verifErrStr(err))
						}
					case managed && (mi.frameInKernel(arg) || earlySet[arg]):
						// frame reserved at initialisation and never handed to a caller: outside the
						// histories the property quantifies over. The code cannot tell it from an
						// allocated frame and frees it (known finding); stop judging this history.
						if err == nil {
							mon(3, "c03:free-of-init-reserved-frame-accepted", "FreeFrame(%#x) released a frame reserved for the kernel image / early boot", arg)
						}
						quiet = true
					default: // managed and currently free
						if err != errBitmapAllocDoubleFree {
							mon(3, "c03:free-of-free-frame", "FreeFrame(%#x) of a frame that is already free returned %v, want the double-free error", arg, verifErrStr(err))
						}
					}
					if err != nil && (bitmapAllocator.totalPages != totalBefore || bitmapAllocator.reservedPages != reservedBefore) {
						mon(3, "c03:rejected-free-changed-state", "FreeFrame(%#x) failed but the totals changed", arg)
					}
				}
			default:
				t.Fatalf("bad op %d in case %d", op, c.id)
			}
			obs = append(obs, uint64(bitmapAllocator.totalPages), uint64(bitmapAllocator.reservedPages))
			checkStats(fmt.Sprintf("after op %d", len(obs)))
		}
	done:
		if reserveOK {
			off := int(base-uintptr(unsafe.Pointer(&mem[0]))) + int(reqBytes)
			for i := off; i < len(mem); i++ {
				if mem[i] != canary {
					mon(3, "c03:state-outside-reserved-block", "byte %d past the %d reserved bytes was overwritten", i-off, reqBytes)
					break
				}
			}
		}
		out.Obs(c.id, obs)
		_ = keep[0]
	}
}

func verifRecover(f func()) (p interface{}) {
	defer func() { p = recover() }()
	f()
	return nil
}

func verifErrStr(err *kernel.Error) string {
	if err == nil {
		return "success"
	}
	return err.Message
}
