//go:build verif
// +build verif

package pmm

import (
	"unsafe"

	"github.com/ProjectSerenity/firefly/kernel/multiboot"
)

// verifRegion is one bootloader memory-map entry of a case.
type verifRegion struct {
	addr, length uint64
	typ          uint64
}

// verifBuildMultiboot encodes a multiboot2 information block holding one memory-map tag and
// registers it with the real multiboot package. The returned slice keeps the block alive.
// (VisitMemRegions rewrites entry types in place, so a block is built per use.)
func verifBuildMultiboot(regions []verifRegion) []uint64 {
	const entrySize = 24
	tagSize := 16 + entrySize*len(regions)
	total := 8 + ((tagSize + 7) &^ 7) + 8
	buf := make([]uint64, (total+7)/8+1)
	b := (*[1 << 30]byte)(unsafe.Pointer(&buf[0]))[: len(buf)*8 : len(buf)*8]
	put32 := func(off int, v uint32) {
		b[off], b[off+1], b[off+2], b[off+3] = byte(v), byte(v>>8), byte(v>>16), byte(v>>24)
	}
	put64 := func(off int, v uint64) { put32(off, uint32(v)); put32(off+4, uint32(v>>32)) }
	put32(0, uint32(total))
	put32(4, 0)
	put32(8, 6) // tagMemoryMap
	put32(12, uint32(tagSize))
	put32(16, entrySize)
	put32(20, 0)
	off := 24
	for _, r := range regions {
		put64(off, r.addr)
		put64(off+8, r.length)
		put32(off+16, uint32(r.typ))
		put32(off+20, 0)
		off += entrySize
	}
	off = 8 + ((tagSize + 7) &^ 7)
	put32(off, 0) // end tag
	put32(off+4, 8)
	multiboot.SetInfoPtr(uintptr(unsafe.Pointer(&buf[0])))
	return buf
}

// verifMapInfo is the monitor's own reading of a case: which frames are wholly inside available
// RAM, which belong to the kernel image, and whether the case is inside the properties'
// quantifier (sorted, non-overlapping map without address wrap-around; kernel image with a
// page-aligned start lying inside one available region).
type verifMapInfo struct {
	regions        []verifRegion
	kstart, kend   uint64
	wellFormed     bool
	why            string
	kFirst, kLast  uint64 // frames touched by the kernel image (inclusive)
	availIntervals [][2]uint64
}

const verifPage = 4096

func verifAnalyse(regions []verifRegion, kstart, kend uint64) *verifMapInfo {
	mi := &verifMapInfo{regions: regions, kstart: kstart, kend: kend, wellFormed: true}
	bad := func(why string) {
		if mi.wellFormed {
			mi.wellFormed, mi.why = false, why
		}
	}
	const limit = uint64(1) << 62
	var prevEnd uint64
	for i, r := range regions {
		if r.addr >= limit || r.length >= limit {
			bad("address range too large")
			continue
		}
		if i > 0 && r.addr < prevEnd {
			bad("regions unsorted or overlapping")
		}
		if r.addr+r.length > prevEnd {
			prevEnd = r.addr + r.length
		}
		if r.typ == 1 {
			// whole frames inside [addr, addr+len)
			first := (r.addr + verifPage - 1) / verifPage
			end := (r.addr + r.length) / verifPage // exclusive
			if end > first {
				mi.availIntervals = append(mi.availIntervals, [2]uint64{first, end - 1})
			}
		}
	}
	if kstart%verifPage != 0 || kstart >= kend || kend >= limit {
		bad("kernel image not page aligned / empty")
	} else {
		inside := false
		for _, r := range regions {
			if r.typ == 1 && r.addr < limit && r.length < limit && r.addr <= kstart && kend <= r.addr+r.length {
				inside = true
			}
		}
		if !inside {
			bad("kernel image not inside one available region")
		}
		mi.kFirst = kstart / verifPage
		mi.kLast = (kend - 1) / verifPage
	}
	return mi
}

func (mi *verifMapInfo) frameAvailable(f uint64) bool {
	for _, iv := range mi.availIntervals {
		if iv[0] <= f && f <= iv[1] {
			return true
		}
	}
	return false
}

func (mi *verifMapInfo) frameInKernel(f uint64) bool { return mi.kFirst <= f && f <= mi.kLast }

func verifDecodeMap(cur *verifCur) []verifRegion {
	n := int(cur.Next())
	regions := make([]verifRegion, 0, n)
	for i := 0; i < n; i++ {
		regions = append(regions, verifRegion{cur.Next(), cur.Next(), cur.Next()})
	}
	return regions
}

func verifNth(l []uint64, i int) interface{} {
	if i < len(l) {
		return l[i]
	}
	return "nothing"
}
