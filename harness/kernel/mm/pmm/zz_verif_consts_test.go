//go:build verif
// +build verif

package pmm

import (
	"fmt"
	"os"
	"testing"
	"unsafe"

	"github.com/ProjectSerenity/firefly/kernel/mm"
	"github.com/ProjectSerenity/firefly/kernel/mm/vmm"
	"github.com/ProjectSerenity/firefly/kernel/multiboot"
)

// TestVerifDumpConsts is the translator's front end for package mm/pmm: the Go compiler
// evaluates the constants of the current source tree and lib/vlib.py turns them into
// Gen/Consts_mm_pmm.v.
func TestVerifDumpConsts(t *testing.T) {
	f, err := os.Create(os.Getenv("VERIF_OUT"))
	if err != nil {
		t.Fatal(err)
	}
	defer f.Close()
	p := func(name string, v uint64) { fmt.Fprintf(f, "%s N 0x%x\n", name, v) }
	p("mm_PageSize", uint64(mm.PageSize))
	p("mm_PageShift", uint64(mm.PageShift))
	p("mm_InvalidFrame", uint64(mm.InvalidFrame))
	p("pmm_sizeofFramePool", uint64(unsafe.Sizeof(framePool{})))
	p("pmm_sizeofBitmapWord", uint64(unsafe.Sizeof(uint64(0))))
	p("pmm_mapFlags", uint64(vmm.FlagPresent|vmm.FlagRW|vmm.FlagNoExecute))
	p("multiboot_MemAvailable", uint64(multiboot.MemAvailable))
	p("multiboot_MemReserved", uint64(multiboot.MemReserved))
	p("multiboot_MemAcpiReclaimable", uint64(multiboot.MemAcpiReclaimable))
	p("multiboot_MemNvs", uint64(multiboot.MemNvs))
	p("multiboot_sizeofMemoryMapEntry", uint64(unsafe.Sizeof(multiboot.MemoryMapEntry{})))
}
