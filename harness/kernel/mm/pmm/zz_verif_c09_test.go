//go:build verif
// +build verif

package pmm

import (
	"os"
	"math/rand"
	"runtime"
	gosync "sync"
	"sync/atomic"
	"testing"
	"time"
	"unsafe"

	"github.com/ProjectSerenity/firefly/kernel/mm"
	ksync "github.com/ProjectSerenity/firefly/kernel/sync"
)

// TestVerifC09: parallel AllocFrame/FreeFrame stress on a BitmapAllocator built directly over host memory.
// case = [npools, then per pool: startFrame, frames ; callers ; iters ; seed]
// Monitors: per-frame CAS ownership table (no frame held by two callers), every frame returned lies in a
// pool, a freed frame is accepted exactly once, counters at quiescence, watchdog for hangs.
// Observation: [1] when the run completed (the sequential model is covered by C01/C03).
func TestVerifC09(t *testing.T) {
	out := verifOpenOut()
	defer out.Close()
	runtime.GOMAXPROCS(runtime.NumCPU())
	defer ksync.VerifSetYieldFn(ksync.VerifSetYieldFn(runtime.Gosched))

	for _, c := range verifReadCases() {
		cur := &verifCur{n: c.nums}
		npools := int(cur.Next())
		var alloc BitmapAllocator
		alloc.pools = make([]framePool, npools)
		total := uint32(0)
		type rng struct{ start, n uint64 }
		var ranges []rng
		for i := 0; i < npools; i++ {
			start, n := cur.Next(), cur.Next()
			words := (n + 63) / 64
			alloc.pools[i].startFrame = mm.Frame(start)
			alloc.pools[i].endFrame = mm.Frame(start + n - 1)
			alloc.pools[i].freeCount = uint32(n)
			alloc.pools[i].freeBitmap = make([]uint64, words)
			total += uint32(n)
			ranges = append(ranges, rng{start, n})
		}
		alloc.totalPages = total
		callers, iters, seed := int(cur.Next()), int(cur.Next()), int64(cur.Next())
		// capMode (odd seeds): every caller holds at most capHold frames with callers*capHold < total, so the HIGHEST
		// managed frame is never allocated (allocation is lowest-first) and freeing it is a double free every time:
		// the error paths of FreeFrame are then taken constantly under contention
		capHold := 0
		if seed%2 == 1 && int(total) > callers+1 {
			capHold = (int(total) - 1) / callers
		}
		neverAllocated := mm.Frame(ranges[len(ranges)-1].start + ranges[len(ranges)-1].n - 1)
		var doubleFreeAccepted int64
		_ = unsafe.Sizeof(alloc)

		index := func(f mm.Frame) int { // position of a frame in the ownership table, -1 if unmanaged
			off := 0
			for _, r := range ranges {
				if uint64(f) >= r.start && uint64(f) < r.start+r.n {
					return off + int(uint64(f)-r.start)
				}
				off += int(r.n)
			}
			return -1
		}
		owners := make([]int32, total) // 0 = free, k = held by caller k
		var (
			dupes, strays, badFree, lostFree, oomWhileFree int64
			held                                          int64
			wg                                            gosync.WaitGroup
		)
		wg.Add(callers)
		finalHeld := make([][]mm.Frame, callers)
		for w := 0; w < callers; w++ {
			go func(w int) {
				defer wg.Done()
				r := rand.New(rand.NewSource(seed*977 + int64(w)))
				var mine []mm.Frame
				for i := 0; i < iters; i++ {
					if capHold > 0 && r.Intn(3) == 0 {
						if err := alloc.FreeFrame(neverAllocated); err == nil {
							atomic.AddInt64(&doubleFreeAccepted, 1)
						}
					}
					if (len(mine) == 0 || r.Intn(100) < 55) && (capHold == 0 || len(mine) < capHold) {
						f, err := alloc.AllocFrame()
						if err != nil {
							continue
						}
						ix := index(f)
						if ix < 0 {
							atomic.AddInt64(&strays, 1)
							continue
						}
						if !atomic.CompareAndSwapInt32(&owners[ix], 0, int32(w+1)) {
							atomic.AddInt64(&dupes, 1)
							continue
						}
						atomic.AddInt64(&held, 1)
						mine = append(mine, f)
					} else {
						k := r.Intn(len(mine))
						f := mine[k]
						mine[k] = mine[len(mine)-1]
						mine = mine[:len(mine)-1]
						// give up ownership BEFORE freeing: afterwards anyone may get the frame
						atomic.StoreInt32(&owners[index(f)], 0)
						atomic.AddInt64(&held, -1)
						if err := alloc.FreeFrame(f); err != nil {
							atomic.AddInt64(&badFree, 1)
						}
						// bad frees must be rejected (and must not wedge the allocator): an unmanaged frame,
						// and sometimes the frame just freed (it may legitimately have been re-allocated by
						// another caller in between, so only the unmanaged case is counted)
						if r.Intn(6) == 0 {
							if err := alloc.FreeFrame(mm.Frame(ranges[len(ranges)-1].start + ranges[len(ranges)-1].n + 7)); err == nil {
								atomic.AddInt64(&lostFree, 1)
							}
						}
					}
					if r.Intn(16) == 0 {
						runtime.Gosched()
					}
				}
				finalHeld[w] = mine
			}(w)
		}
		done := make(chan struct{})
		go func() { wg.Wait(); close(done) }()
		select {
		case <-done:
		case <-time.After(240 * time.Second):
			out.Mon(c.id, "c09:hang", "callers=%d iters=%d seed=%d pools=%v did not finish within 240s: a call blocks forever", callers, iters, seed, ranges)
			out.Obs(c.id, []uint64{0})
			out.Close()
			os.Exit(3) // spinning goroutines cannot be preempted: end the process explicitly
		}
		if dupes != 0 {
			out.Mon(c.id, "c09:frame-held-twice", "%d allocations returned a frame another caller still held (callers=%d iters=%d seed=%d pools=%v)", dupes, callers, iters, seed, ranges)
		}
		if strays != 0 {
			out.Mon(c.id, "c09:frame-outside-pools", "%d allocations returned a frame outside every pool", strays)
		}
		if badFree != 0 {
			out.Mon(c.id, "c09:free-rejected", "%d frees of frames held by the caller were rejected (callers=%d iters=%d seed=%d pools=%v)", badFree, callers, iters, seed, ranges)
		}
		// quiescence: totals equal initial totals adjusted by the frames still held
		stillHeld := 0
		for _, m := range finalHeld {
			stillHeld += len(m)
		}
		if uint32(stillHeld) != alloc.reservedPages {
			out.Mon(c.id, "c09:totals-at-quiescence", "reservedPages=%d but callers still hold %d frames (total %d; callers=%d iters=%d seed=%d pools=%v)", alloc.reservedPages, stillHeld, total, callers, iters, seed, ranges)
		}
		free := uint32(0)
		for i := range alloc.pools {
			free += alloc.pools[i].freeCount
		}
		if free != total-uint32(stillHeld) {
			out.Mon(c.id, "c09:totals-at-quiescence", "sum of freeCount=%d, expected %d-%d", free, total, stillHeld)
		}
		// every frame not held must be allocatable again: drain sequentially
		got := 0
		for {
			f, err := alloc.AllocFrame()
			if err != nil {
				break
			}
			ix := index(f)
			if ix < 0 || owners[ix] != 0 {
				out.Mon(c.id, "c09:frame-held-twice", "drain after quiescence returned frame %d which is held or unmanaged", f)
				break
			}
			owners[ix] = -1
			got++
			if got > int(total) {
				break
			}
		}
		if got != int(total)-stillHeld {
			out.Mon(c.id, "c09:lost-frame", "after quiescence %d frames could be allocated, expected %d (total %d, held %d): freed frames were lost", got, int(total)-stillHeld, total, stillHeld)
		}
		if doubleFreeAccepted != 0 {
			out.Mon(c.id, "c09:double-free-accepted", "%d frees of a frame that was never allocated were accepted", doubleFreeAccepted)
		}
		if lostFree != 0 {
			out.Mon(c.id, "c09:bad-free-accepted", "%d frees of an unmanaged frame were accepted", lostFree)
		}
		_ = oomWhileFree
		out.Obs(c.id, []uint64{1})
	}
}
