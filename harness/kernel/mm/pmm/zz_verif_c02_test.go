//go:build verif
// +build verif

package pmm

import (
	"testing"

	"github.com/ProjectSerenity/firefly/kernel/multiboot"
)

// TestVerifC02 drives BootMemAllocator.AllocFrame (through the real multiboot region visitor)
// for a fixed number of calls, then resets the cursor as reserveEarlyAllocatorFrames does and
// replays allocCount calls. Case encoding: see coq/theories/Pmm/Boot.v.
func TestVerifC02(t *testing.T) {
	out := verifOpenOut()
	defer out.Close()
	for _, c := range verifReadCases() {
		cur := &verifCur{n: c.nums}
		regions := verifDecodeMap(cur)
		kstart, kend, ncalls := cur.Next(), cur.Next(), cur.Next()
		keep := verifBuildMultiboot(regions)
		mi := verifAnalyse(regions, kstart, kend)

		var alloc BootMemAllocator
		alloc.init(uintptr(kstart), uintptr(kend))
		var obs []uint64
		var first []uint64
		for i := uint64(0); i < ncalls; i++ {
			f, err := alloc.AllocFrame()
			if err != nil {
				obs = append(obs, 0, uint64(f))
				if mi.wellFormed && f.Valid() {
					out.Mon(c.id, "c02:error-with-frame", "call %d reported an error together with frame %#x", i, uint64(f))
				}
				continue
			}
			obs = append(obs, 1, uint64(f))
			if !mi.wellFormed {
				first = append(first, uint64(f))
				continue
			}
			// ---- monitor: the property, checked directly ----
			if !mi.frameAvailable(uint64(f)) {
				out.Mon(c.id, "c02:frame-not-in-available-ram", "call %d returned frame %#x which is not wholly inside an available region", i, uint64(f))
			}
			if mi.frameInKernel(uint64(f)) {
				out.Mon(c.id, "c02:frame-in-kernel-image", "call %d returned frame %#x inside the kernel image frames [%#x,%#x]", i, uint64(f), mi.kFirst, mi.kLast)
			}
			if len(first) > 0 && uint64(f) <= first[len(first)-1] {
				out.Mon(c.id, "c02:not-ascending", "call %d returned frame %#x after frame %#x", i, uint64(f), first[len(first)-1])
			}
			first = append(first, uint64(f))
		}
		count := alloc.allocCount
		obs = append(obs, count)
		if mi.wellFormed && count != uint64(len(first)) {
			out.Mon(c.id, "c02:alloc-count", "allocCount is %d after %d successful allocations", count, len(first))
		}
		// hand-over: reset and replay, exactly as reserveEarlyAllocatorFrames does
		alloc.allocCount, alloc.lastAllocFrame = 0, 0
		if count > ncalls+8 {
			count = ncalls + 8 // keep a broken counter from running away; reported above
		}
		for i := uint64(0); i < count; i++ {
			f, err := alloc.AllocFrame()
			if err != nil {
				obs = append(obs, 0, uint64(f))
			} else {
				obs = append(obs, 1, uint64(f))
			}
			if mi.wellFormed && (err != nil || int(i) >= len(first) || uint64(f) != first[i]) {
				out.Mon(c.id, "c02:replay-differs", "replayed call %d returned frame %#x (err=%v), the boot-time call returned %v", i, uint64(f), err != nil, verifNth(first, int(i)))
			}
		}
		out.Obs(c.id, obs)
		_ = keep[0]
	}
	multiboot.SetInfoPtr(0)
}
