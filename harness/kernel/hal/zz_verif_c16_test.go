//go:build verif
// +build verif

package hal

import (
	"bytes"
	"image/color"
	"io"
	"os"
	"sort"
	"strconv"
	"testing"
	"time"
	"unsafe"

	"github.com/ProjectSerenity/firefly/kernel"
	"github.com/ProjectSerenity/firefly/kernel/device"
	"github.com/ProjectSerenity/firefly/kernel/device/tty"
	"github.com/ProjectSerenity/firefly/kernel/device/video/console"
	"github.com/ProjectSerenity/firefly/kernel/device/video/console/font"
	"github.com/ProjectSerenity/firefly/kernel/device/video/console/logo"
	"github.com/ProjectSerenity/firefly/kernel/multiboot"
	"github.com/ProjectSerenity/firefly/kernel/kfmt"
)

// ---------------------------------------------------------------------------------------------
// C16: device bring-up.  Case encoding and observation: see coq/theories/Hal/Model.v (run_case).
//
// The harness registers mock drivers (through the add-only verif shim device.VerifSetDrivers),
// logs through kfmt.Printf before and after hal.DetectHardware() and records every call the mock
// drivers receive.  The monitor checks each sentence of the property on that trace; what "was
// logged" is obtained text-agnostically from a second, reference execution of the same scenario
// in which a recorder is the output sink from the very start (so the early ring buffer is not
// involved): expected terminal content = newest `capacity` bytes of what was logged before the
// link, followed by everything logged afterwards; `capacity` is measured, not assumed.
// ---------------------------------------------------------------------------------------------

type verifEvent struct {
	kind int // 0 probe, 1 init, 2 attach, 3 setstate, 4 setlogo, 5 setfont (b: 1 = a font was supplied)
	a, b int
}

type verifWorld struct {
	events    []verifEvent
	ttys      map[int]*verifTTY
	consoles  map[int]*verifConsole
	fontNames []string
}

type verifDrvSpec struct {
	id                  int
	order               int8
	probeOK             bool
	kind                int
	name                string
	major, minor, patch uint16
	initOK              bool
	msg                 string
	log                 [][]byte
}

type verifBase struct {
	spec *verifDrvSpec
	w    *verifWorld
}

func (d *verifBase) DriverName() string                     { return d.spec.name }
func (d *verifBase) DriverVersion() (uint16, uint16, uint16) { return d.spec.major, d.spec.minor, d.spec.patch }
func (d *verifBase) DriverInit(w io.Writer) *kernel.Error {
	d.w.events = append(d.w.events, verifEvent{1, d.spec.id, 0})
	for _, c := range d.spec.log {
		w.Write(c)
	}
	if !d.spec.initOK {
		return &kernel.Error{Module: "verif", Message: d.spec.msg}
	}
	return nil
}

type verifOther struct{ verifBase }

// verifConsole is a cell-level reference console: every Write / Fill / Scroll is applied to a grid of
// (character, fg, bg) cells (the semantics of coq/theories/Console/Grid.v, as in the C18 harness:
// coordinates are 1-based, out-of-range writes are ignored, Fill clips to the console, Scroll keeps the
// old content in the vacated lines). Its geometry depends on the driver id so that wrapping, the
// scrollback and scrolling of the attached terminal are all reached.
type verifCell struct{ ch, fg, bg uint8 }

type verifConsole struct {
	verifBase
	cells []verifCell // row-major, allocated on first use
	draws int         // number of Write/Fill/Scroll calls received
}

var verifGeometries = [][2]int{{80, 25}, {40, 10}, {13, 4}, {7, 3}, {132, 50}, {1, 1}, {20, 2}, {3, 30}}

func (c *verifConsole) geom() (int, int) {
	g := verifGeometries[c.spec.id%len(verifGeometries)]
	return g[0], g[1]
}
func (c *verifConsole) grid() []verifCell {
	if c.cells == nil {
		w, h := c.geom()
		c.cells = make([]verifCell, w*h)
		for i := range c.cells {
			c.cells[i] = verifCell{0xfe, 0xfe, 0xfe} // never-drawn marker
		}
	}
	return c.cells
}
func (c *verifConsole) Dimensions(d console.Dimension) (uint32, uint32) {
	w, h := c.geom()
	if d == console.Pixels {
		return uint32(w * 8), uint32(h * 16)
	}
	return uint32(w), uint32(h)
}
func (c *verifConsole) DefaultColors() (uint8, uint8) { return 7, 0 }
func (c *verifConsole) Fill(x, y, width, height uint32, fg, bg uint8) {
	c.draws++
	w, h := c.geom()
	g := c.grid()
	clamp := func(v uint32, m int) int {
		if v == 0 {
			return 1
		}
		if v >= uint32(m) {
			return m
		}
		return int(v)
	}
	x0, y0 := clamp(x, w), clamp(y, h)
	for cy := y0; cy <= h && uint32(cy-y0) < height; cy++ {
		for cx := x0; cx <= w && uint32(cx-x0) < width; cx++ {
			g[(cy-1)*w+cx-1] = verifCell{' ', fg, bg}
		}
	}
}
func (c *verifConsole) Scroll(dir console.ScrollDir, lines uint32) {
	c.draws++
	w, h := c.geom()
	g := c.grid()
	if lines < 1 || lines > uint32(h) {
		return
	}
	k := int(lines)
	switch dir {
	case console.ScrollDirUp:
		copy(g, g[k*w:])
	case console.ScrollDirDown:
		copy(g[k*w:], g[:(h-k)*w])
	}
}
func (c *verifConsole) Write(ch byte, fg, bg uint8, x, y uint32) {
	c.draws++
	w, h := c.geom()
	if x >= 1 && x <= uint32(w) && y >= 1 && y <= uint32(h) {
		c.grid()[(int(y)-1)*w+int(x)-1] = verifCell{ch, fg, bg}
	}
}
func (c *verifConsole) Palette() color.Palette            { return nil }
func (c *verifConsole) SetPaletteColor(uint8, color.RGBA) {}

// verifBaseConsole returns the grid console inside any of the mock console types.
func verifBaseConsole(c interface{}) *verifConsole {
	switch vc := c.(type) {
	case *verifConsole:
		return vc
	case *verifFontConsole:
		return &vc.verifConsole
	case *verifLogoConsole:
		return &vc.verifConsole
	case *verifFontLogoConsole:
		return &vc.verifConsole
	}
	return nil
}

// ---- the reference terminal, written from the text of property C17 (as in the C17 harness):
// h+sb lines of w cells, a viewport, a cursor; CR, LF, BS, TAB, printable bytes, wrap after the last
// column, the viewport moving down through the scrollback and then scrolling ----
type verifRefTerm struct {
	w, h, sb, tab int
	fg, bg        uint8
	lines         [][]verifCell
	view, x, y    int
}

func newVerifRefTerm(w, h, sb, tab int, fg, bg uint8) *verifRefTerm {
	r := &verifRefTerm{w: w, h: h, sb: sb, tab: tab, fg: fg, bg: bg, x: 1, y: 1}
	for i := 0; i < h+sb; i++ {
		r.lines = append(r.lines, r.blank())
	}
	return r
}
func (r *verifRefTerm) blank() []verifCell {
	l := make([]verifCell, r.w)
	for i := range l {
		l[i] = verifCell{' ', r.fg, r.bg}
	}
	return l
}
func (r *verifRefTerm) lineFeed() {
	r.x = 1
	switch {
	case r.y < r.h:
		r.y++
	case r.view+r.h < r.h+r.sb:
		r.view++
	default:
		copy(r.lines[r.view:], r.lines[r.view+1:r.view+r.h])
		r.lines[r.view+r.h-1] = r.blank()
	}
}
func (r *verifRefTerm) put(ch uint8) {
	r.lines[r.view+r.y-1][r.x-1] = verifCell{ch, r.fg, r.bg}
	if r.x < r.w {
		r.x++
	} else {
		r.lineFeed()
	}
}
func (r *verifRefTerm) writeByte(b uint8) {
	switch b {
	case '\r':
		r.x = 1
	case '\n':
		r.lineFeed()
	case '\b':
		if r.x > 1 {
			r.x--
			r.lines[r.view+r.y-1][r.x-1] = verifCell{' ', r.fg, r.bg}
		}
	case '\t':
		for i := 0; i < r.tab; i++ {
			r.put(' ')
		}
	default:
		r.put(b)
	}
}

// consoles that support loadable fonts and/or logos (console.FontSetter / console.LogoSetter)
type verifFontConsole struct{ verifConsole }

func (c *verifFontConsole) SetFont(f *font.Font) {
	ok := 0
	if f != nil {
		ok = 1
	}
	c.w.fontNames = append(c.w.fontNames, fontName(f))
	c.w.events = append(c.w.events, verifEvent{5, c.spec.id, ok})
}

type verifLogoConsole struct{ verifConsole }

func (c *verifLogoConsole) SetLogo(*logo.Image) { c.w.events = append(c.w.events, verifEvent{4, c.spec.id, 0}) }

type verifFontLogoConsole struct{ verifConsole }

func (c *verifFontLogoConsole) SetFont(f *font.Font) {
	ok := 0
	if f != nil {
		ok = 1
	}
	c.w.fontNames = append(c.w.fontNames, fontName(f))
	c.w.events = append(c.w.events, verifEvent{5, c.spec.id, ok})
}
func (c *verifFontLogoConsole) SetLogo(*logo.Image) {
	c.w.events = append(c.w.events, verifEvent{4, c.spec.id, 0})
}

func fontName(f *font.Font) string {
	if f == nil {
		return ""
	}
	return f.Name
}

// verifConsoleID maps any of the mock console types to its driver id (-1 for anything else).
func verifConsoleID(c interface{}) int {
	switch vc := c.(type) {
	case *verifConsole:
		return vc.spec.id
	case *verifFontConsole:
		return vc.spec.id
	case *verifLogoConsole:
		return vc.spec.id
	case *verifFontLogoConsole:
		return vc.spec.id
	}
	return -1
}

// verifInstallCmdLine builds a multiboot2 information block (the way kernel/multiboot's tests lay theirs
// out: 8-byte header, tags {type uint32, size uint32, payload} padded to 8 bytes, end tag) that holds
// the given boot command line (no command-line tag at all when cmdline is empty) and installs it.
var verifMbBlock []uint64 // keeps the block alive and 8-byte aligned

func verifInstallCmdLine(cmdline string) {
	var b []byte
	le32 := func(v uint32) { b = append(b, byte(v), byte(v>>8), byte(v>>16), byte(v>>24)) }
	le32(0) // total size, patched below
	le32(0) // reserved
	if cmdline != "" {
		le32(1) // boot command line tag
		le32(uint32(8 + len(cmdline) + 1))
		b = append(b, cmdline...)
		b = append(b, 0)
		for len(b)%8 != 0 {
			b = append(b, 0)
		}
	}
	le32(0) // end tag
	le32(8)
	b[0], b[1], b[2], b[3] = byte(len(b)), byte(len(b)>>8), 0, 0
	verifMbBlock = make([]uint64, (len(b)+7)/8+1)
	dst := (*[1 << 16]byte)(unsafe.Pointer(&verifMbBlock[0]))[:len(b)]
	copy(dst, b)
	multiboot.SetInfoPtr(uintptr(unsafe.Pointer(&verifMbBlock[0])))
	multiboot.VerifResetCmdLine()
}

// verifTTY is the terminal driver handed to the HAL: a recording proxy in front of a REAL tty.VT
// (constructed as the kernel does: NewVT(DefaultTabWidth, DefaultScrollback)); every tty.Device call is
// recorded and forwarded, so the attached console shows what the real terminal draws.
type verifTTY struct {
	verifBase
	vt       *tty.VT
	got      []byte
	attached []int
	state    tty.State
	nstate   int
}

func (t *verifTTY) Write(p []byte) (int, error) {
	t.got = append(t.got, p...)
	t.vt.Write(p)
	return len(p), nil
}
func (t *verifTTY) WriteByte(b byte) error {
	t.got = append(t.got, b)
	t.vt.WriteByte(b)
	return nil
}
func (t *verifTTY) AttachTo(c console.Device) {
	id := verifConsoleID(c)
	t.attached = append(t.attached, id)
	t.w.events = append(t.w.events, verifEvent{2, t.spec.id, id})
	t.vt.AttachTo(c)
}
func (t *verifTTY) State() tty.State { return t.state }
func (t *verifTTY) SetState(s tty.State) {
	t.state = s
	t.nstate++
	t.w.events = append(t.w.events, verifEvent{3, t.spec.id, int(s)})
	t.vt.SetState(s)
}
func (t *verifTTY) CursorPosition() (uint32, uint32) { return t.vt.CursorPosition() }
func (t *verifTTY) SetCursorPosition(x, y uint32)    { t.vt.SetCursorPosition(x, y) }

type verifLogOp struct {
	kind int
	b    []byte
	v    int64
}

type verifScenario struct {
	fontOpt, logoOpt int // boot command line: consoleFont= none / one of the fonts / unknown ; consoleLogo= none / off / other
	pre, post        []verifLogOp
	drivers          []*verifDrvSpec
	claimed          []int
}

// cmdLine renders the scenario's boot command line; wantFont is the font that must be used if it exists.
func (sc *verifScenario) cmdLine() (line string, wantFont string) {
	names := []string{"terminus8x16", "terminus10x18", "terminus14x28"}
	parts := []string{}
	switch {
	case sc.fontOpt >= 1 && sc.fontOpt <= 3:
		wantFont = names[sc.fontOpt-1]
		if font.FindByName(wantFont) == nil {
			wantFont = ""
		}
		parts = append(parts, "consoleFont="+names[sc.fontOpt-1])
	case sc.fontOpt >= 4:
		parts = append(parts, "consoleFont=no-such-font")
	}
	switch sc.logoOpt {
	case 1:
		parts = append(parts, "consoleLogo=off")
	case 2:
		parts = append(parts, "consoleLogo=on")
	}
	if sc.fontOpt == 0 && sc.logoOpt == 0 {
		return "", ""
	}
	line = "quiet"
	for _, p := range parts {
		line += " " + p
	}
	return line, wantFont
}

func verifBytes(l []uint64) []byte {
	b := make([]byte, len(l))
	for i, v := range l {
		b[i] = byte(v)
	}
	return b
}

func verifDecodeLogOps(cur *verifCur) []verifLogOp {
	n := int(cur.Next())
	var ops []verifLogOp
	for i := 0; i < n; i++ {
		switch k := cur.Next(); k {
		case 0, 1:
			ops = append(ops, verifLogOp{kind: int(k), b: verifBytes(cur.List())})
		default:
			ops = append(ops, verifLogOp{kind: 2, v: int64(cur.Next())})
		}
	}
	return ops
}

func verifDecode(nums []uint64) *verifScenario {
	cur := &verifCur{n: nums}
	sc := &verifScenario{}
	sc.fontOpt, sc.logoOpt = int(cur.Next()), int(cur.Next())
	sc.pre = verifDecodeLogOps(cur)
	n := int(cur.Next())
	for i := 0; i < n; i++ {
		d := &verifDrvSpec{id: i}
		d.order = int8(cur.Next())
		d.probeOK = cur.Next() != 0
		d.kind = int(cur.Next())
		if d.kind > 5 {
			d.kind = 5
		}
		d.name = string(verifBytes(cur.List()))
		d.major, d.minor, d.patch = uint16(cur.Next()), uint16(cur.Next()), uint16(cur.Next())
		d.initOK = cur.Next() != 0
		d.msg = string(verifBytes(cur.List()))
		nlog := int(cur.Next())
		for j := 0; j < nlog; j++ {
			d.log = append(d.log, verifBytes(cur.List()))
		}
		sc.drivers = append(sc.drivers, d)
	}
	for _, v := range cur.List() {
		sc.claimed = append(sc.claimed, int(v))
	}
	sc.post = verifDecodeLogOps(cur)
	return sc
}

func verifRunLog(ops []verifLogOp) {
	for _, o := range ops {
		switch o.kind {
		case 0:
			kfmt.Printf("%s", o.b)
		case 1:
			kfmt.Printf("%s", string(o.b))
		default:
			kfmt.Printf("%8d\n", o.v)
		}
	}
}

// verifResetKernelLog empties the early ring buffer and makes it the output sink again.
func verifResetKernelLog() {
	kfmt.VerifResetEarlyBuffer()
}

type verifRun struct {
	w         *verifWorld
	activeTTY int // driver id or -1
	activeCon int
	actives   []int
	sinkTTY   int          // id of the TTY that is the output sink, -1 if the sink is not one of the mock TTYs
	sinkIsBuf bool         // GetOutputSink() is still the early buffer (or the reference recorder)
	ring      []byte       // what the early buffer still holds at the end
	recorder  bytes.Buffer // reference run only: everything logged while the recorder was the sink
	panicked  interface{}
}

// verifExecute runs one scenario against the real hal / kfmt / device code.
func verifExecute(sc *verifScenario, reference bool) *verifRun {
	r := &verifRun{w: &verifWorld{ttys: map[int]*verifTTY{}, consoles: map[int]*verifConsole{}}, activeTTY: -1, activeCon: -1, sinkTTY: -1}
	byDriver := map[device.Driver]int{}
	var list device.DriverInfoList
	for _, spec := range sc.drivers {
		spec := spec
		base := verifBase{spec: spec, w: r.w}
		var drv device.Driver
		switch spec.kind {
		case 0:
			drv = &verifConsole{verifBase: base}
		case 3:
			drv = &verifFontConsole{verifConsole{verifBase: base}}
		case 4:
			drv = &verifLogoConsole{verifConsole{verifBase: base}}
		case 5:
			drv = &verifFontLogoConsole{verifConsole{verifBase: base}}
		case 1:
			t := &verifTTY{verifBase: base, vt: tty.NewVT(tty.DefaultTabWidth, tty.DefaultScrollback)}
			r.w.ttys[spec.id] = t
			drv = t
		default:
			drv = &verifOther{base}
		}
		byDriver[drv] = spec.id
		if bc := verifBaseConsole(drv); bc != nil {
			r.w.consoles[spec.id] = bc
		}
		list = append(list, &device.DriverInfo{Order: device.DetectOrder(spec.order), Probe: func() device.Driver {
			r.w.events = append(r.w.events, verifEvent{0, spec.id, 0})
			if !spec.probeOK {
				return nil
			}
			return drv
		}})
	}
	verifResetKernelLog()
	devices = managedDevices{}
	strBuf.Reset()
	device.VerifSetDrivers(list)
	cmdline, _ := sc.cmdLine()
	verifInstallCmdLine(cmdline)
	defer func() {
		verifInstallCmdLine("")
		device.VerifSetDrivers(nil)
		devices = managedDevices{}
		verifResetKernelLog()
	}()
	if reference {
		kfmt.SetOutputSink(&r.recorder)
	}
	func() {
		defer func() {
			if p := recover(); p != nil {
				r.panicked = p
			}
		}()
		verifRunLog(sc.pre)
		DetectHardware()
		verifRunLog(sc.post)
	}()
	if t := ActiveTTY(); t != nil {
		if vt, ok := t.(*verifTTY); ok {
			r.activeTTY = vt.spec.id
		}
	}
	if c := devices.activeConsole; c != nil {
		r.activeCon = verifConsoleID(c)
	}
	for _, d := range devices.activeDrivers {
		id, ok := byDriver[d]
		if !ok {
			id = -1
		}
		r.actives = append(r.actives, id)
	}
	snk := kfmt.GetOutputSink()
	if vt, ok := snk.(*verifTTY); ok {
		r.sinkTTY = vt.spec.id
	} else {
		r.sinkIsBuf = true
	}
	// what the early buffer still holds
	var rest bytes.Buffer
	kfmt.SetOutputSink(&rest)
	r.ring = append([]byte(nil), rest.Bytes()...)
	return r
}

func verifSuffix(b []byte, n int) []byte {
	if len(b) > n {
		return b[len(b)-n:]
	}
	return b
}

// TestVerifC16Sort is the pre-pass that tells the case generator in which order sort.Sort leaves a
// registration list (ties are not ordered by the property; the model takes the sorted list as input).
// case = orders (8-bit patterns); obs = the permutation.
func TestVerifC16Sort(t *testing.T) {
	out := verifOpenOut()
	defer out.Close()
	for _, c := range verifReadCases() {
		var list device.DriverInfoList
		idx := map[*device.DriverInfo]int{}
		for i, v := range c.nums {
			di := &device.DriverInfo{Order: device.DetectOrder(int8(v))}
			idx[di] = i
			list = append(list, di)
		}
		sort.Sort(list)
		var obs []uint64
		for _, di := range list {
			obs = append(obs, uint64(idx[di]))
		}
		out.Obs(c.id, obs)
	}
}

func TestVerifC16(t *testing.T) {
	out := verifOpenOut()
	defer out.Close()

	// watchdog: a hand-over whose drain loop never ends would hang the whole run
	curID := 0
	hang := func() {
		out.Mon(curID, "c16:hang", "bring-up (or the hand-over of the early log) did not terminate within 8s")
		out.Flush()
		os.Exit(3)
	}
	watchdog := time.AfterFunc(8*time.Second, hang)
	defer func() { watchdog.Stop() }()

	// measured capacity of the early buffer: log far more than it can hold, then hand over
	capacity := 0
	{
		verifResetKernelLog()
		big := bytes.Repeat([]byte("0123456789abcdef"), 1024)
		kfmt.Printf("%s", big)
		var sink bytes.Buffer
		kfmt.SetOutputSink(&sink)
		capacity = sink.Len()
		verifResetKernelLog()
	}
	out.Info("c16-early-buffer-capacity", "%d", capacity)
	// the capacity the source declares (ringBufferSize-1, regenerated from kfmt on every run and handed
	// over by the check): a buffer that silently holds less loses boot log
	if v := os.Getenv("VERIF_C16_CAPACITY"); v != "" {
		if declared, err := strconv.Atoi(v); err == nil {
			if declared != capacity {
				out.Mon(0, "c16:early-buffer-capacity", "logging 16 KiB before the hand-over delivered %d bytes to the new sink; the early buffer is declared to hold %d", capacity, declared)
			}
			capacity = declared
		}
	}

	var nLinked, nFailed, nOverflow, nCells, nCellDiff int
	for _, c := range verifReadCases() {
		curID = c.id
		watchdog.Stop()
		watchdog = time.AfterFunc(8*time.Second, hang)
		sc := verifDecode(c.nums)
		run := verifExecute(sc, false)
		if run.panicked != nil {
			out.Mon(c.id, "c16:panic", "bring-up panicked: %v", run.panicked)
			out.Obs(c.id, []uint64{0xffff})
			continue
		}

		// ---------------- observation (compared with the model) ----------------
		var probes, inits, attaches, states, logos, fonts []uint64
		for _, e := range run.w.events {
			switch e.kind {
			case 0:
				probes = append(probes, uint64(e.a))
			case 1:
				inits = append(inits, uint64(e.a))
			case 2:
				attaches = append(attaches, uint64(e.a), uint64(e.b))
			case 3:
				states = append(states, uint64(e.a), uint64(e.b))
			case 4:
				logos = append(logos, uint64(e.a))
			case 5:
				fonts = append(fonts, uint64(e.a))
			}
		}
		var obs []uint64
		obs = append(obs, uint64(len(probes)))
		obs = append(obs, probes...)
		obs = append(obs, uint64(len(inits)))
		obs = append(obs, inits...)
		obs = append(obs, uint64(run.activeTTY+1), uint64(run.activeCon+1), uint64(len(run.actives)))
		for _, a := range run.actives {
			obs = append(obs, uint64(a))
		}
		obs = append(obs, uint64(len(attaches)/2))
		obs = append(obs, attaches...)
		obs = append(obs, uint64(len(states)/2))
		obs = append(obs, states...)
		obs = append(obs, uint64(len(logos)))
		obs = append(obs, logos...)
		obs = append(obs, uint64(len(fonts)))
		obs = append(obs, fonts...)
		otherBytes := 0
		if run.sinkTTY >= 0 {
			got := run.w.ttys[run.sinkTTY].got
			obs = append(obs, uint64(run.sinkTTY+1), uint64(len(got)))
			for _, b := range got {
				obs = append(obs, uint64(b))
			}
		} else {
			obs = append(obs, 0, 0)
		}
		for id, tt := range run.w.ttys {
			if id != run.sinkTTY {
				otherBytes += len(tt.got)
			}
		}
		obs = append(obs, uint64(otherBytes), uint64(len(run.ring)))
		for _, b := range run.ring {
			obs = append(obs, uint64(b))
		}
		out.Obs(c.id, obs)

		// ---------------- monitor ----------------
		specOf := func(id int) *verifDrvSpec { return sc.drivers[id] }
		// (1) probed in non-decreasing detection order, every registered driver exactly once
		seen := map[int]int{}
		for _, p := range probes {
			seen[int(p)]++
		}
		for i, p := range probes {
			if i > 0 && specOf(int(probes[i-1])).order > specOf(int(p)).order {
				out.Mon(c.id, "c16:probe-order", "driver %d (order %d) probed before driver %d (order %d)", probes[i-1], specOf(int(probes[i-1])).order, p, specOf(int(p)).order)
				break
			}
		}
		for _, d := range sc.drivers {
			if seen[d.id] != 1 {
				out.Mon(c.id, "c16:probe-set", "driver %d probed %d times", d.id, seen[d.id])
				break
			}
		}
		// hypotheses of the model's sorted list: the observed order is the one the pre-pass predicted
		if len(sc.claimed) == len(probes) {
			for i := range probes {
				if int(probes[i]) != sc.claimed[i] {
					out.Info("c16-sort-differs-from-prepass", "case %d", c.id)
					break
				}
			}
		}
		// (2) init exactly for the drivers whose probe found hardware, in probe order
		var wantInits []uint64
		for _, p := range probes {
			if specOf(int(p)).probeOK {
				wantInits = append(wantInits, p)
			}
		}
		if len(wantInits) != len(inits) {
			out.Mon(c.id, "c16:init-calls", "DriverInit called %d times, %d drivers were detected", len(inits), len(wantInits))
		} else {
			for i := range inits {
				if inits[i] != wantInits[i] {
					out.Mon(c.id, "c16:init-calls", "DriverInit call %d went to driver %d, expected %d", i, inits[i], wantInits[i])
					break
				}
			}
		}
		// (3) active drivers = initialised drivers; a failed driver never becomes active
		firstCon, firstTTY := -1, -1
		linkAt := -1 // index in probes of the driver whose init completes the pair
		var wantActive []int
		for i, p := range probes {
			s := specOf(int(p))
			if !s.probeOK {
				continue
			}
			if !s.initOK {
				nFailed++
				continue
			}
			wantActive = append(wantActive, s.id)
			if (s.kind == 0 || s.kind >= 3) && firstCon < 0 {
				firstCon = s.id
				if firstTTY >= 0 {
					linkAt = i
				}
			}
			if s.kind == 1 && firstTTY < 0 {
				firstTTY = s.id
				if firstCon >= 0 {
					linkAt = i
				}
			}
		}
		_ = linkAt
		for _, a := range run.actives {
			if a < 0 || !specOf(a).probeOK || !specOf(a).initOK {
				out.Mon(c.id, "c16:failed-driver-active", "driver %d is listed as active although its init failed or it was never detected", a)
			}
		}
		gotSorted := append([]int(nil), run.actives...)
		wantSorted := append([]int(nil), wantActive...)
		sort.Ints(gotSorted)
		sort.Ints(wantSorted)
		if len(gotSorted) != len(wantSorted) {
			out.Mon(c.id, "c16:active-drivers", "%d active drivers, %d initialised successfully", len(gotSorted), len(wantSorted))
		} else {
			for i := range wantSorted {
				if gotSorted[i] != wantSorted[i] {
					out.Mon(c.id, "c16:active-drivers", "active drivers %v, initialised drivers %v", gotSorted, wantSorted)
					break
				}
			}
		}
		// (4) only the first console and the first terminal to initialise become the active pair
		if run.activeTTY != firstTTY {
			out.Mon(c.id, "c16:wrong-active-tty", "ActiveTTY is driver %d, the first terminal to initialise is %d", run.activeTTY, firstTTY)
		}
		if run.activeCon != firstCon {
			out.Mon(c.id, "c16:wrong-active-console", "active console is driver %d, the first console to initialise is %d", run.activeCon, firstCon)
		}
		// reference run: what was logged before / after the hand-over
		ref := verifExecute(sc, true)
		if ref.panicked != nil {
			out.Mon(c.id, "c16:panic", "bring-up (with a sink set from the start) panicked: %v", ref.panicked)
			continue
		}
		early := ref.recorder.Bytes()
		var later []byte
		if ref.sinkTTY >= 0 {
			later = ref.w.ttys[ref.sinkTTY].got
		}
		// every failed init is reported on the log
		for _, p := range probes {
			s := specOf(int(p))
			if s.probeOK && !s.initOK && len(s.msg) > 0 {
				all := append(append([]byte(nil), early...), later...)
				if !bytes.Contains(all, []byte(s.msg)) {
					out.Mon(c.id, "c16:init-failure-not-reported", "driver %d failed with %q but the log does not mention it", s.id, s.msg)
				}
			}
		}
		if firstCon >= 0 && firstTTY >= 0 {
			nLinked++
			tt := run.w.ttys[firstTTY]
			// (5) the terminal is attached to the console, active, and is the log sink
			if len(tt.attached) == 0 || tt.attached[len(tt.attached)-1] != firstCon {
				out.Mon(c.id, "c16:not-attached", "terminal %d AttachTo calls %v, expected console %d", firstTTY, tt.attached, firstCon)
			}
			if tt.state != tty.StateActive {
				out.Mon(c.id, "c16:not-active", "terminal %d is not active after bring-up", firstTTY)
			}
			if run.sinkTTY != firstTTY {
				out.Mon(c.id, "c16:not-sink", "the output sink is not the active terminal (sink tty %d, active %d)", run.sinkTTY, firstTTY)
			}
			// (6) early log (newest `capacity` bytes) exactly once, in order, ahead of later output
			if len(early) > capacity {
				nOverflow++
			}
			want := append(append([]byte(nil), verifSuffix(early, capacity)...), later...)
			if !bytes.Equal(tt.got, want) {
				k := 0
				for k < len(want) && k < len(tt.got) && want[k] == tt.got[k] {
					k++
				}
				out.Mon(c.id, "c16:terminal-content", "terminal received %d bytes, expected %d (= newest %d of %d early bytes + %d later bytes); first difference at %d",
					len(tt.got), len(want), len(verifSuffix(early, capacity)), len(early), len(later), k)
			}
			// (7) second configuration: the terminal is the real tty.VT, the console a cell grid. The cells the
			// console shows after bring-up are what a reference terminal of the console's geometry shows
			// after receiving newest-capacity(early log) ++ later log: nothing missing, nothing twice.
			if cons := run.w.consoles[firstCon]; cons != nil {
				w, h := cons.geom()
				ref := newVerifRefTerm(w, h, int(tty.DefaultScrollback), int(tty.DefaultTabWidth), 7, 0)
				for _, b := range want {
					ref.writeByte(b)
				}
				grid := cons.grid()
				bad := -1
				for y := 0; y < h && bad < 0; y++ {
					for x := 0; x < w; x++ {
						if grid[y*w+x] != ref.lines[ref.view+y][x] {
							bad = y*w + x
							break
						}
					}
				}
				if bad >= 0 {
					nCellDiff++
					g, e := grid[bad], ref.lines[ref.view+bad/w][bad%w]
					out.Mon(c.id, "c16:console-shows-wrong-cells", "console %d (%dx%d) after bring-up: cell (x=%d,y=%d) shows (%q,%d,%d), the reference terminal fed the %d expected bytes shows (%q,%d,%d)",
						firstCon, w, h, bad%w+1, bad/w+1, g.ch, g.fg, g.bg, len(want), e.ch, e.fg, e.bg)
				}
				nCells++
			}
			if len(run.ring) != 0 {
				out.Mon(c.id, "c16:ring-not-drained", "%d bytes are still in the early buffer after the hand-over (they would be shown twice)", len(run.ring))
			}
		} else {
			// no pair: nothing may be linked, and the early buffer keeps the newest part of the log
			if run.sinkTTY >= 0 {
				out.Mon(c.id, "c16:sink-without-pair", "terminal %d became the output sink without a console/terminal pair", run.sinkTTY)
			}
			if want := verifSuffix(early, capacity); !bytes.Equal(run.ring, want) {
				out.Mon(c.id, "c16:early-log-lost", "early buffer holds %d bytes, expected the newest %d of %d logged bytes", len(run.ring), len(want), len(early))
			}
		}
		// consoles that are not the active one are never drawn on
		for id, cons := range run.w.consoles {
			if (id != firstCon || firstTTY < 0) && cons.draws != 0 {
				out.Mon(c.id, "c16:inactive-console-drawn", "console %d (not part of an active pair) received %d drawing calls", id, cons.draws)
			}
		}
		// terminals that are not the active one are never touched
		for id, tt := range run.w.ttys {
			if id != firstTTY || firstCon < 0 {
				if len(tt.attached) != 0 || tt.nstate != 0 || len(tt.got) != 0 {
					out.Mon(c.id, "c16:inactive-terminal-touched", "terminal %d (not part of the active pair): %d attach calls, %d state changes, %d bytes", id, len(tt.attached), tt.nstate, len(tt.got))
				}
			}
		}
	}
	out.Info("c16", "linked=%d failed-inits=%d early-overflow=%d capacity=%d cell-comparisons=%d cell-differences=%d", nLinked, nFailed, nOverflow, capacity, nCells, nCellDiff)
}
