//go:build verif
// +build verif

package kernel

import (
	"testing"
	"unsafe"
)

// TestVerifC06Mem drives Memset and Memcopy on a patterned buffer; see coq/theories/Kernel/MemUtil.v
// (run_case) for the encoding:
//   0 total base value size : Memset(&buf[base], value, size) on buf = pattern(total)
//   1 total src dst size    : Memcopy(&buf[src], &buf[dst], size)
// Observation: 0 followed by the run-length encoding of the buffer afterwards, or 1 for a panic.
// Monitor (independent of the model), only for what C06 (and C04/C01) rely on - a page-sized Memset, a
// page-sized Memcopy between disjoint regions: exactly the requested bytes changed, to the requested
// values. Other sizes and overlapping copies are compared with the model only.
func TestVerifC06Mem(t *testing.T) {
	out := verifOpenOut()
	defer out.Close()
	for _, c := range verifReadCases() {
		n := c.nums
		if len(n) < 5 {
			out.Obs(c.id, nil)
			continue
		}
		total, a, b, size := int(n[1]), int(n[2]), n[3], n[4]
		// guard pages of slack on both sides so that an overrun is seen, not a crash of the test binary
		const slack = 8192
		raw := make([]byte, total+2*slack)
		for i := range raw {
			raw[i] = 0xA5
		}
		buf := raw[slack : slack+total]
		before := make([]byte, total)
		for i := range buf {
			buf[i] = byte(i*7 + 3)
			before[i] = buf[i]
		}
		panicked := false
		func() {
			defer func() {
				if r := recover(); r != nil {
					panicked = true
				}
			}()
			var base uintptr
			if total > 0 {
				base = uintptr(unsafe.Pointer(&buf[0]))
			}
			switch n[0] {
			case 0:
				Memset(base+uintptr(a), byte(b), uintptr(size))
			case 1:
				Memcopy(base+uintptr(a), base+uintptr(b), uintptr(size))
			}
		}()
		const pageSize = 4096
		judged := size == pageSize && (n[0] == 0 || a+pageSize <= int(b) || int(b)+pageSize <= a)
		if panicked {
			out.Obs(c.id, []uint64{1})
			if judged {
				out.Mon(c.id, "c06:mem-panic", "Memset/Memcopy of %d bytes panicked", size)
			}
			continue
		}
		// slack untouched?
		for i := range raw {
			if judged && (i < slack || i >= slack+total) && raw[i] != 0xA5 {
				out.Mon(c.id, "c06:mem-overrun", "byte %d outside the buffer (buffer is [%d,%d)) was written", i-slack, 0, total)
				break
			}
		}
		// independent expectation
		want := make([]byte, total)
		copy(want, before)
		sz := int(size)
		switch n[0] {
		case 0:
			for i := 0; i < sz && a+i < total; i++ {
				want[a+i] = byte(b)
			}
		case 1:
			d := int(b)
			for i := 0; i < sz && d+i < total && a+i < total; i++ {
				want[d+i] = before[a+i]
			}
		}
		for i := range want {
			if judged && buf[i] != want[i] {
				if n[0] == 0 {
					out.Mon(c.id, "c06:memset-wrong-bytes", "Memset(base+%d, %#x, %d) on a %d-byte buffer: byte %d is %#x, expected %#x", a, b, size, total, i, buf[i], want[i])
				} else {
					out.Mon(c.id, "c06:memcopy-wrong-bytes", "Memcopy(src=base+%d, dst=base+%d, %d) on a %d-byte buffer: byte %d is %#x, expected %#x", a, b, size, total, i, buf[i], want[i])
				}
				break
			}
		}
		// run-length encoding of the result
		obs := []uint64{0}
		if total > 0 {
			cur, cnt := buf[0], uint64(1)
			for _, x := range buf[1:] {
				if x == cur {
					cnt++
				} else {
					obs = append(obs, cnt, uint64(cur))
					cur, cnt = x, 1
				}
			}
			obs = append(obs, cnt, uint64(cur))
		}
		out.Obs(c.id, obs)
	}
}
