// Overlay REPLACEMENT for kernel/goruntime/bootstrap_go18+.go (used only by /verif's `go test -overlay`).
//
// The real file declares body-less functions that are linknamed into the Go runtime
// (runtime.alginit, runtime.mSysStatInc, runtime.procresize, ...).  Those symbols no longer exist
// (mSysStatInc) or may no longer be referenced from outside the runtime (Go 1.23 link check), so the
// package does not link under `go test`.  This shim gives the same identifiers plain Go bodies so
// that bootstrap.go - the code under test, taken unchanged from /repo - compiles and links:
//   mSysStatInc adds to *stat (what runtime.mSysStatInc did: an atomic add of n to the counter),
//   the runtime initialisation entry points do nothing, procResize returns 0.
// Nothing else of the package is replaced.

package goruntime

func algInit() {}

func modulesInit() {}

func typeLinksInit() {}

func itabsInit() {}

func mallocInit() {}

func mSysStatInc(stat *uint64, n uintptr) {
	*stat += uint64(n)
}

func procResize(int32) uintptr { return 0 }
