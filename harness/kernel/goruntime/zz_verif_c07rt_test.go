//go:build verif
// +build verif

package goruntime

import (
	"math/big"
	"testing"
	"unsafe"

	"github.com/ProjectSerenity/firefly/kernel"
	"github.com/ProjectSerenity/firefly/kernel/mm"
	"github.com/ProjectSerenity/firefly/kernel/mm/vmm"
)

// TestVerifC07Rt drives the REAL sysReserve / sysMap / sysAlloc of bootstrap.go with op histories (case
// encoding: coq/theories/Goruntime/Boot.v).  earlyReserveRegionFn is the REAL vmm.EarlyReserveRegion (its
// cursor is placed through the add-only shim harness/kernel/mm/vmm/zz_verif_rt_shim.go); the seams mapFn,
// memsetFn and the frame allocator are recording mocks with failure injection.  The linkname declarations
// of bootstrap_go18+.go are replaced by plain stubs (harness/kernel/goruntime/bootstrap_go18_shim.go).
//
// Observation per op (compared with the model):
//   sysReserve: code ret reservedFlag cursor   code 0 = returned, 1 = panic(*kernel.Error), 2 = panic(string), 3 = other panic
//   sysMap / sysAlloc: code ret statAfter cursor nEvents events...     (cursor = vmm's reservation cursor after the call)
//     event = 1 ok frame (AllocFrame) | 2 page frame flags (mapFn) | 3 addr value size (memsetFn)
// The monitor (signatures c07:rt-...) judges the property directly, with its own big-integer bookkeeping.

type verifRtRunaway struct{}

type verifRtEv struct{ kind, a, b, c uint64 }

func verifRtCall(f func()) (code uint64) {
	defer func() {
		if r := recover(); r != nil {
			switch r.(type) {
			case *kernel.Error:
				code = 1
			case string:
				code = 2
			case verifRtRunaway:
				code = 9
			default:
				code = 3
			}
		}
	}()
	f()
	return 0
}

func TestVerifC07Rt(t *testing.T) {
	out := verifOpenOut()
	defer out.Close()
	oldCursor := vmm.VerifEarlyReserveCursor()
	oldZero := vmm.ReservedZeroedFrame
	defer func() {
		vmm.VerifSetEarlyReserveCursor(oldCursor)
		vmm.ReservedZeroedFrame = oldZero
		earlyReserveRegionFn = vmm.EarlyReserveRegion
		mapFn = vmm.Map
		memsetFn = kernel.Memset
		mm.SetFrameAllocator(nil)
	}()
	earlyReserveRegionFn = vmm.EarlyReserveRegion // the real one

	errInjected := &kernel.Error{Module: "verif", Message: "injected"}
	two64 := new(big.Int).Lsh(big.NewInt(1), 64)
	pageSize := big.NewInt(int64(mm.PageSize))
	bigU := func(v uint64) *big.Int { return new(big.Int).SetUint64(v) }
	ceil := func(size uint64) *big.Int { // page-rounded size without wrap-around
		s := bigU(size)
		s.Add(s, big.NewInt(int64(mm.PageSize-1)))
		s.Div(s, pageSize)
		return s.Mul(s, pageSize)
	}
	allocFlags := uint64(vmm.FlagPresent | vmm.FlagNoExecute | vmm.FlagRW)
	nOps := map[string]int{}

	for _, c := range verifReadCases() {
		cur := &verifCur{n: c.nums}
		start := cur.Next()
		if start == 0 {
			start = uint64(vmm.VerifTempMappingAddr())
		}
		zero := cur.Next()
		stat := cur.Next()
		vmm.VerifSetEarlyReserveCursor(uintptr(start))
		vmm.ReservedZeroedFrame = mm.Frame(zero)

		var obs []uint64
		type region struct {
			addr uint64
			need *big.Int
		}
		var regions []region
		lowest := start // the monitor's own cursor: lowest address reserved so far (initially the cursor the case starts from)

		// a reservation seen by the caller (or, for a call that failed later on, seen through the cursor)
		reservationMade := func(kind string, req, addr uint64) {
			need := ceil(req)
			if need.Cmp(bigU(lowest)) > 0 {
				out.Mon(c.id, "c07:rt-does-not-fit-but-succeeds", "%s(%#x) succeeded at %#x although the %s bytes needed do not fit below %#x", kind, req, addr, need, lowest)
				return
			}
			if addr%uint64(mm.PageSize) != 0 {
				out.Mon(c.id, "c07:rt-unaligned", "%s(%#x) returned unaligned %#x", kind, req, addr)
			}
			end := new(big.Int).Add(bigU(addr), need)
			if end.Cmp(bigU(lowest)) > 0 {
				out.Mon(c.id, "c07:rt-overlap", "%s(%#x) returned %#x; it needs %s bytes but earlier regions / the temp-mapping page start at %#x", kind, req, addr, need, lowest)
			}
			for _, r := range regions {
				if r.need.Sign() > 0 && end.Cmp(bigU(r.addr)) > 0 {
					out.Mon(c.id, "c07:rt-overlap", "%s(%#x) at %#x overlaps the region at %#x", kind, req, addr, r.addr)
					break
				}
			}
			regions = append(regions, region{addr, need})
			if addr < lowest {
				lowest = addr
			}
		}
		reservationFailed := func(kind string, req, before uint64) {
			need := ceil(req)
			if need.Cmp(bigU(lowest)) <= 0 {
				out.Mon(c.id, "c07:rt-spurious-failure", "%s(%#x) failed although %s bytes fit below %#x", kind, req, need, lowest)
			}
			if after := uint64(vmm.VerifEarlyReserveCursor()); after != before {
				out.Mon(c.id, "c07:rt-failed-request-reserved", "%s(%#x) failed but the cursor moved %#x -> %#x", kind, req, before, after)
				lowest = after
			}
		}

		for !cur.Done() {
			op := cur.Next()
			switch op {
			case 0: // ---------------------------------------------------------------- sysReserve
				nOps["sysReserve"]++
				size := cur.Next()
				before := uint64(vmm.VerifEarlyReserveCursor())
				var reserved bool
				var ret unsafe.Pointer
				code := verifRtCall(func() { ret = sysReserve(nil, uintptr(size), &reserved) })
				rf := uint64(0)
				if reserved {
					rf = 1
				}
				obs = append(obs, code, uint64(uintptr(ret)), rf, uint64(vmm.VerifEarlyReserveCursor()))
				switch code {
				case 0:
					nOps["sysReserve:returned"]++
					reservationMade("sysReserve", size, uint64(uintptr(ret)))
				case 1:
					nOps["sysReserve:panicked-with-error"]++
					reservationFailed("sysReserve", size, before)
				}

			case 1: // ---------------------------------------------------------------- sysMap
				nOps["sysMap"]++
				addr, size, resv, failcode := cur.Next(), cur.Next(), cur.Next(), cur.Next()
				var evs []verifRtEv
				mapFailed := false
				nMap := uint64(0)
				mapFn = func(p mm.Page, f mm.Frame, fl vmm.PageTableEntryFlag) *kernel.Error {
					evs = append(evs, verifRtEv{2, uint64(p), uint64(f), uint64(fl)})
					nMap++
					if failcode != 0 && nMap == failcode {
						mapFailed = true
						return errInjected
					}
					if nMap > 4096 {
						panic(verifRtRunaway{})
					}
					return nil
				}
				memsetFn = func(a uintptr, v byte, n uintptr) { evs = append(evs, verifRtEv{3, uint64(a), uint64(v), uint64(n)}) }
				mm.SetFrameAllocator(func() (mm.Frame, *kernel.Error) {
					evs = append(evs, verifRtEv{1, 0, uint64(mm.InvalidFrame), 0})
					return mm.InvalidFrame, errInjected
				})
				var ret unsafe.Pointer
				code := verifRtCall(func() { ret = sysMap(unsafe.Pointer(uintptr(addr)), uintptr(size), resv != 0, &stat) })
				obs = append(obs, code, uint64(uintptr(ret)), stat, uint64(vmm.VerifEarlyReserveCursor()), uint64(len(evs)))
				for _, e := range evs {
					obs = append(obs, e.kind, e.a, e.b, e.c)
				}
				if code == 9 {
					out.Mon(c.id, "c07:rt-runaway-loop", "sysMap(%#x, %#x) made more than 4096 seam calls", addr, size)
					break
				}
				if resv == 0 || code != 0 {
					break // agreement only
				}
				// ---- monitor ----
				raddr := new(big.Int).Add(bigU(addr), big.NewInt(int64(mm.PageSize-1)))
				raddr.Div(raddr, pageSize).Mul(raddr, pageSize)
				if raddr.Cmp(two64) >= 0 {
					break // rounding the address up leaves the address space: outside the property, agreement only
				}
				need := ceil(size)
				npages := new(big.Int).Div(need, pageSize)
				basePage := new(big.Int).Div(raddr, pageSize).Uint64()
				r := uint64(uintptr(ret))
				// every request names the zero frame and never asks for a writable mapping (C06)
				cleanCalls := true
				for i, e := range evs {
					if e.kind != 2 {
						out.Mon(c.id, "c07:rt-stray-seam-call", "sysMap(%#x, %#x): seam call %d is of kind %d", addr, size, i, e.kind)
						cleanCalls = false
						break
					}
					if e.c&uint64(vmm.FlagRW) != 0 {
						out.Mon(c.id, "c07:rt-zero-frame-writable", "sysMap(%#x, %#x) asks for page %#x -> frame %#x with flags %#x (FlagRW set)", addr, size, e.a, e.b, e.c)
						cleanCalls = false
						break
					}
					if e.b != zero {
						out.Mon(c.id, "c07:rt-wrong-frame", "sysMap(%#x, %#x) maps page %#x to frame %#x, the zero frame is %#x", addr, size, e.a, e.b, zero)
						cleanCalls = false
						break
					}
					if e.a != basePage+uint64(i) {
						out.Mon(c.id, "c07:rt-not-consecutive", "sysMap(%#x, %#x): call %d maps page %#x, expected %#x (region starts at %s)", addr, size, i, e.a, basePage+uint64(i), raddr)
						cleanCalls = false
						break
					}
				}
				if mapFailed {
					nOps["sysMap:stopped-at-mapFn-failure"]++
					if r != 0 {
						out.Mon(c.id, "c07:rt-failure-not-reported", "sysMap(%#x, %#x) returned %#x although the mapping of page number %d failed", addr, size, r, failcode-1)
					}
					if nMap != failcode {
						out.Mon(c.id, "c07:rt-continued-after-failure", "sysMap(%#x, %#x): mapping call %d failed, %d calls were made", addr, size, failcode, nMap)
					}
					break
				}
				// a region at address 0 is reported with the same value as a failure: then the calls made tell
				succeeded := r != 0 || (raddr.Sign() == 0 && (nMap > 0 || npages.Sign() == 0))
				if !succeeded {
					if need.Cmp(two64) < 0 {
						out.Mon(c.id, "c07:rt-spurious-failure", "sysMap(%#x, %#x) returned 0 although no mapping call failed (%d made, %s needed)", addr, size, nMap, npages)
					}
					break
				}
				if nMap >= 2 {
					nOps["sysMap:mapped-2-or-more-pages"]++
				}
				if bigU(r).Cmp(raddr) != 0 {
					out.Mon(c.id, "c07:rt-region-start", "sysMap(%#x, %#x) returned %#x, the page-rounded address is %s", addr, size, r, raddr)
				}
				if cleanCalls && npages.Cmp(bigU(nMap)) != 0 {
					out.Mon(c.id, "c07:rt-wrong-page-count", "sysMap(%#x, %#x) reported success after mapping %d pages; %s pages are needed to cover the size", addr, size, nMap, npages)
				}

			case 2: // ---------------------------------------------------------------- sysAlloc
				nOps["sysAlloc"]++
				size, failcode := cur.Next(), cur.Next()
				oracle := cur.List()
				var evs []verifRtEv
				var handed []uint64 // frames handed out, in order
				mapFailed, allocFailed := false, false
				nMap, nAlloc := uint64(0), 0
				mapFn = func(p mm.Page, f mm.Frame, fl vmm.PageTableEntryFlag) *kernel.Error {
					evs = append(evs, verifRtEv{2, uint64(p), uint64(f), uint64(fl)})
					nMap++
					if failcode != 0 && nMap == failcode {
						mapFailed = true
						return errInjected
					}
					if nMap > 4096 {
						panic(verifRtRunaway{})
					}
					return nil
				}
				memsetFn = func(a uintptr, v byte, n uintptr) { evs = append(evs, verifRtEv{3, uint64(a), uint64(v), uint64(n)}) }
				mm.SetFrameAllocator(func() (mm.Frame, *kernel.Error) {
					if nAlloc >= len(oracle) || oracle[nAlloc] == 0 {
						nAlloc++
						allocFailed = true
						evs = append(evs, verifRtEv{1, 0, 0, 0})
						return mm.InvalidFrame, errInjected
					}
					f := oracle[nAlloc] - 1
					nAlloc++
					handed = append(handed, f)
					evs = append(evs, verifRtEv{1, 1, f, 0})
					return mm.Frame(f), nil
				})
				before := uint64(vmm.VerifEarlyReserveCursor())
				var ret unsafe.Pointer
				code := verifRtCall(func() { ret = sysAlloc(uintptr(size), &stat) })
				after := uint64(vmm.VerifEarlyReserveCursor())
				obs = append(obs, code, uint64(uintptr(ret)), stat, uint64(vmm.VerifEarlyReserveCursor()), uint64(len(evs)))
				for _, e := range evs {
					obs = append(obs, e.kind, e.a, e.b, e.c)
				}
				if code == 9 {
					out.Mon(c.id, "c07:rt-runaway-loop", "sysAlloc(%#x) made more than 4096 mapping calls", size)
					break
				}
				if code != 0 {
					break // agreement only
				}
				// ---- monitor ----
				r := uint64(uintptr(ret))
				need := ceil(size)
				npages := new(big.Int).Div(need, pageSize)
				fits := need.Cmp(bigU(lowest)) <= 0
				injected := mapFailed || allocFailed
				// the only correct region that starts at address 0 uses up everything below the cursor; it is reported
				// with the same value as a failure, so then the seam calls made tell the two apart
				succeeded := r != 0 || (fits && !injected && need.Cmp(bigU(lowest)) == 0 && (len(evs) > 0 || npages.Sign() == 0))
				// the seam calls come in rounds  AllocFrame -> mapFn(page, that frame, RW|P|NX) -> memsetFn(page address, 0, PageSize)
				base := r >> mm.PageShift
				if !succeeded {
					base = after >> mm.PageShift
				}
				rounds, shapeOK, stoppedAtFailure := 0, true, false
				for i := 0; i < len(evs) && shapeOK; {
					e := evs[i]
					if e.kind != 1 {
						out.Mon(c.id, "c07:rt-stray-seam-call", "sysAlloc(%#x): seam call %d of kind %d where a frame allocation was expected", size, i, e.kind)
						shapeOK = false
						break
					}
					if e.a == 0 { // the allocator failed: nothing may follow
						stoppedAtFailure = i == len(evs)-1
						break
					}
					if i+1 >= len(evs) || evs[i+1].kind != 2 {
						out.Mon(c.id, "c07:rt-frame-not-mapped", "sysAlloc(%#x): frame %#x was allocated but the next seam call is not a mapping", size, e.b)
						shapeOK = false
						break
					}
					m := evs[i+1]
					if m.a != base+uint64(rounds) {
						out.Mon(c.id, "c07:rt-not-consecutive", "sysAlloc(%#x): round %d maps page %#x, expected %#x (region at page %#x)", size, rounds, m.a, base+uint64(rounds), base)
						shapeOK = false
						break
					}
					if rounds >= len(handed) || m.b != handed[rounds] {
						out.Mon(c.id, "c07:rt-wrong-frame", "sysAlloc(%#x): round %d maps page %#x to frame %#x, the allocator handed out %#x", size, rounds, m.a, m.b, e.b)
						shapeOK = false
						break
					}
					if m.c != allocFlags {
						out.Mon(c.id, "c07:rt-alloc-flags", "sysAlloc(%#x): page %#x mapped with flags %#x, expected Present|RW|NoExecute = %#x", size, m.a, m.c, allocFlags)
						shapeOK = false
						break
					}
					if mapFailed && uint64(rounds)+1 == failcode { // this mapping call failed: nothing may follow
						stoppedAtFailure = i+1 == len(evs)-1
						break
					}
					if i+2 >= len(evs) || evs[i+2].kind != 3 {
						out.Mon(c.id, "c07:rt-memset", "sysAlloc(%#x): page %#x mapped but not cleared before the next seam call", size, m.a)
						shapeOK = false
						break
					}
					z := evs[i+2]
					if z.a != m.a<<mm.PageShift || z.b != 0 || z.c != uint64(mm.PageSize) {
						out.Mon(c.id, "c07:rt-memset", "sysAlloc(%#x): after mapping page %#x (address %#x) the memset is (%#x, %d, %#x), expected (%#x, 0, %#x)", size, m.a, m.a<<mm.PageShift, z.a, z.b, z.c, m.a<<mm.PageShift, uint64(mm.PageSize))
						shapeOK = false
						break
					}
					rounds++
					i += 3
				}
				if injected {
					nOps[map[bool]string{true: "sysAlloc:stopped-at-mapFn-failure", false: "sysAlloc:stopped-at-allocator-failure"}[mapFailed]]++
					if rounds >= 1 {
						nOps["sysAlloc:failed-after-1-or-more-pages"]++
					}
					if r != 0 {
						out.Mon(c.id, "c07:rt-failure-not-reported", "sysAlloc(%#x) returned %#x although %s failed", size, r, map[bool]string{true: "a mapping call", false: "the frame allocator"}[mapFailed])
					}
					if shapeOK && !stoppedAtFailure {
						out.Mon(c.id, "c07:rt-continued-after-failure", "sysAlloc(%#x): seam calls were made after the failing one (%d calls in all)", size, len(evs))
					}
					if after != before { // the region stays reserved although the caller never learns its address
						reservationMade("sysAlloc", size, after)
					}
					break
				}
				if !succeeded {
					if len(evs) != 0 {
						out.Mon(c.id, "c07:rt-mapped-on-failure", "sysAlloc(%#x) failed yet made %d seam calls", size, len(evs))
					}
					nOps["sysAlloc:does-not-fit"]++
					reservationFailed("sysAlloc", size, before)
					break
				}
				if rounds >= 2 {
					nOps["sysAlloc:mapped-2-or-more-pages"]++
				}
				reservationMade("sysAlloc", size, r)
				if fits && shapeOK && npages.Cmp(big.NewInt(int64(rounds))) != 0 {
					out.Mon(c.id, "c07:rt-wrong-page-count", "sysAlloc(%#x) reported success after mapping %d pages; %s pages are needed", size, rounds, npages)
				}

			default:
				t.Fatalf("bad op %d in case %d", op, c.id)
			}
		}
		out.Obs(c.id, obs)
	}
	for k, v := range nOps {
		out.Info("calls:"+k, "%d", v)
	}
}
