//go:build verif
// +build verif

package kfmt

// VerifResetEarlyBuffer puts the early print buffer and the output sink back into their boot state
// (zeroed ring, indices 0, no sink). It exists only under the build tag "verif" and is injected with
// `go test -overlay` by the C16 check (never written into the repository): the hal harness must start
// every scenario from the state the kernel boots in, because defects of the ring depend on where in
// the backing array a write ends.
func VerifResetEarlyBuffer() {
	earlyPrintBuffer = ringBuffer{}
	outputSink = nil
}
