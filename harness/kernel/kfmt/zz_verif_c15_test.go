//go:build verif
// +build verif

package kfmt

import (
	"bytes"
	"strconv"
	"testing"
)

// ---------------------------------------------------------------------------------------------
// C15: kernel printf output is exact, bounded, never panics, allocation-free.
//
// Case encoding (see coq/theories/Kfmt/Fmt.v run_case):
//   len(format) format-bytes... nargs arg...
//   arg = kind(0..9 = uint8 uint16 uint32 uint64 uintptr int8 int16 int32 int64 int) value
//       | 10 len bytes (string) | 11 len bytes ([]byte) | 12 b (bool) | 13 (some other type)
// Observation = 0 :: run-length encoding of the bytes received by the io.Writer | 1 (panic) | 3 (runaway)
//
// The monitor is an independent reference renderer written from the property text (strconv
// only, no kfmt code): it parses the format itself, decides whether it is a well-formed format
// (literal text, %%, %[width]{d,x,o,s,t}, widths 0..10^6) and, if so, demands byte equality.
// Panics and heap allocations are reported for every format whatsoever.
// ---------------------------------------------------------------------------------------------

type verifRunawayT struct{}

var verifRunaway = &verifRunawayT{}

// verifSink is a non-allocating recording writer.
type verifSink struct {
	buf   []byte
	n     int
	calls int
}

func (s *verifSink) Write(p []byte) (int, error) {
	if s.n+len(p) > len(s.buf) {
		panic(verifRunaway)
	}
	copy(s.buf[s.n:], p)
	s.n += len(p)
	s.calls++
	return len(p), nil
}

type verifNamedInt int
type verifStruct struct{ a, b int }

type verifPiece struct {
	kind  int // 0 literal, 1 percent, 2 verb
	lit   []byte
	width uint64
	verb  byte
}

// verifParseFormat splits a format into pieces following the property text only. ok=false when the
// format is not of the form the property quantifies over (then only "never panics / never allocates" apply).
func verifParseFormat(f []byte) (pieces []verifPiece, ok bool) {
	i := 0
	for i < len(f) {
		if f[i] != '%' {
			j := i
			for j < len(f) && f[j] != '%' {
				j++
			}
			pieces = append(pieces, verifPiece{kind: 0, lit: f[i:j]})
			i = j
			continue
		}
		// f[i] == '%'
		if i+1 < len(f) && f[i+1] == '%' {
			pieces = append(pieces, verifPiece{kind: 1})
			i += 2
			continue
		}
		j := i + 1
		var width uint64
		for j < len(f) && f[j] >= '0' && f[j] <= '9' {
			width = width*10 + uint64(f[j]-'0')
			if width > 1000000 {
				return nil, false // outside the property's width range
			}
			j++
		}
		if j >= len(f) {
			return nil, false // trailing %
		}
		switch f[j] {
		case 'd', 'x', 'o', 's', 't':
			pieces = append(pieces, verifPiece{kind: 2, width: width, verb: f[j]})
		default:
			return nil, false
		}
		i = j + 1
	}
	return pieces, true
}

// verifMagnitude returns |v| and the sign for the ten built-in integer types.
func verifMagnitude(a interface{}) (mag uint64, neg bool, ok bool) {
	s := func(v int64) (uint64, bool, bool) {
		if v < 0 {
			return uint64(-(v + 1)) + 1, true, true
		}
		return uint64(v), false, true
	}
	switch v := a.(type) {
	case uint8:
		return uint64(v), false, true
	case uint16:
		return uint64(v), false, true
	case uint32:
		return uint64(v), false, true
	case uint64:
		return v, false, true
	case uintptr:
		return uint64(v), false, true
	case int8:
		return s(int64(v))
	case int16:
		return s(int64(v))
	case int32:
		return s(int64(v))
	case int64:
		return s(v)
	case int:
		return s(int64(v))
	}
	return 0, false, false
}

// The property demands "a fixed marker" for each missing, surplus or wrongly-typed argument: the
// marker texts are read once from the package's own tables (data, not code).
var (
	verifMarkMissing   = append([]byte(nil), errMissingArg...)
	verifMarkWrongType = append([]byte(nil), errWrongArgType...)
	verifMarkExtra     = append([]byte(nil), errExtraArg...)
)

func verifRefRender(pieces []verifPiece, args []interface{}) []byte {
	var out []byte
	ai := 0
	for _, p := range pieces {
		switch p.kind {
		case 0:
			out = append(out, p.lit...)
		case 1:
			out = append(out, '%')
		case 2:
			if ai >= len(args) {
				out = append(out, verifMarkMissing...)
				continue
			}
			a := args[ai]
			ai++
			switch p.verb {
			case 'd', 'x', 'o':
				mag, neg, ok := verifMagnitude(a)
				if !ok {
					out = append(out, verifMarkWrongType...)
					continue
				}
				base := map[byte]int{'d': 10, 'x': 16, 'o': 8}[p.verb]
				digits := strconv.FormatUint(mag, base)
				w := int(p.width)
				if w > 31 {
					w = 31
				}
				if p.verb == 'd' {
					// left-padded with spaces; a sign takes the last padding space if there is one
					s := digits
					if neg {
						s = "-" + digits
					}
					if neg && len(digits) >= w {
						// no padding space available: sign is prepended
						out = append(out, s...)
					} else {
						for k := len(s); k < w; k++ {
							out = append(out, ' ')
						}
						out = append(out, s...)
					}
				} else {
					if neg {
						out = append(out, '-')
					}
					for k := len(digits); k < w; k++ {
						out = append(out, '0')
					}
					out = append(out, digits...)
				}
			case 's':
				var s []byte
				switch v := a.(type) {
				case string:
					s = []byte(v)
				case []byte:
					s = v
				default:
					out = append(out, verifMarkWrongType...)
					continue
				}
				if uint64(len(s)) < p.width {
					out = append(out, bytes.Repeat([]byte{' '}, int(p.width)-len(s))...)
				}
				out = append(out, s...)
			case 't':
				if b, ok := a.(bool); ok {
					if b {
						out = append(out, "true"...)
					} else {
						out = append(out, "false"...)
					}
				} else {
					out = append(out, verifMarkWrongType...)
				}
			}
		}
	}
	for ; ai < len(args); ai++ {
		out = append(out, verifMarkExtra...)
	}
	return out
}

func verifRLE(b []byte) []uint64 {
	var out []uint64
	for i := 0; i < len(b); {
		j := i
		for j < len(b) && b[j] == b[i] {
			j++
		}
		out = append(out, uint64(b[i]), uint64(j-i))
		i = j
	}
	return out
}

func verifDecodeArgs(id int, cur *verifCur) []interface{} {
	n := int(cur.Next())
	args := make([]interface{}, 0, n)
	for k := 0; k < n; k++ {
		tag := cur.Next()
		switch tag {
		case 10:
			l := cur.List()
			b := make([]byte, len(l))
			for i, v := range l {
				b[i] = byte(v)
			}
			args = append(args, string(b))
		case 11:
			l := cur.List()
			b := make([]byte, len(l))
			for i, v := range l {
				b[i] = byte(v)
			}
			args = append(args, b)
		case 12:
			args = append(args, cur.Next() != 0)
		case 13:
			switch (id + k) % 6 {
			case 0:
				args = append(args, nil)
			case 1:
				args = append(args, 1.5)
			case 2:
				args = append(args, verifStruct{1, 2})
			case 3:
				args = append(args, verifNamedInt(7))
			case 4:
				args = append(args, &verifStruct{})
			default:
				args = append(args, []string{"x"})
			}
		default:
			v := cur.Next()
			switch tag {
			case 0:
				args = append(args, uint8(v))
			case 1:
				args = append(args, uint16(v))
			case 2:
				args = append(args, uint32(v))
			case 3:
				args = append(args, uint64(v))
			case 4:
				args = append(args, uintptr(v))
			case 5:
				args = append(args, int8(v))
			case 6:
				args = append(args, int16(v))
			case 7:
				args = append(args, int32(v))
			case 8:
				args = append(args, int64(v))
			default:
				args = append(args, int(v))
			}
		}
	}
	return args
}

// verifMinAllocs returns the minimum of up to `attempts` measurements of testing.AllocsPerRun(runs, f).
func verifMinAllocs(runs, attempts int, f func()) float64 {
	best := testing.AllocsPerRun(runs, f)
	for i := 1; i < attempts && best != 0; i++ {
		if a := testing.AllocsPerRun(runs, f); a < best {
			best = a
		}
	}
	return best
}

func TestVerifC15(t *testing.T) {
	out := verifOpenOut()
	defer out.Close()
	defer func() { outputSink = nil }()

	sink := &verifSink{buf: make([]byte, 6<<20)}
	var nAlloc, nWell, nPanic, nRunaway int
	var totalBytes uint64
	for _, c := range verifReadCases() {
		cur := &verifCur{n: c.nums}
		fl := cur.List()
		fb := make([]byte, len(fl))
		for i, v := range fl {
			fb[i] = byte(v)
		}
		format := string(fb)
		args := verifDecodeArgs(c.id, cur)

		// ---- run the real code ----
		status := uint64(0)
		sink.n, sink.calls = 0, 0
		func() {
			defer func() {
				if r := recover(); r != nil {
					if r == interface{}(verifRunaway) {
						status = 3
					} else {
						status = 1
						out.Mon(c.id, "c15:panic", "Fprintf(%q, %d args) panicked: %v", format, len(args), r)
					}
				}
			}()
			Fprintf(sink, format, args...)
		}()
		got := append([]byte(nil), sink.buf[:sink.n]...)
		totalBytes += uint64(len(got))
		switch status {
		case 1:
			nPanic++
			out.Obs(c.id, []uint64{1})
			continue
		case 3:
			nRunaway++
			out.Obs(c.id, []uint64{3})
			continue
		}
		out.Obs(c.id, append([]uint64{0}, verifRLE(got)...))

		// ---- monitor: exact output for well-formed formats ----
		if pieces, ok := verifParseFormat(fb); ok {
			nWell++
			want := verifRefRender(pieces, args)
			if !bytes.Equal(want, got) {
				k := 0
				for k < len(want) && k < len(got) && want[k] == got[k] {
					k++
				}
				lo := k - 20
				if lo < 0 {
					lo = 0
				}
				clip := func(b []byte) []byte {
					hi := k + 40
					if hi > len(b) {
						hi = len(b)
					}
					if lo > hi {
						return nil
					}
					return b[lo:hi]
				}
				out.Mon(c.id, "c15:output-differs", "format %.80q args %d: got %d bytes, want %d; first difference at %d: got ...%q want ...%q",
					format, len(args), len(got), len(want), k, clip(got), clip(want))
			}
		}

		// ---- monitor: Printf (default sink) behaves like Fprintf to that sink ----
		if len(got) < 4096 {
			sink.n = 0
			outputSink = sink
			func() {
				defer func() {
					if r := recover(); r != nil {
						out.Mon(c.id, "c15:panic", "Printf(%q) panicked: %v", format, r)
					}
				}()
				Printf(format, args...)
			}()
			outputSink = nil
			if !bytes.Equal(got, sink.buf[:sink.n]) {
				out.Mon(c.id, "c15:printf-differs-from-fprintf", "format %.80q", format)
			}
		}

		// ---- monitor: no heap allocation ----
		// (testing.AllocsPerRun counts the mallocs of the whole process and returns the integer average
		// over the runs: a formatter that allocates does so on every call, so it yields >= 1 in every
		// attempt, whereas a stray allocation by the runtime or another goroutine does not survive the
		// average over 5 runs and the minimum over up to 4 attempts.)
		allocs := verifMinAllocs(5, 4, func() {
			sink.n = 0
			Fprintf(sink, format, args...)
		})
		if allocs != 0 {
			nAlloc++
			out.Mon(c.id, "c15:heap-allocation", "Fprintf(%.80q, %d args) performed %v heap allocations per call", format, len(args), allocs)
		}
	}
	// ---- monitor: direct call sites (values boxed at the call) must not allocate either: this is what
	// breaks when the arguments start to escape (e.g. without the noEscape hack in doWrite) ----
	{
		x := uint64(nWell) + 100000
		y := int32(-40000 - nWell)
		z := -int64(nWell) - (1 << 40)
		s := string(bytes.Repeat([]byte{'q'}, 3+nWell%3))
		b := []byte(s)
		flag := nWell%2 == 0
		directID := 0
		allocs := verifMinAllocs(20, 4, func() {
			sink.n = 0
			Fprintf(sink, "%d %8x %s %12s %t %o|%d %x", x, y, s, b, flag, x, z)
			// a byte slice that lives on the caller's stack must be allowed to stay there
			var local [24]byte
			for i := range local {
				local[i] = 'a' + byte(i)
			}
			Fprintf(sink, "%30s|%s", local[:], local[3:9])
			outputSink = sink
			Printf("%d %s\n", y, s)
			outputSink = nil
		})
		if allocs != 0 {
			out.Mon(directID, "c15:heap-allocation-at-call-site", "Fprintf/Printf called with freshly boxed integer, string, []byte, bool arguments and a stack-allocated byte slice performed %v heap allocations per call", allocs)
		}
		out.Info("c15-direct-call-allocs", "%v", allocs)
	}
	out.Info("c15", "wellformed=%d panics=%d runaway=%d allocating=%d bytes=%d", nWell, nPanic, nRunaway, nAlloc, totalBytes)
}
