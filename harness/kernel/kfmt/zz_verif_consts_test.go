//go:build verif
// +build verif

package kfmt

import (
	"fmt"
	"os"
	"testing"
)

// TestVerifDumpConsts is the translator's front end for package kfmt: the Go compiler
// evaluates the constants / initial values of the current source tree and lib/vlib.py turns
// them into Gen/Consts_kfmt.v (used by Kfmt/Fmt.v, Kfmt/Ring.v, Kfmt/Prefix.v, Hal/Model.v).
func TestVerifDumpConsts(t *testing.T) {
	f, err := os.Create(os.Getenv("VERIF_OUT"))
	if err != nil {
		t.Fatal(err)
	}
	defer f.Close()
	p := func(name string, v uint64) { fmt.Fprintf(f, "%s N %d\n", name, v) }
	l := func(name string, b []byte) {
		fmt.Fprintf(f, "%s LN", name)
		for _, c := range b {
			fmt.Fprintf(f, " %d", c)
		}
		fmt.Fprintf(f, "\n")
	}
	p("kfmt_maxBufSize", uint64(maxBufSize))
	p("kfmt_numFmtBufLen", uint64(len(numFmtBuf)))
	p("kfmt_numFmtBufCap", uint64(cap(numFmtBuf)))
	l("kfmt_errMissingArg", errMissingArg)
	l("kfmt_errWrongArgType", errWrongArgType)
	l("kfmt_errNoVerb", errNoVerb)
	l("kfmt_errExtraArg", errExtraArg)
	l("kfmt_trueValue", trueValue)
	l("kfmt_falseValue", falseValue)
	p("kfmt_singleByteLen", uint64(len(singleByte)))
	p("kfmt_ringBufferSize", uint64(ringBufferSize))
	p("kfmt_ringBufferLen", uint64(len(earlyPrintBuffer.buffer)))
}
