//go:build verif
// +build verif

package kfmt

import (
	"bytes"
	"io"
	"os"
	"testing"
	"time"
)

// TestVerifC16Ring drives a fresh ringBuffer with histories of Write / Read / drain (io.Copy, as
// SetOutputSink does) operations; see coq/theories/Kfmt/Ring.v (run_case) for the encoding.
// Monitor: an independent FIFO reference (a plain byte queue that keeps the newest `capacity`
// bytes, capacity measured once by overfilling a ring): every Read/drain must return the oldest
// retained bytes in order, exactly once.
func TestVerifC16Ring(t *testing.T) {
	out := verifOpenOut()
	defer out.Close()

	// watchdog: a Read that never reports progress or EOF makes io.Copy spin forever
	curID := 0
	hang := func() {
		out.Mon(curID, "c16:ring-hang", "a ring buffer operation (drain through io.Copy) did not terminate within 8s")
		out.Flush()
		os.Exit(3)
	}
	watchdog := time.AfterFunc(8*time.Second, hang)
	defer func() { watchdog.Stop() }()

	// measured capacity of the early buffer
	capacity := 0
	{
		var rb ringBuffer
		rb.Write(make([]byte, 4*len(rb.buffer)+7))
		var sink bytes.Buffer
		io.Copy(&sink, &rb)
		capacity = sink.Len()
	}
	out.Info("c16ring-capacity", "%d", capacity)
	if capacity != ringBufferSize-1 {
		out.Mon(0, "c16:early-buffer-capacity", "a ring overfilled with %d bytes drains %d bytes; ringBufferSize-1 = %d", 4*ringBufferSize+7, capacity, ringBufferSize-1)
		capacity = ringBufferSize - 1
	}

	for _, c := range verifReadCases() {
		curID = c.id
		watchdog.Stop()
		watchdog = time.AfterFunc(8*time.Second, hang)
		var rb ringBuffer
		var ref []byte // reference queue
		var obs []uint64
		cur := &verifCur{n: c.nums}
		func() {
			defer func() {
				if r := recover(); r != nil {
					out.Mon(c.id, "c16:ring-panic", "ring buffer operation panicked: %v", r)
					obs = []uint64{0xffff}
				}
			}()
			for !cur.Done() {
				switch op := cur.Next(); op {
				case 0:
					l := cur.List()
					p := make([]byte, len(l))
					for i, v := range l {
						p[i] = byte(v)
					}
					n, err := rb.Write(p)
					obs = append(obs, uint64(n))
					if n != len(p) || err != nil {
						out.Mon(c.id, "c16:ring-write-result", "Write of %d bytes returned (%d, %v)", len(p), n, err)
					}
					ref = append(ref, p...)
					if len(ref) > capacity {
						ref = ref[len(ref)-capacity:]
					}
				case 1:
					plen := int(cur.Next())
					p := make([]byte, plen)
					n, err := rb.Read(p)
					eof := uint64(0)
					if err == io.EOF {
						eof = 1
					}
					obs = append(obs, uint64(n), eof)
					for _, b := range p[:n] {
						obs = append(obs, uint64(b))
					}
					// reference: a Read returns a non-empty prefix of the queue (unless the queue or p is empty)
					if n > len(ref) || !bytes.Equal(p[:n], ref[:n]) {
						out.Mon(c.id, "c16:ring-read-not-fifo", "Read returned %d bytes that are not the oldest retained bytes", n)
					} else {
						ref = ref[n:]
					}
					if len(ref) > 0 && plen > 0 && n == 0 {
						out.Mon(c.id, "c16:ring-read-stalls", "Read returned 0 bytes (err=%v) although %d bytes are buffered", err, len(ref))
					}
					if (err == io.EOF) != (n == 0 && len(ref) == 0) && plen > 0 {
						out.Mon(c.id, "c16:ring-eof", "Read returned n=%d err=%v with %d bytes still buffered", n, err, len(ref))
					}
				default:
					var sink bytes.Buffer
					io.Copy(&sink, &rb)
					obs = append(obs, uint64(sink.Len()))
					for _, b := range sink.Bytes() {
						obs = append(obs, uint64(b))
					}
					if !bytes.Equal(sink.Bytes(), ref) {
						out.Mon(c.id, "c16:ring-drain-not-fifo", "drain returned %d bytes, expected the %d newest bytes written, in order, exactly once", sink.Len(), len(ref))
					}
					ref = ref[:0]
				}
			}
		}()
		out.Obs(c.id, obs)
	}
}
