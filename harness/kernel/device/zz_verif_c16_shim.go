//go:build verif
// +build verif

package device

// VerifSetDrivers replaces the list of registered drivers. It exists only under the build tag
// "verif" and is injected with `go test -overlay` by the C16 check (never written into the
// repository): the hal package has no seam for resetting device.registeredDrivers.
func VerifSetDrivers(l DriverInfoList) { registeredDrivers = l }
