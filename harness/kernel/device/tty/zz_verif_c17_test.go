//go:build verif
// +build verif

package tty

import (
	"fmt"
	"image/color"
	"testing"

	"github.com/ProjectSerenity/firefly/kernel/device/video/console"
)

// ---- mock console: records every call the terminal makes ----------------------------------

type verifCall struct {
	kind                int // 0 Write, 1 Fill, 2 Scroll
	a, b, c, d, e, f uint64
}

func (c verifCall) enc() []uint64 {
	switch c.kind {
	case 0:
		return []uint64{0, c.a, c.b, c.c, c.d, c.e}
	case 1:
		return []uint64{1, c.a, c.b, c.c, c.d, c.e, c.f}
	default:
		return []uint64{2, c.a, c.b}
	}
}

func (c verifCall) String() string {
	switch c.kind {
	case 0:
		return fmt.Sprintf("Write(%#x,fg=%d,bg=%d,x=%d,y=%d)", c.a, c.b, c.c, c.d, c.e)
	case 1:
		return fmt.Sprintf("Fill(x=%d,y=%d,w=%d,h=%d,fg=%d,bg=%d)", c.a, c.b, c.c, c.d, c.e, c.f)
	default:
		return fmt.Sprintf("Scroll(dir=%d,lines=%d)", c.a, c.b)
	}
}

type verifCons struct {
	w, h   uint32
	fg, bg uint8
	calls  []verifCall
}

func (c *verifCons) Dimensions(console.Dimension) (uint32, uint32) { return c.w, c.h }
func (c *verifCons) DefaultColors() (uint8, uint8)                  { return c.fg, c.bg }
func (c *verifCons) Fill(x, y, width, height uint32, fg, bg uint8) {
	c.calls = append(c.calls, verifCall{1, uint64(x), uint64(y), uint64(width), uint64(height), uint64(fg), uint64(bg)})
}
func (c *verifCons) Scroll(dir console.ScrollDir, lines uint32) {
	c.calls = append(c.calls, verifCall{2, uint64(dir), uint64(lines), 0, 0, 0, 0})
}
func (c *verifCons) Write(ch byte, fg, bg uint8, x, y uint32) {
	c.calls = append(c.calls, verifCall{0, uint64(ch), uint64(fg), uint64(bg), uint64(x), uint64(y), 0})
}
func (c *verifCons) Palette() color.Palette              { return nil }
func (c *verifCons) SetPaletteColor(uint8, color.RGBA) {}

// ---- checksum shared with the model (Tty/Vt.v cksum) -----------------------------------------

const verifCkMod = 4294967291

type verifCk struct{ a, b uint64 }

func (k *verifCk) add(x uint64) {
	k.a = (k.a + x%verifCkMod + 1) % verifCkMod
	k.b = (k.b + k.a) % verifCkMod
}

// ---- the reference terminal, written from the text of property C17 --------------------------

type verifCell struct{ ch, fg, bg uint8 }

type verifRef struct {
	w, h, sb, tab int
	fg, bg        uint8
	lines         [][]verifCell // h+sb lines of w cells
	view          int           // index of the first viewport line
	x, y          int           // cursor, 1-based, relative to the viewport
}

func newVerifRef(w, h, sb, tab int, fg, bg uint8) *verifRef {
	r := &verifRef{w: w, h: h, sb: sb, tab: tab, fg: fg, bg: bg, x: 1, y: 1}
	for i := 0; i < h+sb; i++ {
		r.lines = append(r.lines, r.blankLine())
	}
	return r
}

func (r *verifRef) blankLine() []verifCell {
	l := make([]verifCell, r.w)
	for i := range l {
		l[i] = verifCell{' ', r.fg, r.bg}
	}
	return l
}

// line feed: to the start of the next line; on the last viewport line the viewport first moves
// down through the scrollback and, once that is used up, the viewport's lines scroll up by one
// and the last line is blanked.
func (r *verifRef) lineFeed() {
	r.x = 1
	switch {
	case r.y < r.h:
		r.y++
	case r.view+r.h < r.h+r.sb:
		r.view++
	default:
		copy(r.lines[r.view:], r.lines[r.view+1:r.view+r.h])
		r.lines[r.view+r.h-1] = r.blankLine()
	}
}

func (r *verifRef) put(ch uint8) {
	r.lines[r.view+r.y-1][r.x-1] = verifCell{ch, r.fg, r.bg}
	if r.x < r.w {
		r.x++
	} else {
		r.lineFeed() // wrap after the last column
	}
}

func (r *verifRef) writeByte(b uint8) {
	switch b {
	case '\r':
		r.x = 1
	case '\n':
		r.lineFeed()
	case '\b':
		if r.x > 1 {
			r.x--
			r.lines[r.view+r.y-1][r.x-1] = verifCell{' ', r.fg, r.bg}
		}
	case '\t':
		for i := 0; i < r.tab; i++ {
			r.put(' ')
		}
	default:
		r.put(b)
	}
}

func (r *verifRef) setCursor(x, y uint64) {
	clamp := func(v uint64, hi int) int {
		if v < 1 {
			return 1
		}
		if v > uint64(hi) {
			return hi
		}
		return int(v)
	}
	r.x, r.y = clamp(x, r.w), clamp(y, r.h)
}

// compare the real terminal with the reference; returns "" or a description of the first difference
func (r *verifRef) diff(t *VT) (string, string) {
	cx, cy := t.CursorPosition()
	if int(cx) != r.x || int(cy) != r.y {
		return "c17:cursor", fmt.Sprintf("cursor (%d,%d), reference terminal (%d,%d)", cx, cy, r.x, r.y)
	}
	if int(t.viewportY) != r.view {
		return "c17:viewport", fmt.Sprintf("viewport starts at line %d, reference terminal %d", t.viewportY, r.view)
	}
	if len(t.data) != r.w*(r.h+r.sb)*3 {
		return "c17:buffer-size", fmt.Sprintf("buffer has %d bytes, want %d", len(t.data), r.w*(r.h+r.sb)*3)
	}
	for i, line := range r.lines {
		for j, c := range line {
			o := (i*r.w + j) * 3
			if t.data[o] != c.ch || t.data[o+1] != c.fg || t.data[o+2] != c.bg {
				return "c17:contents", fmt.Sprintf("line %d column %d holds (%#x,%d,%d), reference terminal (%#x,%d,%d) [viewport starts at line %d]",
					i, j+1, t.data[o], t.data[o+1], t.data[o+2], c.ch, c.fg, c.bg, r.view)
			}
		}
	}
	return "", ""
}

// TestVerifC17 drives a real VT attached to a recording mock console with op histories (see
// coq/theories/Tty/Vt.v for the case encoding).
func TestVerifC17(t *testing.T) {
	out := verifOpenOut()
	defer out.Close()

	for _, c := range verifReadCases() {
		cur := &verifCur{n: c.nums}
		tab, sb := cur.Next(), cur.Next()
		term := NewVT(uint8(tab), uint32(sb))
		var cons *verifCons
		var ref *verifRef // nil while the case is outside the property's quantifier
		var obs []uint64
		var base *uint8
		opIndex := 0
		outOfDomain := tab > 255 || sb > 0xffffffff
		monDone := false
		mon := func(sig, format string, args ...interface{}) {
			if !monDone { // first failure of a case only
				out.Mon(c.id, sig, "op %d: %s", opIndex, fmt.Sprintf(format, args...))
				monDone = true
			}
		}

		for !cur.Done() {
			op := cur.Next()
			var res []uint64
			var desc string
			panicked := interface{}(nil)
			if cons != nil {
				cons.calls = cons.calls[:0]
			}
			func() {
				defer func() {
					if r := recover(); r != nil {
						panicked = r
					}
				}()
				switch op {
				case 0:
					w, h, fg, bg := cur.Next(), cur.Next(), cur.Next(), cur.Next()
					desc = fmt.Sprintf("AttachTo(%dx%d)", w, h)
					first := cons == nil && opIndex == 0
					cons = &verifCons{w: uint32(w), h: uint32(h), fg: uint8(fg), bg: uint8(bg)}
					inDomain := first && !outOfDomain && w >= 1 && h >= 1 && w <= 1<<31 && h <= 1<<30 && sb <= 1<<30 && w*(h+sb)*3 < 1<<32
					if inDomain {
						ref = newVerifRef(int(w), int(h), int(sb), int(tab), uint8(fg), uint8(bg))
					} else {
						ref = nil
					}
					term.AttachTo(cons)
					if len(term.data) > 0 {
						base = &term.data[0]
					}
				case 1:
					bs := cur.List()
					buf := make([]byte, len(bs))
					for i, b := range bs {
						buf[i] = byte(b)
					}
					desc = fmt.Sprintf("Write(%q)", buf)
					n, err := term.Write(buf)
					e := uint64(0)
					if err != nil {
						e = 1
					}
					res = []uint64{uint64(n), e}
					if ref != nil {
						for _, b := range buf {
							ref.writeByte(b)
						}
						if n != len(buf) || err != nil {
							mon("c17:write-result", "%s returned (%d, %v)", desc, n, err)
						}
					}
				case 2:
					b := cur.Next()
					desc = fmt.Sprintf("WriteByte(%#x)", b)
					err := term.WriteByte(byte(b))
					e := uint64(0)
					if err != nil {
						e = 1
					}
					res = []uint64{e}
					if ref != nil {
						ref.writeByte(byte(b))
						if err != nil {
							mon("c17:write-result", "%s returned %v", desc, err)
						}
					}
				case 3:
					x, y := cur.Next(), cur.Next()
					desc = fmt.Sprintf("SetCursorPosition(%d,%d)", x, y)
					term.SetCursorPosition(uint32(x), uint32(y))
					if ref != nil {
						ref.setCursor(x, y)
					}
				case 4:
					s := cur.Next()
					desc = fmt.Sprintf("SetState(%d)", s)
					term.SetState(State(s))
				default:
					t.Fatalf("bad op %d in case %d", op, c.id)
				}
			}()
			if panicked != nil {
				obs = append(obs, 0xdead)
				if ref != nil {
					mon("c17:panic", "%s panicked: %v", desc, panicked)
				}
				break
			}
			// ---- observation (same numbers as Tty/Vt.v observe) ----
			obs = append(obs, res...)
			var dk, ck verifCk
			for _, b := range term.data {
				dk.add(uint64(b))
			}
			ncalls := 0
			if cons != nil {
				ncalls = len(cons.calls)
				for _, cl := range cons.calls {
					for _, v := range cl.enc() {
						ck.add(v)
					}
				}
			}
			obs = append(obs, uint64(term.cursorX), uint64(term.cursorY), uint64(term.viewportY), uint64(term.dataOffset),
				uint64(term.state), uint64(len(term.data)), dk.a, dk.b, uint64(ncalls), ck.a, ck.b)

			// ---- monitor: the property, checked directly against the reference terminal ----
			if ref != nil {
				if sig, msg := ref.diff(term); sig != "" {
					mon(sig, "after %s: %s", desc, msg)
				}
				cx, cy := term.CursorPosition()
				if cx < 1 || cx > uint32(ref.w) || cy < 1 || cy > uint32(ref.h) || int(term.viewportY)+ref.h > ref.h+ref.sb {
					mon("c17:cursor-outside-viewport", "after %s: cursor (%d,%d), viewport line %d, console %dx%d, scrollback %d", desc, cx, cy, term.viewportY, ref.w, ref.h, ref.sb)
				}
				if len(term.data) > 0 && (base != &term.data[0] || cap(term.data) != len(term.data)) {
					mon("c17:buffer-replaced", "after %s: the terminal buffer was reallocated or resliced", desc)
				}
				if uint64(term.dataOffset)+2 >= uint64(len(term.data)) {
					mon("c17:offset-outside-buffer", "after %s: next store would be at offset %d of %d", desc, term.dataOffset, len(term.data))
				}
			}
			opIndex++
		}
		out.Obs(c.id, obs)
	}
}
