//go:build verif
// +build verif

package tty

import (
	"fmt"
	"image/color"
	"io/ioutil"
	"math/rand"
	"testing"
	"unsafe"

	"github.com/ProjectSerenity/firefly/kernel/device/video/console"
	"github.com/ProjectSerenity/firefly/kernel/device/video/console/font"
	"github.com/ProjectSerenity/firefly/kernel/device/video/console/logo"
	"github.com/ProjectSerenity/firefly/kernel/multiboot"
)

// ---- cell-level reference console (the semantics of coq/theories/Console/Grid.v) ---------------

type verifGrid struct {
	w, h  int
	cells []verifCell // row-major, (y-1)*w + (x-1)
}

func newVerifGrid(w, h int, init verifCell) *verifGrid {
	g := &verifGrid{w: w, h: h, cells: make([]verifCell, w*h)}
	for i := range g.cells {
		g.cells[i] = init
	}
	return g
}

func (g *verifGrid) write(c verifCell, x, y uint64) {
	if x >= 1 && x <= uint64(g.w) && y >= 1 && y <= uint64(g.h) {
		g.cells[(int(y)-1)*g.w+int(x)-1] = c
	}
}

func verifClamp1(v uint64, m int) uint64 {
	if v == 0 {
		return 1
	}
	if v >= uint64(m) {
		return uint64(m)
	}
	return v
}

func (g *verifGrid) fill(x, y, width, height uint64, c verifCell) {
	x0, y0 := verifClamp1(x, g.w), verifClamp1(y, g.h)
	for cy := y0; cy <= uint64(g.h) && cy-y0 < height; cy++ {
		for cx := x0; cx <= uint64(g.w) && cx-x0 < width; cx++ {
			g.cells[(int(cy)-1)*g.w+int(cx)-1] = c
		}
	}
}

// scroll keeps the old content in the vacated lines (as the shipped drivers do)
func (g *verifGrid) scroll(dir, n uint64) {
	if n < 1 || n > uint64(g.h) {
		return
	}
	k := int(n)
	switch dir {
	case uint64(console.ScrollDirUp):
		copy(g.cells, g.cells[k*g.w:])
	case uint64(console.ScrollDirDown):
		copy(g.cells[k*g.w:], g.cells[:(g.h-k)*g.w])
	}
}

func (g *verifGrid) sum() (uint64, uint64) {
	var k verifCk
	for _, c := range g.cells {
		k.add(uint64(c.ch))
		k.add(uint64(c.fg))
		k.add(uint64(c.bg))
	}
	return k.a, k.b
}

// ---- tee: records the calls, mirrors them into the reference grid, forwards to the real console --

type verifTee struct {
	real    console.Device // nil: the reference grid is the only console
	w, h    uint32
	fg, bg  uint8
	grid    *verifGrid
	calls   []verifCall
	outside string // first call whose area does not lie inside the grid
}

func (c *verifTee) Dimensions(d console.Dimension) (uint32, uint32) {
	if c.real != nil {
		return c.real.Dimensions(d)
	}
	return c.w, c.h
}

func (c *verifTee) DefaultColors() (uint8, uint8) {
	if c.real != nil {
		return c.real.DefaultColors()
	}
	return c.fg, c.bg
}

func (c *verifTee) note(cl verifCall, inside bool) {
	c.calls = append(c.calls, cl)
	if !inside && c.outside == "" {
		c.outside = cl.String()
	}
}

func (c *verifTee) Fill(x, y, width, height uint32, fg, bg uint8) {
	inside := x >= 1 && y >= 1 && width >= 1 && height >= 1 &&
		uint64(x)+uint64(width)-1 <= uint64(c.w) && uint64(y)+uint64(height)-1 <= uint64(c.h)
	c.note(verifCall{1, uint64(x), uint64(y), uint64(width), uint64(height), uint64(fg), uint64(bg)}, inside)
	c.grid.fill(uint64(x), uint64(y), uint64(width), uint64(height), verifCell{' ', fg, bg})
	if c.real != nil {
		c.real.Fill(x, y, width, height, fg, bg)
	}
}

func (c *verifTee) Scroll(dir console.ScrollDir, lines uint32) {
	c.note(verifCall{2, uint64(dir), uint64(lines), 0, 0, 0, 0}, dir == console.ScrollDirUp && lines >= 1 && lines <= c.h)
	c.grid.scroll(uint64(dir), uint64(lines))
	if c.real != nil {
		c.real.Scroll(dir, lines)
	}
}

func (c *verifTee) Write(ch byte, fg, bg uint8, x, y uint32) {
	c.note(verifCall{0, uint64(ch), uint64(fg), uint64(bg), uint64(x), uint64(y), 0}, x >= 1 && x <= c.w && y >= 1 && y <= c.h)
	c.grid.write(verifCell{ch, fg, bg}, uint64(x), uint64(y))
	if c.real != nil {
		c.real.Write(ch, fg, bg, x, y)
	}
}

func (c *verifTee) Palette() color.Palette {
	if c.real != nil {
		return c.real.Palette()
	}
	return nil
}
func (c *verifTee) SetPaletteColor(i uint8, rgba color.RGBA) {
	if c.real != nil {
		c.real.SetPaletteColor(i, rgba)
	}
}

// ---- a real console over host memory ------------------------------------------------------------

const verifGuard = 256 // guard bytes checked on each side of the framebuffer

type verifScreen struct {
	kind            int // 1 text mode, 2 framebuffer
	backing         []byte
	fbOff, fbLen    int
	w, h            int // cells
	// framebuffer only
	bytespp         int
	depth           int
	pitch           int
	pxW, pxH        int
	offsetY         int
	fnt             *font.Font
	ci              *multiboot.FramebufferRGBColorInfo
	pal             color.Palette
	base            []byte // content right after the console was set up (before AttachTo)
}

func (s *verifScreen) fb() []byte { return s.backing[s.fbOff : s.fbOff+s.fbLen] }

// region of a framebuffer byte: 0 = pixel of a cell, otherwise the name of the area outside the grid
func (s *verifScreen) region(i int) string {
	if s.kind == 1 {
		return ""
	}
	row, col := i/s.pitch, i%s.pitch
	switch {
	case col >= s.pxW*s.bytespp:
		return "padding"
	case row < s.offsetY:
		return "logo"
	case col >= s.w*int(s.fnt.GlyphWidth)*s.bytespp:
		// pixels right of the last column, in every row below the logo. A scroll moves whole pixel
		// rows, so these pixels move vertically with the text; the harness initialises them with a
		// pattern that is the same in every row, which such a move leaves unchanged.
		return "right-margin"
	case row >= s.offsetY+s.h*int(s.fnt.GlyphHeight):
		return "bottom-margin"
	}
	return ""
}

// pixel bytes the property expects for one pixel of colour index idx (reference painter)
func (s *verifScreen) pixel(idx uint8) []byte {
	if s.depth == 8 {
		return []byte{idx}
	}
	c := s.pal[idx].(color.RGBA)
	comp := func(v, size, pos uint8) uint64 { return (uint64(v) >> (8 - uint(size))) << uint(pos) }
	packed := comp(c.R, s.ci.RedMaskSize, s.ci.RedPosition) | comp(c.G, s.ci.GreenMaskSize, s.ci.GreenPosition) | comp(c.B, s.ci.BlueMaskSize, s.ci.BluePosition)
	if s.depth <= 16 {
		packed &= 0xffff
		return []byte{byte(packed), byte(packed >> 8)}
	}
	packed &= 0xffffffff
	return []byte{byte(packed), byte(packed >> 8), byte(packed >> 16)}
}

// cellDiff compares what the console shows in cell (x,y) with the glyph of c.ch in colours c.fg/c.bg
func (s *verifScreen) cellDiff(x, y int, c verifCell) string {
	fb := s.fb()
	if s.kind == 1 {
		v := uint16(fb[((y-1)*s.w+x-1)*2]) | uint16(fb[((y-1)*s.w+x-1)*2+1])<<8
		ch, fg, bg := uint8(v), uint8(v>>8)&0xf, uint8(v>>12)
		if ch != c.ch || fg != c.fg || bg != c.bg {
			return fmt.Sprintf("text cell holds (%#x,fg %d,bg %d)", ch, fg, bg)
		}
		return ""
	}
	gw, gh, bpr := int(s.fnt.GlyphWidth), int(s.fnt.GlyphHeight), int(s.fnt.BytesPerRow)
	fgPix, bgPix := s.pixel(c.fg), s.pixel(c.bg)
	for gy := 0; gy < gh; gy++ {
		for gx := 0; gx < gw; gx++ {
			bit := s.fnt.Data[int(c.ch)*bpr*gh+gy*bpr+gx/8]&(0x80>>uint(gx%8)) != 0
			want := bgPix
			if bit {
				want = fgPix
			}
			o := (s.offsetY+(y-1)*gh+gy)*s.pitch + ((x-1)*gw+gx)*s.bytespp
			for k, b := range want {
				if fb[o+k] != b {
					return fmt.Sprintf("pixel (%d,%d) of the cell: byte %d is %#x, glyph %#x in colours (%d,%d) needs %#x", gx, gy, k, fb[o+k], c.ch, c.fg, c.bg, b)
				}
			}
		}
	}
	return ""
}

// outsideDiff: first byte outside the cell grid (guards, padding, logo, margins) that differs from base
func (s *verifScreen) outsideDiff() string {
	for i := s.fbOff - verifGuard; i < s.fbOff; i++ {
		if s.backing[i] != s.base[i] {
			return fmt.Sprintf("guard-before: byte %d before the framebuffer changed", s.fbOff-i)
		}
	}
	for i := s.fbOff + s.fbLen; i < s.fbOff+s.fbLen+verifGuard; i++ {
		if s.backing[i] != s.base[i] {
			return fmt.Sprintf("guard-after: byte %d after the framebuffer changed", i-s.fbOff-s.fbLen)
		}
	}
	if s.kind == 2 {
		fb, base := s.fb(), s.base[s.fbOff:s.fbOff+s.fbLen]
		for i := range fb {
			if fb[i] != base[i] {
				if r := s.region(i); r != "" {
					return fmt.Sprintf("%s: framebuffer byte %d (row %d, byte column %d) changed from %#x to %#x", r, i, i/s.pitch, i%s.pitch, base[i], fb[i])
				}
			}
		}
	}
	return ""
}

var verifFbAddr uintptr

func verifFonts() []*font.Font {
	return []*font.Font{font.FindByName("terminus8x16"), font.FindByName("terminus10x18"), font.FindByName("terminus14x28")}
}

// the three shipped logos (heights 64, 96, 128) as hal would select them
func verifLogo(i int) *logo.Image {
	if i < 1 || i > 3 {
		return nil
	}
	return logo.BestFit(0, uint32([]int{0, 640, 960, 1280}[i]))
}

// newVerifScreen builds a console over host memory the way hal does: DriverInit, SetLogo, SetFont.
func newVerifScreen(kind, w, h, depth, pad, fontIdx, logoIdx, layout, mx, my int, rng *rand.Rand) (*verifScreen, console.Device, string) {
	s := &verifScreen{kind: kind, w: w, h: h}
	var cons console.Device
	alloc := func(n int) {
		s.fbLen = n
		s.backing = make([]byte, n+3*4096)
		rng.Read(s.backing)
		addr := uintptr(unsafe.Pointer(&s.backing[0]))
		s.fbOff = int((4096-addr%4096)%4096) + 4096
		verifFbAddr = addr + uintptr(s.fbOff)
	}
	if kind == 1 {
		alloc(w * h * 2)
		fb := s.fb()
		for i := 0; i < len(fb); i += 2 {
			fb[i], fb[i+1] = 0x58, 0x4e // 'X', fg 14, bg 4
		}
		c := console.NewVgaTextConsole(uint32(w), uint32(h), 0xb8000)
		if err := c.DriverInit(ioutil.Discard); err != nil {
			return nil, nil, err.Message
		}
		cons = c
	} else {
		s.fnt = verifFonts()[fontIdx%3]
		lg := verifLogo(logoIdx)
		s.depth = depth
		s.bytespp = (depth + 1) >> 3
		gw, gh := int(s.fnt.GlyphWidth), int(s.fnt.GlyphHeight)
		s.pxW = w*gw + mx%gw
		s.pxH = h*gh + my%gh
		if lg != nil {
			s.offsetY = int(lg.Height)
			s.pxH += s.offsetY
			if s.pxW < int(lg.Width) {
				return nil, nil, "generator: console narrower than the logo"
			}
		}
		s.pitch = s.pxW*s.bytespp + pad
		switch {
		case depth == 8:
			s.ci = nil
		case depth == 15:
			s.ci = &multiboot.FramebufferRGBColorInfo{RedPosition: 10, RedMaskSize: 5, GreenPosition: 5, GreenMaskSize: 5, BluePosition: 0, BlueMaskSize: 5}
		case depth == 16:
			s.ci = &multiboot.FramebufferRGBColorInfo{RedPosition: 11, RedMaskSize: 5, GreenPosition: 5, GreenMaskSize: 6, BluePosition: 0, BlueMaskSize: 5}
		default:
			s.ci = &multiboot.FramebufferRGBColorInfo{RedPosition: 16, RedMaskSize: 8, GreenPosition: 8, GreenMaskSize: 8, BluePosition: 0, BlueMaskSize: 8}
		}
		if layout == 1 && s.ci != nil { // BGR
			s.ci.RedPosition, s.ci.BluePosition = s.ci.BluePosition, s.ci.RedPosition
		}
		alloc(s.pxH * s.pitch)
		fb := s.fb()
		margin := make([]byte, s.pitch)
		rng.Read(margin)
		for i := range fb {
			switch s.region(i) {
			case "":
				fb[i] = 0
			case "right-margin":
				fb[i] = margin[i%s.pitch] // the same in every row
			}
		}
		c := console.NewVesaFbConsole(uint32(s.pxW), uint32(s.pxH), uint8(depth), uint32(s.pitch), s.ci, 0xa0000)
		if err := c.DriverInit(ioutil.Discard); err != nil {
			return nil, nil, err.Message
		}
		if lg != nil {
			c.SetLogo(lg)
		}
		c.SetFont(s.fnt)
		s.pal = c.Palette()
		cons = c
	}
	s.base = append([]byte(nil), s.backing...)
	return s, cons, ""
}

// TestVerifC18 drives a real VT attached (through the recording tee) to a cell-level reference
// console, a real VgaTextConsole or a real VesaFbConsole over host memory. Case encoding: see
// coq/theories/Tty/VtCons.v.
func TestVerifC18(t *testing.T) {
	out := verifOpenOut()
	defer out.Close()
	restore := console.VerifC18Seams(func() uintptr { return verifFbAddr })
	defer restore()

	for _, c := range verifReadCases() {
		cur := &verifCur{n: c.nums}
		kind, depth, pad, fontIdx, logoIdx, layout, mx, my := int(cur.Next()), int(cur.Next()), int(cur.Next()), int(cur.Next()), int(cur.Next()), int(cur.Next()), int(cur.Next()), int(cur.Next())
		tab, sb := cur.Next(), cur.Next()
		w, h, fg, bg := int(cur.Next()), int(cur.Next()), uint8(cur.Next()), uint8(cur.Next())
		marker := verifCell{uint8(cur.Next()), uint8(cur.Next()), uint8(cur.Next())}
		rng := rand.New(rand.NewSource(int64(c.id)*7919 + 17))

		tee := &verifTee{w: uint32(w), h: uint32(h), fg: fg, bg: bg, grid: newVerifGrid(w, h, marker)}
		var scr *verifScreen
		if kind != 0 {
			var real console.Device
			var msg string
			scr, real, msg = newVerifScreen(kind, w, h, depth, pad, fontIdx, logoIdx, layout, mx, my, rng)
			if msg != "" {
				t.Fatalf("case %d: cannot set up the console: %s", c.id, msg)
			}
			tee.real = real
			cw, chh := real.Dimensions(console.Characters)
			dfg, dbg := real.DefaultColors()
			if int(cw) != w || int(chh) != h || dfg != fg || dbg != bg {
				t.Fatalf("case %d: console reports %dx%d colours (%d,%d), the case says %dx%d (%d,%d)", c.id, cw, chh, dfg, dbg, w, h, fg, bg)
			}
		}
		term := NewVT(uint8(tab), uint32(sb))
		term.AttachTo(tee)

		var obs []uint64
		opIndex := 0
		monDone := false
		mon := func(sig, format string, args ...interface{}) {
			if !monDone {
				out.Mon(c.id, sig, "op %d: %s", opIndex, fmt.Sprintf(format, args...))
				monDone = true
			}
		}
		kindName := []string{"cell", "vga", "vesa"}[kind]

		for !cur.Done() {
			op := cur.Next()
			var res []uint64
			var desc string
			wasActive := term.State() == StateActive
			activates := false
			var before []byte
			if scr != nil && !wasActive {
				before = append([]byte(nil), scr.backing...)
			}
			tee.calls = tee.calls[:0]
			panicked := interface{}(nil)
			func() {
				defer func() {
					if r := recover(); r != nil {
						panicked = r
					}
				}()
				switch op {
				case 1:
					bs := cur.List()
					buf := make([]byte, len(bs))
					for i, b := range bs {
						buf[i] = byte(b)
					}
					desc = fmt.Sprintf("Write(%q)", buf)
					n, err := term.Write(buf)
					e := uint64(0)
					if err != nil {
						e = 1
					}
					res = []uint64{uint64(n), e}
				case 2:
					b := cur.Next()
					desc = fmt.Sprintf("WriteByte(%#x)", b)
					e := uint64(0)
					if term.WriteByte(byte(b)) != nil {
						e = 1
					}
					res = []uint64{e}
				case 3:
					x, y := cur.Next(), cur.Next()
					desc = fmt.Sprintf("SetCursorPosition(%d,%d)", x, y)
					term.SetCursorPosition(uint32(x), uint32(y))
				case 4:
					s := cur.Next()
					desc = fmt.Sprintf("SetState(%d)", s)
					activates = State(s) == StateActive
					term.SetState(State(s))
				default:
					t.Fatalf("bad op %d in case %d", op, c.id)
				}
			}()
			if panicked != nil {
				obs = append(obs, 0xdead)
				mon("c18:panic", "%s panicked: %v", desc, panicked)
				break
			}
			ga, gb := tee.grid.sum()
			obs = append(obs, res...)
			obs = append(obs, uint64(term.cursorX), uint64(term.cursorY), uint64(term.viewportY), uint64(term.state), uint64(len(tee.calls)), ga, gb)

			// ---- monitor: property C18 checked directly on what the console shows ----
			// (a) an inactive terminal that is not being activated does not touch the console
			if !wasActive && !activates {
				if len(tee.calls) != 0 {
					mon("c18:inactive-call", "%s on an inactive terminal called the console: %v", desc, tee.calls[0])
				}
				if scr != nil {
					for i := range before {
						if before[i] != scr.backing[i] {
							mon("c18:inactive-touched-"+kindName, "%s on an inactive terminal changed console memory", desc)
							break
						}
					}
				}
			}
			// (b) nothing outside the grid
			if tee.outside != "" {
				mon("c18:call-outside-grid", "%s made the console call %s on a %dx%d grid", desc, tee.outside, w, h)
			}
			if scr != nil {
				if d := scr.outsideDiff(); d != "" {
					mon("c18:outside-grid-"+kindName, "after %s: %s", desc, d)
				}
			}
			// (c) an active terminal and its console show the same thing, in every cell
			//     (this is also the redraw check right after an activation)
			if term.State() == StateActive {
			cells:
				for y := 1; y <= h; y++ {
					for x := 1; x <= w; x++ {
						o := ((int(term.viewportY)+y-1)*w + x - 1) * 3
						want := verifCell{term.data[o], term.data[o+1], term.data[o+2]}
						got := tee.grid.cells[(y-1)*w+x-1]
						if got != want {
							mon("c18:mismatch-cell", "after %s: cell (%d,%d) of the console holds (%#x,%d,%d), the terminal's viewport (%#x,%d,%d)", desc, x, y, got.ch, got.fg, got.bg, want.ch, want.fg, want.bg)
							break cells
						}
						if scr != nil {
							if d := scr.cellDiff(x, y, want); d != "" {
								mon("c18:mismatch-"+kindName, "after %s: cell (%d,%d): %s; the terminal's viewport has (%#x,%d,%d)", desc, x, y, d, want.ch, want.fg, want.bg)
								break cells
							}
						}
					}
				}
			}
			opIndex++
		}
		out.Obs(c.id, obs)
	}
}
