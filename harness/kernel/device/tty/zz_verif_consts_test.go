//go:build verif
// +build verif

package tty

import (
	"fmt"
	"os"
	"testing"

	"github.com/ProjectSerenity/firefly/kernel/device/video/console"
)

// TestVerifDumpConsts is the translator's front end for package device/tty: the Go compiler
// evaluates the constants of the current source tree and lib/vlib.py turns them into
// Gen/Consts_device_tty.v.
func TestVerifDumpConsts(t *testing.T) {
	f, err := os.Create(os.Getenv("VERIF_OUT"))
	if err != nil {
		t.Fatal(err)
	}
	defer f.Close()
	p := func(name string, v uint64) { fmt.Fprintf(f, "%s N 0x%x\n", name, v) }
	p("tty_DefaultScrollback", uint64(DefaultScrollback))
	p("tty_DefaultTabWidth", uint64(DefaultTabWidth))
	p("tty_StateInactive", uint64(StateInactive))
	p("tty_StateActive", uint64(StateActive))
	// what the probe hands to the kernel
	drv := probeForVT().(*VT)
	p("tty_probeTabWidth", uint64(drv.tabWidth))
	p("tty_probeScrollback", uint64(drv.scrollback))
	p("tty_newState", uint64(NewVT(0, 0).state))
	p("tty_newCursorX", uint64(NewVT(0, 0).cursorX))
	p("tty_newCursorY", uint64(NewVT(0, 0).cursorY))
	// console interface constants the terminal uses
	p("console_ScrollDirUp", uint64(console.ScrollDirUp))
	p("console_ScrollDirDown", uint64(console.ScrollDirDown))
	p("console_Characters", uint64(console.Characters))
	// default colours of the shipped consoles (the terminal adopts them in AttachTo)
	vfg, vbg := console.NewVgaTextConsole(80, 25, 0).DefaultColors()
	p("console_vgaDefaultFg", uint64(vfg))
	p("console_vgaDefaultBg", uint64(vbg))
	ffg, fbg := console.NewVesaFbConsole(640, 480, 8, 640, nil, 0).DefaultColors()
	p("console_vesaDefaultFg", uint64(ffg))
	p("console_vesaDefaultBg", uint64(fbg))
}
