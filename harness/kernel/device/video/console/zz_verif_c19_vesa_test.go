//go:build verif
// +build verif

package console

import (
	"fmt"
	"image/color"

	"github.com/ProjectSerenity/firefly/kernel/device/video/console/font"
	"github.com/ProjectSerenity/firefly/kernel/device/video/console/logo"
	"github.com/ProjectSerenity/firefly/kernel/multiboot"
)

// ---------------------------------------------------------------------------------------------
// framebuffer console: harness + pixel-level reference painter
// ---------------------------------------------------------------------------------------------

// verifPainter is the reference painter, written from the property text. Geometry in pixels;
// the text grid starts below the logo rows; a pixel occupies bytespp bytes of which the first
// ncomp carry the packed colour (a 32-bit pixel has one byte the 24-bit colour does not reach).
type verifPainter struct {
	W, H, pitch, bytespp, ncomp uint64
	logoH                       uint64
	gw, gh, bpr                 uint64
	wc, hc                      uint64 // grid size in cells
	bpp                         uint64
	rp, rs, gp, gs, bp, bs      uint64
	pal                         [256][3]uint64
	fontData                    []byte
	// hi: 32-bit pixel format with a colour component above bit 23 (the 4th byte carries colour)
	hi bool
}

// pixel returns the bytes a pixel of palette colour idx must hold.
func (p *verifPainter) pixel(idx uint64) []byte {
	if p.bpp == 8 {
		return []byte{byte(idx)}
	}
	c := p.pal[idx]
	v := (c[0]>>(8-p.rs))<<p.rp | (c[1]>>(8-p.gs))<<p.gp | (c[2]>>(8-p.bs))<<p.bp
	n := p.ncomp
	if p.hi {
		n = 4
	}
	out := make([]byte, n)
	for k := range out {
		out[k] = byte(v >> (8 * uint(k)))
	}
	return out
}

// off is the framebuffer index of byte k of the pixel at column X, row Y (absolute pixel row).
func (p *verifPainter) off(X, Y, k uint64) uint64 { return Y*p.pitch + X*p.bytespp + k }

// glyphBit reports whether pixel (q, r) of glyph ch is a foreground pixel.
func (p *verifPainter) glyphBit(ch, q, r uint64) bool {
	return p.fontData[ch*p.bpr*p.gh+r*p.bpr+q/8]&(0x80>>(q%8)) != 0
}

func verifC19Vesa(out *verifOut, id int, cur *verifCur) {
	W, H, bpp, pitch := cur.Next(), cur.Next(), cur.Next(), cur.Next()
	rp, rs, gp, gs, bp, bs := cur.Next(), cur.Next(), cur.Next(), cur.Next(), cur.Next(), cur.Next()
	logoH, fkind, gw, gh, bpr := cur.Next(), cur.Next(), cur.Next(), cur.Next(), cur.Next()
	fseed, pseed, seed := cur.Next(), cur.Next(), cur.Next()

	n := int(H * pitch)
	backing := make([]byte, n+2*verifGuard)
	for i := range backing {
		backing[i] = byte(verifMix((seed+977)%4096, uint64(i)) >> 3)
	}
	fb := backing[verifGuard : verifGuard+n : verifGuard+n]
	fillFb := func() {
		for i := range fb {
			fb[i] = byte(verifMix(seed, uint64(i)))
		}
	}
	guards := append([]byte(nil), backing...)

	ci := &multiboot.FramebufferRGBColorInfo{
		RedPosition: uint8(rp), RedMaskSize: uint8(rs),
		GreenPosition: uint8(gp), GreenMaskSize: uint8(gs),
		BluePosition: uint8(bp), BlueMaskSize: uint8(bs),
	}
	cons := NewVesaFbConsole(uint32(W), uint32(H), uint8(bpp), uint32(pitch), ci, 0)
	cons.fb = fb
	p := &verifPainter{W: W, H: H, pitch: pitch, bytespp: uint64(cons.bytesPerPixel), logoH: logoH, bpp: bpp,
		rp: rp, rs: rs, gp: gp, gs: gs, bp: bp, bs: bs}
	for i := uint64(0); i < 256; i++ {
		p.pal[i] = [3]uint64{verifMix(pseed, i*3) & 0xff, verifMix(pseed, i*3+1) & 0xff, verifMix(pseed, i*3+2) & 0xff}
	}
	// setPalette makes the console's palette equal to the reference painter's (p.pal)
	setPalette := func() {
		cons.palette = make(color.Palette, 256)
		for i := range p.pal {
			cons.palette[i] = color.RGBA{R: uint8(p.pal[i][0]), G: uint8(p.pal[i][1]), B: uint8(p.pal[i][2])}
		}
	}
	setPalette()
	var theLogo *logo.Image

	if logoH > 0 {
		// a real SetLogo call: it draws the logo, remaps palette entries and reserves l.Height rows
		lw := 1 + seed%5
		if lw > W {
			lw = W
		}
		l := &logo.Image{Width: uint32(lw), Height: uint32(logoH), Align: logo.Alignment(seed % 3), TransparentIndex: 0,
			Palette: []color.RGBA{{R: 1, G: 2, B: 3}, {R: 200, G: 100, B: 50}}, Data: make([]uint8, lw*logoH)}
		for i := range l.Data {
			l.Data[i] = uint8(i & 1)
		}
		theLogo = l
		if bad, what := verifCall(func() { cons.SetLogo(l) }); bad {
			out.Info("setlogo-panic", "case %d: %s", id, what)
		}
		setPalette()
	}
	fillFb()

	var f *font.Font
	switch {
	case fkind == 0:
		f = &font.Font{Name: "verif", GlyphWidth: uint32(gw), GlyphHeight: uint32(gh), BytesPerRow: uint32(bpr), Data: make([]byte, 256*bpr*gh)}
		for i := range f.Data {
			f.Data[i] = byte(verifMix(fseed, uint64(i)))
		}
	case fkind == 255:
	default:
		f = verifShippedFonts()[fkind-1]
		gw, gh, bpr = uint64(f.GlyphWidth), uint64(f.GlyphHeight), uint64(f.BytesPerRow)
	}
	if f != nil {
		if bad, _ := verifCall(func() { cons.SetFont(f) }); bad {
			out.Obs(id, []uint64{9})
			return
		}
		p.fontData = f.Data
	}
	p.gw, p.gh, p.bpr = gw, gh, bpr
	switch bpp {
	case 8:
		p.ncomp = 1
	case 15, 16:
		p.ncomp = 2
	case 24, 32:
		p.ncomp = 3
	}

	// ---- is this configuration inside the property's quantifier? (otherwise agreement only) ----
	inDomain := f != nil && gw >= 8 && gw <= 16 && bpr == (gw+7)/8 && gh >= 1 && uint64(len(f.Data)) >= 256*bpr*gh &&
		p.ncomp != 0 && logoH <= H && pitch >= W*p.bytespp && W >= gw && H-logoH >= gh
	if inDomain && bpp != 8 {
		lim := uint64(8 * p.ncomp)
		if bpp == 32 {
			lim = 32 // a 32-bit pixel may carry a component in its 4th byte
		}
		inDomain = rs <= 8 && gs <= 8 && bs <= 8 && rp+rs <= lim && gp+gs <= lim && bp+bs <= lim
		p.hi = inDomain && bpp == 32 && (rp+rs > 24 && rs > 0 || gp+gs > 24 && gs > 0 || bp+bs > 24 && bs > 0)
	}
	if inDomain {
		verifStats["vesa-in"]++
	} else {
		verifStats["vesa-out"]++
	}
	if inDomain {
		p.wc, p.hc = W/gw, (H-logoH)/gh
		cw, chh := cons.Dimensions(Characters)
		if uint64(cw) != p.wc || uint64(chh) != p.hc {
			out.Mon(id, "c19:vesa-grid-size", "console %dx%d font %dx%d logo %d: Dimensions(Characters) = %dx%d, expected %dx%d", W, H, gw, gh, logoH, cw, chh, p.wc, p.hc)
		}
	}
	geo := fmt.Sprintf("vesa %dx%dx%d pitch=%d logo=%d font=%dx%d", W, H, bpp, pitch, logoH, gw, gh)

	var obs []uint64
	before := make([]byte, n)
	must := make([]uint8, n) // 0 = must be unchanged, 1 = must equal want, 2 = no demand
	want := make([]byte, n)
	// paint demands the pixels of cell row/col ranges
	setPixel := func(X, Y uint64, px []byte) {
		for k := uint64(0); k < p.bytespp; k++ {
			o := p.off(X, Y, k)
			switch {
			case k < p.ncomp:
				must[o], want[o] = 1, px[k]
			case p.hi:
				must[o], want[o] = 3, px[k] // 4th byte of a pixel format that keeps a component there
			default:
				must[o] = 2 // byte of a 32-bit pixel that carries no colour
			}
		}
	}

	for !cur.Done() {
		copy(before, fb)
		for i := range must {
			must[i] = 0
		}
		op := cur.Next()
		var desc string
		var panicked bool
		var pmsg string
		isScroll := false
		switch op {
		case 0:
			ch, fg, bg, x, y := cur.Next(), cur.Next(), cur.Next(), cur.Next(), cur.Next()
			desc = fmt.Sprintf("%s Write(ch=%#x,fg=%d,bg=%d,x=%d,y=%d)", geo, ch, fg, bg, x, y)
			panicked, pmsg = verifCall(func() { cons.Write(byte(ch), uint8(fg), uint8(bg), uint32(x), uint32(y)) })
			if inDomain && (x < 1 || x > p.wc || y < 1 || y > p.hc) {
				verifStats["write-off"]++
			}
			if inDomain && x >= 1 && x <= p.wc && y >= 1 && y <= p.hc {
				verifStats["write-in"]++
				fgPx, bgPx := p.pixel(fg), p.pixel(bg)
				for r := uint64(0); r < gh; r++ {
					for q := uint64(0); q < gw; q++ {
						px := bgPx
						if p.glyphBit(ch, q, r) {
							px = fgPx
						}
						setPixel((x-1)*gw+q, logoH+(y-1)*gh+r, px)
					}
				}
			}
		case 1:
			x, y, w, h, fg, bg := cur.Next(), cur.Next(), cur.Next(), cur.Next(), cur.Next(), cur.Next()
			desc = fmt.Sprintf("%s Fill(x=%d,y=%d,w=%d,h=%d,fg=%d,bg=%d)", geo, x, y, w, h, fg, bg)
			panicked, pmsg = verifCall(func() { cons.Fill(uint32(x), uint32(y), uint32(w), uint32(h), uint8(fg), uint8(bg)) })
			if inDomain {
				bgPx := p.pixel(bg)
				x0, y0 := verifClampOrigin(x, p.wc), verifClampOrigin(y, p.hc)
				verifStats["fill"]++
				if x0+w > 1<<32 || y0+h > 1<<32 {
					verifStats["fill-wrap"]++
				}
				for cy := uint64(1); cy <= p.hc; cy++ {
					for cx := uint64(1); cx <= p.wc; cx++ {
						if cx >= x0 && cx < x0+w && cy >= y0 && cy < y0+h {
							for r := uint64(0); r < gh; r++ {
								for q := uint64(0); q < gw; q++ {
									setPixel((cx-1)*gw+q, logoH+(cy-1)*gh+r, bgPx)
								}
							}
						}
					}
				}
			}
		case 2:
			dir, lines := cur.Next(), cur.Next()
			isScroll = true
			desc = fmt.Sprintf("%s Scroll(dir=%d,lines=%d)", geo, dir, lines)
			panicked, pmsg = verifCall(func() { cons.Scroll(ScrollDir(dir), uint32(lines)) })
			if inDomain && (lines < 1 || lines > p.hc) {
				verifStats["scroll-ignored"]++
			}
			if inDomain && lines >= 1 && lines <= p.hc {
				verifStats["scroll-valid"]++
				// visible bytes below the logo: no demand unless demanded as moved below
				for Y := logoH; Y < H; Y++ {
					for b := uint64(0); b < W*p.bytespp; b++ {
						must[Y*pitch+b] = 2
					}
				}
				if dir <= 1 {
					for cy := uint64(1); cy <= p.hc; cy++ {
						var src uint64
						switch {
						case dir == uint64(ScrollDirUp) && cy+lines <= p.hc:
							src = cy + lines
						case dir == uint64(ScrollDirDown) && cy > lines:
							src = cy - lines
						default:
							continue // vacated line: the caller repaints it
						}
						for r := uint64(0); r < gh; r++ {
							for X := uint64(0); X < p.wc*gw; X++ {
								for k := uint64(0); k < p.ncomp; k++ {
									o := p.off(X, logoH+(cy-1)*gh+r, k)
									must[o], want[o] = 1, before[p.off(X, logoH+(src-1)*gh+r, k)]
								}
							}
						}
					}
				}
			}
		case 3:
			// SetFont with the font that is already set: the geometry stays, nothing may be painted
			desc = geo + " SetFont(same font)"
			if f != nil {
				panicked, pmsg = verifCall(func() { cons.SetFont(f) })
			} else {
				panicked, pmsg = verifCall(func() { cons.SetFont(nil) })
			}
		case 4:
			// SetLogo with the logo that is already set (nil if none): same geometry; its drawing and
			// palette remapping are outside C19 and are undone here
			desc = geo + " SetLogo(same logo)"
			verifCall(func() { cons.SetLogo(theLogo) })
			setPalette()
			copy(fb, before)
		case 5:
			// SetPaletteColor: the palette entry changes; the repainting of pixels that showed the
			// old colour (replace16/24) is outside C19 and is undone here
			idx, r, g, b := cur.Next(), cur.Next(), cur.Next(), cur.Next()
			desc = fmt.Sprintf("%s SetPaletteColor(%d, %d,%d,%d)", geo, idx, r, g, b)
			verifCall(func() { cons.SetPaletteColor(uint8(idx), color.RGBA{R: uint8(r), G: uint8(g), B: uint8(b)}) })
			p.pal[idx&0xff] = [3]uint64{r & 0xff, g & 0xff, b & 0xff}
			setPalette()
			copy(fb, before)
		default:
			panic("bad op")
		}

		status := uint64(0)
		if panicked {
			status = 1
		}
		obs = append(obs, status)
		if op <= 2 { // SetFont / SetLogo / SetPaletteColor: status only (the buffer is checked by the monitor)
			for _, v := range fb {
				obs = append(obs, uint64(v))
			}
		}
		if !inDomain {
			continue
		}
		// ---- monitor ----
		verifCount(must)
		if panicked {
			out.Mon(id, "c19:vesa-panic", "%s panicked: %s", desc, pmsg)
		}
		isPad := func(i int) bool { return uint64(i)%pitch >= W*p.bytespp }
		for i := 0; i < n; i++ { // visible bytes first
			if isPad(i) {
				continue
			}
			X, Y := (uint64(i)%pitch)/p.bytespp, uint64(i)/pitch
			if must[i] == 0 && fb[i] != before[i] {
				out.Mon(id, "c19:vesa-touched-other-pixel", "%s changed byte %d (pixel %d,%d) %#02x -> %#02x which it must leave alone", desc, i, X, Y, before[i], fb[i])
				break
			}
			if must[i] == 1 && fb[i] != want[i] {
				out.Mon(id, "c19:vesa-wrong-pixel", "%s: byte %d (pixel %d,%d) is %#02x (was %#02x), expected %#02x", desc, i, X, Y, fb[i], before[i], want[i])
				break
			}
		}
		for i := 0; i < n; i++ { // 4th byte of 32-bit pixels whose format has a component above bit 23
			if must[i] == 3 && fb[i] != want[i] {
				out.Mon(id, "vesa:32bpp-high-byte-component-dropped", "%s (masks R %d/%d G %d/%d B %d/%d): byte %d, the 4th byte of pixel (%d,%d), is %#02x (was %#02x), the pixel format needs %#02x there",
					desc, rp, rs, gp, gs, bp, bs, i, (uint64(i)%pitch)/p.bytespp, uint64(i)/pitch, fb[i], before[i], want[i])
				break
			}
		}
		for i := 0; i < n; i++ { // padding bytes between rows
			if isPad(i) && fb[i] != before[i] {
				sig := "c19:vesa-touched-padding"
				if isScroll {
					sig = "vesa:scroll-touches-padding"
				}
				out.Mon(id, sig, "%s changed padding byte %d (row %d, byte %d of the row; visible row bytes = %d) %#02x -> %#02x", desc, i, uint64(i)/pitch, uint64(i)%pitch, W*p.bytespp, before[i], fb[i])
				break
			}
		}
		for i := range backing {
			if (i < verifGuard || i >= verifGuard+n) && backing[i] != guards[i] {
				out.Mon(id, "c19:vesa-escape", "%s wrote outside the framebuffer (guard byte %d)", desc, i-verifGuard)
				break
			}
		}
	}
	out.Obs(id, obs)
}
