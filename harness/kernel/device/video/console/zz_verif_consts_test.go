//go:build verif
// +build verif

package console

import (
	"fmt"
	"os"
	"regexp"
	"testing"

	"github.com/ProjectSerenity/firefly/kernel/device/video/console/font"
	"github.com/ProjectSerenity/firefly/kernel/device/video/console/logo"
)

// verifShippedFonts enumerates the fonts registered in package font through its exported
// selection function (the registry itself is unexported), in a deterministic order.
func verifShippedFonts() []*font.Font {
	var out []*font.Font
	seen := map[*font.Font]bool{}
	for w := uint32(0); w <= 4096; w += 32 {
		for h := uint32(0); h <= 3072; h += 32 {
			if f := font.BestFit(w, h); f != nil && !seen[f] {
				seen[f] = true
				out = append(out, f)
			}
		}
	}
	for _, n := range []string{"terminus8x16", "terminus10x18", "terminus14x28"} {
		if f := font.FindByName(n); f != nil && !seen[f] {
			seen[f] = true
			out = append(out, f)
		}
	}
	// order by (GlyphWidth, GlyphHeight, Name)
	for i := range out {
		for j := i + 1; j < len(out); j++ {
			a, b := out[i], out[j]
			if b.GlyphWidth < a.GlyphWidth || (b.GlyphWidth == a.GlyphWidth && (b.GlyphHeight < a.GlyphHeight || (b.GlyphHeight == a.GlyphHeight && b.Name < a.Name))) {
				out[i], out[j] = out[j], out[i]
			}
		}
	}
	return out
}

// verifShippedLogos enumerates the logos registered in package logo (ordered by height).
func verifShippedLogos() []*logo.Image {
	var out []*logo.Image
	seen := map[*logo.Image]bool{}
	for h := uint32(0); h <= 8192; h += 8 {
		if l := logo.BestFit(1024, h); l != nil && !seen[l] {
			seen[l] = true
			out = append(out, l)
		}
	}
	for i := range out {
		for j := i + 1; j < len(out); j++ {
			if out[j].Height < out[i].Height || (out[j].Height == out[i].Height && out[j].Width < out[i].Width) {
				out[i], out[j] = out[j], out[i]
			}
		}
	}
	return out
}

// TestVerifDumpConsts is the translator's front end for package console: constants of the
// text-mode driver, and the geometry + data of every shipped font and logo.
func TestVerifDumpConsts(t *testing.T) {
	f, err := os.Create(os.Getenv("VERIF_OUT"))
	if err != nil {
		t.Fatal(err)
	}
	defer f.Close()
	p := func(name string, v uint64) { fmt.Fprintf(f, "%s N 0x%x\n", name, v) }
	ident := regexp.MustCompile(`\W`)

	vga := NewVgaTextConsole(80, 25, 0)
	p("vga_paletteLen", uint64(len(vga.Palette())))
	fg, bg := vga.DefaultColors()
	p("vga_defaultFg", uint64(fg))
	p("vga_defaultBg", uint64(bg))
	p("vga_clearChar", uint64(vga.clearChar))
	p("console_ScrollDirUp", uint64(ScrollDirUp))
	p("console_ScrollDirDown", uint64(ScrollDirDown))

	vesa := NewVesaFbConsole(8, 8, 8, 8, nil, 0)
	fg, bg = vesa.DefaultColors()
	p("vesa_defaultFg", uint64(fg))
	p("vesa_defaultBg", uint64(bg))
	p("vesa_clearChar", uint64(vesa.clearChar))
	for _, bpp := range []uint8{8, 15, 16, 24, 32} {
		p(fmt.Sprintf("vesa_bytesPerPixel_%d", bpp), uint64(NewVesaFbConsole(8, 8, bpp, 64, nil, 0).bytesPerPixel))
	}

	table := "console_font_table RAW ["
	for i, fn := range verifShippedFonts() {
		n := "font_" + ident.ReplaceAllString(fn.Name, "_")
		p(n+"_GlyphWidth", uint64(fn.GlyphWidth))
		p(n+"_GlyphHeight", uint64(fn.GlyphHeight))
		p(n+"_BytesPerRow", uint64(fn.BytesPerRow))
		p(n+"_DataLen", uint64(len(fn.Data)))
		// rows of glyph 0x20 (the character Fill is supposed to be equivalent to)
		fmt.Fprintf(f, "%s_Space LN", n)
		per := fn.BytesPerRow * fn.GlyphHeight
		for k := uint32(0); k < per && int(0x20*per+k) < len(fn.Data); k++ {
			fmt.Fprintf(f, " %d", fn.Data[0x20*per+k])
		}
		fmt.Fprintf(f, "\n%s_Data LN", n)
		for _, b := range fn.Data {
			fmt.Fprintf(f, " %d", b)
		}
		fmt.Fprintf(f, "\n")
		if i > 0 {
			table += "; "
		}
		table += fmt.Sprintf("(%d, %d, %d, %s_Data)", fn.GlyphWidth, fn.GlyphHeight, fn.BytesPerRow, n)
	}
	fmt.Fprintf(f, "%s]\n", table)

	// (Width, Height, Align, len Data, len Palette) of every shipped logo
	table = "console_logo_table RAW ["
	for i, l := range verifShippedLogos() {
		if i > 0 {
			table += "; "
		}
		table += fmt.Sprintf("(%d, %d, %d, %d, %d)", l.Width, l.Height, l.Align, len(l.Data), len(l.Palette))
	}
	fmt.Fprintf(f, "%s]\n", table)
}
