//go:build verif
// +build verif

package console

import (
	"fmt"
	"testing"
)

// C19 — console drivers paint exactly the addressed cells, never outside the framebuffer.
//
// Case encoding (see coq/theories/Console/Vga.v, Vesa.v, Run.v):
//   0 W H seed ops...                                   text-mode console, W x H cells
//   1 W H bpp pitch rp rs gp gs bp bs logoH fontKind gw gh bpr fseed pseed seed ops...
//                                                        framebuffer console (zz_verif_c19_vesa_test.go)
//   ops: 0 ch fg bg x y | 1 x y width height fg bg | 2 dir lines
// Observation per op: status (0 ok, 1 panic) followed by the whole framebuffer.
//
// The monitor is written from the property text, independently of the model: for every op it
// computes from the framebuffer content BEFORE the op which elements must have which value
// afterwards, and which must be unchanged (everything the property does not let the op touch,
// including padding between rows and the guard regions around the buffer).

const verifGuard = 64

// verifMix is the pseudo-random content function shared with the model (Console/Vga.v: mix).
func verifMix(seed, i uint64) uint64 {
	if seed >= 1<<12 || i >= 1<<24 {
		panic("verifMix: argument out of the range where uint64 arithmetic is exact")
	}
	return ((i + 1) * (seed*2 + 1) * 40503) / 64
}

// verifCall runs f and reports whether it panicked (Go run-time panics such as index out of
// range are recovered and become the Panic observation).
func verifCall(f func()) (panicked bool, what string) {
	defer func() {
		if r := recover(); r != nil {
			panicked, what = true, fmt.Sprint(r)
		}
	}()
	f()
	return
}

// clamp per the property text: "clamps the rectangle's origin into the grid" (coordinates are 1-based).
func verifClampOrigin(v, max uint64) uint64 {
	if v < 1 {
		return 1
	}
	if v > max {
		return max
	}
	return v
}

func TestVerifC19(t *testing.T) {
	out := verifOpenOut()
	defer out.Close()
	defer func(f func(uint16, uint8)) { portWriteByteFn = f }(portWriteByteFn)
	portWriteByteFn = func(uint16, uint8) {}

	nVga, nVesa := 0, 0
	verifStats = map[string]int{}
	for _, c := range verifReadCases() {
		cur := &verifCur{n: c.nums}
		switch cur.Next() {
		case 0:
			verifC19Vga(out, c.id, cur)
			nVga++
		case 1:
			verifC19Vesa(out, c.id, cur)
			nVesa++
		default:
			t.Fatalf("case %d: unknown console kind", c.id)
		}
	}
	out.Info("cases", "vga=%d vesa=%d", nVga, nVesa)
	out.Info("monitor", "framebuffer cases inside the quantifier=%d outside (agreement only)=%d; ops checked: write in-grid=%d write off-grid=%d fill=%d fill with wrapping extent=%d scroll valid=%d scroll ignored=%d; elements/bytes with an exact demand=%d, required unchanged=%d",
		verifStats["vesa-in"], verifStats["vesa-out"], verifStats["write-in"], verifStats["write-off"], verifStats["fill"], verifStats["fill-wrap"],
		verifStats["scroll-valid"], verifStats["scroll-ignored"], verifStats["exact"], verifStats["unchanged"])
}

// verifStats counts what the monitor actually checked (written to the evidence).
var verifStats map[string]int

func verifCount(must []uint8) {
	for _, v := range must {
		switch v {
		case 0:
			verifStats["unchanged"]++
		case 1:
			verifStats["exact"]++
		}
	}
}

// ---------------------------------------------------------------------------------------------
// text-mode console
// ---------------------------------------------------------------------------------------------

func verifC19Vga(out *verifOut, id int, cur *verifCur) {
	W, H, seed := cur.Next(), cur.Next(), cur.Next()
	n := int(W * H)
	backing := make([]uint16, n+2*verifGuard)
	for i := range backing {
		backing[i] = uint16(verifMix((seed+977)%4096, uint64(i)) >> 3)
	}
	fb := backing[verifGuard : verifGuard+n : verifGuard+n]
	for i := range fb {
		fb[i] = uint16(verifMix(seed, uint64(i)))
	}
	guards := append([]uint16(nil), backing...)

	cons := NewVgaTextConsole(uint32(W), uint32(H), 0)
	cons.fb = fb
	defFg, defBg := cons.DefaultColors()

	var obs []uint64
	before := make([]uint16, n)
	at := func(buf []uint16, x, y uint64) uint16 { return buf[(y-1)*W+(x-1)] } // 1-based cell

	for !cur.Done() {
		copy(before, fb)
		op := cur.Next()
		var desc string
		var panicked bool
		var pmsg string
		// must[i]: 0 = must be unchanged, 1 = must equal want[i], 2 = no demand
		must := make([]uint8, n)
		want := make([]uint16, n)
		switch op {
		case 0:
			ch, fg, bg, x, y := cur.Next(), cur.Next(), cur.Next(), cur.Next(), cur.Next()
			desc = fmt.Sprintf("vga %dx%d Write(ch=%#x,fg=%d,bg=%d,x=%d,y=%d)", W, H, ch, fg, bg, x, y)
			panicked, pmsg = verifCall(func() { cons.Write(byte(ch), uint8(fg), uint8(bg), uint32(x), uint32(y)) })
			if x >= 1 && x <= W && y >= 1 && y <= H {
				verifStats["write-in"]++
				// text mode has 16 colours; a larger value is documented to be replaced by the default
				efg, ebg := fg, bg
				if efg > 15 {
					efg = uint64(defFg)
				}
				if ebg > 15 {
					ebg = uint64(defBg)
				}
				i := (y-1)*W + (x - 1)
				must[i], want[i] = 1, uint16(((ebg<<4|efg)<<8)|ch)
			} else {
				verifStats["write-off"]++
			}
		case 1:
			x, y, w, h, fg, bg := cur.Next(), cur.Next(), cur.Next(), cur.Next(), cur.Next(), cur.Next()
			desc = fmt.Sprintf("vga %dx%d Fill(x=%d,y=%d,w=%d,h=%d,fg=%d,bg=%d)", W, H, x, y, w, h, fg, bg)
			panicked, pmsg = verifCall(func() { cons.Fill(uint32(x), uint32(y), uint32(w), uint32(h), uint8(fg), uint8(bg)) })
			x0, y0 := verifClampOrigin(x, W), verifClampOrigin(y, H)
			verifStats["fill"]++
			if x0+w > 1<<32 || y0+h > 1<<32 {
				verifStats["fill-wrap"]++
			}
			for cy := uint64(1); cy <= H; cy++ {
				for cx := uint64(1); cx <= W; cx++ {
					if cx >= x0 && cx < x0+w && cy >= y0 && cy < y0+h { // uint64: no wrap for 32-bit arguments
						i := (cy-1)*W + (cx - 1)
						if fg <= 15 && bg <= 15 {
							must[i], want[i] = 1, uint16(((bg<<4|fg)<<8)|uint64(' '))
						} else {
							must[i] = 2 // Fill does not define colours above 15: only the area is checked
						}
					}
				}
			}
		case 2:
			dir, lines := cur.Next(), cur.Next()
			desc = fmt.Sprintf("vga %dx%d Scroll(dir=%d,lines=%d)", W, H, dir, lines)
			panicked, pmsg = verifCall(func() { cons.Scroll(ScrollDir(dir), uint32(lines)) })
			if lines >= 1 && lines <= H && dir <= 1 {
				verifStats["scroll-valid"]++
				for cy := uint64(1); cy <= H; cy++ {
					for cx := uint64(1); cx <= W; cx++ {
						i := (cy-1)*W + (cx - 1)
						switch {
						case dir == uint64(ScrollDirUp) && cy+lines <= H:
							must[i], want[i] = 1, at(before, cx, cy+lines)
						case dir == uint64(ScrollDirDown) && cy > lines:
							must[i], want[i] = 1, at(before, cx, cy-lines)
						default:
							must[i] = 2 // vacated lines: the caller repaints them
						}
					}
				}
			} else if dir <= 1 {
				verifStats["scroll-ignored"]++
			} else {
				for i := range must {
					must[i] = 2 // not a scroll direction of the API: only containment is checked
				}
			}
		default:
			panic("bad op")
		}

		status := uint64(0)
		if panicked {
			status = 1
			out.Mon(id, "c19:vga-panic", "%s panicked: %s", desc, pmsg)
		}
		obs = append(obs, status)
		for _, v := range fb {
			obs = append(obs, uint64(v))
		}
		// ---- monitor ----
		verifCount(must)
		for i := 0; i < n; i++ {
			cx, cy := uint64(i)%W+1, uint64(i)/W+1
			if must[i] == 0 && fb[i] != before[i] {
				out.Mon(id, "c19:vga-touched-other-cell", "%s changed cell (%d,%d) %#04x -> %#04x which it must leave alone", desc, cx, cy, before[i], fb[i])
				break
			}
			if must[i] == 1 && fb[i] != want[i] {
				out.Mon(id, "c19:vga-wrong-cell", "%s: cell (%d,%d) is %#04x (was %#04x), expected %#04x", desc, cx, cy, fb[i], before[i], want[i])
				break
			}
		}
		for i := range backing {
			if (i < verifGuard || i >= verifGuard+n) && backing[i] != guards[i] {
				out.Mon(id, "c19:vga-escape", "%s wrote outside the framebuffer (guard element %d)", desc, i-verifGuard)
				break
			}
		}
	}
	out.Obs(id, obs)
}
