//go:build verif
// +build verif

package console

import (
	"github.com/ProjectSerenity/firefly/kernel"
	"github.com/ProjectSerenity/firefly/kernel/mm"
	"github.com/ProjectSerenity/firefly/kernel/mm/vmm"
)

// VerifC18Seams is an add-only export shim for the cross-package harness of property C18
// (package device/tty). It replaces this package's two hardware seams the same way the
// package's own tests do: region mapping returns the page of a host address (so that DriverInit
// of a console points its framebuffer at host memory) and port I/O is dropped. The returned
// function restores the seams.
func VerifC18Seams(fbAddr func() uintptr) (restore func()) {
	origMap, origPort := mapRegionFn, portWriteByteFn
	mapRegionFn = func(_ mm.Frame, _ uintptr, _ vmm.PageTableEntryFlag) (mm.Page, *kernel.Error) {
		return mm.PageFromAddress(fbAddr()), nil
	}
	portWriteByteFn = func(uint16, uint8) {}
	return func() { mapRegionFn, portWriteByteFn = origMap, origPort }
}
