//go:build verif
// +build verif

package aml

import (
	"fmt"
	"os"
	"sync/atomic"
	"testing"
	"time"
)

// TestVerifC13 drives the real ObjectTree with command histories (encoding: see the end of
// coq/theories/Aml/Tree.v), prints one observation line per case for the comparison with the
// extracted model, and runs the independent C13 monitor:
//
//   * a reference forest (Go slices of children, a parent table, a set of freed slots) that is
//     updated by the *legal* operations only (creation; append / insert-after of a detached
//     object that is not an ancestor of the new parent; detach of a child; free of a childless
//     object).  After every legal operation the real links are compared with the reference in
//     both directions, freed slots must be unreachable, and a creation must reuse a freed slot
//     whenever one exists (and must never hand out a live one);
//   * a reference resolver written from the ACPI rules (absolute from the root; each '^' one
//     parent, failing above a root; a single 4-byte segment searched in the scope and then in
//     every enclosing scope; several segments resolved downward only), applied to expressions
//     that are grammatical name strings or too-short names.  Other byte strings are agreement
//     only, except that Find must not crash on any of them.
//
// The first operation outside the property's quantifier (an illegal edit) switches the monitor
// off for the rest of the case ("tainted"): from there on only model agreement is checked.

const c13Inv = uint64(InvalidIndex)

// the names of the scopes CreateDefaultScopes must create (ACPI 5.3), root first
var c13DefaultScopeNames = []string{"\\\x00\x00\x00", "_GPE", "_PR_", "_SB_", "_SI_", "_TZ_"}

type c13Ref struct {
	kids    [][]int
	parent  []int
	alive   []bool
	// names is the monitor's OWN record of what every object is called: the name handed to
	// newNamedObject, the zero name for newObject (a reused slot must not keep the name of the
	// freed object), the ACPI names for the default scopes.  Lookups are judged against it.
	names   [][amlNameLen]byte
	nfreed  int
	tainted bool
}

func (r *c13Ref) live(i uint64) bool { return i < uint64(len(r.alive)) && r.alive[i] }

// isAncestorOrSelf reports whether a is x or an ancestor of x in the reference forest.
func (r *c13Ref) isAncestorOrSelf(a, x int) bool {
	for steps := 0; x != -1 && steps <= len(r.parent); steps++ {
		if x == a {
			return true
		}
		x = r.parent[x]
	}
	return false
}

func c13IndexOf(l []int, v int) int {
	for i, x := range l {
		if x == v {
			return i
		}
	}
	return -1
}

type c13Run struct {
	out  *verifOut
	id   int
	tree *ObjectTree
	ref  *c13Ref
	step int

	nodigest bool
}

func (c *c13Run) mon(sig, format string, args ...interface{}) {
	c.out.Mon(c.id, sig, "step %d: %s", c.step, fmt.Sprintf(format, args...))
}

func (c *c13Run) ptr(i uint64) *Object {
	if i < uint64(len(c.tree.objPool)) {
		return c.tree.objPool[i]
	}
	return nil
}

func (c *c13Run) posOf(o *Object) uint64 {
	if o == nil {
		return c13Inv
	}
	if uint64(o.index) < uint64(len(c.tree.objPool)) && c.tree.objPool[o.index] == o {
		return uint64(o.index)
	}
	for i, p := range c.tree.objPool {
		if p == o {
			return uint64(i)
		}
	}
	return c13Inv - 1
}

func c13Fields(o *Object) []uint64 {
	v := uint64(0)
	if o.value != nil {
		v = 1
	}
	return []uint64{uint64(o.opcode), uint64(o.infoIndex), uint64(o.tableHandle),
		uint64(o.name[0]), uint64(o.name[1]), uint64(o.name[2]), uint64(o.name[3]),
		uint64(o.index), uint64(o.parentIndex), uint64(o.prevSiblingIndex), uint64(o.nextSiblingIndex),
		uint64(o.firstArgIndex), uint64(o.lastArgIndex), v}
}

func (c *c13Run) dump() []uint64 {
	d := []uint64{uint64(len(c.tree.objPool)), uint64(c.tree.freeListHeadIndex)}
	for _, o := range c.tree.objPool {
		d = append(d, c13Fields(o)...)
	}
	return d
}

// digest of the whole pool as a list of observation numbers (empty while digests are switched off)
func (c *c13Run) dg() []uint64 {
	if c.nodigest {
		return nil
	}
	return []uint64{c.digest()}
}

func (c *c13Run) digest() uint64 {
	h := uint64(7)
	for _, x := range c.dump() {
		h = h*131 + x + 1
	}
	return h
}

// chainsTerminate: every sibling chain and every parent chain of the raw pool ends (at
// InvalidIndex or at a slot for which ObjectAt is nil) within len(pool) steps.  When this holds
// no traversal of the tree can run forever.
func (c *c13Run) chainsTerminate() bool {
	n := len(c.tree.objPool)
	for _, next := range []func(o *Object) uint32{
		func(o *Object) uint32 { return o.nextSiblingIndex },
		func(o *Object) uint32 { return o.parentIndex },
	} {
		for i := 0; i < n; i++ {
			idx := uint32(i)
			steps := 0
			for idx != InvalidIndex {
				if int(idx) >= n || c.tree.objPool[idx].opcode == pOpIntFreedObject {
					break
				}
				if steps > n {
					return false
				}
				steps++
				idx = next(c.tree.objPool[idx])
			}
		}
	}
	return true
}

// ---- link checker: real tree against the reference forest, both directions ----
func (c *c13Run) checkLinks() bool {
	r, pool := c.ref, c.tree.objPool
	ok := true
	fail := func(sig, format string, args ...interface{}) {
		if ok {
			c.mon(sig, format, args...)
		}
		ok = false
	}
	if len(pool) != len(r.alive) {
		fail("c13:pool-size", "pool has %d slots, reference has %d", len(pool), len(r.alive))
		return false
	}
	inv := InvalidIndex
	want := func(v int) uint32 {
		if v < 0 {
			return inv
		}
		return uint32(v)
	}
	for i, o := range pool {
		if o.index != uint32(i) {
			fail("c13:index-field", "slot %d holds an object whose index field is %d", i, o.index)
		}
		if !r.alive[i] {
			if c.tree.ObjectAt(uint32(i)) != nil {
				fail("c13:freed-reachable", "ObjectAt(%d) returns the freed object", i)
			}
			continue
		}
		if c.tree.ObjectAt(uint32(i)) != o {
			fail("c13:live-object-lost", "ObjectAt(%d) does not return the live object in that slot", i)
			continue
		}
		// no link of a live object may lead to a freed or non-existent slot
		for k, l := range []uint32{o.parentIndex, o.prevSiblingIndex, o.nextSiblingIndex, o.firstArgIndex, o.lastArgIndex} {
			if l != inv && !r.live(uint64(l)) {
				fail("c13:freed-reachable", "live object %d: link #%d = %d leads to a freed or missing slot", i, k, l)
			}
		}
		kids := r.kids[i]
		if len(kids) == 0 {
			if o.firstArgIndex != inv || o.lastArgIndex != inv {
				fail("c13:child-list", "object %d has no children but first/last = %d/%d", i, o.firstArgIndex, o.lastArgIndex)
			}
		} else if o.firstArgIndex != uint32(kids[0]) || o.lastArgIndex != uint32(kids[len(kids)-1]) {
			fail("c13:child-list", "object %d: children %v but first/last = %d/%d", i, kids, o.firstArgIndex, o.lastArgIndex)
		}
		for k, ch := range kids {
			co := pool[ch]
			p, n := -1, -1
			if k > 0 {
				p = kids[k-1]
			}
			if k+1 < len(kids) {
				n = kids[k+1]
			}
			if co.parentIndex != uint32(i) || co.prevSiblingIndex != want(p) || co.nextSiblingIndex != want(n) {
				fail("c13:sibling-links", "child %d of %d (children %v): parent/prev/next = %d/%d/%d", ch, i, kids, co.parentIndex, co.prevSiblingIndex, co.nextSiblingIndex)
			}
		}
		if r.parent[i] == -1 {
			if o.parentIndex != inv || o.prevSiblingIndex != inv || o.nextSiblingIndex != inv {
				fail("c13:detached-links", "detached object %d has parent/prev/next = %d/%d/%d", i, o.parentIndex, o.prevSiblingIndex, o.nextSiblingIndex)
			}
		} else if o.parentIndex != uint32(r.parent[i]) {
			fail("c13:parent-link", "object %d: parent link %d, reference parent %d", i, o.parentIndex, r.parent[i])
		}
		// the other direction: what the real links enumerate is exactly the reference list
		if ok {
			var fw, bw []int
			for idx, steps := o.firstArgIndex, 0; idx != inv && steps <= len(pool); idx, steps = pool[idx].nextSiblingIndex, steps+1 {
				fw = append(fw, int(idx))
			}
			for idx, steps := o.lastArgIndex, 0; idx != inv && steps <= len(pool); idx, steps = pool[idx].prevSiblingIndex, steps+1 {
				bw = append(bw, int(idx))
			}
			same := len(fw) == len(kids) && len(bw) == len(kids)
			for k := 0; same && k < len(kids); k++ {
				same = fw[k] == kids[k] && bw[len(kids)-1-k] == kids[k]
			}
			if !same {
				fail("c13:child-walk", "object %d: forward walk %v, backward walk %v, reference children %v", i, fw, bw, kids)
			}
		}
	}
	return ok
}

// ---- reference resolver (ACPI rules over the reference forest) ----

func c13NameChar(b byte, lead bool) bool {
	if b == '_' || (b >= 'A' && b <= 'Z') {
		return true
	}
	return !lead && b >= '0' && b <= '9'
}

func c13IsSeg(b []byte) bool {
	return len(b) == 4 && c13NameChar(b[0], true) && c13NameChar(b[1], false) && c13NameChar(b[2], false) && c13NameChar(b[3], false)
}

const (
	c13FormOther    = iota // not a name string: agreement only (but must not crash)
	c13FormPath            // grammatical: prefix + segments
	c13FormTooShort        // grammatical prefix and whole segments followed by 1-3 name characters
	c13FormEmpty
)

type c13Expr struct {
	form   int
	abs    bool
	ups    int
	segs   [][]byte
	packed bool // segments introduced by a dual / multi name prefix
}

func c13ParseExpr(e []byte) c13Expr {
	x := c13Expr{form: c13FormOther}
	if len(e) == 0 {
		x.form = c13FormEmpty
		return x
	}
	i := 0
	if e[0] == '\\' {
		x.abs, i = true, 1
	} else {
		for i < len(e) && e[i] == '^' {
			x.ups++
			i++
		}
	}
	body := e[i:]
	segsOf := func(b []byte) bool {
		for k := 0; k+4 <= len(b); k += 4 {
			if !c13IsSeg(b[k : k+4]) {
				return false
			}
			x.segs = append(x.segs, b[k:k+4])
		}
		return true
	}
	switch {
	case len(body) == 0:
		x.form = c13FormPath
	case body[0] == 0x2e: // DualNamePrefix
		if len(body) == 9 && segsOf(body[1:]) {
			x.form, x.packed = c13FormPath, true
		}
	case body[0] == 0x2f: // MultiNamePrefix SegCount
		if len(body) >= 2 && body[1] >= 2 && len(body) == 2+4*int(body[1]) && segsOf(body[2:]) {
			x.form, x.packed = c13FormPath, true
		}
	default:
		if !segsOf(body) {
			x.segs = nil
			return x
		}
		rem := body[len(body)-len(body)%4:]
		if len(rem) == 0 {
			x.form = c13FormPath
			return x
		}
		for k, b := range rem {
			if !c13NameChar(b, k == 0) {
				x.segs = nil
				return x
			}
		}
		x.form = c13FormTooShort
	}
	return x
}

// child looks name up among the children of scope; dup reports several children of that name.
func (c *c13Run) child(scope int, name []byte) (found int, dup bool) {
	found = -1
	for _, k := range c.ref.kids[scope] {
		n := c.ref.names[k]
		if n[0] == name[0] && n[1] == name[1] && n[2] == name[2] && n[3] == name[3] {
			if found != -1 {
				dup = true
			} else {
				found = k
			}
		}
	}
	return
}

// resolve returns the designated node (-1 = none) and whether the answer is well defined.
func (c *c13Run) resolve(scope int, x c13Expr) (node int, defined bool) {
	r := c.ref
	if x.form == c13FormEmpty || x.form == c13FormTooShort {
		// a too-short name can still fail earlier for another reason, it never succeeds
		return -1, true
	}
	cur := scope
	if x.abs {
		if !r.live(0) || r.parent[0] != -1 {
			return -1, false
		}
		cur = 0
	}
	for k := 0; k < x.ups; k++ {
		if cur = r.parent[cur]; cur == -1 {
			return -1, true
		}
	}
	if !x.abs && x.ups == 0 && !x.packed && len(x.segs) == 1 {
		for s := scope; s != -1; s = r.parent[s] {
			f, dup := c.child(s, x.segs[0])
			if dup {
				return -1, false
			}
			if f != -1 {
				return f, true
			}
		}
		return -1, true
	}
	for _, s := range x.segs {
		f, dup := c.child(cur, s)
		if dup {
			return -1, false
		}
		if f == -1 {
			return -1, true
		}
		cur = f
	}
	return cur, true
}

// ---- one case ----

func (c *c13Run) guard(f func()) (panicked bool, msg string) {
	defer func() {
		if r := recover(); r != nil {
			panicked, msg = true, fmt.Sprint(r)
		}
	}()
	f()
	return
}

func (c *c13Run) run(nums []uint64) []uint64 {
	cur := &verifCur{n: nums}
	var obs []uint64
	tree, ref := c.tree, c.ref
	afterLegalEdit := func() {
		if !c.checkLinks() {
			ref.tainted = true // already reported; avoid follow-up noise and unsafe walks
		}
	}
	for !cur.Done() {
		c.step++
		atomic.AddInt64(&c13Progress, 1)
		tag := cur.Next()
		switch tag {
		case 0, 1: // newObject / newNamedObject
			opc, th := cur.Next(), cur.Next()
			var name [amlNameLen]byte
			if tag == 1 {
				for k := 0; k < 4; k++ {
					name[k] = byte(cur.Next())
				}
			}
			oldLen := len(tree.objPool)
			var o *Object
			if p, _ := c.guard(func() {
				if tag == 0 {
					o = tree.newObject(uint16(opc), uint8(th))
				} else {
					o = tree.newNamedObject(uint16(opc), uint8(th), name)
				}
			}); p {
				return append(obs, 1)
			}
			pos := c.posOf(o)
			obs = append(append(obs, 0, pos), c.dg()...)
			legal := uint16(opc) != pOpIntFreedObject
			if !legal {
				ref.tainted = true
			}
			if ref.tainted {
				continue
			}
			// reuse before grow; never hand out a live object
			grew := len(tree.objPool) - oldLen
			switch {
			case pos < uint64(oldLen) && ref.alive[pos]:
				c.mon("c13:live-object-reallocated", "creation returned slot %d which holds a live object", pos)
				ref.tainted = true
				continue
			case ref.nfreed > 0 && (grew != 0 || pos >= uint64(oldLen)):
				c.mon("c13:grow-before-reuse", "creation with %d freed slot(s) available grew the pool by %d and returned slot %d", ref.nfreed, grew, pos)
				ref.tainted = true
				continue
			case ref.nfreed == 0 && (grew != 1 || pos != uint64(oldLen)):
				// a fresh slot somewhere else than at the end of the pool: the property does not say
				// where new objects go; the reference cannot follow, model agreement decides
				ref.tainted = true
				continue
			}
			if pos == uint64(oldLen) {
				ref.kids, ref.parent, ref.alive = append(ref.kids, nil), append(ref.parent, -1), append(ref.alive, true)
				ref.names = append(ref.names, name)
			} else {
				ref.alive[pos], ref.kids[pos], ref.parent[pos] = true, nil, -1
				ref.names[pos] = name
				ref.nfreed--
			}
			if uint64(o.opcode) != opc&0xffff || (tag == 1 && o.name != name) {
				c.mon("c13:created-object", "created object has opcode %#x name %v", o.opcode, o.name)
			}
			afterLegalEdit()

		case 2, 3: // append / appendAfter
			a, b := cur.Next(), cur.Next()
			n := uint64(0)
			if tag == 3 {
				n = cur.Next()
			}
			legal := !ref.tainted && ref.live(a) && ref.live(b) && ref.parent[b] == -1 && !ref.isAncestorOrSelf(int(b), int(a))
			if tag == 3 {
				legal = legal && ref.live(n) && ref.parent[n] == int(a)
			}
			if p, _ := c.guard(func() {
				if tag == 2 {
					tree.append(c.ptr(a), c.ptr(b))
				} else {
					tree.appendAfter(c.ptr(a), c.ptr(b), c.ptr(n))
				}
			}); p {
				if legal {
					c.mon("c13:edit-crash", "legal append/insert-after (%d,%d,%d) panicked", a, b, n)
				}
				return append(obs, 1)
			}
			obs = append(append(obs, 0), c.dg()...)
			if !legal {
				ref.tainted = true
				continue
			}
			if tag == 2 {
				ref.kids[a] = append(ref.kids[a], int(b))
			} else {
				k := c13IndexOf(ref.kids[a], int(n))
				l := append([]int{}, ref.kids[a][:k+1]...)
				l = append(l, int(b))
				ref.kids[a] = append(l, ref.kids[a][k+1:]...)
			}
			ref.parent[b] = int(a)
			afterLegalEdit()

		case 4: // detach
			a, b := cur.Next(), cur.Next()
			legal := !ref.tainted && ref.live(a) && ref.live(b) && ref.parent[b] == int(a)
			if p, _ := c.guard(func() { tree.detach(c.ptr(a), c.ptr(b)) }); p {
				if legal {
					c.mon("c13:edit-crash", "legal detach(%d,%d) panicked", a, b)
				}
				return append(obs, 1)
			}
			obs = append(append(obs, 0), c.dg()...)
			if !legal {
				ref.tainted = true
				continue
			}
			k := c13IndexOf(ref.kids[a], int(b))
			ref.kids[a] = append(append([]int{}, ref.kids[a][:k]...), ref.kids[a][k+1:]...)
			ref.parent[b] = -1
			afterLegalEdit()

		case 5: // free
			a := cur.Next()
			legal := !ref.tainted && ref.live(a) && len(ref.kids[a]) == 0
			if p, _ := c.guard(func() { tree.free(c.ptr(a)) }); p {
				if legal {
					c.mon("c13:edit-crash", "legal free(%d) panicked", a)
				}
				return append(obs, 1)
			}
			obs = append(append(obs, 0), c.dg()...)
			if !legal {
				ref.tainted = true
				continue
			}
			if p := ref.parent[a]; p != -1 {
				k := c13IndexOf(ref.kids[p], int(a))
				ref.kids[p] = append(append([]int{}, ref.kids[p][:k]...), ref.kids[p][k+1:]...)
				ref.parent[a] = -1
			}
			ref.alive[a] = false
			ref.nfreed++
			afterLegalEdit()

		case 6: // dump
			obs = append(obs, 0)
			obs = append(obs, c.dump()...)

		case 12: // CreateDefaultScopes
			th := cur.Next()
			oldLen := len(tree.objPool)
			legal := !ref.tainted && ref.nfreed == 0
			if p, _ := c.guard(func() { tree.CreateDefaultScopes(uint8(th)) }); p {
				return append(obs, 1)
			}
			obs = append(append(obs, 0), c.dg()...)
			if !legal {
				ref.tainted = true // with freed slots the reference cannot know which slots are used
				continue
			}
			for i := oldLen; i < len(tree.objPool); i++ {
				ref.kids, ref.parent, ref.alive = append(ref.kids, nil), append(ref.parent, -1), append(ref.alive, true)
				var dn [amlNameLen]byte
				if k := i - oldLen; k < len(c13DefaultScopeNames) {
					copy(dn[:], c13DefaultScopeNames[k])
				}
				ref.names = append(ref.names, dn)
			}
			for i := oldLen + 1; i < len(tree.objPool); i++ {
				ref.kids[oldLen] = append(ref.kids[oldLen], i)
				ref.parent[i] = oldLen
			}
			if len(tree.objPool)-oldLen != 6 {
				c.mon("c13:default-scopes", "CreateDefaultScopes created %d objects", len(tree.objPool)-oldLen)
			}
			afterLegalEdit()

		case 7, 13, 8, 9, 10: // traversals
			var scope, arg2 uint64
			var expr []byte
			scope = cur.Next()
			if tag == 7 || tag == 13 {
				for _, b := range cur.List() {
					expr = append(expr, byte(b))
				}
			}
			if tag == 9 {
				arg2 = cur.Next()
			}
			if !c.chainsTerminate() {
				if !ref.tainted {
					c.mon("c13:cycle", "a sibling or parent chain of the pool does not terminate")
					ref.tainted = true
				}
				return append(obs, 3) // never produced by the model: the generator must not ask for this
			}
			var res uint64
			p, msg := c.guard(func() {
				switch tag {
				case 7:
					res = uint64(tree.Find(uint32(scope), expr))
				case 13:
					res = uint64(tree.findRelative(uint32(scope), expr))
				case 8:
					res = uint64(tree.NumArgs(c.ptr(scope)))
				case 9:
					res = c.posOf(tree.ArgAt(c.ptr(scope), uint32(arg2)))
				case 10:
					res = uint64(tree.ClosestNamedAncestor(c.ptr(scope)))
				}
			})
			inDomain := !ref.tainted && ref.live(scope) && ref.live(0)
			if p {
				if inDomain && (tag == 7 || tag == 8 || tag == 9) {
					c.mon("c13:lookup-crash", "call %d from live scope %d on expression % x panicked: %s", tag, scope, expr, msg)
				}
				return append(obs, 1)
			}
			obs = append(obs, 0, res)
			if !inDomain {
				continue
			}
			switch tag {
			case 7:
				if res != c13Inv && !ref.live(res) {
					c.mon("c13:find-returned-dead-object", "Find(%d, % x) = %d which is not a live object", scope, expr, res)
				}
				x := c13ParseExpr(expr)
				c13Stats.finds++
				if x.form == c13FormOther {
					break
				}
				node, defined := c.resolve(int(scope), x)
				if defined {
					c13Stats.decided++
					if node >= 0 {
						c13Stats.hits++
					}
				}
				want := c13Inv
				if node >= 0 {
					want = uint64(node)
				}
				if defined && res != want {
					sig := "c13:find-wrong-node"
					if x.packed && len(x.segs) > 2 && c13NameChar(byte(len(x.segs)), true) {
						sig = "c13:find-multiname-segcount-is-name-char"
					}
					c.mon(sig, "Find(scope %d, % x) = %#x, the search rules designate %#x", scope, expr, res, want)
				}
			case 8:
				if res != uint64(len(ref.kids[scope])) {
					c.mon("c13:numargs", "NumArgs(%d) = %d, reference has %d children", scope, res, len(ref.kids[scope]))
				}
			case 9:
				want := c13Inv
				if arg2 < uint64(len(ref.kids[scope])) {
					want = uint64(ref.kids[scope][arg2])
				}
				if res != want {
					c.mon("c13:argat", "ArgAt(%d, %d) = %#x, reference child is %#x", scope, arg2, res, want)
				}
			}

		case 14: // digests off / on
			c.nodigest = cur.Next() == 0

		case 11: // ObjectAt
			i := cur.Next()
			obs = append(obs, 0, c.posOf(tree.ObjectAt(uint32(i))))

		default:
			return append(obs, 0xbad)
		}
	}
	return obs
}

var c13Progress int64

var c13Stats struct{ finds, decided, hits, tainted, legalCases int }

func TestVerifC13(t *testing.T) {
	out := verifOpenOut()
	defer out.Close()
	cases := verifReadCases()

	// watchdog: a lookup that never returns must not hang the check
	var curCase int64 = -1
	done := make(chan struct{})
	defer close(done)
	go func() {
		last, lastChange := int64(-1), time.Now()
		for {
			select {
			case <-done:
				return
			case <-time.After(500 * time.Millisecond):
			}
			if p := atomic.LoadInt64(&c13Progress); p != last {
				last, lastChange = p, time.Now()
			} else if time.Since(lastChange) > 20*time.Second {
				out.Mon(int(atomic.LoadInt64(&curCase)), "c13:hang", "an operation did not return within 20s")
				out.Flush()
				os.Exit(3)
			}
		}
	}()

	for _, cs := range cases {
		atomic.StoreInt64(&curCase, int64(cs.id))
		atomic.AddInt64(&c13Progress, 1)
		c := &c13Run{out: out, id: cs.id, tree: NewObjectTree(), ref: &c13Ref{}}
		out.Obs(cs.id, c.run(cs.nums))
		if c.ref.tainted {
			c13Stats.tainted++
		} else {
			c13Stats.legalCases++
		}
	}
	out.Info("c13-monitor", "Find calls from live scopes in well-formed states: %d, of which decided by the search rules: %d (designating a node: %d); cases fully inside the quantifier: %d, cases with an illegal edit (agreement only after it): %d",
		c13Stats.finds, c13Stats.decided, c13Stats.hits, c13Stats.legalCases, c13Stats.tainted)
}
