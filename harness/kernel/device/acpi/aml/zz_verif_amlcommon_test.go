//go:build verif
// +build verif

package aml

// Shared helpers of the C11 and C12 harnesses: table construction, contained parsing (child
// processes, stack/memory caps, watchdog), canonical tree dump, independent link checker and
// slice-range collector.  Nothing here is used by the model; the dump is the observation that
// the extracted model has to reproduce, the checkers are the monitors.

import (
	"bufio"
	"fmt"
	"io"
	"io/ioutil"
	"os"
	"os/exec"
	"path/filepath"
	"reflect"
	"runtime"
	"runtime/debug"
	"sort"
	"strconv"
	"strings"
	"sync"
	"syscall"
	"testing"
	"time"
	"unsafe"

	"github.com/ProjectSerenity/firefly/kernel/device/acpi/table"
)

const verifAmlHdrLen = int(unsafe.Sizeof(table.SDTHeader{}))

// verifAmlTable is one table image: header + payload. The image is placed at the very end of an
// anonymous mapping that is followed by an inaccessible guard page, so that a read past the end of
// the table faults (and, with SetPanicOnFault, becomes a recoverable panic) instead of silently
// reading foreign memory.
type verifAmlTable struct {
	buf     []byte // the table bytes (aliases the mapping)
	mapping []byte
}

func (tb *verifAmlTable) header() *table.SDTHeader {
	return (*table.SDTHeader)(unsafe.Pointer(&tb.buf[0]))
}
func (tb *verifAmlTable) base() uintptr { return uintptr(unsafe.Pointer(&tb.buf[0])) }

func (tb *verifAmlTable) release() {
	if tb.mapping != nil {
		_ = syscall.Munmap(tb.mapping)
		tb.mapping = nil
	}
}

// verifAmlGuarded returns n bytes whose last byte is immediately followed by a PROT_NONE page.
func verifAmlGuarded(n int) (buf, mapping []byte) {
	page := os.Getpagesize()
	pages := (n + page - 1) / page
	if pages == 0 {
		pages = 1
	}
	m, err := syscall.Mmap(-1, 0, (pages+1)*page, syscall.PROT_READ|syscall.PROT_WRITE, syscall.MAP_ANON|syscall.MAP_PRIVATE)
	if err != nil {
		return make([]byte, n), nil
	}
	if err := syscall.Mprotect(m[pages*page:], syscall.PROT_NONE); err != nil {
		_ = syscall.Munmap(m)
		return make([]byte, n), nil
	}
	return m[pages*page-n : pages*page : pages*page], m
}

// verifAmlMakeTable builds the image the way the existing tests do (mockByteDataResolver).
func verifAmlMakeTable(payload []byte) *verifAmlTable {
	stream, mapping := verifAmlGuarded(verifAmlHdrLen + len(payload))
	copy(stream[verifAmlHdrLen:], payload)
	tb := &verifAmlTable{buf: stream, mapping: mapping}
	h := tb.header()
	h.Signature = [4]byte{'D', 'S', 'D', 'T'}
	h.Length = uint32(len(stream))
	h.Revision = 2
	return tb
}

// outcome classes
const (
	verifAmlOk    = 0
	verifAmlErr   = 1
	verifAmlPanic = 2
	verifAmlFatal = 3 // child died / watchdog
)

type verifAmlResult struct {
	class    int
	failedAt int // index of the table whose parse failed / panicked
	panicMsg string
	tree     *ObjectTree
	tables   []*verifAmlTable
	elapsed  time.Duration
	cpu      time.Duration // CPU time of the process spent in the parse (cases run one at a time in a child)
	stack    string        // top frames of the panic, if any
	errLog   string // what the parser wrote to its error writer (first 400 bytes)
}

type verifAmlLog struct{ res *verifAmlResult }

func (l *verifAmlLog) Write(p []byte) (int, error) {
	if len(l.res.errLog) < 400 {
		l.res.errLog += string(p)
	}
	return len(p), nil
}

func (r *verifAmlResult) release() {
	for _, tb := range r.tables {
		tb.release()
	}
}

// verifAmlCPU: user + system CPU time consumed by this process so far
func verifAmlCPU() time.Duration {
	var ru syscall.Rusage
	if err := syscall.Getrusage(syscall.RUSAGE_SELF, &ru); err != nil {
		return 0
	}
	return time.Duration(ru.Utime.Nano() + ru.Stime.Nano())
}

// verifAmlPanicSite names the innermost function of package aml on a panic's stack and the kind of
// run-time error, e.g. "attachSiblingsAsArgs:nil-deref": a narrow, input-independent signature.
func verifAmlPanicSite(msg, stack string) string {
	kind := "other"
	switch {
	case strings.Contains(msg, "unexpected fault address"):
		kind = "stray-read"
	case strings.Contains(msg, "nil pointer dereference"):
		kind = "nil-deref"
	case strings.Contains(msg, "interface conversion"):
		kind = "type-assertion"
	case strings.Contains(msg, "index out of range"), strings.Contains(msg, "slice bounds out of range"):
		kind = "index"
	case strings.Contains(msg, "attempted to free object"):
		kind = "free-with-args"
	}
	fn := ""
	nfr := 0
	for _, ln := range strings.Split(stack, "\n") {
		if i := strings.Index(ln, "/acpi/aml."); i >= 0 && !strings.Contains(ln, "verifAml") && !strings.Contains(ln, "TestVerif") {
			f := ln[i+len("/acpi/aml."):]
			if strings.HasPrefix(f, "(*") {
				// method: (*Parser).name(...)
				if k := strings.Index(f, ")."); k > 0 {
					f = f[k+2:]
				}
			}
			if j := strings.IndexAny(f, "({"); j > 0 {
				f = f[:j]
			}
			f = strings.TrimSpace(f)
			if nfr == 0 {
				fn = f
			} else if f != fn {
				fn += "<" + f
				break
			}
			nfr++
		}
	}
	if fn == "" {
		fn = "unknown"
	}
	return fn + ":" + kind
}

// verifAmlParse loads the payloads one after the other (handles 1, 2, ...) into a fresh tree with
// the default scopes (handle 0), the way parser_fuzz.go does. Panics are recovered; stray reads
// fault into panics (SetPanicOnFault).
func verifAmlParse(payloads [][]byte) (res verifAmlResult) {
	res.tree = NewObjectTree()
	res.tree.CreateDefaultScopes(0)
	for _, p := range payloads {
		res.tables = append(res.tables, verifAmlMakeTable(p))
	}
	// diagnostics of the parser: kept (bounded) for the monitor messages
	var ew io.Writer = &verifAmlLog{res: &res}
	if os.Getenv("VERIF_AML_PRINT") != "" {
		ew = os.Stderr
		defer func() {
			if _, prob := verifAmlCheckLinks(res.tree); prob == "" {
				res.tree.PrettyPrint(os.Stderr)
			}
		}()
	}
	p := NewParser(ew, res.tree)
	start := time.Now()
	cpu0 := verifAmlCPU()
	defer func() { res.elapsed = time.Since(start); res.cpu = verifAmlCPU() - cpu0 }()
	for i, tb := range res.tables {
		var err error
		func() {
			defer debug.SetPanicOnFault(debug.SetPanicOnFault(true))
			defer func() {
				if r := recover(); r != nil {
					res.class = verifAmlPanic
					res.panicMsg = fmt.Sprint(r)
					res.stack = string(debug.Stack())
				}
			}()
			if e := p.ParseAML(uint8(i+1), "DSDT", tb.header()); e != nil {
				err = e
			}
		}()
		if res.class == verifAmlPanic {
			res.failedAt = i
			return
		}
		if err != nil {
			res.class = verifAmlErr
			res.failedAt = i
			return
		}
	}
	return
}

// ---- independent link checker (monitor) --------------------------------------------------------

// verifAmlCheckLinks walks the pool from the root using only the raw link fields and checks that
// they describe a tree: indices in range, no freed object reachable, parent/prev/next/first/last
// agree in both directions, nothing reachable twice. Returns "" or a description; order = DFS
// preorder of the reachable objects.
func verifAmlCheckLinks(tree *ObjectTree) (order []uint32, problem string) {
	n := uint32(len(tree.objPool))
	if n == 0 {
		return nil, "empty pool"
	}
	seen := make([]bool, n)
	type frame struct{ idx uint32 }
	stack := []uint32{0}
	if tree.objPool[0].parentIndex != InvalidIndex {
		return nil, "root has a parent"
	}
	for len(stack) > 0 {
		idx := stack[len(stack)-1]
		stack = stack[:len(stack)-1]
		if idx >= n {
			return order, fmt.Sprintf("index %d out of range (pool %d)", idx, n)
		}
		if seen[idx] {
			return order, fmt.Sprintf("object %d reachable twice (cycle or shared child)", idx)
		}
		seen[idx] = true
		o := tree.objPool[idx]
		if o.index != idx {
			return order, fmt.Sprintf("object at pool slot %d has index %d", idx, o.index)
		}
		if o.opcode == pOpIntFreedObject {
			return order, fmt.Sprintf("freed object %d reachable", idx)
		}
		order = append(order, idx)
		// children
		var kids []uint32
		prev := InvalidIndex
		for c := o.firstArgIndex; c != InvalidIndex; {
			if c >= n {
				return order, fmt.Sprintf("child index %d of %d out of range", c, idx)
			}
			co := tree.objPool[c]
			if co.parentIndex != idx {
				return order, fmt.Sprintf("child %d of %d has parent %d", c, idx, co.parentIndex)
			}
			if co.prevSiblingIndex != prev {
				return order, fmt.Sprintf("child %d of %d has prev %d, expected %d", c, idx, co.prevSiblingIndex, prev)
			}
			kids = append(kids, c)
			if uint32(len(kids)) > n {
				return order, fmt.Sprintf("sibling list of %d does not end", idx)
			}
			prev = c
			c = co.nextSiblingIndex
		}
		if o.lastArgIndex != prev {
			return order, fmt.Sprintf("object %d lastArg %d, list ends at %d", idx, o.lastArgIndex, prev)
		}
		for i := len(kids) - 1; i >= 0; i-- {
			stack = append(stack, kids[i])
		}
	}
	return order, ""
}

// ---- slices ------------------------------------------------------------------------------------

type verifAmlSlice struct {
	obj    uint32
	handle uint8
	isNil  bool
	start  uint64 // relative to the base of the table with the object's handle (mod 2^64)
	length uint64
	inside bool
}

func verifAmlSliceOf(v []byte, o *Object, tables []*verifAmlTable) verifAmlSlice {
	s := verifAmlSlice{obj: o.index, handle: o.tableHandle, length: uint64(len(v))}
	ptr := (*reflect.SliceHeader)(unsafe.Pointer(&v)).Data
	if len(v) == 0 {
		s.isNil = true
		s.inside = true
		return s
	}
	if ptr == 0 {
		s.isNil = true
		return s
	}
	if int(o.tableHandle) >= 1 && int(o.tableHandle) <= len(tables) {
		tb := tables[o.tableHandle-1]
		s.start = uint64(ptr - tb.base())
		s.inside = ptr >= tb.base() && uint64(ptr-tb.base())+uint64(len(v)) <= uint64(len(tb.buf))
	} else {
		s.start = uint64(ptr)
	}
	return s
}

// ---- canonical dump ----------------------------------------------------------------------------

// verifAmlDump: DFS preorder over the reachable tree (order as returned by the link checker, which
// must have succeeded). Per object: opcode, name (big-endian 4 bytes), table handle, amlOffset,
// number of children, value kind, value...; object references are preorder numbers.
//
//	kind 0 nil | 1 uint64 v | 2 []byte nil/empty: len | 3 []byte start len | 4 uint32 ref |
//	5 fieldElement offset width accessLength accessType accessAttrib lockType updateType connRef fieldRef
func verifAmlDump(tree *ObjectTree, order []uint32, tables []*verifAmlTable) (obs []uint64, slices []verifAmlSlice) {
	num := make(map[uint32]uint64, len(order))
	for i, idx := range order {
		num[idx] = uint64(i)
	}
	ref := func(idx uint32) uint64 {
		if v, ok := num[idx]; ok {
			return v
		}
		return 0xffffffff
	}
	for _, idx := range order {
		o := tree.objPool[idx]
		name := uint64(o.name[0])<<24 | uint64(o.name[1])<<16 | uint64(o.name[2])<<8 | uint64(o.name[3])
		obs = append(obs, uint64(o.opcode), name, uint64(o.tableHandle), uint64(o.amlOffset), uint64(tree.NumArgs(o)))
		switch v := o.value.(type) {
		case nil:
			obs = append(obs, 0)
		case uint64:
			obs = append(obs, 1, v)
		case []byte:
			s := verifAmlSliceOf(v, o, tables)
			slices = append(slices, s)
			if s.isNil {
				obs = append(obs, 2, s.length)
			} else {
				obs = append(obs, 3, s.start, s.length)
			}
		case uint32:
			obs = append(obs, 4, ref(v))
		case *fieldElement:
			obs = append(obs, 5, uint64(v.offset), uint64(v.width), uint64(v.accessLength), uint64(v.accessType),
				uint64(v.accessAttrib), uint64(v.lockType), uint64(v.updateType), ref(v.connectionIndex), ref(v.fieldIndex))
		default:
			obs = append(obs, 99)
		}
	}
	return
}

// verifAmlPrettyPrint runs PrettyPrint into a discarding writer; returns the panic message if any.
func verifAmlPrettyPrint(tree *ObjectTree) (msg string) {
	defer debug.SetPanicOnFault(debug.SetPanicOnFault(true))
	defer func() {
		if r := recover(); r != nil {
			msg = fmt.Sprint(r)
		}
	}()
	tree.PrettyPrint(ioutil.Discard)
	return ""
}

// ---- containment: run the cases in child processes ---------------------------------------------

// verifAmlRun runs runCase on every case of VERIF_CASES inside child processes (re-executing the
// test binary). A child flushes a start marker before and an end marker after every case; when a
// child dies (fatal stack overflow, out of memory, watchdog) the case without end marker is the
// culprit: the parent reports it (observation [3], monitor signature <prefix>:fatal-...) and
// restarts a child on the remaining cases.
//
//	budget(c) = wall-clock allowance of a case before the watchdog kills the child.
func verifAmlRun(t *testing.T, testName, prefix string, budget func(c verifCase) time.Duration, runCase func(out *verifOut, c verifCase)) {
	if os.Getenv("VERIF_AML_CHILD") != "" {
		verifAmlChild(budget, runCase)
		return
	}
	cases := verifReadCases()
	out := verifOpenOut()
	defer out.Close()
	dir := filepath.Dir(os.Getenv("VERIF_OUT"))
	workers := runtime.NumCPU()
	if workers > 12 {
		workers = 12
	}
	if workers > len(cases) {
		workers = len(cases)
	}
	if workers < 1 {
		workers = 1
	}
	chunks := make([][]verifCase, workers)
	for i, c := range cases {
		chunks[i%workers] = append(chunks[i%workers], c)
	}
	var mu sync.Mutex
	var wg sync.WaitGroup
	deaths := 0
	for w := 0; w < workers; w++ {
		wg.Add(1)
		go func(w int, todo []verifCase) {
			defer wg.Done()
			for round := 0; len(todo) > 0; round++ {
				cf := filepath.Join(dir, fmt.Sprintf("%s_child_%d.cases", prefix, w))
				of := filepath.Join(dir, fmt.Sprintf("%s_child_%d.out", prefix, w))
				verifAmlWriteCases(cf, todo)
				os.Remove(of)
				var total time.Duration
				for _, c := range todo {
					total += budget(c)
				}
				cmd := exec.Command(os.Args[0], "-test.run=^"+testName+"$", "-test.timeout=0")
				cmd.Env = append(os.Environ(), "VERIF_AML_CHILD=1", "VERIF_CASES="+cf, "VERIF_OUT="+of)
				var stderr strings.Builder
				cmd.Stderr = &verifAmlTail{b: &stderr}
				if os.Getenv("VERIF_AML_PRINT") != "" {
					cmd.Stderr = os.Stderr
				}
				cmd.Stdout = nil
				done := make(chan error, 1)
				if err := cmd.Start(); err != nil {
					t.Errorf("cannot start child: %v", err)
					return
				}
				go func() { done <- cmd.Wait() }()
				var werr error
				killed := false
				select {
				case werr = <-done:
				case <-time.After(total + 60*time.Second):
					cmd.Process.Kill()
					werr = <-done
					killed = true
				}
				lines, started, ended, watchdog := verifAmlReadChildOut(of)
				mu.Lock()
				for _, ln := range lines {
					out.w.WriteString(ln)
					out.w.WriteByte('\n')
				}
				mu.Unlock()
				os.Remove(cf)
				os.Remove(of)
				if werr == nil && len(ended) == len(todo) {
					return
				}
				// the child died: find the culprit
				culprit := -1
				for i, c := range todo {
					if started[c.id] && !ended[c.id] {
						culprit = i
						break
					}
				}
				if culprit < 0 {
					// died outside a case (start-up failure): report once and stop this worker
					mu.Lock()
					out.Info("child-failure", "worker %d: child exited (%v) outside a case: %s", w, werr, verifAmlLast(stderr.String(), 600))
					mu.Unlock()
					t.Errorf("child exited outside a case: %v\n%s", werr, verifAmlLast(stderr.String(), 2000))
					return
				}
				c := todo[culprit]
				se := stderr.String()
				sig, what := prefix+":fatal-crash", "child process died"
				switch {
				case watchdog[c.id] || killed:
					sig, what = prefix+":hang", fmt.Sprintf("no result within %v", budget(c))
				case strings.Contains(se, "stack overflow") || strings.Contains(se, "stack exceeds"):
					sig, what = prefix+":fatal-stack-overflow", "Go stack overflow (fatal, not recoverable)"
				case strings.Contains(se, "out of memory") || strings.Contains(se, "cannot allocate"):
					sig, what = prefix+":fatal-out-of-memory", "out of memory"
				}
				mu.Lock()
				deaths++
				out.Obs(c.id, []uint64{verifAmlFatal})
				out.Mon(c.id, sig, "%s (%v): %s", what, werr, verifAmlLast(verifAmlFirstLines(se, 6), 400))
				mu.Unlock()
				todo = todo[culprit+1:]
				_ = round
			}
		}(w, chunks[w])
	}
	wg.Wait()
	out.Info("children", "workers=%d child-deaths=%d cases=%d", workers, deaths, len(cases))
}

type verifAmlTail struct {
	mu sync.Mutex
	b  *strings.Builder
}

func (w *verifAmlTail) Write(p []byte) (int, error) {
	w.mu.Lock()
	defer w.mu.Unlock()
	if w.b.Len() < 1<<16 { // a stack overflow trace is huge; the head is what names the cause
		w.b.Write(p)
	}
	return len(p), nil
}

func verifAmlLast(s string, n int) string {
	if len(s) > n {
		s = s[:n]
	}
	return strings.Replace(s, "\n", " | ", -1)
}

func verifAmlFirstLines(s string, n int) string {
	ls := strings.SplitN(s, "\n", n+1)
	if len(ls) > n {
		ls = ls[:n]
	}
	return strings.Join(ls, "\n")
}

func verifAmlWriteCases(path string, cs []verifCase) {
	f, err := os.Create(path)
	if err != nil {
		panic(err)
	}
	w := bufio.NewWriterSize(f, 1<<20)
	for _, c := range cs {
		w.WriteString(strconv.Itoa(c.id))
		for _, v := range c.nums {
			w.WriteByte(' ')
			w.WriteString(strconv.FormatUint(v, 16))
		}
		w.WriteByte('\n')
	}
	w.Flush()
	f.Close()
}

func verifAmlReadChildOut(path string) (lines []string, started, ended, watchdog map[int]bool) {
	started, ended, watchdog = map[int]bool{}, map[int]bool{}, map[int]bool{}
	f, err := os.Open(path)
	if err != nil {
		return
	}
	defer f.Close()
	sc := bufio.NewScanner(f)
	sc.Buffer(make([]byte, 1<<20), 1<<28)
	var pending []string
	cur := -1
	for sc.Scan() {
		ln := sc.Text()
		if len(ln) < 2 {
			continue
		}
		switch ln[0] {
		case 'S':
			cur, _ = strconv.Atoi(strings.TrimSpace(ln[1:]))
			started[cur] = true
			pending = pending[:0]
		case 'E':
			id, _ := strconv.Atoi(strings.TrimSpace(ln[1:]))
			ended[id] = true
			lines = append(lines, pending...)
			pending = pending[:0]
			cur = -1
		case 'T':
			id, _ := strconv.Atoi(strings.TrimSpace(ln[1:]))
			watchdog[id] = true
		case 'I':
			lines = append(lines, ln)
		default:
			// O / M lines of an unfinished case are dropped: the parent writes the verdict itself
			pending = append(pending, ln)
		}
	}
	return
}

func verifAmlChild(budget func(c verifCase) time.Duration, runCase func(out *verifOut, c verifCase)) {
	debug.SetMaxStack(64 << 20)
	// address-space cap (the ulimit -v of the design): a runaway allocation kills the child, not the machine
	lim := syscall.Rlimit{Cur: 6 << 30, Max: 6 << 30}
	_ = syscall.Setrlimit(syscall.RLIMIT_AS, &lim)
	cases := verifReadCases()
	out := verifOpenOut()
	defer out.Close()
	var mu sync.Mutex
	for _, c := range cases {
		fmt.Fprintf(out.w, "S %d\n", c.id)
		out.Flush()
		stop := make(chan struct{})
		go func(c verifCase) {
			select {
			case <-stop:
			case <-time.After(budget(c)):
				mu.Lock()
				f, err := os.OpenFile(os.Getenv("VERIF_OUT"), os.O_APPEND|os.O_WRONLY, 0644)
				if err == nil {
					fmt.Fprintf(f, "\nT %d\n", c.id)
					f.Close()
				}
				os.Exit(3)
			}
		}(c)
		runCase(out, c)
		mu.Lock()
		close(stop)
		fmt.Fprintf(out.w, "E %d\n", c.id)
		out.Flush()
		mu.Unlock()
	}
}

// verifAmlBytes converts numbers to bytes (values above 0xff are truncated).
func verifAmlBytes(ns []uint64) []byte {
	b := make([]byte, len(ns))
	for i, v := range ns {
		b[i] = byte(v)
	}
	return b
}

// verifAmlSortedKeys is a small helper for stable Info output.
func verifAmlSortedKeys(m map[string]int) []string {
	var ks []string
	for k := range m {
		ks = append(ks, k)
	}
	sort.Strings(ks)
	return ks
}
