//go:build verif
// +build verif

package aml

import (
	"fmt"
	"os"
	"testing"
)

// TestVerifDumpConstsTree is the translator front end for the object-tree side of package aml
// (property C13): the constants obj_tree.go depends on, evaluated by the Go compiler from the
// current sources; lib/vlib.py turns the lines into Gen/Consts_aml_tree.v.
func TestVerifDumpConstsTree(t *testing.T) {
	f, err := os.Create(os.Getenv("VERIF_OUT"))
	if err != nil {
		t.Fatal(err)
	}
	defer f.Close()
	p := func(name string, v uint64) { fmt.Fprintf(f, "tree_%s N 0x%x\n", name, v) }
	p("InvalidIndex", uint64(InvalidIndex))
	p("amlNameLen", uint64(amlNameLen))
	p("pOpIntFreedObject", uint64(pOpIntFreedObject))
	p("pOpIntScopeBlock", uint64(pOpIntScopeBlock))
	p("pOpScope", uint64(pOpScope))
	p("pOpFlagNamed", uint64(pOpFlagNamed))
	p("badOpcode", uint64(badOpcode))
	p("opcodeTableLen", uint64(len(pOpcodeTable)))
	fmt.Fprintf(f, "tree_opcodeTableFlags LN")
	for _, e := range pOpcodeTable {
		fmt.Fprintf(f, " 0x%x", uint8(e.flags))
	}
	fmt.Fprintf(f, "\ntree_opcodeTableOps LN")
	for _, e := range pOpcodeTable {
		fmt.Fprintf(f, " 0x%x", e.op)
	}
	fmt.Fprintf(f, "\ntree_opcodeMap LN")
	for _, v := range opcodeMap {
		fmt.Fprintf(f, " 0x%x", v)
	}
	fmt.Fprintf(f, "\ntree_extendedOpcodeMap LN")
	for _, v := range extendedOpcodeMap {
		fmt.Fprintf(f, " 0x%x", v)
	}
	fmt.Fprintf(f, "\n")
	// the default scopes created by CreateDefaultScopes, as name bytes (root first)
	tree := NewObjectTree()
	tree.CreateDefaultScopes(0)
	fmt.Fprintf(f, "tree_defaultScopeNames LLN")
	for i, o := range tree.objPool {
		if i != 0 {
			fmt.Fprintf(f, " |")
		}
		fmt.Fprintf(f, " %d %d %d %d", o.name[0], o.name[1], o.name[2], o.name[3])
	}
	fmt.Fprintf(f, "\n")
}
