//go:build verif
// +build verif

package aml

import (
	"fmt"
	"reflect"
	"sort"
	"strings"
	"testing"
	"time"
	"unsafe"
)

// TestVerifC11 parses grammar-generated well-formed programs with the real parser.
//
//	case: features ntables (len bytes...)* nexpected (len nums...)* ast...
//
// "expected" is the namespace the specification ns assigns to the program (computed by the
// generator from the AST, re-computed by the extracted Coq specification: the model prints its own
// ns(p) at the place where this harness echoes the expected listing, so a difference between the
// two specifications is a correspondence mismatch).
//
// Observation: 1 1, the expected listing, outcome class, canonical tree dump, namespace view.
// MONITOR: the namespace view of the real tree (read through the nested ScopeBlocks the way the
// kernel would) must equal the expected listing: every named object at its absolute path with its
// kind and arguments in order, values of constants / strings / buffers / field units, every call
// with its callee and exactly the declared number of arguments.
func TestVerifC11(t *testing.T) {
	verifAmlRun(t, "TestVerifC11", "c11", func(c verifCase) time.Duration {
		return 4*time.Second + time.Duration(len(c.nums))*400*time.Microsecond
	}, verifC11Case)
}

const (
	verifC11FeatPathThroughDevice = 1
	verifC11FeatCaretInDevice     = 2
	verifC11TokNameRef            = 0x300
	verifC11TokCall               = 0x301
)

func verifC11Case(out *verifOut, c verifCase) {
	cur := &verifCur{n: c.nums}
	features := cur.Next()
	nt := int(cur.Next())
	var payloads [][]byte
	for i := 0; i < nt; i++ {
		payloads = append(payloads, verifAmlBytes(cur.List()))
	}
	nexp := int(cur.Next())
	var expected [][]uint64
	expFlat := []uint64{uint64(nexp)}
	for i := 0; i < nexp; i++ {
		e := cur.List()
		expected = append(expected, e)
		expFlat = append(expFlat, uint64(len(e)))
		expFlat = append(expFlat, e...)
	}
	obs := append([]uint64{1, 1}, expFlat...) // encode(ast) = bytes and wf_program(ast): decided by the model, expected true

	res := verifAmlParse(payloads)
	defer res.release()
	obs = append(obs, uint64(res.class))
	sig := func(s string) string {
		switch {
		case features&verifC11FeatPathThroughDevice != 0:
			return "c11:path-through-non-scopeblock"
		case features&verifC11FeatCaretInDevice != 0:
			return "c11:caret-in-device-scope"
		case features&4 != 0:
			return "c11:noncanonical-multiname"
		case features&8 != 0:
			return "c11:if-without-body"
		case features&16 != 0:
			return "c11:named-object-operator-arg"
		case features&32 != 0:
			return "c11:path-inside-named-object-arg"
		case features&64 != 0:
			return "c11:deferred-block-truncated"
		case features&128 != 0:
			return "c11:empty-buffer-in-deferred-block"
		}
		return s
	}
	switch res.class {
	case verifAmlPanic:
		out.Mon(c.id, sig("c11:panic:"+verifAmlPanicSite(res.panicMsg, res.stack)), "table %d: ParseAML panicked on a well-formed program: %s", res.failedAt, res.panicMsg)
		out.Obs(c.id, obs)
		return
	case verifAmlErr:
		out.Mon(c.id, sig("c11:parse-error"), "table %d: a well-formed program was rejected with a parse error: %s", res.failedAt, res.errLog)
		out.Obs(c.id, obs)
		return
	}
	order, problem := verifAmlCheckLinks(res.tree)
	if problem != "" {
		out.Mon(c.id, sig("c11:tree-links"), "%s", problem)
		out.Obs(c.id, append(obs, 0xbad))
		return
	}
	dump, _ := verifAmlDump(res.tree, order, res.tables)
	obs = append(obs, dump...)

	view, verr := verifC11View(res.tree)
	if verr != "" {
		out.Mon(c.id, sig("c11:view"), "cannot read the namespace: %s", verr)
	} else if msg := verifC11Compare(expected, view); msg != "" {
		out.Mon(c.id, sig("c11:namespace-mismatch"), "%s", msg)
	}
	// the (sorted) view is part of the observation: the model computes it with Aml/View.v
	if verr == "" {
		obs = append(obs, uint64(len(view)))
		for _, e := range view {
			obs = append(obs, uint64(len(e)))
			obs = append(obs, e...)
		}
	} else {
		obs = append(obs, 0xbadbad)
	}
	out.Obs(c.id, obs)
}

func verifC11Less(a, b []uint64) bool {
	for i := 0; i < len(a) && i < len(b); i++ {
		if a[i] != b[i] {
			return a[i] < b[i]
		}
	}
	return len(a) < len(b)
}

func verifC11Compare(expected, view [][]uint64) string {
	sort.Slice(view, func(i, j int) bool { return verifC11Less(view[i], view[j]) })
	// expected is sorted by the generator; sort again to be independent of it
	exp := append([][]uint64(nil), expected...)
	sort.Slice(exp, func(i, j int) bool { return verifC11Less(exp[i], exp[j]) })
	i, j := 0, 0
	for i < len(exp) && j < len(view) {
		if reflect.DeepEqual(exp[i], view[j]) {
			i++
			j++
			continue
		}
		if verifC11Less(exp[i], view[j]) {
			return fmt.Sprintf("expected entry %s is missing; closest entry of the tree: %s", verifC11Show(exp[i]), verifC11Show(view[j]))
		}
		return fmt.Sprintf("the tree has entry %s which the program does not declare; next expected: %s", verifC11Show(view[j]), verifC11Show(exp[i]))
	}
	if i < len(exp) {
		return fmt.Sprintf("expected entry %s is missing (tree has %d entries, expected %d)", verifC11Show(exp[i]), len(view), len(exp))
	}
	if j < len(view) {
		return fmt.Sprintf("the tree has entry %s which the program does not declare (tree has %d entries, expected %d)", verifC11Show(view[j]), len(view), len(exp))
	}
	return ""
}

func verifC11SegStr(v uint64) string {
	b := []byte{byte(v >> 24), byte(v >> 16), byte(v >> 8), byte(v)}
	for i, c := range b {
		if c < 0x20 || c > 0x7e {
			b[i] = '?'
		}
	}
	return string(b)
}

func verifC11Show(e []uint64) string {
	var sb strings.Builder
	if len(e) >= 2 && int(e[1]) <= len(e)-2 {
		kind := map[uint64]string{1: "object", 2: "statement in", 3: "unresolved in"}[e[0]]
		sb.WriteString(kind + " \\")
		for i := 0; i < int(e[1]); i++ {
			if i > 0 {
				sb.WriteByte('.')
			}
			sb.WriteString(verifC11SegStr(e[2+i]))
		}
		sb.WriteString(" :")
		for _, v := range e[2+int(e[1]):] {
			fmt.Fprintf(&sb, " %x", v)
			if sb.Len() > 500 {
				sb.WriteString(" ...")
				break
			}
		}
		return sb.String()
	}
	return fmt.Sprint(e)
}

// ---- the namespace view of the real tree --------------------------------------------------------

type verifC11Viewer struct {
	tree    *ObjectTree
	known   map[string]bool // absolute paths of the named objects (key: segs as string)
	entries [][]uint64
	err     string
}

func verifC11Name32(o *Object) uint64 {
	return uint64(o.name[0])<<24 | uint64(o.name[1])<<16 | uint64(o.name[2])<<8 | uint64(o.name[3])
}

func verifC11Key(p []uint64) string {
	var sb strings.Builder
	for _, s := range p {
		sb.WriteString(verifC11SegStr(s))
		fmt.Fprintf(&sb, "%08x.", s)
	}
	return sb.String()
}

func verifC11IsDecl(op uint16) bool {
	switch op {
	case pOpDevice, pOpThermalZone, pOpProcessor, pOpPowerRes, pOpMethod, pOpName, pOpOpRegion, pOpMutex, pOpEvent, pOpIntNamedField:
		return true
	}
	return false
}

func verifC11IsFieldContainer(op uint16) bool {
	return op == pOpField || op == pOpIndexField || op == pOpBankField
}

func (v *verifC11Viewer) kids(o *Object) []*Object {
	var ks []*Object
	for i := o.firstArgIndex; i != InvalidIndex; {
		k := v.tree.objPool[i]
		ks = append(ks, k)
		i = k.nextSiblingIndex
	}
	return ks
}

func (v *verifC11Viewer) isZeroNameScopeBlock(o *Object) bool {
	return o.opcode == pOpIntScopeBlock && o.name == [amlNameLen]byte{}
}

// objPath: the absolute namespace path of a named object: nested ScopeBlocks are transparent.
func (v *verifC11Viewer) objPath(o *Object) []uint64 {
	var rev []uint64
	for cur := o; cur != nil && cur.index != 0; {
		if !v.isZeroNameScopeBlock(cur) {
			rev = append(rev, verifC11Name32(cur))
		}
		if cur.parentIndex == InvalidIndex {
			break
		}
		cur = v.tree.objPool[cur.parentIndex]
	}
	p := make([]uint64, len(rev))
	for i := range rev {
		p[len(rev)-1-i] = rev[i]
	}
	return p
}

// collect: first pass, the set of absolute paths of all named objects
func (v *verifC11Viewer) collect(scope *Object, path []uint64) {
	for _, c := range v.kids(scope) {
		if c.opcode == pOpIntScopeBlock && !v.isZeroNameScopeBlock(c) {
			p := append(append([]uint64(nil), path...), verifC11Name32(c))
			v.known[verifC11Key(p)] = true
			v.collect(c, p)
			continue
		}
		if !verifC11IsDecl(c.opcode) {
			continue
		}
		p := append(append([]uint64(nil), path...), verifC11Name32(c))
		v.known[verifC11Key(p)] = true
		for _, k := range v.kids(c) {
			if k.opcode == pOpIntScopeBlock {
				v.collect(k, p)
			}
		}
	}
}

// resolveRaw applies the ACPI lookup rules to a raw name string seen from scope path `scope`
// over the set of known paths (independent of ObjectTree.Find).
func (v *verifC11Viewer) resolveRaw(scope []uint64, raw []byte) ([]uint64, bool) {
	i := 0
	root := false
	carets := 0
	for i < len(raw) && (raw[i] == '\\' || raw[i] == '^') {
		if raw[i] == '\\' {
			root = true
		} else {
			carets++
		}
		i++
	}
	var segs []uint64
	rest := raw[i:]
	n := 0
	switch {
	case len(rest) == 0:
		n = 0
	case rest[0] == 0x2e:
		n, rest = 2, rest[1:]
	case rest[0] == 0x2f && len(rest) >= 2:
		n, rest = int(rest[1]), rest[2:]
	default:
		n = 1
	}
	if len(rest) != 4*n {
		return nil, false
	}
	for k := 0; k < n; k++ {
		segs = append(segs, uint64(rest[4*k])<<24|uint64(rest[4*k+1])<<16|uint64(rest[4*k+2])<<8|uint64(rest[4*k+3]))
	}
	start := scope
	if root {
		start = nil
	} else if carets > len(scope) {
		return nil, false
	} else {
		start = scope[:len(scope)-carets]
	}
	if !root && carets == 0 && len(segs) == 1 {
		for s := len(scope); s >= 0; s-- {
			p := append(append([]uint64(nil), scope[:s]...), segs[0])
			if v.known[verifC11Key(p)] {
				return p, true
			}
		}
		return nil, false
	}
	p := append(append([]uint64(nil), start...), segs...)
	if len(p) == 0 || v.known[verifC11Key(p)] {
		return p, true
	}
	return nil, false
}

func verifC11Path(p []uint64) []uint64 {
	return append([]uint64{uint64(len(p))}, p...)
}

func (v *verifC11Viewer) bytesOf(o *Object) ([]byte, bool) {
	b, ok := o.value.([]byte)
	return b, ok
}

// argument types of the opcode's args that produce a child (everything but PkgLen)
func verifC11ArgTypes(o *Object) []pArgType {
	if int(o.infoIndex) >= len(pOpcodeTable) {
		return nil
	}
	fl := pOpcodeTable[o.infoIndex].argFlags
	var ts []pArgType
	for i := uint8(0); i < fl.argCount(); i++ {
		if t := fl.arg(i); t != pArgTypePkgLen {
			ts = append(ts, t)
		}
	}
	return ts
}

// exprKids: children with nested ScopeBlocks spliced in and null targets dropped
func (v *verifC11Viewer) exprKids(o *Object) []*Object {
	types := verifC11ArgTypes(o)
	var out []*Object
	for i, k := range v.kids(o) {
		if k.opcode == pOpIntScopeBlock {
			out = append(out, v.kids(k)...)
			continue
		}
		if k.opcode == pOpZero && i < len(types) && (types[i] == pArgTypeTarget || types[i] == pArgTypeSuperName || types[i] == pArgTypeSimpleName) {
			continue // NullName target
		}
		out = append(out, k)
	}
	return out
}

func (v *verifC11Viewer) renderExpr(o *Object, scope []uint64) []uint64 {
	switch o.opcode {
	case pOpIntResolvedNamePath:
		idx, ok := o.value.(uint32)
		if !ok || idx >= uint32(len(v.tree.objPool)) {
			v.err = "resolved name path without a target"
			return nil
		}
		return append([]uint64{verifC11TokNameRef, 1}, verifC11Path(v.objPath(v.tree.objPool[idx]))...)
	case pOpIntNamePath, pOpIntNamePathOrMethodCall:
		raw, ok := v.bytesOf(o)
		if !ok {
			v.err = "name path without a name"
			return nil
		}
		if p, ok := v.resolveRaw(scope, raw); ok && len(raw) > 0 {
			return append([]uint64{verifC11TokNameRef, 1}, verifC11Path(p)...)
		}
		t := []uint64{verifC11TokNameRef, 0, uint64(len(raw))}
		for _, b := range raw {
			t = append(t, uint64(b))
		}
		return t
	case pOpIntMethodCall:
		idx, ok := o.value.(uint32)
		if !ok || idx >= uint32(len(v.tree.objPool)) {
			v.err = "method call without a target"
			return nil
		}
		ks := v.exprKids(o)
		t := append([]uint64{verifC11TokCall}, verifC11Path(v.objPath(v.tree.objPool[idx]))...)
		t = append(t, uint64(len(ks)))
		for _, k := range ks {
			t = append(t, v.renderExpr(k, scope)...)
		}
		return t
	}
	t := []uint64{uint64(o.opcode)}
	switch val := o.value.(type) {
	case nil:
		t = append(t, 0)
	case uint64:
		t = append(t, 1, val)
	case []byte:
		t = append(t, 2, uint64(len(val)))
		for _, b := range val {
			t = append(t, uint64(b))
		}
	default:
		t = append(t, 9)
	}
	ks := v.exprKids(o)
	t = append(t, uint64(len(ks)))
	for _, k := range ks {
		t = append(t, v.renderExpr(k, scope)...)
	}
	return t
}

func (v *verifC11Viewer) renderStmt(o *Object, scope []uint64) []uint64 {
	switch o.opcode {
	case pOpIf, pOpElse, pOpWhile:
		t := []uint64{uint64(o.opcode)}
		for _, k := range v.kids(o) {
			if k.opcode == pOpIntScopeBlock {
				for _, s := range v.kids(k) {
					t = append(t, v.renderStmt(s, scope)...)
				}
			} else {
				t = append(t, v.renderStmt(k, scope)...)
			}
		}
		return t
	}
	return v.renderExpr(o, scope)
}

// walk: second pass. scope = a ScopeBlock (root, default scope or the nested block of a scoped object)
func (v *verifC11Viewer) walk(scope *Object, path []uint64, methodEntry *[]uint64) {
	for _, c := range v.kids(scope) {
		switch {
		case c.opcode == pOpIntScopeBlock && !v.isZeroNameScopeBlock(c):
			v.walk(c, append(append([]uint64(nil), path...), verifC11Name32(c)), nil)
		case c.opcode == pOpIntNamedField:
			fe, ok := c.value.(*fieldElement)
			if !ok {
				v.err = "named field without field element"
				return
			}
			p := append(append([]uint64(nil), path...), verifC11Name32(c))
			e := append([]uint64{1}, verifC11Path(p)...)
			var kind, conn uint64
			if fe.fieldIndex < uint32(len(v.tree.objPool)) {
				cont := v.tree.objPool[fe.fieldIndex]
				kind = uint64(cont.opcode)
				if fe.connectionIndex != InvalidIndex {
					n := uint64(0)
					for _, k := range v.kids(cont) {
						if k.opcode == pOpIntConnection {
							n++
							if k.index == fe.connectionIndex {
								conn = n
							}
						}
					}
					if conn == 0 {
						conn = 0xffff // refers to a connection that is not a child of its field
					}
				}
			}
			e = append(e, uint64(pOpIntNamedField), kind, uint64(fe.offset), uint64(fe.width), uint64(fe.accessLength), uint64(fe.accessType),
				uint64(fe.accessAttrib), uint64(fe.lockType), uint64(fe.updateType), conn)
			v.entries = append(v.entries, e)
		case verifC11IsDecl(c.opcode):
			p := append(append([]uint64(nil), path...), verifC11Name32(c))
			e := append([]uint64{1}, verifC11Path(p)...)
			e = append(e, uint64(c.opcode))
			ks := v.kids(c)
			if len(ks) == 0 || ks[0].opcode != pOpIntNamePath {
				v.err = fmt.Sprintf("named object %s without a name argument", verifC11SegStr(verifC11Name32(c)))
				return
			}
			argScope := path
			if c.opcode == pOpMethod {
				argScope = p
			}
			for _, k := range ks[1:] {
				if k.opcode == pOpIntScopeBlock {
					if c.opcode == pOpMethod {
						v.walk(k, p, &e)
					} else {
						v.walk(k, p, nil)
					}
				} else {
					e = append(e, v.renderExpr(k, argScope)...)
				}
			}
			v.entries = append(v.entries, e)
		case c.opcode == pOpScope:
			v.entries = append(v.entries, append([]uint64{3}, verifC11Path(path)...))
		default:
			if methodEntry != nil && !verifC11IsFieldContainer(c.opcode) {
				*methodEntry = append(*methodEntry, v.renderStmt(c, path)...)
			} else {
				e := append([]uint64{2}, verifC11Path(path)...)
				e = append(e, v.renderStmt(c, path)...)
				v.entries = append(v.entries, e)
			}
		}
		if v.err != "" {
			return
		}
	}
}

func verifC11View(tree *ObjectTree) ([][]uint64, string) {
	v := &verifC11Viewer{tree: tree, known: map[string]bool{}}
	root := tree.objPool[0]
	v.known[verifC11Key(nil)] = true
	v.collect(root, nil)
	v.walk(root, nil, nil)
	return v.entries, v.err
}

var _ = unsafe.Sizeof(0)
