//go:build verif
// +build verif

package aml

import (
	"fmt"
	"reflect"
	"runtime/debug"
	"strings"
	"syscall"
	"testing"
	"time"
	"unsafe"
)

// TestVerifC12 feeds byte strings to the real lexer functions and to ParseAML.
//
//	case kind 0 (lexer): 0 fn pkgEnd offset arg bytes...      (see Aml/Lex.v run_lex)
//	case kind 1 (parse): 1 ntables (len bytes...)*            (payloads; the harness adds the header)
//	case kind 2        : like 1 but monitors only, empty observation
//
// Everything runs in child processes (verifAmlRun): a Go stack overflow is fatal.
//
// Observation of a parse case: outcome class, and on success the canonical tree dump
// (the (start,len) of every []byte relative to its table is part of the dump).
// MONITOR (independent of the model), exactly what C12 states:
//   - the outcome is "ok" or "parse error": no panic, no fatal crash, no hang (watchdog
//     proportional to the input length);
//   - every []byte the tree refers to lies inside its table; no read leaves the table
//     (guard page behind the table) or, at lexer level, the current package (guard page at pkgEnd);
//   - the pool links describe a tree (independent link checker);
//   - PrettyPrint to a discarding writer does not panic.
func TestVerifC12(t *testing.T) {
	verifAmlRun(t, "TestVerifC12", "c12", verifC12Budget, verifC12Case)
}

func verifC12Budget(c verifCase) time.Duration {
	// proportional to the input with a very generous constant (a 9 KB table parses in a few ms)
	return 4*time.Second + time.Duration(len(c.nums))*400*time.Microsecond
}

func verifC12Case(out *verifOut, c verifCase) {
	cur := &verifCur{n: c.nums}
	switch cur.Next() {
	case 0:
		verifC12Lex(out, c.id, cur)
	case 1, 2:
		// kind 2 = monitors only (no observation): large tables whose model run is too slow for the tier
		n := int(cur.Next())
		var payloads [][]byte
		for i := 0; i < n; i++ {
			payloads = append(payloads, verifAmlBytes(cur.List()))
		}
		verifC12Parse(out, c.id, payloads, c.nums[0] == 1)
	default:
		out.Obs(c.id, nil)
	}
}

func verifC12Parse(out *verifOut, id int, payloads [][]byte, observe bool) {
	res := verifAmlParse(payloads)
	defer res.release()
	total := 0
	for _, p := range payloads {
		total += len(p)
	}
	obs := []uint64{uint64(res.class)}
	suffix := ""
	switch res.class {
	case verifAmlPanic:
		site := verifAmlPanicSite(res.panicMsg, res.stack)
		if strings.HasSuffix(site, ":stray-read") {
			out.Mon(id, "c12:stray-read:"+strings.TrimSuffix(site, ":stray-read"), "table %d: read outside the table: %s", res.failedAt, res.panicMsg)
		} else {
			out.Mon(id, "c12:panic:"+site, "table %d: ParseAML panicked: %s", res.failedAt, res.panicMsg)
		}
		if !observe {
			obs = nil
		}
		out.Obs(id, obs)
		return
	case verifAmlErr:
		suffix = "-after-error"
	}
	// time bound proportional to the input (the watchdog catches real hangs; this catches "slow")
	// (CPU time of the child, so that a loaded machine does not raise a false alarm)
	if lim := time.Second + time.Duration(total)*100*time.Microsecond; res.cpu > lim {
		out.Mon(id, "c12:slow", "parsing %d bytes took %v of CPU time (limit %v, wall %v)", total, res.cpu, lim, res.elapsed)
	}
	order, problem := verifAmlCheckLinks(res.tree)
	if problem != "" {
		out.Mon(id, "c12:tree-links"+suffix, "%s", problem)
		if observe {
			out.Obs(id, append(obs, 0xbad))
		} else {
			out.Obs(id, nil)
		}
		return
	}
	dump, slices := verifAmlDump(res.tree, order, res.tables)
	stray := false
	for _, s := range slices {
		if !s.inside {
			stray = true
			out.Mon(id, "c12:slice-outside-table"+suffix, "object %d (table %d): []byte start=%#x len=%d nil=%v is not inside the table", s.obj, s.handle, s.start, s.length, s.isNil)
			break
		}
	}
	if !stray {
		if msg := verifAmlPrettyPrint(res.tree); msg != "" {
			out.Mon(id, "c12:prettyprint-panic"+suffix, "PrettyPrint panicked: %s", msg)
		}
	}
	if res.class == verifAmlOk {
		obs = append(obs, dump...)
	}
	if !observe {
		obs = nil
	}
	out.Obs(id, obs)
}

// ---- lexer level ---------------------------------------------------------------------------------

func verifC12SliceObs(v []byte) []uint64 {
	h := (*reflect.SliceHeader)(unsafe.Pointer(&v))
	return []uint64{uint64(h.Data), uint64(h.Len)}
}

// verifC12LexRun runs lexer function fn on a reader over mem[0:dataLen) (dataLen is what the reader
// is told; the accessible part may be shorter when a guard page is used).
func verifC12LexRun(base uintptr, dataLen uint32, fn, pkgEnd, offset, arg uint64) (obs []uint64, panicMsg string) {
	defer debug.SetPanicOnFault(debug.SetPanicOnFault(true))
	defer func() {
		if r := recover(); r != nil {
			obs = []uint64{verifAmlPanic}
			panicMsg = fmt.Sprint(r)
		}
	}()
	p := &Parser{}
	p.r.Init(base, dataLen, 0)
	_ = p.r.SetPkgEnd(uint32(pkgEnd))
	p.r.SetOffset(uint32(offset))
	b2u := func(ok bool) uint64 {
		if ok {
			return 1
		}
		return 0
	}
	sl := func(v []byte, res parseResult) []uint64 {
		h := (*reflect.SliceHeader)(unsafe.Pointer(&v))
		if h.Data == 0 {
			return []uint64{0, b2u(res == parseResultOk), 0, 0, uint64(h.Len)}
		}
		return []uint64{0, b2u(res == parseResultOk), 1, uint64(h.Data - base), uint64(h.Len)}
	}
	switch fn {
	case 0:
		v, res := p.parsePkgLength()
		obs = []uint64{0, b2u(res == parseResultOk), uint64(v)}
	case 1:
		v, res := p.parseNumConstant(uint8(arg & 0xf))
		obs = []uint64{0, b2u(res == parseResultOk), v}
	case 2:
		v, res := p.parseString()
		obs = sl(v, res)
	case 3:
		v, res := p.parseNameString()
		obs = sl(v, res)
	case 4:
		v, res := p.nextOpcode()
		obs = []uint64{0, b2u(res == parseResultOk), uint64(v)}
	case 5:
		v, res := p.peekNextOpcode()
		obs = []uint64{0, b2u(res == parseResultOk), uint64(v)}
	case 6:
		v, err := p.r.ReadByte()
		obs = []uint64{0, b2u(err == nil), uint64(v)}
	case 7:
		err := p.r.UnreadByte()
		obs = []uint64{0, b2u(err == nil), 0}
	case 8:
		ptr := p.r.DataPtr()
		if ptr == 0 {
			obs = []uint64{0, 1, 0, 0, 0}
		} else {
			obs = []uint64{0, 1, 1, uint64(ptr - base), 0}
		}
	case 9:
		v, err := p.r.LastByte()
		obs = []uint64{0, b2u(err == nil), uint64(v)}
	default:
		return nil, ""
	}
	obs = append(obs, uint64(p.r.offset), uint64(p.r.pkgEnd))
	return obs, ""
}

func verifC12Lex(out *verifOut, id int, cur *verifCur) {
	fn, pkgEnd, offset, arg := cur.Next(), cur.Next(), cur.Next(), cur.Next()
	data := verifAmlBytes(cur.n[cur.i:])
	// 1. observation: plain copy (followed by a guard page: a read past the data faults)
	buf, mapping := verifAmlGuarded(len(data) + 1) // +1: a valid base address also for empty data
	// place the data so that its END abuts the guard page
	copy(buf[1:], data)
	base := uintptr(unsafe.Pointer(&buf[0]))
	if len(data) != 0 {
		base++
	}
	obs, pmsg := verifC12LexRun(base, uint32(len(data)), fn, pkgEnd, offset, arg)
	if pmsg != "" {
		if strings.Contains(pmsg, "unexpected fault address") {
			out.Mon(id, "c12:lex-read-past-table", "lexer fn %d read outside the table: %s", fn, pmsg)
		} else {
			out.Mon(id, "c12:lex-panic", "lexer fn %d panicked: %s", fn, pmsg)
		}
	}
	// slices returned must lie inside the table
	if len(obs) >= 5 && (fn == 2 || fn == 3) && obs[0] == 0 && obs[4] != 0 {
		if obs[2] == 0 || obs[3]+obs[4] > uint64(len(data)) {
			out.Mon(id, "c12:lex-slice-outside-table", "lexer fn %d returned []byte nonnil=%d start=%#x len=%d for a table of %d bytes", fn, obs[2], obs[3], obs[4], len(data))
		}
	}
	if mapping != nil {
		_ = syscall.Munmap(mapping)
	}
	// 2. monitor "every read is below pkgEnd": only data[0:pkgEnd) is accessible, the reader is
	//    still told the full length
	pe := pkgEnd
	if pe > uint64(len(data)) {
		pe = uint64(len(data)) // SetPkgEnd fails, the window stays at len
	}
	if pe < uint64(len(data)) && fn != 9 && fn != 7 {
		buf2, mapping2 := verifAmlGuarded(int(pe) + 1)
		if mapping2 != nil {
			copy(buf2[1:], data[:pe])
			base2 := uintptr(unsafe.Pointer(&buf2[0])) + 1
			_, pmsg2 := verifC12LexRun(base2, uint32(len(data)), fn, pkgEnd, offset, arg)
			if strings.Contains(pmsg2, "unexpected fault address") {
				out.Mon(id, "c12:lex-read-past-pkgend", "lexer fn %d (pkgEnd %d, offset %d) read a byte at or beyond pkgEnd: %s", fn, pkgEnd, offset, pmsg2)
			}
			_ = syscall.Munmap(mapping2)
		}
	}
	out.Obs(id, obs)
}
