//go:build verif
// +build verif

package aml

import (
	"fmt"
	"os"
	"testing"
	"unsafe"

	"github.com/ProjectSerenity/firefly/kernel/device/acpi/table"
)

// TestVerifDumpConsts is the translator front end for package aml (parser side): the Go
// compiler evaluates the opcode constants, the opcode table, the two opcode maps and the
// truth tables of the opcode predicates; lib/vlib.py turns the lines into
// Gen/Consts_device_acpi_aml.v.  (The tree side has its own dump, owned by C13.)
func TestVerifDumpConsts(t *testing.T) {
	f, err := os.Create(os.Getenv("VERIF_OUT"))
	if err != nil {
		t.Fatal(err)
	}
	defer f.Close()
	p := func(name string, v uint64) { fmt.Fprintf(f, "aml_%s N 0x%x\n", name, v) }

	ops := []struct {
		n string
		v uint16
	}{
		{"pOpZero", pOpZero}, {"pOpOne", pOpOne}, {"pOpAlias", pOpAlias}, {"pOpName", pOpName},
		{"pOpBytePrefix", pOpBytePrefix}, {"pOpWordPrefix", pOpWordPrefix}, {"pOpDwordPrefix", pOpDwordPrefix},
		{"pOpStringPrefix", pOpStringPrefix}, {"pOpQwordPrefix", pOpQwordPrefix}, {"pOpScope", pOpScope},
		{"pOpBuffer", pOpBuffer}, {"pOpPackage", pOpPackage}, {"pOpVarPackage", pOpVarPackage},
		{"pOpMethod", pOpMethod}, {"pOpExternal", pOpExternal},
		{"pOpLocal0", pOpLocal0}, {"pOpLocal1", pOpLocal1}, {"pOpLocal2", pOpLocal2}, {"pOpLocal3", pOpLocal3},
		{"pOpLocal4", pOpLocal4}, {"pOpLocal5", pOpLocal5}, {"pOpLocal6", pOpLocal6}, {"pOpLocal7", pOpLocal7},
		{"pOpArg0", pOpArg0}, {"pOpArg1", pOpArg1}, {"pOpArg2", pOpArg2}, {"pOpArg3", pOpArg3},
		{"pOpArg4", pOpArg4}, {"pOpArg5", pOpArg5}, {"pOpArg6", pOpArg6},
		{"pOpStore", pOpStore}, {"pOpRefOf", pOpRefOf}, {"pOpAdd", pOpAdd}, {"pOpConcat", pOpConcat},
		{"pOpSubtract", pOpSubtract}, {"pOpIncrement", pOpIncrement}, {"pOpDecrement", pOpDecrement},
		{"pOpMultiply", pOpMultiply}, {"pOpDivide", pOpDivide}, {"pOpShiftLeft", pOpShiftLeft},
		{"pOpShiftRight", pOpShiftRight}, {"pOpAnd", pOpAnd}, {"pOpNand", pOpNand}, {"pOpOr", pOpOr},
		{"pOpNor", pOpNor}, {"pOpXor", pOpXor}, {"pOpNot", pOpNot}, {"pOpFindSetLeftBit", pOpFindSetLeftBit},
		{"pOpFindSetRightBit", pOpFindSetRightBit}, {"pOpDerefOf", pOpDerefOf}, {"pOpConcatRes", pOpConcatRes},
		{"pOpMod", pOpMod}, {"pOpNotify", pOpNotify}, {"pOpSizeOf", pOpSizeOf}, {"pOpIndex", pOpIndex},
		{"pOpMatch", pOpMatch}, {"pOpCreateDWordField", pOpCreateDWordField}, {"pOpCreateWordField", pOpCreateWordField},
		{"pOpCreateByteField", pOpCreateByteField}, {"pOpCreateBitField", pOpCreateBitField},
		{"pOpObjectType", pOpObjectType}, {"pOpCreateQWordField", pOpCreateQWordField},
		{"pOpLand", pOpLand}, {"pOpLor", pOpLor}, {"pOpLnot", pOpLnot}, {"pOpLEqual", pOpLEqual},
		{"pOpLGreater", pOpLGreater}, {"pOpLLess", pOpLLess}, {"pOpToBuffer", pOpToBuffer},
		{"pOpToDecimalString", pOpToDecimalString}, {"pOpToHexString", pOpToHexString}, {"pOpToInteger", pOpToInteger},
		{"pOpToString", pOpToString}, {"pOpCopyObject", pOpCopyObject}, {"pOpMid", pOpMid},
		{"pOpContinue", pOpContinue}, {"pOpIf", pOpIf}, {"pOpElse", pOpElse}, {"pOpWhile", pOpWhile},
		{"pOpNoop", pOpNoop}, {"pOpReturn", pOpReturn}, {"pOpBreak", pOpBreak}, {"pOpBreakPoint", pOpBreakPoint},
		{"pOpOnes", pOpOnes},
		{"pOpMutex", pOpMutex}, {"pOpEvent", pOpEvent}, {"pOpCondRefOf", pOpCondRefOf}, {"pOpCreateField", pOpCreateField},
		{"pOpLoadTable", pOpLoadTable}, {"pOpLoad", pOpLoad}, {"pOpStall", pOpStall}, {"pOpSleep", pOpSleep},
		{"pOpAcquire", pOpAcquire}, {"pOpSignal", pOpSignal}, {"pOpWait", pOpWait}, {"pOpReset", pOpReset},
		{"pOpRelease", pOpRelease}, {"pOpFromBCD", pOpFromBCD}, {"pOpToBCD", pOpToBCD}, {"pOpUnload", pOpUnload},
		{"pOpRevision", pOpRevision}, {"pOpDebug", pOpDebug}, {"pOpFatal", pOpFatal}, {"pOpTimer", pOpTimer},
		{"pOpOpRegion", pOpOpRegion}, {"pOpField", pOpField}, {"pOpDevice", pOpDevice}, {"pOpProcessor", pOpProcessor},
		{"pOpPowerRes", pOpPowerRes}, {"pOpThermalZone", pOpThermalZone}, {"pOpIndexField", pOpIndexField},
		{"pOpBankField", pOpBankField}, {"pOpDataRegion", pOpDataRegion},
		{"pOpIntScopeBlock", pOpIntScopeBlock}, {"pOpIntByteList", pOpIntByteList}, {"pOpIntConnection", pOpIntConnection},
		{"pOpIntNamedField", pOpIntNamedField}, {"pOpIntResolvedNamePath", pOpIntResolvedNamePath},
		{"pOpIntNamePath", pOpIntNamePath}, {"pOpIntNamePathOrMethodCall", pOpIntNamePathOrMethodCall},
		{"pOpIntMethodCall", pOpIntMethodCall}, {"pOpIntFreedObject", pOpIntFreedObject},
	}
	for _, o := range ops {
		p(o.n, uint64(o.v))
	}

	p("badOpcode", uint64(badOpcode))
	p("extOpPrefix", uint64(extOpPrefix))
	p("amlNameLen", uint64(amlNameLen))
	p("maxResolvePasses", uint64(maxResolvePasses))
	p("InvalidIndex", uint64(InvalidIndex))
	p("sizeofSDTHeader", uint64(unsafe.Sizeof(table.SDTHeader{})))
	p("offsetofSDTLength", uint64(unsafe.Offsetof(table.SDTHeader{}.Length)))

	p("parseResultFailed", uint64(parseResultFailed))
	p("parseResultOk", uint64(parseResultOk))
	p("parseResultShortCircuit", uint64(parseResultShortCircuit))
	p("parseResultRequireExtraPass", uint64(parseResultRequireExtraPass))
	p("parseModeSkipAmbiguousBlocks", uint64(parseModeSkipAmbiguousBlocks))
	p("parseModeAllBlocks", uint64(parseModeAllBlocks))

	p("pOpFlagNamed", uint64(pOpFlagNamed))
	p("pOpFlagConstant", uint64(pOpFlagConstant))
	p("pOpFlagReference", uint64(pOpFlagReference))
	p("pOpFlagCreate", uint64(pOpFlagCreate))
	p("pOpFlagExecutable", uint64(pOpFlagExecutable))
	p("pOpFlagScoped", uint64(pOpFlagScoped))
	p("pOpFlagDeferParsing", uint64(pOpFlagDeferParsing))

	p("pArgTypeTermList", uint64(pArgTypeTermList))
	p("pArgTypeTermArg", uint64(pArgTypeTermArg))
	p("pArgTypeByteList", uint64(pArgTypeByteList))
	p("pArgTypeString", uint64(pArgTypeString))
	p("pArgTypeByteData", uint64(pArgTypeByteData))
	p("pArgTypeWordData", uint64(pArgTypeWordData))
	p("pArgTypeDwordData", uint64(pArgTypeDwordData))
	p("pArgTypeQwordData", uint64(pArgTypeQwordData))
	p("pArgTypeNameString", uint64(pArgTypeNameString))
	p("pArgTypeSuperName", uint64(pArgTypeSuperName))
	p("pArgTypeSimpleName", uint64(pArgTypeSimpleName))
	p("pArgTypeDataRefObj", uint64(pArgTypeDataRefObj))
	p("pArgTypeTarget", uint64(pArgTypeTarget))
	p("pArgTypeFieldList", uint64(pArgTypeFieldList))
	p("pArgTypePkgLen", uint64(pArgTypePkgLen))

	// the opcode table: one row per entry = op, flags, argFlags
	p("opcodeTableLen", uint64(len(pOpcodeTable)))
	fmt.Fprintf(f, "aml_opcodeTable LLN")
	for i, e := range pOpcodeTable {
		if i != 0 {
			fmt.Fprintf(f, " |")
		}
		fmt.Fprintf(f, " 0x%x 0x%x 0x%x", e.op, uint8(e.flags), uint64(e.argFlags))
	}
	fmt.Fprintf(f, "\n")
	// what the Go methods compute on each row: argCount and arg(0..6)
	fmt.Fprintf(f, "aml_opcodeArgCounts LN")
	for _, e := range pOpcodeTable {
		fmt.Fprintf(f, " %d", e.argFlags.argCount())
	}
	fmt.Fprintf(f, "\naml_opcodeArgTypes LLN")
	for i, e := range pOpcodeTable {
		if i != 0 {
			fmt.Fprintf(f, " |")
		}
		for k := uint8(0); k < 7; k++ {
			fmt.Fprintf(f, " %d", e.argFlags.arg(k))
		}
	}
	fmt.Fprintf(f, "\naml_opcodeNames RAW [")
	for i, e := range pOpcodeTable {
		if i != 0 {
			fmt.Fprintf(f, "; ")
		}
		fmt.Fprintf(f, "%q%%string", e.opName)
	}
	fmt.Fprintf(f, "]\n")

	fmt.Fprintf(f, "aml_opcodeMap LN")
	for _, v := range opcodeMap {
		fmt.Fprintf(f, " 0x%x", v)
	}
	fmt.Fprintf(f, "\naml_extendedOpcodeMap LN")
	for _, v := range extendedOpcodeMap {
		fmt.Fprintf(f, " 0x%x", v)
	}
	fmt.Fprintf(f, "\n")

	// truth tables over every opcode value the parser can produce (0 .. 0x1ff)
	b := func(x bool) int {
		if x {
			return 1
		}
		return 0
	}
	tt := func(name string, fn func(uint16) bool) {
		fmt.Fprintf(f, "aml_%s LN", name)
		for op := 0; op < 0x200; op++ {
			fmt.Fprintf(f, " %d", b(fn(uint16(op))))
		}
		fmt.Fprintf(f, "\n")
	}
	tt("isLocalArg", pOpIsLocalArg)
	tt("isMethodArg", pOpIsMethodArg)
	tt("isArg", pOpIsArg)
	tt("isType2", pOpIsType2)
	tt("isDataObject", pOpIsDataObject)
	// pOpcodeTableIndex(op, false) and (op, true) over the same range (0x1fe is the largest value
	// for which the Go function does not index out of range: extendedOpcodeMap[op-0xff])
	fmt.Fprintf(f, "aml_tableIndexNoInternal LN")
	for op := 0; op <= 0x1fe; op++ {
		fmt.Fprintf(f, " 0x%x", pOpcodeTableIndex(uint16(op), false))
	}
	fmt.Fprintf(f, "\naml_tableIndexInternal LN")
	for op := 0; op <= 0x1fe; op++ {
		fmt.Fprintf(f, " 0x%x", pOpcodeTableIndex(uint16(op), true))
	}
	fmt.Fprintf(f, "\n")
}
