//go:build verif
// +build verif

package acpi

import (
	"fmt"
	"os"
	"testing"
	"unsafe"

	"github.com/ProjectSerenity/firefly/kernel/device/acpi/table"
	"github.com/ProjectSerenity/firefly/kernel/mm"
	"github.com/ProjectSerenity/firefly/kernel/mm/vmm"
)

// TestVerifDumpConsts is the translator's front end for package device/acpi: the Go compiler
// evaluates the constants, struct sizes and field offsets of the current source tree and
// lib/vlib.py turns them into Gen/Consts_device_acpi.v.
func TestVerifDumpConsts(t *testing.T) {
	f, err := os.Create(os.Getenv("VERIF_OUT"))
	if err != nil {
		t.Fatal(err)
	}
	defer f.Close()
	p := func(name string, v uint64) { fmt.Fprintf(f, "%s N 0x%x\n", name, v) }
	le := func(b []byte) uint64 {
		var v uint64
		for i := len(b) - 1; i >= 0; i-- {
			v = v<<8 | uint64(b[i])
		}
		return v
	}

	p("acpi_rsdpLocationLow", uint64(rsdpLocationLow))
	p("acpi_rsdpLocationHi", uint64(rsdpLocationHi))
	p("acpi_rsdpAlignment", uint64(rsdpAlignment))
	p("acpi_acpiRev1", uint64(acpiRev1))
	p("acpi_acpiRev2Plus", uint64(acpiRev2Plus))
	// length the extended root pointer checksum is taken over (named constant in acpi.go)
	p("acpi_extRSDPLength", uint64(extRSDPLength))
	fmt.Fprintf(f, "acpi_rsdpSignature LN")
	for _, b := range rsdpSignature {
		fmt.Fprintf(f, " %d", b)
	}
	fmt.Fprintf(f, "\n")
	if len(fadtSignature) != 4 {
		t.Fatalf("fadtSignature %q is not 4 bytes long", fadtSignature)
	}
	// signatures are compared as 4-byte strings; the model keeps them as little-endian 32-bit numbers
	p("acpi_fadtSignature", le([]byte(fadtSignature)))

	var (
		rsdp table.RSDPDescriptor
		ext  table.ExtRSDPDescriptor
		hdr  table.SDTHeader
		fadt table.FADT
	)
	p("acpi_sizeof_RSDPDescriptor", uint64(unsafe.Sizeof(rsdp)))
	p("acpi_sizeof_ExtRSDPDescriptor", uint64(unsafe.Sizeof(ext)))
	p("acpi_sizeof_RSDP_Signature", uint64(unsafe.Sizeof(rsdp.Signature)))
	p("acpi_off_RSDP_Signature", uint64(unsafe.Offsetof(rsdp.Signature)))
	p("acpi_off_RSDP_Checksum", uint64(unsafe.Offsetof(rsdp.Checksum)))
	p("acpi_off_RSDP_Revision", uint64(unsafe.Offsetof(rsdp.Revision)))
	p("acpi_off_RSDP_RSDTAddr", uint64(unsafe.Offsetof(rsdp.RSDTAddr)))
	p("acpi_sizeof_RSDP_RSDTAddr", uint64(unsafe.Sizeof(rsdp.RSDTAddr)))
	p("acpi_off_ExtRSDP_Length", uint64(unsafe.Offsetof(ext.Length)))
	p("acpi_off_ExtRSDP_XSDTAddr", uint64(unsafe.Offsetof(ext.XSDTAddr)))
	p("acpi_sizeof_ExtRSDP_XSDTAddr", uint64(unsafe.Sizeof(ext.XSDTAddr)))
	p("acpi_off_ExtRSDP_ExtendedChecksum", uint64(unsafe.Offsetof(ext.ExtendedChecksum)))

	p("acpi_sizeof_SDTHeader", uint64(unsafe.Sizeof(hdr)))
	p("acpi_off_SDT_Signature", uint64(unsafe.Offsetof(hdr.Signature)))
	p("acpi_sizeof_SDT_Signature", uint64(unsafe.Sizeof(hdr.Signature)))
	p("acpi_off_SDT_Length", uint64(unsafe.Offsetof(hdr.Length)))
	p("acpi_sizeof_SDT_Length", uint64(unsafe.Sizeof(hdr.Length)))
	p("acpi_off_SDT_Revision", uint64(unsafe.Offsetof(hdr.Revision)))
	p("acpi_off_SDT_Checksum", uint64(unsafe.Offsetof(hdr.Checksum)))
	p("acpi_off_SDT_OEMID", uint64(unsafe.Offsetof(hdr.OEMID)))
	p("acpi_sizeof_SDT_OEMID", uint64(unsafe.Sizeof(hdr.OEMID)))
	p("acpi_off_SDT_OEMTableID", uint64(unsafe.Offsetof(hdr.OEMTableID)))
	p("acpi_sizeof_SDT_OEMTableID", uint64(unsafe.Sizeof(hdr.OEMTableID)))

	p("acpi_sizeof_FADT", uint64(unsafe.Sizeof(fadt)))
	p("acpi_off_FADT_Dsdt", uint64(unsafe.Offsetof(fadt.Dsdt)))
	p("acpi_sizeof_FADT_Dsdt", uint64(unsafe.Sizeof(fadt.Dsdt)))
	p("acpi_off_FADT_Ext_Dsdt", uint64(unsafe.Offsetof(fadt.Ext)+unsafe.Offsetof(fadt.Ext.Dsdt)))
	p("acpi_sizeof_FADT_Ext_Dsdt", uint64(unsafe.Sizeof(fadt.Ext.Dsdt)))
	p("acpi_sizeof_GenericAddress", uint64(unsafe.Sizeof(table.GenericAddress{})))

	p("acpi_mm_PageSize", uint64(mm.PageSize))
	p("acpi_mm_PageShift", uint64(mm.PageShift))
	p("acpi_vmm_FlagPresent", uint64(vmm.FlagPresent))
	// PageOffset mask as the code computes it (probed on an all-ones address)
	p("acpi_vmm_PageOffsetMask", uint64(vmm.PageOffset(^uintptr(0))))
}
