//go:build verif
// +build verif

package acpi

import (
	"bytes"
	"fmt"
	"runtime/debug"
	"sort"
	"syscall"
	"testing"
	"time"
	"unsafe"

	"github.com/ProjectSerenity/firefly/kernel"
	"github.com/ProjectSerenity/firefly/kernel/mm"
	"github.com/ProjectSerenity/firefly/kernel/mm/vmm"
)

// TestVerifC14 lays a generated firmware memory image out at its real (fixed, low) addresses in
// the test process, points the probe at it and runs probeForACPI + DriverInit on it.
//
// Case encoding (see coq/theories/Acpi/Model.v run_case):
//
//	low hi align probeFail idFail
//	nR (startAddr nPages fill)*          present pages, filled with a byte
//	nS (addr n byte*n)*                  explicit bytes (inside present pages)
//	fadtKind dsdtAddr                    monitor only: what the generator meant the FADT to point to
//
// low = 0 selects the kernel's own search window and alignment. Pages that are not listed are
// not mapped: a read there faults and is reported as outcome "stray" (debug.SetPanicOnFault).
//
// Observation: see obs below. Monitor: an independent re-implementation of the property
// (ACPI lengths 20/36 hard-coded, checksums recomputed from the image), see monitor().
const (
	c14MapFixedNoReplace = 0x100000
	c14PageSize          = 4096
)

type c14Range struct{ start, npages, fill uint64 }

type c14Image struct {
	ranges []c14Range
}

func (im *c14Image) present(a uint64) bool {
	for _, r := range im.ranges {
		if a >= r.start && a-r.start < r.npages*c14PageSize {
			return true
		}
	}
	return false
}

// rd reads n bytes at a; ok=false if any byte is outside the present pages.
func (im *c14Image) rd(a, n uint64) ([]byte, bool) {
	out := make([]byte, 0, n)
	for i := uint64(0); i < n; i++ {
		if a+i < a || !im.present(a+i) {
			return nil, false
		}
		out = append(out, *(*byte)(unsafe.Pointer(uintptr(a + i))))
	}
	return out, true
}

func c14le(b []byte) uint64 {
	var v uint64
	for i := len(b) - 1; i >= 0; i-- {
		v = v<<8 | uint64(b[i])
	}
	return v
}

func c14sum(b []byte) byte {
	var s byte
	for _, x := range b {
		s += x
	}
	return s
}

type c14Call struct{ frame, size, flags uint64 }
type c14Line struct {
	kind                  int // 0 mismatch, 1 info
	sig, addr, length     uint64
	oem, oemtab           uint64
}

// c14ParseLog parses the text DriverInit wrote. Fields are taken by position so that
// signatures / OEM strings containing arbitrary bytes cannot confuse the parser.
func c14ParseLog(b []byte) (lines []c14Line, ok bool) {
	hex := func(p int) (uint64, int, bool) {
		var v uint64
		n := 0
		for p < len(b) {
			c := b[p]
			var d uint64
			switch {
			case c >= '0' && c <= '9':
				d = uint64(c - '0')
			case c >= 'a' && c <= 'f':
				d = uint64(c-'a') + 10
			default:
				return v, p, n > 0
			}
			v = v<<4 | d
			p++
			n++
		}
		return v, p, n > 0
	}
	lit := func(p int, s string) (int, bool) {
		if p+len(s) > len(b) || string(b[p:p+len(s)]) != s {
			return p, false
		}
		return p + len(s), true
	}
	p := 0
	for p < len(b) {
		var l c14Line
		if p+4 > len(b) {
			return lines, false
		}
		l.sig = c14le(b[p : p+4])
		p += 4
		var good bool
		if p, good = lit(p, " at 0x"); !good {
			return lines, false
		}
		if l.addr, p, good = hex(p); !good {
			return lines, false
		}
		if p, good = lit(p, " "); !good {
			return lines, false
		}
		if l.length, p, good = hex(p); !good {
			return lines, false
		}
		if q, good := lit(p, " [checksum mismatch; skipping]\n"); good {
			p = q
			l.kind = 0
		} else if q, good := lit(p, " ("); good {
			p = q
			if p+6+1+8+2 > len(b) {
				return lines, false
			}
			l.kind = 1
			l.oem = c14le(b[p : p+6])
			p += 6
			if p, good = lit(p, " "); !good {
				return lines, false
			}
			l.oemtab = c14le(b[p : p+8])
			p += 8
			if p, good = lit(p, ")\n"); !good {
				return lines, false
			}
		} else {
			return lines, false
		}
		lines = append(lines, l)
	}
	return lines, true
}

func c14Mmap(addr, n uint64) error {
	r, _, e := syscall.Syscall6(syscall.SYS_MMAP, uintptr(addr), uintptr(n), syscall.PROT_READ|syscall.PROT_WRITE,
		syscall.MAP_PRIVATE|syscall.MAP_ANON|syscall.MAP_FIXED|c14MapFixedNoReplace, ^uintptr(0), 0)
	if e != 0 {
		return e
	}
	if uint64(r) != addr {
		syscall.Syscall(syscall.SYS_MUNMAP, r, uintptr(n), 0)
		return fmt.Errorf("kernel placed the mapping at %#x", r)
	}
	return nil
}

func c14Munmap(addr, n uint64) {
	syscall.Syscall(syscall.SYS_MUNMAP, uintptr(addr), uintptr(n), 0)
}

func TestVerifC14(t *testing.T) {
	out := verifOpenOut()
	defer out.Close()
	defer func(a func(mm.Page, mm.Frame, vmm.PageTableEntryFlag) *kernel.Error,
		b func(mm.Frame, uintptr, vmm.PageTableEntryFlag) (mm.Page, *kernel.Error),
		c func(mm.Page) *kernel.Error, lo, hi, al uintptr) {
		mapFn, identityMapFn, unmapFn, rsdpLocationLow, rsdpLocationHi, rsdpAlignment = a, b, c, lo, hi, al
	}(mapFn, identityMapFn, unmapFn, rsdpLocationLow, rsdpLocationHi, rsdpAlignment)
	defLow, defHi, defAlign := rsdpLocationLow, rsdpLocationHi, rsdpAlignment
	defer debug.SetPanicOnFault(debug.SetPanicOnFault(true))

	errInjected := &kernel.Error{Module: "verif", Message: "injected seam failure"}
	stats := map[string]int{}

	for _, c := range verifReadCases() {
		cur := &verifCur{n: c.nums}
		low, hi, align, probeFail, idFail := cur.Next(), cur.Next(), cur.Next(), cur.Next(), cur.Next()
		kernelWindow := low == 0
		if kernelWindow {
			low, hi, align = uint64(defLow), uint64(defHi), uint64(defAlign)
		}
		im := &c14Image{}
		nR := int(cur.Next())
		for i := 0; i < nR; i++ {
			im.ranges = append(im.ranges, c14Range{cur.Next(), cur.Next(), cur.Next()})
		}
		mapped := 0
		mapErr := error(nil)
		for _, r := range im.ranges {
			if err := c14Mmap(r.start, r.npages*c14PageSize); err != nil {
				mapErr = fmt.Errorf("cannot place pages at %#x (+%d pages): %v", r.start, r.npages, err)
				break
			}
			mapped++
			if r.fill != 0 {
				for j := uint64(0); j < r.npages*c14PageSize; j++ {
					*(*byte)(unsafe.Pointer(uintptr(r.start + j))) = byte(r.fill)
				}
			}
		}
		if mapErr != nil {
			for _, r := range im.ranges[:mapped] {
				c14Munmap(r.start, r.npages*c14PageSize)
			}
			out.Info("c14-host-mapping-failed", "case %d: %v", c.id, mapErr)
			t.Fatalf("case %d: %v", c.id, mapErr)
		}
		nS := int(cur.Next())
		for i := 0; i < nS; i++ {
			a, n := cur.Next(), int(cur.Next())
			for j := 0; j < n; j++ {
				v := cur.Next()
				if !im.present(a + uint64(j)) {
					t.Fatalf("case %d: explicit byte at %#x outside the present pages", c.id, a+uint64(j))
				}
				*(*byte)(unsafe.Pointer(uintptr(a + uint64(j)))) = byte(v)
			}
		}
		fadtKind, dsdtWant := cur.Next(), cur.Next()

		// ---------------------------------------------------------------- run the real code
		rsdpLocationLow, rsdpLocationHi, rsdpAlignment = uintptr(low), uintptr(hi), uintptr(align)
		var nMap, nUnmap uint64
		mapOK := uint64(1)
		mapFn = func(p mm.Page, f mm.Frame, fl vmm.PageTableEntryFlag) *kernel.Error {
			if uint64(p) != uint64(mm.PageFromAddress(uintptr(low)))+nMap || uint64(f) != uint64(p) || fl != vmm.FlagPresent {
				mapOK = 0
			}
			nMap++
			if probeFail != 0 && nMap == probeFail {
				return errInjected
			}
			return nil
		}
		unmapFn = func(p mm.Page) *kernel.Error {
			if uint64(p) != uint64(mm.PageFromAddress(uintptr(low)))+nUnmap {
				mapOK = 0
			}
			nUnmap++
			return nil
		}
		var calls []c14Call
		identityMapFn = func(f mm.Frame, size uintptr, fl vmm.PageTableEntryFlag) (mm.Page, *kernel.Error) {
			calls = append(calls, c14Call{uint64(f), uint64(size), uint64(fl)})
			if idFail != 0 && uint64(len(calls)) == idFail {
				return 0, errInjected
			}
			return mm.Page(f), nil
		}

		var (
			pcode, rsdt, usex uint64
			drv               *acpiDriver
			probePanic        interface{}
		)
		t0 := time.Now()
		func() {
			defer func() {
				if r := recover(); r != nil {
					probePanic = r
				}
			}()
			if d := probeForACPI(); d != nil {
				drv = d.(*acpiDriver)
			}
		}()
		switch {
		case probePanic != nil:
			pcode = 2
			drv = nil
		case drv != nil:
			pcode, rsdt = 1, uint64(drv.rsdtAddr)
			if drv.useXSDT {
				usex = 1
			}
		}

		icode := uint64(9)
		var initPanic interface{}
		var initErr *kernel.Error
		var logbuf bytes.Buffer
		if drv != nil {
			func() {
				defer func() {
					if r := recover(); r != nil {
						initPanic = r
					}
				}()
				initErr = drv.DriverInit(&logbuf)
			}()
			switch {
			case initPanic != nil:
				icode = 3
			case initErr == nil:
				icode = 0
			case initErr == errTableChecksumMismatch:
				icode = 1
			default:
				icode = 2
			}
		}
		if d := time.Since(t0); d > 500*time.Millisecond {
			out.Info("c14-slow-case", "case %d took %v (icode %d, %d seam calls)", c.id, d, icode, len(calls))
		}
		lines, parsed := c14ParseLog(logbuf.Bytes())
		if !parsed {
			out.Mon(c.id, "c14:log-unparsable", "init log is not a sequence of table lines: %q", logbuf.String())
		}
		type ent struct{ sig, addr uint64 }
		var tmap []ent
		if drv != nil {
			for k, h := range drv.tableMap {
				kb := []byte(k)
				tmap = append(tmap, ent{c14le(kb), uint64(uintptr(unsafe.Pointer(h)))})
			}
			sort.Slice(tmap, func(i, j int) bool { return tmap[i].sig < tmap[j].sig })
		}
		var mis, info []c14Line
		for _, l := range lines {
			if l.kind == 0 {
				mis = append(mis, l)
			} else {
				info = append(info, l)
			}
		}
		sort.Slice(info, func(i, j int) bool { return info[i].sig < info[j].sig })
		if icode == 3 {
			info = nil // a fault inside printTableInfo leaves a map-order dependent prefix
		}

		obs := []uint64{pcode, rsdt, usex, nMap, nUnmap, mapOK, icode, uint64(len(calls))}
		for _, cl := range calls {
			obs = append(obs, cl.frame, cl.size, cl.flags)
		}
		obs = append(obs, uint64(len(mis)))
		for _, l := range mis {
			obs = append(obs, l.sig, l.addr, l.length)
		}
		obs = append(obs, uint64(len(tmap)))
		for _, e := range tmap {
			obs = append(obs, e.sig, e.addr)
		}
		obs = append(obs, uint64(len(info)))
		for _, l := range info {
			obs = append(obs, l.sig, l.addr, l.length, l.oem, l.oemtab)
		}
		out.Obs(c.id, obs)

		// ---------------------------------------------------------------- monitor
		func() {
			// (1) the root pointer. ACPI: signature "RSD PTR " on a 16-byte boundary (the window's
			// alignment), revision 0 => 20 bytes must sum to 0 and the 32-bit RsdtAddress is used,
			// otherwise the 36 bytes of the ACPI 2.0 structure must sum to 0 and XsdtAddress is used.
			if probeFail != 0 {
				stats["probe-seam-failure(agreement only)"]++
				return
			}
			// the monitor's own idea of the search area: the window and alignment handed to the code,
			// or, when the code runs with its built-in window, the BIOS area 0xE0000-0xFFFFF of the
			// ACPI specification scanned on 16-byte boundaries
			low, hi, align := low, hi, align
			if kernelWindow {
				low, hi, align = 0xe0000, 0xfffff, 16
			}
			if align == 0 || hi+align < hi {
				return
			}
			const sigText = "RSD PTR "
			var (
				found          bool
				fAddr, fRev    uint64
				wantRoot       uint64
				wantX          bool
				decoys         int
				unreadable     bool
				outsideWindow  bool
				ambiguousRSDP  bool
			)
		scan:
			for a := low; a < hi; a += align {
				for i := 0; i < 8; i++ {
					b, ok := im.rd(a+uint64(i), 1)
					if !ok {
						unreadable = true
						break scan
					}
					if b[0] != sigText[i] {
						continue scan
					}
				}
				rv, ok := im.rd(a+15, 1)
				if !ok {
					unreadable = true
					break
				}
				n := uint64(36)
				if rv[0] == 0 {
					n = 20
				}
				body, ok := im.rd(a, n)
				if !ok {
					unreadable = true
					break
				}
				if c14sum(body) != 0 {
					decoys++
					continue
				}
				if rv[0] != 0 && c14sum(body[:20]) != 0 {
					ambiguousRSDP = true // ACPI wants both checksums; the property text speaks of "its checksum"
					break
				}
				if a+n > hi+1 {
					outsideWindow = true // structure not wholly inside the search area: outside the quantifier
					break
				}
				found, fAddr, fRev = true, a, uint64(rv[0])
				if rv[0] == 0 {
					wantRoot, wantX = c14le(body[16:20]), false
				} else {
					wantRoot, wantX = c14le(body[24:32]), true
				}
				break
			}
			if unreadable || outsideWindow || ambiguousRSDP {
				stats["probe-outside-quantifier(agreement only)"]++
				return
			}
			switch {
			case probePanic != nil:
				out.Mon(c.id, "c14:probe-panic", "probe panicked (%v) although every byte it has to read is present", probePanic)
				return
			case found && drv == nil:
				out.Mon(c.id, "c14:probe-missed-valid-rsdp", "valid revision-%d root pointer at %#x (window %#x..%#x, %d decoy(s) before it) but the probe found none",
					fRev, fAddr, low, hi, decoys)
				return
			case !found && drv != nil:
				out.Mon(c.id, "c14:probe-accepted-invalid-rsdp", "no checksum-valid root pointer in %#x..%#x (%d bad candidate(s)) but the probe returned root table %#x xsdt=%v",
					low, hi, decoys, rsdt, usex == 1)
				return
			case !found:
				stats["no-rsdp"]++
				return
			case rsdt != wantRoot || (usex == 1) != wantX:
				out.Mon(c.id, "c14:probe-wrong-root-pointer", "root pointer at %#x revision %d dictates root table %#x xsdt=%v; probe returned %#x xsdt=%v",
					fAddr, fRev, wantRoot, wantX, rsdt, usex == 1)
				return
			}
			stats["rsdp-ok"]++
			if decoys > 0 {
				stats["rsdp-ok-after-decoys"]++
			}

			// (2) the tables
			if idFail != 0 {
				stats["init-seam-failure(agreement only)"]++
				return
			}
			hdr, ok := im.rd(wantRoot, 36)
			if !ok {
				stats["init-outside-quantifier(agreement only)"]++
				return
			}
			rootLen := c14le(hdr[4:8])
			rootRev := uint64(hdr[8])
			rootBytes, ok := im.rd(wantRoot, rootLen)
			if !ok || rootLen < 36 {
				stats["init-outside-quantifier(agreement only)"]++
				return
			}
			if c14sum(rootBytes) != 0 {
				stats["root-table-invalid(agreement only)"]++
				return
			}
			w := uint64(4)
			if wantX {
				w = 8
			}
			type tbl struct {
				addr, sig, length uint64
				valid             bool
			}
			look := func(a uint64) (tbl, bool) {
				h, ok := im.rd(a, 8)
				if !ok {
					return tbl{}, false
				}
				tb := tbl{addr: a, sig: c14le(h[0:4]), length: c14le(h[4:8])}
				body, ok := im.rd(a, tb.length)
				if !ok {
					return tbl{}, false
				}
				tb.valid = c14sum(body) == 0
				return tb, true
			}
			var (
				cands    []tbl
				wantMis  []tbl
				wantMap  = map[uint64]uint64{}
				dsdtSig  uint64
				haveDsdt bool
				ambiguous bool
			)
			const facp = 0x50434146 // "FACP"
			for i := uint64(0); i < (rootLen-36)/w; i++ {
				e, _ := im.rd(wantRoot+36+i*w, w)
				tb, ok := look(c14le(e))
				if !ok {
					stats["init-outside-quantifier(agreement only)"]++
					return
				}
				cands = append(cands, tb)
				if !tb.valid {
					wantMis = append(wantMis, tb)
					continue
				}
				wantMap[tb.sig] = tb.addr
				if tb.sig == facp && fadtKind != 0 {
					if fadtKind == 5 {
						ambiguous = true // the two pointers name different tables: the text does not say which wins
						continue
					}
					d, ok := look(dsdtWant)
					if !ok {
						stats["init-outside-quantifier(agreement only)"]++
						return
					}
					cands = append(cands, d)
					haveDsdt, dsdtSig = true, d.sig
					if !d.valid {
						wantMis = append(wantMis, d)
					} else {
						wantMap[d.sig] = d.addr
					}
				}
			}
			seen := map[uint64]uint64{}
			distinct := true
			for _, tb := range cands {
				if a, dup := seen[tb.sig]; dup && a != tb.addr {
					distinct = false
				}
				seen[tb.sig] = tb.addr
			}
			// failure classes of inputs where the code picks the DSDT pointer by the root table's
			// revision / the Go struct offset (see known_findings/C14.json)
			class := ""
			rv := "rootrev-lt2"
			if rootRev >= 2 {
				rv = "rootrev-ge2"
			}
			switch fadtKind {
			case 2:
				class = "c14:dsdt:acpi-layout-fadt:" + rv
			case 3:
				class = "c14:dsdt:only32-fadt:" + rv
			case 4:
				class = "c14:dsdt:only64-fadt:" + rv
			}
			fail := func(sig, format string, args ...interface{}) {
				if class != "" && haveDsdt {
					out.Mon(c.id, class, "FADT kind %d, root table revision %d, DSDT meant at %#x: "+format, append([]interface{}{fadtKind, rootRev, dsdtWant}, args...)...)
				} else {
					out.Mon(c.id, sig, format, args...)
				}
			}
			if ambiguous && (initPanic != nil || initErr != nil) {
				stats["dsdt-ambiguous(agreement only)"]++
				return
			}
			if initPanic != nil {
				where := ""
				if e, ok := initPanic.(interface{ Addr() uintptr }); ok {
					where = fmt.Sprintf(" reading address %#x", e.Addr())
				}
				fail("c14:init-panic", "DriverInit panicked (%v%s) although every table byte is present", initPanic, where)
				return
			}
			if initErr != nil {
				fail("c14:init-failed", "DriverInit failed (%s) although the root table at %#x is checksum-valid and no mapping failed", initErr.Message, wantRoot)
				return
			}
			stats["init-ok"]++
			if ambiguous {
				stats["dsdt-ambiguous(listed tables only)"]++
			}
			// mismatch reports: exactly one per bad table, in enumeration order
			if !ambiguous {
				okMis := len(mis) == len(wantMis)
				for i := 0; okMis && i < len(mis); i++ {
					okMis = mis[i].sig == wantMis[i].sig && mis[i].addr == wantMis[i].addr && mis[i].length == wantMis[i].length
				}
				if !okMis {
					fail("c14:mismatch-report", "expected %d checksum-mismatch line(s) %v, log has %d: %v", len(wantMis), wantMis, len(mis), mis)
				}
			}
			if !distinct {
				stats["duplicate-signatures(agreement only)"]++
				return
			}
			got := map[uint64]uint64{}
			for _, e := range tmap {
				got[e.sig] = e.addr
			}
			for _, tb := range cands {
				a, reg := got[tb.sig]
				switch {
				case tb.valid && !reg:
					if haveDsdt && tb.sig == dsdtSig {
						fail("c14:dsdt-not-registered", "DSDT %#x at %#x (length %d) sums to 0 but is not registered", tb.sig, tb.addr, tb.length)
					} else {
						out.Mon(c.id, "c14:valid-table-not-registered", "table %#x at %#x (length %d) sums to 0 but is not registered", tb.sig, tb.addr, tb.length)
					}
				case tb.valid && a != tb.addr:
					fail("c14:registered-wrong-address", "table %#x registered at %#x, lives at %#x", tb.sig, a, tb.addr)
				case !tb.valid && reg:
					out.Mon(c.id, "c14:invalid-table-registered", "table %#x at %#x (length %d) does not sum to 0 but is registered (at %#x)", tb.sig, tb.addr, tb.length, a)
				}
			}
			if !ambiguous {
				for s, a := range got {
					if _, listed := seen[s]; !listed {
						fail("c14:unlisted-table-registered", "signature %#x registered (at %#x) but no listed table carries it", s, a)
					}
				}
			}
			if len(wantMis) > 0 {
				stats["init-ok-with-bad-tables"]++
			}
			if haveDsdt {
				stats["init-ok-with-dsdt"]++
			}
		}()

		for _, r := range im.ranges {
			c14Munmap(r.start, r.npages*c14PageSize)
		}
	}
	keys := make([]string, 0, len(stats))
	for k := range stats {
		keys = append(keys, k)
	}
	sort.Strings(keys)
	line := ""
	for _, k := range keys {
		line += fmt.Sprintf("%s=%d; ", k, stats[k])
	}
	out.Info("c14-monitor", "%s", line)
}
