//go:build verif
// +build verif

package sync

import (
	"os"
	"math/rand"
	"runtime"
	gosync "sync"
	"sync/atomic"
	"testing"
	"time"
)

// TestVerifC08:
//   case 0 ops...            single-task op sequence on the real lock (0 Try, 1 Release, 2 Acquire);
//                            observation per op: result code, raw lock word (compared with the Coq machine)
//   case 1 tasks iters seed  stress with truly parallel tasks mixing Acquire / TryToAcquire / Release;
//                            monitor: holder count never exceeds 1, a plain counter incremented inside the
//                            critical section equals the number of critical sections, try=false has no
//                            side effect on the holder, no hang
//   case 2 ...               (model-only bounded schedule search) -> [0]
//go:noinline
func verifZeros() (int, int) { return 0, 0 }

var verifScrubSink int

// verifYieldScrub yields and returns with the integer result registers holding zero.
func verifYieldScrub() {
	runtime.Gosched()
	a, b := verifZeros()
	_ = a
	_ = b
}

func TestVerifC08(t *testing.T) {
	out := verifOpenOut()
	defer out.Close()
	defer func(orig func()) { yieldFn = orig }(yieldFn)
	yieldFn = runtime.Gosched
	runtime.GOMAXPROCS(runtime.NumCPU())

	for _, c := range verifReadCases() {
		cur := &verifCur{n: c.nums}
		switch cur.Next() {
		case 0:
			var sl Spinlock
			var obs []uint64
			hung := false
			held := false // the monitor's own view: is the lock held (by this single task)?
			for step := 0; !cur.Done() && !hung; step++ {
				switch cur.Next() {
				case 0:
					before := atomic.LoadUint32(&sl.state)
					got := sl.TryToAcquire()
					if !got && atomic.LoadUint32(&sl.state) != before {
						out.Mon(c.id, "c08:failed-try-has-side-effect", "op %d: TryToAcquire returned false but changed the lock word %d -> %d", step, before, atomic.LoadUint32(&sl.state))
					}
					if got {
						obs = append(obs, 1)
					} else {
						obs = append(obs, 0)
					}
					if got == held {
						out.Mon(c.id, "c08:try-lied", "op %d: TryToAcquire returned %v while the lock was %s", step, got, map[bool]string{true: "held", false: "free"}[held])
					}
					held = true
				case 1:
					sl.Release()
					obs = append(obs, 2)
					held = false
				default:
					if held {
						// generator never asks for this (it would deadlock by design)
						obs = append(obs, 3)
						hung = true
						break
					}
					held = true
					done := make(chan struct{})
					go func() { sl.Acquire(); close(done) }()
					select {
					case <-done:
						obs = append(obs, 2)
					case <-time.After(2 * time.Second):
						obs = append(obs, 3)
						hung = true
						out.Mon(c.id, "c08:acquire-hang", "op %d: Acquire on a free lock did not return within 2s", step)
						out.Obs(c.id, obs)
						out.Close()
						os.Exit(3) // a goroutine is spinning in the assembly loop for ever: end the process
					}
				}
				obs = append(obs, uint64(atomic.LoadUint32(&sl.state)))
			}
			out.Obs(c.id, obs)
		case 1:
			tasks, iters, seed := int(cur.Next()), int(cur.Next()), int64(cur.Next())
			// the yield hook is an arbitrary function: registers are dead across the call. Every other
			// stress case uses a hook that comes back with zeroed result registers (AX = BX = 0 under the
			// register ABI), the others the scheduler's own yield.
			if seed%2 == 1 {
				yieldFn = verifYieldScrub
			} else {
				yieldFn = runtime.Gosched
			}
			// the lock sits between non-zero words: an implementation must only look at its own 4 bytes
			var box struct {
				before uint32
				sl     Spinlock
				after  uint32
			}
			box.before, box.after = 0xffffffff, 0xffffffff
			sl := &box.sl
			var (
				holders   int32
				plain     int64 // only touched inside the critical section, non-atomically
				sections  int64
				maxSeen   int32
				tryFalseWhileFree int64
				wg        gosync.WaitGroup
			)
			wg.Add(tasks)
			for w := 0; w < tasks; w++ {
				go func(w int) {
					defer wg.Done()
					rng := rand.New(rand.NewSource(seed*1000 + int64(w)))
					for i := 0; i < iters; i++ {
						got := false
						if rng.Intn(3) == 0 {
							got = sl.TryToAcquire()
						} else {
							sl.Acquire()
							got = true
						}
						if !got {
							if rng.Intn(4) == 0 {
								runtime.Gosched()
							}
							continue
						}
						h := atomic.AddInt32(&holders, 1)
						for {
							m := atomic.LoadInt32(&maxSeen)
							if h <= m || atomic.CompareAndSwapInt32(&maxSeen, m, h) {
								break
							}
						}
						// a holder's own try-acquire must fail and leave the lock held
						if rng.Intn(8) == 0 && sl.TryToAcquire() {
							atomic.AddInt64(&tryFalseWhileFree, 1)
						}
						v := plain
						if rng.Intn(4) == 0 {
							runtime.Gosched()
						}
						plain = v + 1
						atomic.AddInt64(&sections, 1)
						atomic.AddInt32(&holders, -1)
						sl.Release()
					}
				}(w)
			}
			done := make(chan struct{})
			go func() { wg.Wait(); close(done) }()
			select {
			case <-done:
				if maxSeen > 1 {
					out.Mon(c.id, "c08:two-holders", "%d tasks held the lock at once (tasks=%d iters=%d seed=%d)", maxSeen, tasks, iters, seed)
				}
				if plain != sections {
					out.Mon(c.id, "c08:lost-update", "protected counter %d != critical sections %d (tasks=%d iters=%d seed=%d)", plain, sections, tasks, iters, seed)
				}
				if tryFalseWhileFree != 0 {
					out.Mon(c.id, "c08:try-lied", "TryToAcquire returned true %d times while the caller already held the lock", tryFalseWhileFree)
				}
				if !sl.TryToAcquire() {
					out.Mon(c.id, "c08:not-free-after-release", "lock cannot be taken after every holder released it")
				}
				out.Obs(c.id, []uint64{1})
			case <-time.After(60 * time.Second):
				out.Mon(c.id, "c08:hang", "tasks=%d iters=%d seed=%d did not finish within 60s (holders=%d sections=%d)", tasks, iters, seed, atomic.LoadInt32(&holders), atomic.LoadInt64(&sections))
				out.Obs(c.id, []uint64{0})
				out.Close()
				// goroutines spinning in the assembly loop cannot be preempted: the process must be ended
				// explicitly or it survives go test's own timeout and burns CPU forever
				os.Exit(3)
			}
		default:
			out.Obs(c.id, []uint64{0})
		}
	}
}
