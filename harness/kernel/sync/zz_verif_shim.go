//go:build verif
// +build verif

package sync

// VerifSetYieldFn lets harnesses of other packages install a yield function (the kernel's own yieldFn
// hook is unexported and nil until context switching exists; under `go test` spinning tasks must yield
// to the Go scheduler or a descheduled lock holder stalls everybody).
func VerifSetYieldFn(f func()) func() {
	old := yieldFn
	yieldFn = f
	return old
}
