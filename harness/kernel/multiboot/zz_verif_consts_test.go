//go:build verif
// +build verif

package multiboot

import (
	"fmt"
	"os"
	"testing"
	"unsafe"
)

// TestVerifDumpConsts is the translator's front end for package multiboot: the Go compiler
// evaluates the constants, struct sizes and field offsets of the current source tree and
// lib/vlib.py turns them into Gen/Consts_multiboot.v.
func TestVerifDumpConsts(t *testing.T) {
	f, err := os.Create(os.Getenv("VERIF_OUT"))
	if err != nil {
		t.Fatal(err)
	}
	defer f.Close()
	p := func(name string, v uint64) { fmt.Fprintf(f, "mb_%s N 0x%x\n", name, v) }
	p("tagMbSectionEnd", uint64(tagMbSectionEnd))
	p("tagBootCmdLine", uint64(tagBootCmdLine))
	p("tagBootLoaderName", uint64(tagBootLoaderName))
	p("tagModules", uint64(tagModules))
	p("tagBasicMemoryInfo", uint64(tagBasicMemoryInfo))
	p("tagBiosBootDevice", uint64(tagBiosBootDevice))
	p("tagMemoryMap", uint64(tagMemoryMap))
	p("tagVbeInfo", uint64(tagVbeInfo))
	p("tagFramebufferInfo", uint64(tagFramebufferInfo))
	p("tagElfSymbols", uint64(tagElfSymbols))
	p("tagApmTable", uint64(tagApmTable))
	p("MemAvailable", uint64(MemAvailable))
	p("MemReserved", uint64(MemReserved))
	p("MemAcpiReclaimable", uint64(MemAcpiReclaimable))
	p("MemNvs", uint64(MemNvs))
	p("memUnknown", uint64(memUnknown))
	p("FramebufferTypeIndexed", uint64(FramebufferTypeIndexed))
	p("FramebufferTypeRGB", uint64(FramebufferTypeRGB))
	p("FramebufferTypeEGA", uint64(FramebufferTypeEGA))
	p("ElfSectionWritable", uint64(ElfSectionWritable))
	p("ElfSectionAllocated", uint64(ElfSectionAllocated))
	p("ElfSectionExecutable", uint64(ElfSectionExecutable))

	p("sizeof_info", uint64(unsafe.Sizeof(info{})))
	p("sizeof_tagHeader", uint64(unsafe.Sizeof(tagHeader{})))
	p("off_tagHeader_tagType", uint64(unsafe.Offsetof(tagHeader{}.tagType)))
	p("off_tagHeader_size", uint64(unsafe.Offsetof(tagHeader{}.size)))
	p("sizeof_mmapHeader", uint64(unsafe.Sizeof(mmapHeader{})))
	p("off_mmapHeader_entrySize", uint64(unsafe.Offsetof(mmapHeader{}.entrySize)))
	p("sizeof_MemoryMapEntry", uint64(unsafe.Sizeof(MemoryMapEntry{})))
	p("off_MemoryMapEntry_PhysAddress", uint64(unsafe.Offsetof(MemoryMapEntry{}.PhysAddress)))
	p("off_MemoryMapEntry_Length", uint64(unsafe.Offsetof(MemoryMapEntry{}.Length)))
	p("off_MemoryMapEntry_Type", uint64(unsafe.Offsetof(MemoryMapEntry{}.Type)))
	p("sizeof_FramebufferInfo", uint64(unsafe.Sizeof(FramebufferInfo{})))
	p("off_FramebufferInfo_PhysAddr", uint64(unsafe.Offsetof(FramebufferInfo{}.PhysAddr)))
	p("off_FramebufferInfo_Pitch", uint64(unsafe.Offsetof(FramebufferInfo{}.Pitch)))
	p("off_FramebufferInfo_Width", uint64(unsafe.Offsetof(FramebufferInfo{}.Width)))
	p("off_FramebufferInfo_Height", uint64(unsafe.Offsetof(FramebufferInfo{}.Height)))
	p("off_FramebufferInfo_Bpp", uint64(unsafe.Offsetof(FramebufferInfo{}.Bpp)))
	p("off_FramebufferInfo_Type", uint64(unsafe.Offsetof(FramebufferInfo{}.Type)))
	p("off_FramebufferInfo_colorInfo", uint64(unsafe.Offsetof(FramebufferInfo{}.colorInfo)))
	p("sizeof_FramebufferRGBColorInfo", uint64(unsafe.Sizeof(FramebufferRGBColorInfo{})))
	p("off_RGB_RedPosition", uint64(unsafe.Offsetof(FramebufferRGBColorInfo{}.RedPosition)))
	p("off_RGB_RedMaskSize", uint64(unsafe.Offsetof(FramebufferRGBColorInfo{}.RedMaskSize)))
	p("off_RGB_GreenPosition", uint64(unsafe.Offsetof(FramebufferRGBColorInfo{}.GreenPosition)))
	p("off_RGB_GreenMaskSize", uint64(unsafe.Offsetof(FramebufferRGBColorInfo{}.GreenMaskSize)))
	p("off_RGB_BluePosition", uint64(unsafe.Offsetof(FramebufferRGBColorInfo{}.BluePosition)))
	p("off_RGB_BlueMaskSize", uint64(unsafe.Offsetof(FramebufferRGBColorInfo{}.BlueMaskSize)))
	p("off_elfSections_numSections", uint64(unsafe.Offsetof(elfSections{}.numSections)))
	p("off_elfSections_sectionSize", uint64(unsafe.Offsetof(elfSections{}.sectionSize)))
	p("off_elfSections_strtabSectionIndex", uint64(unsafe.Offsetof(elfSections{}.strtabSectionIndex)))
	p("off_elfSections_sectionData", uint64(unsafe.Offsetof(elfSections{}.sectionData)))
	p("sizeof_elfSection64", uint64(unsafe.Sizeof(elfSection64{})))
	p("off_elfSection64_nameIndex", uint64(unsafe.Offsetof(elfSection64{}.nameIndex)))
	p("off_elfSection64_flags", uint64(unsafe.Offsetof(elfSection64{}.flags)))
	p("off_elfSection64_address", uint64(unsafe.Offsetof(elfSection64{}.address)))
	p("off_elfSection64_size", uint64(unsafe.Offsetof(elfSection64{}.size)))
}
