//go:build verif
// +build verif

package multiboot

import (
	"bytes"
	"fmt"
	"os"
	"runtime"
	"runtime/debug"
	"sort"
	"sync/atomic"
	"syscall"
	"testing"
	"time"
	"unsafe"
)

// Watchdog: findTagByType has no loop bound, so a decoder that does not return (although the
// harness's own bounded walk predicted termination) cannot be interrupted; a second goroutine
// then reports the case and ends the process.
var (
	verifDeadline atomic.Int64 // unix nanoseconds, 0 = no decoder running
	verifRunning  atomic.Value // string: what is running
)

func verifWatch(out *verifOut, caseID *atomic.Int64, wellFormed *atomic.Bool) {
	for {
		time.Sleep(50 * time.Millisecond)
		d := verifDeadline.Load()
		if d != 0 && time.Now().UnixNano() > d {
			what, _ := verifRunning.Load().(string)
			if wellFormed.Load() {
				out.Mon(int(caseID.Load()), "c10:decoder-does-not-return", "%s did not return within 5s on a well-formed block", what)
			} else {
				out.Info("unpredicted-hang", "case %d: %s did not return within 5s on a malformed block although the bounded tag walk terminates", caseID.Load(), what)
			}
			out.Flush()
			os.Exit(3)
		}
	}
}

func verifTimed(what string, f func()) {
	verifRunning.Store(what)
	verifDeadline.Store(time.Now().Add(5 * time.Second).UnixNano())
	defer verifDeadline.Store(0)
	f()
}

// Case / observation encoding: see coq/theories/Multiboot/Case.v.
//
// Memory: two big PROT_NONE reservations at fixed addresses (so that the addresses in a case are
// the real addresses and every pointer the decoders can compute from a block lands either in
// accessible bytes or in inaccessible ones). Per case the block (preceded by the zero bytes of the
// rest of its first page) is mapped so that its LAST byte lies directly before inaccessible
// memory; the section-name string table likewise in the second reservation.

const (
	verifBlkReserve = uintptr(0x200000000000) // .. + 2^39
	verifBlkSize    = uintptr(1) << 39
	verifStrReserve = uintptr(0x300000000000) // .. + 2^34
	verifStrSize    = uintptr(1) << 34
	verifVisitorCap = 2048
)

func verifMmapFixed(addr, length uintptr, prot int, noreplace bool) error {
	const mapFixed = 0x10
	const mapNoReserve = 0x4000
	const mapFixedNoReplace = 0x100000
	flags := uintptr(syscall.MAP_PRIVATE | syscall.MAP_ANON | mapNoReserve)
	if noreplace {
		flags |= mapFixedNoReplace
	} else {
		flags |= mapFixed
	}
	r, _, e := syscall.Syscall6(syscall.SYS_MMAP, addr, length, uintptr(prot), flags, ^uintptr(0), 0)
	if e != 0 {
		return e
	}
	if r != addr {
		return fmt.Errorf("mmap returned %#x instead of %#x", r, addr)
	}
	return nil
}

type verifSeg struct {
	base uintptr
	n    uintptr
}

func (s verifSeg) has(a uint64, n uint64) bool {
	return a >= uint64(s.base) && a+n >= a && a+n <= uint64(s.base+s.n)
}

type verifMem struct{ segs []verifSeg }

func (m *verifMem) rd(a uint64, n uint64) (uint64, bool) {
	for _, s := range m.segs {
		if s.n != 0 && s.has(a, n) {
			var v uint64
			for i := uint64(0); i < n; i++ {
				v |= uint64(*(*byte)(unsafe.Pointer(uintptr(a + i)))) << (8 * i)
			}
			return v, true
		}
	}
	return 0, false
}

func (m *verifMem) total() uint64 {
	var t uint64
	for _, s := range m.segs {
		t += uint64(s.n)
	}
	return t
}

// verifWalk predicts whether findTagByType(ty) terminates: it follows the tag chain on the
// current memory for at most total/8+2 steps (every step visits a different 8-byte slot unless
// the walk is in a cycle). Returns false when the real call would never return.
func (m *verifMem) verifWalk(info uint64, ty uint32) (terminates bool) {
	cur := info + 8
	fuel := m.total()/8 + 2
	for i := uint64(0); i < fuel; i++ {
		t, ok := m.rd(cur, 4)
		if !ok || t == 0 {
			return true
		}
		sz, ok := m.rd(cur+4, 4)
		if !ok || uint32(t) == ty {
			return true
		}
		cur += uint64(int64(int32(uint32(sz)+7) & ^7))
	}
	return false
}

const (
	verifOK      = 0
	verifStray   = 1
	verifHang    = 2
	verifRunaway = 3
	verifPanic   = 4
)

type verifRunawayT struct{}

// verifGuard runs f, turning memory faults / visitor-cap panics into observation codes.
func verifGuard(what string, f0 func()) (code uint64, msg string) {
	f := func() { verifTimed(what, f0) }
	defer func() {
		if r := recover(); r != nil {
			switch v := r.(type) {
			case verifRunawayT:
				code = verifRunaway
			case runtime.Error:
				if _, isFault := r.(interface{ Addr() uintptr }); isFault || bytes.Contains([]byte(v.Error()), []byte("invalid memory address")) {
					code = verifStray
					msg = v.Error()
					if a, ok := r.(interface{ Addr() uintptr }); ok {
						msg = fmt.Sprintf("%s (address %#x)", v.Error(), a.Addr())
					}
				} else {
					code = verifPanic
					msg = v.Error()
				}
			default:
				code = verifPanic
				msg = fmt.Sprint(r)
			}
		}
	}()
	f()
	return verifOK, ""
}

type verifRegion struct{ addr, length, typ uint64 }
type verifSection struct {
	name              string
	flags, addr, size uint64
}
type verifFb struct {
	present                                bool
	addr, pitch, width, height, bpp, typ uint64
	rgb                                    []uint64
}

// ---- the attached mbinfo (for the monitor) ----
type verifEntry struct {
	addr, length, typ uint64
	tail              []uint64
}
type verifCmdEntry struct {
	kv   bool
	k, v string
}
type verifSecHdr struct{ f [10]uint64 }
type verifTag struct {
	kind    uint64
	esz     uint64
	entries []verifEntry
	fb      [7]uint64
	color   []uint64
	cmd     []verifCmdEntry
	shndx   uint64
	secs    []verifSecHdr
}

func verifStr(l []uint64) string {
	b := make([]byte, len(l))
	for i, v := range l {
		b[i] = byte(v)
	}
	return string(b)
}

func verifDecodeMbinfo(c *verifCur) []verifTag {
	c.Next() // reserved
	n := int(c.Next())
	var tags []verifTag
	for i := 0; i < n; i++ {
		var t verifTag
		t.kind = c.Next()
		switch t.kind {
		case 6:
			t.esz = c.Next()
			c.Next()
			ne := int(c.Next())
			for j := 0; j < ne; j++ {
				e := verifEntry{addr: c.Next(), length: c.Next(), typ: c.Next()}
				e.tail = c.List()
				t.entries = append(t.entries, e)
			}
		case 8:
			for j := range t.fb {
				t.fb[j] = c.Next()
			}
			t.color = c.List()
		case 1:
			c.List()
			ne := int(c.Next())
			for j := 0; j < ne; j++ {
				var e verifCmdEntry
				if c.Next() == 0 {
					e.kv = true
					e.k = verifStr(c.List())
					e.v = verifStr(c.List())
				} else {
					e.k = verifStr(c.List())
				}
				c.List()
				t.cmd = append(t.cmd, e)
			}
		case 9:
			c.Next()
			t.shndx = c.Next()
			ns := int(c.Next())
			for j := 0; j < ns; j++ {
				var h verifSecHdr
				for k := range h.f {
					h.f[k] = c.Next()
				}
				t.secs = append(t.secs, h)
			}
		default:
			c.Next()
			c.List()
		}
		c.List() // padding
		tags = append(tags, t)
	}
	return tags
}

func verifFirst(tags []verifTag, kind uint64) *verifTag {
	for i := range tags {
		if tags[i].kind == kind {
			return &tags[i]
		}
	}
	return nil
}

func TestVerifC10(t *testing.T) {
	out := verifOpenOut()
	defer out.Close()
	defer func(a uintptr, b map[string]string) { infoData, cmdLineKV = a, b }(infoData, cmdLineKV)
	defer debug.SetPanicOnFault(debug.SetPanicOnFault(true))

	if err := verifMmapFixed(verifBlkReserve, verifBlkSize, syscall.PROT_NONE, true); err != nil {
		t.Fatalf("cannot reserve %#x+%#x: %v", verifBlkReserve, verifBlkSize, err)
	}
	if err := verifMmapFixed(verifStrReserve, verifStrSize, syscall.PROT_NONE, true); err != nil {
		t.Fatalf("cannot reserve %#x+%#x: %v", verifStrReserve, verifStrSize, err)
	}
	place := func(resv, size uintptr, base uint64, npre uint64, data []uint64) verifSeg {
		n := uintptr(npre) + uintptr(len(data))
		if n == 0 {
			return verifSeg{}
		}
		b := uintptr(base)
		if b%4096 != 0 || n%4096 != 0 || b < resv+(uintptr(8)<<30) || b+n > resv+(uintptr(8)<<30)+(4<<20) || b+n > resv+size {
			t.Fatalf("bad placement base=%#x n=%#x in reservation %#x", b, n, resv)
		}
		if err := verifMmapFixed(b, n, syscall.PROT_READ|syscall.PROT_WRITE, false); err != nil {
			t.Fatal(err)
		}
		for i, v := range data {
			*(*byte)(unsafe.Pointer(b + uintptr(npre) + uintptr(i))) = byte(v)
		}
		return verifSeg{b, n}
	}
	unplace := func(s verifSeg) {
		if s.n != 0 {
			if err := verifMmapFixed(s.base, s.n, syscall.PROT_NONE, false); err != nil {
				t.Fatal(err)
			}
		}
	}

	var curCase atomic.Int64
	var curWF atomic.Bool
	go verifWatch(out, &curCase, &curWF)

	for _, c := range verifReadCases() {
		cur := &verifCur{n: c.nums}
		kind, stop, base, npre := cur.Next(), cur.Next(), cur.Next(), cur.Next()
		curCase.Store(int64(c.id))
		curWF.Store(kind == 0)
		blk := cur.List()
		sbase, nspre := cur.Next(), cur.Next()
		str := cur.List()
		segB := place(verifBlkReserve, verifBlkSize, base, npre, blk)
		segS := place(verifStrReserve, verifStrSize, sbase, nspre, str)
		mem := &verifMem{segs: []verifSeg{segB, segS}}
		info := base + npre
		saddr := sbase + nspre
		SetInfoPtr(uintptr(info))
		cmdLineKV = nil

		obs := []uint64{1}
		if kind != 0 {
			obs[0] = 2
		}
		var codes [4]uint64
		var msgs [4]string

		// ---- VisitMemRegions ----
		var regions []verifRegion
		if !mem.verifWalk(info, uint32(tagMemoryMap)) {
			codes[0] = verifHang
		} else {
			codes[0], msgs[0] = verifGuard("VisitMemRegions", func() {
				calls := uint64(0)
				VisitMemRegions(func(e *MemoryMapEntry) bool {
					if calls >= verifVisitorCap {
						panic(verifRunawayT{})
					}
					regions = append(regions, verifRegion{e.PhysAddress, e.Length, uint64(e.Type)})
					calls++
					return calls-1 != stop
				})
			})
		}
		obs = append(obs, codes[0], uint64(len(regions)))
		for _, r := range regions {
			obs = append(obs, r.addr, r.length, r.typ)
		}

		// ---- GetFramebufferInfo ----
		var fb verifFb
		if !mem.verifWalk(info, uint32(tagFramebufferInfo)) {
			codes[1] = verifHang
		} else {
			codes[1], msgs[1] = verifGuard("GetFramebufferInfo", func() {
				p := GetFramebufferInfo()
				if p == nil {
					return
				}
				fb.addr, fb.pitch, fb.width, fb.height = p.PhysAddr, uint64(p.Pitch), uint64(p.Width), uint64(p.Height)
				fb.bpp, fb.typ = uint64(p.Bpp), uint64(p.Type)
				if ci := p.RGBColorInfo(); ci != nil {
					fb.rgb = []uint64{uint64(ci.RedPosition), uint64(ci.RedMaskSize), uint64(ci.GreenPosition),
						uint64(ci.GreenMaskSize), uint64(ci.BluePosition), uint64(ci.BlueMaskSize)}
				}
				fb.present = true
			})
		}
		if codes[1] != verifOK || !fb.present {
			obs = append(obs, codes[1], 0)
		} else {
			obs = append(obs, 0, 1, fb.addr, fb.pitch, fb.width, fb.height, fb.bpp, fb.typ)
			if fb.rgb != nil {
				obs = append(obs, 1)
				obs = append(obs, fb.rgb...)
			} else {
				obs = append(obs, 0)
			}
		}

		// ---- GetBootCmdLine ----
		var kv map[string]string
		if !mem.verifWalk(info, uint32(tagBootCmdLine)) {
			codes[2] = verifHang
		} else {
			cmdLineKV = nil
			codes[2], msgs[2] = verifGuard("GetBootCmdLine", func() { kv = GetBootCmdLine() })
		}
		if codes[2] != verifOK {
			obs = append(obs, codes[2], 0)
		} else {
			keys := make([]string, 0, len(kv))
			for k := range kv {
				keys = append(keys, k)
			}
			sort.Strings(keys)
			obs = append(obs, 0, uint64(len(keys)))
			for _, k := range keys {
				for _, s := range []string{k, kv[k]} {
					obs = append(obs, uint64(len(s)))
					for i := 0; i < len(s); i++ {
						obs = append(obs, uint64(s[i]))
					}
				}
			}
		}
		cmdLineKV = nil

		// ---- VisitElfSections ----
		var secs []verifSection
		if !mem.verifWalk(info, uint32(tagElfSymbols)) {
			codes[3] = verifHang
		} else {
			codes[3], msgs[3] = verifGuard("VisitElfSections", func() {
				VisitElfSections(func(name string, flags ElfSectionFlag, address uintptr, size uint64) {
					secs = append(secs, verifSection{string(append([]byte(nil), name...)), uint64(flags), uint64(address), size})
				})
			})
		}
		obs = append(obs, codes[3], uint64(len(secs)))
		for _, s := range secs {
			obs = append(obs, uint64(len(s.name)))
			for i := 0; i < len(s.name); i++ {
				obs = append(obs, uint64(s.name[i]))
			}
			obs = append(obs, s.flags, s.addr, s.size)
		}
		out.Obs(c.id, obs)

		for i, cd := range codes {
			if cd == verifPanic {
				out.Mon(c.id, "c10:panic", "decoder %d panicked: %s", i, msgs[i])
			}
		}

		// ---- monitor: well-formed blocks only; compares with the generated mbinfo directly ----
		if kind == 0 {
			tags := verifDecodeMbinfo(cur)
			names := [4]string{"VisitMemRegions", "GetFramebufferInfo", "GetBootCmdLine", "VisitElfSections"}
			for i, cd := range codes {
				switch cd {
				case verifStray:
					out.Mon(c.id, "c10:read-outside-block", "%s read memory outside the information block / string table: %s", names[i], msgs[i])
				case verifHang:
					out.Mon(c.id, "c10:tag-scan-never-terminates", "%s: the tag scan of a well-formed block does not terminate", names[i])
				case verifRunaway:
					out.Mon(c.id, "c10:region-loop-runaway", "%s called the visitor more than %d times", names[i], verifVisitorCap)
				}
			}
			// regions
			if codes[0] == verifOK {
				var want []verifRegion
				if mt := verifFirst(tags, 6); mt != nil {
					for i, e := range mt.entries {
						ty := e.typ
						if !(ty == 1 || ty == 2 || ty == 3 || ty == 4) {
							ty = 2 // types outside the defined set are reported as reserved
						}
						want = append(want, verifRegion{e.addr, e.length, ty})
						if uint64(i) == stop {
							break
						}
					}
				}
				if len(want) != len(regions) {
					out.Mon(c.id, "c10:regions-differ", "visitor saw %d regions %v, the block encodes %v (visitor stops at call %d)", len(regions), regions, want, stop)
				} else {
					for i := range want {
						if want[i] == regions[i] {
							continue
						}
						enc := verifFirst(tags, 6).entries[i].typ
						if want[i].addr == regions[i].addr && want[i].length == regions[i].length && want[i].typ != enc {
							out.Mon(c.id, "c10:undefined-region-type-not-reserved", "region %d (%#x+%#x) has type %d in the block and was reported with type %d; types outside the defined set must be reported as reserved (%d)", i, regions[i].addr, regions[i].length, enc, regions[i].typ, want[i].typ)
						} else {
							out.Mon(c.id, "c10:regions-differ", "region %d reported as %v, the block encodes %v", i, regions[i], want[i])
						}
						break
					}
				}
			}
			// framebuffer
			if codes[1] == verifOK {
				var want verifFb
				if ft := verifFirst(tags, 8); ft != nil {
					want = verifFb{present: true, addr: ft.fb[0], pitch: ft.fb[1], width: ft.fb[2], height: ft.fb[3], bpp: ft.fb[4], typ: ft.fb[5]}
					if want.typ == 1 {
						want.rgb = ft.color[:6]
					}
				}
				if fmt.Sprint(want) != fmt.Sprint(fb) {
					out.Mon(c.id, "c10:framebuffer-differs", "reported %+v, the block encodes %+v", fb, want)
				}
			}
			// command line
			if codes[2] == verifOK {
				want := map[string]string{}
				if ct := verifFirst(tags, 1); ct != nil {
					for _, e := range ct.cmd {
						if e.kv {
							want[e.k] = e.v
						} else {
							want[e.k] = e.k
						}
					}
				}
				if fmt.Sprint(want) != fmt.Sprint(kv) {
					out.Mon(c.id, "c10:cmdline-differs", "reported %q, the block encodes %q", kv, want)
				}
			}
			// ELF sections
			if codes[3] == verifOK {
				var want []verifSection
				if et := verifFirst(tags, 9); et != nil {
					for _, h := range et.secs {
						if h.f[5] == 0 {
							continue
						}
						var name []byte
						for i := h.f[0]; i < uint64(len(str)) && str[i] != 0; i++ {
							name = append(name, byte(str[i]))
						}
						want = append(want, verifSection{string(name), uint64(uint32(h.f[2])), h.f[3], h.f[5]})
					}
				}
				if fmt.Sprint(want) != fmt.Sprint(secs) {
					out.Mon(c.id, "c10:elf-sections-differ", "visitor saw %q, the block encodes %q (string table at %#x)", secs, want, saddr)
				}
			}
		}
		unplace(segB)
		unplace(segS)
	}
}
