//go:build verif
// +build verif

package multiboot

// VerifResetCmdLine forgets the memoised boot command line so that the next GetBootCmdLine call parses
// the multiboot info block installed with SetInfoPtr again. It exists only under the build tag "verif"
// and is injected with `go test -overlay` by the C16 check (never written into the repository): the
// hal harness installs a different command line (consoleFont=..., consoleLogo=...) per scenario.
func VerifResetCmdLine() { cmdLineKV = nil }
