(** VisitElfSections of Multiboot/Model.v is the translation of the Go function (Gen/Trans_multiboot.v). *)
From Coq Require Import String NArith List Bool Lia.
From Coq Require Import ZifyBool ZifyN ZifyNat.
From FF Require Import Lib.Word Lib.GoOps Lib.GoOpsFmt Lib.GoMb Gen.Consts_multiboot Gen.Trans_multiboot Multiboot.Model Multiboot.DecodeTrans.
Import ListNotations.
Local Open Scope N_scope.

Lemma rd_bound m a n v : mem_bytes m -> rd m a n = Ok v -> v < 2 ^ (8 * n).
Proof.
  intros Hm. unfold rd. destruct (rd_bytes m a n) as [l|] eqn:E; [|discriminate]. intros H. injection H as <-.
  destruct (rd_bytes_ok _ _ _ _ Hm E) as [Hb Hl]. pose proof (le_bound l Hb) as Hlt. rewrite Hl, N2Nat.id in Hlt.
  replace (2 ^ (8 * n)) with (256 ^ n); [exact Hlt|]. rewrite N.pow_mul_r. reflexivity.
Qed.

Lemma gbytes_le_le l : byte_list l -> gbytes_le (length l) (le l) = l.
Proof.
  unfold byte_list. induction l as [|b r IH]; intros H; [reflexivity|]. inversion H; subst.
  cbn [length gbytes_le le]. f_equal.
  - rewrite N.mod_add by discriminate. apply N.mod_small. assumption.
  - rewrite N.div_add by discriminate. rewrite N.div_small by assumption. cbn [N.add]. apply IH. assumption.
Qed.

(** the string presented to the visitor = the model's read of the name *)
Lemma gldbytes_rd m d len : mem_bytes m ->
  gldbytes (mld m) d len = if len =? 0 then Some [] else rd_bytes m d len.
Proof.
  intros Hm. unfold gldbytes. destruct (len =? 0); [reflexivity|].
  rewrite gload_rd by exact Hm. unfold rd. destruct (rd_bytes m d len) as [l|] eqn:E; [|reflexivity].
  destruct (rd_bytes_ok _ _ _ _ Hm E) as [Hb Hl]. rewrite <- Hl. rewrite gbytes_le_le by exact Hb. reflexivity.
Qed.

Lemma name_scan_mono f : forall f' m strhdr e,
  (f <= f')%nat -> name_scan f m strhdr e <> Hang -> name_scan f' m strhdr e = name_scan f m strhdr e.
Proof.
  induction f as [|f IH]; intros f' m strhdr e Hle Hn; [exfalso; apply Hn; reflexivity|].
  destruct f' as [|f']; [lia|]. cbn [name_scan] in *. unfold bind in *.
  destruct (rd m (padd strhdr mb_off_elfSection64_address) 8) as [a| | |]; try reflexivity.
  destruct (rd m (padd a e) 1) as [b| | |]; try reflexivity.
  destruct (b =? 0); [reflexivity|]. apply IH; [lia|exact Hn].
Qed.

(** the loop that looks for the NUL of a section name, abstractly: any step function that does what the Go loop
    condition / post statement do is the model's [name_scan], fuel for fuel *)
Lemma inner_scan_generic {R : Type} (m : mem) (strhdr : N) (w : world)
      (step : world * N -> gres (gctl (world * N) R)) :
  (forall e, step (w, e) =
     match rd m (padd strhdr 16) 8 with
     | Ok a => match rd m (padd a e) 1 with
               | Ok b => if negb (b =? 0) then GOk (GNext (w, w64 (e + 1))) else GOk (GBreak (w, e))
               | _ => GPanic
               end
     | _ => GPanic
     end) ->
  forall F e, gloop F step (w, e) =
    match name_scan F m strhdr e with
    | Ok e' => GOk (inl (w, e'))
    | Stray => GPanic
    | Hang => GFuel
    | Runaway => GPanic
    end.
Proof.
  intros Hs. induction F as [|F IH]; intros e; [reflexivity|].
  cbn [gloop name_scan]. rewrite Hs. unfold bind. change mb_off_elfSection64_address with 16.
  destruct (rd_cases m (padd strhdr 16) 8) as [[a Ea]|Ea]; rewrite Ea; [|reflexivity].
  destruct (rd_cases m (padd a e) 1) as [[b Eb]|Eb]; rewrite Eb; [|reflexivity].
  destruct (b =? 0); cbn [negb]; [reflexivity|]. apply IH.
Qed.

Definition ev_section (s : section) : gcall :=
  GCall "visitor" [GBytes (sec_name s); GNum (sec_flags s); GNum (sec_addr s); GNum (sec_size s)].

Definition elf_conv (t0 : list gcall) (m : mem) (r : list section * outcome unit) : gres (world * unit) :=
  match r with
  | (rs, Ok _) => GOk (mkw (rev (map ev_section rs) ++ t0) m, tt)
  | _ => GPanic
  end.

Lemma visitElf_is_translation (fuel : nat) (t0 : list gcall) (m : mem) (info : N) :
  mem_bytes m -> (find_fuel m <= fuel)%nat -> (S (total_len m) <= fuel)%nat -> 65536 <= N.of_nat fuel ->
  snd (visit_elf_sections m info) <> Hang -> snd (visit_elf_sections m info) <> Runaway ->
  go_multiboot_VisitElfSections mld fuel (mkw t0 m) info = elf_conv t0 m (visit_elf_sections m info).
Proof.
  intros Hm Hff Hfs Hfn HnH HnR. unfold go_multiboot_VisitElfSections, visit_elf_sections in *.
  rewrite findTag_is_translation_fuel by exact Hm. cbn [f_world_mem mkw].
  unfold find_tag in *.
  destruct (find_tag_loop (find_fuel m) m (padd info mb_sizeof_info) mb_tagElfSymbols) as [[cur size]| | |] eqn:Ef.
  4: { exfalso. apply HnR. reflexivity. }
  3: { exfalso. apply HnH. reflexivity. }
  2: { rewrite (find_tag_loop_mono _ fuel _ _ _ Hff) by (rewrite Ef; discriminate). rewrite Ef. reflexivity. }
  rewrite (find_tag_loop_mono _ fuel _ _ _ Hff) by (rewrite Ef; discriminate). rewrite Ef. cbn [find_conv].
  destruct (size =? 0); [reflexivity|].
  cbn [f_world_mem mkw]. rewrite gload_rd by exact Hm. rewrite !gw64_padd.
  change mb_off_elfSections_strtabSectionIndex with 8 in *. change mb_off_elfSections_sectionData with 12 in *.
  change mb_off_elfSections_numSections with 0 in *. change mb_sizeof_elfSection64 with 64 in *.
  destruct (rd_cases m (padd cur 8) 4) as [[idx Ei]|Ei]; rewrite Ei in *; [|reflexivity].
  assert (Hidx : gw 64 idx = idx).
  { apply N.mod_small. pose proof (rd_bound _ _ _ _ Hm Ei) as Hb. change (2 ^ (8 * 4)) with 4294967296 in Hb. change (2 ^ 64) with 18446744073709551616. lia. }
  rewrite Hidx.
  change (gw 64 (padd cur 12)) with (w64 (padd cur 12)). rewrite (w64_small (padd cur 12)) by apply w64_lt.
  change (gw 64 (idx * 64)) with (w64 (idx * 64)).
  set (sec0 := padd cur 12) in *. set (strhdr := padd sec0 (w64 (idx * 64))) in *.
  match goal with |- context [gloop fuel ?s (_, _, _, _, _)] => set (step := s) end.
  destruct (rd_cases m (padd cur 0) 2) as [[num En]|En]; rewrite En in *.
  2: { destruct fuel as [|F]; [lia|]. cbn [gloop]. unfold step at 1. cbn [mkw f_world_mem].
       rewrite gload_rd by exact Hm. rewrite En. reflexivity. }
  assert (Hnum : num < 65536).
  { pose proof (rd_bound _ _ _ _ Hm En) as Hb. change (2 ^ (8 * 2)) with 65536 in Hb. exact Hb. }
  assert (L : forall count F i sec tr d l,
     (count < F)%nat -> i + N.of_nat count = num ->
     snd (visit_elf_loop count m strhdr sec) <> Hang ->
     match gloop (R := (world * unit)%type) F step (mkw tr m, i, d, l, sec) with
     | GPanic => GPanic | GFuel => GFuel
     | GOk (inr r) => GOk r
     | GOk (inl st) => let '(v_world, _, _, _, _) := st in GOk (v_world, tt)
     end = elf_conv tr m (visit_elf_loop count m strhdr sec)).
  { clear HnH HnR. induction count as [|count IH]; intros F i sec tr d l HF Hi HH; (destruct F as [|F]; [lia|]);
      cbn [gloop]; unfold step at 1; cbn [mkw f_world_mem f_world_trace set_f_world_trace]; cbn [visit_elf_loop] in *;
      rewrite gload_rd by exact Hm; rewrite En.
    - replace (i <? num) with false by (symmetry; apply N.ltb_ge; lia). reflexivity.
    - replace (i <? num) with true by (symmetry; apply N.ltb_lt; lia).
      unfold read_section, bind in *. rewrite !gload_rd by exact Hm. rewrite !gw64_padd.
      change mb_off_elfSection64_size with 32 in *. change mb_off_elfSection64_nameIndex with 0 in *.
      change mb_off_elfSection64_flags with 8 in *. change mb_off_elfSection64_address with 16 in *.
      change mb_sizeof_elfSection64 with 64 in *.
      destruct (rd_cases m (padd sec 32) 8) as [[sz Esz]|Esz]; rewrite Esz in *; [|reflexivity].
      destruct (sz =? 0) eqn:Ez.
      + specialize (IH F (gw 16 (i + 1)) (padd sec 64) tr d l).
        rewrite IH; [destruct (visit_elf_loop count m strhdr (padd sec 64)) as [rs o]; reflexivity|lia| |].
        * unfold gw. rewrite N.mod_small by (change (2 ^ 16) with 65536; lia). lia.
        * intro E. apply HH. destruct (visit_elf_loop count m strhdr (padd sec 64)) as [rs o]. exact E.
      + destruct (rd_cases m (padd sec 0) 4) as [[ni Eni]|Eni]; rewrite Eni in *; [|reflexivity].
        assert (Hni : gw 64 ni = ni).
        { apply N.mod_small. pose proof (rd_bound _ _ _ _ Hm Eni) as Hb. change (2 ^ (8 * 4)) with 4294967296 in Hb. change (2 ^ 64) with 18446744073709551616. lia. }
        rewrite !Hni.
        match goal with |- context [gloop fuel ?s (mkw tr m, ni)] => rewrite (inner_scan_generic m strhdr (mkw tr m) s) end.
        2: { intros e. cbn [mkw f_world_mem]. rewrite gload_rd by exact Hm.
             change (padd (padd sec0 (w64 (idx * 64))) 16) with (padd strhdr 16).
             destruct (rd m (padd strhdr 16) 8) as [a| | |] eqn:Ea; try reflexivity.
             assert (Ha : gw 64 a = a).
             { apply N.mod_small. pose proof (rd_bound _ _ _ _ Hm Ea) as Hb. exact Hb. }
             rewrite Ha. rewrite gload_rd by exact Hm. rewrite gw64_padd.
             destruct (rd m (padd a e) 1) as [b| | |]; try reflexivity. }
        assert (HnS : name_scan (S (total_len m)) m strhdr ni <> Hang).
        { intro E. apply HH. rewrite E. reflexivity. }
        rewrite (name_scan_mono _ fuel _ _ _ Hfs HnS).
        destruct (name_scan (S (total_len m)) m strhdr ni) as [e| | |]; try reflexivity; [|exfalso; apply HnS; reflexivity].
        cbn [mkw f_world_mem f_world_trace set_f_world_trace]. rewrite !gload_rd by exact Hm. rewrite Eni.
        change (padd (padd sec0 (w64 (idx * 64))) 16) with (padd strhdr 16).
        destruct (rd_cases m (padd strhdr 16) 8) as [[a Ea]|Ea]; rewrite Ea in *; [|reflexivity].
        assert (Ha : gw 64 a = a).
        { apply N.mod_small. exact (rd_bound _ _ _ _ Hm Ea). }
        rewrite !Ha, !Hni. rewrite gldbytes_rd by exact Hm.
        change (gw 64 (gw 64 (a + ni))) with (w64 (padd a ni)). rewrite (w64_small (padd a ni)) by apply w64_lt.
        change (gw 64 (gsub 64 e ni)) with (w64 (sub64 e ni)). rewrite (w64_small (sub64 e ni)) by apply w64_lt.
        rewrite Esz.
        assert (T : forall name : list N,
          snd match
              match rd m (padd sec 8) 8 with
              | Ok a0 =>
                  match rd m (padd sec 16) 8 with
                  | Ok a1 => Ok (Some (mkSection name (w32 a0) a1 sz))
                  | Stray => Stray | Hang => Hang | Runaway => Runaway
                  end
              | Stray => Stray | Hang => Hang | Runaway => Runaway
              end
            with
            | Ok o =>
                let '(rs, out) := visit_elf_loop count m strhdr (padd sec 64) in
                (match o with Some s => s :: rs | None => rs end, out)
            | Stray => ([], Stray)
            | Hang => ([], Hang)
            | Runaway => ([], Runaway)
            end <> Hang ->
          match
            match
              match match rd m (padd sec 8) 8 with Ok v => Some v | _ => None end with
              | Some t12 =>
                  match match rd m (padd sec 16) 8 with Ok v => Some v | _ => None end with
                  | Some t13 =>
                      GOk (GNext (set_f_world_trace (mkw tr m)
                                    (GCall "visitor" [GBytes name; GNum (gw 32 t12); GNum (gw 64 t13); GNum sz] :: tr),
                                  gw 16 (i + 1), padd a ni, sub64 e ni, padd sec 64))
                  | None => GPanic
                  end
              | None => GPanic
              end
            with
            | GOk (GNext s') => gloop (R := (world * unit)%type) F step s'
            | GOk (GBreak s') => GOk (inl s')
            | GOk (GRet r) => GOk (inr r)
            | GPanic => GPanic
            | GFuel => GFuel
            end
          with
          | GOk (inl (v_world, _, _, _, _)) => GOk (v_world, tt)
          | GOk (inr r) => GOk r
          | GPanic => GPanic
          | GFuel => GFuel
          end =
          elf_conv tr m
            match
              match rd m (padd sec 8) 8 with
              | Ok a0 =>
                  match rd m (padd sec 16) 8 with
                  | Ok a1 => Ok (Some (mkSection name (w32 a0) a1 sz))
                  | Stray => Stray | Hang => Hang | Runaway => Runaway
                  end
              | Stray => Stray | Hang => Hang | Runaway => Runaway
              end
            with
            | Ok o =>
                let '(rs, out) := visit_elf_loop count m strhdr (padd sec 64) in
                (match o with Some s => s :: rs | None => rs end, out)
            | Stray => ([], Stray)
            | Hang => ([], Hang)
            | Runaway => ([], Runaway)
            end).
        { intros name HH0.
          destruct (rd_cases m (padd sec 8) 8) as [[fl Efl]|Efl]; rewrite Efl in *; [|reflexivity].
          destruct (rd_cases m (padd sec 16) 8) as [[ad Ead]|Ead]; rewrite Ead in *; [|reflexivity].
          assert (Had : gw 64 ad = ad) by (apply N.mod_small; exact (rd_bound _ _ _ _ Hm Ead)).
          rewrite Had. cbn [set_f_world_trace mkw f_world_mem].
          eapply eq_trans;
            [apply (IH F (gw 16 (i + 1)) (padd sec 64)
                       (GCall "visitor" [GBytes name; GNum (gw 32 fl); GNum ad; GNum sz] :: tr) (padd a ni) (sub64 e ni))|].
          - lia.
          - unfold gw. rewrite N.mod_small by (change (2 ^ 16) with 65536; lia). lia.
          - intro E. apply HH0. destruct (visit_elf_loop count m strhdr (padd sec 64)) as [rs o]. exact E.
          - destruct (visit_elf_loop count m strhdr (padd sec 64)) as [rs [u| | |]]; cbn [elf_conv map rev]; try reflexivity.
            rewrite <- app_assoc. reflexivity. }
        destruct (sub64 e ni =? 0); [apply T; exact HH|].
        destruct (rd_bytes m (padd a ni) (sub64 e ni)) as [nm|]; [apply T; exact HH|reflexivity]. }
  apply (L (N.to_nat num) fuel (gw 16 0) sec0 t0 0 0).
  - lia.
  - change (gw 16 0) with 0. lia.
  - exact HnH.
Qed.

