(** findTagByType on an encoded block: finds the first tag of the wanted type, no stray read. *)
From Coq Require Import NArith ZArith List Bool Lia Arith.
From Coq Require Import ZifyBool ZifyN ZifyNat.
From FF Require Import Lib.Word Gen.Consts_multiboot Multiboot.Model Multiboot.Spec Multiboot.MemLemmas.
Import ListNotations.
Local Open Scope N_scope.

Ltac Zify.zify_post_hook ::= Z.div_mod_to_equations.

Definition tag_span (tp : tag * list N) : N := 8 + len (payload (fst tp)) + len (snd tp).

(** offset (from the start of the block) and content of the first tag of type [ty] *)
Fixpoint locate (ty : N) (ts : list (tag * list N)) (o : N) : option (N * tag) :=
  match ts with
  | [] => None
  | tp :: r => if tag_type (fst tp) =? ty then Some (o, fst tp) else locate ty r (o + tag_span tp)
  end.

Lemma len_enc_tag tp : len (enc_tag tp) = tag_span tp.
Proof. unfold enc_tag, tag_span. rewrite !len_app, !len_le32. lia. Qed.

Lemma len_end_tag : len end_tag = 8.
Proof. reflexivity. Qed.

Lemma two32_val : two32 = 4294967296. Proof. reflexivity. Qed.
Lemma two64_val : two64 = 18446744073709551616. Proof. reflexivity. Qed.
Lemma two16_val : two16 = 65536. Proof. reflexivity. Qed.

Lemma andnot7 x : andnot x 7 = x - x mod 8.
Proof. change 7 with (2 ^ 3 - 1). rewrite andnot_pow2. reflexivity. Qed.

Lemma tag_step_ok sz padn :
  sz + 7 < 0x80000000 -> padn = pad_len sz -> tag_step sz = sz + padn.
Proof.
  intros Hsz ->. unfold tag_step, sext32, pad_len.
  rewrite w32_small by (rewrite two32_val; lia).
  rewrite andnot7.
  replace (sz + 7 - (sz + 7) mod 8 <? 2147483648) with true by lia.
  lia.
Qed.

Lemma sub32_8 n : n < two32 - 8 -> sub32 (8 + n) 8 = n.
Proof.
  intros H. unfold sub32. rewrite (w32_small 8) by (rewrite two32_val; lia).
  unfold w32. rewrite two32_val in *. lia.
Qed.

Lemma tag_type_ok sa st t : tag_wf sa st t -> tag_type t < two32 /\ tag_type t <> 0.
Proof.
  destruct t; cbn [tag_wf tag_type]; intros H; try (split; [reflexivity | discriminate]).
  destruct H as [H1 [H2 _]]. split; [exact H1 | exact H2].
Qed.

Section Find.
  Variable l : layout.
  Variable block : list N.
  Variable sa : N.
  Variable st : list N.
  Hypothesis Hlay : lay_ok l block.
  Hypothesis Hsmall : len block < 0x80000000.

  Lemma find_loop ts : forall o fuel ty,
    sub_at block o (flat_map enc_tag ts ++ end_tag) ->
    Forall (tagpad_wf sa st) ts -> ty <> 0 -> (length ts < fuel)%nat ->
    find_tag_loop fuel (mem_of l block) (l_info l + o) ty =
      Ok (match locate ty ts o with
          | Some (o', t) => (l_info l + o' + 8, len (payload t))
          | None => (0, 0)
          end).
  Proof.
    assert (Hend : l_info l + len block < two64) by (apply Hlay).
    induction ts as [|tp ts IH]; intros o fuel ty Hsub Hwf Hty Hfuel.
    - destruct fuel as [|fuel]; [cbn in Hfuel; lia|].
      cbn [flat_map app] in Hsub. cbn [find_tag_loop locate].
      unfold mb_off_tagHeader_tagType. rewrite padd_small by (apply sub_at_bound in Hsub; rewrite len_end_tag in Hsub; lia).
      rewrite N.add_0_r.
      assert (H0 : sub_at block o (le32 mb_tagMbSectionEnd)) by (apply (sub_at_app_l _ _ _ (le32 8)); exact Hsub).
      rewrite (rd_blk32 l block Hlay o mb_tagMbSectionEnd H0) by reflexivity.
      cbn [bind]. reflexivity.
    - destruct fuel as [|fuel]; [cbn in Hfuel; lia|].
      inversion Hwf as [|? ? Htp Hwf']; subst. destruct Htp as [Ht [Hpb Hpl]].
      destruct (tag_type_ok _ _ _ Ht) as [Htt Htnz].
      cbn [flat_map] in Hsub. rewrite <- app_assoc in Hsub.
      assert (Hb := sub_at_bound _ _ _ Hsub). rewrite len_app, len_enc_tag in Hb. rewrite len_app, len_end_tag in Hb.
      assert (Htag : sub_at block o (enc_tag tp)) by (apply (sub_at_app_l _ _ _ _ Hsub)).
      unfold enc_tag in Htag.
      assert (H1 : sub_at block o (le32 (tag_type (fst tp)))) by (apply (sub_at_app_l _ _ _ _ Htag)).
      apply sub_at_app_r in Htag. rewrite len_le32 in Htag.
      assert (H2 : sub_at block (o + 4) (le32 (8 + len (payload (fst tp))))) by (apply (sub_at_app_l _ _ _ _ Htag)).
      unfold tag_span in Hb.
      cbn [find_tag_loop]. unfold mb_off_tagHeader_tagType, mb_off_tagHeader_size.
      rewrite padd_small by lia. rewrite N.add_0_r.
      rewrite (rd_blk32 l block Hlay o _ H1) by exact Htt.
      cbn [bind]. unfold mb_tagMbSectionEnd.
      destruct (tag_type (fst tp) =? 0) eqn:E0; [apply N.eqb_eq in E0; contradiction|].
      rewrite padd_small by lia. rewrite <- N.add_assoc.
      rewrite (rd_blk32 l block Hlay (o + 4) _ H2) by (rewrite two32_val; lia).
      cbn [bind locate].
      destruct (tag_type (fst tp) =? ty) eqn:Et.
      + rewrite padd_small by lia. rewrite sub32_8 by (rewrite two32_val; lia). reflexivity.
      + rewrite (tag_step_ok _ (len (snd tp))) by (try exact Hpl; lia).
        rewrite padd_small by lia.
        replace (l_info l + o + (8 + len (payload (fst tp)) + len (snd tp))) with (l_info l + (o + tag_span tp)) by (unfold tag_span; lia).
        apply IH; try assumption.
        * apply sub_at_app_r in Hsub. rewrite len_enc_tag in Hsub. exact Hsub.
        * cbn [length] in Hfuel. lia.
  Qed.
End Find.

Lemma length_flat_enc ts : (8 * length ts <= length (flat_map enc_tag ts))%nat.
Proof.
  induction ts as [|tp ts IH]; [cbn; lia|].
  cbn [flat_map length]. rewrite app_length. unfold enc_tag at 1. rewrite !app_length.
  unfold le32. rewrite !length_bytes_le. lia.
Qed.

Lemma length_encode mb : (16 + 8 * length (mb_tags mb) <= length (encode mb))%nat.
Proof.
  unfold encode, enc_body. rewrite !app_length. unfold le32. rewrite !length_bytes_le.
  pose proof (length_flat_enc (mb_tags mb)). change (length end_tag) with 8%nat. lia.
Qed.

Lemma sub_at_body mb : sub_at (encode mb) 8 (enc_body mb).
Proof.
  unfold encode. pose proof (sub_at_refl (le32 (8 + len (enc_body mb)) ++ le32 (mb_reserved mb) ++ enc_body mb)) as H.
  apply sub_at_app_r in H. rewrite len_le32 in H. apply sub_at_app_r in H. rewrite len_le32 in H. exact H.
Qed.

(** findTagByType on an encoded well-formed block *)
Lemma find_tag_encode (l : layout) (mb : mbinfo) (ty : N) :
  mbinfo_wf (l_saddr l) (l_strtab l) mb -> layout_wf l (encode mb) -> ty <> 0 ->
  find_tag (mem_of l (encode mb)) (l_info l) ty =
    Ok (match locate ty (mb_tags mb) 8 with
        | Some (o, t) => (l_info l + o + 8, len (payload t))
        | None => (0, 0)
        end).
Proof.
  intros [Hr [Hts Hsm]] Hlw Hty. pose proof (layout_wf_ok _ _ Hlw) as Hlay.
  assert (Hend : l_info l + len (encode mb) < two64) by (apply Hlay).
  unfold find_tag. unfold mb_sizeof_info. rewrite padd_small by (pose proof (length_encode mb); unfold len in Hend; lia).
  apply (find_loop l (encode mb) (l_saddr l) (l_strtab l) Hlay Hsm); try assumption.
  - apply sub_at_body.
  - unfold find_fuel, mem_of, total_len. cbn [fold_right s_data]. rewrite !app_length.
    pose proof (length_encode mb) as H.
    assert ((length (mb_tags mb) + 2 <= (length (l_pre l) + length (encode mb) + (length (l_spre l) + length (l_strtab l) + 0)) / 8)%nat).
    { apply Nat.div_le_lower_bound; lia. }
    lia.
Qed.

(** where the located tag's payload is *)
Lemma locate_sub block sa st ts : forall o ty o' t E,
  sub_at block o (flat_map enc_tag ts ++ E) -> Forall (tagpad_wf sa st) ts ->
  locate ty ts o = Some (o', t) ->
  sub_at block (o' + 8) (payload t) /\ tag_wf sa st t /\ tag_type t = ty.
Proof.
  induction ts as [|tp ts IH]; intros o ty o' t E Hsub Hwf Hloc; [discriminate|].
  cbn [locate] in Hloc. inversion Hwf as [|? ? Htp Hwf']; subst.
  cbn [flat_map] in Hsub. rewrite <- app_assoc in Hsub.
  destruct (tag_type (fst tp) =? ty) eqn:Et.
  - injection Hloc as <- <-. split; [|split; [apply Htp | apply N.eqb_eq; exact Et]].
    apply sub_at_app_l in Hsub. unfold enc_tag in Hsub.
    apply sub_at_app_r in Hsub. rewrite len_le32 in Hsub.
    apply sub_at_app_r in Hsub. rewrite len_le32 in Hsub.
    apply sub_at_app_l in Hsub. replace (o + 8) with (o + 4 + 4) by lia. exact Hsub.
  - apply (IH (o + tag_span tp) ty o' t E); try assumption.
    apply sub_at_app_r in Hsub. rewrite len_enc_tag in Hsub. exact Hsub.
Qed.

(** the located tag is the first one selected by [sel], if [sel] selects exactly the type [ty] *)
Lemma locate_first {A : Type} (sel : tag -> option A) sa st ty ts :
  (forall t, tag_wf sa st t -> (sel t <> None <-> tag_type t = ty)) ->
  Forall (tagpad_wf sa st) ts -> forall o,
  match first_tag sel ts with
  | Some a => exists o' t, locate ty ts o = Some (o', t) /\ sel t = Some a
  | None => locate ty ts o = None
  end.
Proof.
  intros Hsel Hwf. induction Hwf as [|tp ts Htp Hwf IH]; intros o; [reflexivity|].
  destruct tp as [t pad]. cbn [first_tag locate fst].
  destruct Htp as [Ht _]. cbn [fst] in Ht. specialize (Hsel t Ht).
  destruct (sel t) as [a|] eqn:Es.
  - assert (Hty : tag_type t = ty) by (apply Hsel; discriminate).
    rewrite Hty, N.eqb_refl. exists o, t. split; [reflexivity | exact Es].
  - destruct (tag_type t =? ty) eqn:Et.
    + apply N.eqb_eq in Et. apply Hsel in Et. contradiction.
    + apply IH.
Qed.

Lemma sel_memmap_type sa st t : tag_wf sa st t -> (sel_memmap t <> None <-> tag_type t = mb_tagMemoryMap).
Proof.
  destruct t; cbn [tag_wf sel_memmap tag_type]; intros H; split; intros H'; try reflexivity; try discriminate; try contradiction.
  destruct H as [_ [_ [Hd _]]]. rewrite H' in Hd. discriminate.
Qed.

Lemma sel_fb_type sa st t : tag_wf sa st t -> (sel_fb t <> None <-> tag_type t = mb_tagFramebufferInfo).
Proof.
  destruct t; cbn [tag_wf sel_fb tag_type]; intros H; split; intros H'; try reflexivity; try discriminate; try contradiction.
  destruct H as [_ [_ [Hd _]]]. rewrite H' in Hd. discriminate.
Qed.

Lemma sel_cmd_type sa st t : tag_wf sa st t -> (sel_cmd t <> None <-> tag_type t = mb_tagBootCmdLine).
Proof.
  destruct t; cbn [tag_wf sel_cmd tag_type]; intros H; split; intros H'; try reflexivity; try discriminate; try contradiction.
  destruct H as [_ [_ [Hd _]]]. rewrite H' in Hd. discriminate.
Qed.

Lemma sel_elf_type sa st t : tag_wf sa st t -> (sel_elf t <> None <-> tag_type t = mb_tagElfSymbols).
Proof.
  destruct t; cbn [tag_wf sel_elf tag_type]; intros H; split; intros H'; try reflexivity; try discriminate; try contradiction.
  destruct H as [_ [_ [Hd _]]]. rewrite H' in Hd. discriminate.
Qed.
