(** GetBootCmdLine on an encoded block: the key/value map of the first command-line tag. *)
From Coq Require Import NArith ZArith List Bool Lia Arith.
From Coq Require Import ZifyBool ZifyN ZifyNat.
From FF Require Import Lib.Word Gen.Consts_multiboot Multiboot.Model Multiboot.Spec Multiboot.MemLemmas Multiboot.FindProofs.
Import ListNotations.
Local Open Scope N_scope.

Ltac Zify.zify_post_hook ::= Z.div_mod_to_equations.

(** ASCII characters that are not white space *)
Definition nospace (w : text) : Prop := Forall (fun c => is_space c = false /\ c < 128) w.
Definition noeq (w : text) : Prop := Forall (fun c => c <> 61) w.

(** ---- white-space runes ---- *)
Lemma find_all_false {A : Type} (f : A -> bool) l : Forall (fun x => f x = false) l -> find f l = None.
Proof. induction 1 as [|x l Hx Hl IH]; [reflexivity|]. cbn [find]. rewrite Hx. exact IH. Qed.

Lemma space_width_ascii c r : c < 128 -> space_width (c :: r) = if is_space c then 1%nat else 0%nat.
Proof.
  intros Hc. unfold space_width. destruct (is_space c); [reflexivity|].
  rewrite find_all_false; [reflexivity|].
  unfold unicode_spaces. repeat constructor; cbn [has_prefix];
    match goal with |- (?k =? c) && _ = false => replace (k =? c) with false by lia; reflexivity end.
Qed.

Lemma space_unit_nonempty u : space_unit u -> u <> [].
Proof.
  intros [[c [-> _]]|Hin]; [discriminate|]. unfold unicode_spaces in Hin.
  repeat (destruct Hin as [<-|Hin]; [discriminate|]). destruct Hin.
Qed.

(** a white-space rune ends the current field *)
Lemma fields_unit u r cur : space_unit u ->
  fields_loop (u ++ r) cur 0 =
    (match cur with Some w => [rev w] | None => [] end) ++ fields_loop r None 0.
Proof.
  intros [[c [-> Hc]]|Hin].
  - cbn [app fields_loop space_width]. rewrite Hc. destruct cur; reflexivity.
  - unfold unicode_spaces in Hin.
    repeat (destruct Hin as [<-|Hin]; [destruct cur; reflexivity|]). destruct Hin.
Qed.

(** ---- strings.Fields ---- *)
Lemma fields_spaces ws r : spaces ws -> fields_loop (ws ++ r) None 0 = fields_loop r None 0.
Proof.
  intros [us [-> Hus]]. induction Hus as [|u us Hu Hus IH]; [reflexivity|].
  cbn [concat]. rewrite <- app_assoc. rewrite (fields_unit u _ None Hu). exact IH.
Qed.

Lemma fields_word_acc w : forall acc r, nospace w ->
  fields_loop (w ++ r) (Some acc) 0 = fields_loop r (Some (rev w ++ acc)) 0.
Proof.
  induction w as [|c w IH]; intros acc r Hw; [reflexivity|].
  inversion Hw as [|? ? [Hc Hc128] Hw']; subst. cbn [app fields_loop].
  rewrite (space_width_ascii c _ Hc128), Hc.
  rewrite IH by exact Hw'. cbn [rev]. rewrite <- app_assoc. reflexivity.
Qed.

Lemma fields_word w r : nospace w -> w <> [] ->
  fields_loop (w ++ r) None 0 = fields_loop r (Some (rev w)) 0.
Proof.
  intros Hw Hne. destruct w as [|c w]; [contradiction|].
  inversion Hw as [|? ? [Hc Hc128] Hw']; subst. cbn [app fields_loop].
  rewrite (space_width_ascii c _ Hc128), Hc.
  rewrite fields_word_acc by exact Hw'. reflexivity.
Qed.

Lemma fields_token_ws w ws r : nospace w -> w <> [] -> spaces ws -> ws <> [] ->
  fields_loop (w ++ ws ++ r) None 0 = w :: fields_loop r None 0.
Proof.
  intros Hw Hne [us [-> Hus]] Hwsne. rewrite fields_word by assumption.
  destruct us as [|u us]; [contradiction Hwsne; reflexivity|].
  cbn [concat]. rewrite <- app_assoc.
  rewrite (fields_unit u _ _ (Forall_inv Hus)). rewrite rev_involutive. cbn [app]. apply f_equal.
  apply fields_spaces. exists us. split; [reflexivity | apply (Forall_inv_tail Hus)].
Qed.

Lemma fields_token_last w ws : nospace w -> w <> [] -> spaces ws ->
  fields_loop (w ++ ws) None 0 = [w].
Proof.
  intros Hw Hne Hws. destruct ws as [|s ws].
  - rewrite fields_word by assumption. cbn [fields_loop]. rewrite rev_involutive. reflexivity.
  - rewrite <- (app_nil_r (s :: ws)). rewrite fields_token_ws; try assumption; [reflexivity | discriminate].
Qed.

(** ---- strings.Split(s, "=") ---- *)
Lemma split_noeq w : forall cur r, noeq w -> split_eq_loop (w ++ r) cur = split_eq_loop r (rev w ++ cur).
Proof.
  induction w as [|c w IH]; intros cur r Hw; [reflexivity|].
  inversion Hw as [|? ? Hc Hw']; subst. cbn [app split_eq_loop].
  replace (c =? 61) with false by lia. rewrite IH by exact Hw'. cbn [rev]. rewrite <- app_assoc. reflexivity.
Qed.

Lemma split_bare f : noeq f -> split_eq f = [f].
Proof.
  intros H. unfold split_eq. rewrite <- (app_nil_r f) at 1. rewrite split_noeq by exact H.
  cbn [split_eq_loop]. rewrite app_nil_r, rev_involutive. reflexivity.
Qed.

Lemma split_kv k v : noeq k -> noeq v -> split_eq (k ++ 61 :: v) = [k; v].
Proof.
  intros Hk Hv. unfold split_eq. rewrite split_noeq by exact Hk. cbn [split_eq_loop N.eqb Pos.eqb].
  rewrite app_nil_r, rev_involutive. f_equal.
  rewrite <- (app_nil_r v) at 1. rewrite split_noeq by exact Hv. cbn [split_eq_loop].
  rewrite app_nil_r, rev_involutive. reflexivity.
Qed.

(** ---- words ---- *)
Lemma word_nospace w : word w -> nospace w.
Proof. apply Forall_impl. intros c [_ [H128 [H _]]]. split; assumption. Qed.

Lemma word_noeq w : word w -> noeq w.
Proof. apply Forall_impl. intros c [_ [_ [_ H]]]. exact H. Qed.

Lemma token_nospace e : cmd_entry_wf e -> nospace (enc_cmd_entry e) /\ enc_cmd_entry e <> [].
Proof.
  destruct e as [k v|f]; cbn [cmd_entry_wf enc_cmd_entry].
  - intros [Hk Hv]. split.
    + apply Forall_app. split; [apply word_nospace; exact Hk|]. constructor; [split; reflexivity | apply word_nospace; exact Hv].
    + destruct k; discriminate.
  - intros [Hf Hne]. split; [apply word_nospace; exact Hf | exact Hne].
Qed.

Lemma add_pair_token al e : cmd_entry_wf e ->
  add_pair al (enc_cmd_entry e) = assign (fst (entry_pair e)) (snd (entry_pair e)) al.
Proof.
  destruct e as [k v|f]; cbn [cmd_entry_wf enc_cmd_entry entry_pair fst snd]; unfold add_pair.
  - intros [Hk Hv]. rewrite split_kv by (apply word_noeq; assumption). reflexivity.
  - intros [Hf _]. rewrite split_bare by (apply word_noeq; assumption). reflexivity.
Qed.

Lemma fields_entries es : entries_wf es ->
  fields_loop (flat_map (fun p => enc_cmd_entry (fst p) ++ snd p) es) None 0 = map (fun p => enc_cmd_entry (fst p)) es.
Proof.
  induction es as [|[e ws] es IH]; [reflexivity|].
  cbn [entries_wf]. intros [He [Hws [Hne Hes]]].
  destruct (token_nospace e He) as [Hns Htne].
  cbn [flat_map map fst snd].
  destruct es as [|p es'].
  - cbn [flat_map map]. rewrite app_nil_r. apply fields_token_last; assumption.
  - rewrite <- app_assoc. rewrite fields_token_ws; try assumption; [|apply Hne; discriminate].
    f_equal. apply IH. exact Hes.
Qed.

Lemma entries_wf_forall es : entries_wf es -> Forall (fun p => cmd_entry_wf (fst p)) es.
Proof.
  induction es as [|[e ws] es IH]; [constructor|]. cbn [entries_wf]. intros [He [_ [_ Hes]]].
  constructor; [exact He | apply IH; exact Hes].
Qed.

Lemma parse_cmd_text c : cmdline_wf c ->
  parse_cmdline (cmd_text c) =
    fold_left (fun al e => assign (fst (entry_pair (fst e))) (snd (entry_pair (fst e))) al) (c_entries c) [].
Proof.
  intros [Hlead Hes]. unfold parse_cmdline, fields, cmd_text.
  rewrite fields_spaces by exact Hlead. rewrite fields_entries by exact Hes.
  pose proof (entries_wf_forall _ Hes) as Hall. clear Hes.
  generalize (@nil (text * text)). induction Hall as [|p es Hp Hall IH]; intros al; [reflexivity|].
  cbn [map fold_left]. rewrite add_pair_token by exact Hp. apply IH.
Qed.

Lemma sub32_1 n : n < two32 - 1 -> sub32 (n + 1) 1 = n.
Proof.
  intros H. unfold sub32. rewrite (w32_small 1) by (rewrite two32_val; lia).
  unfold w32. rewrite two32_val in *. lia.
Qed.

(** GetBootCmdLine on an encoded well-formed block *)
Lemma get_boot_cmdline_encode (l : layout) (mb : mbinfo) :
  mbinfo_wf (l_saddr l) (l_strtab l) mb -> layout_wf l (encode mb) ->
  get_boot_cmdline (mem_of l (encode mb)) (l_info l) = Ok (expected_cmdline mb).
Proof.
  intros Hwf Hlw. pose proof (layout_wf_ok _ _ Hlw) as Hlay.
  unfold get_boot_cmdline. rewrite (find_tag_encode l mb _ Hwf Hlw) by discriminate.
  destruct Hwf as [Hr [Hts Hsm]].
  pose proof (locate_first sel_cmd _ _ mb_tagBootCmdLine (mb_tags mb) (sel_cmd_type _ _) Hts 8) as Hfirst.
  unfold expected_cmdline.
  destruct (first_tag sel_cmd (mb_tags mb)) as [c|].
  - destruct Hfirst as [o' [t [Hloc Hsel]]]. rewrite Hloc.
    destruct t; try discriminate. cbn [sel_cmd] in Hsel. injection Hsel as ->.
    destruct (locate_sub (encode mb) _ _ (mb_tags mb) 8 _ o' _ end_tag (sub_at_body mb) Hts Hloc) as [Hsub [Htw _]].
    cbn [tag_wf payload] in *. cbn [bind].
    assert (Hb := sub_at_bound _ _ _ Hsub). rewrite len_app in Hb. change (len [0]) with 1 in Hb.
    rewrite len_app. change (len [0]) with 1.
    replace (len (cmd_text c) + 1 =? 0) with false by lia.
    rewrite sub32_1 by (rewrite two32_val; lia).
    rewrite <- (parse_cmd_text c Htw).
    destruct (len (cmd_text c) =? 0) eqn:E0.
    + apply N.eqb_eq in E0. destruct (cmd_text c); [reflexivity | rewrite len_cons in E0; lia].
    + rewrite <- N.add_assoc. rewrite (rd_blk l (encode mb) Hlay _ _ (sub_at_app_l _ _ _ _ Hsub)). reflexivity.
  - rewrite Hfirst. reflexivity.
Qed.
