(** The regenerated decoders (Gen/Trans_multiboot.v) on a well-formed multiboot information block: the
    translation theorems of Multiboot/DecodeTrans.v composed with the decode/encode theorems of C10. *)
From Coq Require Import String NArith List Bool Lia.
From FF Require Import Lib.Word Lib.GoOps Gen.Consts_multiboot Gen.Trans_multiboot Multiboot.Model Multiboot.Spec
  Multiboot.MemLemmas Multiboot.FindProofs Multiboot.FbProofs Multiboot.AfterVisit Multiboot.AfterVisitProofs Multiboot.ElfProofs Multiboot.DecodeTrans Multiboot.DecodeTransElf.
Import ListNotations.
Local Open Scope N_scope.

(** ---- a well-formed block is a list of bytes, so [mem_bytes] holds for its placement ---- *)
Lemma bytes_app a b : bytes a -> bytes b -> bytes (a ++ b).
Proof. unfold bytes. intros. apply Forall_app. split; assumption. Qed.

Lemma bytes_flat_map {A} (f : A -> list N) l : Forall (fun x => bytes (f x)) l -> bytes (flat_map f l).
Proof.
  induction l as [|x l IH]; intros H; [constructor|]. inversion H; subst. cbn [flat_map].
  apply bytes_app; [assumption|apply IH; assumption].
Qed.

Lemma bytes_concat us : Forall bytes us -> bytes (concat us).
Proof.
  induction us as [|u us IH]; intros H; [constructor|]. inversion H; subst. cbn [concat].
  apply bytes_app; [assumption|apply IH; assumption].
Qed.

Ltac bytes_auto := repeat first [apply bytes_app | apply bytes_bytes_le | assumption].

Lemma word_bytes w : word w -> bytes w.
Proof.
  unfold word, bytes. intros H. eapply Forall_impl; [|exact H]. intros c [_ [Hc _]]. cbn beta. lia.
Qed.

Lemma space_unit_bytes u : space_unit u -> bytes u.
Proof.
  intros [[c [-> Hc]]|Hin].
  - constructor; [|constructor]. unfold is_space in Hc.
    repeat (apply orb_prop in Hc; destruct Hc as [Hc|Hc]); apply N.eqb_eq in Hc; subst; reflexivity.
  - unfold unicode_spaces in Hin. cbn [In] in Hin.
    repeat (destruct Hin as [<-|Hin]; [repeat constructor|]). contradiction.
Qed.

Lemma spaces_bytes w : spaces w -> bytes w.
Proof.
  intros [us [-> H]]. apply bytes_concat. eapply Forall_impl; [|exact H]. intros u Hu. apply space_unit_bytes. exact Hu.
Qed.

Lemma cmd_entry_bytes e : cmd_entry_wf e -> bytes (enc_cmd_entry e).
Proof.
  destruct e as [k v|f]; cbn [cmd_entry_wf enc_cmd_entry].
  - intros [Hk Hv]. apply bytes_app; [apply word_bytes; exact Hk|]. constructor; [reflexivity|apply word_bytes; exact Hv].
  - intros [Hf _]. apply word_bytes. exact Hf.
Qed.

Lemma entries_bytes es : entries_wf es -> bytes (flat_map (fun p => enc_cmd_entry (fst p) ++ snd p) es).
Proof.
  induction es as [|[e ws] es IH]; intros H; [constructor|]. cbn [entries_wf] in H. destruct H as [He [Hs [_ Hr]]].
  cbn [flat_map fst snd]. apply bytes_app; [apply bytes_app; [apply cmd_entry_bytes; exact He|apply spaces_bytes; exact Hs]|].
  apply IH. exact Hr.
Qed.

Lemma payload_bytes sa st t : tag_wf sa st t -> bytes (payload t).
Proof.
  destruct t as [esz ever es|f|c|entsize shndx secs|ty p]; cbn [tag_wf payload].
  - intros [_ [_ [_ Hes]]]. unfold le32. bytes_auto. apply bytes_flat_map. eapply Forall_impl; [|exact Hes].
    intros e [_ [_ [_ [Ht _]]]]. unfold enc_entry, le64, le32. bytes_auto.
  - intros [_ [_ [_ [_ [Hb [Ht [_ [Hc _]]]]]]]]. unfold enc_fb, le64, le32, le16. bytes_auto.
    repeat constructor; assumption.
  - intros [Hl He]. unfold cmd_text. bytes_auto; [apply spaces_bytes; exact Hl|apply entries_bytes; exact He|repeat constructor].
  - intros _. unfold le32. bytes_auto. apply bytes_flat_map. apply Forall_forall. intros h _.
    unfold enc_sec, le64, le32. bytes_auto.
  - intros [_ [_ [_ Hp]]]. exact Hp.
Qed.

Lemma encode_bytes sa st mb : mbinfo_wf sa st mb -> bytes (encode mb).
Proof.
  intros [_ [Ht _]]. unfold encode, enc_body, end_tag, le32. bytes_auto. apply bytes_flat_map.
  eapply Forall_impl; [|exact Ht]. intros tp [Hw [Hp _]]. unfold enc_tag, le32. bytes_auto.
  exact (payload_bytes _ _ _ Hw).
Qed.

Lemma mem_of_bytes l b : layout_wf l b -> bytes b -> mem_bytes (mem_of l b).
Proof.
  intros [_ [_ [_ [_ [Hp [Hsp [Hst _]]]]]]] Hb. unfold mem_of, mem_bytes.
  constructor; [|constructor; [|constructor]]; cbn [s_data]; apply bytes_app; assumption.
Qed.

Lemma block_mem_bytes l mb : mbinfo_wf (l_saddr l) (l_strtab l) mb -> layout_wf l (encode mb) -> mem_bytes (mem_of l (encode mb)).
Proof. intros Hwf Hlw. exact (mem_of_bytes _ _ Hlw (encode_bytes _ _ _ Hwf)). Qed.

(** findTagByType on an encoded block: the payload address and size of the first tag of the type *)
Lemma findTag_on_block (l : layout) (mb : mbinfo) (ty : N) (t0 : list gcall) :
  mbinfo_wf (l_saddr l) (l_strtab l) mb -> layout_wf l (encode mb) -> ty <> 0 ->
  go_multiboot_findTagByType mld (find_fuel (mem_of l (encode mb))) (mkw t0 (mem_of l (encode mb))) ty (l_info l) =
    GOk (mkw t0 (mem_of l (encode mb)),
         match locate ty (mb_tags mb) 8 with
         | Some (o, t) => (l_info l + o + 8, len (payload t))
         | None => (0, 0)
         end).
Proof.
  intros Hwf Hlw Hty. pose proof (block_mem_bytes l mb Hwf Hlw) as Hb.
  pose proof (findTag_is_translation (mkw t0 (mem_of l (encode mb))) ty (l_info l) Hb) as E.
  cbn [mkw f_world_mem] in E. rewrite (find_tag_encode l mb ty Hwf Hlw Hty) in E. exact E.
Qed.

(** VisitMemRegions on an encoded block: the visitor is called exactly for the regions of the first memory map,
    in order, types normalised, up to and including the first call answered false; the memory left behind is the
    encoding of [after_visit cont mb]; no panic *)
Lemma visitMemRegions_on_block (l : layout) (mb : mbinfo) (cont : N -> region -> bool) (t0 : list gcall) (fuel : nat) :
  mbinfo_wf (l_saddr l) (l_strtab l) mb -> layout_wf l (encode mb) ->
  (find_fuel (mem_of l (encode mb)) <= fuel)%nat -> (S (length (expected_regions mb)) < fuel)%nat ->
  go_multiboot_VisitMemRegions mld mst fuel (mkw t0 (mem_of l (encode mb))) (l_info l)
      (vis_oracle cont (N.of_nat (length t0))) =
    GOk (mkw (rev (map ev_region (visited cont 0 (expected_regions mb))) ++ t0)
             (mem_of l (encode (after_visit cont mb))), tt).
Proof.
  intros Hwf Hlw Hff Hn. pose proof (block_mem_bytes l mb Hwf Hlw) as Hb.
  pose proof (visit_mem_regions_after l mb cont Hwf Hlw (S (length (expected_regions mb))) (PeanoNat.Nat.lt_succ_diag_r _)) as E.
  rewrite (visit_is_translation fuel (S (length (expected_regions mb))) cont t0 _ _ Hb Hff Hn).
  - rewrite E. reflexivity.
  - rewrite E. discriminate.
  - rewrite E. discriminate.
Qed.


(** VisitElfSections on an encoded block: the visitor is called exactly for the non-empty sections of the first ELF tag,
    in order, each with its NUL-terminated name from the string table, flags (low 32 bits), address and size; no panic *)
Lemma visitElfSections_on_block (l : layout) (mb : mbinfo) (t0 : list gcall) (fuel : nat) :
  mbinfo_wf (l_saddr l) (l_strtab l) mb -> layout_wf l (encode mb) ->
  (find_fuel (mem_of l (encode mb)) <= fuel)%nat -> (S (total_len (mem_of l (encode mb))) <= fuel)%nat -> 65536 <= N.of_nat fuel ->
  go_multiboot_VisitElfSections mld fuel (mkw t0 (mem_of l (encode mb))) (l_info l) =
    GOk (mkw (rev (map ev_section (expected_sections (l_strtab l) mb)) ++ t0) (mem_of l (encode mb)), tt).
Proof.
  intros Hwf Hlw Hff Hfs Hfn. pose proof (block_mem_bytes l mb Hwf Hlw) as Hb.
  pose proof (visit_elf_sections_encode l mb Hwf Hlw) as E.
  rewrite (visitElf_is_translation fuel t0 _ _ Hb Hff Hfs Hfn).
  - rewrite E. reflexivity.
  - rewrite E. discriminate.
  - rewrite E. discriminate.
Qed.
