(** Byte-level lemmas for the C10 proofs: little-endian encoding, sub-lists at offsets,
    reads and writes of the two-segment memory [mem_of]. *)
From Coq Require Import NArith ZArith List Bool Lia Arith.
From Coq Require Import ZifyBool ZifyN ZifyNat.
From FF Require Import Lib.Word Gen.Consts_multiboot Multiboot.Model Multiboot.Spec.
Import ListNotations.
Local Open Scope N_scope.

Ltac Zify.zify_post_hook ::= Z.div_mod_to_equations.

(** ---- len ---- *)
Lemma len_app (a b : list N) : len (a ++ b) = len a + len b.
Proof. unfold len. rewrite app_length. lia. Qed.

Lemma len_cons (x : N) (a : list N) : len (x :: a) = 1 + len a.
Proof. unfold len. cbn [length]. lia. Qed.

Lemma len_nil : len [] = 0.
Proof. reflexivity. Qed.

Lemma to_nat_len (a : list N) : N.to_nat (len a) = length a.
Proof. unfold len. lia. Qed.

Lemma length_bytes_le n v : length (bytes_le n v) = n.
Proof. revert v. induction n as [|n IH]; intros v; cbn [bytes_le length]; [reflexivity | rewrite IH; reflexivity]. Qed.

Lemma len_bytes_le n v : len (bytes_le n v) = N.of_nat n.
Proof. unfold len. rewrite length_bytes_le. reflexivity. Qed.

Lemma len_le16 v : len (le16 v) = 2. Proof. apply len_bytes_le. Qed.
Lemma len_le32 v : len (le32 v) = 4. Proof. apply len_bytes_le. Qed.
Lemma len_le64 v : len (le64 v) = 8. Proof. apply len_bytes_le. Qed.

Lemma bytes_bytes_le n v : bytes (bytes_le n v).
Proof.
  revert v. induction n as [|n IH]; intros v; cbn [bytes_le]; constructor; [|apply IH].
  apply N.mod_lt. discriminate.
Qed.

(** ---- little endian ---- *)
Lemma le_bytes_le n v : v < 256 ^ N.of_nat n -> le (bytes_le n v) = v.
Proof.
  revert v. induction n as [|n IH]; intros v Hv.
  - cbn in *. lia.
  - cbn [bytes_le le]. rewrite IH.
    + pose proof (N.div_mod v 256). lia.
    + rewrite Nat2N.inj_succ, N.pow_succ_r' in Hv. apply N.div_lt_upper_bound; lia.
Qed.

Lemma le_le16 v : v < two16 -> le (le16 v) = v.
Proof. intros H. apply le_bytes_le. exact H. Qed.
Lemma le_le32 v : v < two32 -> le (le32 v) = v.
Proof. intros H. apply le_bytes_le. exact H. Qed.
Lemma le_le64 v : v < two64 -> le (le64 v) = v.
Proof. intros H. apply le_bytes_le. exact H. Qed.

Lemma le_single b : le [b] = b.
Proof. cbn. lia. Qed.

(** the low half of a 32-bit little-endian value *)
Lemma le32_low16 v : v < two16 -> le32 v = le16 v ++ [0; 0].
Proof.
  intros H. unfold le32, le16. cbn [bytes_le app].
  replace (v / 256 / 256) with 0 by (symmetry; apply N.div_small; apply N.div_lt_upper_bound; [lia | exact H]).
  reflexivity.
Qed.

(** ---- sub-lists at offsets ---- *)
Definition sub_at (b : list N) (o : N) (c : list N) : Prop :=
  exists X Y, b = X ++ c ++ Y /\ len X = o.

Lemma sub_at_refl b : sub_at b 0 b.
Proof. exists [], []. rewrite app_nil_r. split; reflexivity. Qed.

Lemma sub_at_trans b o c o' d : sub_at b o c -> sub_at c o' d -> sub_at b (o + o') d.
Proof.
  intros [X [Y [-> HX]]] [X' [Y' [-> HX']]]. exists (X ++ X'), (Y' ++ Y). split.
  - repeat rewrite <- app_assoc. reflexivity.
  - rewrite len_app. lia.
Qed.

Lemma sub_at_app_l b o xs ys : sub_at b o (xs ++ ys) -> sub_at b o xs.
Proof.
  intros H. replace o with (o + 0) by lia. apply (sub_at_trans _ _ _ _ _ H).
  exists [], ys. split; reflexivity.
Qed.

Lemma sub_at_app_r b o xs ys : sub_at b o (xs ++ ys) -> sub_at b (o + len xs) ys.
Proof.
  intros H. apply (sub_at_trans _ _ _ _ _ H). exists xs, []. rewrite app_nil_r. split; reflexivity.
Qed.

Lemma sub_at_bound b o c : sub_at b o c -> o + len c <= len b.
Proof. intros [X [Y [-> HX]]]. repeat rewrite len_app. lia. Qed.

(** ---- slices ---- *)
Lemma slice_app (X c Y : list N) : slice (X ++ c ++ Y) (len X) (len c) = c.
Proof.
  unfold slice. rewrite !to_nat_len.
  rewrite skipn_app, skipn_all, Nat.sub_diag. cbn [skipn app].
  rewrite firstn_app, firstn_all, Nat.sub_diag. cbn [firstn]. apply app_nil_r.
Qed.

Lemma upd_app (X c c' Y : list N) :
  length c = length c' -> upd (X ++ c ++ Y) (len X) c' = X ++ c' ++ Y.
Proof.
  intros Hl. unfold upd. rewrite to_nat_len.
  rewrite firstn_app, firstn_all, Nat.sub_diag. cbn [firstn]. rewrite app_nil_r. f_equal. f_equal.
  rewrite <- Hl. rewrite app_assoc. rewrite <- app_length. rewrite skipn_app, skipn_all, Nat.sub_diag.
  reflexivity.
Qed.

(** ---- memory of a layout ---- *)
(** the arithmetic part of [layout_wf] *)
Definition lay_ok (l : layout) (block : list N) : Prop :=
  len (l_pre l) <= l_info l /\ len (l_spre l) <= l_saddr l /\
  l_info l + len block < two64 /\ l_saddr l + len (l_strtab l) < two64 /\
  (l_info l + len block < l_saddr l - len (l_spre l) \/ l_saddr l + len (l_strtab l) < l_info l - len (l_pre l)).

Lemma layout_wf_ok l block : layout_wf l block -> lay_ok l block.
Proof. unfold layout_wf, lay_ok. tauto. Qed.

Lemma lay_ok_len l b b' : len b = len b' -> lay_ok l b -> lay_ok l b'.
Proof. unfold lay_ok. intros ->. tauto. Qed.

Section Layout.
  Variable l : layout.
  Variable block : list N.
  Hypothesis Hlay : lay_ok l block.

  Lemma rd_blk o c :
    sub_at block o c -> rd_bytes (mem_of l block) (l_info l + o) (len c) = Some c.
  Proof.
    destruct Hlay as [Hpre [Hspre [Hend [Hsend Hdisj]]]].
    intros [X [Y [Hb HX]]]. unfold mem_of. cbn [rd_bytes].
    unfold in_seg, seg_len. cbn [s_base s_data].
    assert (Hlen : N.of_nat (length (l_pre l ++ block)) = len (l_pre l) + len block) by (apply len_app).
    rewrite Hlen.
    assert (Hbound : o + len c <= len block) by (apply sub_at_bound; exists X, Y; auto).
    replace ((l_info l - len (l_pre l) <=? l_info l + o) && (l_info l + o + len c <=? l_info l - len (l_pre l) + (len (l_pre l) + len block))) with true by lia.
    f_equal. replace (l_info l + o - (l_info l - len (l_pre l))) with (len (l_pre l ++ X)) by (rewrite len_app; lia).
    rewrite Hb. rewrite app_assoc. apply slice_app.
  Qed.

  Lemma rd_blk_val o n v :
    sub_at block o (bytes_le n v) -> v < 256 ^ N.of_nat n ->
    rd (mem_of l block) (l_info l + o) (N.of_nat n) = Ok v.
  Proof.
    intros Hs Hv. unfold rd. rewrite <- (len_bytes_le n v). rewrite (rd_blk _ _ Hs).
    rewrite le_bytes_le by exact Hv. reflexivity.
  Qed.

  Lemma rd_blk16 o v : sub_at block o (le16 v) -> v < two16 -> rd (mem_of l block) (l_info l + o) 2 = Ok v.
  Proof. intros Hs Hv. apply (rd_blk_val o 2 v Hs). exact Hv. Qed.
  Lemma rd_blk32 o v : sub_at block o (le32 v) -> v < two32 -> rd (mem_of l block) (l_info l + o) 4 = Ok v.
  Proof. intros Hs Hv. apply (rd_blk_val o 4 v Hs). exact Hv. Qed.
  Lemma rd_blk64 o v : sub_at block o (le64 v) -> v < two64 -> rd (mem_of l block) (l_info l + o) 8 = Ok v.
  Proof. intros Hs Hv. apply (rd_blk_val o 8 v Hs). exact Hv. Qed.

  Lemma rd_blk_byte o b :
    sub_at block o [b] -> rd (mem_of l block) (l_info l + o) 1 = Ok b.
  Proof.
    intros Hs. unfold rd. change 1 with (len [b]). rewrite (rd_blk _ _ Hs). rewrite le_single. reflexivity.
  Qed.

  (** reads of the string table *)
  Lemma rd_str o c :
    sub_at (l_strtab l) o c -> 0 < len c ->
    rd_bytes (mem_of l block) (l_saddr l + o) (len c) = Some c.
  Proof.
    destruct Hlay as [Hpre [Hspre [Hend [Hsend Hdisj]]]].
    intros [X [Y [Hb HX]]] Hpos. unfold mem_of. cbn [rd_bytes].
    assert (Hbound : o + len c <= len (l_strtab l)) by (apply sub_at_bound; exists X, Y; auto).
    unfold in_seg at 1, seg_len. cbn [s_base s_data].
    assert (Hlen : N.of_nat (length (l_pre l ++ block)) = len (l_pre l) + len block) by (apply len_app).
    rewrite Hlen.
    replace ((l_info l - len (l_pre l) <=? l_saddr l + o) && (l_saddr l + o + len c <=? l_info l - len (l_pre l) + (len (l_pre l) + len block))) with false by lia.
    unfold in_seg, seg_len. cbn [s_base s_data].
    assert (Hlen2 : N.of_nat (length (l_spre l ++ l_strtab l)) = len (l_spre l) + len (l_strtab l)) by (apply len_app).
    rewrite Hlen2.
    replace ((l_saddr l - len (l_spre l) <=? l_saddr l + o) && (l_saddr l + o + len c <=? l_saddr l - len (l_spre l) + (len (l_spre l) + len (l_strtab l)))) with true by lia.
    f_equal. replace (l_saddr l + o - (l_saddr l - len (l_spre l))) with (len (l_spre l ++ X)) by (rewrite len_app; lia).
    rewrite Hb. rewrite app_assoc. apply slice_app.
  Qed.

  Lemma rd_str_byte o b :
    sub_at (l_strtab l) o [b] -> rd (mem_of l block) (l_saddr l + o) 1 = Ok b.
  Proof.
    intros Hs. unfold rd. change 1 with (len [b]). rewrite (rd_str _ _ Hs) by (cbn; lia).
    rewrite le_single. reflexivity.
  Qed.

  (** a store into the block *)
  Lemma wr_blk X c c' Y :
    block = X ++ c ++ Y -> length c = length c' ->
    wr_bytes (mem_of l block) (l_info l + len X) c' =
      Some (mem_of l (X ++ c' ++ Y)).
  Proof.
    destruct Hlay as [Hpre [Hspre [Hend [Hsend Hdisj]]]].
    intros Hb Hl. unfold mem_of. cbn [wr_bytes].
    unfold in_seg, seg_len. cbn [s_base s_data].
    assert (Hlen : N.of_nat (length (l_pre l ++ block)) = len (l_pre l) + len block) by (apply len_app).
    rewrite Hlen.
    assert (Hbound : len X + len c' <= len block).
    { rewrite Hb. repeat rewrite len_app. unfold len. rewrite Hl. lia. }
    fold (len c').
    replace ((l_info l - len (l_pre l) <=? l_info l + len X) && (l_info l + len X + len c' <=? l_info l - len (l_pre l) + (len (l_pre l) + len block))) with true by lia.
    f_equal. f_equal. f_equal.
    replace (l_info l + len X - (l_info l - len (l_pre l))) with (len (l_pre l ++ X)) by (rewrite len_app; lia).
    rewrite Hb. rewrite (app_assoc (l_pre l) X). rewrite upd_app by exact Hl. rewrite <- app_assoc. reflexivity.
  Qed.
End Layout.

(** pointer arithmetic without wrap-around *)
Lemma padd_small p o : p + o < two64 -> padd p o = p + o.
Proof. intros H. unfold padd. apply w64_small. exact H. Qed.
