(** VisitMemRegions on an encoded block: the regions of the first memory-map tag, in order, with
    undefined types reported as reserved, until the visitor returns false; no stray access. *)
From Coq Require Import NArith ZArith List Bool Lia Arith.
From Coq Require Import ZifyBool ZifyN ZifyNat.
From FF Require Import Lib.Word Gen.Consts_multiboot Multiboot.Model Multiboot.Spec Multiboot.MemLemmas Multiboot.FindProofs.
Import ListNotations.
Local Open Scope N_scope.

Ltac Zify.zify_post_hook ::= Z.div_mod_to_equations.

Lemma norm_type_cases t :
  ((t =? 0) || (mb_memUnknown <=? t) = true /\ norm_type t = mb_MemReserved) \/
  ((t =? 0) || (mb_memUnknown <=? t) = false /\ norm_type t = t).
Proof.
  unfold norm_type, mb_memUnknown, mb_MemAvailable, mb_MemReserved, mb_MemAcpiReclaimable, mb_MemNvs.
  destruct (N.eqb_spec t 1), (N.eqb_spec t 2), (N.eqb_spec t 3), (N.eqb_spec t 4); cbn [orb]; lia.
Qed.

Lemma norm_type_lt t : t < two32 -> norm_type t < two32.
Proof.
  intros H. destruct (norm_type_cases t) as [[_ ->]|[_ ->]]; [reflexivity | exact H].
Qed.

Lemma len_enc_entry esz e : entry_wf esz e -> len (enc_entry e) = esz.
Proof.
  intros [_ [_ [_ [_ H]]]]. unfold enc_entry. rewrite !len_app, !len_le64, len_le32. lia.
Qed.

Lemma len_flat_entries esz es : Forall (entry_wf esz) es -> len (flat_map enc_entry es) = N.of_nat (length es) * esz.
Proof.
  induction 1 as [|e es He Hes IH]; [reflexivity|].
  cbn [flat_map length]. rewrite len_app, IH, (len_enc_entry _ _ He). lia.
Qed.

Section Loop.
  Variable l : layout.
  Variable cont : N -> region -> bool.
  Variable esz : N.
  Variable X0 Y : list N.
  Hypothesis Hesz : esz < two32.
  Hypothesis Hesz24 : 24 <= esz.

  Lemma visit_loop es : forall X1 idx fuel cur endp,
    lay_ok l (X0 ++ le32 esz ++ X1 ++ flat_map enc_entry es ++ Y) ->
    Forall (entry_wf esz) es -> (length es < fuel)%nat ->
    cur = l_info l + (len X0 + 4 + len X1) ->
    endp = cur + len (flat_map enc_entry es) ->
    exists block',
      len block' = len (X0 ++ le32 esz ++ X1 ++ flat_map enc_entry es ++ Y) /\
      visit_mem_loop fuel cont (mem_of l (X0 ++ le32 esz ++ X1 ++ flat_map enc_entry es ++ Y))
                     (l_info l + len X0) cur endp idx =
        (mem_of l block', visited cont idx (map region_of es), Ok tt).
  Proof.
    induction es as [|e es IH]; intros X1 idx fuel cur endp Hlay Hwf Hfuel Hcur Hendp.
    - destruct fuel as [|fuel]; [cbn in Hfuel; lia|].
      eexists. split; [reflexivity|]. cbn [visit_mem_loop flat_map map visited].
      cbn [flat_map] in Hendp. rewrite len_nil, N.add_0_r in Hendp. subst endp. rewrite N.eqb_refl. reflexivity.
    - destruct fuel as [|fuel]; [cbn in Hfuel; lia|].
      pose proof (Forall_inv Hwf) as He. pose proof (Forall_inv_tail Hwf) as Hwf'.
      pose proof (len_enc_entry _ _ He) as Hle.
      destruct He as [Ha [Hl [Ht [Htail Htl]]]].
      set (block := X0 ++ le32 esz ++ X1 ++ flat_map enc_entry (e :: es) ++ Y) in *.
      assert (Hend : l_info l + len block < two64) by apply Hlay.
      (* decomposition of the block around the current entry *)
      set (Xc := X0 ++ le32 esz ++ X1).
      set (rest := flat_map enc_entry es ++ Y).
      assert (Hblock : block = Xc ++ (le64 (e_addr e) ++ le64 (e_len e) ++ le32 (e_type e) ++ e_tail e) ++ rest).
      { unfold block, Xc, rest. cbn [flat_map]. unfold enc_entry. repeat rewrite <- app_assoc. reflexivity. }
      assert (HlenXc : len Xc = len X0 + 4 + len X1) by (unfold Xc; rewrite !len_app, len_le32; lia).
      assert (Hlenblock : len block = len Xc + esz + len rest).
      { rewrite Hblock. rewrite !len_app, !len_le64, len_le32. lia. }
      cbn [visit_mem_loop].
      cbn [flat_map] in Hendp. rewrite len_app, Hle in Hendp.
      replace (cur =? endp) with false by lia.
      (* read the type *)
      unfold mb_off_MemoryMapEntry_Type.
      rewrite padd_small by lia.
      assert (Hsub_e : sub_at block (len Xc) (le64 (e_addr e) ++ le64 (e_len e) ++ le32 (e_type e) ++ e_tail e)).
      { exists Xc, rest. split; [exact Hblock | reflexivity]. }
      assert (Hsub_t : sub_at block (len Xc + 16) (le32 (e_type e))).
      { pose proof Hsub_e as H. apply sub_at_app_r in H. rewrite len_le64 in H. apply sub_at_app_r in H. rewrite len_le64 in H.
        apply sub_at_app_l in H. replace (len Xc + 16) with (len Xc + 8 + 8) by lia. exact H. }
      replace (cur + 16) with (l_info l + (len Xc + 16)) by lia.
      rewrite (rd_blk32 l block Hlay _ _ Hsub_t Ht).
      (* normalisation: in both cases the memory afterwards holds the entry with the normalised type *)
      set (e' := mkEntry (e_addr e) (e_len e) (norm_type (e_type e)) (e_tail e)).
      set (block1 := Xc ++ (le64 (e_addr e) ++ le64 (e_len e) ++ le32 (norm_type (e_type e)) ++ e_tail e) ++ rest).
      assert (Hlen1 : len block1 = len block).
      { rewrite Hblock. unfold block1. rewrite !len_app, !len_le64, !len_le32. reflexivity. }
      assert (Hm1 : (if (e_type e =? 0) || (mb_memUnknown <=? e_type e)
                     then wr32 (mem_of l block) (l_info l + (len Xc + 16)) mb_MemReserved
                     else Ok (mem_of l block)) = Ok (mem_of l block1)).
      { destruct (norm_type_cases (e_type e)) as [[Hc Hn]|[Hc Hn]]; rewrite Hc.
        - unfold wr32.
          assert (Hb2 : block = (Xc ++ le64 (e_addr e) ++ le64 (e_len e)) ++ le32 (e_type e) ++ (e_tail e ++ rest)).
          { rewrite Hblock. repeat rewrite <- app_assoc. reflexivity. }
          replace (len Xc + 16) with (len (Xc ++ le64 (e_addr e) ++ le64 (e_len e))) by (rewrite !len_app, !len_le64; lia).
          rewrite (wr_blk l block Hlay _ (le32 (e_type e)) (bytes_le 4 mb_MemReserved) _ Hb2) by (unfold le32; rewrite !length_bytes_le; reflexivity).
          f_equal. f_equal. unfold block1. rewrite Hn. unfold le32. repeat rewrite <- app_assoc. reflexivity.
        - unfold block1. rewrite Hn. rewrite <- Hblock. reflexivity. }
      rewrite Hm1.
      assert (Hlay1 : lay_ok l block1) by (apply (lay_ok_len l block); [symmetry; exact Hlen1 | exact Hlay]).
      (* what the visitor reads *)
      assert (Hsub_e1 : sub_at block1 (len Xc) (le64 (e_addr e) ++ le64 (e_len e) ++ le32 (norm_type (e_type e)) ++ e_tail e)).
      { exists Xc, rest. split; reflexivity. }
      assert (Hrr : read_region (mem_of l block1) cur = Ok (region_of e)).
      { unfold read_region, mb_off_MemoryMapEntry_PhysAddress, mb_off_MemoryMapEntry_Length, mb_off_MemoryMapEntry_Type.
        rewrite !padd_small by lia. rewrite N.add_0_r.
        replace cur with (l_info l + len Xc) by lia.
        rewrite (rd_blk64 l block1 Hlay1 (len Xc) (e_addr e)) by (try exact Ha; apply (sub_at_app_l _ _ _ _ Hsub_e1)).
        cbn [bind]. rewrite <- N.add_assoc.
        pose proof Hsub_e1 as H. apply sub_at_app_r in H. rewrite len_le64 in H.
        rewrite (rd_blk64 l block1 Hlay1 (len Xc + 8) (e_len e)) by (try exact Hl; apply (sub_at_app_l _ _ _ _ H)).
        cbn [bind]. rewrite <- N.add_assoc.
        apply sub_at_app_r in H. rewrite len_le64 in H. apply sub_at_app_l in H.
        replace (len Xc + 16) with (len Xc + 8 + 8) by lia.
        rewrite (rd_blk32 l block1 Hlay1 _ _ H) by (apply norm_type_lt; exact Ht).
        reflexivity. }
      rewrite Hrr.
      cbn [map visited].
      destruct (cont idx (region_of e)) eqn:Hcont.
      + (* the visitor continues: entry size is re-read from the tag header *)
        unfold mb_off_mmapHeader_entrySize. rewrite padd_small by lia. rewrite N.add_0_r.
        assert (Hsub_h : sub_at block1 (len X0) (le32 esz)).
        { exists X0, (X1 ++ (le64 (e_addr e) ++ le64 (e_len e) ++ le32 (norm_type (e_type e)) ++ e_tail e) ++ rest).
          split; [|reflexivity]. unfold block1, Xc. repeat rewrite <- app_assoc. reflexivity. }
        rewrite (rd_blk32 l block1 Hlay1 _ _ Hsub_h Hesz).
        assert (Hb1 : block1 = X0 ++ le32 esz ++ (X1 ++ enc_entry e') ++ flat_map enc_entry es ++ Y).
        { unfold block1, Xc, rest, enc_entry, e'. cbn [e_addr e_len e_type e_tail]. repeat rewrite <- app_assoc. reflexivity. }
        assert (Hle' : len (enc_entry e') = esz).
        { unfold enc_entry, e'. cbn [e_addr e_len e_type e_tail]. rewrite !len_app, !len_le64, len_le32. lia. }
        rewrite Hb1 in Hlay1.
        destruct (IH (X1 ++ enc_entry e') (idx + 1) fuel (padd cur esz) endp Hlay1 Hwf') as [block' [Hlen' Hrun]].
        * cbn [length] in Hfuel. lia.
        * rewrite padd_small by lia. rewrite len_app, Hle'. lia.
        * rewrite padd_small by lia. lia.
        * rewrite <- Hb1 in Hrun. rewrite Hrun.
          exists block'. split; [|reflexivity]. rewrite Hlen'. rewrite <- Hb1. exact Hlen1.
      + exists block1. split; [exact Hlen1 | reflexivity].
  Qed.
End Loop.

(** VisitMemRegions on an encoded well-formed block *)
Lemma visit_mem_regions_encode (l : layout) (mb : mbinfo) (cont : N -> region -> bool) (fuel : nat) :
  mbinfo_wf (l_saddr l) (l_strtab l) mb -> layout_wf l (encode mb) ->
  (length (expected_regions mb) < fuel)%nat ->
  exists block',
    len block' = len (encode mb) /\
    visit_mem_regions fuel cont (mem_of l (encode mb)) (l_info l) =
      (mem_of l block', visited cont 0 (expected_regions mb), Ok tt).
Proof.
  intros Hwf Hlw Hfuel. pose proof (layout_wf_ok _ _ Hlw) as Hlay.
  unfold visit_mem_regions. rewrite (find_tag_encode l mb _ Hwf Hlw) by discriminate.
  destruct Hwf as [Hr [Hts Hsm]].
  pose proof (locate_first sel_memmap _ _ mb_tagMemoryMap (mb_tags mb) (sel_memmap_type _ _) Hts 8) as Hfirst.
  unfold expected_regions in *.
  destruct (first_tag sel_memmap (mb_tags mb)) as [[[esz ever] es]|].
  - destruct Hfirst as [o' [t [Hloc Hsel]]]. rewrite Hloc.
    destruct t; try discriminate. cbn [sel_memmap] in Hsel. injection Hsel as -> -> ->.
    destruct (locate_sub (encode mb) _ _ (mb_tags mb) 8 _ o' _ end_tag (sub_at_body mb) Hts Hloc) as [Hsub [Htw _]].
    cbn [tag_wf] in Htw. destruct Htw as [H24 [Hesz [Hever Hes]]].
    cbn [payload] in *.
    assert (Hb := sub_at_bound _ _ _ Hsub). rewrite !len_app, !len_le32 in Hb.
    assert (Hend : l_info l + len (encode mb) < two64) by apply Hlay.
    replace (len (le32 esz ++ le32 ever ++ flat_map enc_entry es) =? 0) with false
      by (rewrite !len_app, !len_le32; lia).
    destruct Hsub as [X [Y [Hblock HX]]].
    assert (Hblock' : encode mb = X ++ le32 esz ++ le32 ever ++ flat_map enc_entry es ++ Y).
    { rewrite Hblock. repeat rewrite <- app_assoc. reflexivity. }
    rewrite Hblock' in Hlay.
    destruct (visit_loop l cont esz X Y Hesz H24 es (le32 ever) 0 fuel
                (padd (l_info l + o' + 8) mb_sizeof_mmapHeader)
                (padd (l_info l + o' + 8) (len (le32 esz ++ le32 ever ++ flat_map enc_entry es)))
                Hlay Hes) as [block' [Hlen Hrun]].
    + rewrite map_length in Hfuel. exact Hfuel.
    + unfold mb_sizeof_mmapHeader. rewrite padd_small by lia. rewrite len_le32. lia.
    + unfold mb_sizeof_mmapHeader. rewrite !padd_small by (rewrite ?len_app, ?len_le32; lia).
      rewrite !len_app, !len_le32. lia.
    + rewrite <- Hblock' in Hrun, Hlen. replace (l_info l + len X) with (l_info l + o' + 8) in Hrun by lia.
      exists block'. split; [exact Hlen | exact Hrun].
  - rewrite Hfirst. cbn [N.eqb]. exists (encode mb). split; reflexivity.
Qed.
