(** Composition of the two translation ties that meet at multiboot.VisitElfSections:
    C05 (Vmm/KernelTrans.v): setupPDTForKernel, translated, hands its section-visitor closure to visitElfSectionsFn; the
        tie models that as [gvisit closure sections] over "the (flags, address, size) triples the visitor function
        delivers" and takes them to be the non-empty entries of the model's section table ([K.nonempty secs]);
    C10 (Multiboot/DecodeTransElf.v): VisitElfSections, translated, calls its visitor exactly for the non-empty sections of
        the block's first ELF tag, in order; each call is an event carrying name, flags, address, size.
    Here: the triples carried by those events ARE [K.nonempty (block_secs mb)], the non-empty entries of the block's section
    table, so the regenerated setupPDTForKernel run over what the regenerated VisitElfSections presents is the model's
    [setup_kernel] over the block's section table. *)
From Coq Require Import String NArith List Bool Lia.
From FF Require Import Lib.Word Lib.GoOps Gen.Consts_multiboot Gen.Trans_multiboot Multiboot.Model Multiboot.Spec
  Multiboot.DecodeTrans Multiboot.DecodeTransElf Multiboot.DecodeTransBlock.
From FF Require Gen.Consts_mm_vmm Gen.Trans_vmm_kernel Vmm.Pt Vmm.KernelTrans Vmm.PdtTrans Vmm.MapTrans.
Module VP := FF.Vmm.Pt.
Module K := FF.Vmm.KernelTrans.
Module PT := FF.Vmm.PdtTrans.
Module MT := FF.Vmm.MapTrans.
Import ListNotations.
Local Open Scope N_scope.

(** what the closure of setupPDTForKernel receives from a call: flags, address, size (the name is ignored: `_ string`) *)
Definition sec3_of (s : section) : VP.section := (sec_flags s, sec_addr s, sec_size s).

(** the section table of the block's first ELF tag, as the C05 model sees a section table (empty sections included) *)
Definition hdr3 (h : sec_hdr) : VP.section := (h_flags h mod two32, h_addr h, h_size h).
Definition block_secs (mb : mbinfo) : list VP.section :=
  match first_tag sel_elf (mb_tags mb) with
  | Some (_, _, secs) => map hdr3 secs
  | None => []
  end.

(** the triples delivered by the visitor calls recorded on a trace (most recent first), in call order *)
Definition triple_of_event (c : gcall) : option VP.section :=
  match c with
  | GCall _ [GBytes _; GNum f; GNum a; GNum z] => Some (f, a, z)
  | _ => None
  end.
Definition delivered (tr : list gcall) : list VP.section := somes (map triple_of_event (rev tr)).

Lemma delivered_events (X : list section) : delivered (rev (map ev_section X)) = map sec3_of X.
Proof.
  unfold delivered. rewrite rev_involutive. induction X as [|s X IH]; [reflexivity|].
  cbn [map somes triple_of_event ev_section]. f_equal. exact IH.
Qed.

(** the sections VisitElfSections reports = the non-empty entries of the section table *)
Lemma nonempty_block_secs (strtab : list N) (mb : mbinfo) :
  map sec3_of (expected_sections strtab mb) = K.nonempty (block_secs mb).
Proof.
  unfold expected_sections, block_secs. destruct (first_tag sel_elf (mb_tags mb)) as [[[en sh] secs]|]; [|reflexivity].
  unfold K.nonempty. induction secs as [|h secs IH]; [reflexivity|].
  cbn [map filter]. unfold section_of at 1. unfold hdr3 at 1. cbn [snd].
  destruct (h_size h =? 0); cbn [negb somes map]; [exact IH|]. rewrite IH. reflexivity.
Qed.

Lemma first_tag_wf {A} (sel : tag -> option A) sa st ts x :
  Forall (tagpad_wf sa st) ts -> first_tag sel ts = Some x -> exists t, tag_wf sa st t /\ sel t = Some x.
Proof.
  induction ts as [|[t pad] ts IH]; intros H E; [discriminate|]. inversion H as [|? ? Htp Hts]; subst. cbn [first_tag] in E.
  destruct (sel t) as [y|] eqn:Es.
  - injection E as <-. exists t. split; [exact (proj1 Htp)|exact Es].
  - exact (IH Hts E).
Qed.

(** addresses and sizes of a well-formed block's section table are 64-bit: a hypothesis of the C05 tie *)
Lemma block_secs_ok sa st mb : mbinfo_wf sa st mb -> Forall K.sec_ok (block_secs mb).
Proof.
  intros [_ [Ht _]]. unfold block_secs. destruct (first_tag sel_elf (mb_tags mb)) as [[[en sh] secs]|] eqn:E; [|constructor].
  destruct (first_tag_wf sel_elf _ _ _ _ Ht E) as [t [Hw Hs]]. destruct t; try discriminate. injection Hs as -> -> ->.
  cbn [tag_wf] in Hw. destruct Hw as [_ [_ [_ [Hsecs _]]]]. clear E.
  induction Hsecs as [|h secs Hh Hr IH]; [constructor|]. cbn [map]. constructor; [|exact IH].
  unfold hdr3, K.sec_ok. destruct Hh as [_ [_ [_ [Ha [_ [Hz _]]]]]]. split; assumption.
Qed.

(** the C05 model and its traced version look at the non-empty entries only *)
Lemma nonempty_idem (secs : list VP.section) : K.nonempty (K.nonempty secs) = K.nonempty secs.
Proof.
  unfold K.nonempty. induction secs as [|x secs IH]; [reflexivity|]. cbn [filter].
  destruct (negb (snd x =? 0)) eqn:E; [|exact IH]. cbn [filter]. rewrite E, IH. reflexivity.
Qed.

Lemma setup_tr_nonempty off secs s tr0 : K.setup_kernel_tr off (K.nonempty secs) s tr0 = K.setup_kernel_tr off secs s tr0.
Proof. unfold K.setup_kernel_tr. rewrite nonempty_idem. reflexivity. Qed.

(** the composed statement.  The fuel condition of the C05 tie ([K.fuel_ok], since its repair by vmmtrans) ranges over the
    NON-EMPTY sections only (for an empty section at address 0 - the null section every ELF table starts with - the
    page count `size - 1` would wrap to 2^52) *)
Theorem setupPDT_through_visitElfSections (l : layout) (mb : mbinfo) (fuel : nat)
        (off : N) (s : VP.st) (tr0 : list gcall) (kfuel : nat) :
  mbinfo_wf (l_saddr l) (l_strtab l) mb -> layout_wf l (encode mb) ->
  (find_fuel (mem_of l (encode mb)) <= fuel)%nat -> (S (total_len (mem_of l (encode mb))) <= fuel)%nat -> 65536 <= N.of_nat fuel ->
  off < two64 -> VP.last s < two64 -> K.fuel_ok kfuel off (block_secs mb) s ->
  exists tr : list gcall,
    (* (1) the regenerated VisitElfSections on the block: no fault, memory untouched, visitor calls [tr] *)
    go_multiboot_VisitElfSections mld fuel (mkw [] (mem_of l (encode mb))) (l_info l) = GOk (mkw tr (mem_of l (encode mb)), tt) /\
    (* (2) what these calls deliver = the non-empty entries of the block's section table *)
    delivered tr = K.nonempty (block_secs mb) /\
    (* (3) the regenerated setupPDTForKernel over exactly what was delivered = the model over the section table *)
    Trans_vmm_kernel.go_vmm_setupPDTForKernel kfuel (Trans_vmm_kernel.mk_go_vmm_world tr0 s) off
        K.o_kactivate K.o_kinit K.o_kmap MT.o_alloc K.o_translate (delivered tr) =
      match K.setup_kernel_tr off (block_secs mb) s tr0 with
      | None => GPanic
      | Some (s', e, tr') => GOk (Trans_vmm_kernel.mk_go_vmm_world tr' s', PT.err_of e)
      end /\
    match K.setup_kernel_tr off (block_secs mb) s tr0 with
    | None => VP.Stray
    | Some (s', e, _) => VP.Ok (s', e)
    end = VP.setup_kernel off (block_secs mb) s.
Proof.
  intros Hwf Hlw Hff Hfs Hfn Hoff Hlast Hfuel.
  exists (rev (map ev_section (expected_sections (l_strtab l) mb)) ++ []).
  assert (Hd : delivered (rev (map ev_section (expected_sections (l_strtab l) mb)) ++ []) = K.nonempty (block_secs mb)).
  { rewrite app_nil_r, delivered_events. apply nonempty_block_secs. }
  split; [exact (visitElfSections_on_block l mb [] fuel Hwf Hlw Hff Hfs Hfn)|].
  split; [exact Hd|]. split.
  - rewrite Hd.
    exact (K.setup_kernel_is_translation off (block_secs mb) s tr0 kfuel Hoff Hlast (block_secs_ok _ _ _ Hwf) Hfuel).
  - exact (K.setup_kernel_tr_model off (block_secs mb) s tr0).
Qed.
