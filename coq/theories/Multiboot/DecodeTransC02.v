(** Composition of the two translation ties that meet at multiboot.VisitMemRegions:
    C02 (Pmm/BootTrans.v): BootMemAllocator.AllocFrame, translated, hands a closure to VisitMemRegions; the tie models
        that call as [gvisit closure regions] over "the sequence of entries the visitor presents" and leaves the
        contract of VisitMemRegions open;
    C10 (Multiboot/DecodeTrans.v): VisitMemRegions, translated, presents to its visitor exactly the regions of the first
        memory map, in order, up to the first answer [false].
    Here: when the visitor answers the way AllocFrame's closure does, the calls the regenerated VisitMemRegions makes on
    a well-formed block are a prefix [visited cont 0 regs] of the block's region list, and the regenerated AllocFrame
    run over exactly these calls returns the C02 model's [boot_alloc] over the whole list. *)
From Coq Require Import String NArith List Bool Lia.
From FF Require Import Lib.Word Lib.GoOps Gen.Consts_multiboot Gen.Trans_multiboot Multiboot.Model Multiboot.Spec
  Multiboot.AfterVisit Multiboot.DecodeTrans Multiboot.DecodeTransBlock.
From FF Require Gen.Consts_mm_pmm Gen.Trans_pmm_boot Pmm.Boot Pmm.BootTrans.
Module PB := FF.Pmm.Boot.
Module BT := FF.Pmm.BootTrans.
Import ListNotations.
Local Open Scope N_scope.

(** a region of the C10 model as a region of the C02 model / as the Go record of the C02 translation *)
Definition br_of (r : region) : PB.region := PB.mkRegion (r_addr r) (r_len r) (r_type r).
Definition gr_of (r : region) : Trans_pmm_boot.go_multiboot_MemoryMapEntry := BT.to_gr (br_of r).

(** ---- a stateful visitor answering the calls of VisitMemRegions ---- *)
Section Calls.
  Context {St : Type} (f : region -> St -> St * bool).

  (** the state of the visitor after the given calls *)
  Fixpoint run_calls (calls : list region) (s : St) : St :=
    match calls with
    | [] => s
    | r :: rest => run_calls rest (fst (f r s))
    end.

  (** its answer to call number [idx] when it is walked through [regs]: a [cont] of the C10 theorems *)
  Definition cont_of (regs : list region) (s0 : St) (idx : N) (r : region) : bool :=
    snd (f r (run_calls (firstn (N.to_nat idx) regs) s0)).

  Lemma run_calls_app a b s : run_calls (a ++ b) s = run_calls b (run_calls a s).
  Proof. revert s. induction a as [|x a IH]; intros s; [reflexivity|]. cbn [app run_calls]. apply IH. Qed.

  Lemma cont_of_at p r rest s0 :
    cont_of (p ++ r :: rest) s0 (N.of_nat (length p)) r = snd (f r (run_calls p s0)).
  Proof.
    unfold cont_of. rewrite Nat2N.id. rewrite firstn_app, PeanoNat.Nat.sub_diag, firstn_all. cbn [firstn]. rewrite app_nil_r. reflexivity.
  Qed.
End Calls.

(** AllocFrame's closure as such a visitor: state = the cursor lastAllocFrame, continue = "no frame found yet" *)
Definition alloc_visitor (ks ke count : N) (r : region) (last : N) : N * bool :=
  (fst (PB.boot_visit ks ke count last (br_of r)), negb (snd (PB.boot_visit ks ke count last (br_of r)))).

Lemma av_snd ks ke c r s : snd (alloc_visitor ks ke c r s) = negb (snd (PB.boot_visit ks ke c s (br_of r))).
Proof. reflexivity. Qed.
Lemma av_fst ks ke c r s : fst (alloc_visitor ks ke c r s) = fst (PB.boot_visit ks ke c s (br_of r)).
Proof. reflexivity. Qed.

(** scanning only the entries VisitMemRegions presents (it stops at the first [false]) is scanning the whole list *)
Lemma scan_visited ks ke count last0 : forall rest p,
  PB.boot_scan ks ke count (run_calls (alloc_visitor ks ke count) p last0)
     (map br_of (visited (cont_of (alloc_visitor ks ke count) (p ++ rest) last0) (N.of_nat (length p)) rest)) =
  PB.boot_scan ks ke count (run_calls (alloc_visitor ks ke count) p last0) (map br_of rest).
Proof.
  induction rest as [|r rest IH]; intros p; [reflexivity|].
  cbn [visited map PB.boot_scan]. rewrite cont_of_at. rewrite av_snd.
  destruct (PB.boot_visit ks ke count (run_calls (alloc_visitor ks ke count) p last0) (br_of r)) as [l stop] eqn:E.
  destruct stop; cbn [negb snd]; [reflexivity|].
  specialize (IH (p ++ [r])). rewrite <- app_assoc in IH. cbn [app] in IH.
  rewrite app_length in IH. cbn [length] in IH.
  replace (N.of_nat (length p + 1)) with (N.of_nat (length p) + 1) in IH by lia.
  rewrite run_calls_app in IH. cbn [run_calls] in IH. rewrite av_fst, E in IH. cbn [fst] in IH.
  exact IH.
Qed.

Lemma alloc_visited ks ke st regs :
  PB.boot_alloc (map br_of (visited (cont_of (alloc_visitor ks ke (PB.b_count st)) regs (PB.b_last st)) 0 regs)) ks ke st =
  PB.boot_alloc (map br_of regs) ks ke st.
Proof.
  unfold PB.boot_alloc. pose proof (scan_visited ks ke (PB.b_count st) (PB.b_last st) regs []) as H.
  cbn [app length run_calls] in H. change (N.of_nat 0) with 0 in H. rewrite H. reflexivity.
Qed.

(** the composed statement *)
Theorem allocFrame_through_visitMemRegions (l : layout) (mb : mbinfo) (ka kb ks ke : N) (st : PB.bstate) (t0 : list gcall) (fuel : nat) :
  mbinfo_wf (l_saddr l) (l_strtab l) mb -> layout_wf l (encode mb) ->
  (find_fuel (mem_of l (encode mb)) <= fuel)%nat -> (S (length (expected_regions mb)) < fuel)%nat ->
  let regs := expected_regions mb in
  let cont := cont_of (alloc_visitor ks ke (PB.b_count st)) regs (PB.b_last st) in
  go_multiboot_VisitMemRegions mld mst fuel (mkw t0 (mem_of l (encode mb))) (l_info l) (vis_oracle cont (N.of_nat (length t0))) =
    GOk (mkw (rev (map ev_region (visited cont 0 regs)) ++ t0) (mem_of l (encode (after_visit cont mb))), tt) /\
  Trans_pmm_boot.go_pmm_BootMemAllocator_AllocFrame (BT.to_ga ka kb ks ke st) (map gr_of (visited cont 0 regs)) =
    GOk (BT.to_ga ka kb ks ke (fst (PB.boot_alloc (map br_of regs) ks ke st)),
         BT.go_result (snd (PB.boot_alloc (map br_of regs) ks ke st))).
Proof.
  intros Hwf Hlw Hff Hn regs cont. split.
  - exact (visitMemRegions_on_block l mb cont t0 fuel Hwf Hlw Hff Hn).
  - unfold gr_of. rewrite <- (map_map br_of BT.to_gr). rewrite BT.bootAllocFrame_is_translation.
    unfold cont. rewrite alloc_visited. reflexivity.
Qed.
