(** VisitElfSections on an encoded block: every non-empty section of the first ELF tag with its
    NUL-terminated name from the string table, flags, address, size; no stray access. *)
From Coq Require Import NArith ZArith List Bool Lia Arith.
From Coq Require Import ZifyBool ZifyN ZifyNat.
From FF Require Import Lib.Word Gen.Consts_multiboot Multiboot.Model Multiboot.Spec Multiboot.MemLemmas Multiboot.FindProofs.
Import ListNotations.
Local Open Scope N_scope.

Ltac Zify.zify_post_hook ::= Z.div_mod_to_equations.

Lemma len_enc_sec h : len (enc_sec h) = 64.
Proof. unfold enc_sec. rewrite !len_app, !len_le64, !len_le32. reflexivity. Qed.

Lemma len_flat_secs secs : len (flat_map enc_sec secs) = N.of_nat (length secs) * 64.
Proof.
  induction secs as [|h secs IH]; [reflexivity|]. cbn [flat_map length]. rewrite len_app, len_enc_sec, IH. lia.
Qed.

Lemma nth_sub secs : forall k h, nth_error secs k = Some h ->
  sub_at (flat_map enc_sec secs) (N.of_nat k * 64) (enc_sec h).
Proof.
  induction secs as [|h0 secs IH]; intros k h Hn; [destruct k; discriminate|].
  destruct k as [|k]; cbn [nth_error] in Hn.
  - injection Hn as ->. cbn [flat_map]. exists [], (flat_map enc_sec secs). split; reflexivity.
  - cbn [flat_map]. specialize (IH k h Hn).
    pose proof (sub_at_refl (enc_sec h0 ++ flat_map enc_sec secs)) as H. apply sub_at_app_r in H.
    pose proof (sub_at_trans _ _ _ _ _ H IH) as H'. rewrite len_enc_sec in H'.
    replace (N.of_nat (S k) * 64) with (0 + 64 + N.of_nat k * 64) by lia. exact H'.
Qed.

(** ---- NUL-terminated strings ---- *)
Definition nonzero (s : text) : Prop := Forall (fun c => c <> 0) s.

Lemma until_nul_spec l s : until_nul l = Some s -> exists r, l = s ++ 0 :: r /\ nonzero s.
Proof.
  revert s. induction l as [|c l IH]; intros s H; [discriminate|].
  cbn [until_nul] in H. destruct (N.eqb_spec c 0) as [->|Hc].
  - injection H as <-. exists l. split; [reflexivity | constructor].
  - destruct (until_nul l) as [s'|]; [|discriminate]. injection H as <-.
    destruct (IH s' eq_refl) as [r [-> Hs]]. exists r. split; [reflexivity | constructor; assumption].
Qed.

Lemma cstr_at_spec strtab i s : cstr_at strtab i = Some s -> sub_at strtab i (s ++ [0]) /\ nonzero s.
Proof.
  unfold cstr_at. destruct (i <? len strtab) eqn:Hi; [|discriminate]. intros H.
  destruct (until_nul_spec _ _ H) as [r [Hr Hs]]. split; [|exact Hs].
  exists (firstn (N.to_nat i) strtab), r. split.
  - rewrite <- (firstn_skipn (N.to_nat i) strtab) at 1. rewrite Hr. rewrite <- app_assoc. reflexivity.
  - unfold len. rewrite firstn_length_le by (unfold len in Hi; lia). lia.
Qed.

Section Elf.
  Variable l : layout.
  Variable block : list N.
  Hypothesis Hlay : lay_ok l block.
  Variable strhdr : N.
  Hypothesis Hstrhdr : rd (mem_of l block) (padd strhdr mb_off_elfSection64_address) 8 = Ok (l_saddr l).

  Lemma name_scan_ok s : forall i fuel,
    sub_at (l_strtab l) i (s ++ [0]) -> nonzero s -> (length s < fuel)%nat ->
    name_scan fuel (mem_of l block) strhdr i = Ok (i + len s).
  Proof.
    assert (Hsend : l_saddr l + len (l_strtab l) < two64) by apply Hlay.
    induction s as [|c s IH]; intros i fuel Hsub Hnz Hfuel.
    - destruct fuel as [|fuel]; [cbn in Hfuel; lia|].
      cbn [name_scan]. rewrite Hstrhdr. cbn [bind].
      assert (Hb := sub_at_bound _ _ _ Hsub). cbn [app] in Hb. change (len [0]) with 1 in Hb.
      rewrite padd_small by lia.
      rewrite (rd_str_byte l block Hlay i 0 Hsub). cbn [bind N.eqb]. rewrite len_nil, N.add_0_r. reflexivity.
    - destruct fuel as [|fuel]; [cbn in Hfuel; lia|].
      inversion Hnz as [|? ? Hc Hnz']; subst.
      cbn [name_scan]. rewrite Hstrhdr. cbn [bind].
      assert (Hb := sub_at_bound _ _ _ Hsub). rewrite len_app, len_cons in Hb. change (len [0]) with 1 in Hb.
      rewrite padd_small by lia.
      change ((c :: s) ++ [0]) with ([c] ++ (s ++ [0])) in Hsub.
      rewrite (rd_str_byte l block Hlay i c (sub_at_app_l _ _ _ _ Hsub)). cbn [bind].
      replace (c =? 0) with false by lia.
      apply sub_at_app_r in Hsub. change (len [c]) with 1 in Hsub.
      rewrite w64_small by lia.
      rewrite (IH (i + 1) fuel Hsub Hnz') by (cbn [length] in Hfuel; lia).
      rewrite len_cons. f_equal. lia.
  Qed.

  Lemma read_section_ok o h :
    sub_at block o (enc_sec h) -> sec_wf h ->
    (h_size h <> 0 -> cstr_at (l_strtab l) (h_name h) <> None) ->
    read_section (mem_of l block) strhdr (l_info l + o) = Ok (section_of (l_strtab l) h).
  Proof.
    intros Hsub [Hn [Hty [Hfl [Had [Hof [Hsz _]]]]]] Hname.
    assert (Hend : l_info l + len block < two64) by apply Hlay.
    assert (Hsend : l_saddr l + len (l_strtab l) < two64) by apply Hlay.
    assert (Hb := sub_at_bound _ _ _ Hsub). rewrite len_enc_sec in Hb.
    unfold read_section, section_of, mb_off_elfSection64_size, mb_off_elfSection64_nameIndex,
      mb_off_elfSection64_flags.
    rewrite !padd_small by lia. rewrite N.add_0_r. rewrite <- !N.add_assoc.
    unfold enc_sec in Hsub.
    assert (H0 : sub_at block o (le32 (h_name h))) by (apply (sub_at_app_l _ _ _ _ Hsub)).
    pose proof Hsub as H. apply sub_at_app_r in H. rewrite len_le32 in H.
    apply sub_at_app_r in H. rewrite len_le32 in H. replace (o + 4 + 4) with (o + 8) in H by lia.
    assert (H8 : sub_at block (o + 8) (le64 (h_flags h))) by (apply (sub_at_app_l _ _ _ _ H)).
    apply sub_at_app_r in H. rewrite len_le64 in H. replace (o + 8 + 8) with (o + 16) in H by lia.
    assert (H16 : sub_at block (o + 16) (le64 (h_addr h))) by (apply (sub_at_app_l _ _ _ _ H)).
    apply sub_at_app_r in H. rewrite len_le64 in H.
    apply sub_at_app_r in H. rewrite len_le64 in H. replace (o + 16 + 8 + 8) with (o + 32) in H by lia.
    assert (H32 : sub_at block (o + 32) (le64 (h_size h))) by (apply (sub_at_app_l _ _ _ _ H)).
    rewrite (rd_blk64 l block Hlay _ _ H32 Hsz). cbn [bind].
    destruct (h_size h =? 0) eqn:Ez; [reflexivity|].
    apply N.eqb_neq in Ez. specialize (Hname Ez).
    destruct (cstr_at (l_strtab l) (h_name h)) as [s|] eqn:Hs; [|contradiction].
    destruct (cstr_at_spec _ _ _ Hs) as [Hsubs Hnz].
    rewrite (rd_blk32 l block Hlay _ _ H0 Hn). cbn [bind].
    assert (Hbs := sub_at_bound _ _ _ Hsubs). rewrite len_app in Hbs. change (len [0]) with 1 in Hbs.
    rewrite (name_scan_ok s (h_name h) _ Hsubs Hnz).
    2:{ unfold mem_of, total_len. cbn [fold_right s_data]. rewrite !app_length. unfold len in Hbs. lia. }
    cbn [bind]. rewrite Hstrhdr. cbn [bind].
    replace (sub64 (h_name h + len s) (h_name h)) with (len s).
    2:{ unfold sub64. rewrite (w64_small (h_name h)) by (rewrite two64_val, two32_val in *; lia).
        unfold w64. rewrite two64_val in *. lia. }
    unfold mb_off_elfSection64_address. rewrite !padd_small by lia. rewrite <- !N.add_assoc.
    destruct (len s =? 0) eqn:El.
    - apply N.eqb_eq in El. destruct s; [|rewrite len_cons in El; lia]. cbn [bind].
      rewrite (rd_blk64 l block Hlay _ _ H8 Hfl). cbn [bind].
      rewrite (rd_blk64 l block Hlay _ _ H16 Had). cbn [bind]. reflexivity.
    - apply N.eqb_neq in El.
      rewrite (rd_str l block Hlay _ _ (sub_at_app_l _ _ _ _ Hsubs)) by lia. cbn [bind].
      rewrite (rd_blk64 l block Hlay _ _ H8 Hfl). cbn [bind].
      rewrite (rd_blk64 l block Hlay _ _ H16 Had). cbn [bind]. reflexivity.
  Qed.

  Lemma visit_elf_loop_ok secs : forall o,
    sub_at block o (flat_map enc_sec secs) -> Forall sec_wf secs ->
    Forall (fun h => h_size h <> 0 -> cstr_at (l_strtab l) (h_name h) <> None) secs ->
    visit_elf_loop (length secs) (mem_of l block) strhdr (l_info l + o) =
      (somes (map (section_of (l_strtab l)) secs), Ok tt).
  Proof.
    assert (Hend : l_info l + len block < two64) by apply Hlay.
    induction secs as [|h secs IH]; intros o Hsub Hwf Hnames; [reflexivity|].
    cbn [length visit_elf_loop map somes flat_map] in *.
    assert (Hb := sub_at_bound _ _ _ Hsub). rewrite len_app, len_enc_sec in Hb.
    rewrite (read_section_ok o h (sub_at_app_l _ _ _ _ Hsub) (Forall_inv Hwf) (Forall_inv Hnames)).
    unfold mb_sizeof_elfSection64. rewrite padd_small by lia. rewrite <- N.add_assoc.
    apply sub_at_app_r in Hsub. rewrite len_enc_sec in Hsub.
    rewrite (IH (o + 64) Hsub (Forall_inv_tail Hwf) (Forall_inv_tail Hnames)).
    destruct (section_of (l_strtab l) h); reflexivity.
  Qed.
End Elf.

(** VisitElfSections on an encoded well-formed block *)
Lemma visit_elf_sections_encode (l : layout) (mb : mbinfo) :
  mbinfo_wf (l_saddr l) (l_strtab l) mb -> layout_wf l (encode mb) ->
  visit_elf_sections (mem_of l (encode mb)) (l_info l) = (expected_sections (l_strtab l) mb, Ok tt).
Proof.
  intros Hwf Hlw. pose proof (layout_wf_ok _ _ Hlw) as Hlay.
  pose proof two16_val as T16. pose proof two32_val as T32. pose proof two64_val as T64.
  unfold visit_elf_sections. rewrite (find_tag_encode l mb _ Hwf Hlw) by discriminate.
  destruct Hwf as [Hr [Hts Hsm]].
  pose proof (locate_first sel_elf _ _ mb_tagElfSymbols (mb_tags mb) (sel_elf_type _ _) Hts 8) as Hfirst.
  unfold expected_sections.
  destruct (first_tag sel_elf (mb_tags mb)) as [[[en sh] secs]|].
  - destruct Hfirst as [o' [t [Hloc Hsel]]]. rewrite Hloc.
    destruct t; try discriminate. cbn [sel_elf] in Hsel. injection Hsel as -> -> ->.
    destruct (locate_sub (encode mb) _ _ (mb_tags mb) 8 _ o' _ end_tag (sub_at_body mb) Hts Hloc) as [Hsub [Htw _]].
    cbn [tag_wf payload] in *.
    destruct Htw as [Hsh [Hnum [Hent [Hsecs [[hs [Hnth Hsaddr]] Hnames]]]]].
    assert (Hend : l_info l + len (encode mb) < two64) by apply Hlay.
    assert (Hb := sub_at_bound _ _ _ Hsub). rewrite !len_app, !len_le32, len_flat_secs in Hb.
    replace (len (le32 (N.of_nat (length secs)) ++ le32 en ++ le32 sh ++ flat_map enc_sec secs) =? 0) with false
      by (rewrite !len_app, !len_le32; lia).
    unfold mb_off_elfSections_strtabSectionIndex, mb_off_elfSections_sectionData, mb_off_elfSections_numSections.
    rewrite !padd_small by lia. rewrite N.add_0_r. rewrite <- !N.add_assoc.
    (* pieces of the payload *)
    assert (Hnumsub : sub_at (encode mb) (o' + 8) (le16 (N.of_nat (length secs)))).
    { pose proof (sub_at_app_l _ _ _ _ Hsub) as H. rewrite (le32_low16 _ Hnum) in H. apply (sub_at_app_l _ _ _ _ H). }
    pose proof Hsub as H. apply sub_at_app_r in H. rewrite len_le32 in H.
    apply sub_at_app_r in H. rewrite len_le32 in H. replace (o' + 8 + 4 + 4) with (o' + 8 + 8) in H by lia.
    assert (Hshsub : sub_at (encode mb) (o' + 8 + 8) (le32 sh)) by (apply (sub_at_app_l _ _ _ _ H)).
    apply sub_at_app_r in H. rewrite len_le32 in H. replace (o' + 8 + 8 + 4) with (o' + 8 + 12) in H by lia.
    replace (o' + (8 + 8)) with (o' + 8 + 8) by lia.
    rewrite (rd_blk32 l (encode mb) Hlay _ _ Hshsub Hsh).
    replace (o' + (8 + 0)) with (o' + 8) by lia. replace (o' + (8 + 12)) with (o' + 8 + 12) by lia.
    rewrite (rd_blk16 l (encode mb) Hlay _ _ Hnumsub Hnum).
    rewrite Nat2N.id.
    (* the string-table section header *)
    assert (Hshlt : (N.to_nat sh < length secs)%nat) by (apply nth_error_Some; rewrite Hnth; discriminate).
    pose proof (nth_sub secs _ _ Hnth) as Hhs. rewrite N2Nat.id in Hhs.
    pose proof (sub_at_trans _ _ _ _ _ H Hhs) as Hhs'.
    assert (Hstr : rd (mem_of l (encode mb))
                      (padd (padd (l_info l + (o' + 8 + 12)) (w64 (sh * mb_sizeof_elfSection64))) mb_off_elfSection64_address) 8
                   = Ok (l_saddr l)).
    { unfold mb_sizeof_elfSection64, mb_off_elfSection64_address.
      rewrite w64_small by lia.
      assert (Hbh := sub_at_bound _ _ _ Hhs'). rewrite len_enc_sec in Hbh.
      rewrite (padd_small (l_info l + (o' + 8 + 12)) (sh * 64)) by lia.
      rewrite padd_small by lia. rewrite <- !N.add_assoc.
      unfold enc_sec in Hhs'.
      apply sub_at_app_r in Hhs'. rewrite len_le32 in Hhs'.
      apply sub_at_app_r in Hhs'. rewrite len_le32 in Hhs'.
      apply sub_at_app_r in Hhs'. rewrite len_le64 in Hhs'.
      apply sub_at_app_l in Hhs'.
      replace (o' + (8 + (12 + (sh * 64 + 16)))) with (o' + 8 + 12 + sh * 64 + 4 + 4 + 8) by lia.
      rewrite <- Hsaddr. apply (rd_blk64 l (encode mb) Hlay _ _ Hhs').
      pose proof (nth_error_In _ _ Hnth) as Hin. rewrite Forall_forall in Hsecs. apply (Hsecs hs Hin). }
    apply (visit_elf_loop_ok l (encode mb) Hlay _ Hstr secs (o' + 8 + 12) H Hsecs Hnames).
  - rewrite Hfirst. reflexivity.
Qed.
