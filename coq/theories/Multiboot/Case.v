(** Flat interface of the C10 model for the correspondence driver.   Definitions only.

    case  = kind stop base npre nblk blk.. sbase nspre nstr str.. [mbinfo]
            kind 0: block generated from the attached [mbinfo] (the model re-checks blk = encode mbinfo)
            kind 1: hand-laid-out / malformed block, nothing attached
            block segment  = base .. : npre zero bytes then blk ;  info pointer = base + npre
            string table   = sbase .. : nspre zero bytes then str (no segment when nspre + nstr = 0)
            stop: the memory-region visitor returns false on its call number [stop] (0-based)
    mbinfo = reserved ntags tag..
      tag  = 6 esz ever n (addr len type ntail tail.. ).. npad pad..
           | 8 addr pitch width height bpp type reserved ncolor color.. npad pad..
           | 1 nlead lead.. n ( 0 nk k.. nv v.. nws ws.. | 1 nf f.. nws ws.. ).. npad pad..
           | 9 entsize shndx n (name type flags addr offset size link info align entsize).. npad pad..
           | 100 ty npayload payload.. npad pad..
    obs   = encflag MEM FB CMD ELF
      encflag: kind 0 -> 1 if blk = encode mbinfo else 0 ; kind 1 -> 2
      MEM = code n (addr len type)..          code: 0 ok, 1 stray, 2 hang, 3 runaway
      FB  = code present [addr pitch width height bpp type isrgb rgb..6]
      CMD = code n (nk k.. nv v..)..   sorted by key
      ELF = code n (nname name.. flags addr size)..  *)
From Coq Require Import NArith List Bool.
From FF Require Import Lib.Word Gen.Consts_multiboot Multiboot.Model Multiboot.Spec.
Import ListNotations.
Local Open Scope N_scope.

(** ---- cursor helpers ---- *)
Definition cap (n : N) (l : list N) : nat :=
  if n <=? N.of_nat (length l) then N.to_nat n else length l.

Definition dec_num (l : list N) : N * list N :=
  match l with [] => (0, []) | x :: r => (x, r) end.

Definition dec_list (l : list N) : list N * list N :=
  match l with
  | [] => ([], [])
  | n :: r => (firstn (cap n r) r, skipn (cap n r) r)
  end.

Fixpoint dec_rep {A : Type} (d : list N -> A * list N) (n : nat) (l : list N) : list A * list N :=
  match n with
  | O => ([], l)
  | S n => let '(a, l1) := d l in let '(r, l2) := dec_rep d n l1 in (a :: r, l2)
  end.

Definition dec_many {A : Type} (d : list N -> A * list N) (l : list N) : list A * list N :=
  match l with
  | [] => ([], [])
  | n :: r => dec_rep d (cap n r) r
  end.

Definition dec_entry (l : list N) : mm_entry * list N :=
  match l with
  | a :: ln :: t :: r => let '(tail, r') := dec_list r in (mkEntry a ln t tail, r')
  | _ => (mkEntry 0 0 0 [], [])
  end.

Definition dec_cmd_entry (l : list N) : (cmd_entry * text) * list N :=
  match l with
  | 0 :: r =>
      let '(k, r1) := dec_list r in let '(v, r2) := dec_list r1 in let '(ws, r3) := dec_list r2 in
      ((KV k v, ws), r3)
  | _ :: r =>
      let '(f, r1) := dec_list r in let '(ws, r2) := dec_list r1 in ((Bare f, ws), r2)
  | [] => ((Bare [], []), [])
  end.

Definition dec_sec (l : list N) : sec_hdr * list N :=
  match l with
  | a :: b :: c :: d :: e :: f :: g :: h :: i :: j :: r => (mkSec a b c d e f g h i j, r)
  | _ => (mkSec 0 0 0 0 0 0 0 0 0 0, [])
  end.

Definition dec_tag (l : list N) : (tag * list N) * list N :=
  match l with
  | 6 :: esz :: ever :: r =>
      let '(es, r1) := dec_many dec_entry r in let '(pad, r2) := dec_list r1 in
      ((TMemMap esz ever es, pad), r2)
  | 8 :: a :: p :: w :: h :: b :: t :: rs :: r =>
      let '(col, r1) := dec_list r in let '(pad, r2) := dec_list r1 in
      ((TFramebuffer (mkFbTag a p w h b t rs col), pad), r2)
  | 1 :: r =>
      let '(lead, r1) := dec_list r in let '(es, r2) := dec_many dec_cmd_entry r1 in
      let '(pad, r3) := dec_list r2 in
      ((TCmdLine (mkCmd lead es), pad), r3)
  | 9 :: en :: sh :: r =>
      let '(secs, r1) := dec_many dec_sec r in let '(pad, r2) := dec_list r1 in
      ((TElf en sh secs, pad), r2)
  | _ :: ty :: r =>
      let '(p, r1) := dec_list r in let '(pad, r2) := dec_list r1 in
      ((TOther ty p, pad), r2)
  | _ => ((TOther 0 [], []), [])
  end.

Definition dec_mbinfo (l : list N) : mbinfo :=
  match l with
  | rsv :: r => mkMb rsv (fst (dec_many dec_tag r))
  | [] => mkMb 0 []
  end.

(** ---- observation encoding ---- *)
Definition code {A : Type} (o : outcome A) : N :=
  match o with Ok _ => 0 | Stray => 1 | Hang => 2 | Runaway => 3 end.

Definition enc_list (l : list N) : list N := N.of_nat (length l) :: l.

Fixpoint text_ltb (a b : text) : bool :=
  match a, b with
  | _, [] => false
  | [], _ :: _ => true
  | x :: a', y :: b' => (x <? y) || ((x =? y) && text_ltb a' b')
  end.

Fixpoint insert_sorted (p : text * text) (l : list (text * text)) : list (text * text) :=
  match l with
  | [] => [p]
  | q :: r => if text_ltb (fst p) (fst q) then p :: q :: r else q :: insert_sorted p r
  end.

Definition sort_pairs (l : list (text * text)) : list (text * text) := fold_right insert_sorted [] l.

Definition lists_eqb (a b : list N) : bool := text_eqb a b.

(** the harness's visitor gives up (panics) when called more than this many times *)
Definition visitor_cap : nat := 2048%nat.

Definition zeros (n : N) : list N := repeat 0 (N.to_nat n).

Definition obs_mem (m : mem) (info stop : N) : mem * list N :=
  let '(m', rs, o) := visit_mem_regions visitor_cap (fun i _ => negb (i =? stop)) m info in
  (m', code o :: N.of_nat (length rs) :: flat_map (fun r => [r_addr r; r_len r; r_type r]) rs).

Definition obs_fb (m : mem) (info : N) : list N :=
  match framebuffer m info with
  | Ok None => [0; 0]
  | Ok (Some f) =>
      [0; 1; fb_addr f; fb_pitch f; fb_width f; fb_height f; fb_bpp f; fb_type f] ++
      match fb_rgb f with Some c => 1 :: c | None => [0] end
  | o => [code o; 0]
  end.

Definition obs_cmd (m : mem) (info : N) : list N :=
  match get_boot_cmdline m info with
  | Ok al =>
      0 :: N.of_nat (length al) :: flat_map (fun p => enc_list (fst p) ++ enc_list (snd p)) (sort_pairs al)
  | o => [code o; 0]
  end.

Definition obs_elf (m : mem) (info : N) : list N :=
  let '(ss, o) := visit_elf_sections m info in
  code o :: N.of_nat (length ss) ::
  flat_map (fun s => enc_list (sec_name s) ++ [sec_flags s; sec_addr s; sec_size s]) ss.

Definition run_case (l : list N) : list N :=
  match l with
  | kind :: stop :: base :: npre :: r =>
      let '(blk, r1) := dec_list r in
      match r1 with
      | sbase :: nspre :: r2 =>
          let '(str, r3) := dec_list r2 in
          let info := base + npre in
          let m0 := mkSeg base (zeros npre ++ blk) ::
                    (if (nspre =? 0) && (len str =? 0) then [] else [mkSeg sbase (zeros nspre ++ str)]) in
          let flag := if kind =? 0 then (if lists_eqb blk (encode (dec_mbinfo r3)) then 1 else 0) else 2 in
          let '(m1, o_mem) := obs_mem m0 info stop in
          flag :: o_mem ++ obs_fb m1 info ++ obs_cmd m1 info ++ obs_elf m1 info
      | _ => []
      end
  | _ => []
  end.
