(** Specification side of C10: what a multiboot2 information block IS ([mbinfo]), how it is laid
    out in memory ([encode], per the multiboot2 rules: 8-byte header, tags of 8-byte header +
    payload, padded to 8-byte alignment, terminated by an end tag), when it is well formed, and
    what the kernel must report for it.   Definitions only. *)
From Coq Require Import NArith List Bool.
From FF Require Import Lib.Word Gen.Consts_multiboot Multiboot.Model.
Import ListNotations.
Local Open Scope N_scope.

Definition le16 (v : N) : list N := bytes_le 2 v.
Definition le32 (v : N) : list N := bytes_le 4 v.
Definition le64 (v : N) : list N := bytes_le 8 v.
Definition len (l : list N) : N := N.of_nat (length l).

(** memory-map entry: base, length, type, then [entry size - 20] further bytes (the reserved
    dword and whatever a larger entry size adds) *)
Record mm_entry := mkEntry { e_addr : N; e_len : N; e_type : N; e_tail : list N }.

(** command line: white space, then entries each followed by white space *)
Inductive cmd_entry :=
| KV (k v : text)          (* key=value *)
| Bare (f : text).         (* bare flag *)
Record cmdline := mkCmd { c_lead : text; c_entries : list (cmd_entry * text) }.

Record fbtag := mkFbTag {
  t_addr : N; t_pitch : N; t_width : N; t_height : N; t_bpp : N; t_type : N; t_reserved : N;
  t_color : list N        (* colour info bytes: palette (indexed), 6 bytes (RGB), nothing (EGA) *)
}.

Record sec_hdr := mkSec {
  h_name : N; h_type : N; h_flags : N; h_addr : N; h_offset : N; h_size : N;
  h_link : N; h_info : N; h_align : N; h_entsize : N
}.

Inductive tag :=
| TMemMap (esz ever : N) (es : list mm_entry)
| TFramebuffer (f : fbtag)
| TCmdLine (c : cmdline)
| TElf (entsize shndx : N) (secs : list sec_hdr)
| TOther (ty : N) (payload : list N).

(** a tag together with the padding bytes that follow it *)
Record mbinfo := mkMb { mb_reserved : N; mb_tags : list (tag * list N) }.

(** ---- layout ---- *)
Definition enc_entry (e : mm_entry) : list N :=
  le64 (e_addr e) ++ le64 (e_len e) ++ le32 (e_type e) ++ e_tail e.

Definition enc_cmd_entry (e : cmd_entry) : text :=
  match e with
  | KV k v => k ++ 61 :: v
  | Bare f => f
  end.

Definition cmd_text (c : cmdline) : text :=
  c_lead c ++ flat_map (fun p => enc_cmd_entry (fst p) ++ snd p) (c_entries c).

Definition enc_fb (f : fbtag) : list N :=
  le64 (t_addr f) ++ le32 (t_pitch f) ++ le32 (t_width f) ++ le32 (t_height f) ++
  [t_bpp f; t_type f] ++ le16 (t_reserved f) ++ t_color f.

Definition enc_sec (h : sec_hdr) : list N :=
  le32 (h_name h) ++ le32 (h_type h) ++ le64 (h_flags h) ++ le64 (h_addr h) ++ le64 (h_offset h) ++
  le64 (h_size h) ++ le32 (h_link h) ++ le32 (h_info h) ++ le64 (h_align h) ++ le64 (h_entsize h).

Definition tag_type (t : tag) : N :=
  match t with
  | TMemMap _ _ _ => mb_tagMemoryMap
  | TFramebuffer _ => mb_tagFramebufferInfo
  | TCmdLine _ => mb_tagBootCmdLine
  | TElf _ _ _ => mb_tagElfSymbols
  | TOther ty _ => ty
  end.

Definition payload (t : tag) : list N :=
  match t with
  | TMemMap esz ever es => le32 esz ++ le32 ever ++ flat_map enc_entry es
  | TFramebuffer f => enc_fb f
  | TCmdLine c => cmd_text c ++ [0]
  | TElf entsize shndx secs =>
      le32 (N.of_nat (length secs)) ++ le32 entsize ++ le32 shndx ++ flat_map enc_sec secs
  | TOther _ p => p
  end.

(** header (type, size = 8 + payload, NOT counting the padding), payload, padding *)
Definition enc_tag (tp : tag * list N) : list N :=
  le32 (tag_type (fst tp)) ++ le32 (8 + len (payload (fst tp))) ++ payload (fst tp) ++ snd tp.

Definition end_tag : list N := le32 mb_tagMbSectionEnd ++ le32 8.

Definition enc_body (mb : mbinfo) : list N := flat_map enc_tag (mb_tags mb) ++ end_tag.

Definition encode (mb : mbinfo) : list N :=
  le32 (8 + len (enc_body mb)) ++ le32 (mb_reserved mb) ++ enc_body mb.

(** ---- well-formedness ---- *)
Definition bytes (l : list N) : Prop := Forall (fun b => b < 256) l.

Definition pad_len (n : N) : N := (8 - n mod 8) mod 8.

Definition entry_wf (esz : N) (e : mm_entry) : Prop :=
  e_addr e < two64 /\ e_len e < two64 /\ e_type e < two32 /\ bytes (e_tail e) /\ len (e_tail e) + 20 = esz.

(** characters of keys, values and flags: ASCII, not NUL, not white space, not '=' *)
Definition word_char (c : N) : Prop := 0 < c /\ c < 128 /\ is_space c = false /\ c <> 61.
Definition word (w : text) : Prop := Forall word_char w.
(** white space between entries: any sequence of white-space runes, ASCII or the UTF-8 encoding
    of one of the other Unicode white-space code points *)
Definition space_unit (u : text) : Prop :=
  (exists c, u = [c] /\ is_space c = true) \/ In u unicode_spaces.
Definition spaces (w : text) : Prop := exists us, w = concat us /\ Forall space_unit us.

Definition cmd_entry_wf (e : cmd_entry) : Prop :=
  match e with
  | KV k v => word k /\ word v
  | Bare f => word f /\ f <> []
  end.

(** every entry is followed by white space, except that the last one need not be *)
Fixpoint entries_wf (es : list (cmd_entry * text)) : Prop :=
  match es with
  | [] => True
  | (e, ws) :: r => cmd_entry_wf e /\ spaces ws /\ (r <> [] -> ws <> []) /\ entries_wf r
  end.

Definition cmdline_wf (c : cmdline) : Prop := spaces (c_lead c) /\ entries_wf (c_entries c).

Definition fb_wf (f : fbtag) : Prop :=
  t_addr f < two64 /\ t_pitch f < two32 /\ t_width f < two32 /\ t_height f < two32 /\
  t_bpp f < 256 /\ t_type f < 256 /\ t_reserved f < two16 /\ bytes (t_color f) /\
  (t_type f = mb_FramebufferTypeRGB -> 6 <= len (t_color f)).

Definition sec_wf (h : sec_hdr) : Prop :=
  h_name h < two32 /\ h_type h < two32 /\ h_flags h < two64 /\ h_addr h < two64 /\ h_offset h < two64 /\
  h_size h < two64 /\ h_link h < two32 /\ h_info h < two32 /\ h_align h < two64 /\ h_entsize h < two64.

(** NUL-terminated string at index [i] of a string table *)
Fixpoint until_nul (l : list N) : option text :=
  match l with
  | [] => None
  | c :: r => if c =? 0 then Some [] else match until_nul r with Some s => Some (c :: s) | None => None end
  end.
Definition cstr_at (strtab : list N) (i : N) : option text :=
  if i <? len strtab then until_nul (skipn (N.to_nat i) strtab) else None.

(** the ELF tag refers to a string table [strtab] that lives at address [saddr] *)
Definition elf_wf (saddr : N) (strtab : list N) (entsize shndx : N) (secs : list sec_hdr) : Prop :=
  N.of_nat (length secs) < two16 /\ entsize = mb_sizeof_elfSection64 /\
  Forall sec_wf secs /\
  (exists h, nth_error secs (N.to_nat shndx) = Some h /\ h_addr h = saddr) /\
  Forall (fun h => h_size h <> 0 -> cstr_at strtab (h_name h) <> None) secs.

Definition decoded_type (ty : N) : bool :=
  (ty =? mb_tagMemoryMap) || (ty =? mb_tagFramebufferInfo) || (ty =? mb_tagBootCmdLine) || (ty =? mb_tagElfSymbols).

Definition tag_wf (saddr : N) (strtab : list N) (t : tag) : Prop :=
  match t with
  | TMemMap esz ever es => 24 <= esz /\ esz < two32 /\ ever < two32 /\ Forall (entry_wf esz) es
  | TFramebuffer f => fb_wf f
  | TCmdLine c => cmdline_wf c
  | TElf entsize shndx secs => shndx < two32 /\ elf_wf saddr strtab entsize shndx secs
  | TOther ty p => ty < two32 /\ ty <> mb_tagMbSectionEnd /\ decoded_type ty = false /\ bytes p
  end.

Definition tagpad_wf (saddr : N) (strtab : list N) (tp : tag * list N) : Prop :=
  tag_wf saddr strtab (fst tp) /\ bytes (snd tp) /\
  len (snd tp) = pad_len (8 + len (payload (fst tp))).

(** the whole block is smaller than 2 GiB (sizes are added as int32 by the kernel) *)
Definition mbinfo_wf (saddr : N) (strtab : list N) (mb : mbinfo) : Prop :=
  mb_reserved mb < two32 /\ Forall (tagpad_wf saddr strtab) (mb_tags mb) /\ len (encode mb) < 0x80000000.

(** ---- placement in memory ---- *)
(** the block at [info], preceded by accessible bytes [pre] (rest of its first page), and the
    string table at [saddr], preceded by [spre]; nothing else is accessible *)
Record layout := mkLayout { l_info : N; l_pre : list N; l_saddr : N; l_spre : list N; l_strtab : list N }.

Definition mem_of (l : layout) (block : list N) : mem :=
  [ mkSeg (l_info l - len (l_pre l)) (l_pre l ++ block);
    mkSeg (l_saddr l - len (l_spre l)) (l_spre l ++ l_strtab l) ].

Definition layout_wf (l : layout) (block : list N) : Prop :=
  len (l_pre l) <= l_info l /\ len (l_spre l) <= l_saddr l /\
  l_info l + len block < two64 /\ l_saddr l + len (l_strtab l) < two64 /\
  bytes (l_pre l) /\ bytes (l_spre l) /\ bytes (l_strtab l) /\
  (* the two segments are disjoint and not adjacent *)
  (l_info l + len block < l_saddr l - len (l_spre l) \/ l_saddr l + len (l_strtab l) < l_info l - len (l_pre l)).

(** ---- what the kernel must report ---- *)
Fixpoint first_tag {A : Type} (sel : tag -> option A) (ts : list (tag * list N)) : option A :=
  match ts with
  | [] => None
  | (t, _) :: r => match sel t with Some a => Some a | None => first_tag sel r end
  end.

Definition sel_memmap (t : tag) := match t with TMemMap esz ever es => Some (esz, ever, es) | _ => None end.
Definition sel_fb (t : tag) := match t with TFramebuffer f => Some f | _ => None end.
Definition sel_cmd (t : tag) := match t with TCmdLine c => Some c | _ => None end.
Definition sel_elf (t : tag) := match t with TElf en sh secs => Some (en, sh, secs) | _ => None end.

(** types outside the defined set {available, reserved, ACPI reclaimable, NVS} are reported reserved *)
Definition norm_type (t : N) : N :=
  if (t =? mb_MemAvailable) || (t =? mb_MemReserved) || (t =? mb_MemAcpiReclaimable) || (t =? mb_MemNvs)
  then t else mb_MemReserved.

Definition region_of (e : mm_entry) : region := mkRegion (e_addr e) (e_len e) (norm_type (e_type e)).

(** the visitor is called for the regions in order until it returns false *)
Fixpoint visited (cont : N -> region -> bool) (idx : N) (rs : list region) : list region :=
  match rs with
  | [] => []
  | r :: rest => r :: (if cont idx r then visited cont (idx + 1) rest else [])
  end.

Definition expected_regions (mb : mbinfo) : list region :=
  match first_tag sel_memmap (mb_tags mb) with
  | Some (_, _, es) => map region_of es
  | None => []
  end.

Definition expected_fb (mb : mbinfo) : option fbinfo :=
  match first_tag sel_fb (mb_tags mb) with
  | Some f =>
      Some (mkFb (t_addr f) (t_pitch f) (t_width f) (t_height f) (t_bpp f) (t_type f)
                 (if t_type f =? mb_FramebufferTypeRGB then Some (firstn 6 (t_color f)) else None))
  | None => None
  end.

(** the key/value map of a command line: later entries override earlier ones with the same key *)
Definition entry_pair (e : cmd_entry) : text * text :=
  match e with
  | KV k v => (k, v)
  | Bare f => (f, f)
  end.

Definition expected_cmdline (mb : mbinfo) : list (text * text) :=
  match first_tag sel_cmd (mb_tags mb) with
  | Some c => fold_left (fun al e => assign (fst (entry_pair (fst e))) (snd (entry_pair (fst e))) al) (c_entries c) []
  | None => []
  end.

Definition section_of (strtab : list N) (h : sec_hdr) : option section :=
  if h_size h =? 0 then None
  else Some (mkSection (match cstr_at strtab (h_name h) with Some s => s | None => [] end)
                       (h_flags h mod two32) (h_addr h) (h_size h)).

Fixpoint somes {A : Type} (l : list (option A)) : list A :=
  match l with
  | [] => []
  | Some a :: r => a :: somes r
  | None :: r => somes r
  end.

Definition expected_sections (strtab : list N) (mb : mbinfo) : list section :=
  match first_tag sel_elf (mb_tags mb) with
  | Some (_, _, secs) => somes (map (section_of strtab) secs)
  | None => []
  end.
