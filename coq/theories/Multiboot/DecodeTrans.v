(** The multiboot decoders of Multiboot/Model.v are the TRANSLATION of kernel/multiboot/multiboot.go.

    Gen/Trans_multiboot.v is regenerated from the Go source on every run by gen/gotrans (config
    gen/gotrans/multiboot.json, feature "memstructs" = typed struct pointers into memory, gen/gotrans/ext_mb.go):
    a Section over a memory type M with a load mb_ld and a store mb_st.  Here M is the model's memory (accessible
    segments), mb_ld / mb_st are the model's [rd] / [wr_bytes]; a load or store that leaves the accessible
    segments is None, i.e. GPanic in the translation, [Stray] in the model. *)
From Coq Require Import String NArith List Bool Lia.
From Coq Require Import ZifyBool ZifyN ZifyNat.
From FF Require Import Lib.Word Lib.GoOps Lib.GoOpsFmt Gen.Consts_multiboot Gen.Trans_multiboot Multiboot.Model.
Import ListNotations.
Local Open Scope N_scope.

(** ---- the memory operations handed to the translation ---- *)
Definition mld (m : mem) (n a : N) : option N := match rd m a n with Ok v => Some v | _ => None end.
Definition mst (m : mem) (n a v : N) : option mem := wr_bytes m a (bytes_le (N.to_nat n) v).

Notation world := (@go_multiboot_world mem).
Definition mkw (t : list gcall) (m : mem) : world := mk_go_multiboot_world t m.

(** every cell of the memory is a byte *)
Definition byte_list (l : list N) : Prop := Forall (fun b => b < 256) l.
Definition mem_bytes (m : mem) : Prop := Forall (fun s => byte_list (s_data s)) m.

Lemma byte_list_firstn n l : byte_list l -> byte_list (firstn n l).
Proof.
  unfold byte_list. revert l. induction n as [|n IH]; intros l H; [constructor|].
  destruct l as [|x l]; [constructor|]. inversion H; subst. cbn [firstn]. constructor; [assumption|]. apply IH; assumption.
Qed.

Lemma byte_list_skipn n l : byte_list l -> byte_list (skipn n l).
Proof.
  unfold byte_list. revert l. induction n as [|n IH]; intros l H; [exact H|].
  destruct l as [|x l]; [constructor|]. inversion H; subst. cbn [skipn]. apply IH; assumption.
Qed.

Lemma byte_list_app a b : byte_list a -> byte_list b -> byte_list (a ++ b).
Proof. unfold byte_list. intros. apply Forall_app. split; assumption. Qed.

Lemma byte_list_bytes_le n v : byte_list (bytes_le n v).
Proof.
  unfold byte_list. revert v. induction n as [|n IH]; intros v; cbn [bytes_le]; constructor; [|apply IH].
  apply N.mod_lt. discriminate.
Qed.

Lemma le_bound l : byte_list l -> le l < 256 ^ N.of_nat (length l).
Proof.
  unfold byte_list. induction l as [|b r IH]; intros H.
  - cbn. lia.
  - inversion H; subst. specialize (IH H3). cbn [le length].
    rewrite Nat2N.inj_succ, N.pow_succ_r'. lia.
Qed.

Lemma rd_bytes_ok m a n l : mem_bytes m -> rd_bytes m a n = Some l -> byte_list l /\ length l = N.to_nat n.
Proof.
  unfold mem_bytes. induction m as [|s r IH]; intros Hm H; [discriminate|].
  inversion Hm; subst. cbn [rd_bytes] in H. destruct (in_seg s a n) eqn:E.
  - injection H as <-. split.
    + unfold slice. apply byte_list_firstn, byte_list_skipn. assumption.
    + unfold in_seg, seg_len in E. apply andb_true_iff in E. destruct E as [E1 E2].
      apply N.leb_le in E1, E2. unfold slice. rewrite firstn_length, skipn_length. lia.
  - apply IH; assumption.
Qed.

Lemma rd_cases m a n : (exists v, rd m a n = Ok v) \/ rd m a n = Stray.
Proof. unfold rd. destruct (rd_bytes m a n); [left; eexists; reflexivity|right; reflexivity]. Qed.

(** a load of the translation is the model's [rd] *)
Lemma gload_rd m n a : mem_bytes m ->
  gload (mld m) n a = match rd m a n with Ok v => Some v | _ => None end.
Proof.
  intros Hm. unfold gload, mld, rd. destruct (rd_bytes m a n) as [l|] eqn:E; [|reflexivity].
  destruct (rd_bytes_ok _ _ _ _ Hm E) as [Hb Hl]. f_equal. unfold gw. apply N.mod_small.
  pose proof (le_bound l Hb) as Hlt. rewrite Hl, N2Nat.id in Hlt.
  replace (2 ^ (8 * n)) with (256 ^ n); [exact Hlt|]. rewrite N.pow_mul_r. reflexivity.
Qed.

(** a store keeps the memory a memory of bytes *)
Lemma wr_bytes_bytes m a bs m' : mem_bytes m -> byte_list bs -> wr_bytes m a bs = Some m' -> mem_bytes m'.
Proof.
  unfold mem_bytes. revert m'. induction m as [|s r IH]; intros m' Hm Hb H; [discriminate|].
  inversion Hm; subst. cbn [wr_bytes] in H. destruct (in_seg s a (N.of_nat (length bs))).
  - injection H as <-. constructor; [|assumption]. cbn [s_data]. unfold upd.
    apply byte_list_app; [apply byte_list_firstn; assumption|]. apply byte_list_app; [assumption|apply byte_list_skipn; assumption].
  - destruct (wr_bytes r a bs) as [r'|] eqn:E; [|discriminate]. injection H as <-. constructor; [assumption|].
    apply (IH r'); [assumption|assumption|reflexivity].
Qed.

Lemma mst_bytes m n a v m' : mem_bytes m -> mst m n a v = Some m' -> mem_bytes m'.
Proof. intros Hm H. exact (wr_bytes_bytes _ _ _ _ Hm (byte_list_bytes_le _ _) H). Qed.

(** ---- word arithmetic: Go's operators as the translation writes them = the model's ---- *)
Lemma gw64_padd p o : gw 64 (p + o) = padd p o.
Proof. reflexivity. Qed.

Lemma gsub32_sub32 a b : gsub 32 a b = sub32 a b.
Proof. reflexivity. Qed.

Lemma land_not7 x : N.land (gw 32 x) (gnot 32 7) = andnot (w32 x) 7.
Proof.
  change (gw 32 x) with (w32 x). unfold andnot, w32. change two32 with (2 ^ 32).
  apply N.bits_inj. intros i. rewrite N.land_spec, N.ldiff_spec. unfold gnot. rewrite N.lxor_spec.
  destruct (N.lt_ge_cases i 32) as [Hi|Hi].
  - rewrite N.ones_spec_low by exact Hi. change (gw 32 7) with 7. destruct (N.testbit 7 i); reflexivity.
  - rewrite (N.mod_pow2_bits_high x 32 i) by exact Hi. reflexivity.
Qed.

Lemma gsext_sext32 y : gsext 32 64 y = sext32 y.
Proof.
  unfold gsext, gisneg, sext32. change (2 ^ (32 - 1)) with 0x80000000. change (2 ^ 64 - 2 ^ 32) with 0xffffffff00000000.
  destruct (0x80000000 <=? y) eqn:E; destruct (y <? 0x80000000) eqn:F; try reflexivity; lia.
Qed.

(** uintptr(int32(size+7) & ^7) *)
Lemma step_tag_step sz : gsext 32 64 (N.land (gw 32 (gw 32 (sz + 7))) (gnot 32 7)) = tag_step sz.
Proof.
  rewrite gsext_sext32. unfold tag_step. f_equal. rewrite land_not7. f_equal.
  unfold gw, w32. change two32 with (2 ^ 32). apply N.mod_mod. discriminate.
Qed.

(** ---- findTagByType ---- *)
Definition find_conv (w : world) (o : outcome (N * N)) : gres (world * (N * N)) :=
  match o with
  | Ok r => GOk (w, r)
  | Stray => GPanic
  | Hang => GFuel
  | Runaway => GFuel
  end.

(** for EVERY fuel, world, wanted type and info pointer: the regenerated findTagByType is the model's tag walk on
    the same fuel - result, Stray = GPanic, out of fuel = GFuel; the world is returned unchanged *)
Lemma findTag_is_translation_fuel (fuel : nat) (w : world) (ty info : N) :
  mem_bytes (f_world_mem w) ->
  go_multiboot_findTagByType mld fuel w ty info =
    find_conv w (find_tag_loop fuel (f_world_mem w) (padd info mb_sizeof_info) ty).
Proof.
  intros Hm. unfold go_multiboot_findTagByType.
  change (gw 64 (info + 8)) with (padd info mb_sizeof_info). generalize (padd info mb_sizeof_info) as cur.
  induction fuel as [|fuel IH]; intros cur; [reflexivity|].
  cbn [gloop find_tag_loop]. rewrite !gload_rd by exact Hm. rewrite !gw64_padd.
  change mb_off_tagHeader_tagType with 0. change mb_off_tagHeader_size with 4.
  unfold bind. destruct (rd_cases (f_world_mem w) (padd cur 0) 4) as [[t Et]|Et]; rewrite Et; [|reflexivity].
  destruct (t =? mb_tagMbSectionEnd); cbn [negb]; [reflexivity|].
  destruct (rd_cases (f_world_mem w) (padd cur 4) 4) as [[sz Es]|Es]; rewrite Es; [|destruct (t =? ty); reflexivity].
  destruct (t =? ty); [reflexivity|].
  rewrite step_tag_step. apply IH.
Qed.

Lemma findTag_is_translation (w : world) (ty info : N) :
  mem_bytes (f_world_mem w) ->
  go_multiboot_findTagByType mld (find_fuel (f_world_mem w)) w ty info = find_conv w (find_tag (f_world_mem w) info ty).
Proof. intros Hm. exact (findTag_is_translation_fuel _ w ty info Hm). Qed.

(** more fuel does not change a walk that ended *)
Lemma find_tag_loop_mono f : forall f' m cur ty,
  (f <= f')%nat -> find_tag_loop f m cur ty <> Hang -> find_tag_loop f' m cur ty = find_tag_loop f m cur ty.
Proof.
  induction f as [|f IH]; intros f' m cur ty Hle Hn; [exfalso; apply Hn; reflexivity|].
  destruct f' as [|f']; [lia|]. cbn [find_tag_loop] in *. unfold bind in *.
  destruct (rd m (padd cur mb_off_tagHeader_tagType) 4) as [t| | |]; try reflexivity.
  destruct (t =? mb_tagMbSectionEnd); [reflexivity|].
  destruct (rd m (padd cur mb_off_tagHeader_size) 4) as [sz| | |]; try reflexivity.
  destruct (t =? ty); [reflexivity|]. apply IH; [lia|exact Hn].
Qed.

(** ---- VisitMemRegions ---- *)
(** the call of the visitor, as the translation records it: the three fields of the entry presented *)
Definition ev_region (r : region) : gcall :=
  GCall "visitor" [GNum (r_addr r); GNum (r_len r); GNum (r_type r)].

(** the oracle answering the visitor calls: the model's [cont] on the number of the call (counted from the
    [k] events that were on the trace before) and the region presented *)
Definition vis_oracle (cont : N -> region -> bool) (k : N) (tr : list gcall) : bool :=
  match tr with
  | GCall _ [GNum a; GNum l; GNum t] :: rest => cont (N.of_nat (length rest) - k) (mkRegion a l t)
  | _ => false
  end.

Definition visit_conv (t0 : list gcall) (r : mem * list region * outcome unit) : gres (world * unit) :=
  match r with
  | (m', rs, Ok _) => GOk (mkw (rev (map ev_region rs) ++ t0) m', tt)
  | _ => GPanic
  end.

Lemma gw64_padd_gw p e : gw 64 (p + gw 64 e) = padd p e.
Proof. unfold gw, padd, w64. change two64 with (2 ^ 64). apply N.add_mod_idemp_r. discriminate. Qed.


(* the part of an iteration after the type normalisation, on the memory [m1] it left *)
Ltac visit_tail IH HF Hlen HR Hb1 :=
  cbn [f_world_mem set_f_world_mem set_f_world_trace f_world_trace];
  rewrite !gload_rd by exact Hb1; rewrite !gw64_padd;
  unfold read_region, bind in *;
  change mb_off_MemoryMapEntry_PhysAddress with 0 in *; change mb_off_MemoryMapEntry_Length with 8 in *;
  change mb_off_MemoryMapEntry_Type with 16 in *; change mb_off_mmapHeader_entrySize with 0 in *;
  match goal with |- context [rd ?m1 (padd ?cur 0) 8] =>
    destruct (rd_cases m1 (padd cur 0) 8) as [[ra Ea]|Ea]; rewrite Ea in *; [|reflexivity];
    destruct (rd_cases m1 (padd cur 8) 8) as [[rl El]|El]; rewrite El in *; [|reflexivity];
    destruct (rd_cases m1 (padd cur 16) 4) as [[rt Ert]|Ert]; rewrite Ert in *; [|first [reflexivity|congruence]];
    try match goal with H : Ok _ = Ok _ |- _ => injection H as H; subst rt end
  end;
  cbn [vis_oracle];
  cbn [length]; rewrite Hlen;
  match goal with |- context [?k + ?idx - ?k] => replace (k + idx - k) with idx by lia end;
  match goal with |- context [if negb ?c then _ else _] => destruct c eqn:Ec end; cbn [negb]; [|reflexivity];
  match goal with |- context [rd ?m1 (padd ?c0 0) 4] =>
    destruct (rd_cases m1 (padd c0 0) 4) as [[esz Ee]|Ee]; rewrite Ee in *; [|reflexivity] end;
  cbn [set_f_world_trace set_f_world_mem f_world_trace f_world_mem];
  rewrite gw64_padd_gw;
  match goal with |- context [visit_mem_loop _ _ _ _ _ _ (?i + 1)] => rewrite (IH _ _ _ _ (i + 1)) end;
  [ cbn [f_world_trace f_world_mem set_f_world_trace set_f_world_mem];
    match goal with |- context [visit_mem_loop ?a ?b ?c ?d ?e ?f ?g] => destruct (visit_mem_loop a b c d e f g) as [[? ?] [?| | |]] end;
    cbn [visit_conv map rev]; try reflexivity; rewrite <- app_assoc; reflexivity
  | lia
  | exact Hb1
  | cbn [f_world_trace f_world_mem set_f_world_trace set_f_world_mem length]; lia
  | cbn [f_world_trace f_world_mem set_f_world_trace set_f_world_mem]; let E := fresh "E" in (intro E; apply HR;
    match goal with |- context [visit_mem_loop ?a ?b ?c ?d ?e ?f ?g] => destruct (visit_mem_loop a b c d e f g) as [[? ?] ?] end; exact E) ].

Lemma visit_is_translation (fuel n : nat) (cont : N -> region -> bool) (t0 : list gcall) (m : mem) (info : N) :
  mem_bytes m -> (find_fuel m <= fuel)%nat -> (n < fuel)%nat ->
  snd (visit_mem_regions n cont m info) <> Hang -> snd (visit_mem_regions n cont m info) <> Runaway ->
  go_multiboot_VisitMemRegions mld mst fuel (mkw t0 m) info (vis_oracle cont (N.of_nat (length t0))) =
    visit_conv t0 (visit_mem_regions n cont m info).
Proof.
  intros Hm Hff Hn HnH HnR. unfold go_multiboot_VisitMemRegions, visit_mem_regions in *.
  rewrite findTag_is_translation_fuel by exact Hm. cbn [f_world_mem mkw].
  unfold find_tag in *.
  destruct (find_tag_loop (find_fuel m) m (padd info mb_sizeof_info) mb_tagMemoryMap) as [[cur0 size]| | |] eqn:Ef.
  4: { exfalso. apply HnR. reflexivity. }
  3: { exfalso. apply HnH. reflexivity. }
  2: { rewrite (find_tag_loop_mono _ fuel _ _ _ Hff) by (rewrite Ef; discriminate). rewrite Ef. reflexivity. }
  rewrite (find_tag_loop_mono _ fuel _ _ _ Hff) by (rewrite Ef; discriminate). rewrite Ef. cbn [find_conv].
  destruct (size =? 0); [reflexivity|].
  rewrite gw64_padd_gw. change (gw 64 (cur0 + 8)) with (padd cur0 mb_sizeof_mmapHeader).
  match goal with |- context [gloop fuel ?s _] => set (step := s) end.
  set (endp := padd cur0 size) in *.
  assert (L : forall n F w cur entry idx,
     (n < F)%nat -> mem_bytes (f_world_mem w) ->
     N.of_nat (length (f_world_trace w)) = N.of_nat (length t0) + idx ->
     snd (visit_mem_loop n cont (f_world_mem w) cur0 cur endp idx) <> Runaway ->
     match gloop (R := (world * unit)%type) F step (w, cur, entry) with
     | GPanic => GPanic | GFuel => GFuel
     | GOk (inr r) => GOk r
     | GOk (inl st) => let '(v_world, _, _) := st in GOk (v_world, tt)
     end = visit_conv (f_world_trace w) (visit_mem_loop n cont (f_world_mem w) cur0 cur endp idx)).
  { clear. induction n as [|n IH]; intros F [tr mm] cur entry idx HF Hb Hlen HR; (destruct F as [|F]; [lia|]);
      cbn [gloop]; unfold step at 1; cbn [f_world_mem f_world_trace] in *; cbn [visit_mem_loop] in *.
    - destruct (cur =? endp); cbn [negb].
      + reflexivity.
      + exfalso. apply HR. reflexivity.
    - destruct (cur =? endp); cbn [negb]; [reflexivity|].
      rewrite gload_rd by exact Hb. rewrite gw64_padd. change mb_off_MemoryMapEntry_Type with 16 in *.
      destruct (rd_cases mm (padd cur 16) 4) as [[t Et]|Et]; rewrite Et in *; [|reflexivity].
      destruct (t =? 0) eqn:E0; cbn [orb] in *.
      + unfold wr32, mst in *. change (N.to_nat 4) with 4%nat. rewrite gw64_padd.
        destruct (wr_bytes mm (padd cur 16) (bytes_le 4 mb_MemReserved)) as [m1|] eqn:Ew; [|reflexivity].
        assert (Hb1 : mem_bytes m1) by exact (wr_bytes_bytes _ _ _ _ Hb (byte_list_bytes_le _ _) Ew).
        visit_tail IH HF Hlen HR Hb1.
      + destruct (mb_memUnknown <=? t).
        * unfold wr32, mst in *. change (N.to_nat 4) with 4%nat.
          destruct (wr_bytes mm (padd cur 16) (bytes_le 4 mb_MemReserved)) as [m1|] eqn:Ew; [|reflexivity].
          assert (Hb1 : mem_bytes m1) by exact (wr_bytes_bytes _ _ _ _ Hb (byte_list_bytes_le _ _) Ew).
          visit_tail IH HF Hlen HR Hb1.
        * visit_tail IH HF Hlen HR Hb. }
  apply (L n fuel (mkw t0 m) (padd cur0 mb_sizeof_mmapHeader) 0 0).
  - exact Hn.
  - exact Hm.
  - cbn [mkw f_world_trace]. lia.
  - exact HnR.
Qed.

(** ---- GetFramebufferInfo: the address of the first framebuffer tag's payload, nil (0) when there is none ---- *)
Definition fb_conv (w : world) (o : outcome (option N)) : gres (world * N) :=
  match o with
  | Ok (Some p) => GOk (w, p)
  | Ok None => GOk (w, 0)
  | Stray => GPanic
  | Hang => GFuel
  | Runaway => GFuel
  end.

Lemma getFramebufferInfo_is_translation (w : world) (info : N) :
  mem_bytes (f_world_mem w) ->
  go_multiboot_GetFramebufferInfo mld (find_fuel (f_world_mem w)) w info =
    fb_conv w (get_framebuffer_info (f_world_mem w) info).
Proof.
  intros Hm. unfold go_multiboot_GetFramebufferInfo, get_framebuffer_info.
  rewrite findTag_is_translation by exact Hm. unfold bind.
  destruct (find_tag (f_world_mem w) info mb_tagFramebufferInfo) as [[cur size]| | |]; try reflexivity.
  cbn [find_conv]. destruct (size =? 0); reflexivity.
Qed.

(** a decision procedure for [mem_bytes] (examples) *)
Definition mem_bytes_b (m : mem) : bool := forallb (fun s => forallb (fun b => b <? 256) (s_data s)) m.

Lemma mem_bytes_b_ok m : mem_bytes_b m = true -> mem_bytes m.
Proof.
  unfold mem_bytes_b, mem_bytes, byte_list. intros H. apply Forall_forall. intros s Hs.
  rewrite forallb_forall in H. specialize (H s Hs). rewrite forallb_forall in H.
  apply Forall_forall. intros b Hb. apply N.ltb_lt. exact (H b Hb).
Qed.

(** ---- FramebufferInfo.RGBColorInfo: nil unless the framebuffer is RGB, else the address of the colour block ---- *)
Lemma rgbColorInfo_is_translation (w : world) (p : N) :
  mem_bytes (f_world_mem w) ->
  go_multiboot_FramebufferInfo_RGBColorInfo mld w p =
    match rd (f_world_mem w) (padd p mb_off_FramebufferInfo_Type) 1 with
    | Ok t => GOk (w, if t =? mb_FramebufferTypeRGB then padd p mb_off_FramebufferInfo_colorInfo else 0)
    | _ => GPanic
    end.
Proof.
  intros Hm. unfold go_multiboot_FramebufferInfo_RGBColorInfo. rewrite gload_rd by exact Hm. rewrite gw64_padd.
  change mb_off_FramebufferInfo_Type with 21. change mb_off_FramebufferInfo_colorInfo with 24.
  destruct (rd_cases (f_world_mem w) (padd p 21) 1) as [[t Et]|Et]; rewrite Et; [|reflexivity].
  destruct (t =? mb_FramebufferTypeRGB); reflexivity.
Qed.

(** the model's [read_fb] (what a caller of GetFramebufferInfo reads) looks for the colour layout exactly where the
    regenerated RGBColorInfo points, and reports none exactly when it returns nil *)
Lemma read_fb_rgb_at (t0 : list gcall) (m : mem) (p : N) (f : fbinfo) :
  mem_bytes m -> read_fb m p = Ok f ->
  match fb_rgb f with
  | Some c => go_multiboot_FramebufferInfo_RGBColorInfo mld (mkw t0 m) p = GOk (mkw t0 m, padd p mb_off_FramebufferInfo_colorInfo) /\
              rd_each m (padd p mb_off_FramebufferInfo_colorInfo) rgb_offsets = Ok c
  | None => go_multiboot_FramebufferInfo_RGBColorInfo mld (mkw t0 m) p = GOk (mkw t0 m, 0)
  end.
Proof.
  intros Hm H. rewrite rgbColorInfo_is_translation by exact Hm. cbn [mkw f_world_mem].
  unfold read_fb, bind in H.
  destruct (rd m (padd p mb_off_FramebufferInfo_PhysAddr) 8); try discriminate.
  destruct (rd m (padd p mb_off_FramebufferInfo_Pitch) 4); try discriminate.
  destruct (rd m (padd p mb_off_FramebufferInfo_Width) 4); try discriminate.
  destruct (rd m (padd p mb_off_FramebufferInfo_Height) 4); try discriminate.
  destruct (rd m (padd p mb_off_FramebufferInfo_Bpp) 1); try discriminate.
  destruct (rd m (padd p mb_off_FramebufferInfo_Type) 1) as [t| | |]; try discriminate.
  destruct (t =? mb_FramebufferTypeRGB).
  - destruct (rd_each m (padd p mb_off_FramebufferInfo_colorInfo) rgb_offsets) as [c| | |]; try discriminate.
    injection H as <-. cbn [fb_rgb]. split; reflexivity.
  - injection H as <-. reflexivity.
Qed.
