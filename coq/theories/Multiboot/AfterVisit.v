(** What VisitMemRegions leaves behind: the block after the in-place type normalisation is the
    encoding of [after_visit cont mb].   Definitions only. *)
From Coq Require Import NArith List Bool.
From FF Require Import Lib.Word Gen.Consts_multiboot Multiboot.Model Multiboot.Spec.
Import ListNotations.
Local Open Scope N_scope.

Definition norm_entry (e : mm_entry) : mm_entry :=
  mkEntry (e_addr e) (e_len e) (norm_type (e_type e)) (e_tail e).

(** the entries the visitor was called for have their type normalised, the others are untouched *)
Fixpoint norm_visited (cont : N -> region -> bool) (idx : N) (es : list mm_entry) : list mm_entry :=
  match es with
  | [] => []
  | e :: r => norm_entry e :: (if cont idx (region_of e) then norm_visited cont (idx + 1) r else r)
  end.

(** replace the entries of the first memory-map tag *)
Fixpoint set_first_memmap (es' : list mm_entry) (ts : list (tag * list N)) : list (tag * list N) :=
  match ts with
  | [] => []
  | (TMemMap esz ever _, pad) :: r => (TMemMap esz ever es', pad) :: r
  | tp :: r => tp :: set_first_memmap es' r
  end.

Definition after_visit (cont : N -> region -> bool) (mb : mbinfo) : mbinfo :=
  match first_tag sel_memmap (mb_tags mb) with
  | Some (_, _, es) => mkMb (mb_reserved mb) (set_first_memmap (norm_visited cont 0 es) (mb_tags mb))
  | None => mb
  end.
