(** Model of kernel/multiboot/multiboot.go.   Definitions only.

    Memory is a list of accessible segments (absolute address of the first byte, bytes); every
    load/store of the Go code is a [rd]/[wr] that yields [Stray] unless ALL its bytes lie inside one
    segment (a load that touches the inaccessible page after the block faults). The information
    block is one segment (possibly preceded by accessible bytes of the same page), the
    section-name string table the ELF tag points to is a second one.
    Pointer arithmetic is uintptr arithmetic (mod 2^64), tag sizes are uint32. *)
From Coq Require Import NArith List Bool.
From FF Require Import Lib.Word Gen.Consts_multiboot.
Import ListNotations.
Local Open Scope N_scope.

(** ---- outcomes ---- *)
Inductive outcome (A : Type) : Type :=
| Ok (a : A)
| Stray            (* a load or store outside the accessible memory (memory fault) *)
| Hang             (* findTagByType never terminates (model: out of fuel) *)
| Runaway.         (* a visitor loop exceeded the call cap given by the harness (out of fuel) *)
Arguments Ok {A} a.
Arguments Stray {A}.
Arguments Hang {A}.
Arguments Runaway {A}.

Definition bind {A B : Type} (o : outcome A) (f : A -> outcome B) : outcome B :=
  match o with
  | Ok a => f a
  | Stray => Stray
  | Hang => Hang
  | Runaway => Runaway
  end.
Notation "x <- e ;; f" := (bind e (fun x => f)) (at level 61, e at next level, right associativity).

(** ---- memory ---- *)
Record seg := mkSeg { s_base : N; s_data : list N }.
Definition mem : Type := list seg.

Definition seg_len (s : seg) : N := N.of_nat (length (s_data s)).

Definition in_seg (s : seg) (a n : N) : bool :=
  (s_base s <=? a) && (a + n <=? s_base s + seg_len s).

Definition slice (l : list N) (off n : N) : list N := firstn (N.to_nat n) (skipn (N.to_nat off) l).

Fixpoint rd_bytes (m : mem) (a n : N) : option (list N) :=
  match m with
  | [] => None
  | s :: r => if in_seg s a n then Some (slice (s_data s) (a - s_base s) n) else rd_bytes r a n
  end.

(** little-endian value of a byte list *)
Fixpoint le (l : list N) : N :=
  match l with
  | [] => 0
  | b :: r => b + le r * 256
  end.

(** [n] bytes, little endian *)
Fixpoint bytes_le (n : nat) (v : N) : list N :=
  match n with
  | O => []
  | S n => v mod 256 :: bytes_le n (v / 256)
  end.

Definition rd (m : mem) (a n : N) : outcome N :=
  match rd_bytes m a n with
  | Some l => Ok (le l)
  | None => Stray
  end.

Definition upd (l : list N) (off : N) (bs : list N) : list N :=
  firstn (N.to_nat off) l ++ bs ++ skipn (N.to_nat off + length bs) l.

Fixpoint wr_bytes (m : mem) (a : N) (bs : list N) : option mem :=
  match m with
  | [] => None
  | s :: r =>
      if in_seg s a (N.of_nat (length bs))
      then Some (mkSeg (s_base s) (upd (s_data s) (a - s_base s) bs) :: r)
      else match wr_bytes r a bs with Some r' => Some (s :: r') | None => None end
  end.

Definition wr32 (m : mem) (a v : N) : outcome mem :=
  match wr_bytes m a (bytes_le 4 v) with
  | Some m' => Ok m'
  | None => Stray
  end.

Definition total_len (m : mem) : nat := fold_right (fun s acc => (length (s_data s) + acc)%nat) O m.

(** pointer + offset *)
Definition padd (p o : N) : N := w64 (p + o).

(** ---- findTagByType ---- *)
(** uintptr(int32(x)) : sign extension of a 32-bit value to 64 bits *)
Definition sext32 (x : N) : N := if x <? 0x80000000 then x else x + 0xffffffff00000000.

(** uintptr(int32(size+7) & ^7) *)
Definition tag_step (size : N) : N := sext32 (andnot (w32 (size + 7)) 7).

Fixpoint find_tag_loop (fuel : nat) (m : mem) (cur ty : N) : outcome (N * N) :=
  match fuel with
  | O => Hang
  | S fuel =>
      t <- rd m (padd cur mb_off_tagHeader_tagType) 4 ;;
      if t =? mb_tagMbSectionEnd then Ok (0, 0)
      else
        sz <- rd m (padd cur mb_off_tagHeader_size) 4 ;;
        if t =? ty then Ok (padd cur 8, sub32 sz 8)
        else find_tag_loop fuel m (padd cur (tag_step sz)) ty
  end.

(** every iteration visits a different 8-byte slot of the accessible memory or the walk has
    entered a cycle, so this fuel is enough for every terminating walk *)
Definition find_fuel (m : mem) : nat := (Nat.div (total_len m) 8 + 2)%nat.

Definition find_tag (m : mem) (info ty : N) : outcome (N * N) :=
  find_tag_loop (find_fuel m) m (padd info mb_sizeof_info) ty.

(** ---- VisitMemRegions ---- *)
Record region := mkRegion { r_addr : N; r_len : N; r_type : N }.

(** what the visitor sees through the entry pointer *)
Definition read_region (m : mem) (p : N) : outcome region :=
  a <- rd m (padd p mb_off_MemoryMapEntry_PhysAddress) 8 ;;
  l <- rd m (padd p mb_off_MemoryMapEntry_Length) 8 ;;
  t <- rd m (padd p mb_off_MemoryMapEntry_Type) 4 ;;
  Ok (mkRegion a l t).

(** [cont i r]: does the visitor, called for the i-th time with region r, return true?
    Result: final memory, regions seen by the visitor (in order), how the loop ended. *)
Fixpoint visit_mem_loop (fuel : nat) (cont : N -> region -> bool) (m : mem) (hdr cur endp idx : N)
  : mem * list region * outcome unit :=
  match fuel with
  | O => (m, [], if cur =? endp then Ok tt else Runaway)
  | S fuel =>
      if cur =? endp then (m, [], Ok tt)
      else
        match rd m (padd cur mb_off_MemoryMapEntry_Type) 4 with
        | Ok t =>
            match (if (t =? 0) || (mb_memUnknown <=? t)
                   then wr32 m (padd cur mb_off_MemoryMapEntry_Type) mb_MemReserved else Ok m) with
            | Ok m1 =>
                match read_region m1 cur with
                | Ok r =>
                    if cont idx r then
                      match rd m1 (padd hdr mb_off_mmapHeader_entrySize) 4 with
                      | Ok esz =>
                          let '(m2, rs, o) := visit_mem_loop fuel cont m1 hdr (padd cur esz) endp (idx + 1) in
                          (m2, r :: rs, o)
                      | _ => (m1, [r], Stray)
                      end
                    else (m1, [r], Ok tt)
                | _ => (m1, [], Stray)
                end
            | _ => (m, [], Stray)
            end
        | _ => (m, [], Stray)
        end
  end.

Definition visit_mem_regions (fuel : nat) (cont : N -> region -> bool) (m : mem) (info : N)
  : mem * list region * outcome unit :=
  match find_tag m info mb_tagMemoryMap with
  | Ok (cur, size) =>
      if size =? 0 then (m, [], Ok tt)
      else visit_mem_loop fuel cont m cur (padd cur mb_sizeof_mmapHeader) (padd cur size) 0
  | Stray => (m, [], Stray)
  | Hang => (m, [], Hang)
  | Runaway => (m, [], Runaway)
  end.

(** ---- GetFramebufferInfo + the fields a caller reads, RGBColorInfo ---- *)
Definition get_framebuffer_info (m : mem) (info : N) : outcome (option N) :=
  r <- find_tag m info mb_tagFramebufferInfo ;;
  let '(cur, size) := r in
  Ok (if size =? 0 then None else Some cur).

Record fbinfo := mkFb {
  fb_addr : N; fb_pitch : N; fb_width : N; fb_height : N; fb_bpp : N; fb_type : N;
  fb_rgb : option (list N)      (* RGBColorInfo(): red pos/size, green pos/size, blue pos/size *)
}.

Fixpoint rd_each (m : mem) (p : N) (offs : list N) : outcome (list N) :=
  match offs with
  | [] => Ok []
  | o :: r => v <- rd m (padd p o) 1 ;; vs <- rd_each m p r ;; Ok (v :: vs)
  end.

Definition rgb_offsets : list N :=
  [mb_off_RGB_RedPosition; mb_off_RGB_RedMaskSize; mb_off_RGB_GreenPosition;
   mb_off_RGB_GreenMaskSize; mb_off_RGB_BluePosition; mb_off_RGB_BlueMaskSize].

Definition read_fb (m : mem) (p : N) : outcome fbinfo :=
  a <- rd m (padd p mb_off_FramebufferInfo_PhysAddr) 8 ;;
  pi <- rd m (padd p mb_off_FramebufferInfo_Pitch) 4 ;;
  w <- rd m (padd p mb_off_FramebufferInfo_Width) 4 ;;
  h <- rd m (padd p mb_off_FramebufferInfo_Height) 4 ;;
  b <- rd m (padd p mb_off_FramebufferInfo_Bpp) 1 ;;
  t <- rd m (padd p mb_off_FramebufferInfo_Type) 1 ;;
  if t =? mb_FramebufferTypeRGB then
    c <- rd_each m (padd p mb_off_FramebufferInfo_colorInfo) rgb_offsets ;;
    Ok (mkFb a pi w h b t (Some c))
  else Ok (mkFb a pi w h b t None).

Definition framebuffer (m : mem) (info : N) : outcome (option fbinfo) :=
  p <- get_framebuffer_info m info ;;
  match p with
  | None => Ok None
  | Some p => f <- read_fb m p ;; Ok (Some f)
  end.

(** ---- GetBootCmdLine ---- *)
Definition text : Type := list N.

(** ASCII white space of strings.Fields / unicode.IsSpace *)
Definition is_space (c : N) : bool :=
  (c =? 9) || (c =? 10) || (c =? 11) || (c =? 12) || (c =? 13) || (c =? 32).

Fixpoint has_prefix (p s : text) : bool :=
  match p with
  | [] => true
  | a :: p' => match s with [] => false | b :: s' => (a =? b) && has_prefix p' s' end
  end.

(** the non-ASCII white space of unicode.IsSpace in UTF-8: U+0085, U+00A0, U+1680, U+2000..U+200A,
    U+2028, U+2029, U+202F, U+205F, U+3000.  UTF-8 decoding restarts at every lead byte (an invalid
    sequence is a width-1 RuneError, never white space), so such a sequence is white space
    wherever it occurs in the byte string. *)
Definition unicode_spaces : list text :=
  [ [194; 133]; [194; 160]; [225; 154; 128];
    [226; 128; 128]; [226; 128; 129]; [226; 128; 130]; [226; 128; 131]; [226; 128; 132]; [226; 128; 133];
    [226; 128; 134]; [226; 128; 135]; [226; 128; 136]; [226; 128; 137]; [226; 128; 138];
    [226; 128; 168]; [226; 128; 169]; [226; 128; 175]; [226; 129; 159]; [227; 128; 128] ].

(** number of bytes of the white-space rune at the head of [s]; 0 if there is none *)
Definition space_width (s : text) : nat :=
  match s with
  | [] => O
  | c :: _ =>
      if is_space c then 1%nat
      else match find (fun p => has_prefix p s) unicode_spaces with
           | Some p => length p
           | None => O
           end
  end.

(** strings.Fields (ASCII fast path and the unicode.IsSpace path agree on this description):
    [cur] is the field being accumulated (reversed), [skip] the remaining bytes of a multi-byte
    white-space rune *)
Fixpoint fields_loop (s : text) (cur : option text) (skip : nat) : list text :=
  match s with
  | [] => match cur with Some w => [rev w] | None => [] end
  | c :: r =>
      match skip with
      | S k => fields_loop r cur k
      | O =>
          match space_width s with
          | O => fields_loop r (Some (c :: match cur with Some w => w | None => [] end)) O
          | S k =>
              match cur with
              | Some w => rev w :: fields_loop r None k
              | None => fields_loop r None k
              end
          end
      end
  end.
Definition fields (s : text) : list text := fields_loop s None O.

(** strings.Split(s, "=") *)
Fixpoint split_eq_loop (s : text) (cur : text) : list text :=
  match s with
  | [] => [rev cur]
  | c :: r => if c =? 61 then rev cur :: split_eq_loop r [] else split_eq_loop r (c :: cur)
  end.
Definition split_eq (s : text) : list text := split_eq_loop s [].

Fixpoint text_eqb (a b : text) : bool :=
  match a, b with
  | [], [] => true
  | x :: a', y :: b' => (x =? y) && text_eqb a' b'
  | _, _ => false
  end.

(** map assignment m[k] = v on an association list *)
Fixpoint assign (k v : text) (al : list (text * text)) : list (text * text) :=
  match al with
  | [] => [(k, v)]
  | (k', v') :: r => if text_eqb k k' then (k, v) :: r else (k', v') :: assign k v r
  end.

Definition add_pair (al : list (text * text)) (pair : text) : list (text * text) :=
  match split_eq pair with
  | [k; v] => assign k v al
  | [k] => assign k k al
  | _ => al
  end.

Definition parse_cmdline (s : text) : list (text * text) := fold_left add_pair (fields s) [].

Definition get_boot_cmdline (m : mem) (info : N) : outcome (list (text * text)) :=
  r <- find_tag m info mb_tagBootCmdLine ;;
  let '(cur, size) := r in
  if size =? 0 then Ok []
  else
    let n := sub32 size 1 in
    if n =? 0 then Ok (parse_cmdline [])
    else match rd_bytes m cur n with
         | Some s => Ok (parse_cmdline s)
         | None => Stray
         end.

(** ---- VisitElfSections ---- *)
Record section := mkSection { sec_name : text; sec_flags : N; sec_addr : N; sec_size : N }.

(** the loop that advances [end] while the byte at strtab.address + end is not NUL; the address
    field is re-read from the string-table section header on every iteration *)
Fixpoint name_scan (fuel : nat) (m : mem) (strhdr endi : N) : outcome N :=
  match fuel with
  | O => Hang
  | S fuel =>
      a <- rd m (padd strhdr mb_off_elfSection64_address) 8 ;;
      b <- rd m (padd a endi) 1 ;;
      if b =? 0 then Ok endi else name_scan fuel m strhdr (w64 (endi + 1))
  end.

Definition read_section (m : mem) (strhdr sec : N) : outcome (option section) :=
  sz <- rd m (padd sec mb_off_elfSection64_size) 8 ;;
  if sz =? 0 then Ok None
  else
    ni <- rd m (padd sec mb_off_elfSection64_nameIndex) 4 ;;
    e <- name_scan (S (total_len m)) m strhdr ni ;;
    a <- rd m (padd strhdr mb_off_elfSection64_address) 8 ;;
    let len := sub64 e ni in
    name <- (if len =? 0 then Ok [] else
             match rd_bytes m (padd a ni) len with Some s => Ok s | None => Stray end) ;;
    fl <- rd m (padd sec mb_off_elfSection64_flags) 8 ;;
    ad <- rd m (padd sec mb_off_elfSection64_address) 8 ;;
    Ok (Some (mkSection name (w32 fl) ad sz)).

Fixpoint visit_elf_loop (count : nat) (m : mem) (strhdr sec : N) : list section * outcome unit :=
  match count with
  | O => ([], Ok tt)
  | S count =>
      match read_section m strhdr sec with
      | Ok o =>
          let '(rs, out) := visit_elf_loop count m strhdr (padd sec mb_sizeof_elfSection64) in
          (match o with Some s => s :: rs | None => rs end, out)
      | Stray => ([], Stray)
      | Hang => ([], Hang)
      | Runaway => ([], Runaway)
      end
  end.

Definition visit_elf_sections (m : mem) (info : N) : list section * outcome unit :=
  match find_tag m info mb_tagElfSymbols with
  | Ok (cur, size) =>
      if size =? 0 then ([], Ok tt)
      else
        match rd m (padd cur mb_off_elfSections_strtabSectionIndex) 4 with
        | Ok idx =>
            let sec0 := padd cur mb_off_elfSections_sectionData in
            let strhdr := padd sec0 (w64 (idx * mb_sizeof_elfSection64)) in
            match rd m (padd cur mb_off_elfSections_numSections) 2 with
            | Ok num => visit_elf_loop (N.to_nat num) m strhdr sec0
            | _ => ([], Stray)
            end
        | _ => ([], Stray)
        end
  | Stray => ([], Stray)
  | Hang => ([], Hang)
  | Runaway => ([], Runaway)
  end.
