(** Corollaries of the decoder theorems: tag-order irrelevance, absent tags. *)
From Coq Require Import NArith ZArith List Bool Lia Arith.
From Coq Require Import ZifyBool ZifyN ZifyNat.
From FF Require Import Lib.Word Gen.Consts_multiboot Multiboot.Model Multiboot.Spec Multiboot.MemLemmas
  Multiboot.FindProofs Multiboot.MemMapProofs Multiboot.FbProofs Multiboot.CmdProofs Multiboot.ElfProofs.
Import ListNotations.
Local Open Scope N_scope.

Lemma tag_order_irrelevant (l l' : layout) (mb mb' : mbinfo) (cont : N -> region -> bool) (fuel : nat) :
  mbinfo_wf (l_saddr l) (l_strtab l) mb -> layout_wf l (encode mb) ->
  mbinfo_wf (l_saddr l') (l_strtab l') mb' -> layout_wf l' (encode mb') ->
  l_strtab l = l_strtab l' ->
  first_tag sel_memmap (mb_tags mb) = first_tag sel_memmap (mb_tags mb') ->
  first_tag sel_fb (mb_tags mb) = first_tag sel_fb (mb_tags mb') ->
  first_tag sel_cmd (mb_tags mb) = first_tag sel_cmd (mb_tags mb') ->
  first_tag sel_elf (mb_tags mb) = first_tag sel_elf (mb_tags mb') ->
  (length (expected_regions mb) < fuel)%nat ->
  let m := mem_of l (encode mb) in
  let m' := mem_of l' (encode mb') in
  snd (fst (visit_mem_regions fuel cont m (l_info l))) = snd (fst (visit_mem_regions fuel cont m' (l_info l'))) /\
  snd (visit_mem_regions fuel cont m (l_info l)) = Ok tt /\
  snd (visit_mem_regions fuel cont m' (l_info l')) = Ok tt /\
  framebuffer m (l_info l) = framebuffer m' (l_info l') /\
  get_boot_cmdline m (l_info l) = get_boot_cmdline m' (l_info l') /\
  visit_elf_sections m (l_info l) = visit_elf_sections m' (l_info l').
Proof.
  intros W L W' L' Hst Hm Hf Hc He Hfuel m m'. subst m m'.
  assert (Hr : expected_regions mb = expected_regions mb') by (unfold expected_regions; rewrite Hm; reflexivity).
  destruct (visit_mem_regions_encode l mb cont fuel W L Hfuel) as [b [_ E1]].
  destruct (visit_mem_regions_encode l' mb' cont fuel W' L') as [b' [_ E2]]; [rewrite <- Hr; exact Hfuel|].
  rewrite E1, E2. cbn [fst snd]. rewrite Hr.
  rewrite (framebuffer_encode l mb W L), (framebuffer_encode l' mb' W' L').
  rewrite (get_boot_cmdline_encode l mb W L), (get_boot_cmdline_encode l' mb' W' L').
  rewrite (visit_elf_sections_encode l mb W L), (visit_elf_sections_encode l' mb' W' L').
  unfold expected_fb, expected_cmdline, expected_sections. rewrite Hf, Hc, He, Hst. auto 10.
Qed.

Lemma absent_tags (l : layout) (mb : mbinfo) (cont : N -> region -> bool) (fuel : nat) :
  mbinfo_wf (l_saddr l) (l_strtab l) mb -> layout_wf l (encode mb) -> (0 < fuel)%nat ->
  let m := mem_of l (encode mb) in
  (first_tag sel_memmap (mb_tags mb) = None -> visit_mem_regions fuel cont m (l_info l) = (m, [], Ok tt)) /\
  (first_tag sel_fb (mb_tags mb) = None -> framebuffer m (l_info l) = Ok None) /\
  (first_tag sel_cmd (mb_tags mb) = None -> get_boot_cmdline m (l_info l) = Ok []) /\
  (first_tag sel_elf (mb_tags mb) = None -> visit_elf_sections m (l_info l) = ([], Ok tt)).
Proof.
  intros W L Hfuel m. subst m. repeat split; intros Hn.
  - unfold visit_mem_regions. rewrite (find_tag_encode l mb _ W L) by discriminate.
    destruct W as [_ [Hts _]].
    pose proof (locate_first sel_memmap _ _ mb_tagMemoryMap (mb_tags mb) (sel_memmap_type _ _) Hts 8) as H.
    rewrite Hn in H. rewrite H. reflexivity.
  - rewrite (framebuffer_encode l mb W L). unfold expected_fb. rewrite Hn. reflexivity.
  - rewrite (get_boot_cmdline_encode l mb W L). unfold expected_cmdline. rewrite Hn. reflexivity.
  - rewrite (visit_elf_sections_encode l mb W L). unfold expected_sections. rewrite Hn. reflexivity.
Qed.

Lemma norm_type_spec t : norm_type t = (if (1 <=? t) && (t <=? 4) then t else mb_MemReserved).
Proof.
  unfold norm_type, mb_MemAvailable, mb_MemReserved, mb_MemAcpiReclaimable, mb_MemNvs.
  destruct (N.eqb_spec t 1), (N.eqb_spec t 2), (N.eqb_spec t 3), (N.eqb_spec t 4); cbn [orb];
    destruct (N.leb_spec 1 t), (N.leb_spec t 4); cbn [andb]; lia.
Qed.
