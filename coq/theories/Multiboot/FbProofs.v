(** GetFramebufferInfo + the fields read through the returned pointer + RGBColorInfo on an
    encoded block: exactly the first framebuffer tag; no stray access. *)
From Coq Require Import NArith ZArith List Bool Lia Arith.
From Coq Require Import ZifyBool ZifyN ZifyNat.
From FF Require Import Lib.Word Gen.Consts_multiboot Multiboot.Model Multiboot.Spec Multiboot.MemLemmas Multiboot.FindProofs.
Import ListNotations.
Local Open Scope N_scope.

Ltac Zify.zify_post_hook ::= Z.div_mod_to_equations.

Section Each.
  Variable l : layout.
  Variable block : list N.
  Hypothesis Hlay : lay_ok l block.

  Lemma rd_each_seq cs : forall s o rest,
    sub_at block (o + N.of_nat s) (cs ++ rest) ->
    rd_each (mem_of l block) (l_info l + o) (map N.of_nat (seq s (length cs))) = Ok cs.
  Proof.
    assert (Hend : l_info l + len block < two64) by apply Hlay.
    induction cs as [|c cs IH]; intros s o rest Hsub; [reflexivity|].
    cbn [length seq map rd_each].
    assert (Hb := sub_at_bound _ _ _ Hsub). rewrite len_app, len_cons in Hb.
    rewrite padd_small by lia. rewrite <- N.add_assoc.
    change ((c :: cs) ++ rest) with ([c] ++ (cs ++ rest)) in Hsub.
    rewrite (rd_blk_byte l block Hlay _ c (sub_at_app_l _ _ _ _ Hsub)).
    cbn [bind].
    apply sub_at_app_r in Hsub. change (len [c]) with 1 in Hsub.
    replace (o + N.of_nat s + 1) with (o + N.of_nat (S s)) in Hsub by (rewrite Nat2N.inj_succ; lia).
    rewrite (IH (S s) o rest Hsub). reflexivity.
  Qed.
End Each.

Lemma len_enc_fb f : len (enc_fb f) = 24 + len (t_color f).
Proof. unfold enc_fb. rewrite !len_app, len_le64, !len_le32, len_le16. change (len [t_bpp f; t_type f]) with 2. lia. Qed.

Lemma firstn_skipn_len (c : list N) n : N.of_nat n <= len c -> length (firstn n c) = n.
Proof. intros H. apply firstn_length_le. unfold len in H. lia. Qed.

Lemma read_fb_encode (l : layout) (block : list N) (o : N) (f : fbtag) :
  lay_ok l block -> sub_at block o (enc_fb f) -> fb_wf f ->
  read_fb (mem_of l block) (l_info l + o) =
    Ok (mkFb (t_addr f) (t_pitch f) (t_width f) (t_height f) (t_bpp f) (t_type f)
             (if t_type f =? mb_FramebufferTypeRGB then Some (firstn 6 (t_color f)) else None)).
Proof.
  intros Hlay Hsub [Ha [Hp [Hw [Hh [Hb [Ht [Hr [Hc Hrgb]]]]]]]].
  assert (Hend : l_info l + len block < two64) by apply Hlay.
  assert (Hbound := sub_at_bound _ _ _ Hsub). rewrite len_enc_fb in Hbound.
  unfold read_fb, mb_off_FramebufferInfo_PhysAddr, mb_off_FramebufferInfo_Pitch, mb_off_FramebufferInfo_Width,
    mb_off_FramebufferInfo_Height, mb_off_FramebufferInfo_Bpp, mb_off_FramebufferInfo_Type, mb_off_FramebufferInfo_colorInfo.
  rewrite !padd_small by lia. rewrite N.add_0_r. rewrite <- !N.add_assoc.
  unfold enc_fb in Hsub.
  rewrite (rd_blk64 l block Hlay o _ (sub_at_app_l _ _ _ _ Hsub) Ha). cbn [bind].
  apply sub_at_app_r in Hsub. rewrite len_le64 in Hsub.
  rewrite (rd_blk32 l block Hlay _ _ (sub_at_app_l _ _ _ _ Hsub) Hp). cbn [bind].
  apply sub_at_app_r in Hsub. rewrite len_le32 in Hsub. replace (o + 8 + 4) with (o + 12) in Hsub by lia.
  rewrite (rd_blk32 l block Hlay _ _ (sub_at_app_l _ _ _ _ Hsub) Hw). cbn [bind].
  apply sub_at_app_r in Hsub. rewrite len_le32 in Hsub. replace (o + 12 + 4) with (o + 16) in Hsub by lia.
  rewrite (rd_blk32 l block Hlay _ _ (sub_at_app_l _ _ _ _ Hsub) Hh). cbn [bind].
  apply sub_at_app_r in Hsub. rewrite len_le32 in Hsub. replace (o + 16 + 4) with (o + 20) in Hsub by lia.
  change ([t_bpp f; t_type f] ++ le16 (t_reserved f) ++ t_color f)
    with ([t_bpp f] ++ [t_type f] ++ le16 (t_reserved f) ++ t_color f) in Hsub.
  rewrite (rd_blk_byte l block Hlay _ _ (sub_at_app_l _ _ _ _ Hsub)). cbn [bind].
  apply sub_at_app_r in Hsub. change (len [t_bpp f]) with 1 in Hsub. replace (o + 20 + 1) with (o + 21) in Hsub by lia.
  rewrite (rd_blk_byte l block Hlay _ _ (sub_at_app_l _ _ _ _ Hsub)). cbn [bind].
  destruct (t_type f =? mb_FramebufferTypeRGB) eqn:Et; [|reflexivity].
  apply N.eqb_eq in Et. specialize (Hrgb Et).
  apply sub_at_app_r in Hsub. change (len [t_type f]) with 1 in Hsub.
  apply sub_at_app_r in Hsub. rewrite len_le16 in Hsub. replace (o + 21 + 1 + 2) with (o + 24 + N.of_nat 0) in Hsub by lia.
  rewrite <- (firstn_skipn 6 (t_color f)) in Hsub.
  change rgb_offsets with (map N.of_nat (seq 0 6)).
  assert (Hl6 : length (firstn 6 (t_color f)) = 6%nat) by (apply firstn_skipn_len; exact Hrgb).
  replace (map N.of_nat (seq 0 6)) with (map N.of_nat (seq 0 (length (firstn 6 (t_color f))))) by (rewrite Hl6; reflexivity).
  rewrite (rd_each_seq l block Hlay _ 0 (o + 24) _ Hsub). reflexivity.
Qed.

(** GetFramebufferInfo + field reads on an encoded well-formed block *)
Lemma framebuffer_encode (l : layout) (mb : mbinfo) :
  mbinfo_wf (l_saddr l) (l_strtab l) mb -> layout_wf l (encode mb) ->
  framebuffer (mem_of l (encode mb)) (l_info l) = Ok (expected_fb mb).
Proof.
  intros Hwf Hlw. pose proof (layout_wf_ok _ _ Hlw) as Hlay.
  unfold framebuffer, get_framebuffer_info. rewrite (find_tag_encode l mb _ Hwf Hlw) by discriminate.
  destruct Hwf as [Hr [Hts Hsm]].
  pose proof (locate_first sel_fb _ _ mb_tagFramebufferInfo (mb_tags mb) (sel_fb_type _ _) Hts 8) as Hfirst.
  unfold expected_fb.
  destruct (first_tag sel_fb (mb_tags mb)) as [f|].
  - destruct Hfirst as [o' [t [Hloc Hsel]]]. rewrite Hloc.
    destruct t; try discriminate. cbn [sel_fb] in Hsel. injection Hsel as ->.
    destruct (locate_sub (encode mb) _ _ (mb_tags mb) 8 _ o' _ end_tag (sub_at_body mb) Hts Hloc) as [Hsub [Htw _]].
    cbn [tag_wf payload] in *. cbn [bind].
    replace (len (enc_fb f) =? 0) with false by (rewrite len_enc_fb; lia).
    cbn [bind]. rewrite <- N.add_assoc. rewrite (read_fb_encode l (encode mb) (o' + 8) f Hlay Hsub Htw).
    reflexivity.
  - rewrite Hfirst. reflexivity.
Qed.
