(** The block after VisitMemRegions is the encoding of [after_visit cont mb], which is again well
    formed and reports the same content: the decoders can be run in any order, any number of times. *)
From Coq Require Import NArith ZArith List Bool Lia Arith.
From Coq Require Import ZifyBool ZifyN ZifyNat.
From FF Require Import Lib.Word Gen.Consts_multiboot Multiboot.Model Multiboot.Spec Multiboot.MemLemmas Multiboot.FindProofs
  Multiboot.MemMapProofs Multiboot.FbProofs Multiboot.CmdProofs Multiboot.ElfProofs Multiboot.AfterVisit.
Import ListNotations.
Local Open Scope N_scope.

Ltac Zify.zify_post_hook ::= Z.div_mod_to_equations.

Section Loop.
  Variable l : layout.
  Variable cont : N -> region -> bool.
  Variable esz : N.
  Variable X0 Y : list N.
  Hypothesis Hesz : esz < two32.
  Hypothesis Hesz24 : 24 <= esz.

  Lemma visit_loop_strong es : forall X1 idx fuel cur endp,
    lay_ok l (X0 ++ le32 esz ++ X1 ++ flat_map enc_entry es ++ Y) ->
    Forall (entry_wf esz) es -> (length es < fuel)%nat ->
    cur = l_info l + (len X0 + 4 + len X1) ->
    endp = cur + len (flat_map enc_entry es) ->
    visit_mem_loop fuel cont (mem_of l (X0 ++ le32 esz ++ X1 ++ flat_map enc_entry es ++ Y))
                   (l_info l + len X0) cur endp idx =
      (mem_of l (X0 ++ le32 esz ++ X1 ++ flat_map enc_entry (norm_visited cont idx es) ++ Y),
       visited cont idx (map region_of es), Ok tt).
  Proof.
    induction es as [|e es IH]; intros X1 idx fuel cur endp Hlay Hwf Hfuel Hcur Hendp.
    - destruct fuel as [|fuel]; [cbn in Hfuel; lia|].
      cbn [visit_mem_loop flat_map map visited norm_visited].
      cbn [flat_map] in Hendp. rewrite len_nil, N.add_0_r in Hendp. subst endp. rewrite N.eqb_refl. reflexivity.
    - destruct fuel as [|fuel]; [cbn in Hfuel; lia|].
      pose proof (Forall_inv Hwf) as He. pose proof (Forall_inv_tail Hwf) as Hwf'.
      pose proof (len_enc_entry _ _ He) as Hle.
      destruct He as [Ha [Hl [Ht [Htail Htl]]]].
      set (block := X0 ++ le32 esz ++ X1 ++ flat_map enc_entry (e :: es) ++ Y) in *.
      assert (Hend : l_info l + len block < two64) by apply Hlay.
      (* decomposition of the block around the current entry *)
      set (Xc := X0 ++ le32 esz ++ X1).
      set (rest := flat_map enc_entry es ++ Y).
      assert (Hblock : block = Xc ++ (le64 (e_addr e) ++ le64 (e_len e) ++ le32 (e_type e) ++ e_tail e) ++ rest).
      { unfold block, Xc, rest. cbn [flat_map]. unfold enc_entry. repeat rewrite <- app_assoc. reflexivity. }
      assert (HlenXc : len Xc = len X0 + 4 + len X1) by (unfold Xc; rewrite !len_app, len_le32; lia).
      assert (Hlenblock : len block = len Xc + esz + len rest).
      { rewrite Hblock. rewrite !len_app, !len_le64, len_le32. lia. }
      cbn [visit_mem_loop].
      cbn [flat_map] in Hendp. rewrite len_app, Hle in Hendp.
      replace (cur =? endp) with false by lia.
      (* read the type *)
      unfold mb_off_MemoryMapEntry_Type.
      rewrite padd_small by lia.
      assert (Hsub_e : sub_at block (len Xc) (le64 (e_addr e) ++ le64 (e_len e) ++ le32 (e_type e) ++ e_tail e)).
      { exists Xc, rest. split; [exact Hblock | reflexivity]. }
      assert (Hsub_t : sub_at block (len Xc + 16) (le32 (e_type e))).
      { pose proof Hsub_e as H. apply sub_at_app_r in H. rewrite len_le64 in H. apply sub_at_app_r in H. rewrite len_le64 in H.
        apply sub_at_app_l in H. replace (len Xc + 16) with (len Xc + 8 + 8) by lia. exact H. }
      replace (cur + 16) with (l_info l + (len Xc + 16)) by lia.
      rewrite (rd_blk32 l block Hlay _ _ Hsub_t Ht).
      (* normalisation: in both cases the memory afterwards holds the entry with the normalised type *)
      set (e' := mkEntry (e_addr e) (e_len e) (norm_type (e_type e)) (e_tail e)).
      set (block1 := Xc ++ (le64 (e_addr e) ++ le64 (e_len e) ++ le32 (norm_type (e_type e)) ++ e_tail e) ++ rest).
      assert (Hlen1 : len block1 = len block).
      { rewrite Hblock. unfold block1. rewrite !len_app, !len_le64, !len_le32. reflexivity. }
      assert (Hm1 : (if (e_type e =? 0) || (mb_memUnknown <=? e_type e)
                     then wr32 (mem_of l block) (l_info l + (len Xc + 16)) mb_MemReserved
                     else Ok (mem_of l block)) = Ok (mem_of l block1)).
      { destruct (norm_type_cases (e_type e)) as [[Hc Hn]|[Hc Hn]]; rewrite Hc.
        - unfold wr32.
          assert (Hb2 : block = (Xc ++ le64 (e_addr e) ++ le64 (e_len e)) ++ le32 (e_type e) ++ (e_tail e ++ rest)).
          { rewrite Hblock. repeat rewrite <- app_assoc. reflexivity. }
          replace (len Xc + 16) with (len (Xc ++ le64 (e_addr e) ++ le64 (e_len e))) by (rewrite !len_app, !len_le64; lia).
          rewrite (wr_blk l block Hlay _ (le32 (e_type e)) (bytes_le 4 mb_MemReserved) _ Hb2) by (unfold le32; rewrite !length_bytes_le; reflexivity).
          f_equal. f_equal. unfold block1. rewrite Hn. unfold le32. repeat rewrite <- app_assoc. reflexivity.
        - unfold block1. rewrite Hn. rewrite <- Hblock. reflexivity. }
      rewrite Hm1.
      assert (Hlay1 : lay_ok l block1) by (apply (lay_ok_len l block); [symmetry; exact Hlen1 | exact Hlay]).
      (* what the visitor reads *)
      assert (Hsub_e1 : sub_at block1 (len Xc) (le64 (e_addr e) ++ le64 (e_len e) ++ le32 (norm_type (e_type e)) ++ e_tail e)).
      { exists Xc, rest. split; reflexivity. }
      assert (Hrr : read_region (mem_of l block1) cur = Ok (region_of e)).
      { unfold read_region, mb_off_MemoryMapEntry_PhysAddress, mb_off_MemoryMapEntry_Length, mb_off_MemoryMapEntry_Type.
        rewrite !padd_small by lia. rewrite N.add_0_r.
        replace cur with (l_info l + len Xc) by lia.
        rewrite (rd_blk64 l block1 Hlay1 (len Xc) (e_addr e)) by (try exact Ha; apply (sub_at_app_l _ _ _ _ Hsub_e1)).
        cbn [bind]. rewrite <- N.add_assoc.
        pose proof Hsub_e1 as H. apply sub_at_app_r in H. rewrite len_le64 in H.
        rewrite (rd_blk64 l block1 Hlay1 (len Xc + 8) (e_len e)) by (try exact Hl; apply (sub_at_app_l _ _ _ _ H)).
        cbn [bind]. rewrite <- N.add_assoc.
        apply sub_at_app_r in H. rewrite len_le64 in H. apply sub_at_app_l in H.
        replace (len Xc + 16) with (len Xc + 8 + 8) by lia.
        rewrite (rd_blk32 l block1 Hlay1 _ _ H) by (apply norm_type_lt; exact Ht).
        reflexivity. }
      rewrite Hrr.
      cbn [map visited].
      destruct (cont idx (region_of e)) eqn:Hcont.
      + (* the visitor continues: entry size is re-read from the tag header *)
        unfold mb_off_mmapHeader_entrySize. rewrite padd_small by lia. rewrite N.add_0_r.
        assert (Hsub_h : sub_at block1 (len X0) (le32 esz)).
        { exists X0, (X1 ++ (le64 (e_addr e) ++ le64 (e_len e) ++ le32 (norm_type (e_type e)) ++ e_tail e) ++ rest).
          split; [|reflexivity]. unfold block1, Xc. repeat rewrite <- app_assoc. reflexivity. }
        rewrite (rd_blk32 l block1 Hlay1 _ _ Hsub_h Hesz).
        assert (Hb1 : block1 = X0 ++ le32 esz ++ (X1 ++ enc_entry e') ++ flat_map enc_entry es ++ Y).
        { unfold block1, Xc, rest, enc_entry, e'. cbn [e_addr e_len e_type e_tail]. repeat rewrite <- app_assoc. reflexivity. }
        assert (Hle' : len (enc_entry e') = esz).
        { unfold enc_entry, e'. cbn [e_addr e_len e_type e_tail]. rewrite !len_app, !len_le64, len_le32. lia. }
        rewrite Hb1 in Hlay1.
        pose proof (IH (X1 ++ enc_entry e') (idx + 1) fuel (padd cur esz) endp Hlay1 Hwf') as Hrun.
        rewrite <- Hb1 in Hrun. rewrite Hrun.
        * cbn [norm_visited]. rewrite Hcont. cbn [flat_map]. fold e'. repeat rewrite <- app_assoc. reflexivity.
        * cbn [length] in Hfuel. lia.
        * rewrite padd_small by lia. rewrite len_app, Hle'. lia.
        * rewrite padd_small by lia. lia.
      + cbn [norm_visited]. rewrite Hcont. cbn [flat_map]. fold e'.
        unfold block1, Xc, rest, e', enc_entry. cbn [e_addr e_len e_type e_tail]. repeat rewrite <- app_assoc. reflexivity.
  Qed.
End Loop.
(** ---- normalised entries ---- *)
Lemma norm_type_idem t : norm_type (norm_type t) = norm_type t.
Proof.
  unfold norm_type, mb_MemAvailable, mb_MemReserved, mb_MemAcpiReclaimable, mb_MemNvs.
  destruct (N.eqb_spec t 1), (N.eqb_spec t 2), (N.eqb_spec t 3), (N.eqb_spec t 4); subst; reflexivity.
Qed.

Lemma region_of_norm e : region_of (norm_entry e) = region_of e.
Proof. unfold region_of, norm_entry. cbn [e_addr e_len e_type]. rewrite norm_type_idem. reflexivity. Qed.

Lemma len_enc_norm e : len (enc_entry (norm_entry e)) = len (enc_entry e).
Proof. unfold enc_entry, norm_entry. cbn [e_addr e_len e_type e_tail]. rewrite !len_app, !len_le64, !len_le32. reflexivity. Qed.

Lemma norm_entry_wf esz e : entry_wf esz e -> entry_wf esz (norm_entry e).
Proof.
  intros [Ha [Hl [Ht [Hb Hn]]]]. unfold entry_wf, norm_entry. cbn [e_addr e_len e_type e_tail].
  repeat split; try assumption. apply norm_type_lt. exact Ht.
Qed.

Lemma len_flat_norm cont es : forall idx,
  len (flat_map enc_entry (norm_visited cont idx es)) = len (flat_map enc_entry es).
Proof.
  induction es as [|e es IH]; intros idx; [reflexivity|].
  cbn [norm_visited flat_map]. rewrite !len_app, len_enc_norm.
  destruct (cont idx (region_of e)); [rewrite IH|]; reflexivity.
Qed.

Lemma norm_visited_wf cont esz es : forall idx,
  Forall (entry_wf esz) es -> Forall (entry_wf esz) (norm_visited cont idx es).
Proof.
  induction es as [|e es IH]; intros idx H; [constructor|].
  cbn [norm_visited]. constructor; [apply norm_entry_wf; apply (Forall_inv H)|].
  destruct (cont idx (region_of e)); [apply IH|]; apply (Forall_inv_tail H).
Qed.

Lemma regions_norm_visited cont es : forall idx,
  map region_of (norm_visited cont idx es) = map region_of es.
Proof.
  induction es as [|e es IH]; intros idx; [reflexivity|].
  cbn [norm_visited map]. rewrite region_of_norm. f_equal.
  destruct (cont idx (region_of e)); [apply IH | reflexivity].
Qed.

(** ---- replacing the entries of the first memory-map tag ---- *)
Lemma set_first_same tags : forall esz ever es,
  first_tag sel_memmap tags = Some (esz, ever, es) -> set_first_memmap es tags = tags.
Proof.
  induction tags as [|[t pad] tags IH]; intros esz ever es H; [discriminate|].
  cbn [first_tag] in H. destruct t; cbn [sel_memmap set_first_memmap] in *;
    try (rewrite (IH _ _ _ H); reflexivity).
  injection H as -> -> ->. reflexivity.
Qed.

Lemma first_memmap_set tags : forall esz ever es es',
  first_tag sel_memmap tags = Some (esz, ever, es) ->
  first_tag sel_memmap (set_first_memmap es' tags) = Some (esz, ever, es').
Proof.
  induction tags as [|[t pad] tags IH]; intros esz ever es es' H; [discriminate|].
  cbn [first_tag] in H. destruct t; cbn [sel_memmap set_first_memmap first_tag] in *;
    try (apply (IH _ _ _ _ H)).
  injection H as -> -> ->. reflexivity.
Qed.

Lemma first_other_set {A : Type} (sel : tag -> option A) es' tags :
  (forall esz ever es, sel (TMemMap esz ever es) = None) ->
  first_tag sel (set_first_memmap es' tags) = first_tag sel tags.
Proof.
  intros Hsel. induction tags as [|[t pad] tags IH]; [reflexivity|].
  destruct t; cbn [set_first_memmap first_tag]; try (rewrite IH; reflexivity).
  rewrite !Hsel. reflexivity.
Qed.

Lemma body_split sa st tags : forall o esz ever es,
  Forall (tagpad_wf sa st) tags -> first_tag sel_memmap tags = Some (esz, ever, es) ->
  exists P Q o',
    locate mb_tagMemoryMap tags o = Some (o', TMemMap esz ever es) /\ o' + 8 = o + len P /\
    forall es', len (flat_map enc_entry es') = len (flat_map enc_entry es) ->
      flat_map enc_tag (set_first_memmap es' tags) =
        P ++ le32 esz ++ le32 ever ++ flat_map enc_entry es' ++ Q.
Proof.
  induction tags as [|[t pad] tags IH]; intros o esz ever es Hwf H; [discriminate|].
  pose proof (Forall_inv Hwf) as Htp. pose proof (Forall_inv_tail Hwf) as Hwf'.
  cbn [first_tag] in H.
  destruct (sel_memmap t) as [[[esz0 ever0] es0]|] eqn:Es.
  - destruct t; try discriminate. cbn [sel_memmap] in Es. injection Es as -> -> ->. injection H as -> -> ->.
    exists (le32 mb_tagMemoryMap ++ le32 (8 + len (le32 esz ++ le32 ever ++ flat_map enc_entry es))),
           (pad ++ flat_map enc_tag tags), o.
    split; [reflexivity|]. split; [rewrite len_app, !len_le32; lia|].
    intros es' Hlen. cbn [set_first_memmap flat_map]. unfold enc_tag. cbn [fst snd tag_type payload].
    replace (len (le32 esz ++ le32 ever ++ flat_map enc_entry es')) with (len (le32 esz ++ le32 ever ++ flat_map enc_entry es))
      by (rewrite !len_app, Hlen; reflexivity).
    repeat rewrite <- app_assoc. reflexivity.
  - destruct Htp as [Ht _]. cbn [fst] in Ht.
    assert (Hty : tag_type t =? mb_tagMemoryMap = false).
    { destruct (N.eqb_spec (tag_type t) mb_tagMemoryMap) as [E|]; [|reflexivity].
      apply (sel_memmap_type _ _ _ Ht) in E. contradiction. }
    destruct (IH (o + tag_span (t, pad)) esz ever es Hwf' H) as [P [Q [o' [Hloc [Ho Hall]]]]].
    exists (enc_tag (t, pad) ++ P), Q, o'. split; [|split].
    + cbn [locate fst]. rewrite Hty. exact Hloc.
    + rewrite len_app, len_enc_tag. lia.
    + intros es' Hlen. specialize (Hall es' Hlen).
      assert (Hset : set_first_memmap es' ((t, pad) :: tags) = (t, pad) :: set_first_memmap es' tags)
        by (destruct t; try reflexivity; discriminate).
      rewrite Hset. cbn [flat_map]. rewrite Hall. rewrite <- app_assoc. reflexivity.
Qed.

Lemma set_first_wf sa st tags : forall esz ever es es',
  Forall (tagpad_wf sa st) tags -> first_tag sel_memmap tags = Some (esz, ever, es) ->
  Forall (entry_wf esz) es' -> len (flat_map enc_entry es') = len (flat_map enc_entry es) ->
  Forall (tagpad_wf sa st) (set_first_memmap es' tags).
Proof.
  induction tags as [|[t pad] tags IH]; intros esz ever es es' Hwf H Hes' Hlen; [constructor|].
  pose proof (Forall_inv Hwf) as Htp. pose proof (Forall_inv_tail Hwf) as Hwf'.
  cbn [first_tag] in H.
  destruct t; cbn [sel_memmap set_first_memmap] in *;
    try (constructor; [exact Htp | apply (IH _ _ _ _ Hwf' H Hes' Hlen)]).
  injection H as -> -> ->. constructor; [|exact Hwf'].
  destruct Htp as [[H24 [Hesz [Hever _]]] [Hpb Hpl]]. cbn [fst snd] in *.
  split; [|split; [exact Hpb|]].
  - cbn [tag_wf]. repeat split; assumption.
  - cbn [fst snd payload] in *. rewrite Hpl. rewrite !len_app, Hlen. reflexivity.
Qed.

Lemma len_encode_eq r tags tags' :
  len (flat_map enc_tag tags') = len (flat_map enc_tag tags) ->
  len (encode (mkMb r tags')) = len (encode (mkMb r tags)).
Proof. intros H. unfold encode, enc_body. cbn [mb_tags mb_reserved]. rewrite !len_app, !len_le32, H. reflexivity. Qed.

Section After.
  Variable l : layout.
  Variable mb : mbinfo.
  Variable cont : N -> region -> bool.
  Hypothesis Hwf : mbinfo_wf (l_saddr l) (l_strtab l) mb.
  Hypothesis Hlw : layout_wf l (encode mb).

  Lemma after_visit_split :
    forall esz ever es, first_tag sel_memmap (mb_tags mb) = Some (esz, ever, es) ->
    exists X Y o',
      locate mb_tagMemoryMap (mb_tags mb) 8 = Some (o', TMemMap esz ever es) /\ o' + 8 = len X /\
      encode mb = X ++ le32 esz ++ le32 ever ++ flat_map enc_entry es ++ Y /\
      encode (after_visit cont mb) = X ++ le32 esz ++ le32 ever ++ flat_map enc_entry (norm_visited cont 0 es) ++ Y.
  Proof.
    intros esz ever es Hfirst. destruct Hwf as [_ [Hts _]].
    destruct (body_split _ _ (mb_tags mb) 8 esz ever es Hts Hfirst) as [P [Q [o' [Hloc [Ho Hall]]]]].
    pose proof (Hall es eq_refl) as H1. rewrite (set_first_same _ _ _ _ Hfirst) in H1.
    pose proof (Hall (norm_visited cont 0 es) (len_flat_norm cont es 0)) as H2.
    exists (le32 (8 + len (enc_body mb)) ++ le32 (mb_reserved mb) ++ P), (Q ++ end_tag), o'.
    split; [exact Hloc|]. split; [rewrite !len_app, !len_le32; lia|]. split.
    - unfold encode at 1. unfold enc_body at 2. rewrite H1. repeat rewrite <- app_assoc. reflexivity.
    - unfold after_visit. rewrite Hfirst. unfold encode, enc_body. cbn [mb_tags mb_reserved]. rewrite H2, H1.
      rewrite !len_app, (len_flat_norm cont es 0). repeat rewrite <- app_assoc. reflexivity.
  Qed.

  Lemma len_encode_after : len (encode (after_visit cont mb)) = len (encode mb).
  Proof.
    unfold after_visit. destruct (first_tag sel_memmap (mb_tags mb)) as [[[esz ever] es]|] eqn:Hfirst; [|reflexivity].
    destruct (after_visit_split esz ever es Hfirst) as [X [Y [o' [_ [_ [H1 H2]]]]]].
    unfold after_visit in H2. rewrite Hfirst in H2. rewrite H1, H2.
    rewrite !len_app, (len_flat_norm cont es 0). reflexivity.
  Qed.

  (** the information block after the scan is again a well-formed block, at the same place *)
  Lemma after_visit_wf :
    mbinfo_wf (l_saddr l) (l_strtab l) (after_visit cont mb) /\ layout_wf l (encode (after_visit cont mb)).
  Proof.
    pose proof len_encode_after as Hlen. split.
    - destruct Hwf as [Hr [Hts Hsm]]. unfold mbinfo_wf. rewrite Hlen. split; [|split; [|exact Hsm]].
      + unfold after_visit. destruct (first_tag sel_memmap (mb_tags mb)) as [[[? ?] ?]|]; exact Hr.
      + unfold after_visit. destruct (first_tag sel_memmap (mb_tags mb)) as [[[esz ever] es]|] eqn:Hfirst; [|exact Hts].
        cbn [mb_tags]. apply (set_first_wf _ _ _ esz ever es _ Hts Hfirst); [|apply len_flat_norm].
        apply norm_visited_wf.
        pose proof (locate_first sel_memmap _ _ mb_tagMemoryMap (mb_tags mb) (sel_memmap_type _ _) Hts 8) as Hf.
        rewrite Hfirst in Hf. destruct Hf as [o' [t [Hloc Hsel]]].
        destruct t; try discriminate. cbn [sel_memmap] in Hsel. injection Hsel as -> -> ->.
        destruct (locate_sub (encode mb) _ _ (mb_tags mb) 8 _ o' _ end_tag (sub_at_body mb) Hts Hloc) as [_ [Htw _]].
        apply Htw.
    - unfold layout_wf in *. rewrite Hlen. exact Hlw.
  Qed.

  (** ... that reports the same content *)
  Lemma after_visit_same :
    expected_regions (after_visit cont mb) = expected_regions mb /\
    expected_fb (after_visit cont mb) = expected_fb mb /\
    expected_cmdline (after_visit cont mb) = expected_cmdline mb /\
    expected_sections (l_strtab l) (after_visit cont mb) = expected_sections (l_strtab l) mb.
  Proof.
    unfold expected_regions, expected_fb, expected_cmdline, expected_sections, after_visit.
    destruct (first_tag sel_memmap (mb_tags mb)) as [[[esz ever] es]|] eqn:Hfirst; [|rewrite Hfirst; auto].
    cbn [mb_tags]. rewrite (first_memmap_set _ _ _ _ _ Hfirst).
    rewrite !first_other_set by reflexivity. rewrite regions_norm_visited. auto.
  Qed.

  (** VisitMemRegions leaves exactly that block in memory *)
  Lemma visit_mem_regions_after (fuel : nat) :
    (length (expected_regions mb) < fuel)%nat ->
    visit_mem_regions fuel cont (mem_of l (encode mb)) (l_info l) =
      (mem_of l (encode (after_visit cont mb)), visited cont 0 (expected_regions mb), Ok tt).
  Proof.
    intros Hfuel. pose proof (layout_wf_ok _ _ Hlw) as Hlay.
    unfold visit_mem_regions. rewrite (find_tag_encode l mb _ Hwf Hlw) by discriminate.
    unfold expected_regions in *.
    destruct (first_tag sel_memmap (mb_tags mb)) as [[[esz ever] es]|] eqn:Hfirst.
    - destruct (after_visit_split esz ever es Hfirst) as [X [Y [o' [Hloc [Ho [H1 H2]]]]]].
      rewrite Hloc. cbn [payload].
      destruct Hwf as [Hr [Hts Hsm]].
      destruct (locate_sub (encode mb) _ _ (mb_tags mb) 8 _ o' _ end_tag (sub_at_body mb) Hts Hloc) as [Hsub [Htw _]].
      cbn [tag_wf] in Htw. destruct Htw as [H24 [Hesz [Hever Hes]]].
      assert (Hb := sub_at_bound _ _ _ Hsub). cbn [payload] in Hb. rewrite !len_app, !len_le32 in Hb.
      assert (Hend : l_info l + len (encode mb) < two64) by apply Hlay.
      replace (len (le32 esz ++ le32 ever ++ flat_map enc_entry es) =? 0) with false
        by (rewrite !len_app, !len_le32; lia).
      rewrite H2. rewrite H1 in Hlay |- *.
      rewrite map_length in Hfuel.
      replace (l_info l + o' + 8) with (l_info l + len X) by lia.
      apply (visit_loop_strong l cont esz X Y Hesz H24 es (le32 ever) 0 fuel _ _ Hlay Hes Hfuel).
      + unfold mb_sizeof_mmapHeader. rewrite padd_small by lia. rewrite len_le32. lia.
      + unfold mb_sizeof_mmapHeader. rewrite !padd_small by (rewrite ?len_app, ?len_le32; lia).
        rewrite !len_app, !len_le32. lia.
    - destruct Hwf as [Hr [Hts Hsm]].
      pose proof (locate_first sel_memmap _ _ mb_tagMemoryMap (mb_tags mb) (sel_memmap_type _ _) Hts 8) as Hf.
      rewrite Hfirst in Hf. rewrite Hf. unfold after_visit. rewrite Hfirst. reflexivity.
  Qed.
End After.

(** the decoders run AFTER a region scan (on the memory it leaves behind) report the same content;
    this is the sequence the correspondence harness runs *)
Lemma decoders_after_visit (l : layout) (mb : mbinfo) (cont cont' : N -> region -> bool) (fuel : nat) :
  mbinfo_wf (l_saddr l) (l_strtab l) mb -> layout_wf l (encode mb) ->
  (length (expected_regions mb) < fuel)%nat ->
  let m1 := fst (fst (visit_mem_regions fuel cont (mem_of l (encode mb)) (l_info l))) in
  snd (fst (visit_mem_regions fuel cont' m1 (l_info l))) = visited cont' 0 (expected_regions mb) /\
  snd (visit_mem_regions fuel cont' m1 (l_info l)) = Ok tt /\
  framebuffer m1 (l_info l) = Ok (expected_fb mb) /\
  get_boot_cmdline m1 (l_info l) = Ok (expected_cmdline mb) /\
  visit_elf_sections m1 (l_info l) = (expected_sections (l_strtab l) mb, Ok tt).
Proof.
  intros W L Hfuel m1. subst m1.
  rewrite (visit_mem_regions_after l mb cont W L fuel Hfuel). cbn [fst snd].
  destruct (after_visit_wf l mb cont W L) as [W1 L1].
  destruct (after_visit_same l mb cont) as [E1 [E2 [E3 E4]]].
  rewrite (visit_mem_regions_after l (after_visit cont mb) cont' W1 L1 fuel) by (rewrite E1; exact Hfuel).
  cbn [fst snd]. rewrite E1.
  rewrite (FbProofs.framebuffer_encode l _ W1 L1), (CmdProofs.get_boot_cmdline_encode l _ W1 L1),
    (ElfProofs.visit_elf_sections_encode l _ W1 L1).
  rewrite E2, E3, E4. auto.
Qed.
