(** Model of kbuild/redirects.go (Context.FindRedirects), after the repair that iterates the
    declarations of a file in source order.   Definitions only.

    What is modelled: the walk filter (".go" extension, not "_test.go"), the loop over the
    files in walk order, over the declarations of each file in source order, over the lines of a
    function declaration's doc comment group in order; strings.HasPrefix / TrimPrefix / TrimSpace
    on the comment text; path.Join(pkgPrefix, dir) and the "%s.%s" symbol name.
    What is NOT modelled (library code exercised by the correspondence harness): go/parser
    (which comments form a declaration's Doc group), filepath.Walk's lexical order. A source
    tree is therefore given as the list of files in walk order, each with the declarations
    the parser produces. *)
From Coq Require Import NArith List Bool.
From FF Require Import Gen.Consts_kbuild.
Import ListNotations.
Local Open Scope N_scope.

(** Text is a sequence of bytes. *)
Definition text : Type := list N.

Inductive kind := KFunc | KVar | KConst | KType | KOther.

Record decl := mkDecl {
  d_kind : kind;
  d_name : text;
  d_doc : list text;       (* Text of every comment of the Doc comment group, in order *)
  d_other : list text;     (* comments that are not the doc: in the body, detached, on a spec *)
  d_render : N;            (* layout hint for the harness (method/generic/grouped ...) *)
}.

Record file := mkFile {
  f_dir : list text;       (* directory components below the kernel root *)
  f_name : text;           (* final path element *)
  f_decls : list decl;     (* top-level declarations in source order *)
}.

Definition tree : Type := list file.   (* in filepath.Walk order *)

(** ---- text functions ---- *)
Fixpoint has_prefix (p s : text) : bool :=
  match p with
  | [] => true
  | a :: p' => match s with [] => false | b :: s' => (a =? b) && has_prefix p' s' end
  end.

Definition has_suffix (p s : text) : bool := has_prefix (rev p) (rev s).

(** ASCII white space as trimmed by strings.TrimSpace: \t \n \v \f \r and space. *)
Definition is_space (c : N) : bool :=
  (c =? 9) || (c =? 10) || (c =? 11) || (c =? 12) || (c =? 13) || (c =? 32).

Fixpoint trim_left (s : text) : text :=
  match s with
  | [] => []
  | c :: r => if is_space c then trim_left r else s
  end.

Definition trim_space (s : text) : text := rev (trim_left (rev (trim_left s))).

(** strings.TrimPrefix *)
Definition trim_prefix (p s : text) : text := if has_prefix p s then skipn (length p) s else s.

Definition slash : N := 47.
Definition dot : N := 46.
Definition ext_go : text := [46; 103; 111].                          (* ".go" *)
Definition suffix_test : text := [95; 116; 101; 115; 116; 46; 103; 111].  (* "_test.go" *)

(** path.Join(pkgPrefix, filepath.ToSlash(filepath.Dir(file))) for a walk-relative path *)
Definition pkg_path (dir : list text) : text :=
  kbuild_pkgPrefix ++ flat_map (fun c => slash :: c) dir.

(** filepath.Ext(path) == ".go" && !strings.HasSuffix(path, "_test.go") *)
Definition is_source (name : text) : bool :=
  has_suffix ext_go name && negb (has_suffix suffix_test name).

(** ---- FindRedirects ---- *)
Definition redirect : Type := (text * text)%type.   (* SrcSymbol, DstSymbol *)

Definition redirects_of_line (pkg name line : text) : list redirect :=
  if has_prefix kbuild_redirectComment line
  then [(trim_space (trim_prefix kbuild_redirectComment line), pkg ++ dot :: name)]
  else [].

Definition redirects_of_decl (pkg : text) (d : decl) : list redirect :=
  match d_kind d with
  | KFunc => flat_map (redirects_of_line pkg (d_name d)) (d_doc d)
  | _ => []
  end.

Definition redirects_of_file (f : file) : list redirect :=
  if is_source (f_name f)
  then flat_map (redirects_of_decl (pkg_path (f_dir f))) (f_decls f)
  else [].

Definition find_redirects (t : tree) : list redirect := flat_map redirects_of_file t.

(** ---- flat encoding for the correspondence driver ----
    text  = len byte*
    case  = 0 nfiles { ncomps text* text(name) ndecls { kind render text(name) ndoc text* nother text* }* }*
          | 1           (the real kernel tree: monitor only, empty observation)
    obs   = 1 n { text(src) text(dst) }*      (1 = all runs gave the same table) *)
Definition cap (n : N) (l : list N) : nat :=
  if n <=? N.of_nat (length l) then N.to_nat n else length l.

Definition dec_text (l : list N) : text * list N :=
  match l with
  | [] => ([], [])
  | n :: r => (firstn (cap n r) r, skipn (cap n r) r)
  end.

Fixpoint dec_rep {A : Type} (d : list N -> A * list N) (n : nat) (l : list N) : list A * list N :=
  match n with
  | O => ([], l)
  | S n => let '(a, l1) := d l in let '(r, l2) := dec_rep d n l1 in (a :: r, l2)
  end.

Definition dec_many {A : Type} (d : list N -> A * list N) (l : list N) : list A * list N :=
  match l with
  | [] => ([], [])
  | n :: r => dec_rep d (cap n r) r
  end.

Definition dec_kind (k : N) : kind :=
  if k =? 0 then KFunc else if k =? 1 then KVar else if k =? 2 then KConst else if k =? 3 then KType else KOther.

Definition dec_decl (l : list N) : decl * list N :=
  match l with
  | k :: r :: l1 =>
      let '(name, l2) := dec_text l1 in
      let '(doc, l3) := dec_many dec_text l2 in
      let '(other, l4) := dec_many dec_text l3 in
      (mkDecl (dec_kind k) name doc other r, l4)
  | _ => (mkDecl KOther [] [] [] 0, [])
  end.

Definition dec_file (l : list N) : file * list N :=
  let '(dir, l1) := dec_many dec_text l in
  let '(name, l2) := dec_text l1 in
  let '(decls, l3) := dec_many dec_decl l2 in
  (mkFile dir name decls, l3).

Definition enc_text (s : text) : list N := N.of_nat (length s) :: s.

Definition run_case (l : list N) : list N :=
  match l with
  | 0 :: rest =>
      let table := find_redirects (fst (dec_many dec_file rest)) in
      1 :: N.of_nat (length table) :: flat_map (fun e => enc_text (fst e) ++ enc_text (snd e)) table
  | _ => []
  end.
