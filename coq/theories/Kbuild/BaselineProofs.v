(** The pre-repair FindRedirects had the right content but no fixed order. *)
From Coq Require Import NArith List Bool Permutation.
From FF Require Import Gen.Consts_kbuild Kbuild.Model Kbuild.Baseline.
Import ListNotations.
Local Open Scope N_scope.

Definition permuting (sigma : list decl -> list decl) : Prop := forall ds, Permutation (sigma ds) ds.

Lemma baseline_content sigma t :
  permuting sigma -> Permutation (find_redirects_baseline sigma t) (find_redirects t).
Proof.
  intros Hs. unfold find_redirects_baseline, find_redirects.
  induction t as [|f t IH]; [constructor|]. cbn [flat_map]. apply Permutation_app; [|exact IH].
  unfold redirects_of_file_baseline, redirects_of_file. destruct (is_source (f_name f)); [|constructor].
  apply Permutation_flat_map. apply Hs.
Qed.

Lemma baseline_identity t : find_redirects_baseline (fun ds => ds) t = find_redirects t.
Proof. reflexivity. Qed.

Definition two_funcs : tree :=
  [ mkFile [] [97; 46; 103; 111]
      [ mkDecl KFunc [70] [kbuild_redirectComment ++ [32; 120]] [] 0;
        mkDecl KFunc [71] [kbuild_redirectComment ++ [32; 121]] [] 0 ] ].

Lemma baseline_order_refuted :
  exists (t : tree) (s1 s2 : list decl -> list decl),
    permuting s1 /\ permuting s2 /\ find_redirects_baseline s1 t <> find_redirects_baseline s2 t.
Proof.
  exists two_funcs, (fun ds => ds), (@rev decl). split; [|split].
  - intros ds. apply Permutation_refl.
  - intros ds. apply Permutation_sym. apply Permutation_rev.
  - vm_compute. discriminate.
Qed.
