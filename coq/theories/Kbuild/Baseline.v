(** FindRedirects as it was BEFORE the repair (commit 5ad9c86): the declarations of a file were
    visited in the iteration order of a Go map, i.e. in an arbitrary order [sigma] that can differ
    from run to run.   Definitions only (not extracted, not run against the code). *)
From Coq Require Import NArith List Bool.
From FF Require Import Gen.Consts_kbuild Kbuild.Model.
Import ListNotations.

Definition redirects_of_file_baseline (sigma : list decl -> list decl) (f : file) : list redirect :=
  if is_source (f_name f)
  then flat_map (redirects_of_decl (pkg_path (f_dir f))) (sigma (f_decls f))
  else [].

Definition find_redirects_baseline (sigma : list decl -> list decl) (t : tree) : list redirect :=
  flat_map (redirects_of_file_baseline sigma) t.
