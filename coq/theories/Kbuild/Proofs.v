(** Proofs about the model of FindRedirects (Kbuild/Model.v). *)
From Coq Require Import NArith List Bool Lia Sorted Arith.
From FF Require Import Gen.Consts_kbuild Kbuild.Model.
Import ListNotations.
Local Open Scope N_scope.

(** ---- text functions ---- *)
Lemma has_prefix_spec p s : has_prefix p s = true <-> exists r, s = p ++ r.
Proof.
  revert s. induction p as [|a p IH]; intros s; cbn [has_prefix].
  - split; [intros _; exists s; reflexivity | reflexivity].
  - destruct s as [|b s].
    + split; [discriminate | intros [r Hr]; discriminate].
    + rewrite andb_true_iff, N.eqb_eq, IH. split.
      * intros [-> [r ->]]. exists r. reflexivity.
      * intros [r Hr]. cbn in Hr. injection Hr as -> ->. split; [reflexivity | exists r; reflexivity].
Qed.

Lemma has_suffix_spec p s : has_suffix p s = true <-> exists r, s = r ++ p.
Proof.
  unfold has_suffix. rewrite has_prefix_spec. split.
  - intros [r Hr]. exists (rev r). apply (f_equal (@rev N)) in Hr.
    rewrite rev_involutive, rev_app_distr, rev_involutive in Hr. exact Hr.
  - intros [r ->]. exists (rev r). apply rev_app_distr.
Qed.

Lemma trim_prefix_app p r : trim_prefix p (p ++ r) = r.
Proof.
  unfold trim_prefix. replace (has_prefix p (p ++ r)) with true.
  - induction p as [|a p IH]; [reflexivity | exact IH].
  - symmetry. apply has_prefix_spec. exists r. reflexivity.
Qed.

Definition all_space (s : text) : Prop := Forall (fun c => is_space c = true) s.

(** [t] is [s] without its leading white space. *)
Lemma trim_left_spec s :
  exists a, s = a ++ trim_left s /\ all_space a /\
            match trim_left s with [] => True | c :: _ => is_space c = false end.
Proof.
  induction s as [|c s IH]; cbn [trim_left].
  - exists []. repeat split; constructor.
  - destruct (is_space c) eqn:Hc.
    + destruct IH as [a [H1 [H2 H3]]]. exists (c :: a). repeat split.
      * cbn. f_equal. exact H1.
      * constructor; assumption.
      * exact H3.
    + exists []. repeat split; [constructor | exact Hc].
Qed.

Lemma trim_left_nonspace c s : is_space c = false -> trim_left (c :: s) = c :: s.
Proof. intros H. cbn [trim_left]. rewrite H. reflexivity. Qed.

(** strings.TrimSpace on ASCII: [s = a ++ trim_space s ++ b] with [a], [b] white space and the
    result neither starting nor ending with white space. *)
Lemma trim_space_spec s :
  exists a b, s = a ++ trim_space s ++ b /\ all_space a /\ all_space b /\
    (match trim_space s with [] => True | c :: _ => is_space c = false end) /\
    (match rev (trim_space s) with [] => True | c :: _ => is_space c = false end).
Proof.
  unfold trim_space.
  destruct (trim_left_spec s) as [a [Ha [Hsa Hfa]]].
  destruct (trim_left_spec (rev (trim_left s))) as [b [Hb [Hsb Hfb]]].
  set (m := trim_left (rev (trim_left s))) in *.
  exists a, (rev b). split; [|split; [|split; [|split]]].
  - rewrite Ha at 1. f_equal.
    apply (f_equal (@rev N)) in Hb. rewrite rev_involutive, rev_app_distr in Hb. exact Hb.
  - exact Hsa.
  - unfold all_space. apply Forall_rev. exact Hsb.
  - (* first character of rev m *)
    assert (Hm : trim_left s = rev m ++ rev b).
    { apply (f_equal (@rev N)) in Hb. rewrite rev_involutive, rev_app_distr in Hb. exact Hb. }
    destruct (rev m) as [|c r] eqn:Hr; [exact I|].
    rewrite Hm in Hfa. exact Hfa.
  - rewrite rev_involutive. exact Hfb.
Qed.

Lemma trim_space_nonspace_ends c s d :
  is_space c = false -> is_space d = false -> trim_space (c :: s ++ [d]) = c :: s ++ [d].
Proof.
  intros Hc Hd. unfold trim_space. rewrite (trim_left_nonspace c _ Hc).
  change (c :: s ++ [d]) with ((c :: s) ++ [d]). rewrite rev_app_distr. cbn [rev app].
  rewrite (trim_left_nonspace d _ Hd). cbn [rev]. rewrite rev_app_distr, rev_involutive. reflexivity.
Qed.

(** ---- sites: positions (file index, declaration index, doc-line index) of annotations ---- *)
Definition site : Type := (nat * nat * nat)%type.

Definition lex_lt (a b : site) : Prop :=
  let '(i, j, k) := a in let '(i', j', k') := b in
  (i < i' \/ (i = i' /\ (j < j' \/ (j = j' /\ k < k'))))%nat.

Definition is_annotation (line : text) : Prop := has_prefix kbuild_redirectComment line = true.

Definition entry_of (f : file) (d : decl) (line : text) : redirect :=
  (trim_space (skipn (length kbuild_redirectComment) line), pkg_path (f_dir f) ++ dot :: d_name d).

(** [(i,j,k)] is an annotation site of [t] and [e] is the table entry it calls for. *)
Definition is_site (t : tree) (s : site) (e : redirect) : Prop :=
  let '(i, j, k) := s in
  exists f d line,
    nth_error t i = Some f /\ is_source (f_name f) = true /\
    nth_error (f_decls f) j = Some d /\ d_kind d = KFunc /\
    nth_error (d_doc d) k = Some line /\ is_annotation line /\
    e = entry_of f d line.

Fixpoint enum_from {A : Type} (n : nat) (l : list A) : list (nat * A) :=
  match l with
  | [] => []
  | x :: r => (n, x) :: enum_from (S n) r
  end.

Lemma in_enum_from {A : Type} (l : list A) n i x :
  In (i, x) (enum_from n l) <-> (n <= i)%nat /\ nth_error l (i - n) = Some x.
Proof.
  revert n. induction l as [|y l IH]; intros n; cbn [enum_from In].
  - split; [tauto|]. intros [_ H]. destruct (i - n)%nat; discriminate.
  - rewrite IH. split.
    + intros [H | [H1 H2]].
      * injection H as -> ->. split; [lia|]. rewrite Nat.sub_diag. reflexivity.
      * split; [lia|]. replace (i - n)%nat with (S (i - S n)) by lia. exact H2.
    + intros [H1 H2]. destruct (Nat.eq_dec n i) as [->|Hne].
      * left. rewrite Nat.sub_diag in H2. cbn in H2. injection H2 as ->. reflexivity.
      * right. split; [lia|]. replace (i - n)%nat with (S (i - S n)) in H2 by lia. exact H2.
Qed.

Lemma map_snd_flat_map_enum {A B C : Type} (g : nat -> A -> list (C * B)) (h : A -> list B) l n :
  (forall i x, map snd (g i x) = h x) ->
  map snd (flat_map (fun p => g (fst p) (snd p)) (enum_from n l)) = flat_map h l.
Proof.
  intros H. revert n. induction l as [|x l IH]; intros n; [reflexivity|].
  cbn [enum_from flat_map fst snd]. rewrite map_app, H, IH. reflexivity.
Qed.

Lemma sorted_app {A : Type} (R : A -> A -> Prop) l1 l2 :
  StronglySorted R l1 -> StronglySorted R l2 -> (forall a b, In a l1 -> In b l2 -> R a b) ->
  StronglySorted R (l1 ++ l2).
Proof.
  intros H1 H2 H. induction H1 as [|a l1 Hs IH Hf]; [exact H2|].
  cbn [app]. constructor.
  - apply IH. intros x y Hx Hy. apply H; [right; exact Hx | exact Hy].
  - apply Forall_app. split; [exact Hf|]. apply Forall_forall. intros y Hy. apply H; [left; reflexivity | exact Hy].
Qed.

Lemma sorted_flat_map_enum {A B : Type} (R : B -> B -> Prop) (g : nat -> A -> list B) l n :
  (forall i x, StronglySorted R (g i x)) ->
  (forall i i' x x' b b', (i < i')%nat -> In b (g i x) -> In b' (g i' x') -> R b b') ->
  StronglySorted R (flat_map (fun p => g (fst p) (snd p)) (enum_from n l)).
Proof.
  intros Hs Hlt. revert n. induction l as [|x l IH]; intros n; [constructor|].
  cbn [enum_from flat_map fst snd]. apply sorted_app; [apply Hs | apply IH|].
  intros b b' Hb Hb'. apply in_flat_map in Hb'. destruct Hb' as [[i' x'] [Hin Hb']].
  apply in_enum_from in Hin. destruct Hin as [Hle _]. cbn [fst snd] in Hb'.
  apply (Hlt n i' x x' b b'); [lia | exact Hb | exact Hb'].
Qed.

(** the table together with the site of every entry *)
Definition line_sites (f : file) (d : decl) (i j k : nat) (line : text) : list (site * redirect) :=
  if has_prefix kbuild_redirectComment line then [((i, j, k), entry_of f d line)] else [].

Definition decl_sites (f : file) (i j : nat) (d : decl) : list (site * redirect) :=
  match d_kind d with
  | KFunc => flat_map (fun p => line_sites f d i j (fst p) (snd p)) (enum_from 0 (d_doc d))
  | _ => []
  end.

Definition file_sites (i : nat) (f : file) : list (site * redirect) :=
  if is_source (f_name f)
  then flat_map (fun p => decl_sites f i (fst p) (snd p)) (enum_from 0 (f_decls f))
  else [].

Definition sites (t : tree) : list (site * redirect) :=
  flat_map (fun p => file_sites (fst p) (snd p)) (enum_from 0 t).

Lemma sites_table t : map snd (sites t) = find_redirects t.
Proof.
  unfold sites, find_redirects. apply map_snd_flat_map_enum. intros i f.
  unfold file_sites, redirects_of_file. destruct (is_source (f_name f)); [|reflexivity].
  apply map_snd_flat_map_enum. intros j d.
  unfold decl_sites, redirects_of_decl. destruct (d_kind d); try reflexivity.
  apply map_snd_flat_map_enum. intros k line.
  unfold line_sites, redirects_of_line, entry_of, trim_prefix.
  destruct (has_prefix kbuild_redirectComment line); reflexivity.
Qed.

Lemma in_line_sites f d i j k line s e :
  In (s, e) (line_sites f d i j k line) <-> s = (i, j, k) /\ is_annotation line /\ e = entry_of f d line.
Proof.
  unfold line_sites, is_annotation. destruct (has_prefix kbuild_redirectComment line).
  - cbn [In]. split.
    + intros [H|[]]. injection H as <- <-. auto.
    + intros [-> [_ ->]]. left. reflexivity.
  - cbn [In]. split; [tauto | intros [_ [H _]]; discriminate].
Qed.

Lemma in_sites t s e : In (s, e) (sites t) <-> is_site t s e.
Proof.
  unfold sites, is_site. rewrite in_flat_map. destruct s as [[i j] k]. split.
  - intros [[i0 f] [Hin H]]. cbn [fst snd] in H.
    apply in_enum_from in Hin. destruct Hin as [_ Hf]. rewrite Nat.sub_0_r in Hf.
    unfold file_sites in H. destruct (is_source (f_name f)) eqn:Hsrc; [|destruct H].
    apply in_flat_map in H. destruct H as [[j0 d] [Hin H]]. cbn [fst snd] in H.
    apply in_enum_from in Hin. destruct Hin as [_ Hd]. rewrite Nat.sub_0_r in Hd.
    unfold decl_sites in H. destruct (d_kind d) eqn:Hk; try destruct H.
    apply in_flat_map in H. destruct H as [[k0 line] [Hin H]]. cbn [fst snd] in H.
    apply in_enum_from in Hin. destruct Hin as [_ Hl]. rewrite Nat.sub_0_r in Hl.
    apply in_line_sites in H. destruct H as [Heq [Ha He]]. injection Heq as -> -> ->.
    exists f, d, line. auto 10.
  - intros [f [d [line [Hf [Hsrc [Hd [Hk [Hl [Ha He]]]]]]]]].
    exists (i, f). split; [apply in_enum_from; split; [lia | rewrite Nat.sub_0_r; exact Hf]|].
    cbn [fst snd]. unfold file_sites. rewrite Hsrc. apply in_flat_map.
    exists (j, d). split; [apply in_enum_from; split; [lia | rewrite Nat.sub_0_r; exact Hd]|].
    cbn [fst snd]. unfold decl_sites. rewrite Hk. apply in_flat_map.
    exists (k, line). split; [apply in_enum_from; split; [lia | rewrite Nat.sub_0_r; exact Hl]|].
    cbn [fst snd]. apply in_line_sites. auto.
Qed.

Lemma sorted_map_fst {A B : Type} (R : A -> A -> Prop) (l : list (A * B)) :
  StronglySorted (fun a b => R (fst a) (fst b)) l -> StronglySorted R (map fst l).
Proof.
  induction 1 as [|a l Hs IH Hf]; [constructor|]. cbn [map]. constructor; [exact IH|].
  apply Forall_map. exact Hf.
Qed.

Lemma sites_sorted t : StronglySorted lex_lt (map fst (sites t)).
Proof.
  apply sorted_map_fst. unfold sites. apply sorted_flat_map_enum.
  - intros i f. unfold file_sites. destruct (is_source (f_name f)); [|constructor].
    apply sorted_flat_map_enum.
    + intros j d. unfold decl_sites. destruct (d_kind d); try constructor.
      apply sorted_flat_map_enum.
      * intros k line. unfold line_sites. destruct (has_prefix _ _); repeat constructor.
      * intros k k' line line' b b' Hlt Hb Hb'. destruct b as [s e], b' as [s' e'].
        apply in_line_sites in Hb, Hb'. destruct Hb as [-> _], Hb' as [-> _]. cbn. lia.
    + intros j j' d d' b b' Hlt Hb Hb'. destruct b as [s e], b' as [s' e'].
      unfold decl_sites in Hb, Hb'.
      destruct (d_kind d); try destruct Hb. destruct (d_kind d'); try destruct Hb'.
      apply in_flat_map in Hb, Hb'. destruct Hb as [[k l] [_ Hb]], Hb' as [[k' l'] [_ Hb']].
      apply in_line_sites in Hb, Hb'. destruct Hb as [-> _], Hb' as [-> _]. cbn. lia.
  - intros i i' f f' b b' Hlt Hb Hb'. destruct b as [s e], b' as [s' e'].
    unfold file_sites in Hb, Hb'.
    destruct (is_source (f_name f)); [|destruct Hb]. destruct (is_source (f_name f')); [|destruct Hb'].
    apply in_flat_map in Hb, Hb'. destruct Hb as [[j d] [_ Hb]], Hb' as [[j' d'] [_ Hb']].
    cbn [fst snd] in Hb, Hb'. unfold decl_sites in Hb, Hb'.
    destruct (d_kind d); try destruct Hb. destruct (d_kind d'); try destruct Hb'.
    apply in_flat_map in Hb, Hb'. destruct Hb as [[k l] [_ Hb]], Hb' as [[k' l'] [_ Hb']].
    apply in_line_sites in Hb, Hb'. destruct Hb as [-> _], Hb' as [-> _]. cbn. lia.
Qed.

Lemma lex_lt_irrefl s : ~ lex_lt s s.
Proof. destruct s as [[i j] k]. cbn. lia. Qed.

Lemma sorted_nodup {A : Type} (R : A -> A -> Prop) l :
  (forall a, ~ R a a) -> StronglySorted R l -> NoDup l.
Proof.
  intros Hirr. induction 1 as [|a l Hs IH Hf]; constructor; [|exact IH].
  intros Hin. rewrite Forall_forall in Hf. exact (Hirr a (Hf a Hin)).
Qed.

(** The table is the list of entries called for by the annotation sites, each site exactly once,
    in (file, declaration, line) order. *)
Lemma table_ordered (t : tree) :
  exists ss : list (site * redirect),
    map snd ss = find_redirects t /\
    StronglySorted lex_lt (map fst ss) /\
    (forall s e, In (s, e) ss <-> is_site t s e).
Proof.
  exists (sites t). split; [apply sites_table | split; [apply sites_sorted | apply in_sites]].
Qed.

Lemma table_exactly_once (t : tree) :
  exists ss : list (site * redirect),
    map snd ss = find_redirects t /\
    NoDup (map fst ss) /\
    (forall s e, In (s, e) ss <-> is_site t s e).
Proof.
  destruct (table_ordered t) as [ss [H1 [H2 H3]]]. exists ss. split; [exact H1 | split; [|exact H3]].
  apply (sorted_nodup lex_lt); [apply lex_lt_irrefl | exact H2].
Qed.

(** an entry is in the table iff an annotation calls for it *)
Lemma table_sound_complete (t : tree) (e : redirect) :
  In e (find_redirects t) <->
  exists f d line,
    In f t /\ is_source (f_name f) = true /\ In d (f_decls f) /\ d_kind d = KFunc /\
    In line (d_doc d) /\ has_prefix kbuild_redirectComment line = true /\
    fst e = trim_space (skipn (length kbuild_redirectComment) line) /\
    snd e = pkg_path (f_dir f) ++ dot :: d_name d.
Proof.
  rewrite <- sites_table, in_map_iff. split.
  - intros [[s e'] [He Hin]]. cbn in He. subst e'. apply in_sites in Hin.
    destruct s as [[i j] k]. destruct Hin as [f [d [line [Hf [Hsrc [Hd [Hk [Hl [Ha He]]]]]]]]].
    exists f, d, line. apply nth_error_In in Hf, Hd, Hl. subst e. cbn [fst snd entry_of]. auto 10.
  - intros [f [d [line [Hf [Hsrc [Hd [Hk [Hl [Ha [H1 H2]]]]]]]]]].
    apply In_nth_error in Hf, Hd, Hl. destruct Hf as [i Hf], Hd as [j Hd], Hl as [k Hl].
    exists ((i, j, k), e). split; [reflexivity|]. apply in_sites.
    exists f, d, line. repeat (split; [assumption|]). destruct e as [a b]. cbn in H1, H2. subst. reflexivity.
Qed.

(** ---- counting ---- *)
Definition count_line (line : text) : nat := if has_prefix kbuild_redirectComment line then 1%nat else 0%nat.
Definition count_decl (d : decl) : nat :=
  match d_kind d with KFunc => list_sum (map count_line (d_doc d)) | _ => 0%nat end.
Definition count_file (f : file) : nat :=
  if is_source (f_name f) then list_sum (map count_decl (f_decls f)) else 0%nat.
Definition count_tree (t : tree) : nat := list_sum (map count_file t).

Lemma length_flat_map {A B : Type} (f : A -> list B) l :
  length (flat_map f l) = list_sum (map (fun x => length (f x)) l).
Proof. induction l as [|x l IH]; [reflexivity|]. cbn [flat_map map list_sum]. rewrite app_length, IH. reflexivity. Qed.

Lemma table_length t : length (find_redirects t) = count_tree t.
Proof.
  unfold find_redirects, count_tree. rewrite length_flat_map. f_equal. apply map_ext. intros f.
  unfold redirects_of_file, count_file. destruct (is_source (f_name f)); [|reflexivity].
  rewrite length_flat_map. f_equal. apply map_ext. intros d.
  unfold redirects_of_decl, count_decl. destruct (d_kind d); try reflexivity.
  rewrite length_flat_map. f_equal. apply map_ext. intros l.
  unfold redirects_of_line, count_line. destruct (has_prefix _ _); reflexivity.
Qed.

(** one function with [n] annotation lines gives [n] entries, all for that function *)
Lemma decl_entries pkg d :
  d_kind d = KFunc ->
  redirects_of_decl pkg d =
    map (fun line => (trim_space (skipn (length kbuild_redirectComment) line), pkg ++ dot :: d_name d))
        (filter (has_prefix kbuild_redirectComment) (d_doc d)).
Proof.
  intros Hk. unfold redirects_of_decl. rewrite Hk. induction (d_doc d) as [|l ls IH]; [reflexivity|].
  cbn [flat_map filter]. unfold redirects_of_line at 1, trim_prefix.
  destruct (has_prefix kbuild_redirectComment l); cbn [app map]; rewrite IH; reflexivity.
Qed.

(** ---- nothing else: what the table does not depend on ---- *)
Definition relevant_decl (d : decl) : bool := match d_kind d with KFunc => true | _ => false end.

Definition strip_decl (d : decl) : decl :=
  mkDecl (d_kind d) (d_name d) (filter (has_prefix kbuild_redirectComment) (d_doc d)) [] 0.

Definition strip_file (f : file) : file :=
  mkFile (f_dir f) (f_name f) (map strip_decl (filter relevant_decl (f_decls f))).

Definition strip_tree (t : tree) : tree := map strip_file (filter (fun f => is_source (f_name f)) t).

Lemma flat_map_filter {A B : Type} (p : A -> bool) (f : A -> list B) l :
  (forall x, p x = false -> f x = []) -> flat_map f (filter p l) = flat_map f l.
Proof.
  intros H. induction l as [|x l IH]; [reflexivity|]. cbn [filter flat_map].
  destruct (p x) eqn:Hp; cbn [flat_map]; rewrite IH; [reflexivity | rewrite (H x Hp); reflexivity].
Qed.

Lemma flat_map_map {A B C : Type} (g : A -> B) (f : B -> list C) l :
  flat_map f (map g l) = flat_map (fun x => f (g x)) l.
Proof. induction l as [|x l IH]; [reflexivity|]. cbn. rewrite IH. reflexivity. Qed.

Lemma strip_decl_same pkg d : redirects_of_decl pkg (strip_decl d) = redirects_of_decl pkg d.
Proof.
  unfold redirects_of_decl, strip_decl. cbn [d_kind d_name d_doc]. destruct (d_kind d); try reflexivity.
  apply flat_map_filter. intros l Hl. unfold redirects_of_line. rewrite Hl. reflexivity.
Qed.

Lemma table_ignores_the_rest t : find_redirects (strip_tree t) = find_redirects t.
Proof.
  unfold find_redirects, strip_tree. rewrite flat_map_map.
  rewrite <- (flat_map_filter (fun f => is_source (f_name f)) redirects_of_file t).
  2:{ intros f Hf. unfold redirects_of_file. rewrite Hf. reflexivity. }
  apply flat_map_ext. intros f. unfold redirects_of_file, strip_file. cbn [f_name f_dir f_decls].
  destruct (is_source (f_name f)); [|reflexivity].
  rewrite flat_map_map.
  rewrite <- (flat_map_filter relevant_decl (redirects_of_decl (pkg_path (f_dir f))) (f_decls f)).
  2:{ intros d Hd. unfold redirects_of_decl, relevant_decl in *. destruct (d_kind d); try reflexivity. discriminate. }
  apply flat_map_ext. intros d. apply strip_decl_same.
Qed.

(** test files, files without the .go extension *)
Lemma test_file_ignored f r : redirects_of_file (mkFile (f_dir f) (r ++ suffix_test) (f_decls f)) = [].
Proof.
  unfold redirects_of_file, is_source. cbn [f_name].
  replace (has_suffix suffix_test (r ++ suffix_test)) with true; [rewrite andb_false_r; reflexivity|].
  symmetry. apply has_suffix_spec. exists r. reflexivity.
Qed.

Lemma is_source_spec name :
  is_source name = true <-> (exists r, name = r ++ ext_go) /\ ~ (exists r, name = r ++ suffix_test).
Proof.
  unfold is_source. rewrite andb_true_iff, negb_true_iff, has_suffix_spec. split.
  - intros [H1 H2]. split; [exact H1|]. intros H3. apply has_suffix_spec in H3. congruence.
  - intros [H1 H2]. split; [exact H1|]. destruct (has_suffix suffix_test name) eqn:H; [|reflexivity].
    exfalso. apply H2. apply has_suffix_spec. exact H.
Qed.
