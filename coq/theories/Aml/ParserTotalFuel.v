(** C12 (stretch): "never a hang" for the tree walks.  connectNamedObjArgs run with at least twice as much fuel as the pool has
    slots RETURNS (no OutOfFuel, no Panic): the measure of the walk from an object is twice the size of its subtree, of the loop
    over the first children of an object twice the size of their subtrees plus the number of the children already done
    (ParserTotalConn2.v: PO / PL, the specifications CN_specF / loop_specF say "out of fuel only if the fuel is below the measure").
    Here: the size of a subtree exists and is bounded by the pool. *)
From Coq Require Import NArith Arith List Bool Lia.
From Coq Require Import ZifyBool ZifyN ZifyNat.
From FF Require Import Lib.Word Gen.Consts_device_acpi_aml Gen.Consts_aml_tree Aml.Stream Aml.Lex Aml.LexProofs
  Aml.Tree Aml.Parser Aml.ParserProofs Aml.TreeSpec Aml.TreeProofs Aml.TreeProofsOps Aml.TreeProofsFind Aml.TreeProofsAnc
  Aml.ParserTotalTree Aml.ParserTotalTree2 Aml.ParserTotalLex Aml.ParserTotalTable Aml.ParserTotalBase Aml.ParserTotalLeaf
  Aml.ParserTotalFrame Aml.ParserTotalFirst Aml.ParserTotalConn Aml.ParserTotalNonNamed Aml.ParserTotalCalls Aml.ParserTotalReloc
  Aml.ParserTotalMerge Aml.ParserTotalResolve Aml.ParserTotalDefer Aml.ParserTotalDeferW Aml.ParserTotalDeferV
  Aml.ParserTotalTyped Aml.ParserTotalShape Aml.ParserTotalChain Aml.ParserTotalConn2 Aml.ParserTotalPass2.
Import ListNotations.
Local Open Scope N_scope.

Section Size.
Context (t : T) (g : ghost) (HR : R t g).

(** the size of the subtree of a live object exists: it is the length of a duplicate-free list of descendants *)
Lemma sz_exists : forall x, glive g x ->
  exists l, NoDup l /\ (forall y, In y l -> desc g x y) /\ sz g x (length l).
Proof.
  pose proof (R_gwf _ _ HR) as Hwf.
  apply (forest_ind _ _ HR). intros x Hl IH.
  assert (Hl' : forall cs, (forall c, In c cs -> In c (kids g x)) -> NoDup cs ->
            exists l, NoDup l /\ (forall y, In y l -> exists c, In c cs /\ desc g c y) /\ szl g cs (length l)).
  { induction cs as [|c cs IHc]; intros Hsub Hnd.
    - exists []. split; [constructor|]. split; [intros y []|constructor].
    - apply NoDup_cons_iff in Hnd. destruct Hnd as (Hnc & Hnd).
      destruct (IH c (Hsub c (or_introl eq_refl))) as (l1 & N1 & D1 & C1).
      destruct (IHc (fun c' Hc' => Hsub c' (or_intror Hc')) Hnd) as (l2 & N2 & D2 & C2).
      exists (l1 ++ l2). split; [|split].
      + apply NoDup_app_intro; auto. intros y Hy1 Hy2. destruct (D2 y Hy2) as (c' & Hc' & Dc').
        assert (c = c') by (eapply (siblings_disjoint _ _ HR x); [apply Hsub; left; reflexivity|apply Hsub; right; exact Hc'|apply D1; exact Hy1|exact Dc']).
        subst c'. contradiction.
      + intros y Hy. apply in_app_or in Hy. destruct Hy as [Hy|Hy].
        * exists c. split; [left; reflexivity|apply D1; exact Hy].
        * destruct (D2 y Hy) as (c' & Hc' & Dc'). exists c'. split; [right; exact Hc'|exact Dc'].
      + rewrite app_length. constructor; auto. }
  destruct (R_live_glive _ _ HR x) as (_ & Hlv). destruct (Hlv Hl) as (o & Ho & Hlo).
  destruct (R_kids _ _ HR _ _ Ho Hlo) as (_ & _ & _ & Hnd).
  destruct (Hl' (kids g x) (fun c Hc => Hc) Hnd) as (l & Nl & Dl & Cl).
  exists (x :: l). split; [|split].
  - constructor; [|exact Nl]. intros Hin. destruct (Dl x Hin) as (c & Hc & Dc). exact (child_not_desc _ _ HR x c Hc Dc).
  - intros y [<-|Hy]; [constructor|]. destruct (Dl y Hy) as (c & Hc & Dc).
    eapply desc_trans; [eapply desc_step; [constructor|exact Hc]|exact Dc].
  - cbn [length]. constructor. exact Cl.
Qed.

Lemma sz_bounded x : glive g x -> exists n, sz g x n /\ (n <= length (t_pool t))%nat.
Proof.
  intros Hl. destruct (sz_exists x Hl) as (l & Nl & Dl & Cl). exists (length l). split; [exact Cl|].
  apply nodup_bound; [exact Nl|]. intros y Hy. rewrite <- (R_len _ _ HR). eapply glive_lt.
  eapply desc_live; [apply (R_gwf _ _ HR)|exact Hl|apply Dl; exact Hy].
Qed.
End Size.

(** connectNamedObjArgs with enough fuel returns *)
Section Returns.
Variable J : pstate -> ghost -> Prop.
Hypothesis J_setname : forall s g a nm, TI s g -> J s g -> tgt_ok s g a ->
  J (with_tree s (tset (p_tree s) a (set_name nm))) g.
Hypothesis J_attach : forall s g parent target sib l1 l2 (t2 : T) g2, TI s g -> J s g ->
  kids g parent = l1 ++ target :: sib :: l2 -> tgt_ok s g target ->
  pframe (p_tree s) t2 -> shape_eq g g2 -> roots_iff g g2 ->
  (forall q, kids g2 q = (if q =? parent then remove1 sib (kids g parent) else kids g q) ++ (if q =? target then [sib] else [])) ->
  J (with_tree s t2) g2.

Theorem connectNamed_returns : forall fuel x s g,
  TI s g -> J s g -> glive g x -> (2 * length (t_pool (p_tree s)) <= fuel)%nat ->
  wp False (connectNamedObjArgs fuel x) s (fun _ s' => exists g', TI s' g' /\ J s' g' /\ reloc g g' (desc g x)).
Proof.
  intros fuel x s g H HJ Hl Hf.
  eapply wp_weaken; [apply (proj1 (conn_allF J J_setname J_attach fuel) x s g H HJ Hl)| |intros r s' Hp; exact Hp].
  intros HP. destruct (sz_bounded _ _ (ti_R _ _ H) x Hl) as (n & Hn & Hb). specialize (HP n Hn). lia.
Qed.
End Returns.

(** without an abstract invariant: R, valid indexes and slices-inside are re-established *)
Theorem connectNamedObjArgs_returns : forall fuel x s g,
  R (p_tree s) g -> info_valid (p_tree s) -> pool_ok (p_tables s) (p_tree s) -> glive g x ->
  (2 * length (t_pool (p_tree s)) <= fuel)%nat ->
  match connectNamedObjArgs fuel x s with
  | Ok (_, s') => exists g', R (p_tree s') g' /\ info_valid (p_tree s') /\ pool_ok (p_tables s') (p_tree s')
  | Panic => False
  | OutOfFuel => False
  end.
Proof.
  intros fuel x s g HR Hi Hp Hl Hf.
  pose proof (connectNamed_returns (fun _ _ => True) (fun _ _ _ _ _ _ _ => I) (fun _ _ _ _ _ _ _ _ _ _ _ _ _ _ _ _ _ => I)
                fuel x s g (mkTI _ _ HR Hi Hp) I Hl Hf) as W.
  unfold wp in W. destruct (connectNamedObjArgs fuel x s) as [[r s']| |]; auto.
  destruct W as (g' & [A B C] & _). exists g'. auto.
Qed.

(** the fuel ParseAML's model gives the pass (parse_fuel of the table length + the slots of the pool ParseAML started with) is
    enough as long as the pool has at most 4 slots per byte of the table more than it started with - what the first pass guarantees *)
Lemma parse_fuel_enough len pool0 pool :
  (pool <= pool0 + 4 * len + 2)%nat -> (2 * pool <= parse_fuel (len + pool0))%nat.
Proof. unfold parse_fuel. lia. Qed.

(** ---- the last two passes ---- *)
(** resolveMethodCalls / connectNonNamedObjArgs from the root with at least twice as much fuel as the pool has slots return; the
    measure (ParserTotalConn.v: PO2 / PL2) also counts the siblings that follow the object, which attachSiblingsAsArgs(useParent) may
    take - none at the root *)
Lemma pool_len_reloc (t t' : T) g g' S : R t g -> R t' g' -> reloc g g' S -> length (t_pool t') = length (t_pool t).
Proof. intros HR HR' Rl. rewrite <- (R_len _ _ HR), <- (R_len _ _ HR'). apply (rl_len _ _ _ Rl). Qed.

Theorem resolveMethodCalls_returns : forall fuel s g,
  R (p_tree s) g -> info_valid (p_tree s) -> pool_ok (p_tables s) (p_tree s) -> typed (p_tree s) ->
  glive g 0 -> groot g 0 -> (2 * length (t_pool (p_tree s)) <= fuel)%nat ->
  match resolveMethodCalls fuel 0 s with
  | Ok (_, s') => exists g', R (p_tree s') g' /\ info_valid (p_tree s') /\ pool_ok (p_tables s') (p_tree s') /\ typed (p_tree s') /\
      glive g' 0 /\ groot g' 0 /\ length (t_pool (p_tree s')) = length (t_pool (p_tree s))
  | Panic => False
  | OutOfFuel => False
  end.
Proof.
  intros fuel s g HR Hi Hp Hty H0 Hroot Hf.
  pose proof (proj1 (calls_all KT KT_move KT_upd fuel) 0 s g None [] [] (mkTI _ _ HR Hi Hp) Hty H0 H0 (conj Hroot eq_refl) I) as W. unfold wp in W.
  destruct (resolveMethodCalls fuel 0 s) as [[r s']| |]; auto.
  - destruct W as (g' & m2' & ([A B C] & Hrel & _ & Hroots & D & _) & _ & _). exists g'. repeat (split; [assumption|]).
    split; [apply (reloc_glive _ _ _ 0 Hrel); exact H0|]. split; [apply Hroots; exact Hroot|exact (pool_len_reloc _ _ _ _ _ HR A Hrel)].
  - destruct (sz_bounded _ _ HR 0 H0) as (n & Hn & Hb). specialize (W n Hn). cbn [length] in W. lia.
Qed.

Theorem connectNonNamedObjArgs_returns : forall fuel s g,
  R (p_tree s) g -> info_valid (p_tree s) -> pool_ok (p_tables s) (p_tree s) ->
  glive g 0 -> groot g 0 -> (2 * length (t_pool (p_tree s)) <= fuel)%nat ->
  match connectNonNamedObjArgs fuel 0 s with
  | Ok (_, s') => exists g', R (p_tree s') g' /\ info_valid (p_tree s') /\ pool_ok (p_tables s') (p_tree s')
  | Panic => False
  | OutOfFuel => False
  end.
Proof.
  intros fuel s g HR Hi Hp H0 Hroot Hf.
  pose proof (proj1 (nonNamed_all KT KT_move fuel) 0 s g None [] [] (mkTI _ _ HR Hi Hp) H0 (conj Hroot eq_refl) I) as W. unfold wp in W.
  destruct (connectNonNamedObjArgs fuel 0 s) as [[r s']| |]; auto.
  - destruct W as (g' & m2' & ([A B C] & _) & _). exists g'. auto.
  - destruct (sz_bounded _ _ HR 0 H0) as (n & Hn & Hb). specialize (W n Hn). cbn [length] in W. lia.
Qed.

(** the two passes as ParseAML chains them *)
Definition parse_tail2 (f5 f6 : nat) : M bool :=
  mlet r5 <~ resolveMethodCalls f5 0 ;;
  if negb (pres_eqb r5 ROk) then ret false else
  mlet r6 <~ connectNonNamedObjArgs f6 0 ;;
  if negb (pres_eqb r6 ROk) then ret false else
  ret true.

Theorem tail2_returns : forall f5 f6 s g,
  R (p_tree s) g -> info_valid (p_tree s) -> pool_ok (p_tables s) (p_tree s) -> typed (p_tree s) ->
  glive g 0 -> groot g 0 ->
  (2 * length (t_pool (p_tree s)) <= f5)%nat -> (2 * length (t_pool (p_tree s)) <= f6)%nat ->
  match parse_tail2 f5 f6 s with
  | Ok (_, s') => exists g', R (p_tree s') g' /\ info_valid (p_tree s') /\ pool_ok (p_tables s') (p_tree s')
  | Panic => False
  | OutOfFuel => False
  end.
Proof.
  intros f5 f6 s g HR Hi Hp Hty H0 Hroot Hf5 Hf6.
  pose proof (resolveMethodCalls_returns f5 s g HR Hi Hp Hty H0 Hroot Hf5) as W5.
  unfold parse_tail2, bindM. destruct (resolveMethodCalls f5 0 s) as [[r5 s1]| |]; try contradiction.
  destruct W5 as (g1 & A1 & A2 & A3 & A4 & A5 & A6 & A7).
  destruct (negb (pres_eqb r5 ROk)); [unfold ret; exists g1; auto|].
  pose proof (connectNonNamedObjArgs_returns f6 s1 g1 A1 A2 A3 A5 A6) as W6. rewrite A7 in W6. specialize (W6 Hf6).
  destruct (connectNonNamedObjArgs f6 0 s1) as [[r6 s2]| |]; try contradiction.
  destruct (negb (pres_eqb r6 ROk)); unfold ret; exact W6.
Qed.

(** ---- the inner loops of the resolve passes run on their own fuel, [poolFuel] = pool size + 2: it suffices ---- *)
(** insideSelf (relocateNamedObjects, commit 648a1d7) climbs the parent links: one unit of fuel per ancestor *)
Lemma insideSelf_ret : forall fuel a obj s g k, TI s g -> glive g a -> Depth (p_tree s) a k -> (k + 2 <= fuel)%nat ->
  wp False (insideSelf_go fuel (Some a) obj) s (fun _ s' => s' = s).
Proof.
  induction fuel as [|fuel IH]; intros a obj s g k H Hl Hd Hf; [lia|]. cbn [insideSelf_go].
  pose proof (ti_R _ _ H) as HR.
  destruct (N.eqb_spec a obj) as [E|E].
  { apply wp_ret. reflexivity. }
  destruct (TI_live_get _ _ _ H Hl) as (ao & Hao & Hlao).
  apply wp_bind. apply wp_rdf. exists ao. split; [exact Hao|].
  apply wp_bind, wp_get.
  destruct (parent_link _ _ _ _ H Hao Hlao) as [(Ep & Hroot)|(Ep & Hin & Hlp)].
  - rewrite Ep. assert (Hn : ObjectAt (p_tree s) InvalidIndex = None).
    { destruct (ObjectAt (p_tree s) InvalidIndex) as [q|] eqn:Eo; [|reflexivity].
      destruct (ObjectAt_some _ _ _ Eo) as (_ & o' & Ho' & _). exfalso. eapply (R_pos_not_Inv _ _ HR); eauto. }
    rewrite Hn. destruct fuel as [|fuel]; [lia|]. cbn [insideSelf_go]. apply wp_ret. reflexivity.
  - rewrite (TI_ObjectAt _ _ _ H Hlp).
    inversion Hd as [i o Hg _ Hp|i o k' Hg _ _ Hd']; subst; assert (o = ao) by congruence; subst o; [contradiction|].
    apply (IH (o_parent ao) obj s g k' H Hlp Hd'). lia.
Qed.

Theorem insideSelf_poolFuel : forall a obj s g, TI s g -> glive g a ->
  wp False (mlet pf <~ poolFuel ;; insideSelf_go pf (Some a) obj) s (fun _ s' => s' = s).
Proof.
  intros a obj s g H Hl. unfold poolFuel. apply wp_bind, wp_get.
  destruct (live_depth _ _ (ti_R _ _ H) a Hl) as (k & Hd). pose proof (Depth_bound _ _ _ Hd).
  apply (insideSelf_ret _ a obj s g k H Hl Hd). lia.
Qed.

(** scopeOf walks the children of the target until it meets a ScopeBlock: one unit of fuel per child *)
Lemma nestedScope_ret : forall fuel idx p l1 l2 s g, TI s g -> glive g p -> kids g p = l1 ++ l2 -> idx = hd InvalidIndex l2 ->
  (length l2 + 1 <= fuel)%nat -> wp False (nestedScope_go fuel idx) s (fun _ s' => s' = s).
Proof.
  induction fuel as [|fuel IH]; intros idx p l1 l2 s g H Hlp Hk Hidx Hf; [lia|]. cbn [nestedScope_go].
  pose proof (ti_R _ _ H) as HR.
  destruct l2 as [|c l2']; cbn [hd] in Hidx; subst idx.
  { rewrite N.eqb_refl. apply wp_ret. reflexivity. }
  assert (Hin : In c (kids g p)) by (rewrite Hk; apply in_or_app; right; left; reflexivity).
  destruct ((R_gwf _ _ HR) _ _ Hin) as (_ & Hl).
  destruct (sibling_links _ _ HR _ l1 c l2' Hlp Hk) as (o & Ho & Hlo & _ & _ & En & _).
  assert (Ec : (c =? InvalidIndex) = false) by (apply N.eqb_neq; eapply (R_pos_not_Inv _ _ HR); eauto).
  rewrite Ec.
  apply wp_bind. apply wp_objectAt'; [apply (TI_ObjectAt _ _ _ H Hl)|].
  apply wp_bind. apply wp_rdf. exists o. split; [exact Ho|].
  destruct (o_opcode o =? aml_pOpIntScopeBlock); [apply wp_ret; reflexivity|].
  apply wp_bind. apply wp_rdf. exists o. split; [exact Ho|]. rewrite En.
  apply (IH (hd InvalidIndex l2') p (l1 ++ [c]) l2' s g H Hlp); [rewrite <- app_assoc; exact Hk|reflexivity|cbn [length] in Hf; lia].
Qed.

Theorem scopeOf_returns : forall target s g, TI s g -> glive g target ->
  wp False (scopeOf target) s (fun _ s' => s' = s).
Proof.
  intros target s g H Hl. unfold scopeOf, poolFuel. pose proof (ti_R _ _ H) as HR.
  apply wp_bind. apply wp_objectAt'; [apply (TI_ObjectAt _ _ _ H Hl)|].
  destruct (TI_live_get _ _ _ H Hl) as (o & Ho & Hlo).
  apply wp_bind. apply wp_rdf. exists o. split; [exact Ho|].
  destruct (o_opcode o =? aml_pOpIntScopeBlock); [apply wp_ret; reflexivity|].
  apply wp_bind. apply wp_rdf. exists o. split; [exact Ho|].
  apply wp_bind, wp_get.
  destruct (R_kids _ _ HR _ _ Ho Hlo) as (Hf & _ & _ & Hnd).
  apply (nestedScope_ret _ (o_first o) target [] (kids g target) s g H Hl eq_refl Hf).
  assert (Hb : (length (kids g target) <= length (t_pool (p_tree s)))%nat).
  { apply nodup_bound; [exact Hnd|]. intros y Hy. rewrite <- (R_len _ _ HR). eapply glive_lt. apply ((R_gwf _ _ HR) _ _ Hy). }
  lia.
Qed.
