From Coq Require Import NArith Arith List Bool Lia.
From Coq Require Import ZifyBool ZifyN ZifyNat.
From FF Require Import Lib.Word Gen.Consts_device_acpi_aml Gen.Consts_aml_tree Aml.Stream Aml.Lex Aml.LexProofs
  Aml.Tree Aml.Parser Aml.ParserProofs Aml.TreeSpec Aml.TreeProofs Aml.TreeProofsOps Aml.TreeProofsFind Aml.TreeProofsAnc
  Aml.ParserTotalTree Aml.ParserTotalTree2 Aml.ParserTotalLex Aml.ParserTotalTable Aml.ParserTotalBase Aml.ParserTotalLeaf
  Aml.ParserTotalFrame Aml.ParserTotalLeaf2 Aml.ParserTotalFirst Aml.ParserTotalConn Aml.ParserTotalReloc Aml.ParserTotalDefer
  Aml.ParserTotalDeferT Aml.ParserTotalDeferN Aml.ParserTotalDeferL Aml.ParserTotalDeferX Aml.ParserTotalDeferS Aml.ParserTotalDeferA Aml.ParserTotalDeferG Aml.ParserTotalDeferO.
Import ListNotations.
Local Open Scope N_scope.

Section Block.
Variable tbls : list (list N).

Definition Dall (fuel : nat) : Prop :=
  D_name tbls fuel /\ D_next tbls fuel /\ D_objargs tbls fuel /\ D_args tbls fuel /\ D_arg tbls fuel /\
  D_strict tbls fuel /\ D_target tbls fuel /\ D_termlist tbls fuel /\ D_callargs tbls fuel.

Lemma Dall_all : forall fuel, Dall fuel.
Proof.
  induction fuel as [|fuel (Hn & Hx & Ho & Hg & Ha & Hs & Ht & Hl & Hc)].
  - unfold Dall. repeat split; intro; intros; cbn; try (apply wp_outOfFuel; exact I).
  - unfold Dall. split; [apply step_Dname; assumption|]. split; [apply step_Dnext; assumption|].
    split; [apply step_Dobjargs; assumption|]. split; [apply step_Dargs; assumption|].
    split; [apply step_Darg; assumption|]. split; [apply step_Dstrict; assumption|].
    split; [apply step_Dtarget; assumption|]. split; [apply step_Dtermlist; assumption|apply step_Dcallargs; assumption].
Qed.

Lemma D_objargs_all fuel : D_objargs tbls fuel.
Proof. apply (Dall_all fuel). Qed.
End Block.
