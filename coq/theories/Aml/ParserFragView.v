(** C11 (fragment proofs): reading the namespace view (Aml/View.v) off a pool described by [Rep]. *)
From Coq Require Import NArith ZArith Arith List Bool Lia.
From Coq Require Import ZifyBool ZifyN ZifyNat.
From FF Require Import Lib.Word Gen.Consts_device_acpi_aml Gen.Consts_aml_tree Aml.Stream Aml.Lex Aml.LexProofs
  Aml.Tree Aml.TreeSpec Aml.TreeProofs Aml.TreeProofsOps Aml.TreeProofsFind Aml.Parser Aml.Grammar
  Aml.ParserTotalTree Aml.ParserTotalTree2 Aml.ParserTotalLex Aml.ParserTotalTable Aml.ParserTotalBase
  Aml.ParserFragBase Aml.ParserFragFirst Aml.View.
Import ListNotations.
Local Open Scope N_scope.

Ltac Zify.zify_post_hook ::= Z.div_mod_to_equations.

(** ---- the child list as the view reads it ---- *)
Lemma kids_go_chain (t : T) p : forall l prev fuel,
  chain t p prev l InvalidIndex -> (length l < fuel)%nat ->
  (forall c, In c l -> c <> InvalidIndex) ->
  kids_go t fuel (hd InvalidIndex l) = l.
Proof.
  induction l as [|c l IH]; intros prev fuel Hc Hf Hn.
  - destruct fuel; [cbn in Hf; lia|]. cbn [kids_go hd]. rewrite N.eqb_refl. reflexivity.
  - destruct fuel; [cbn in Hf; lia|]. cbn [hd kids_go].
    destruct Hc as [(oc & Hg & Hl & _ & _ & Hnx) Hc].
    assert (Hcv : c <> InvalidIndex) by (apply Hn; left; reflexivity).
    apply N.eqb_neq in Hcv. rewrite Hcv. unfold obj. unfold TreeSpec.get in Hg. rewrite Hg. rewrite Hnx.
    f_equal. apply (IH c); [exact Hc|cbn [length] in Hf; lia|]. intros c' Hc'. apply Hn. right. exact Hc'.
Qed.

Lemma view_obj (t : T) g pl i a : Rep t g pl -> pget pl i = Some a -> y_op a <> opFreed ->
  exists o, obj t i = Some o /\ pay_of o = a /\ View.kids t o = TreeSpec.kids g i.
Proof.
  intros H Ha Hl. pose proof (rep_R _ _ _ H) as HR.
  destruct (rep_obj _ _ _ H _ _ Ha Hl) as (o & Ho & Epay & _ & Hfirst & _).
  exists o. split; [exact Ho|]. split; [exact Epay|].
  assert (Hlo : o_opcode o <> opFreed) by (rewrite (pay_op _ _ Epay); exact Hl).
  destruct (R_kids _ _ HR _ _ Ho Hlo) as (_ & _ & Hch & _).
  unfold View.kids. rewrite Hfirst. eapply kids_go_chain; [exact Hch| |].
  - unfold pool_fuel. pose proof (kids_length t g HR i). lia.
  - intros c Hc. destruct (R_In_kids _ _ HR _ _ Hc) as (_ & co & Hco & _). eapply (R_pos_not_Inv _ _ HR); eauto.
Qed.

(** ---- the walk, one level ---- *)
Definition walkF (t : T) (tables : list (list N)) (f : nat) (known : list path) (p : path)
  (acc : list (list N) * list (list N)) (c : N) : list (list N) * list (list N) :=
        let '(es, stmts) := acc in
        match obj t c with
        | None => (es ++ [bad], stmts)
        | Some co =>
            let op := o_opcode co in
            if (op =? aml_pOpIntScopeBlock) && negb (is_zero_scopeblock co) then
              let p' := p ++ [name_num (o_name co)] in
              let '(es', st') := walk t tables f known c p' in
              (es ++ es' ++ anon p' st', stmts)
            else if op =? aml_pOpIntNamedField then
              match o_value co with
              | Some (VField fe) =>
                  let cont := obj t (fe_fieldIndex fe) in
                  let kind := match cont with Some k => o_opcode k | None => 0 end in
                  let conn := if fe_connectionIndex fe =? InvalidIndex then 0
                              else match cont with Some k => conn_ordinal t (View.kids t k) (fe_connectionIndex fe) 0 | None => 0xffff end in
                  (es ++ [[1] ++ tok_path (p ++ [name_num (o_name co)]) ++
                          [aml_pOpIntNamedField; kind; fe_offset fe; fe_width fe; fe_accessLength fe; fe_accessType fe; fe_accessAttrib fe;
                           fe_lockType fe; fe_updateType fe; conn]], stmts)
              | _ => (es ++ [bad], stmts)
              end
            else if is_declop op then
              let p' := p ++ [name_num (o_name co)] in
              let argScope := if op =? aml_pOpMethod then p' else p in
              match View.kids t co with
              | nameArg :: rest =>
                  let '(sub, args) :=
                    fold_left (fun (a : list (list N) * list N) k =>
                      let '(sub, args) := a in
                      match obj t k with
                      | Some ko =>
                          if o_opcode ko =? aml_pOpIntScopeBlock then
                            let '(es', st') := walk t tables f known k p' in
                            if op =? aml_pOpMethod then (sub ++ es', args ++ concat st')
                            else (sub ++ es' ++ anon p' st', args)
                          else (sub, args ++ renderExpr t tables (pool_fuel t) known argScope k)
                      | None => (sub ++ [bad], args)
                      end) rest ([], []) in
                  (es ++ sub ++ [[1] ++ tok_path p' ++ [op] ++ args], stmts)
              | [] => (es ++ [bad], stmts)
              end
            else if op =? aml_pOpScope then (es ++ [[3] ++ tok_path p], stmts)
            else if is_fieldcontainerop op then (es ++ [[2] ++ tok_path p ++ renderStmt t tables (pool_fuel t) known p c], stmts)
            else (es, stmts ++ [renderStmt t tables (pool_fuel t) known p c])
        end.

Lemma walk_S (t : T) tables f known scope p : walk t tables (S f) known scope p =
  match obj t scope with
  | None => ([bad], [])
  | Some so => fold_left (walkF t tables f known p) (View.kids t so) ([], [])
  end.
Proof. reflexivity. Qed.

(** a named ScopeBlock without children contributes nothing *)
Lemma walkF_empty_scope (t : T) tables f known p acc c co :
  obj t c = Some co -> o_opcode co = aml_pOpIntScopeBlock -> name_eqb (o_name co) (0, 0, 0, 0) = false -> View.kids t co = [] ->
  walkF t tables (S f) known p acc c = acc.
Proof.
  intros Ho Hop Hnm Hk. destruct acc as [es stmts]. unfold walkF. rewrite Ho. cbv zeta.
  unfold is_zero_scopeblock. rewrite Hop, Hnm. change ((aml_pOpIntScopeBlock =? aml_pOpIntScopeBlock) && negb (true && false)) with true. cbv iota.
  rewrite walk_S, Ho, Hk. cbn [fold_left anon map]. rewrite !app_nil_r. reflexivity.
Qed.

(** a constant as an expression *)
Definition const_tokens (op : N) (v : option value) : list N :=
  [op] ++ (match v with None => [0] | Some (VNum x) => [1; x] | _ => [9] end) ++ [0].

Lemma render_const (t : T) tables f known scope k ko :
  obj t k = Some ko -> View.kids t ko = [] ->
  (o_opcode ko =? aml_pOpIntResolvedNamePath) = false -> (o_opcode ko =? aml_pOpIntNamePath) = false ->
  (o_opcode ko =? aml_pOpIntNamePathOrMethodCall) = false -> (o_opcode ko =? aml_pOpIntMethodCall) = false ->
  match o_value ko with None => True | Some (VNum _) => True | _ => False end ->
  renderExpr t tables (S f) known scope k = const_tokens (o_opcode ko) (o_value ko).
Proof.
  intros Ho Hk E1 E2 E3 E4 Hv. cbn [renderExpr]. rewrite Ho. cbv zeta. rewrite E1, E2, E3, E4. cbn [orb].
  unfold exprKids. rewrite Hk. cbn [exprKids_go flat_map]. unfold const_tokens.
  destruct (o_value ko) as [[x|tb sl|i|fe]|]; try contradiction; reflexivity.
Qed.

(** a Name object with the children [name path; constant] *)
Lemma walkF_name (t : T) tables f known p es stmts c co pth k ko :
  obj t c = Some co -> o_opcode co = aml_pOpName -> View.kids t co = [pth; k] ->
  obj t k = Some ko -> View.kids t ko = [] ->
  (o_opcode ko =? aml_pOpIntScopeBlock) = false ->
  (o_opcode ko =? aml_pOpIntResolvedNamePath) = false -> (o_opcode ko =? aml_pOpIntNamePath) = false ->
  (o_opcode ko =? aml_pOpIntNamePathOrMethodCall) = false -> (o_opcode ko =? aml_pOpIntMethodCall) = false ->
  match o_value ko with None => True | Some (VNum _) => True | _ => False end ->
  walkF t tables f known p (es, stmts) c =
  (es ++ [[1] ++ tok_path (p ++ [name_num (o_name co)]) ++ [aml_pOpName] ++ const_tokens (o_opcode ko) (o_value ko)], stmts).
Proof.
  intros Ho Hop Hk Hko Hkk E0 E1 E2 E3 E4 Hv. unfold walkF. rewrite Ho. cbv zeta. rewrite Hop.
  change ((aml_pOpName =? aml_pOpIntScopeBlock) && negb (is_zero_scopeblock co)) with false. cbv iota.
  change (aml_pOpName =? aml_pOpIntNamedField) with false. change (is_declop aml_pOpName) with true. cbv iota.
  rewrite Hk. cbn [fold_left]. rewrite Hko, E0. change (aml_pOpName =? aml_pOpMethod) with false. cbv iota.
  unfold pool_fuel. rewrite (render_const t tables _ known p k ko Hko Hkk E1 E2 E3 E4 Hv). cbn [app]. reflexivity.
Qed.
