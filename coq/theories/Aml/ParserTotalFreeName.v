(** C12 (stretch): the first pass keeps "every free slot carries a name without lead character" (newObject keeps the name
    of the slot it reuses; the names mergeScopeDirectives later reads are those of objects created in such slots).  Partial
    correctness, by structural decomposition with a small pre/post logic over the tree (set_name must not hit a free slot). *)
From Coq Require Import NArith Arith List Bool Lia.
From FF Require Import Lib.Word Gen.Consts_device_acpi_aml Aml.Stream Aml.Lex Aml.Tree Aml.Parser Aml.TreeSpec Aml.TreeProofs
  Aml.ParserTotalTree Aml.ParserTotalTree2 Aml.ParserTotalTable Aml.ParserTotalLex Aml.ParserTotalBase Aml.ParserTotalLeaf Aml.ParserTotalFrame
  Aml.ParserTotalDeferM Aml.ParserTotalMerge Aml.ParserTotalBenign.
Import ListNotations.
Local Open Scope N_scope.

Definition FN (t : T) : Prop := forall i o, tget t i = Some o -> o_opcode o = opFreed -> name_lead (o_name o) = false.

Definition fk {A} (P : T -> Prop) (m : M A) (Q : A -> T -> Prop) : Prop :=
  forall s a s', FN (p_tree s) -> P (p_tree s) -> m s = Ok (a, s') -> FN (p_tree s') /\ Q a (p_tree s').
Definition FT : T -> Prop := fun _ => True.
Definition fpk {A} (m : M A) : Prop := fk FT m (fun _ => FT).

Lemma fk_bind {A B} P (m : M A) Q (f : A -> M B) R : fk P m Q -> (forall a, fk (Q a) (f a) R) -> fk P (bindM m f) R.
Proof. intros Hm Hf s b s' Hg Hp H. apply bindM_ok in H. destruct H as (a & s1 & E1 & E2). destruct (Hm _ _ _ Hg Hp E1) as (G1 & Q1). exact (Hf a _ _ _ G1 Q1 E2). Qed.
Lemma fk_conseq {A} (P P' : T -> Prop) (m : M A) (Q Q' : A -> T -> Prop) :
  (forall t, P' t -> P t) -> (forall a t, Q a t -> Q' a t) -> fk P m Q -> fk P' m Q'.
Proof. intros H1 H2 Hm s a s' Hg Hp H. destruct (Hm _ _ _ Hg (H1 _ Hp) H) as (G1 & Q1). split; [exact G1|exact (H2 _ _ Q1)]. Qed.
Lemma fk_weak {A} P (m : M A) : fpk m -> fk P m (fun _ => FT).
Proof. apply fk_conseq; intros; exact I. Qed.
Lemma fpk_bind {A B} (m : M A) (f : A -> M B) : fpk m -> (forall a, fpk (f a)) -> fpk (bindM m f).
Proof. intros Hm Hf. eapply fk_bind; [exact Hm|exact Hf]. Qed.
Lemma fk_bind_weak {A B} P (m : M A) (f : A -> M B) : fk P m (fun _ => FT) -> (forall a, fpk (f a)) -> fk P (bindM m f) (fun _ => FT).
Proof. intros Hm Hf. eapply fk_bind; [exact Hm|exact Hf]. Qed.
Lemma fpk_if {A} (b : bool) (m1 m2 : M A) : fpk m1 -> fpk m2 -> fpk (if b then m1 else m2).
Proof. destruct b; auto. Qed.
Lemma fk_fail {A} P (m : M A) Q : (forall s, m s = Panic \/ m s = OutOfFuel) -> fk P m Q.
Proof. intros H s a s' _ _ E. destruct (H s) as [F|F]; rewrite F in E; discriminate. Qed.
Lemma fpk_fail {A} (m : M A) : (forall s, m s = Panic \/ m s = OutOfFuel) -> fpk m.
Proof. apply fk_fail. Qed.
Lemma fk_pure {A} P (m : M A) : notree m -> fk P m (fun _ => P).
Proof. intros Hn s a s' Hg Hp E. rewrite (Hn _ _ _ E). split; [exact Hg|exact Hp]. Qed.
Lemma fpk_pure {A} (m : M A) : notree m -> fpk m.
Proof. intros Hn. apply (fk_pure FT m Hn). Qed.

Definition has (p : N) (F : Obj -> Prop) : T -> Prop := fun t => forall o, tget t p = Some o -> F o.

Lemma fk_wrf p f (F F' : Obj -> Prop) :
  (forall o, F o -> F' (f o)) ->
  (forall o, F o -> o_opcode (f o) = opFreed -> o_opcode o = opFreed /\ o_name (f o) = o_name o) ->
  fk (has p F) (wrf p f) (fun _ => has p F').
Proof.
  intros H1 H2 s u s' Hg Hp H.
  unfold wrf, tu in H. destruct (wr (p_tree s) p f) as [t'| |] eqn:E; try discriminate.
  inversion H; subst. destruct (wr_inv _ _ _ _ E) as (-> & o0 & Ho0). cbn [p_tree with_tree].
  split.
  - intros n no Hn Hop. rewrite get_tset in Hn. destruct (N.eqb_spec n p) as [->|_]; [|exact (Hg _ _ Hn Hop)].
    rewrite Ho0 in Hn. cbn [option_map] in Hn. inversion Hn; subst no.
    destruct (H2 o0 (Hp _ Ho0) Hop) as (A & B). rewrite B. exact (Hg _ _ Ho0 A).
  - intros o Ho. rewrite get_tset, N.eqb_refl, Ho0 in Ho. cbn [option_map] in Ho. inversion Ho; subst o. apply H1. apply Hp. exact Ho0.
Qed.
Lemma fpk_wrf p f :
  (forall o, o_opcode (f o) = opFreed -> o_opcode o = opFreed /\ o_name (f o) = o_name o) -> fpk (wrf p f).
Proof.
  intros H. eapply fk_conseq; [| |apply (fk_wrf p f (fun _ => True) (fun _ => True)); [auto|intros o _; apply H]].
  - intros t _ o _. exact I.
  - intros; exact I.
Qed.

Lemma fk_newObj opc : opc <> opFreed -> fk FT (newObj opc) (fun p => has p (fun o => o_opcode o = opc)).
Proof.
  intros Hne s a s' Hg _ H.
  unfold newObj in H. destruct (newObject (p_tree s) opc (p_handle s)) as [[t' p]| |] eqn:E; try discriminate.
  inversion H; subst a s'. cbn [p_tree with_tree]. destruct (newObject_init _ _ _ _ _ E) as (o & info & Hq).
  destruct (newObject_shape _ _ _ _ _ E) as (_ & _ & Hbw & _).
  split.
  - intros n no Hn Hop. destruct (N.eq_dec n p) as [->|Hnp]; [rewrite Hq in Hn; inversion Hn; subst no; cbn in Hop; contradiction|].
    exact (Hg _ _ (Hbw n no Hnp Hn) Hop).
  - intros o' Ho'. rewrite Hq in Ho'. inversion Ho'; subst o'. reflexivity.
Qed.
Lemma fpk_newObj opc : opc <> opFreed -> fpk (newObj opc).
Proof. intros Hne. eapply fk_conseq; [| |apply (fk_newObj opc Hne)]; intros; exact I. Qed.

Lemma fpk_tu_pframe (f : T -> outcome T) : (forall t t', f t = Ok t' -> pframe t t') -> fpk (tu f).
Proof.
  intros Hf s a s' Hg _ H.
  unfold tu in H. destruct (f (p_tree s)) as [t'| |] eqn:E; try discriminate. inversion H; subst. cbn [p_tree with_tree].
  split; [|exact I].
  intros n no Hn Hop. destruct (pframe_inv _ _ _ _ (Hf _ _ E) Hn) as (o0 & Ho0 & E1 & _ & _ & E4 & _).
  rewrite E4. apply (Hg n o0 Ho0). congruence.
Qed.

Lemma fpk_lex_op {B} (f : reader -> outcome (N * bool * reader)) (k : N * bool -> M B) :
  (forall r op r', f r = Ok (op, true, r') -> op <> opFreed) ->
  (forall op, op <> opFreed -> fpk (k (op, true))) -> (forall op, fpk (k (op, false))) -> fpk (bindM (lex f) k).
Proof.
  intros Hf Hk1 Hk2 s b s' Hg Hp H. unfold bindM, lex in H. destruct (f (p_r s)) as [[[op ok] r1]| |] eqn:E; try discriminate.
  destruct ok; [exact (Hk1 op (Hf _ _ _ E) (with_r s r1) _ _ Hg Hp H)|exact (Hk2 op (with_r s r1) _ _ Hg Hp H)].
Qed.

(** ---- automation ---- *)
Ltac fp_side :=
  let o := fresh "o" in let H1 := fresh "H1" in
  intros o H1;
  cbn [o_opcode o_name set_opcode set_name set_amlOffset set_pkgEnd set_value set_infoIndex] in H1 |- *;
  first [ (split; [assumption|reflexivity]) | discriminate ].

Ltac fpk_prim :=
  first [ (apply fpk_pure; notree_prim2)
        | (apply fpk_wrf; fp_side)
        | (apply fpk_newObj; first [discriminate | assumption])
        | (apply fpk_tu_pframe; let t := fresh in let t' := fresh in let E := fresh in intros t t' E;
           first [solve [eapply append_pframe; eauto] | solve [eapply appendAfter_pframe; eauto] | solve [eapply detach_pframe; eauto]]) ].

Ltac carryf := eapply fk_bind; [apply fk_pure; notree_prim2|intros ?; cbv beta].

(** ---- readName: set_name hits the NamedField just created ---- *)
Lemma readName_go_fk field cnt : forall i, fk (has field (fun o => o_opcode o = aml_pOpIntNamedField)) (readName_go cnt i field) (fun _ => FT).
Proof.
  induction cnt as [|cnt IH]; intros i; cbn [readName_go].
  - apply fk_weak. fpk_prim.
  - carryf. carryf. destruct a as [b|].
    + eapply fk_bind; [|intros ?; cbv beta; apply IH].
      apply (fk_wrf field _ _ (fun o => o_opcode o = aml_pOpIntNamedField)); [intros o Ho; exact Ho|].
      intros o Ho H1. cbn [o_opcode set_name] in H1. rewrite Ho in H1. discriminate.
    + eapply fk_bind_weak; [|intros ?; fpk_prim].
      eapply fk_conseq; [intros t Ht; exact Ht|intros; exact I|].
      apply (fk_wrf field _ (fun o => o_opcode o = aml_pOpIntNamedField) (fun _ => True)); [auto|].
      intros o Ho H1. cbn [o_opcode set_name] in H1. rewrite Ho in H1. discriminate.
Qed.

Lemma fk_field_head {B} n (K : N -> bool -> M B) :
  (forall field okn, fpk (K field okn)) ->
  fpk (bindM (newObj aml_pOpIntNamedField) (fun field =>
       bindM (Parser.get (fun s => r_offset (p_r s))) (fun off =>
       bindM (wrf field (set_amlOffset off)) (fun _ =>
       bindM (readName_go n 0 field) (fun okn => K field okn))))).
Proof.
  intros HK. eapply fk_bind; [apply fk_newObj; discriminate|intros field; cbv beta].
  carryf.
  eapply fk_bind; [apply (fk_wrf field _ _ (fun o => o_opcode o = aml_pOpIntNamedField)); [intros o Ho; exact Ho|fp_side]|intros ?; cbv beta].
  eapply fk_bind; [apply readName_go_fk|intros okn; cbv beta; apply HK].
Qed.

Ltac fp_unf :=
  unfold rq, offsetM, eofM, curTable, rdf, rdo, objectAt, objectAt', appendM, detachM,
         setOffsetM, pushPkgEnd, bytesOf, scopeCurrent, methodArgCountPanic, streamFuel, fieldByte.

Ltac fpk_tac rec :=
  repeat first
    [ rec
    | match goal with
      | |- fpk (bindM (newObj aml_pOpIntNamedField) _) => apply fk_field_head; intros ? ?
      | |- fpk (bindM (lex nextOpcode) (fun _ => let '(_, _) := _ in _)) =>
          apply fpk_lex_op; [exact nextOpcode_not_freed|intros ? ?; cbv beta iota; cbn [negb]|intros ?; cbv beta iota; cbn [negb]]
      | |- fpk (bindM (lex peekNextOpcode) (fun _ => let '(_, _) := _ in _)) =>
          apply fpk_lex_op; [exact peekNextOpcode_not_freed|intros ? ?; cbv beta iota; cbn [negb]|intros ?; cbv beta iota; cbn [negb]]
      end
    | fpk_prim | apply fpk_if | (apply fpk_bind; [|intros ?])
    | match goal with |- fpk (match ?x with _ => _ end) => destruct x end
    | match goal with |- fpk (let '(_, _) := ?x in _) => destruct x end ].

Lemma parseByteList_fpk obj n : fpk (parseByteList obj n).
Proof. unfold parseByteList. fp_unf. fpk_tac fail. Qed.
Lemma parseSimpleArg_fpk ty : fpk (parseSimpleArg ty).
Proof. unfold parseSimpleArg. fp_unf. cbv zeta. fpk_tac fail. Qed.
Lemma fieldElements_go_fpk fuel : forall curObj f, fpk (fieldElements_go fuel curObj f).
Proof.
  induction fuel as [|fuel IH]; intros curObj f; cbn [fieldElements_go]; [apply fpk_fail; intros; right; reflexivity|].
  fp_unf. fpk_tac ltac:(first [apply IH | apply parseByteList_fpk]).
Qed.
Lemma parseFieldElements_fpk curObj : fpk (parseFieldElements curObj).
Proof. unfold parseFieldElements. fp_unf. fpk_tac ltac:(apply fieldElements_go_fpk). Qed.

Definition fnblock (fuel : nat) : Prop :=
  fpk (parseNextObject fuel) /\ (forall c, fpk (parseObjectArgs fuel c)) /\
  (forall inf c i, fpk (parseArgs fuel inf c i)) /\ (forall inf c ty, fpk (parseArg fuel inf c ty)) /\
  fpk (termList_go fuel) /\ fpk (parseNamePathOrMethodCall fuel) /\ (forall n, fpk (callArgs_go fuel n)) /\
  (forall c, fpk (parseStrictTermArg fuel c)) /\ fpk (parseTarget fuel).

Ltac fp_rec H1 H2 H3 H4 H5 H6 H7 H8 H9 :=
  first [apply H1 | apply H2 | apply H3 | apply H4 | apply H5 | apply H6 | apply H7 | apply H8 | apply H9
        | apply parseSimpleArg_fpk | apply parseByteList_fpk | apply parseFieldElements_fpk].

Lemma fnblock_all : forall fuel, fnblock fuel.
Proof.
  induction fuel as [|fuel (H1 & H2 & H3 & H4 & H5 & H6 & H7 & H8 & H9)].
  - unfold fnblock. repeat match goal with |- _ /\ _ => split end; intros; cbn; apply fpk_fail; intros; right; reflexivity.
  - unfold fnblock. repeat match goal with |- _ /\ _ => split end; intros.
    + cbn [parseNextObject]. fp_unf. fpk_tac ltac:(fp_rec H1 H2 H3 H4 H5 H6 H7 H8 H9).
    + cbn [parseObjectArgs]. fp_unf. fpk_tac ltac:(fp_rec H1 H2 H3 H4 H5 H6 H7 H8 H9).
    + cbn [parseArgs]. destruct inf as [[? ?] ?]. fp_unf. fpk_tac ltac:(fp_rec H1 H2 H3 H4 H5 H6 H7 H8 H9).
    + cbn [parseArg]. destruct inf as [[? ?] ?]. fp_unf. fpk_tac ltac:(fp_rec H1 H2 H3 H4 H5 H6 H7 H8 H9).
    + cbn [termList_go]. fp_unf. fpk_tac ltac:(fp_rec H1 H2 H3 H4 H5 H6 H7 H8 H9).
    + cbn [parseNamePathOrMethodCall]. fp_unf. fpk_tac ltac:(fp_rec H1 H2 H3 H4 H5 H6 H7 H8 H9).
    + cbn [callArgs_go]. fp_unf. fpk_tac ltac:(fp_rec H1 H2 H3 H4 H5 H6 H7 H8 H9).
    + cbn [parseStrictTermArg]. fp_unf. fpk_tac ltac:(fp_rec H1 H2 H3 H4 H5 H6 H7 H8 H9).
    + cbn [parseTarget]. fp_unf. fpk_tac ltac:(fp_rec H1 H2 H3 H4 H5 H6 H7 H8 H9).
Qed.

(** parseNextObject (either mode) keeps FN *)
Lemma parseNextObject_FN fuel s a s' : parseNextObject fuel s = Ok (a, s') -> FN (p_tree s) -> FN (p_tree s').
Proof. intros E H. destruct (proj1 (fnblock_all fuel) s a s' H I E) as (H' & _). exact H'. Qed.
