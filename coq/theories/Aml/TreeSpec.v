(** Specification side of C13: the ghost abstract forest, the relation [R] between the object pool
    and the forest (DESIGN.md Appendix A.3), the abstract effect and the legality of every edit,
    and the reference resolver.  Definitions only. *)
From Coq Require Import NArith List Bool.
From FF Require Import Lib.Word Gen.Consts_aml_tree Aml.Stream Aml.Tree.
Import ListNotations.
Local Open Scope N_scope.

(** the object in pool slot [i] *)
Definition get {V} (t : ObjectTree V) (i : N) : option (Object V) := nth_error (t_pool t) (N.to_nat i).

Definition live {V} (t : ObjectTree V) (i : N) : Prop :=
  exists o, get t i = Some o /\ o_opcode o <> opFreed.

(** ---- the ghost forest ---- *)
Record ghost : Type := mkGhost {
  g_kids : list (list N);    (* children of slot i, in order *)
  g_free : list N            (* the freed slots, most recently freed first *)
}.

Definition kids (g : ghost) (i : N) : list N := nth (N.to_nat i) (g_kids g) [].

(** [chain t p prev l nxt]: the objects of [l] are live, have parent [p] and are doubly linked in
    this order; the one before the first is [prev], the one after the last is [nxt]. *)
Definition node {V} (t : ObjectTree V) (c p prev nxt : N) : Prop :=
  exists o, get t c = Some o /\ o_opcode o <> opFreed /\ o_parent o = p /\ o_prev o = prev /\ o_next o = nxt.

Fixpoint chain {V} (t : ObjectTree V) (p prev : N) (l : list N) (nxt : N) : Prop :=
  match l with
  | [] => True
  | c :: rest => node t c p prev (hd nxt rest) /\ chain t p c rest nxt
  end.

(** the free list: threaded through [nextSiblingIndex] of objects with the freed opcode *)
Fixpoint fchain {V} (t : ObjectTree V) (head : N) (l : list N) : Prop :=
  match l with
  | [] => head = InvalidIndex
  | x :: rest => head = x /\ exists o, get t x = Some o /\ o_opcode o = opFreed /\ fchain t (o_next o) rest
  end.

(** [Depth t i k]: following parent links from the live object [i] reaches a root in [k] steps *)
Inductive Depth {V} (t : ObjectTree V) : N -> nat -> Prop :=
| Depth_root i o : get t i = Some o -> o_opcode o <> opFreed -> o_parent o = InvalidIndex -> Depth t i 0
| Depth_step i o k : get t i = Some o -> o_opcode o <> opFreed -> o_parent o <> InvalidIndex ->
                     Depth t (o_parent o) k -> Depth t i (S k).

(** The relation between the pool and the forest. *)
Record R {V} (t : ObjectTree V) (g : ghost) : Prop := mkR {
  R_len : length (g_kids g) = length (t_pool t);
  R_bound : N.of_nat (length (t_pool t)) <= InvalidIndex;
  R_index : forall i o, get t i = Some o -> o_index o = i;
  (* parent -> children: first/last and the sibling links spell the child list *)
  R_kids : forall i o, get t i = Some o -> o_opcode o <> opFreed ->
      o_first o = hd InvalidIndex (kids g i) /\ o_last o = last (kids g i) InvalidIndex /\
      chain t i InvalidIndex (kids g i) InvalidIndex /\ NoDup (kids g i);
  (* child -> parent: a parent link leads to the list that contains the child; detached objects have no links *)
  R_up : forall i o, get t i = Some o -> o_opcode o <> opFreed ->
      if o_parent o =? InvalidIndex then o_prev o = InvalidIndex /\ o_next o = InvalidIndex
      else In i (kids g (o_parent o));
  (* freed objects: childless, on the free list (hence in nobody's child list, see R_kids) *)
  R_freed : forall i o, get t i = Some o -> o_opcode o = opFreed -> kids g i = [] /\ In i (g_free g);
  R_flist : fchain t (t_free t) (g_free g) /\ NoDup (g_free g);
  (* no cycles through parent links *)
  R_acyc : forall i o, get t i = Some o -> o_opcode o <> opFreed -> exists k, Depth t i k
}.

(** ---- abstract effect of the edits ---- *)
Fixpoint list_set {A} (l : list A) (n : nat) (v : A) : list A :=
  match l, n with
  | [], _ => []
  | _ :: r, O => v :: r
  | x :: r, S k => x :: list_set r k v
  end.

Definition set_kids (g : ghost) (i : N) (l : list N) : ghost :=
  mkGhost (list_set (g_kids g) (N.to_nat i) l) (g_free g).

Fixpoint insert_after (n a : N) (l : list N) : list N :=
  match l with
  | [] => []
  | x :: r => if x =? n then x :: a :: r else x :: insert_after n a r
  end.

Fixpoint remove1 (a : N) (l : list N) : list N :=
  match l with
  | [] => []
  | x :: r => if x =? a then r else x :: remove1 a r
  end.

Definition slots (g : ghost) : list N := map N.of_nat (seq 0 (length (g_kids g))).

(** the parent of [c] in the forest *)
Definition parent_of (g : ghost) (c : N) : option N :=
  find (fun p => existsb (N.eqb c) (kids g p)) (slots g).

Definition astep (g : ghost) (o : op) : ghost :=
  match o with
  | OpNew _ _ | OpNewNamed _ _ _ =>
      match g_free g with
      | [] => mkGhost (g_kids g ++ [[]]) []
      | _ :: rest => mkGhost (g_kids g) rest
      end
  | OpAppend obj arg => set_kids g obj (kids g obj ++ [arg])
  | OpAppendAfter obj arg nextTo => set_kids g obj (insert_after nextTo arg (kids g obj))
  | OpDetach obj arg => set_kids g obj (remove1 arg (kids g obj))
  | OpFree x =>
      let g1 := match parent_of g x with
                | Some p => set_kids g p (remove1 x (kids g p))
                | None => g
                end in
      mkGhost (g_kids g1) (x :: g_free g)
  end.

Fixpoint arun (g : ghost) (ops : list op) : ghost :=
  match ops with
  | [] => g
  | o :: rest => arun (astep g o) rest
  end.

(** ---- legal edits (stated over the forest only) ---- *)
Definition glive (g : ghost) (i : N) : Prop := i < N.of_nat (length (g_kids g)) /\ ~ In i (g_free g).
Definition groot (g : ghost) (i : N) : Prop := forall p, ~ In i (kids g p).

(** [desc g a x]: [x] is [a] or a descendant of [a] *)
Inductive desc (g : ghost) (a : N) : N -> Prop :=
| desc_refl : desc g a a
| desc_step p c : desc g a p -> In c (kids g p) -> desc g a c.

(** opcodes for which pOpcodeTableIndex does not index beyond the opcode maps *)
Definition opcode_in_maps (opc : N) : Prop :=
  opc <= 0xff \/ opc - 0xff < N.of_nat (length tree_extendedOpcodeMap).

Definition legal_new (g : ghost) (opc : N) : Prop :=
  opc <> opFreed /\ opcode_in_maps opc /\
  (g_free g = [] -> N.of_nat (length (g_kids g)) < InvalidIndex).

Definition legal (g : ghost) (o : op) : Prop :=
  match o with
  | OpNew opc _ | OpNewNamed opc _ _ => legal_new g opc
  | OpAppend obj arg => glive g obj /\ glive g arg /\ groot g arg /\ ~ desc g arg obj
  | OpAppendAfter obj arg nextTo =>
      glive g obj /\ glive g arg /\ groot g arg /\ ~ desc g arg obj /\ In nextTo (kids g obj)
  | OpDetach obj arg => In arg (kids g obj)
  | OpFree x => glive g x /\ kids g x = []
  end.

Fixpoint legal_seq (g : ghost) (ops : list op) : Prop :=
  match ops with
  | [] => True
  | o :: rest => legal g o /\ legal_seq (astep g o) rest
  end.

(** the empty tree and its forest *)
Definition ghost0 : ghost := mkGhost [] [].

(** ---- the reference resolver (over the forest; names are read from the objects) ---- *)
Definition name_at {V} (t : ObjectTree V) (i : N) : Name :=
  match get t i with Some o => o_name o | None => name_zero end.

Section Resolver.
Variable g : ghost.
Variable nm : N -> Name.

(** the first child of [scope] called [seg] *)
Definition lookup (scope : N) (seg : Name) : option N :=
  find (fun c => name_eqb seg (nm c)) (kids g scope).

(** split the relative part of an expression into 4-byte segments; before each segment the
    bytes that cannot start a name ('_' or 'A'-'Z') are skipped, a multi-name prefix (0x2f)
    together with the segment count that follows it; [None] when bytes are left over that do not
    form a whole segment ([skipping]: such bytes have just been skipped) *)
Fixpoint segments (skipping : bool) (e : list N) : option (list Name) :=
  match e with
  | [] => if skipping then None else Some []
  | b0 :: rest0 =>
      if is_lead b0 then
        match rest0 with
        | b1 :: b2 :: b3 :: rest => option_map (cons (b0, b1, b2, b3)) (segments false rest)
        | _ => None
        end
      else if b0 =? 0x2f then          (* MultiNamePrefix SegCount *)
        match rest0 with _ :: rest1 => segments true rest1 | [] => None end
      else segments true rest0
  end.

(** downward resolution, segment by segment *)
Fixpoint walk (scope : N) (names : list Name) : option N :=
  match names with
  | [] => Some scope
  | n :: rest => match lookup scope n with Some c => walk c rest | None => None end
  end.

Definition resolve_rel (scope : N) (e : list N) : option N :=
  match segments false e with Some names => walk scope names | None => None end.

(** a single segment: the scope, then each enclosing scope *)
Fixpoint search_up (fuel : nat) (scope : N) (seg : Name) : option N :=
  match fuel with
  | O => None
  | S fuel =>
      match lookup scope seg with
      | Some c => Some c
      | None => match parent_of g scope with Some p => search_up fuel p seg | None => None end
      end
  end.

(** each '^' is one parent; there is none above a root *)
Fixpoint carets (scope : N) (e : list N) : option N :=
  match e with
  | [] => Some scope
  | b :: rest =>
      if b =? 0x5e then match parent_of g scope with Some p => carets p rest | None => None end
      else resolve_rel scope e
  end.

Definition resolve (scope : N) (e : list N) : option N :=
  match e with
  | [] => None
  | b :: rest =>
      if b =? 0x5c then resolve_rel 0 rest                    (* '\': from the root, slot 0 *)
      else if b =? 0x5e then carets scope e
      else match e with
           | [b0; b1; b2; b3] => search_up (length (g_kids g)) scope (b0, b1, b2, b3)
           | _ => if 4 <? N.of_nat (length e) then resolve_rel scope e else None
           end
  end.
End Resolver.

Definition enc_result (r : option N) : N := match r with Some i => i | None => InvalidIndex end.
