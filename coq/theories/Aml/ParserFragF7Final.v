(** C11 (fragment F7): [parse_encode] for the fragment F6 extended by Name declarations whose value is a package of constants.

    F7 = F6 + Name(SEG, Package(n){e1, ..., em}) where every element is an integer constant (Zero / One / Ones /
    Byte- / Word- / DWord- / QWordPrefix) or a string, anywhere an item of F6 may stand (m may be smaller than n, as ACPI allows).
    Productions added to F6: DataRefObject = DefPackage (PackageOp PkgLength NumElements PackageElementList) with
    PackageElement = DataRefObject restricted to integer constants and strings.
    The package is parsed in the first pass as an object of its own with two arguments (the element count and a
    scope block holding the elements); connectNamedObjArgs attaches the whole subtree to the Name. *)
From Coq Require Import NArith ZArith Arith List Bool Lia Permutation.
From Coq Require Import ZifyBool ZifyN ZifyNat.
From FF Require Import Lib.Word Gen.Consts_device_acpi_aml Gen.Consts_aml_tree Aml.Stream Aml.Lex Aml.LexProofs
  Aml.Tree Aml.TreeSpec Aml.Parser Aml.Grammar Aml.LexRoundtrip
  Aml.ParserFragBase Aml.ParserFragFirst Aml.ParserFragF0 Aml.ParserFragF0Conn Aml.ParserFragF0Top
  Aml.ParserFragRose Aml.ParserFragDev Aml.ParserFragArgs Aml.ParserFragF1 Aml.ParserFragF1First Aml.ParserFragF1Conn Aml.ParserFragF1Top
  Aml.View Aml.ParserFragView Aml.ParserFragF0View Aml.ParserFragF0Final Aml.ParserFragSort Aml.ParserFragF1View Aml.WfProgram
  Aml.ParserFragF1Final Aml.ParserFragScope Aml.ParserFragScope3 Aml.ParserFragF3Top Aml.ParserFragF3View Aml.ParserFragF3Final.
Import ListNotations.
Local Open Scope N_scope.

Ltac Zify.zify_post_hook ::= Z.div_mod_to_equations.

Definition targ_of (a : ast) : option targ :=
  match a with AConst op v => Some (TInt (mkDecl 0 op v)) | AStr b => Some (TStr b) | _ => None end.
Fixpoint targs_of (l : list ast) : option (list targ) :=
  match l with
  | [] => Some []
  | x :: t => match targ_of x, targs_of t with Some i, Some r => Some (i :: r) | _, _ => None end
  end.

Lemma pel_ast_leaves ta : map pel_ast (map PLeaf ta) = map targ_ast ta.
Proof. rewrite map_map. reflexivity. Qed.

Lemma targs_of_ast : forall l ta, targs_of l = Some ta -> l = map targ_ast ta.
Proof.
  induction l as [|x t IH]; intros ta H; cbn [targs_of] in H.
  - inversion H. reflexivity.
  - destruct (targ_of x) as [i|] eqn:Ei; [|discriminate]. destruct (targs_of t) as [r|] eqn:Er; [|discriminate].
    inversion H; subst ta. cbn [map]. rewrite <- (IH r eq_refl). f_equal.
    destruct x; try discriminate; inversion Ei; reflexivity.
Qed.

Fixpoint f7_item (a : ast) : option item :=
  let go := fix go (l : list ast) : option (list item) :=
              match l with
              | [] => Some []
              | x :: t => match f7_item x, go t with Some i, Some r => Some (i :: r) | _, _ => None end
              end in
  let blk (bk : bkind) (k : N) (nm : namestr) (fa : list N) (body : list ast) : option item :=
      match simple_name nm, go body with
      | Some seg, Some b => Some (IBlk bk k seg fa b)
      | _, _ => None
      end in
  match a with
  | AName nm (AConst op v) => match simple_name nm with Some seg => Some (IName (mkDecl seg op v)) | None => None end
  | AName nm (AStr b) => match simple_name nm with Some seg => Some (ILeaf LName seg [] [TStr b]) | None => None end
  | AName nm (APackage k n elems) =>
      match simple_name nm, targs_of elems with Some seg, Some ta => Some (IPkg seg k n (map PLeaf ta)) | _, _ => None end
  | ADevice k nm body => blk BDev k nm [] body
  | AThermal k nm body => blk BTZ k nm [] body
  | AProcessor k nm id addr len body => blk BProc k nm [id; addr; len] body
  | APowerRes k nm level order body => blk BPwr k nm [level; order] body
  | AMethod k nm fl body => blk BMeth k nm [fl] body
  | AMutex nm sync => match simple_name nm with Some seg => Some (ILeaf LMutex seg [sync] []) | None => None end
  | AEvent nm => match simple_name nm with Some seg => Some (ILeaf LEvent seg [] []) | None => None end
  | AOpRegion nm space (AConst op1 v1) (AConst op2 v2) =>
      match simple_name nm with Some seg => Some (ILeaf LOpReg seg [space] [TInt (mkDecl 0 op1 v1); TInt (mkDecl 0 op2 v2)]) | None => None end
  | _ => None
  end.

Fixpoint f7_items (l : list ast) : option (list item) :=
  match l with
  | [] => Some []
  | x :: t => match f7_item x, f7_items t with Some i, Some r => Some (i :: r) | _, _ => None end
  end.

Definition f7_titem (a : ast) : option titem :=
  match a with
  | AScope k nm body =>
      match scope_target nm, f7_items body with
      | Some (root, d), Some b => Some (TScope k root d b)
      | _, _ => None
      end
  | _ => match f7_item a with Some it => Some (TItem it) | None => None end
  end.

Fixpoint f7_titems (l : list ast) : option (list titem) :=
  match l with
  | [] => Some []
  | x :: t => match f7_titem x, f7_titems t with Some i, Some r => Some (i :: r) | _, _ => None end
  end.

Definition in_fragment_F7 (tables : list (list ast)) : bool :=
  match tables with
  | [p] => match f7_titems p with Some _ => lenN (encode_table p) <? 0x10000000 | None => false end
  | _ => false
  end.

Lemma f7_item_ast : forall a it, f7_item a = Some it -> a = item_ast it /\ shape_ok it = true.
Proof.
  fix IH 1. intros a it.
  assert (HL : forall l b, (fix go (l : list ast) : option (list item) :=
                              match l with
                              | [] => Some []
                              | x :: t => match f7_item x, go t with Some i, Some r => Some (i :: r) | _, _ => None end
                              end) l = Some b -> l = map item_ast b /\ forallb shape_ok b = true).
  { induction l as [|x t IHt]; intros b Hb.
    - inversion Hb. split; reflexivity.
    - destruct (f7_item x) as [i|] eqn:Ei; [|discriminate].
      match type of Hb with match ?G with _ => _ end = _ => destruct G as [r|] eqn:Er; [|discriminate] end.
      inversion Hb; subst b. cbn [map forallb]. destruct (IH x i Ei) as (-> & Hi). destruct (IHt r eq_refl) as (-> & Hr).
      rewrite Hi, Hr. split; reflexivity. }
  destruct a as [ | | | | | | | | | | | | | k nm body | k nm body | k nm id addr len body | k nm level order body | k nm fl body | nm v | nm space off len | | | | nm sync | nm ]; try discriminate;
    cbn [f7_item];
    try (destruct (simple_name nm) as [seg|] eqn:En; [|discriminate]; apply simple_name_eq in En; subst nm;
         match goal with |- match ?G with _ => _ end = _ -> _ => destruct G as [b|] eqn:Eb; [|discriminate] end;
         intros E; inversion E; subst it; destruct (HL body b Eb) as (-> & Hb); split; [reflexivity|];
         cbn [shape_ok bk_ws length Nat.eqb andb]; exact Hb).
  - destruct v; try discriminate; (destruct (simple_name nm) as [seg|] eqn:En; [|discriminate]); apply simple_name_eq in En; subst nm;
      try (destruct (targs_of elems) as [ta|] eqn:Eta; [apply targs_of_ast in Eta; subst elems|discriminate]);
      intros E; inversion E; cbn [item_ast]; rewrite ?pel_ast_leaves; split; reflexivity.
  - destruct off; try discriminate. destruct len; try discriminate. destruct (simple_name nm) as [seg|] eqn:En; [|discriminate]. apply simple_name_eq in En. subst nm.
    intros E; inversion E. split; reflexivity.
  - destruct (simple_name nm) as [seg|] eqn:En; [|discriminate]. apply simple_name_eq in En. subst nm.
    intros E; inversion E. split; reflexivity.
  - destruct (simple_name nm) as [seg|] eqn:En; [|discriminate]. apply simple_name_eq in En. subst nm.
    intros E; inversion E. split; reflexivity.
Qed.

Lemma f7_items_ast : forall p its, f7_items p = Some its -> p = map item_ast its /\ forallb shape_ok its = true.
Proof.
  induction p as [|x t IH]; intros its Hp; cbn [f7_items] in Hp.
  - inversion Hp. split; reflexivity.
  - destruct (f7_item x) as [i|] eqn:Ei; [|discriminate]. destruct (f7_items t) as [r|] eqn:Er; [|discriminate].
    inversion Hp; subst its. cbn [map forallb]. destruct (f7_item_ast x i Ei) as (-> & Hi). destruct (IH r eq_refl) as (-> & Hr).
    rewrite Hi, Hr. split; reflexivity.
Qed.

Lemma f7_titem_ast a x : f7_titem a = Some x -> a = titem_ast x /\ tscope_ok x /\ tshape x = true.
Proof.
  assert (Hgen : match f7_item a with Some it => Some (TItem it) | None => None end = Some x -> a = titem_ast x /\ tscope_ok x /\ tshape x = true).
  { destruct (f7_item a) as [it|] eqn:Ei; [|discriminate]. intros E; inversion E. destruct (f7_item_ast a it Ei) as (A & B). split; [exact A|split; [exact I|exact B]]. }
  destruct a; try exact Hgen. clear Hgen. cbn [f7_titem].
  destruct (scope_target nm) as [[root d]|] eqn:En; [|discriminate]. destruct (f7_items body) as [b|] eqn:Eb; [|discriminate].
  intros E; inversion E. destruct (scope_target_eq _ _ _ En) as (-> & Hd). cbn [titem_ast tscope_ok tshape].
  destruct (f7_items_ast _ _ Eb) as (-> & Hs). split; [reflexivity|split; [exact Hd|exact Hs]].
Qed.

Lemma f7_titems_ast : forall p ts, f7_titems p = Some ts -> p = map titem_ast ts /\ Forall tscope_ok ts /\ forallb tshape ts = true.
Proof.
  induction p as [|x t IH]; intros ts Hp; cbn [f7_titems] in Hp.
  - inversion Hp. split; [reflexivity|split; [constructor|reflexivity]].
  - destruct (f7_titem x) as [i|] eqn:Ei; [|discriminate]. destruct (f7_titems t) as [r|] eqn:Er; [|discriminate].
    inversion Hp; subst ts. cbn [map forallb]. destruct (f7_titem_ast x i Ei) as (-> & Hi & Hsi). destruct (IH r eq_refl) as (-> & Hr & Hsr).
    rewrite Hsi, Hsr. split; [reflexivity|split; [constructor; assumption|reflexivity]].
Qed.

(** THE THEOREM for the fragment F7 *)
Theorem parse_encode_F7 : forall tables,
  wf_program tables = true -> in_fragment_F7 tables = true -> parse_encode_statement tables.
Proof.
  intros tables Hwf Hfr. unfold in_fragment_F7 in Hfr.
  destruct tables as [|p [|p2 rest]]; try discriminate.
  destruct (f7_titems p) as [ts|] eqn:Ets; [|discriminate]. apply N.ltb_lt in Hfr.
  destruct (f7_titems_ast p ts Ets) as (-> & Hd & Hs).
  apply parse_encode_titems; assumption.
Qed.
