(** C11 (fragments F1 / F2): Name declarations, (nested) Device blocks and Method declarations whose bodies hold
    declarations only.
    Items, their encoding, the tree the first pass builds for them ([lay1]) and the tree after
    connectNamedObjArgs ([lay2]). *)
From Coq Require Import NArith ZArith Arith List Bool Lia.
From Coq Require Import ZifyBool ZifyN ZifyNat.
From FF Require Import Lib.Word Gen.Consts_device_acpi_aml Gen.Consts_aml_tree Aml.Stream Aml.Lex Aml.LexProofs
  Aml.Tree Aml.TreeSpec Aml.TreeProofs Aml.Parser Aml.Grammar Aml.LexRoundtrip
  Aml.ParserTotalBase Aml.ParserFragBase Aml.ParserFragFirst Aml.ParserFragF0 Aml.ParserFragF0Conn Aml.ParserFragWalk Aml.ParserFragRose.
Import ListNotations.
Local Open Scope N_scope.

Ltac Zify.zify_post_hook ::= Z.div_mod_to_equations.

Inductive item : Type :=
| IName (d : decl)
| IDev (k seg : N) (body : list item)
| IMeth (k seg fl : N) (body : list item).

Fixpoint enc_item (it : item) : list N :=
  match it with
  | IName d => enc_decl d
  | IDev k seg body =>
      enc_op OP_DEVICE ++ enc_pkglen k (k + lenN (seg_bytes seg ++ flat_map enc_item body)) ++ seg_bytes seg ++ flat_map enc_item body
  | IMeth k seg fl body =>
      enc_op OP_METHOD ++ enc_pkglen k (k + lenN (seg_bytes seg ++ [fl] ++ flat_map enc_item body)) ++ seg_bytes seg ++ [fl] ++ flat_map enc_item body
  end.
Definition enc_items (l : list item) : list N := flat_map enc_item l.

(** number of objects / fuel units of the first pass *)
Fixpoint isz (it : item) : nat :=
  match it with IName _ => 3%nat | IDev _ _ body => (3 + fold_right (fun x n => (isz x + n)%nat) O body)%nat
              | IMeth _ _ _ body => (4 + fold_right (fun x n => (isz x + n)%nat) O body)%nat end.
Definition iszs (l : list item) : nat := fold_right (fun x n => (isz x + n)%nat) O l.

Fixpoint icnt (it : item) : nat :=
  match it with IName _ => 2%nat | IDev _ _ body => (2 + fold_right (fun x n => (icnt x + n)%nat) O body)%nat
              | IMeth _ _ _ body => (2 + fold_right (fun x n => (icnt x + n)%nat) O body)%nat end.
Definition icnts (l : list item) : nat := fold_right (fun x n => (icnt x + n)%nat) O l.

Definition pkglen_okb (k v : N) : bool :=
  ((k =? 1) && (v <? 64)) || ((k =? 2) && (v <? 4096)) || ((k =? 3) && (v <? 1048576)) || ((k =? 4) && (v <? 268435456)).

Lemma pkglen_okb_adm k v : pkglen_okb k v = true -> pkglen_admissible k v.
Proof.
  unfold pkglen_okb, pkglen_admissible. intros H.
  repeat (apply orb_prop in H; destruct H as [H|H]); apply andb_prop in H; destruct H as [H1 H2];
    apply N.eqb_eq in H1; apply N.ltb_lt in H2; subst k.
  - left. auto.
  - right; left. split; [reflexivity|]. change (2 ^ 12) with 4096. exact H2.
  - right; right; left. split; [reflexivity|]. change (2 ^ 20) with 1048576. exact H2.
  - right; right; right. split; [reflexivity|]. change (2 ^ 28) with 268435456. exact H2.
Qed.

Fixpoint item_okb (it : item) : bool :=
  match it with
  | IName d => decl_okb d && (d_seg d <? 0x100000000)
  | IDev k seg body =>
      lead_okb (seg_lead seg) && (seg <? 0x100000000) && pkglen_okb k (k + lenN (seg_bytes seg ++ flat_map enc_item body)) &&
      forallb item_okb body
  | IMeth k seg fl body =>
      lead_okb (seg_lead seg) && (seg <? 0x100000000) && (fl <? 256) &&
      pkglen_okb k (k + lenN (seg_bytes seg ++ [fl] ++ flat_map enc_item body)) && forallb item_okb body
  end.

(** ---- the trees ---- *)
Section Lay.
Variable h tbl : N.

Definition dev_pay (off : N) (nm : Name) : pay := mkPay aml_pOpDevice 106 h nm off 0 None.
Definition sb_pay (off : N) : pay := mkPay aml_pOpIntScopeBlock 113 h name_zero off 0 None.
Definition pth_pay (off : N) : pay := mkPay aml_pOpIntNamePath 118 h name_zero off 0 (Some (VBytes tbl (mkSlice (Some off) 4))).
Definition nam_pay (off : N) (nm : Name) : pay := mkPay aml_pOpName 3 h nm off 0 None.
Definition cst_pay (off : N) (d : decl) : pay := mkPay (d_op d) (const_info (d_op d)) h name_zero off 0 (const_val (d_op d) (d_v d)).
Definition mth_pay (off : N) (nm : Name) : pay := mkPay aml_pOpMethod 13 h nm off 0 None.
Definition byt_pay (off v : N) : pay := cst_pay off (mkDecl 0 OP_BYTE v).

(** after the first pass: the constant is the next sibling of the Name object; names are not set *)
Fixpoint lay1_item (b off : N) (it : item) : list rose :=
  match it with
  | IName d => [RN b (nam_pay off name_zero) [RN (b + 1) (pth_pay (off + 1)) []]; RN (b + 2) (cst_pay (off + 5) d) []]
  | IDev k seg body =>
      [RN b (dev_pay off name_zero)
          [RN (b + 1) (pth_pay (off + 2 + k)) [];
           RN (b + 2) (sb_pay (off + 2 + k + 4))
              ((fix go (b off : N) (l : list item) {struct l} : list rose :=
                  match l with [] => [] | x :: t => lay1_item b off x ++ go (b + N.of_nat (isz x)) (off + lenN (enc_item x)) t end)
                 (b + 3) (off + 2 + k + 4) body)]]
  | IMeth k seg fl body =>
      [RN b (mth_pay off name_zero)
          [RN (b + 1) (pth_pay (off + 1 + k)) [];
           RN (b + 2) (byt_pay (off + 1 + k + 4) fl) [];
           RN (b + 3) (sb_pay (off + 1 + k + 5))
              ((fix go (b off : N) (l : list item) {struct l} : list rose :=
                  match l with [] => [] | x :: t => lay1_item b off x ++ go (b + N.of_nat (isz x)) (off + lenN (enc_item x)) t end)
                 (b + 4) (off + 1 + k + 5) body)]]
  end.
Fixpoint lay1 (b off : N) (l : list item) : list rose :=
  match l with [] => [] | x :: t => lay1_item b off x ++ lay1 (b + N.of_nat (isz x)) (off + lenN (enc_item x)) t end.

Lemma lay1_dev b off k seg body : lay1_item b off (IDev k seg body) =
  [RN b (dev_pay off name_zero) [RN (b + 1) (pth_pay (off + 2 + k)) []; RN (b + 2) (sb_pay (off + 2 + k + 4)) (lay1 (b + 3) (off + 2 + k + 4) body)]].
Proof. reflexivity. Qed.

(** after connectNamedObjArgs: names set, the constant below the Name object *)
Fixpoint lay2_item (b off : N) (it : item) : list rose :=
  match it with
  | IName d => [RN b (nam_pay off (seg_nm (d_seg d))) [RN (b + 1) (pth_pay (off + 1)) []; RN (b + 2) (cst_pay (off + 5) d) []]]
  | IDev k seg body =>
      [RN b (dev_pay off (seg_nm seg))
          [RN (b + 1) (pth_pay (off + 2 + k)) [];
           RN (b + 2) (sb_pay (off + 2 + k + 4))
              ((fix go (b off : N) (l : list item) {struct l} : list rose :=
                  match l with [] => [] | x :: t => lay2_item b off x ++ go (b + N.of_nat (isz x)) (off + lenN (enc_item x)) t end)
                 (b + 3) (off + 2 + k + 4) body)]]
  | IMeth k seg fl body =>
      [RN b (mth_pay off (seg_nm seg))
          [RN (b + 1) (pth_pay (off + 1 + k)) [];
           RN (b + 2) (byt_pay (off + 1 + k + 4) fl) [];
           RN (b + 3) (sb_pay (off + 1 + k + 5))
              ((fix go (b off : N) (l : list item) {struct l} : list rose :=
                  match l with [] => [] | x :: t => lay2_item b off x ++ go (b + N.of_nat (isz x)) (off + lenN (enc_item x)) t end)
                 (b + 4) (off + 1 + k + 5) body)]]
  end.
Fixpoint lay2 (b off : N) (l : list item) : list rose :=
  match l with [] => [] | x :: t => lay2_item b off x ++ lay2 (b + N.of_nat (isz x)) (off + lenN (enc_item x)) t end.

Lemma lay1_meth b off k seg fl body : lay1_item b off (IMeth k seg fl body) =
  [RN b (mth_pay off name_zero) [RN (b + 1) (pth_pay (off + 1 + k)) []; RN (b + 2) (byt_pay (off + 1 + k + 4) fl) [];
                                  RN (b + 3) (sb_pay (off + 1 + k + 5)) (lay1 (b + 4) (off + 1 + k + 5) body)]].
Proof. reflexivity. Qed.

Lemma lay2_meth b off k seg fl body : lay2_item b off (IMeth k seg fl body) =
  [RN b (mth_pay off (seg_nm seg)) [RN (b + 1) (pth_pay (off + 1 + k)) []; RN (b + 2) (byt_pay (off + 1 + k + 4) fl) [];
                                     RN (b + 3) (sb_pay (off + 1 + k + 5)) (lay2 (b + 4) (off + 1 + k + 5) body)]].
Proof. reflexivity. Qed.

Lemma lay2_dev b off k seg body : lay2_item b off (IDev k seg body) =
  [RN b (dev_pay off (seg_nm seg)) [RN (b + 1) (pth_pay (off + 2 + k)) []; RN (b + 2) (sb_pay (off + 2 + k + 4)) (lay2 (b + 3) (off + 2 + k + 4) body)]].
Proof. reflexivity. Qed.
End Lay.

Lemma isz_dev k seg body : isz (IDev k seg body) = (3 + iszs body)%nat.
Proof. reflexivity. Qed.
Lemma icnt_dev k seg body : icnt (IDev k seg body) = (2 + icnts body)%nat.
Proof. reflexivity. Qed.
Lemma enc_dev k seg body : enc_item (IDev k seg body) =
  enc_op OP_DEVICE ++ enc_pkglen k (k + lenN (seg_bytes seg ++ enc_items body)) ++ seg_bytes seg ++ enc_items body.
Proof. reflexivity. Qed.

Lemma isz_meth k seg fl body : isz (IMeth k seg fl body) = (4 + iszs body)%nat.
Proof. reflexivity. Qed.
Lemma icnt_meth k seg fl body : icnt (IMeth k seg fl body) = (2 + icnts body)%nat.
Proof. reflexivity. Qed.
Lemma enc_meth k seg fl body : enc_item (IMeth k seg fl body) =
  enc_op OP_METHOD ++ enc_pkglen k (k + lenN (seg_bytes seg ++ [fl] ++ enc_items body)) ++ seg_bytes seg ++ [fl] ++ enc_items body.
Proof. reflexivity. Qed.

Lemma isz_pos it : (3 <= isz it)%nat.
Proof. destruct it; [cbn; lia|rewrite isz_dev; lia|rewrite isz_meth; lia]. Qed.

(** induction on the number of objects *)
Lemma items_ind (P : list item -> Prop) :
  P [] ->
  (forall d rest, P rest -> P (IName d :: rest)) ->
  (forall k seg body rest, P body -> P rest -> P (IDev k seg body :: rest)) ->
  (forall k seg fl body rest, P body -> P rest -> P (IMeth k seg fl body :: rest)) ->
  forall l, P l.
Proof.
  intros H0 Hn Hd Hm.
  assert (HS : forall n l, (iszs l <= n)%nat -> P l).
  { induction n as [|n IH]; intros l Hl.
    - destruct l as [|x t]; [exact H0|]. cbn [iszs fold_right] in Hl. pose proof (isz_pos x). lia.
    - destruct l as [|x t]; [exact H0|]. cbn [iszs fold_right] in Hl. fold (iszs t) in Hl. pose proof (isz_pos x).
      destruct x as [d|k seg body|k seg fl body].
      + apply Hn. apply IH. lia.
      + rewrite isz_dev in Hl. apply Hd; apply IH; lia.
      + rewrite isz_meth in Hl. apply Hm; apply IH; lia. }
  intros l. apply (HS (iszs l)). lia.
Qed.
